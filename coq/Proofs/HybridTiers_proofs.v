(* The repaired Tideman alternative for any number of seats (Model/Hybrids.v with fx = sc = tr = true: the elimination step
   refuses ties, get_winner_set falls back to all candidates of a round without a pairwise contest, the tiers after the first
   run on the votes restricted to the still eligible candidates):

   - one tier on a profile on which somebody stands answers with a plain candidate of the profile or refuses
     (NotImplementedError: a tie among the candidates to eliminate) - never IndexError, whatever the ballots look like;
   - TidemanAlternative.evaluate for n >= 1 seats returns min(n, #candidates) distinct plain candidates of the votes, or refuses;
   - the winner of every tier lies in every dominating set of the candidates not elected before it, with respect to the
     pairwise dictionary of the ORIGINAL profile - i.e. in the Smith set of the remaining candidates (restricting the ballots
     restricts the dictionary, tier after tier);
   - a candidate that stands alone is elected by both hybrids. *)
From Coq Require Import ZArith QArith List Bool Lia Permutation Arith.
From VL Require Import Prelude.PyDict Model.GetNBest Model.Convert Model.STV Model.Condorcet Model.Hybrids
     Proofs.GetNBest_proofs Proofs.Condorcet_proofs Proofs.Smith_proofs Proofs.Shape_proofs Proofs.Shape2_proofs
     Proofs.Hybrids_proofs Proofs.ShapeElim_proofs.
Import ListNotations.
Close Scope Q_scope.
Close Scope Z_scope.
Open Scope nat_scope.

(* ================================================================ small facts *)
Lemma Kc_nil : Kc [] = [].
Proof. reflexivity. Qed.

Lemma nodup_incl_single (l : list C) c : NoDup l -> l <> [] -> incl l [c] -> l = [c].
Proof.
  intros Hnd Hne Hi. destruct l as [|x [|y t]]; [congruence| |].
  - destruct (Hi x (or_introl eq_refl)) as [<-|[]]. reflexivity.
  - destruct (Hi x (or_introl eq_refl)) as [<-|[]]. destruct (Hi y (or_intror (or_introl eq_refl))) as [<-|[]].
    inversion Hnd as [|? ? Hn _]; subst. exfalso. apply Hn. left. reflexivity.
Qed.

Lemma winner_set_nodup sc round : NoDup (winner_set sc round).
Proof.
  unfold winner_set. pose proof (smith_nodup (pairwise round)) as Hs.
  destruct (smith_schwartz (pairwise round) true) as [|s t]; [|exact Hs]. destruct sc; [apply arc_nodup|constructor].
Qed.

Lemma winner_set_nonempty round : Kc round <> [] -> winner_set true round <> [].
Proof. unfold winner_set. destruct (smith_schwartz (pairwise round) true); [auto|discriminate]. Qed.

Lemma winner_set_Kc sc round x : In x (winner_set sc round) -> In x (Kc round).
Proof. intros H. apply arc_iff. exact (winner_set_cands sc round x H). Qed.

Lemma remove_one_length (w : C) (l : list C) : NoDup l -> In w l -> S (length (filter (fun c => negb (ceqb c w)) l)) = length l.
Proof.
  induction 1 as [|x l Hx Hl IH]; intros Hin; [destruct Hin|]. cbn [filter length]. destruct (ceqb x w) eqn:E; cbn [negb].
  - apply Hybrids_proofs.ceqb_eq in E. subst x. f_equal.
    assert (Hf : filter (fun c => negb (ceqb c w)) l = l); [|rewrite Hf; reflexivity].
    clear IH Hl Hin. induction l as [|y l IH]; [reflexivity|]. cbn [filter].
    destruct (ceqb y w) eqn:Ey.
    + apply Hybrids_proofs.ceqb_eq in Ey. subst y. exfalso. apply Hx. left. reflexivity.
    + cbn [negb]. f_equal. apply IH. intros H. apply Hx. right. exact H.
  - destruct Hin as [->|Hin]; [rewrite Hybrids_proofs.ceqb_refl in E; discriminate|]. cbn [length]. f_equal. exact (IH Hin).
Qed.

Lemma remove_in (w : C) (l : list C) x : In x (filter (fun c => negb (ceqb c w)) l) <-> In x l /\ x <> w.
Proof.
  rewrite filter_In, negb_true_iff. split; intros [H1 H2]; (split; [exact H1|]).
  - intros ->. rewrite Hybrids_proofs.ceqb_refl in H2. discriminate.
  - apply not_true_iff_false. intros E. apply Hybrids_proofs.ceqb_eq in E. exact (H2 E).
Qed.

(* ================================================================ one repaired tier answers or refuses *)
Lemma tier_answers : forall fuel round, wf_votes round = true -> Kc round <> [] -> length (Kc round) < fuel ->
  (exists w, tideman_tier true true fuel round = inl (Cand w) /\ In w (Kc round)) \/
  tideman_tier true true fuel round = inr H_nie.
Proof.
  induction fuel as [|f IH]; intros round Hwf HK Hlt; [lia|].
  assert (Hrne : round <> []) by (intros ->; apply HK; reflexivity).
  rewrite (tideman_tier_unfold true true f round Hrne).
  pose proof (winner_set_nonempty round HK) as Hwne.
  pose proof (winner_set_nodup true round) as Hwnd.
  pose proof (winner_set_Kc true round) as HwK.
  destruct (winner_set true round) as [|s [|s2 ss]] eqn:Ews; [congruence| |].
  - left. exists s. split; [reflexivity|]. apply HwK. left. reflexivity.
  - cbv zeta. set (sset := s :: s2 :: ss) in *. set (round1 := subset_votes sset round) in *.
    pose proof (subset_wf sset round Hwf) as Hwf1. fold round1 in Hwf1.
    assert (HK1 : forall x, In x (Kc round1) <-> In x sset).
    { intros x. unfold round1. rewrite arc_iff, subset_cands. split; [tauto|]. intros H. split; [exact H|apply arc_iff, HwK, H]. }
    assert (HlenK : length (Kc round1) = length sset) by (apply same_keys_length; [apply arc_nodup|exact Hwnd|exact HK1]).
    assert (Hle : length sset <= length (Kc round)) by (apply NoDup_incl_length; [exact Hwnd|exact HwK]).
    assert (H2 : 2 <= length (Kc round1)) by (rewrite HlenK; cbn [sset length]; lia).
    destruct (elim_nform round1 Hwf1 H2) as (rem & Ee & Hnf). rewrite Ee. cbn [andb].
    destruct (has_tie rem) eqn:Et; [right; reflexivity|].
    destruct (elim_spec round1 rem Hwf1 Ee Et) as (R & E1 & E2 & E3 & E4).
    destruct rem as [|r [|r2 rr]].
    + destruct R; [|discriminate]. cbn [length] in E4. lia.
    + left. destruct R as [|x [|y R]]; try discriminate. injection E1 as ->. exists x. split; [reflexivity|].
      apply HwK, HK1, E3. left. reflexivity.
    + rewrite E1, plain_map_cand.
      assert (HlR : 2 <= length R).
      { assert (El : length (r :: r2 :: rr) = length R) by (rewrite E1, map_length; reflexivity). cbn [length] in El. lia. }
      assert (HKn : forall x, In x (Kc (subset_votes R round1)) <-> In x R).
      { intros x. rewrite arc_iff, subset_cands. split; [tauto|]. intros H. split; [exact H|apply arc_iff, E3, H]. }
      destruct (IH (subset_votes R round1)) as [(w & Ew & Hw)|Ew].
      * apply subset_wf, Hwf1.
      * destruct R as [|x R']; [cbn [length] in HlR; lia|]. intros E0.
        assert (Hx : In x (Kc (subset_votes (x :: R') round1))) by (apply HKn; left; reflexivity). rewrite E0 in Hx. exact Hx.
      * rewrite (same_keys_length _ R (arc_nodup _) E2 HKn). lia.
      * left. exists w. split; [exact Ew|]. apply HwK, HK1, E3, HKn, Hw.
      * right. exact Ew.
Qed.

Lemma tier_answers_of round : wf_votes round = true -> Kc round <> [] ->
  (exists w, tideman_tier true true (tier_fuel_of round) round = inl (Cand w) /\ In w (Kc round)) \/
  tideman_tier true true (tier_fuel_of round) round = inr H_nie.
Proof. intros Hwf HK. apply tier_answers; [exact Hwf|exact HK|unfold tier_fuel_of; lia]. Qed.

(* ================================================================ dominating sets of the remaining candidates *)
Open Scope Z_scope.
(* D is a non-empty set of candidates among E every member of which beats every candidate of E outside D *)
Definition dominating (P : pvotes) (E D : list C) : Prop :=
  D <> [] /\ incl D E /\ forall a b, In a D -> In b E -> ~ In b D -> beats P a b.
Close Scope Z_scope.

Definition remaining (CS done : list C) : list C := filter (fun c => negb (cmem c done)) CS.

Lemma remaining_in CS done x : In x (remaining CS done) <-> In x CS /\ ~ In x done.
Proof. unfold remaining. rewrite filter_In, negb_true_iff, cmem_false. reflexivity. Qed.

Lemma dominating_ext P E E' D : (forall x, In x E <-> In x E') -> dominating P E D -> dominating P E' D.
Proof.
  intros H (Hne & Hi & Hd). split; [exact Hne|]. split; [intros x Hx; apply H, Hi, Hx|].
  intros a b Ha Hb Hnb. apply Hd; [exact Ha|apply H, Hb|exact Hnb].
Qed.

(* the winner with index i lies in every dominating set of the candidates not among [done] and the winners before it *)
Definition tier_smith (P : pvotes) (CS done ws : list C) : Prop :=
  forall i w, nth_error ws i = Some w -> forall D, dominating P (remaining CS (done ++ firstn i ws)) D -> In w D.

Section TIERS.
  Variable votes : rvotes.
  Variable n : nat.
  Hypothesis Hwf : wf_votes votes = true.
  Let P := pairwise votes.
  Let CS := cands_of votes.

  (* the state of the tier loop: [tv] are the votes restricted to the eligible candidates [elig] = the candidates not yet
     elected [ws]; its pairwise counts are those of the original profile *)
  Definition linv (tv : rvotes) (elig ws : list C) : Prop :=
    wf_votes tv = true /\ NoDup elig /\ NoDup ws /\
    (forall x, In x (Kc tv) <-> In x elig) /\
    (forall x, In x elig <-> In x CS /\ ~ In x ws) /\
    incl ws CS /\ length ws + length elig = length CS /\
    (forall a b, In a elig -> In b elig -> pget0 (pairwise tv) (a, b) = pget0 P (a, b)).

  Lemma linv_start : linv votes (Kc votes) [].
  Proof.
    split; [exact Hwf|]. split; [apply arc_nodup|]. split; [constructor|]. split; [reflexivity|]. split.
    - intros x. rewrite arc_iff. unfold CS. tauto.
    - split; [intros x []|]. split; [|reflexivity]. cbn [length].
      apply same_keys_length; [apply arc_nodup|apply cands_of_nodup|intros x; apply arc_iff].
  Qed.

  Lemma linv_next tv elig ws w : linv tv elig ws -> In w elig ->
    linv (subset_votes (filter (fun c => negb (ceqb c w)) elig) tv) (filter (fun c => negb (ceqb c w)) elig) (ws ++ [w]).
  Proof.
    intros (Hwft & Hne & Hnw & HK & HE & Hi & Hl & Hc) Hw. set (elig' := filter (fun c => negb (ceqb c w)) elig).
    assert (Hw' : In w CS /\ ~ In w ws) by (apply HE, Hw).
    split; [apply subset_wf, Hwft|]. split; [apply NoDup_filter, Hne|]. split; [apply nodup_snoc; tauto|]. split; [|split; [|split; [|split]]].
    - intros x. rewrite arc_iff, subset_cands, <- arc_iff, HK. unfold elig'. rewrite remove_in. tauto.
    - intros x. unfold elig'. rewrite remove_in, HE, in_app_iff. cbn [In]. split.
      + intros [[H1 H2] H3]. split; [exact H1|]. intros [H|[H|[]]]; [exact (H2 H)|exact (H3 (eq_sym H))].
      + intros [H1 H2]. split; [split; [exact H1|]|]; [intros H; apply H2; left; exact H|intros ->; apply H2; right; left; reflexivity].
    - intros x Hx. apply in_app_or in Hx. destruct Hx as [Hx|[<-|[]]]; [apply Hi, Hx|tauto].
    - rewrite app_length. cbn [length]. pose proof (remove_one_length w elig Hne Hw) as Hr. fold elig' in Hr. lia.
    - intros a b Ha Hb. rewrite (subset_restriction elig' tv a b Hwft Ha Hb). unfold elig' in Ha, Hb. apply remove_in in Ha, Hb. apply Hc; tauto.
  Qed.

  (* the winner set of the tier is contained in every dominating set of the eligible candidates *)
  Lemma tier_winner_dominates tv elig ws w : linv tv elig ws -> In w (winner_set true tv) ->
    forall D, dominating P elig D -> In w D.
  Proof.
    intros (Hwft & Hne & Hnw & HK & HE & Hi & Hl & Hc) Hw D (HDne & HDi & HDd).
    destruct (pairwise tv) as [|p0 pt] eqn:Ep.
    - (* no pairwise contest among the eligible candidates: nobody beats anybody, D is everybody *)
      destruct (in_dec Pos.eq_dec w D) as [H|Hout]; [exact H|exfalso].
      assert (HwE : In w elig) by (apply HK, (winner_set_Kc true tv w Hw)).
      destruct D as [|a D']; [congruence|].
      assert (Ha : In a elig) by (apply HDi; left; reflexivity).
      pose proof (HDd a w (or_introl eq_refl) HwE Hout) as Hb. unfold beats in Hb.
      rewrite <- (Hc w a HwE Ha), <- (Hc a w Ha HwE) in Hb. unfold pget0 in Hb. cbn in Hb. lia.
    - assert (Hpne : pairwise tv <> []) by (rewrite Ep; discriminate). rewrite <- Ep in *. clear Ep p0 pt.
      rewrite (winner_set_contest true tv Hwft Hpne) in Hw.
      refine (smith_minimal (pairwise tv) (pairwise_nonneg tv Hwft) (pairwise_two tv Hwft Hpne) D HDne _ w Hw).
      intros a b Ha Hb Hnb.
      assert (HaE : In a elig) by (apply HDi, Ha).
      assert (HbE : In b elig) by (apply HK, arc_iff, candidates_pairwise_in, Hb).
      pose proof (HDd a b Ha HbE Hnb) as Hbt. unfold beats in *. rewrite (Hc a b HaE HbE), (Hc b a HbE HaE). exact Hbt.
  Qed.

  Lemma map_cand_snoc (ws : list C) w : map (@Cand C) ws ++ [Cand w] = map Cand (ws ++ [w]).
  Proof. rewrite map_app. reflexivity. Qed.

  Definition tiers_good (ws : list C) (x : hres) : Prop :=
    (exists ws', x = H_ok (map Cand (ws ++ ws')) /\ NoDup (ws ++ ws') /\ incl (ws ++ ws') CS /\
                 length (ws ++ ws') = Nat.min n (length CS) /\ tier_smith P CS ws ws') \/
    x = H_nie.

  Lemma loop_spec : forall k tv elig ws, linv tv elig ws -> elig <> [] -> length ws < n -> length elig < k ->
    tiers_good ws (tideman_loop true true true k tv elig n (map Cand ws)).
  Proof.
    induction k as [|k IH]; intros tv elig ws Hinv Hene Hlw Hlk; [lia|].
    pose proof Hinv as (Hwft & Hne & Hnw & HK & HE & Hi & Hl & Hc).
    rewrite tideman_loop_S.
    assert (HKne : Kc tv <> []).
    { destruct elig as [|e0 et]; [congruence|]. intros E0. assert (H : In e0 (Kc tv)) by (apply HK; left; reflexivity). rewrite E0 in H. exact H. }
    destruct (tier_answers_of tv Hwft HKne) as [(w & Et & Hw)|Et]; rewrite Et; [|right; reflexivity].
    assert (HwE : In w elig) by (apply HK, Hw).
    assert (Hm : cmem w elig = true) by (apply cmem_iff, HwE). rewrite Hm.
    assert (HwS : In w (winner_set true tv)) by (exact (tier_in_winner_set true true _ tv w Hwft Et)).
    set (elig' := filter (fun c => negb (ceqb c w)) elig).
    pose proof (remove_one_length w elig Hne HwE) as Hrl. fold elig' in Hrl.
    assert (Hw' : In w CS /\ ~ In w ws) by (apply HE, HwE).
    rewrite map_cand_snoc. rewrite map_length.
    assert (Hhead : forall D, dominating P (remaining CS (ws ++ firstn 0 [w])) D -> In w D).
    { intros D HD. apply (tier_winner_dominates tv elig ws w Hinv HwS). refine (dominating_ext P _ _ D _ HD).
      intros x. cbn [firstn]. rewrite app_nil_r, remaining_in, HE. reflexivity. }
    destruct (Nat.eqb (length (ws ++ [w])) n || match elig' with [] => true | _ :: _ => false end) eqn:Econd.
    - left. exists [w]. split; [reflexivity|]. split; [apply nodup_snoc; tauto|]. split.
      + intros x Hx. apply in_app_or in Hx. destruct Hx as [Hx|[<-|[]]]; [apply Hi, Hx|tauto].
      + rewrite app_length in *. cbn [length] in *. split.
        * apply orb_true_iff in Econd. destruct Econd as [E|E]; [apply Nat.eqb_eq in E; lia|].
          destruct elig' as [|x t]; [|discriminate]. cbn [length] in Hrl. lia.
        * intros i x Hx D HD. destruct i as [|i]; [|destruct i; discriminate Hx]. cbn in Hx. injection Hx as <-. exact (Hhead D HD).
    - apply orb_false_iff in Econd. destruct Econd as [E1 E2]. apply Nat.eqb_neq in E1. rewrite app_length in E1. cbn [length] in E1.
      assert (Hene' : elig' <> []) by (destruct elig'; [discriminate|discriminate]).
      destruct (IH (subset_votes elig' tv) elig' (ws ++ [w]) (linv_next tv elig ws w Hinv HwE) Hene') as [(ws' & Er & Hnd & Hin & Hlen & Hsm)|Er].
      + rewrite app_length. cbn [length]. lia.
      + lia.
      + left. exists (w :: ws'). rewrite <- app_assoc in Er, Hnd, Hin, Hlen. cbn [app] in Er, Hnd, Hin, Hlen.
        split; [exact Er|]. split; [exact Hnd|]. split; [exact Hin|]. split; [exact Hlen|].
        intros i x Hx D HD. destruct i as [|i].
        * cbn in Hx. injection Hx as <-. apply Hhead. exact HD.
        * cbn [nth_error] in Hx. apply (Hsm i x Hx D). refine (dominating_ext P _ _ D _ HD).
          intros y. rewrite !remaining_in. cbn [firstn]. rewrite <- app_assoc. reflexivity.
      + right. exact Er.
  Qed.

  (* TidemanAlternative.evaluate, all repairs, n >= 1 seats, somebody stands *)
  Theorem tideman_tiers_sec : CS <> [] -> 1 <= n -> tiers_good [] (tideman_alt true true true votes n).
  Proof.
    intros Hne Hn. unfold tideman_alt. apply (loop_spec _ votes (Kc votes) [] linv_start); [|cbn [length]; lia|lia].
    intros E0. destruct CS as [|x t] eqn:Ec; [congruence|].
    assert (Hx : In x (Kc votes)) by (apply arc_iff; fold CS; rewrite Ec; left; reflexivity). rewrite E0 in Hx. exact Hx.
  Qed.
End TIERS.

(* for every n >= 1: min(n, #candidates) distinct plain candidates of the votes, the winner of every tier inside every
   dominating set (of the original pairwise dictionary) of the candidates not elected before it; or the declared refusal *)
Theorem tideman_tiers votes n : wf_votes votes = true -> cands_of votes <> [] -> 1 <= n ->
  (exists ws, tideman_alt true true true votes n = H_ok (map Cand ws) /\ NoDup ws /\ incl ws (cands_of votes) /\
              length ws = Nat.min n (length (cands_of votes)) /\ tier_smith (pairwise votes) (cands_of votes) [] ws) \/
  tideman_alt true true true votes n = H_nie.
Proof.
  intros Hwf Hne Hn. destruct (tideman_tiers_sec votes n Hwf Hne Hn) as [(ws & H)|H]; [left; exists ws; exact H|right; exact H].
Qed.

(* a candidate that stands alone is elected, however many seats are asked for *)
Theorem tideman_single votes n c : Kc votes = [c] -> 1 <= n -> tideman_alt true true true votes n = H_ok [Cand c].
Proof.
  intros EK Hn. assert (Hrne : votes <> []) by (intros ->; discriminate EK).
  assert (Hws : winner_set true votes = [c]).
  { apply nodup_incl_single; [apply winner_set_nodup|apply winner_set_nonempty; rewrite EK; discriminate|].
    intros x Hx. rewrite <- EK. exact (winner_set_Kc true votes x Hx). }
  unfold tideman_alt. rewrite tideman_loop_S. unfold tier_fuel_of. rewrite (tideman_tier_unfold true true _ votes Hrne), Hws, EK.
  cbn [cmem]. rewrite Hybrids_proofs.ceqb_refl. cbn [orb filter negb app length]. rewrite Hybrids_proofs.ceqb_refl. cbn [negb].
  rewrite orb_true_r. reflexivity.
Qed.

Lemma cands_inj (a b : list C) : map (@Cand C) a = map Cand b -> a = b.
Proof. revert b. induction a as [|x a IH]; intros [|y b] H; try discriminate; [reflexivity|]. injection H as -> H. f_equal. apply IH, H. Qed.

(* the Smith clause on an answer as it is observed *)
Theorem tideman_tiers_smith votes n ws : wf_votes votes = true -> cands_of votes <> [] -> 1 <= n ->
  tideman_alt true true true votes n = H_ok (map Cand ws) ->
  NoDup ws /\ incl ws (cands_of votes) /\ length ws = Nat.min n (length (cands_of votes)) /\
  tier_smith (pairwise votes) (cands_of votes) [] ws.
Proof.
  intros Hwf Hne Hn H. destruct (tideman_tiers votes n Hwf Hne Hn) as [(ws' & E & Hr)|E]; rewrite E in H; [|discriminate].
  injection H as H. apply cands_inj in H. subst ws'. exact Hr.
Qed.

Lemma cands_single votes c : cands_of votes = [c] -> Kc votes = [c].
Proof.
  intros E. apply nodup_incl_single; [apply arc_nodup| |intros x Hx; rewrite <- E; apply arc_iff, Hx].
  intros E0. assert (H : In c (Kc votes)) by (apply arc_iff; rewrite E; left; reflexivity). rewrite E0 in H. exact H.
Qed.

(* ================================================================ the repair for a single candidate leaves Benham's answers on
   profiles with two or more candidates as they were *)
Lemma benham_loop_conservative votes : wf_votes votes = true -> forall fuel cur, winv votes cur ->
  benham_loop true true fuel votes cur = benham_loop true false fuel votes cur.
Proof.
  intros Hwf. induction fuel as [|f IH]; intros cur Hb; pose proof Hb as (Hwfc & HK & HlenK).
  - rewrite !benham_loop_0, !(benham_cw_two _ cur HlenK). reflexivity.
  - rewrite !benham_loop_S, !(benham_cw_two _ cur HlenK). destruct (condorcet_winner (pairwise cur)); [|reflexivity].
    destruct (eliminate_one cur) as [rem|] eqn:Ee; [|reflexivity].
    destruct rem as [|r [|r2 rr]]; [|reflexivity|]; cbn [andb].
    + destruct (elim_spec cur [] Hwfc Ee eq_refl) as (R & E1 & _ & _ & E4). destruct R; [|discriminate]. cbn [length] in E4. lia.
    + destruct (has_tie (r :: r2 :: rr)) eqn:Et; [reflexivity|].
      destruct (elim_spec cur _ Hwfc Ee Et) as (R & E1 & E2 & E3 & E4). rewrite E1, plain_map_cand.
      apply IH. apply (winv_next votes Hwf cur R Hb E2 E3).
      assert (El : length (r :: r2 :: rr) = length R) by (rewrite E1, map_length; reflexivity). cbn [length] in El. lia.
Qed.

Theorem benham_repair_conservative votes : wf_votes votes = true -> 2 <= length (Kc votes) ->
  benham true true votes = benham true false votes.
Proof.
  intros Hwf H2. unfold benham. apply benham_loop_conservative; [exact Hwf|].
  split; [exact Hwf|]. split; [intros x Hx; apply arc_iff, Hx|exact H2].
Qed.
