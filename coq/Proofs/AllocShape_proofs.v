(* Wave 6, C08 for allocated score after fixes/C12-allocated-score-exhausted and C12-allocated-score-tie-seats:
   AllocatedScoreSelector (Model/AllocScore.v alloc_select_x with both repairs) returns a well-shaped selection
   ([nform], Proofs/Shape2_proofs.v): n entries - distinct plain winners of the votes, then possibly one tie listed once
   per seat it contests, with more members than those seats and none of the winners - for every profile with positive
   weights, a positive quota and at least n candidates.  The iteration orders handed to the model list every tie
   without repetition (as the iteration of a frozenset does). *)
From Coq Require Import ZArith QArith Qminmax Qround List Bool Arith Lia Lqa Permutation.
From VL Require Import Prelude.PyDict Model.GetNBest Model.Convert Model.Quota Model.AllocScore
     Proofs.GetNBest_proofs Proofs.QOrd Proofs.Dict_proofs Proofs.JR_proofs Proofs.MJ_proofs Proofs.AllocScore_proofs
     Proofs.AllocRepair_proofs Proofs.Shape_proofs Proofs.Shape2_proofs Proofs.MJ_seats_proofs.
Import ListNotations.
Open Scope Q_scope.

Definition seated (ws : list C) : elected := map (fun c => (Cand c, 1%Z)) ws.

Lemma eget_seated ws x : eget (seated ws) x = if cmem x ws then 1%Z else 0%Z.
Proof.
  induction ws as [|y ws IH]; [reflexivity|]. cbn [seated map eget fst snd res_is cmem]. fold (seated ws).
  destruct (ceqb x y); [reflexivity|exact IH].
Qed.

Lemma eincr_seated ws c : ~ In c ws -> eincr (seated ws) c = seated (ws ++ [c]).
Proof.
  induction ws as [|y ws IH]; intros Hn; [reflexivity|]. cbn [seated map eincr fst snd res_is app]. fold (seated ws). fold (seated (ws ++ [c])).
  destruct (ceqb c y) eqn:E; [apply ceqb_eq in E; subst y; exfalso; apply Hn; left; reflexivity|].
  rewrite IH; [reflexivity|]. intros H. apply Hn. right. exact H.
Qed.

Lemma cmem_false_iff x l : cmem x l = false <-> ~ In x l.
Proof.
  rewrite <- (MJ_proofs.cmem_In x l). destruct (cmem x l); split; intros H; [discriminate|exfalso; apply H; reflexivity|discriminate|reflexivity].
Qed.

Lemma same_set_incl a b : AllocScore.same_set a b = true -> incl a b /\ incl b a.
Proof.
  unfold AllocScore.same_set. intros H. apply andb_true_iff in H. destruct H as (H1 & H2).
  rewrite List.forallb_forall in H1. rewrite List.forallb_forall in H2.
  split; intros x Hx; apply MJ_proofs.cmem_In; [apply H1|apply H2]; exact Hx.
Qed.

Lemma tie_iter_spec orders t : Forall (@NoDup C) orders -> NoDup t ->
  NoDup (tie_iter orders t) /\ incl (tie_iter orders t) t /\ length (tie_iter orders t) = length t.
Proof.
  intros Hord Ht. unfold tie_iter. destruct (find (AllocScore.same_set t) orders) as [o|] eqn:E; [|split; [exact Ht|split; [apply incl_refl|reflexivity]]].
  apply find_some in E. destruct E as (Hin & Hs). rewrite Forall_forall in Hord. pose proof (Hord o Hin) as Ho.
  destruct (same_set_incl _ _ Hs) as (H1 & H2). split; [exact Ho|]. split; [exact H2|].
  apply Nat.le_antisymm; apply NoDup_incl_length; assumption.
Qed.

Section Shape.
  Variable ra : arepairs.
  Hypothesis Hra : ra_exhausted ra = true.
  Variable votes : wprofile.
  Variable cf : acfg.
  Hypothesis Hsel : sel_like votes cf.
  Hypothesis Hq : 0 < ac_quota cf.
  Hypothesis Hord : Forall (@NoDup C) (ac_orders cf).
  Variable n : nat.
  Let cands := cands_score votes.
  Hypothesis Hn : (n <= length cands)%nat.

  Lemma cands_all x : In x cands <-> In x (all_scored votes).
  Proof. unfold cands, cands_score, all_scored. apply (proj2 (canon_set_spec _)). Qed.
  Lemma cands_nodup : NoDup cands.
  Proof. unfold cands, cands_score. apply (proj1 (canon_set_spec _)). Qed.

  (* the state of the selector's run: [ws] hold a seat, [rem] seats are open *)
  Definition SInv (ws : list C) (cur : wprofile) (rem : nat) : Prop :=
    NoDup ws /\ incl ws cands /\ (length ws + rem = n)%nat /\ wpos cur /\
    forall x, scored x cur -> ~ In x ws /\ In x cands.

  Lemma may_gain_seated ws x : In x cands -> may_gain cf (seated ws) x = negb (cmem x ws).
  Proof.
    intros Hx. destruct Hsel as (Hprev & Hmax). unfold may_gain. rewrite Hmax, (dget_map_one _ _ (proj1 (cands_all x) Hx)), Hprev, eget_seated.
    unfold dget_or. cbn [dget]. destruct (cmem x ws); reflexivity.
  Qed.

  (* electing a candidate of the votes that holds no seat: it takes the next seat and leaves every ballot *)
  Lemma elect_one_x_shape ws cur c : wpos cur -> ~ In c ws -> In c cands ->
    exists cur', elect_one_x ra cf cur (seated ws) c = inl (cur', seated (ws ++ [c])) /\ wpos cur' /\
                 forall x, scored x cur' -> scored x cur /\ x <> c.
  Proof.
    intros Hp Hnw Hc. destruct (elect_one_x_spec ra Hra cf cur (seated ws) c Hp Hq) as (cur' & E & mid & Hspec & Hcur' & _ & Hp').
    rewrite (eincr_seated ws c Hnw) in E. exists cur'. split; [exact E|]. split; [exact Hp'|].
    assert (Helim : eliminated (gained_of cf (seated ws) c) (dget (ac_max cf) c) = true).
    { destruct Hsel as (Hprev & Hmax). unfold gained_of, eliminated.
      rewrite Hmax, (dget_map_one _ _ (proj1 (cands_all c) Hc)), Hprev, eget_eincr, ceqb_refl, eget_seated.
      apply cmem_false_iff in Hnw. rewrite Hnw. reflexivity. }
    rewrite Helim in Hcur'. subst cur'. intros x Hx. apply (subset_out_spec c mid) in Hx. destruct Hx as (Hne & Hx).
    destruct Hspec as (t & f & -> & _). split; [exact (cut_at_scored _ _ _ _ _ Hx)|exact Hne].
  Qed.

  Lemma elect_all_x_shape : forall o ws cur, wpos cur -> NoDup o -> (forall x, In x o -> ~ In x ws /\ In x cands) ->
    exists cur', elect_all_x ra cf o cur (seated ws) = inl (cur', seated (ws ++ o)) /\ wpos cur' /\
                 forall x, scored x cur' -> scored x cur /\ ~ In x o.
  Proof.
    induction o as [|c o IH]; intros ws cur Hp Hnd Ho.
    - exists cur. cbn [elect_all_x]. rewrite app_nil_r. split; [reflexivity|]. split; [exact Hp|]. intros x Hx. split; [exact Hx|intros []].
    - inversion Hnd as [|? ? Hc Hnd']; subst. destruct (Ho c (or_introl eq_refl)) as (Hcw & Hcc).
      destruct (elect_one_x_shape ws cur c Hp Hcw Hcc) as (cur1 & E1 & Hp1 & Hs1). cbn [elect_all_x]. rewrite E1.
      destruct (IH (ws ++ [c]) cur1 Hp1 Hnd') as (cur' & E & Hp' & Hs').
      { intros x Hx. destruct (Ho x (or_intror Hx)) as (H1 & H2). split; [|exact H2].
        intros H. apply in_app_or in H. destruct H as [H|[<-|[]]]; [exact (H1 H)|exact (Hc Hx)]. }
      exists cur'. rewrite <- app_assoc in E. split; [exact E|]. split; [exact Hp'|].
      intros x Hx. destruct (Hs' x Hx) as (H1 & H2). destruct (Hs1 x H1) as (H3 & H4). split; [exact H3|].
      intros [<-|H]; [congruence|exact (H2 H)].
  Qed.

  (* the candidates of a round: not seated, of the votes; distinct *)
  Lemma round_keys ws cur rem x : SInv ws cur rem -> In x (map fst (round_scores ra cands cf cur (seated ws))) -> ~ In x ws /\ In x cands.
  Proof.
    intros (_ & _ & _ & _ & Hsc) Hx. unfold round_scores in Hx. destruct (sum_scores cur) as [|p l] eqn:E.
    - rewrite Hra in Hx. rewrite map_map in Hx. cbn [fst] in Hx. rewrite map_id in Hx. apply filter_In in Hx. destruct Hx as (Hc & Hg).
      rewrite (may_gain_seated ws x Hc) in Hg. apply negb_true_iff, cmem_false_iff in Hg. split; assumption.
    - rewrite <- E in Hx. apply in_map_iff in Hx. destruct Hx as ([x0 v] & Hx0 & Hin). cbn [fst] in Hx0. subst x0.
      apply Hsc. exact (proj2 (sum_scores_in cur x v Hin)).
  Qed.

  Lemma round_nodup ws cur : NoDup (map fst (round_scores ra cands cf cur (seated ws))).
  Proof.
    unfold round_scores. destruct (sum_scores cur) as [|p l] eqn:E; [|rewrite <- E; apply sum_scores_nodup].
    rewrite Hra, map_map. cbn [fst]. rewrite map_id. apply NoDup_filter, cands_nodup.
  Qed.

  Lemma round_nonempty ws cur rem : SInv ws cur (S rem) -> round_scores ra cands cf cur (seated ws) <> [].
  Proof.
    intros (Hnd & Hincl & Hlen & _ & _). unfold round_scores. destruct (sum_scores cur) as [|p l]; [|discriminate]. rewrite Hra.
    destruct (filter (may_gain cf (seated ws)) cands) as [|c l] eqn:E; [|discriminate]. exfalso.
    assert (Hall : incl cands ws).
    { intros x Hx. destruct (cmem x ws) eqn:Ec; [apply MJ_proofs.cmem_In, Ec|]. exfalso.
      assert (H : In x (filter (may_gain cf (seated ws)) cands)) by (apply filter_In; split; [exact Hx|rewrite (may_gain_seated ws x Hx), Ec; reflexivity]).
      rewrite E in H. destruct H. }
    pose proof (NoDup_incl_length cands_nodup Hall). lia.
  Qed.

  Definition Final (e : elected) : Prop :=
    exists ws T k, e = seated ws ++ match k with O => [] | S _ => [(TieR T, Z.of_nat k)] end /\
      (length ws + k = n)%nat /\ (k = 0%nat \/ (k < length T)%nat) /\ NoDup (ws ++ T) /\ incl (ws ++ T) cands.

  Lemma gnb1_cases (d : list (C * Q)) : d <> [] -> NoDup (map fst d) ->
    (exists c, get_n_best Qle_bool d 1 = [Cand c] /\ In c (map fst d)) \/
    (exists t, get_n_best Qle_bool d 1 = [TieR t] /\ NoDup t /\ incl t (map fst d) /\ (2 <= length t)%nat).
  Proof.
    intros Hne Hnd. destruct (get_n_best_1_shape d) as [E|[(c & E)|(level & below & thr & E & Hp & Hlen & _)]].
    - exfalso. destruct (get_n_best_spec Qle_bool Qle_bool_total Qle_bool_trans d 1 (le_n 1)) as [Hsmall Hbig].
      destruct (Nat.le_gt_cases (length d) 1) as [Hle|Hgt].
      + destruct (Hsmall Hle) as (s & Hp & _ & Hs). rewrite E in Hs. destruct s; [|discriminate].
        apply Permutation_nil in Hp. congruence.
      + destruct (Hbig Hgt) as (above & level & below & thr & Hp & _ & _ & _ & _ & Hpos & Heq & Htie).
        assert (above = []) by (destruct above; [reflexivity|cbn [length] in Hpos; lia]). subst above. cbn [length app] in *.
        destruct (Nat.eq_dec (length level) 1) as [E1|E1].
        * rewrite (Heq E1) in E. destruct level; [cbn in E1; lia|discriminate].
        * rewrite (Htie ltac:(lia)) in E. discriminate.
    - left. exists c. split; [exact E|]. apply (get_n_best_cand_in d 1). rewrite E. left. reflexivity.
    - right. exists (map fst level). split; [exact E|].
      assert (Hndp : NoDup (map fst (level ++ below))) by (eapply Permutation_NoDup; [apply Permutation_map, Permutation_sym, Hp|exact Hnd]).
      rewrite map_app in Hndp. split; [exact (MJ_seats_proofs.NoDup_app_l _ _ Hndp)|]. split; [|rewrite map_length; exact Hlen].
      intros x Hx. apply in_map_iff in Hx. destruct Hx as (it & <- & Hit). apply in_map. eapply Permutation_in; [exact Hp|].
      apply in_or_app. left. exact Hit.
  Qed.

  Theorem alloc_loop_x_shape : forall fuel ws cur rem, (rem < fuel)%nat -> SInv ws cur rem ->
    exists e, alloc_loop_x ra cands fuel cf cur (seated ws) rem = inl e /\ Final e.
  Proof.
    induction fuel as [|fuel IH]; intros ws cur rem Hlt HI; [lia|]. cbn [alloc_loop_x]. unfold alloc_step_x.
    destruct rem as [|r].
    - destruct HI as (Hnd & Hincl & Hlen & _). eexists. split; [reflexivity|]. exists ws, [], 0%nat. cbn [app]. rewrite !app_nil_r.
      split; [reflexivity|]. split; [exact Hlen|]. split; [left; reflexivity|]. split; assumption.
    - pose proof (round_nonempty ws cur r HI) as Hne. pose proof (round_nodup ws cur) as Hndr.
      pose proof HI as (Hnd & Hincl & Hlen & Hp & Hsc).
      destruct (gnb1_cases _ Hne Hndr) as [(c & E & Hc)|(t & E & Hnt & Hit & Hlt2)]; rewrite E.
      + destruct (round_keys ws cur (S r) c HI Hc) as (Hcw & Hcc).
        destruct (elect_one_x_shape ws cur c Hp Hcw Hcc) as (cur' & E1 & Hp' & Hs'). rewrite E1.
        replace (S r - 1)%nat with r by lia. apply IH; [lia|].
        split; [|split; [|split; [|split]]].
        * apply MJ_seats_proofs.NoDup_app_intro; [exact Hnd|repeat constructor; intros []|]. intros x Hx [<-|[]]. exact (Hcw Hx).
        * intros x Hx. apply in_app_or in Hx. destruct Hx as [Hx|[<-|[]]]; [apply Hincl, Hx|exact Hcc].
        * rewrite app_length. cbn [length]. lia.
        * exact Hp'.
        * intros x Hx. destruct (Hs' x Hx) as (H1 & H2). destruct (Hsc x H1) as (H3 & H4). split; [|exact H4].
          intros H. apply in_app_or in H. destruct H as [H|[<-|[]]]; [exact (H3 H)|congruence].
      + assert (Htk : forall x, In x t -> ~ In x ws /\ In x cands) by (intros x Hx; apply (round_keys ws cur (S r) x HI), Hit, Hx).
        destruct (Nat.leb (length t) (S r)) eqn:El.
        * apply Nat.leb_le in El. destruct (tie_iter_spec (ac_orders cf) t Hord Hnt) as (Hno & Hio & Hlo).
          destruct (elect_all_x_shape (tie_iter (ac_orders cf) t) ws cur Hp Hno) as (cur' & E1 & Hp' & Hs').
          { intros x Hx. apply Htk, Hio, Hx. }
          rewrite E1. apply IH; [lia|].
          split; [|split; [|split; [|split]]].
          -- apply MJ_seats_proofs.NoDup_app_intro; [exact Hnd|exact Hno|]. intros x Hx Hx'. exact (proj1 (Htk x (Hio x Hx')) Hx).
          -- intros x Hx. apply in_app_or in Hx. destruct Hx as [Hx|Hx]; [apply Hincl, Hx|apply Htk, Hio, Hx].
          -- rewrite app_length, Hlo. lia.
          -- exact Hp'.
          -- intros x Hx. destruct (Hs' x Hx) as (H1 & H2). destruct (Hsc x H1) as (H3 & H4). split; [|exact H4].
             intros H. apply in_app_or in H. destruct H as [H|H]; [exact (H3 H)|exact (H2 H)].
        * apply Nat.leb_gt in El. eexists. split; [reflexivity|]. exists ws, t, (S r). split; [reflexivity|]. split; [exact Hlen|].
          split; [right; exact El|]. split.
          -- apply MJ_seats_proofs.NoDup_app_intro; [exact Hnd|exact Hnt|]. intros x Hx Hx'. exact (proj1 (Htk x Hx') Hx).
          -- intros x Hx. apply in_app_or in Hx. destruct Hx as [Hx|Hx]; [apply Hincl, Hx|apply Htk, Hx].
  Qed.
End Shape.

(* ================================================================ the selector's answer *)
Lemma seated_expand ws : flat_map (fun rk : res C * Z => repeat (fst rk) (Z.to_nat (snd rk))) (seated ws) = map Cand ws.
Proof. induction ws as [|c ws IH]; [reflexivity|]. cbn [seated map flat_map fst snd]. fold (seated ws). rewrite IH. reflexivity. Qed.

Theorem alloc_select_x_shape ra qs orders votes n :
  ra_exhausted ra = true -> ra_tieseats ra = true ->
  wpos votes -> Forall (@NoDup C) orders ->
  0 < ac_quota (alloc_cfg qs orders votes n [] (map (fun c => (c, 1%Z)) (all_scored votes))) ->
  (1 <= n <= length (cands_score votes))%nat ->
  exists r, alloc_select_x ra qs orders votes n = inl r /\ nform (cands_score votes) n r.
Proof.
  intros Hra Hts Hp Hord Hq (Hn1 & Hn). unfold alloc_select_x, alloc_distribute_x.
  assert (Hz : quota_divides_by_seats qs && Nat.eqb n 0 = false).
  { destruct n; [lia|]. cbn [Nat.eqb]. apply andb_false_r. }
  rewrite Hz. set (cf := alloc_cfg qs orders votes n [] (map (fun c => (c, 1%Z)) (all_scored votes))) in *.
  assert (Hsel : sel_like votes cf) by (split; reflexivity).
  assert (HI : SInv votes n [] votes n).
  { split; [constructor|]. split; [intros ? []|]. split; [reflexivity|]. split; [exact Hp|].
    intros x Hx. split; [intros []|]. apply (cands_all votes), scored_all_scored, Hx. }
  destruct (alloc_loop_x_shape ra Hra votes cf Hsel Hq Hord n Hn (S n) [] votes n (Nat.lt_succ_diag_r n) HI) as (e & E & ws & T & k & -> & Hlen & Hk & Hnd & Hincl).
  change (seated []) with (@nil (res C * Z)) in E. rewrite E, Hts. eexists. split; [reflexivity|].
  rewrite flat_map_app, seated_expand.
  destruct k as [|k].
  - exists ws, [], 0%nat. cbn [flat_map repeat]. rewrite !app_nil_r. split; [reflexivity|]. split; [exact Hlen|]. split; [left; reflexivity|].
    split; [exact (MJ_seats_proofs.NoDup_app_l _ _ Hnd)|]. intros x Hx. apply Hincl, in_or_app. left. exact Hx.
  - exists ws, T, (S k). cbn [flat_map fst snd]. rewrite app_nil_r, Nat2Z.id. split; [reflexivity|]. split; [exact Hlen|].
    split; [exact Hk|]. split; assumption.
Qed.
