(* Result shape (C08): the normal form of every get_n_best result, and seat accounting of the
   highest-averages distribution.  A verified boolean shape checker for selections, extracted
   and run on the implementation's outputs. *)
From Coq Require Import ZArith QArith List Bool Lia Permutation Arith.
From VL Require Import Prelude.PyDict Model.GetNBest Model.HighestAverages Proofs.Dict_proofs
     Proofs.GetNBest_proofs Proofs.QOrd Proofs.HA_proofs Proofs.Mono_proofs.
Import ListNotations.
Close Scope Q_scope.
Close Scope Z_scope.
Open Scope nat_scope.

Section SelShape.
  Context {K : Type}.
  Notation gnb := (@get_n_best K Q Qle_bool).

  Lemma map_cand_keys (l : list (K * Q)) : map (fun it : K * Q => Cand (fst it)) l = map Cand (map fst l).
  Proof. rewrite map_map. reflexivity. Qed.

  (* normal form: plain winners, then k copies of ONE tie object with more than k members; all named
     candidates are distinct keys of the input; exactly n entries *)
  Theorem gnb_shape (votes : list (K * Q)) n : 1 <= n <= length votes -> NoDup (map fst votes) ->
    exists elected T k,
      gnb votes n = map Cand elected ++ repeat (TieR T) k /\
      length elected + k = n /\ (k = 0 \/ k < length T) /\
      NoDup (elected ++ T) /\ incl (elected ++ T) (map fst votes).
  Proof.
    intros [Hn Hle] Hnd.
    destruct (get_n_best_spec Qle_bool Qle_bool_total Qle_bool_trans votes n Hn) as [Hsmall Hbig].
    destruct (Nat.eq_dec n (length votes)) as [He|Hne].
    - destruct (Hsmall ltac:(lia)) as (s & Hp & _ & Hr).
      exists (map fst s), [], 0. rewrite Hr, map_cand_keys, !app_nil_r. simpl.
      split; [reflexivity|]. split; [rewrite map_length, (Permutation_length Hp); lia|]. split; [left; reflexivity|].
      split.
      + eapply Permutation_NoDup; [apply Permutation_map, Permutation_sym, Hp|exact Hnd].
      + intros x Hx. eapply Permutation_in; [apply Permutation_map, Hp|exact Hx].
    - destruct (Hbig ltac:(lia)) as (above & level & below & thr & Hp & _ & _ & _ & _ & Hlen & Hfit & Htie).
      assert (HndL : NoDup (map fst (above ++ level ++ below))).
      { eapply Permutation_NoDup; [apply Permutation_map, Permutation_sym, Hp|exact Hnd]. }
      rewrite !map_app in HndL.
      assert (HndAL : NoDup (map fst above ++ map fst level)).
      { rewrite app_assoc in HndL. apply nodup_app_inv in HndL. tauto. }
      assert (Hincl : incl (map fst above ++ map fst level) (map fst votes)).
      { intros x Hx. eapply Permutation_in; [apply Permutation_map, Hp|]. rewrite !map_app.
        apply in_app_or in Hx. apply in_or_app. destruct Hx; [left; assumption|right; apply in_or_app; left; assumption]. }
      destruct (Nat.eq_dec (length above + length level) n) as [Hf|Hnf].
      + exists (map fst (above ++ level)), [], 0. rewrite (Hfit Hf), map_cand_keys, !app_nil_r. simpl.
        split; [reflexivity|]. split; [rewrite map_length, app_length; lia|]. split; [left; reflexivity|].
        rewrite map_app. split; assumption.
      + exists (map fst above), (map fst level), (n - length above).
        rewrite (Htie ltac:(lia)), map_cand_keys.
        split; [reflexivity|]. split; [rewrite map_length; lia|]. split; [right; rewrite map_length; lia|].
        split; assumption.
  Qed.
End SelShape.

(* ---------------------------------------------------------------- boolean shape checker for selections *)
Section Checker.
  Definition is_cand (r : res C) : bool := match r with Cand _ => true | TieR _ => false end.
  Definition plain_of (r : list (res C)) : list C := flat_map (fun e => match e with Cand c => [c] | TieR _ => [] end) r.
  Definition ties_of (r : list (res C)) : list (list C) := flat_map (fun e => match e with TieR l => [l] | Cand _ => [] end) r.
  Fixpoint nodupb (l : list C) : bool := match l with [] => true | x :: t => negb (cmem x t) && nodupb t end.
  Definition subsetb (a b : list C) : bool := forallb (fun x => cmem x b) a.
  Definition disjointb (a b : list C) : bool := forallb (fun x => negb (cmem x b)) a.
  Definition same_set (a b : list C) : bool := subsetb a b && subsetb b a.
  Definition occurrences (T : list C) (r : list (res C)) : nat :=
    length (filter (fun l => same_set l T) (ties_of r)).

  (* the declarative shape of a selection over the candidates [cands] for [n] seats *)
  Definition sel_shape (cands : list C) (n : nat) (r : list (res C)) : Prop :=
    length r = n /\
    (forall c, In c (plain_of r) -> In c cands) /\
    NoDup (plain_of r) /\
    (forall T, In T (ties_of r) ->
       NoDup T /\ (forall c, In c T -> In c cands /\ ~ In c (plain_of r)) /\ occurrences T r < length T).

  Definition sel_shape_ok (cands : list C) (n : nat) (r : list (res C)) : bool :=
    Nat.eqb (length r) n && subsetb (plain_of r) cands && nodupb (plain_of r) &&
    forallb (fun T => nodupb T && subsetb T cands && disjointb T (plain_of r) && Nat.ltb (occurrences T r) (length T)) (ties_of r).

  Lemma cmem_In x l : cmem x l = true <-> In x l.
  Proof.
    induction l as [|y l IH]; simpl; [split; [discriminate|tauto]|].
    rewrite orb_true_iff, IH. unfold ceqb. rewrite Pos.eqb_eq. split; intros [H|H]; auto.
  Qed.
  Lemma nodupb_NoDup l : nodupb l = true <-> NoDup l.
  Proof.
    induction l as [|y l IH]; simpl; [split; [constructor|reflexivity]|].
    rewrite andb_true_iff, negb_true_iff, IH. split.
    - intros [Hn Hd]. constructor; [|exact Hd]. intros Hi. apply cmem_In in Hi. congruence.
    - intros H. inversion H as [|? ? Hn Hd]; subst. split; [|exact Hd].
      apply not_true_iff_false. intros Hi. apply cmem_In in Hi. tauto.
  Qed.
  Lemma subsetb_incl a b : subsetb a b = true <-> incl a b.
  Proof. unfold subsetb. rewrite forallb_forall. split; intros H x Hx; [apply cmem_In|apply cmem_In]; auto. Qed.
  Lemma disjointb_spec a b : disjointb a b = true <-> (forall x, In x a -> ~ In x b).
  Proof.
    unfold disjointb. rewrite forallb_forall. split; intros H x Hx.
    - specialize (H x Hx). apply negb_true_iff in H. intros Hi. apply cmem_In in Hi. congruence.
    - apply negb_true_iff, not_true_iff_false. intros Hi. apply cmem_In in Hi. exact (H x Hx Hi).
  Qed.

  (* the checker IS the declarative shape *)
  Theorem sel_shape_reflect cands n r : sel_shape_ok cands n r = true <-> sel_shape cands n r.
  Proof.
    unfold sel_shape_ok, sel_shape. rewrite !andb_true_iff, Nat.eqb_eq, subsetb_incl, nodupb_NoDup, forallb_forall.
    split.
    - intros [[[H1 H2] H3] H4]. repeat split; auto.
      + apply nodupb_NoDup. specialize (H4 T H). rewrite !andb_true_iff in H4. tauto.
      + specialize (H4 T H). rewrite !andb_true_iff in H4. destruct H4 as [[[_ Hs] _] _].
        apply subsetb_incl in Hs. apply Hs. assumption.
      + specialize (H4 T H). rewrite !andb_true_iff in H4. destruct H4 as [[[_ _] Hd] _].
        apply (proj1 (disjointb_spec _ _) Hd). assumption.
      + specialize (H4 T H). rewrite !andb_true_iff in H4. destruct H4 as [_ Hl]. apply Nat.ltb_lt. exact Hl.
    - intros (H1 & H2 & H3 & H4). repeat split; auto.
      intros T HT. destruct (H4 T HT) as (Hn & Hc & Ho). rewrite !andb_true_iff. repeat split.
      + apply nodupb_NoDup, Hn.
      + apply subsetb_incl. intros c Hi. apply (Hc c Hi).
      + apply disjointb_spec. intros c Hi. apply (Hc c Hi).
      + apply Nat.ltb_lt, Ho.
  Qed.
End Checker.

(* ---------------------------------------------------------------- highest averages: seat accounting *)
Open Scope Z_scope.

Lemma zsum_app a b : zsum (a ++ b) = zsum a + zsum b.
Proof. induction a as [|x a IH]; simpl; [unfold zsum; simpl; lia|]. rewrite !zsum_cons, IH. lia. Qed.

Lemma zsum_dset (t : list (C * Z)) c v : zsum (map snd (dset t c v)) = zsum (map snd t) - dget_or t c 0 + v.
Proof.
  unfold dget_or. induction t as [|[k x] t IH]; simpl.
  - rewrite zsum_cons. unfold zsum. simpl. lia.
  - destruct (ceqb c k); simpl; rewrite !zsum_cons; [lia|]. rewrite IH. lia.
Qed.

Lemma zsum_incr t c : zsum (map snd (incr_t t c)) = zsum (map snd t) + 1.
Proof. unfold incr_t. rewrite zsum_dset. lia. Qed.

Lemma zsum_fold_incr ks : forall t, zsum (map snd (fold_left incr_t ks t)) = zsum (map snd t) + Z.of_nat (length ks).
Proof.
  induction ks as [|k ks IH]; intros t; simpl fold_left; [simpl; lia|].
  rewrite IH, zsum_incr. cbn [length]. lia.
Qed.

Section HAShape.
  Variable d : Z -> Q.
  Variable votes : list (C * Q).
  Variable caps : list (C * Z).
  Variable n : Z.

  (* sum of the totals = sum of the previous gains + seats awarded so far *)
  Definition Jsum (prev : list (C * Z)) (s : state) : Prop :=
    zsum (map snd (st_totals s)) = zsum (map snd prev) + Z.of_nat (length (st_awards s)).

  Lemma step_Jsum prev s : Jsum prev s -> Jsum prev (step d votes caps n s).
  Proof.
    unfold Jsum, step. intros H. destruct (st_qs s) as [|[c0 m] qs'] eqn:E; [exact H|]. cbv zeta.
    destruct (_ <=? _); cbn [st_totals st_awards]; [|exact H].
    unfold HighestAverages.incr. rewrite zsum_fold_incr, H, app_length, !map_length, !rev_length. lia.
  Qed.

  Lemma loop_Jsum prev f : forall s, Jsum prev s -> Jsum prev (loop d votes caps n f s).
  Proof.
    induction f as [|f IH]; intros s H; simpl; [exact H|].
    destruct (_ && _); [apply IH, step_Jsum, H|exact H].
  Qed.

  Lemma final_Jsum prev : Jsum prev (final_state d votes n prev caps).
  Proof. unfold final_state. apply loop_Jsum. unfold Jsum, init_state. simpl. lia. Qed.
End HAShape.

(* ---- gains: sum over the totals of (total - previous gain) = number of seats awarded *)
Definition gsumz (prev t : list (C * Z)) : Z := zsum (map (fun ct => snd ct - dget_or prev (fst ct) 0) t).
Definition Hgain (prev t : list (C * Z)) (k : Z) : Prop :=
  incl (map fst prev) (map fst t) /\ Forall (fun ct => dget_or prev (fst ct) 0 <= snd ct) t /\ gsumz prev t = k.

Lemma dget_or_absent {X} (t : list (C * X)) c dflt : ~ In c (map fst t) -> dget_or t c dflt = dflt.
Proof.
  unfold dget_or. induction t as [|[k x] t IH]; simpl; [reflexivity|]. intros H.
  destruct (ceqb c k) eqn:E; [apply ceqb_eq in E; subst; tauto|]. apply IH. tauto.
Qed.

Lemma incr_t_cons k x t c :
  incr_t ((k, x) :: t) c = if ceqb c k then (k, x + 1) :: t else (k, x) :: incr_t t c.
Proof. unfold incr_t, dget_or. simpl. destruct (ceqb c k); reflexivity. Qed.

Lemma gsumz_cons prev k x t : gsumz prev ((k, x) :: t) = x - dget_or prev k 0 + gsumz prev t.
Proof. unfold gsumz. simpl. rewrite zsum_cons. reflexivity. Qed.

Lemma incr_gain prev : forall t c, (~ In c (map fst t) -> dget_or prev c 0 = 0) ->
  Forall (fun ct => dget_or prev (fst ct) 0 <= snd ct) t ->
  incl (map fst t) (map fst (incr_t t c)) /\
  Forall (fun ct => dget_or prev (fst ct) 0 <= snd ct) (incr_t t c) /\
  gsumz prev (incr_t t c) = gsumz prev t + 1.
Proof.
  induction t as [|[k x] t IH]; intros c Hab Hf.
  - assert (H0 : dget_or prev c 0 = 0) by (apply Hab; intros []).
    change (incr_t [] c) with [(c, 0 + 1)]. split; [intros y []|]. split.
    + constructor; [simpl; rewrite H0; lia|constructor].
    + rewrite gsumz_cons, H0. unfold gsumz, zsum. simpl. lia.
  - inversion Hf as [|? ? Hx Hf']; subst. simpl in Hx. rewrite incr_t_cons.
    destruct (ceqb c k) eqn:E.
    + split; [intros y Hy; exact Hy|]. split; [constructor; [simpl; lia|exact Hf']|].
      rewrite !gsumz_cons. lia.
    + assert (Hab' : ~ In c (map fst t) -> dget_or prev c 0 = 0).
      { intros Hn. apply Hab. simpl. intros [Hk|Hi]; [apply ceqb_neq in E; congruence|tauto]. }
      destruct (IH c Hab' Hf') as (I1 & I2 & I3). split; [simpl; intros y [<-|Hy]; [left; reflexivity|right; apply I1, Hy]|].
      split; [constructor; [exact Hx|exact I2]|]. rewrite !gsumz_cons, I3. lia.
Qed.

Lemma fold_incr_gain prev ks : forall t k, Hgain prev t k -> Hgain prev (fold_left incr_t ks t) (k + Z.of_nat (length ks)).
Proof.
  induction ks as [|c ks IH]; intros t k H; simpl fold_left; [simpl; rewrite Z.add_0_r; exact H|].
  destruct H as (Hi & Hf & Hg).
  assert (Hab : ~ In c (map fst t) -> dget_or prev c 0 = 0).
  { intros Hn. apply dget_or_absent. intros Hp. apply Hn, Hi, Hp. }
  destruct (incr_gain prev t c Hab Hf) as (I1 & I2 & I3).
  replace (k + Z.of_nat (length (c :: ks))) with (k + 1 + Z.of_nat (length ks)) by (cbn [length]; lia).
  apply IH. split; [intros y Hy; apply I1, Hi, Hy|]. split; [exact I2|]. rewrite I3, Hg. reflexivity.
Qed.

Lemma init_gain prev : NoDup (map fst prev) -> Hgain prev prev 0.
Proof.
  intros Hnd. split; [intros y Hy; exact Hy|].
  assert (Hself : forall c v, In (c, v) prev -> dget_or prev c 0 = v).
  { intros c v Hin. unfold dget_or. rewrite (In_dget prev c v Hnd Hin). reflexivity. }
  split.
  - apply Forall_forall. intros [c v] Hin. simpl. rewrite (Hself c v Hin). lia.
  - unfold gsumz. assert (H0 : forall l, (forall c v, In (c, v) l -> dget_or prev c 0 = v) ->
      zsum (map (fun ct : C * Z => snd ct - dget_or prev (fst ct) 0) l) = 0).
    { induction l as [|[c v] l IH]; intros H; simpl; [reflexivity|]. rewrite zsum_cons. simpl.
      rewrite (H c v (or_introl eq_refl)), IH; [lia|]. intros c' v' Hi. apply H. right. exact Hi. }
    apply H0. exact Hself.
Qed.

Section HAGain.
  Variable d : Z -> Q.
  Variable votes : list (C * Q).
  Variable caps : list (C * Z).
  Variable n : Z.

  Definition Jgain (prev : list (C * Z)) (s : state) : Prop := Hgain prev (st_totals s) (Z.of_nat (length (st_awards s))).

  Lemma step_Jgain prev s : Jgain prev s -> Jgain prev (step d votes caps n s).
  Proof.
    unfold Jgain, step. intros H. destruct (st_qs s) as [|[c0 m] qs'] eqn:E; [exact H|]. cbv zeta.
    destruct (_ <=? _); cbn [st_totals st_awards]; [|exact H].
    unfold HighestAverages.incr.
    match goal with |- Hgain _ (fold_left _ (map fst ?b) _) _ =>
      replace (Z.of_nat (length (st_awards s ++ b))) with (Z.of_nat (length (st_awards s)) + Z.of_nat (length (map fst b)))
        by (rewrite app_length, map_length; lia) end.
    apply fold_incr_gain, H.
  Qed.

  Lemma loop_Jgain prev f : forall s, Jgain prev s -> Jgain prev (loop d votes caps n f s).
  Proof.
    induction f as [|f IH]; intros s H; simpl; [exact H|].
    destruct (_ && _); [apply IH, step_Jgain, H|exact H].
  Qed.

  Lemma final_Jgain prev : NoDup (map fst prev) -> Jgain prev (final_state d votes n prev caps).
  Proof. intros Hnd. unfold final_state. apply loop_Jgain. unfold Jgain, init_state. simpl. apply init_gain, Hnd. Qed.

  (* the gains dictionary returned by evaluate: only positive entries, summing to the number of awarded seats *)
  Definition gains_of (prev t : list (C * Z)) : list (C * Z) :=
    flat_map (fun ct : C * Z => let (c, x) := ct in let g := x - dget_or prev c 0 in if 0 <? g then [(c, g)] else []) t.

  Lemma gains_sum prev t : Forall (fun ct => dget_or prev (fst ct) 0 <= snd ct) t ->
    zsum (map snd (gains_of prev t)) = gsumz prev t /\ Forall (fun cg => 0 < snd cg) (gains_of prev t).
  Proof.
    unfold gains_of, gsumz. induction 1 as [|[c x] t Hx _ [IH1 IH2]]; simpl; [split; [reflexivity|constructor]|].
    simpl in Hx. rewrite zsum_cons. simpl.
    destruct (0 <? x - dget_or prev c 0) eqn:E; simpl.
    - rewrite zsum_cons, IH1. simpl. split; [reflexivity|]. constructor; [simpl; apply Z.ltb_lt; exact E|exact IH2].
    - apply Z.ltb_ge in E. rewrite IH1. split; [lia|exact IH2].
  Qed.

  Theorem ha_gains_shape prev gains tie : NoDup (map fst prev) ->
    evaluate d votes n prev caps = HA_ok gains tie ->
    Forall (fun cg => 0 < snd cg) gains /\
    zsum (map snd gains) = Z.of_nat (length (st_awards (final_state d votes n prev caps))) /\
    tie = st_tie (final_state d votes n prev caps).
  Proof.
    intros Hnd. unfold evaluate. destruct (initial_quotients d votes prev caps n); [discriminate|].
    intros [= <- <-]. destruct (final_Jgain prev Hnd) as (_ & Hf & Hg).
    fold (gains_of prev (st_totals (final_state d votes n prev caps))).
    destruct (gains_sum prev _ Hf) as [S1 S2]. rewrite S1, Hg. auto.
  Qed.
End HAGain.

(* ---- the normal form satisfies the declarative shape (so the checker accepts every get_n_best result) *)
Close Scope Z_scope.
Open Scope nat_scope.
Lemma plain_of_app a b : plain_of (a ++ b) = plain_of a ++ plain_of b.
Proof. unfold plain_of. apply flat_map_app. Qed.
Lemma ties_of_app a b : ties_of (a ++ b) = ties_of a ++ ties_of b.
Proof. unfold ties_of. apply flat_map_app. Qed.
Lemma plain_of_cands e : plain_of (map Cand e) = e.
Proof. induction e as [|x e IH]; simpl; [reflexivity|]. rewrite IH. reflexivity. Qed.
Lemma ties_of_cands e : ties_of (map (@Cand C) e) = [].
Proof. induction e as [|x e IH]; simpl; [reflexivity|exact IH]. Qed.
Lemma plain_of_ties T k : plain_of (repeat (TieR T) k) = [].
Proof. induction k as [|k IH]; simpl; [reflexivity|exact IH]. Qed.
Lemma ties_of_ties (T : list C) k : ties_of (repeat (TieR T) k) = repeat T k.
Proof. induction k as [|k IH]; simpl; [reflexivity|]. rewrite IH. reflexivity. Qed.
Lemma same_set_refl T : same_set T T = true.
Proof. unfold same_set. assert (subsetb T T = true) as -> by (apply subsetb_incl; intros x Hx; exact Hx). reflexivity. Qed.
Lemma filter_repeat_true {X} (f : X -> bool) x k : f x = true -> filter f (repeat x k) = repeat x k.
Proof. intros H. induction k as [|k IH]; simpl; [reflexivity|]. rewrite H, IH. reflexivity. Qed.

Theorem normal_form_shape cands (elected T : list C) k n :
  length elected + k = n -> (k = 0 \/ k < length T) -> NoDup (elected ++ T) -> incl (elected ++ T) cands ->
  sel_shape cands n (map Cand elected ++ repeat (TieR T) k).
Proof.
  intros Hlen Hk Hnd Hincl. unfold sel_shape.
  rewrite plain_of_app, ties_of_app, plain_of_cands, ties_of_cands, plain_of_ties, ties_of_ties, app_nil_r.
  destruct (nodup_app_inv _ _ Hnd) as (HndE & HndT & Hdis).
  split; [rewrite app_length, map_length, repeat_length; exact Hlen|].
  split; [intros c Hc; apply Hincl, in_or_app; left; exact Hc|].
  split; [exact HndE|].
  simpl. intros T' HT'. destruct Hk as [->|Hk]; [destruct HT'|].
  apply repeat_spec in HT'. subst T'.
  split; [exact HndT|]. split.
  - intros c Hc. split; [apply Hincl, in_or_app; right; exact Hc|]. intros He. exact (Hdis c He Hc).
  - unfold occurrences. rewrite ties_of_app, ties_of_cands, ties_of_ties. simpl.
    rewrite (filter_repeat_true (fun l => same_set l T) T k (same_set_refl T)), repeat_length. exact Hk.
Qed.
