(* The resting-place invariant (I3) of the transferable-vote count (Model/STV.v):
   at every count, every ballot without shared ranks rests with the highest-ranked continuing candidate
   (= key of the allocation) on it, or in the exhausted pile only when no candidate on it continues;
   a shared first rank divides the weight of the ballot equally among its candidates. *)
From Coq Require Import ZArith QArith Qround Qreduction Setoid List Bool Arith Lia Lqa.
From VL Require Import Prelude.PyDict Model.GetNBest Model.Convert Model.STV Proofs.Dict_proofs Proofs.Threshold_proofs
     Proofs.STV_proofs.
Import ListNotations.
Open Scope Q_scope.

(* ================================================================ the invariant *)
(* a ballot without shared ranks *)
Definition plainb (b : ballot) : bool := forallb (fun it => match it with IP _ => true | IS _ => false end) b.

(* c is the highest-ranked candidate of b that belongs to K *)
Definition highest_continuing (K : list C) (b : ballot) (c : C) : Prop :=
  exists pre post, b = pre ++ IP c :: post /\ In c K /\ forall x, In (IP x) pre -> ~ In x K.
(* no candidate of b belongs to K *)
Definition none_continuing (K : list C) (b : ballot) : Prop := forall x, In (IP x) b -> ~ In x K.

Definition rests_ok (K : list C) (k : option C) (b : ballot) : Prop :=
  match k with Some c => highest_continuing K b c | None => none_continuing K b end.

(* I3: K = the keys of the allocation = the candidates still in the count (continuing; an elected candidate whose
   pile stays because it may still gain seats is still a key) *)
Definition resting_ok (a : alloc) : Prop :=
  forall k p b w, In (k, p) a -> In (b, w) p -> plainb b = true -> rests_ok (keys_some a) k b.

(* boolean checker: next_after b K is the first rank of b with a candidate in K *)
Definition clist_eqb (x y : list C) : bool :=
  (length x =? length y)%nat && forallb (fun xy => ceqb (fst xy) (snd xy)) (combine x y).
Definition okey_list (k : option C) : list C := match k with Some c => [c] | None => [] end.
Definition resting_okb (a : alloc) : bool :=
  forallb (fun kp : option C * pile =>
    forallb (fun bw : ballot * Q =>
      implb (plainb (fst bw)) (clist_eqb (next_after (fst bw) (keys_some a)) (okey_list (fst kp)))) (snd kp)) a.


(* ================================================================ basic facts *)
Lemma plainb_cons it b : plainb (it :: b) = true <-> (exists c, it = IP c) /\ plainb b = true.
Proof.
  unfold plainb. cbn [forallb]. rewrite andb_true_iff. destruct it as [c|l].
  - split; [intros [_ H]; split; [exists c; reflexivity|exact H]|intros [_ H]; split; [reflexivity|exact H]].
  - split; [intros [H _]; discriminate|intros [[c Hc] _]; discriminate].
Qed.
Lemma plainb_app x y : plainb (x ++ y) = plainb x && plainb y.
Proof. unfold plainb. apply forallb_app. Qed.

(* the pair (pile key, ballot) occurs in the allocation *)
Definition holds (a : alloc) (k : option C) (b : ballot) : Prop := exists p w, In (k, p) a /\ In (b, w) p.

(* resting place relative to a candidate set K, without the membership of the holder itself *)
Definition rests_at (K : list C) (k : option C) (b : ballot) : Prop :=
  match k with
  | Some c => exists pre post, b = pre ++ IP c :: post /\ forall x, In (IP x) pre -> ~ In x K
  | None => none_continuing K b
  end.

Lemma rests_at_anti K K' k b : incl K' K -> rests_at K k b -> rests_at K' k b.
Proof.
  intros Hi. destruct k as [c|]; simpl.
  - intros (pre & post & -> & H). exists pre, post. split; [reflexivity|]. intros x Hx Hk. exact (H x Hx (Hi x Hk)).
  - intros H x Hx Hk. exact (H x Hx (Hi x Hk)).
Qed.

Lemma rests_ok_at K k b : rests_ok K k b <-> rests_at K k b /\ (forall c, k = Some c -> In c K).
Proof.
  destruct k as [c|]; simpl; unfold highest_continuing.
  - split.
    + intros (pre & post & -> & Hc & H). split; [exists pre, post; auto|]. intros c0 [= <-]. exact Hc.
    + intros [(pre & post & -> & H) Hc]. exists pre, post. split; [reflexivity|]. split; [apply Hc; reflexivity|exact H].
  - split; [intros H; split; [exact H|discriminate]|intros [H _]; exact H].
Qed.

Lemma keys_some_In a c : In c (keys_some a) <-> exists p, In (Some c, p) a.
Proof.
  unfold keys_some. rewrite in_flat_map. split.
  - intros ([k p] & Hin & Hc). simpl in Hc. destruct k as [c0|]; [|destruct Hc]. destruct Hc as [<-|[]]. exists p. exact Hin.
  - intros (p & Hin). exists (Some c, p). split; [exact Hin|left; reflexivity].
Qed.

Lemma resting_ok_holds a :
  resting_ok a <-> forall k b, holds a k b -> plainb b = true -> rests_at (keys_some a) k b.
Proof.
  unfold resting_ok. split.
  - intros H k b (p & w & Hk & Hb) Hp. apply rests_ok_at. exact (H k p b w Hk Hb Hp).
  - intros H k p b w Hk Hb Hp. apply rests_ok_at. split; [apply H; [exists p, w; auto|exact Hp]|].
    intros c ->. apply keys_some_In. exists p. exact Hk.
Qed.

Lemma alloc_get_In a k p : alloc_get a k = Some p -> In (k, p) a.
Proof.
  induction a as [|[k' q] a IH]; simpl; [discriminate|]. destruct (okey_eqb k k') eqn:E.
  - apply okey_eqb_eq in E. subst k'. intros [= ->]. left. reflexivity.
  - intros H. right. apply IH, H.
Qed.

(* ---- adding a ballot to a pile introduces at most that (key, ballot) pair *)
Lemma pile_add_In p b0 w0 b w : In (b, w) (pile_add p b0 w0) -> (exists w', In (b, w') p) \/ b = b0.
Proof.
  induction p as [|[b' w'] p IH]; simpl.
  - intros [[= <- <-]|[]]. right. reflexivity.
  - destruct (ballot_eqb b0 b'); simpl.
    + intros [[= <- <-]|H]; left; [exists w'; left; reflexivity|exists w; right; exact H].
    + intros [[= <- <-]|H]; [left; exists w'; left; reflexivity|].
      destruct (IH H) as [(w1 & H1)|H1]; [left; exists w1; right; exact H1|right; exact H1].
Qed.

Lemma alloc_add_holds a k0 b0 w0 k b :
  holds (alloc_add a k0 b0 w0) k b -> holds a k b \/ (k = k0 /\ b = b0).
Proof.
  unfold holds. induction a as [|[k' p'] a IH]; simpl.
  - intros (p & w & [[= <- <-]|[]] & Hb). destruct Hb as [[= <- <-]|[]]. right. split; reflexivity.
  - destruct (okey_eqb k0 k') eqn:E; simpl.
    + apply okey_eqb_eq in E. subst k'. intros (p & w & [[= <- <-]|Hk] & Hb).
      * destruct (pile_add_In _ _ _ _ _ Hb) as [(w1 & H1)|H1]; [left; exists p', w1; auto|right; auto].
      * left. exists p, w. auto.
    + intros (p & w & [[= <- <-]|Hk] & Hb).
      * left. exists p', w. auto.
      * destruct IH as [(p1 & w1 & H1 & H2)|H1]; [exists p, w; auto|left; exists p1, w1; auto|right; exact H1].
Qed.

Lemma alloc_add_keys_some a k0 b0 w0 : incl (keys_some (alloc_add a k0 b0 w0)) (okey_list k0 ++ keys_some a).
Proof.
  intros x Hx. apply keys_some_In in Hx. destruct Hx as (p & Hp). apply in_or_app.
  assert (Hk : In (Some x) (akeys (alloc_add a k0 b0 w0))) by (apply in_map_iff; exists (Some x, p); auto).
  clear Hp. revert Hk. unfold akeys. induction a as [|[k' p'] a IH]; simpl.
  - intros [->|[]]. left. left. reflexivity.
  - destruct (okey_eqb k0 k') eqn:E; simpl.
    + intros [->|H]; right; [left; reflexivity|].
      apply in_map_iff in H. destruct H as ([k1 p1] & Hk1 & H). simpl in Hk1. subst k1.
      destruct k' as [c'|]; [right|]; apply keys_some_In; exists p1; exact H.
    + intros [->|H]; [right; left; reflexivity|].
      destruct (IH H) as [H1|H1]; [left; exact H1|right]. destruct k' as [c'|]; [right|]; exact H1.
Qed.

Lemma fold_add_holds T b0 sh k b : forall a,
  holds (fold_left (fun a t => alloc_add a (Some t) b0 sh) T a) k b ->
  holds a k b \/ (b = b0 /\ exists t, In t T /\ k = Some t).
Proof.
  induction T as [|t T IH]; intros a; simpl; [auto|].
  intros H. destruct (IH _ H) as [H1|(-> & t1 & Ht1 & ->)].
  - destruct (alloc_add_holds _ _ _ _ _ _ H1) as [H2|[-> ->]]; [left; exact H2|].
    right. split; [reflexivity|]. exists t. auto.
  - right. split; [reflexivity|]. exists t1. auto.
Qed.

Lemma move_ballot_holds a T b0 w0 k b :
  holds (move_ballot a T b0 w0) k b ->
  holds a k b \/ (b = b0 /\ ((T = [] /\ k = None) \/ exists t, In t T /\ k = Some t)).
Proof.
  unfold move_ballot. destruct T as [|t0 ts].
  - intros H. destruct (alloc_add_holds _ _ _ _ _ _ H) as [H1|[-> ->]]; [left; exact H1|right; auto].
  - intros H. destruct (fold_add_holds _ _ _ _ _ _ H) as [H1|[-> H1]]; [left; exact H1|right; auto].
Qed.

Lemma move_ballot_keys_some a T b0 w0 : incl (keys_some (move_ballot a T b0 w0)) (T ++ keys_some a).
Proof.
  unfold move_ballot. destruct T as [|t0 ts]; [exact (alloc_add_keys_some a None b0 w0)|].
  generalize (Qred (w0 / inject_Z (Z.of_nat (length (t0 :: ts))))). intros sh.
  generalize (t0 :: ts). clear t0 ts. intros T. revert a. induction T as [|t T IH]; intros a; simpl; [apply incl_refl|].
  intros x Hx. apply IH in Hx. apply in_app_or in Hx. destruct Hx as [Hx|Hx]; [right; apply in_or_app; left; exact Hx|].
  apply alloc_add_keys_some in Hx. simpl in Hx. destruct Hx as [<-|Hx]; [left; reflexivity|right; apply in_or_app; right; exact Hx].
Qed.

Lemma alloc_del_holds a k0 k b : holds (alloc_del a k0) k b -> holds a k b /\ k <> k0.
Proof.
  unfold holds, alloc_del. intros (p & w & Hk & Hb). apply filter_In in Hk. destruct Hk as [Hk Hne]. simpl in Hne.
  split; [exists p, w; auto|]. intros ->. rewrite okey_eqb_refl in Hne. discriminate.
Qed.

Lemma alloc_del_keys_some a c x : In x (keys_some (alloc_del a (Some c))) -> In x (keys_some a) /\ x <> c.
Proof.
  intros Hx. apply keys_some_In in Hx. destruct Hx as (p & Hp). unfold alloc_del in Hp. apply filter_In in Hp.
  destruct Hp as [Hp Hne]. split; [apply keys_some_In; exists p; exact Hp|]. intros ->. simpl in Hne.
  unfold ceqb in Hne. rewrite Pos.eqb_refl in Hne. discriminate.
Qed.

(* ================================================================ ranked_next on a ballot without shared ranks *)
Lemma next_after_plain_nil b K : plainb b = true -> next_after b K = [] -> none_continuing K b.
Proof.
  unfold none_continuing. induction b as [|[c|l] t IH]; intros Hp; [intros _ x []| |apply plainb_cons in Hp; destruct Hp as [[c Hc] _]; discriminate].
  apply plainb_cons in Hp. destruct Hp as [_ Hp]. simpl. destruct (cmem c K) eqn:E; [discriminate|].
  intros Hn x [[= <-]|Hx]; [intros Hk; apply cmem_In in Hk; congruence|exact (IH Hp Hn x Hx)].
Qed.

Lemma next_after_plain_in b K t : plainb b = true -> In t (next_after b K) ->
  next_after b K = [t] /\
  exists mid post, b = mid ++ IP t :: post /\ In t K /\ forall x, In (IP x) mid -> ~ In x K.
Proof.
  induction b as [|[c|l] b IH]; intros Hp; [intros []| |apply plainb_cons in Hp; destruct Hp as [[c Hc] _]; discriminate].
  apply plainb_cons in Hp. destruct Hp as [_ Hp]. simpl. destruct (cmem c K) eqn:E.
  - intros [<-|[]]. split; [reflexivity|]. exists [], b. split; [reflexivity|]. split; [apply cmem_In, E|intros x []].
  - intros Ht. destruct (IH Hp Ht) as (He & mid & post & -> & Hk & Hm). split; [exact He|].
    exists (IP c :: mid), post. split; [reflexivity|]. split; [exact Hk|].
    intros x [[= <-]|Hx]; [intros Hc; apply cmem_In in Hc; congruence|exact (Hm x Hx)].
Qed.

Lemma next_after_skip pre rest K : plainb pre = true -> (forall x, In (IP x) pre -> ~ In x K) ->
  next_after (pre ++ rest) K = next_after rest K.
Proof.
  induction pre as [|[c|l] pre IH]; intros Hp Hn; [reflexivity| |apply plainb_cons in Hp; destruct Hp as [[c Hc] _]; discriminate].
  apply plainb_cons in Hp. destruct Hp as [_ Hp]. simpl.
  destruct (cmem c K) eqn:E; [exfalso; apply (Hn c); [left; reflexivity|apply cmem_In, E]|].
  apply IH; [exact Hp|]. intros x Hx. apply Hn. right. exact Hx.
Qed.

Lemma ranked_next_skip pre c post allowed : plainb pre = true -> ~ In (IP c) pre ->
  ranked_next (pre ++ IP c :: post) c allowed = next_after post allowed.
Proof.
  induction pre as [|[x|l] pre IH]; intros Hp Hn.
  - simpl. unfold ceqb. rewrite Pos.eqb_refl. reflexivity.
  - apply plainb_cons in Hp. destruct Hp as [_ Hp]. simpl. destruct (ceqb c x) eqn:E.
    + apply ceqb_eq in E. subst x. exfalso. apply Hn. left. reflexivity.
    + apply IH; [exact Hp|]. intros H. apply Hn. right. exact H.
  - apply plainb_cons in Hp. destruct Hp as [[x Hx] _]. discriminate.
Qed.

(* the checker decides the invariant *)
Lemma clist_eqb_eq x y : clist_eqb x y = true <-> x = y.
Proof.
  unfold clist_eqb. revert y. induction x as [|a x IH]; destruct y as [|b y]; simpl; try (split; [discriminate|intros H; discriminate]); [tauto|].
  specialize (IH y). rewrite andb_true_iff in *. rewrite andb_true_iff, ceqb_eq. rewrite Nat.eqb_eq in *.
  split; [intros (Hl & -> & Hf); f_equal; apply IH; auto|intros [= -> ->]; split; [reflexivity|split; [reflexivity|apply IH; reflexivity]]].
Qed.

Lemma next_after_plain_spec b K k : plainb b = true -> (next_after b K = okey_list k <-> rests_ok K k b).
Proof.
  intros Hp. destruct k as [c|]; simpl.
  - split.
    + intros H. assert (Hin : In c (next_after b K)) by (rewrite H; left; reflexivity).
      destruct (next_after_plain_in b K c Hp Hin) as (_ & mid & post & -> & Hk & Hm). exists mid, post. auto.
    + intros (pre & post & -> & Hk & Hm). rewrite plainb_app in Hp. apply andb_true_iff in Hp. destruct Hp as [Hp _].
      rewrite (next_after_skip pre _ K Hp Hm). simpl. apply cmem_In in Hk. rewrite Hk. reflexivity.
  - split; [apply next_after_plain_nil, Hp|].
    intros Hn. destruct (next_after b K) as [|t l] eqn:E; [reflexivity|]. exfalso.
    assert (Hin : In t (next_after b K)) by (rewrite E; left; reflexivity).
    destruct (next_after_plain_in b K t Hp Hin) as (_ & mid & post & -> & Hk & _).
    apply (Hn t); [apply in_or_app; right; left; reflexivity|exact Hk].
Qed.

Theorem resting_okb_spec a : resting_okb a = true <-> resting_ok a.
Proof.
  unfold resting_okb, resting_ok. rewrite forallb_forall. split.
  - intros H k p b w Hk Hb Hp. specialize (H (k, p) Hk). rewrite forallb_forall in H. specialize (H (b, w) Hb).
    cbn [fst snd] in H. rewrite Hp in H. cbn [implb] in H. apply clist_eqb_eq in H. apply (next_after_plain_spec b _ k Hp), H.
  - intros H [k p] Hk. apply forallb_forall. intros [b w] Hb. cbn [fst snd]. destruct (plainb b) eqn:Hp; [|reflexivity].
    cbn [implb]. apply clist_eqb_eq. apply (next_after_plain_spec b _ k Hp). exact (H k p b w Hk Hb Hp).
Qed.

(* the step of a transfer: a ballot resting properly with c (relative to K) leaves the eliminated c for the
   highest-ranked candidate of cont on it, where cont is a part of K without c *)
Lemma ranked_next_rests K cont c b : plainb b = true -> rests_at K (Some c) b -> In c K -> incl cont K -> ~ In c cont ->
  (ranked_next b c cont = [] -> rests_at cont None b) /\
  (forall t, In t (ranked_next b c cont) -> rests_at cont (Some t) b).
Proof.
  intros Hp (pre & post & -> & Hpre) Hc Hi Hnc.
  rewrite plainb_app in Hp. apply andb_true_iff in Hp. destruct Hp as [Hp1 Hp2]. apply plainb_cons in Hp2. destruct Hp2 as [_ Hp2].
  assert (Hnp : ~ In (IP c) pre) by (intros H; exact (Hpre c H Hc)).
  rewrite (ranked_next_skip pre c post cont Hp1 Hnp). split.
  - intros Hn. pose proof (next_after_plain_nil post cont Hp2 Hn) as Hnone. simpl. intros x Hx Hk.
    apply in_app_or in Hx. destruct Hx as [Hx|[[= <-]|Hx]]; [exact (Hpre x Hx (Hi x Hk))|exact (Hnc Hk)|exact (Hnone x Hx Hk)].
  - intros t Ht. destruct (next_after_plain_in post cont t Hp2 Ht) as (_ & mid & post' & -> & Hk & Hm).
    simpl. exists (pre ++ IP c :: mid), post'. split; [rewrite <- app_assoc; reflexivity|].
    intros x Hx Hkx. apply in_app_or in Hx. destruct Hx as [Hx|[[= <-]|Hx]]; [exact (Hpre x Hx (Hi x Hkx))|exact (Hnc Hkx)|exact (Hm x Hx Hkx)].
Qed.

(* ================================================================ (b) transfer *)
Section TRANSFER.
  Variables K cont : list C.
  Hypothesis Hcont : incl cont K.

  (* state of the transfer loop: rem = candidates still to be removed *)
  Definition TJ (rem : list C) (a : alloc) : Prop :=
    (forall k b, holds a k b -> plainb b = true -> rests_at cont k b) /\
    (forall c b, In c rem -> holds a (Some c) b -> plainb b = true -> rests_at K (Some c) b) /\
    incl (keys_some a) (cont ++ rem).

  Lemma transfer_inner c rem : In c K -> (forall x, In x (c :: rem) -> ~ In x cont) ->
    forall q a0, TJ (c :: rem) a0 ->
    (forall b w, In (b, w) q -> plainb b = true -> rests_at K (Some c) b) ->
    TJ (c :: rem) (fold_left (fun a bw => move_ballot a (ranked_next (fst bw) c cont) (fst bw) (snd bw)) q a0).
  Proof.
    intros Hc Hdis. induction q as [|[b0 w0] q IH]; intros a0 HJ Hq; simpl; [exact HJ|].
    apply IH; [|intros b w H; apply (Hq b w); right; exact H].
    destruct HJ as (J1 & J2 & J3). split; [|split].
    - intros k b Hh Hp. destruct (move_ballot_holds _ _ _ _ _ _ Hh) as [H1|(-> & Hk)]; [exact (J1 k b H1 Hp)|].
      destruct (ranked_next_rests K cont c b0 Hp (Hq b0 w0 (or_introl eq_refl) Hp) Hc Hcont (Hdis c (or_introl eq_refl))) as [R1 R2].
      destruct Hk as [[Hn ->]|(t & Ht & ->)]; [exact (R1 Hn)|exact (R2 t Ht)].
    - intros c2 b Hc2 Hh Hp. destruct (move_ballot_holds _ _ _ _ _ _ Hh) as [H1|(-> & Hk)]; [exact (J2 c2 b Hc2 H1 Hp)|].
      exfalso. destruct Hk as [[_ [=]]|(t & Ht & [= ->])].
      apply (Hdis t Hc2). exact (ranked_next_allowed b0 c cont t Ht).
    - intros x Hx. apply move_ballot_keys_some in Hx. apply in_app_or in Hx. destruct Hx as [Hx|Hx]; [|exact (J3 x Hx)].
      apply in_or_app. left. exact (ranked_next_allowed b0 c cont x Hx).
  Qed.

  Lemma transfer_outer rem : (forall x, In x rem -> In x K /\ ~ In x cont) ->
    forall a0, TJ rem a0 ->
    TJ [] (fold_left (fun a c =>
      let p := match alloc_get a (Some c) with Some p => p | None => [] end in
      alloc_del (fold_left (fun a bw => move_ballot a (ranked_next (fst bw) c cont) (fst bw) (snd bw)) p a) (Some c)) rem a0).
  Proof.
    induction rem as [|c rem IH]; intros Hrem a0 HJ; simpl; [exact HJ|].
    apply IH; [intros x Hx; apply Hrem; right; exact Hx|].
    set (p := match alloc_get a0 (Some c) with Some p => p | None => [] end).
    assert (Hp : forall b w, In (b, w) p -> plainb b = true -> rests_at K (Some c) b).
    { intros b w Hb Hpl. destruct HJ as (_ & J2 & _). apply (J2 c b (or_introl eq_refl)); [|exact Hpl].
      unfold p in Hb. destruct (alloc_get a0 (Some c)) as [p0|] eqn:E; [|destruct Hb].
      exists p0, w. split; [apply alloc_get_In, E|exact Hb]. }
    pose proof (transfer_inner c rem (proj1 (Hrem c (or_introl eq_refl))) (fun x Hx => proj2 (Hrem x Hx)) p a0 HJ Hp) as (I1 & I2 & I3).
    split; [|split].
    - intros k b Hh. apply alloc_del_holds in Hh. exact (I1 k b (proj1 Hh)).
    - intros c2 b Hc2 Hh. apply alloc_del_holds in Hh. exact (I2 c2 b (or_intror Hc2) (proj1 Hh)).
    - intros x Hx. apply alloc_del_keys_some in Hx. destruct Hx as [Hx Hne]. apply I3 in Hx.
      apply in_app_or in Hx. apply in_or_app. destruct Hx as [Hx|[Hx|Hx]]; [left; exact Hx|congruence|right; exact Hx].
  Qed.
End TRANSFER.

Theorem transfer_resting a elim : resting_ok a -> resting_ok (transfer a elim).
Proof.
  intros Hr. rewrite resting_ok_holds in Hr. apply resting_ok_holds. unfold transfer.
  set (K := keys_some a). set (cont := filter (fun c => negb (cmem c elim)) K). set (rem := filter (fun c => cmem c elim) K).
  assert (Hcont : incl cont K) by (intros x Hx; apply filter_In in Hx; tauto).
  assert (Hrem : forall x, In x rem -> In x K /\ ~ In x cont).
  { intros x Hx. apply filter_In in Hx. destruct Hx as [Hx He]. split; [exact Hx|]. intros Hc. apply filter_In in Hc.
    destruct Hc as [_ Hc]. rewrite He in Hc. discriminate. }
  assert (H0 : TJ K cont rem a).
  { split; [|split].
    - intros k b Hh Hp. apply (rests_at_anti K cont k b Hcont). exact (Hr k b Hh Hp).
    - intros c b _ Hh Hp. exact (Hr (Some c) b Hh Hp).
    - intros x Hx. apply in_or_app. destruct (cmem x elim) eqn:E; [right|left]; apply filter_In; rewrite E; auto. }
  destruct (transfer_outer K cont Hcont rem Hrem a H0) as (F1 & _ & F3).
  intros k b Hh Hp. apply (rests_at_anti cont); [|exact (F1 k b Hh Hp)].
  intros x Hx. apply F3 in Hx. rewrite app_nil_r in Hx. exact Hx.
Qed.

(* the keys only shrink in a transfer *)
Lemma transfer_keys_shrink a elim : incl (keys_some (transfer a elim)) (filter (fun c => negb (cmem c elim)) (keys_some a)).
Proof.
  unfold transfer.
  set (K := keys_some a). set (cont := filter (fun c => negb (cmem c elim)) K). set (rem := filter (fun c => cmem c elim) K).
  assert (Hcont : incl cont K) by (intros x Hx; apply filter_In in Hx; tauto).
  assert (Hrem : forall x, In x rem -> In x K /\ ~ In x cont).
  { intros x Hx. apply filter_In in Hx. destruct Hx as [Hx He]. split; [exact Hx|]. intros Hc. apply filter_In in Hc.
    destruct Hc as [_ Hc]. rewrite He in Hc. discriminate. }
  assert (Hgen : forall rem0 a0, (forall x, In x rem0 -> ~ In x cont) -> incl (keys_some a0) (cont ++ rem0) ->
     incl (keys_some (fold_left (fun a c =>
       let p := match alloc_get a (Some c) with Some p => p | None => [] end in
       alloc_del (fold_left (fun a bw => move_ballot a (ranked_next (fst bw) c cont) (fst bw) (snd bw)) p a) (Some c)) rem0 a0)) cont).
  { induction rem0 as [|c rem0 IH]; intros a0 Hd Hk; simpl; [intros x Hx; apply Hk in Hx; rewrite app_nil_r in Hx; exact Hx|].
    apply IH; [intros x Hx; apply Hd; right; exact Hx|].
    intros x Hx. apply alloc_del_keys_some in Hx. destruct Hx as [Hx Hne].
    assert (Hin : forall q a1, incl (keys_some a1) (cont ++ c :: rem0) ->
       incl (keys_some (fold_left (fun a bw => move_ballot a (ranked_next (fst bw) c cont) (fst bw) (snd bw)) q a1)) (cont ++ c :: rem0)).
    { induction q as [|[b0 w0] q IHq]; intros a1 H1; simpl; [exact H1|]. apply IHq.
      intros y Hy. apply move_ballot_keys_some in Hy. apply in_app_or in Hy. destruct Hy as [Hy|Hy]; [|exact (H1 y Hy)].
      apply in_or_app. left. exact (ranked_next_allowed b0 c cont y Hy). }
    apply (Hin _ a0 Hk) in Hx. apply in_app_or in Hx. apply in_or_app.
    destruct Hx as [Hx|[Hx|Hx]]; [left; exact Hx|congruence|right; exact Hx]. }
  apply Hgen; [intros x Hx; exact (proj2 (Hrem x Hx))|].
  intros x Hx. apply in_or_app. destruct (cmem x elim) eqn:E; [right|left]; apply filter_In; rewrite E; auto.
Qed.

(* ================================================================ (c) Gregory reweighting keeps every ballot where it is *)
Lemma gregory_subtract_ballots p amt p' b w : gregory_subtract p amt = Some p' -> In (b, w) p' -> exists w0, In (b, w0) p.
Proof.
  unfold gregory_subtract. destruct (Qeq_bool (pile_sum p) 0); [discriminate|].
  destruct (Qle_bool (pile_sum p) amt); [intros [= <-] []|].
  intros [= <-] Hin. apply in_map_iff in Hin. destruct Hin as ([b0 w0] & [= <- _] & Hin). exists w0. exact Hin.
Qed.

Theorem subtract_resting elected : forall a a', resting_ok a -> subtract a elected = Some a' -> resting_ok a'.
Proof.
  induction elected as [|[c amt] t IH]; intros a a' Hr; cbn [subtract]; [intros [= <-]; exact Hr|].
  destruct (alloc_get a (Some c)) as [p|] eqn:Eg; [|discriminate].
  destruct (gregory_subtract p amt) as [p'|] eqn:Es; [|discriminate].
  apply IH. clear IH.
  set (a1 := map (fun kp : option C * pile => if okey_eqb (Some c) (fst kp) then (fst kp, p') else kp) a).
  assert (Hk : keys_some a1 = keys_some a).
  { unfold a1, keys_some. clear. induction a as [|[k q] a IHa]; cbn -[okey_eqb]; [reflexivity|].
    rewrite IHa. destruct (okey_eqb (Some c) k); reflexivity. }
  assert (Hh : forall k b, holds a1 k b -> holds a k b).
  { intros k b (q & w & Hq & Hb). unfold a1 in Hq. apply in_map_iff in Hq. destruct Hq as ([k0 q0] & Heq & Hin).
    cbn [fst snd] in Heq. destruct (okey_eqb (Some c) k0) eqn:E.
    - apply okey_eqb_eq in E. subst k0. injection Heq as <- <-.
      destruct (gregory_subtract_ballots p amt p' b w Es Hb) as (w0 & Hw0). exists p, w0. split; [apply alloc_get_In, Eg|exact Hw0].
    - injection Heq as <- <-. exists q0, w. auto. }
  rewrite resting_ok_holds in Hr. apply resting_ok_holds. rewrite Hk. intros k b Hb Hp. exact (Hr k b (Hh k b Hb) Hp).
Qed.

(* ================================================================ (a) the initial allocation *)
Theorem initial_resting votes : resting_ok (initial_allocation votes).
Proof.
  apply resting_ok_holds. intros k b Hh Hp.
  (* whatever the keys: a ballot without shared ranks is held only by its first candidate *)
  enough (Hfirst : exists t, k = Some (match b with IP c :: _ => c | _ => 1%positive end) /\ b = IP (match b with IP c :: _ => c | _ => 1%positive end) :: t).
  { destruct Hfirst as (t & -> & Hb). simpl. exists [], t. split; [exact Hb|intros x []]. }
  revert Hh. unfold initial_allocation. set (cands := all_ranked_candidates votes).
  set (base := map (fun c => (Some c, @nil (ballot * Q))) cands).
  set (G := fun (k : option C) (b : ballot) => plainb b = true ->
              exists t, k = Some (match b with IP c :: _ => c | _ => 1%positive end) /\ b = IP (match b with IP c :: _ => c | _ => 1%positive end) :: t).
  assert (Hbase : forall k b, holds base k b -> G k b).
  { intros k0 b0 (p & w & Hk & Hb). unfold base in Hk. apply in_map_iff in Hk. destruct Hk as (c & [= <- <-] & _). destruct Hb. }
  assert (Hd : forall (vs : list (ballot * Q)) a0, (forall k b, holds a0 k b -> G k b) ->
     forall k b, holds (fold_left (fun a bw => match fst bw with IP c :: _ => alloc_add a (Some c) (fst bw) (snd bw) | _ => a end) vs a0) k b -> G k b).
  { induction vs as [|[b0 w0] vs IHv]; intros a0 Ha; simpl; [exact Ha|]. apply IHv.
    destruct b0 as [|[c|l] t]; [exact Ha| |exact Ha].
    intros k1 b1 Hh. destruct (alloc_add_holds _ _ _ _ _ _ Hh) as [H1|[-> ->]]; [exact (Ha k1 b1 H1)|].
    intros _. exists t. split; reflexivity. }
  assert (Hs : forall (vs : list (ballot * Q)) a0, (forall k b, holds a0 k b -> G k b) ->
     forall k b, holds (fold_left (fun a bw => match fst bw with IS _ :: _ => move_ballot a (next_after (fst bw) cands) (fst bw) (snd bw) | _ => a end) vs a0) k b -> G k b).
  { induction vs as [|[b0 w0] vs IHv]; intros a0 Ha; simpl; [exact Ha|]. apply IHv.
    destruct b0 as [|[c|l] t]; [exact Ha|exact Ha|].
    intros k1 b1 Hh. destruct (move_ballot_holds _ _ _ _ _ _ Hh) as [H1|[-> _]]; [exact (Ha k1 b1 H1)|].
    intros Hpl. apply plainb_cons in Hpl. destruct Hpl as [[c Hc] _]. discriminate. }
  intros Hh. exact (Hs votes _ (Hd votes base Hbase) k b Hh Hp).
Qed.

(* ================================================================ (d) every count *)
Theorem next_count_resting cf a n_seats total prev caps a' el :
  resting_ok a -> next_count cf a n_seats total prev caps = CR_next a' el -> resting_ok a'.
Proof.
  intros Hr. unfold next_count.
  destruct (negb _ && _ && _); [discriminate|].
  match goal with |- context [elect_by_quota cf (totals a) ?qo ?nr prev caps] =>
    destruct (elect_by_quota cf (totals a) qo nr prev caps) as [[el0|]|s]; [| |discriminate]; destruct qo as [qv|] end;
    try discriminate.
  - destruct (subtract a _) as [a1|] eqn:Es; [|discriminate].
    pose proof (subtract_resting _ a a1 Hr Es) as Hr1.
    destruct (flat_map _ el0) as [|e es]; intros [= <- <-]; [exact Hr1|apply transfer_resting, Hr1].
  - destruct (existsb _ _); [discriminate|].
    destruct (filter _ _) as [|e es]; intros [= <- <-]; [exact Hr|apply transfer_resting, Hr].
  - destruct (existsb _ _); [discriminate|].
    destruct (filter _ _) as [|e es]; intros [= <- <-]; [exact Hr|apply transfer_resting, Hr].
Qed.

Theorem reach_resting cf votes n_seats caps prev0 a seats qs :
  reach cf votes n_seats caps prev0 a seats qs -> resting_ok a.
Proof.
  induction 1 as [|a seats qs a' el _ IH Hn]; [apply initial_resting|].
  exact (next_count_resting cf a n_seats _ seats caps a' el IH Hn).
Qed.

(* ---- every count RECORDED by the trace of stv comes from an allocation satisfying the invariant *)
Section RECORDED.
  Variable cf : cfg.
  Variable votes : list (ballot * Q).
  Variable n_seats : Z.
  Variable caps prev0 : list (C * Z).
  Let total := Qred (fold_left Qplus (map snd votes) 0).

  (* a recorded count: the totals of a reachable allocation, or the elect-all-remaining shortcut (no allocation: []) *)
  Definition recorded_ok (e : list (option C * Q) * list (C * Z)) : Prop :=
    (exists a seats qs, reach cf votes n_seats caps prev0 a seats qs /\ resting_ok a /\ fst e = totals a) \/ fst e = [].

  Lemma run_recorded fuel : forall a seats qs acc, reach cf votes n_seats caps prev0 a seats qs ->
    (forall e, In e acc -> recorded_ok e) ->
    forall e, In e (t_counts (run cf fuel a n_seats total seats caps acc)) -> recorded_ok e.
  Proof.
    induction fuel as [|f IH]; intros a seats qs acc Hr Hacc e; cbn [run].
    - destruct (zsum (map snd seats) =? n_seats)%Z; cbn [t_counts]; intros He; apply in_rev in He; exact (Hacc e He).
    - destruct (zsum (map snd seats) =? n_seats)%Z; [cbn [t_counts]; intros He; apply in_rev in He; exact (Hacc e He)|].
      destruct (next_count cf a n_seats total seats caps) as [el|a' el|s] eqn:En; cbn [t_counts].
      + intros He. apply in_rev in He. destruct He as [<-|He]; [right; reflexivity|exact (Hacc e He)].
      + assert (Hr' : reach cf votes n_seats caps prev0 a' (add_seats seats el) (qs + seats_sum el)) by (eapply reach_step; eassumption).
        assert (Hacc' : forall e0, In e0 ((totals a', el) :: acc) -> recorded_ok e0).
        { intros e0 [<-|H0]; [|exact (Hacc e0 H0)]. left. exists a', (add_seats seats el), (qs + seats_sum el)%Z.
          split; [exact Hr'|]. split; [exact (reach_resting _ _ _ _ _ _ _ _ Hr')|reflexivity]. }
        destruct el as [|e1 el'].
        * destruct (alloc_eqb a' a); [cbn [t_counts]; intros He; apply in_rev in He; exact (Hacc e He)|].
          apply (IH a' seats (qs + seats_sum [])%Z); [exact Hr'|exact Hacc'].
        * apply (IH a' _ _ _ Hr' Hacc').
      + intros He. apply in_rev in He. exact (Hacc e He).
  Qed.

  Theorem stv_recorded e : In e (t_counts (stv cf votes n_seats prev0 caps)) -> recorded_ok e.
  Proof.
    unfold stv. apply (run_recorded _ _ prev0 0%Z); [apply reach_init|intros e0 []].
  Qed.
End RECORDED.

(* ================================================================ (e) a shared first rank divides the weight equally *)
(* weight of the ballots selected by f in a pile / in the pile of key k *)
Definition fweight (f : ballot -> bool) (p : pile) : Q :=
  fold_right (fun bw acc => (if f (fst bw) then snd bw else 0) + acc) 0 p.
Definition aweight (f : ballot -> bool) (a : alloc) (k : option C) : Q :=
  match alloc_get a k with Some p => fweight f p | None => 0 end.
(* f does not separate ballots that the pile (a Python dict keyed by the ballot) identifies *)
Definition respects (f : ballot -> bool) : Prop := forall b b', ballot_eqb b b' = true -> f b' = f b.

Lemma pile_add_fweight f p b w : respects f -> fweight f (pile_add p b w) == fweight f p + (if f b then w else 0).
Proof.
  intros Hf. induction p as [|[b' w'] p IH]; simpl; [ring|].
  destruct (ballot_eqb b b') eqn:E; simpl.
  - rewrite (Hf b b' E). destruct (f b); [|ring]. pose proof (Qred_correct (w' + w)) as Hr. rewrite Hr. ring.
  - rewrite IH. ring.
Qed.

Lemma alloc_add_aweight f a k b w k' : respects f ->
  aweight f (alloc_add a k b w) k' == aweight f a k' + (if okey_eqb k' k then (if f b then w else 0) else 0).
Proof.
  intros Hf. unfold aweight. induction a as [|[k0 p] a IH]; cbn [alloc_add alloc_get].
  - destruct (okey_eqb k' k); simpl; ring.
  - destruct (okey_eqb k k0) eqn:E; cbn [alloc_get].
    + apply okey_eqb_eq in E. subst k0. destruct (okey_eqb k' k) eqn:E2; [rewrite pile_add_fweight by exact Hf; ring|ring].
    + destruct (okey_eqb k' k0) eqn:E2; [|exact IH].
      apply okey_eqb_eq in E2. subst k0. destruct (okey_eqb k' k) eqn:E3; [|ring].
      apply okey_eqb_eq in E3. subst k'. rewrite okey_eqb_refl in E. discriminate.
Qed.

Definition cnt (l : list C) (c : C) : Q := inject_Z (Z.of_nat (count_occ Pos.eq_dec l c)).

Lemma fold_add_aweight f T b sh c : respects f -> forall a,
  aweight f (fold_left (fun a t => alloc_add a (Some t) b sh) T a) (Some c)
  == aweight f a (Some c) + cnt T c * (if f b then sh else 0).
Proof.
  intros Hf. unfold cnt. induction T as [|t T IH]; intros a; cbn [fold_left count_occ]; [simpl; ring|].
  rewrite IH, alloc_add_aweight by exact Hf. cbn [okey_eqb]. unfold ceqb.
  destruct (Pos.eq_dec t c) as [->|Hne].
  - rewrite Pos.eqb_refl, Nat2Z.inj_succ, <- Z.add_1_r, inject_Z_plus. simpl (inject_Z 1). ring.
  - assert ((c =? t)%positive = false) as -> by (apply Pos.eqb_neq; congruence). ring.
Qed.

Lemma fold_add_aweight_none f T b sh : forall a,
  aweight f (fold_left (fun a t => alloc_add a (Some t) b sh) T a) None = aweight f a None.
Proof.
  induction T as [|t T IH]; intros a; cbn [fold_left]; [reflexivity|]. rewrite IH. unfold aweight.
  rewrite alloc_add_get_other by discriminate. reflexivity.
Qed.

(* one ballot leaving: each target receives the same share w / (number of targets) *)
Theorem move_ballot_aweight f a T b w c : respects f ->
  aweight f (move_ballot a T b w) (Some c)
  == aweight f a (Some c) + cnt T c * (if f b then w / inject_Z (Z.of_nat (length T)) else 0).
Proof.
  intros Hf. unfold move_ballot. destruct T as [|t0 ts].
  - rewrite alloc_add_aweight by exact Hf. unfold cnt. simpl. ring.
  - rewrite fold_add_aweight by exact Hf.
    pose proof (Qred_correct (w / inject_Z (Z.of_nat (length (t0 :: ts))))) as Hr.
    destruct (f b); [rewrite Hr|]; reflexivity.
Qed.

(* ---- every ranked candidate is a key of the initial allocation *)
Lemma all_ranked_complete votes b w it c : In (b, w) votes -> In it b -> In c (members it) -> In c (all_ranked_candidates votes).
Proof.
  intros Hv Hit Hc. unfold all_ranked_candidates.
  set (addc := fun (acc : list C) (c : C) => if cmem c acc then acc else acc ++ [c]).
  assert (H1 : forall l acc, incl acc (fold_left addc l acc) /\ incl l (fold_left addc l acc)).
  { induction l as [|x l IH]; intros acc; simpl; [split; [apply incl_refl|intros y []]|].
    destruct (IH (addc acc x)) as [I1 I2].
    assert (Hacc : incl acc (addc acc x)) by (unfold addc; destruct (cmem x acc); [apply incl_refl|apply incl_appl, incl_refl]).
    assert (Hx : In x (addc acc x)).
    { unfold addc. destruct (cmem x acc) eqn:E; [apply cmem_In, E|apply in_or_app; right; left; reflexivity]. }
    split; [intros y Hy; apply I1, Hacc, Hy|]. intros y [<-|Hy]; [apply I1, Hx|apply I2, Hy]. }
  set (stepv := fun i (acc : list C) (bw : ballot * Q) => match nth_error (fst bw) i with
                             | Some it => fold_left addc (members it) acc | None => acc end).
  assert (H2 : forall i (vs : list (ballot * Q)) acc, incl acc (fold_left (stepv i) vs acc) /\
            (forall bw it0, In bw vs -> nth_error (fst bw) i = Some it0 -> incl (members it0) (fold_left (stepv i) vs acc))).
  { intros i. induction vs as [|bw vs IH]; intros acc; simpl; [split; [apply incl_refl|intros ? ? []]|].
    destruct (IH (stepv i acc bw)) as [I1 I2].
    assert (Hacc : incl acc (stepv i acc bw)).
    { unfold stepv. destruct (nth_error (fst bw) i); [apply H1|apply incl_refl]. }
    split; [intros y Hy; apply I1, Hacc, Hy|].
    intros bw0 it0 [<-|Hin] Hn; [|exact (I2 bw0 it0 Hin Hn)].
    intros y Hy. apply I1. unfold stepv. rewrite Hn. apply H1, Hy. }
  assert (H3 : forall (is : list nat) acc, incl acc (fold_left (fun acc i => fold_left (stepv i) votes acc) is acc) /\
            (forall i, In i is -> forall bw it0, In bw votes -> nth_error (fst bw) i = Some it0 ->
               incl (members it0) (fold_left (fun acc i => fold_left (stepv i) votes acc) is acc))).
  { induction is as [|i is IH]; intros acc; simpl; [split; [apply incl_refl|intros ? []]|].
    destruct (IH (fold_left (stepv i) votes acc)) as [I1 I2]. destruct (H2 i votes acc) as [J1 J2].
    split; [intros y Hy; apply I1, J1, Hy|].
    intros i0 [<-|Hi] bw it0 Hbw Hn; [intros y Hy; apply I1; exact (J2 bw it0 Hbw Hn y Hy)|exact (I2 i0 Hi bw it0 Hbw Hn)]. }
  destruct (In_nth_error b it Hit) as (i & Hi).
  assert (Hlen : (i < fold_left (fun m (bw : ballot * Q) => Nat.max m (length (fst bw))) votes 0)%nat).
  { assert (Hib : (i < length b)%nat) by (apply nth_error_Some; rewrite Hi; discriminate).
    assert (Hmax : forall (vs : list (ballot * Q)) m, (m <= fold_left (fun m bw => Nat.max m (length (fst bw))) vs m)%nat /\
              (forall bw, In bw vs -> (length (fst bw) <= fold_left (fun m bw => Nat.max m (length (fst bw))) vs m)%nat)).
    { induction vs as [|bw vs IHv]; intros m; cbn [fold_left In]; [split; [lia|intros ? []]|].
      destruct (IHv (Nat.max m (length (fst bw)))) as [M1 M2].
      split; [eapply Nat.le_trans; [apply Nat.le_max_l|exact M1]|].
      intros bw0 [<-|Hin]; [eapply Nat.le_trans; [apply Nat.le_max_r|exact M1]|exact (M2 bw0 Hin)]. }
    pose proof (proj2 (Hmax votes 0%nat) (b, w) Hv) as Hle. cbn [fst] in Hle.
    exact (Nat.lt_le_trans _ _ _ Hib Hle). }
  apply (proj2 (H3 _ []) i) with (bw := (b, w)) (it0 := it); [apply in_seq; split; [apply Nat.le_0_l|exact Hlen]|exact Hv|exact Hi|exact Hc].
Qed.

Lemma filter_all_true {X} (f : X -> bool) l : (forall x, In x l -> f x = true) -> filter f l = l.
Proof.
  induction l as [|x l IH]; intros H; simpl; [reflexivity|]. rewrite (H x (or_introl eq_refl)). f_equal.
  apply IH. intros y Hy. apply H. right. exact Hy.
Qed.

(* the targets of a ballot with a (non-empty) shared first rank are exactly the candidates of that rank *)
Lemma shared_first_targets votes x l t w : In (IS (x :: l) :: t, w) votes ->
  next_after (IS (x :: l) :: t) (all_ranked_candidates votes) = x :: l.
Proof.
  intros Hv. cbn [next_after].
  rewrite (filter_all_true (fun c => cmem c (all_ranked_candidates votes)) (x :: l)); [reflexivity|].
  intros y Hy. apply cmem_In. apply (all_ranked_complete votes _ w (IS (x :: l)) y Hv); [left; reflexivity|exact Hy].
Qed.

(* the share of the weight w of ballot b that candidate c receives in the initial allocation *)
Definition first_share (b : ballot) (w : Q) (c : C) : Q :=
  match b with
  | [] => 0
  | IP c' :: _ => if ceqb c c' then w else 0
  | IS l :: _ => cnt l c * (w / inject_Z (Z.of_nat (length l)))
  end.
Definition shared_first_nonempty (votes : list (ballot * Q)) : bool :=
  forallb (fun bw : ballot * Q => match fst bw with IS [] :: _ => false | _ => true end) votes.

Theorem initial_allocation_shares votes f c : respects f -> shared_first_nonempty votes = true ->
  aweight f (initial_allocation votes) (Some c)
  == fold_right (fun bw acc => (if f (fst bw) then first_share (fst bw) (snd bw) c else 0) + acc) 0 votes.
Proof.
  intros Hf Hne. unfold initial_allocation.
  assert (Hcands : forall x l t w, In (IS (x :: l) :: t, w) votes ->
            next_after (IS (x :: l) :: t) (all_ranked_candidates votes) = x :: l) by exact (shared_first_targets votes).
  revert Hcands. generalize (all_ranked_candidates votes). intros cands Hcands.
  set (base := map (fun c => (Some c, @nil (ballot * Q))) cands).
  assert (Hb : aweight f base (Some c) == 0).
  { unfold aweight, base. clear. induction cands as [|x l IH]; cbn [map alloc_get]; [reflexivity|].
    destruct (okey_eqb (Some c) (Some x)); [reflexivity|exact IH]. }
  assert (Hd : forall (vs : list (ballot * Q)) a0,
     aweight f (fold_left (fun a bw => match fst bw with IP c :: _ => alloc_add a (Some c) (fst bw) (snd bw) | _ => a end) vs a0) (Some c)
     == aweight f a0 (Some c) +
        fold_right (fun bw acc => (if f (fst bw) then match fst bw with IP _ :: _ => first_share (fst bw) (snd bw) c | _ => 0 end else 0) + acc) 0 vs).
  { induction vs as [|[b w] vs IH]; intros a0; cbn [fold_left fold_right fst snd]; [ring|].
    rewrite IH. destruct b as [|[c'|l] t]; [destruct (f []); ring| |destruct (f _); ring].
    rewrite alloc_add_aweight by exact Hf. cbn [first_share okey_eqb]. destruct (f _), (ceqb c c'); ring. }
  assert (Hs : forall (vs : list (ballot * Q)) a0, incl vs votes ->
     aweight f (fold_left (fun a bw => match fst bw with IS _ :: _ => move_ballot a (next_after (fst bw) cands) (fst bw) (snd bw) | _ => a end) vs a0) (Some c)
     == aweight f a0 (Some c) +
        fold_right (fun bw acc => (if f (fst bw) then match fst bw with IS _ :: _ => first_share (fst bw) (snd bw) c | _ => 0 end else 0) + acc) 0 vs).
  { induction vs as [|[b w] vs IH]; intros a0 Hi; cbn [fold_left fold_right fst snd]; [ring|].
    rewrite IH by (intros y Hy; apply Hi; right; exact Hy).
    destruct b as [|[c'|l] t]; [destruct (f []); ring|destruct (f _); ring|].
    destruct l as [|x l].
    { exfalso. unfold shared_first_nonempty in Hne. rewrite forallb_forall in Hne.
      specialize (Hne (IS [] :: t, w) (Hi _ (or_introl eq_refl))). discriminate. }
    rewrite move_ballot_aweight by exact Hf. rewrite (Hcands x l t w (Hi _ (or_introl eq_refl))).
    cbn [first_share]. destruct (f _); ring. }
  rewrite Hs by apply incl_refl. rewrite Hd, Hb.
  clear. induction votes as [|[b w] vs IH]; cbn [fold_right fst snd]; [ring|].
  destruct b as [|[c'|l] t]; destruct (f _); cbn [first_share] in *; rewrite <- IH; ring.
Qed.

(* ---- ballot_eqb identifies ballots up to the order inside shared ranks: it is an equivalence *)
Lemma item_eqb_sym x y : item_eqb x y = item_eqb y x.
Proof.
  destruct x as [c|l], y as [d|m]; simpl; try reflexivity.
  - unfold ceqb. apply Pos.eqb_sym.
  - apply andb_comm.
Qed.
Lemma item_eqb_trans x y z : item_eqb x y = true -> item_eqb y z = true -> item_eqb x z = true.
Proof.
  destruct x as [c|l], y as [d|m], z as [e|n]; simpl; try discriminate.
  - rewrite !ceqb_eq. congruence.
  - rewrite !andb_true_iff, !forallb_forall. intros [H1 H2] [H3 H4]. split; intros u Hu; apply cmem_In.
    + apply cmem_In, H3. apply cmem_In, H1, Hu.
    + apply cmem_In, H2. apply cmem_In, H4, Hu.
Qed.
Lemma ballot_eqb_sym : forall a b, ballot_eqb a b = ballot_eqb b a.
Proof.
  induction a as [|x a IH]; destruct b as [|y b]; simpl; try reflexivity. rewrite item_eqb_sym, IH. reflexivity.
Qed.
Lemma ballot_eqb_trans : forall a b c, ballot_eqb a b = true -> ballot_eqb b c = true -> ballot_eqb a c = true.
Proof.
  induction a as [|x a IH]; destruct b as [|y b], c as [|z c]; simpl; try discriminate; [reflexivity|].
  rewrite !andb_true_iff. intros [H1 H2] [H3 H4]. split; [exact (item_eqb_trans _ _ _ H1 H3)|exact (IH _ _ H2 H4)].
Qed.

Lemma respects_all : respects (fun _ => true).
Proof. intros b b' _. reflexivity. Qed.
Lemma respects_ballot b0 : respects (ballot_eqb b0).
Proof.
  intros b b' H. destruct (ballot_eqb b0 b) eqn:E.
  - exact (ballot_eqb_trans _ _ _ E H).
  - apply not_true_iff_false. intros E'. rewrite ballot_eqb_sym in H.
    rewrite (ballot_eqb_trans _ _ _ E' H) in E. discriminate.
Qed.

(* with distinct candidates in the shared rank, each of them counts once *)
Lemma cnt_nodup l c : NoDup l -> cnt l c == if cmem c l then 1 else 0.
Proof.
  intros Hn. unfold cnt. destruct (cmem c l) eqn:E.
  - apply cmem_In in E. apply (NoDup_count_occ' Pos.eq_dec) in E; [|exact Hn]. rewrite E. reflexivity.
  - assert (Hni : ~ In c l) by (intros H; apply cmem_In in H; congruence).
    apply (count_occ_not_In Pos.eq_dec) in Hni. rewrite Hni. reflexivity.
Qed.

(* ================================================================ validation of the definition on runs of the model *)
(* the allocations a run passes through (mirror of [run]; validation only) *)
Fixpoint run_allocs (cf : cfg) (fuel : nat) (a : alloc) (n_seats : Z) (total_votes : Q)
         (seats caps : list (C * Z)) : list alloc :=
  a :: if (zsum (map snd seats) =? n_seats)%Z then [] else
  match fuel with
  | O => []
  | S f =>
      match next_count cf a n_seats total_votes seats caps with
      | CR_next a' el =>
          match el with
          | [] => if alloc_eqb a' a then [] else run_allocs cf f a' n_seats total_votes seats caps
          | _ => run_allocs cf f a' n_seats total_votes (add_seats seats el) caps
          end
      | _ => []
      end
  end.
Definition stv_allocs (cf : cfg) (votes : list (ballot * Q)) (n_seats : Z) (prev caps : list (C * Z)) : list alloc :=
  run_allocs cf (4 * length (all_ranked_candidates votes) + 8) (initial_allocation votes) n_seats
    (Qred (fold_left Qplus (map snd votes) 0%Q)) prev caps.

Definition bl (l : list positive) : ballot := map IP l.
Definition cfg_droop := Build_cfg (Some Model.Quota.droop) true false (-1).

(* truncated ballots, a ballot that exhausts, a zero-first-preference candidate (4), a zero-weight ballot,
   two candidates elected and removed in one count *)
Definition ex_votes1 : list (ballot * Q) :=
  [((bl [1; 2]%positive), 5); ((bl [2; 1]%positive), 3); ((bl [3]%positive), 2); ((bl [3; 4; 1]%positive), 4); ((bl [2; 4]%positive), 0); ((bl [1]%positive), 3)].
Definition ex_caps1 : list (C * Z) := [(1%positive, 1%Z); (2%positive, 1%Z); (3%positive, 1%Z); (4%positive, 1%Z)].
Example resting_example1 :
  map resting_okb (stv_allocs cfg_droop ex_votes1 2 [] ex_caps1) = [true; true] /\
  nth 1 (stv_allocs cfg_droop ex_votes1 2 [] ex_caps1) [] =
    [(Some 2%positive, [((bl [2; 1]%positive), 3); ((bl [2; 4]%positive), 0); ((bl [1; 2]%positive), 5 # 4)]); (Some 4%positive, []); (None, [((bl [1]%positive), 3 # 4)])].
Proof. vm_compute. split; reflexivity. Qed.

(* distributor form: candidate 1 may take up to 3 seats, is elected in the first count and KEEPS its pile (it stays a
   key = continuing); when 4 is eliminated afterwards its ballot [4;1;2] goes to the elected 1, the highest-ranked key *)
Definition ex_caps2 : list (C * Z) := [(1%positive, 3%Z); (2%positive, 1%Z); (3%positive, 2%Z); (4%positive, 1%Z)].
Definition ex_votes2 : list (ballot * Q) :=
  [((bl [1; 2]%positive), 50); ((bl [2; 1; 3]%positive), 13); ((bl [3; 1]%positive), 12); ((bl [3; 4; 1]%positive), 4); ((bl [4; 1; 2]%positive), 7); ((bl [2; 3]%positive), 3)].
Example resting_example2 :
  map resting_okb (stv_allocs cfg_droop ex_votes2 4 [] ex_caps2) = [true; true; true] /\
  nth 2 (stv_allocs cfg_droop ex_votes2 4 [] ex_caps2) [] =
    [(Some 1%positive, [((bl [1; 2]%positive), 14); ((bl [4; 1; 2]%positive), 7)]);
     (Some 2%positive, [((bl [2; 1; 3]%positive), 13); ((bl [2; 3]%positive), 3)]);
     (Some 3%positive, [((bl [3; 1]%positive), 12); ((bl [3; 4; 1]%positive), 4)])].
Proof. vm_compute. split; reflexivity. Qed.

(* a longer single-seat count with eliminations one by one, ballots skipping eliminated candidates *)
Definition ex_votes3 : list (ballot * Q) :=
  [((bl [1; 2; 3; 4; 5]%positive), 10); ((bl [2; 1]%positive), 9); ((bl [3; 2; 1]%positive), 7); ((bl [4; 3; 5; 1]%positive), 5); ((bl [5; 4; 3; 2]%positive), 3);
   ((bl [5; 4]%positive), 1); ((bl [4; 5; 3]%positive), 2)].
Definition ex_caps3 : list (C * Z) := [(1%positive, 1%Z); (2%positive, 1%Z); (3%positive, 1%Z); (4%positive, 1%Z); (5%positive, 1%Z)].
Example resting_example3 :
  map resting_okb (stv_allocs cfg_droop ex_votes3 1 [] ex_caps3) = [true; true; true; true; true].
Proof. vm_compute. reflexivity. Qed.

(* the checker is not vacuous: a ballot resting below its highest continuing candidate, and a ballot in the
   exhausted pile although a candidate on it continues, are rejected *)
Example resting_checker_rejects :
  resting_okb [(Some 1%positive, [((bl [2; 1]%positive), 1)]); (Some 2%positive, [])] = false /\
  resting_okb [(Some 1%positive, []); (None, [((bl [2; 1]%positive), 1)])] = false /\
  resting_okb [(Some 1%positive, [((bl [2; 1]%positive), 1)]); (None, [((bl [2]%positive), 1)])] = true.
Proof. vm_compute. repeat split; reflexivity. Qed.

(* a shared first rank: 1 and 2 receive 5/2 each of the ballot {1,2} > 3, candidate 3 nothing *)
Example shared_first_example :
  let votes := [([IS [1%positive; 2%positive]; IP 3%positive], 5); ((bl [3; 1]%positive), 2)] in
  shared_first_nonempty votes = true /\
  initial_allocation votes =
    [(Some 1%positive, [([IS [1%positive; 2%positive]; IP 3%positive], 5 # 2)]);
     (Some 2%positive, [([IS [1%positive; 2%positive]; IP 3%positive], 5 # 2)]);
     (Some 3%positive, [((bl [3; 1]%positive), 2)])].
Proof. vm_compute. split; reflexivity. Qed.
