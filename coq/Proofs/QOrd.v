(* Qle_bool is a total preorder: the instance at which the generic
   get_n_best theorems are used (Python int / Fraction / Decimal values). *)
From Coq Require Import QArith Bool.
Lemma Qle_bool_total a b : Qle_bool a b = true \/ Qle_bool b a = true.
Proof.
  destruct (Qlt_le_dec a b) as [H|H].
  - left. apply Qle_bool_iff. apply Qlt_le_weak. exact H.
  - right. apply Qle_bool_iff. exact H.
Qed.
Lemma Qle_bool_trans a b c : Qle_bool a b = true -> Qle_bool b c = true -> Qle_bool a c = true.
Proof.
  rewrite !Qle_bool_iff. apply Qle_trans.
Qed.
