(* The Hare (random whole-ballot) transferer, part 1: whole weights and the counting of draws
   (Model/STVHare.v: is_int, whole_nonneg, cnt_in, draws_ok, hare_sub_pile, hare_subtract, hare_split).
   Everything is stated for an arbitrary oracle. *)
From Coq Require Import ZArith QArith Qround Qreduction Setoid List Bool Arith Lia Lqa.
From VL Require Import Prelude.PyDict Model.GetNBest Model.Convert Model.STV Model.STVHare Proofs.STV_proofs.
Import ListNotations.
Open Scope Q_scope.

(* ================================================================ whole non-negative weights *)
Lemma is_int_spec w : is_int w = true <-> w == inject_Z (Qfloor w).
Proof. unfold is_int. apply Qeq_bool_iff. Qed.

Lemma whole_nonneg_spec w : whole_nonneg w = true <-> w == inject_Z (Qfloor w) /\ (0 <= Qfloor w)%Z.
Proof.
  unfold whole_nonneg. rewrite andb_true_iff, is_int_spec, Qle_bool_iff. split; intros [H1 H2]; split; try exact H1.
  - apply (Qfloor_resp_le 0 w) in H2. exact H2.
  - rewrite H1. rewrite <- (Zle_Qle 0). exact H2.
Qed.

Lemma whole_nonneg_inject z : (0 <= z)%Z -> whole_nonneg (inject_Z z) = true.
Proof. intros H. apply whole_nonneg_spec. rewrite Qfloor_Z. split; [reflexivity|exact H]. Qed.

Lemma whole_nonneg_eq w z : w == inject_Z z -> (0 <= z)%Z -> whole_nonneg w = true.
Proof.
  intros Hw Hz. apply whole_nonneg_spec. rewrite (Qfloor_comp _ _ Hw), Qfloor_Z. split; [exact Hw|exact Hz].
Qed.

Lemma whole_nonneg_comp w w' : w == w' -> whole_nonneg w = true -> whole_nonneg w' = true.
Proof.
  intros He H. apply whole_nonneg_spec in H. destruct H as [H1 H2].
  apply (whole_nonneg_eq w' (Qfloor w)); [rewrite <- He; exact H1|exact H2].
Qed.

Lemma whole_nonneg_add w w' : whole_nonneg w = true -> whole_nonneg w' = true -> whole_nonneg (Qred (w + w')) = true.
Proof.
  intros H H'. apply whole_nonneg_spec in H. apply whole_nonneg_spec in H'. destruct H as [H1 H2], H' as [H3 H4].
  apply (whole_nonneg_eq _ (Qfloor w + Qfloor w')%Z); [|lia].
  rewrite Qred_correct, inject_Z_plus, <- H1, <- H3. reflexivity.
Qed.

Lemma whole_nonneg_ge0 w : whole_nonneg w = true -> 0 <= w.
Proof. unfold whole_nonneg. rewrite andb_true_iff, Qle_bool_iff. tauto. Qed.

Definition pile_whole (p : pile) : Prop := Forall (fun bw => whole_nonneg (snd bw) = true) p.
Definition alloc_whole (a : alloc) : Prop := Forall (fun kp => pile_whole (snd kp)) a.

Lemma pile_whole_forallb p : forallb (fun bw : ballot * Q => whole_nonneg (snd bw)) p = true <-> pile_whole p.
Proof. unfold pile_whole. rewrite forallb_forall, Forall_forall. tauto. Qed.

Lemma alloc_whole_nonneg a : alloc_whole a -> alloc_nonneg a.
Proof.
  unfold alloc_whole, alloc_nonneg, pile_whole, pile_nonneg. intros H. eapply Forall_impl; [|exact H].
  intros kp Hp. eapply Forall_impl; [|exact Hp]. intros bw. apply whole_nonneg_ge0.
Qed.

(* the weight of a whole pile is the whole number the model draws from *)
Lemma pile_total_wsum p : pile_whole p -> wsum p == inject_Z (pile_total p).
Proof.
  induction 1 as [|[b w] p Hw _ IH]; simpl; [reflexivity|].
  apply whole_nonneg_spec in Hw. simpl in Hw. rewrite inject_Z_plus, <- IH, <- (proj1 Hw). reflexivity.
Qed.

Lemma pile_total_nonneg p : pile_whole p -> (0 <= pile_total p)%Z.
Proof.
  induction 1 as [|[b w] p Hw _ IH]; simpl; [lia|]. apply whole_nonneg_spec in Hw. simpl in Hw. lia.
Qed.

(* ================================================================ counting draws *)
Lemma cnt_in_nonneg ds lo hi : (0 <= cnt_in ds lo hi)%Z.
Proof. unfold cnt_in. lia. Qed.

Lemma cnt_in_split ds lo mid hi : (lo <= mid <= hi)%Z -> cnt_in ds lo hi = (cnt_in ds lo mid + cnt_in ds mid hi)%Z.
Proof.
  intros H. unfold cnt_in. induction ds as [|d ds IH]; simpl; [reflexivity|].
  unfold in_range in *.
  destruct ((lo <=? d)%Z && (d <? hi)%Z) eqn:E1, ((lo <=? d)%Z && (d <? mid)%Z) eqn:E2, ((mid <=? d)%Z && (d <? hi)%Z) eqn:E3;
    simpl length; try lia;
    exfalso; rewrite ?andb_true_iff, ?andb_false_iff, ?Z.leb_le, ?Z.ltb_lt, ?Z.leb_gt, ?Z.ltb_ge in *; lia.
Qed.

Lemma cnt_in_all ds lo hi : forallb (in_range lo hi) ds = true -> cnt_in ds lo hi = Z.of_nat (length ds).
Proof.
  unfold cnt_in. intros H. f_equal. induction ds as [|d ds IH]; simpl in *; [reflexivity|].
  apply andb_true_iff in H. destruct H as [H1 H2]. rewrite H1. simpl. f_equal. apply IH, H2.
Qed.

Lemma cnt_in_empty ds lo hi : (hi <= lo)%Z -> cnt_in ds lo hi = 0%Z.
Proof.
  intros H. unfold cnt_in. induction ds as [|d ds IH]; simpl; [reflexivity|].
  unfold in_range in *. destruct ((lo <=? d)%Z && (d <? hi)%Z) eqn:E; [|exact IH].
  exfalso. rewrite andb_true_iff, Z.leb_le, Z.ltb_lt in E. lia.
Qed.

Lemma nodupb_NoDup l : nodupb l = true -> NoDup l.
Proof.
  induction l as [|x l IH]; simpl; [constructor|]. rewrite andb_true_iff, negb_true_iff. intros [H1 H2].
  constructor; [|apply IH, H2]. intros Hin.
  assert (He : existsb (Z.eqb x) l = true) by (apply existsb_exists; exists x; split; [exact Hin|apply Z.eqb_refl]).
  congruence.
Qed.

(* pigeonhole: distinct draws inside a stretch are at most as many as the stretch is long -
   a ballot of weight w can be drawn at most w times *)
Lemma cnt_in_le ds lo hi : nodupb ds = true -> (lo <= hi)%Z -> (cnt_in ds lo hi <= hi - lo)%Z.
Proof.
  intros Hn Hle. apply nodupb_NoDup in Hn. unfold cnt_in.
  set (l := filter (in_range lo hi) ds).
  assert (Hl : NoDup l) by (apply NoDup_filter, Hn).
  assert (Hr : forall d, In d l -> (lo <= d < hi)%Z).
  { intros d Hd. apply filter_In in Hd. destruct Hd as [_ Hd]. unfold in_range in Hd.
    rewrite andb_true_iff, Z.leb_le, Z.ltb_lt in Hd. exact Hd. }
  clearbody l. clear Hn ds.
  set (l' := map (fun d => Z.to_nat (d - lo)) l).
  assert (Hl' : NoDup l').
  { unfold l'. clear l'. induction Hl as [|d l Hd Hl IH]; simpl; [constructor|].
    constructor; [|apply IH; intros d0 H0; apply Hr; right; exact H0].
    intros Hin. apply in_map_iff in Hin. destruct Hin as (d0 & He & H0).
    pose proof (Hr d (or_introl eq_refl)). pose proof (Hr d0 (or_intror H0)).
    assert (d0 = d) by lia. subst d0. exact (Hd H0). }
  assert (Hincl : incl l' (seq 0 (Z.to_nat (hi - lo)))).
  { intros n Hn. unfold l' in Hn. apply in_map_iff in Hn. destruct Hn as (d & <- & Hd). apply Hr in Hd.
    apply in_seq. lia. }
  pose proof (NoDup_incl_length Hl' Hincl) as Hlen. rewrite seq_length in Hlen. unfold l' in Hlen. rewrite map_length in Hlen. lia.
Qed.

Lemma draws_ok_spec ds n total : draws_ok ds n total = true ->
  Z.of_nat (length ds) = n /\ forallb (in_range 0 total) ds = true /\ nodupb ds = true.
Proof.
  unfold draws_ok. rewrite !andb_true_iff, Z.eqb_eq. tauto.
Qed.

(* ================================================================ Hare._subtract on one pile *)
(* the pile after the draws: its weight went down by the number of draws that fell on it, every ballot that is
   left was there before with at least this weight, and the weights stay whole and non-negative *)
Lemma hare_sub_pile_spec ds : nodupb ds = true -> forall p lo, pile_whole p ->
  wsum (hare_sub_pile p lo ds) == wsum p - inject_Z (cnt_in ds lo (lo + pile_total p)) /\
  pile_whole (hare_sub_pile p lo ds).
Proof.
  intros Hn. induction p as [|[b w] p IH]; intros lo Hp; simpl.
  - rewrite Z.add_0_r, (cnt_in_empty ds lo lo) by lia. split; [simpl; ring|constructor].
  - inversion Hp as [|? ? Hw Hp']; subst. pose proof Hw as Hw0. apply whole_nonneg_spec in Hw. simpl in Hw. destruct Hw as [Hw1 Hw2].
    destruct (IH (lo + Qfloor w)%Z Hp') as [IH1 IH2].
    pose proof (pile_total_nonneg p Hp') as Ht.
    rewrite (cnt_in_split ds lo (lo + Qfloor w) (lo + (Qfloor w + pile_total p))) by lia.
    replace (lo + (Qfloor w + pile_total p))%Z with (lo + Qfloor w + pile_total p)%Z by lia.
    pose proof (cnt_in_le ds lo (lo + Qfloor w) Hn ltac:(lia)) as Hk.
    pose proof (cnt_in_nonneg ds lo (lo + Qfloor w)) as Hk0.
    set (k := cnt_in ds lo (lo + Qfloor w)) in *. rewrite inject_Z_plus.
    destruct (k =? 0)%Z eqn:E0.
    + apply Z.eqb_eq in E0. rewrite E0. split; [simpl; rewrite IH1; ring|constructor; assumption].
    + apply Z.eqb_neq in E0. destruct (Qfloor w <=? k)%Z eqn:E1.
      * apply Z.leb_le in E1. assert (Hkw : k = Qfloor w) by lia. split; [|exact IH2].
        rewrite IH1. simpl. rewrite Hkw. lra.
      * apply Z.leb_gt in E1. split.
        -- simpl. rewrite IH1. unfold Zminus. rewrite inject_Z_plus, inject_Z_opp. lra.
        -- constructor; [|exact IH2]. simpl. apply whole_nonneg_inject. lia.
Qed.

(* which ballots: nothing new enters the pile, and no ballot gains weight *)
Lemma hare_sub_pile_ballots ds p : forall lo b w, In (b, w) (hare_sub_pile p lo ds) -> exists w0, In (b, w0) p.
Proof.
  induction p as [|[b0 w0] p IH]; intros lo b w; simpl; [intros []|].
  destruct (_ =? 0)%Z.
  - intros [[= <- <-]|H]; [exists w0; left; reflexivity|]. destruct (IH _ _ _ H) as (w1 & H1). exists w1. right. exact H1.
  - destruct (_ <=? _)%Z.
    + intros H. destruct (IH _ _ _ H) as (w1 & H1). exists w1. right. exact H1.
    + intros [[= <- <-]|H]; [exists w0; left; reflexivity|]. destruct (IH _ _ _ H) as (w1 & H1). exists w1. right. exact H1.
Qed.

Theorem hare_subtract_spec p n o p' o' : hare_subtract p n o = HOk p' o' ->
  pile_whole p /\ pile_whole p' /\ wsum p' == wsum p - n /\ 0 <= n /\ n <= wsum p /\
  (exists ds, o = ds :: o' /\ draws_ok ds (Qfloor n) (pile_total p) = true /\ p' = hare_sub_pile p 0 ds) /\
  (forall b w, In (b, w) p' -> exists w0, In (b, w0) p).
Proof.
  unfold hare_subtract. destruct p as [|bw0 p0] eqn:Ep; [discriminate|]. rewrite <- Ep. clear Ep bw0 p0.
  destruct (forallb _ p) eqn:Ew; cbn [negb]; [|discriminate]. apply pile_whole_forallb in Ew.
  destruct (Qle_bool 0 n && Qle_bool n (inject_Z (pile_total p))) eqn:Er; cbn [negb]; [|discriminate].
  apply andb_true_iff in Er. destruct Er as [Er1 Er2]. apply Qle_bool_iff in Er1. apply Qle_bool_iff in Er2.
  destruct (is_int n) eqn:Ei; cbn [negb]; [|discriminate]. apply is_int_spec in Ei.
  destruct o as [|ds o0]; [discriminate|]. destruct (draws_ok ds (Qfloor n) (pile_total p)) eqn:Ed; [|discriminate].
  intros [= <- <-]. destruct (draws_ok_spec _ _ _ Ed) as (D1 & D2 & D3).
  destruct (hare_sub_pile_spec ds D3 p 0%Z Ew) as [S1 S2].
  split; [exact Ew|]. split; [exact S2|]. split.
  - rewrite S1. rewrite Z.add_0_l, (cnt_in_all _ _ _ D2), D1, <- Ei. reflexivity.
  - split; [exact Er1|]. split; [rewrite (pile_total_wsum p Ew); exact Er2|]. split.
    + exists ds. auto.
    + intros b w. apply hare_sub_pile_ballots.
Qed.

(* ================================================================ Hare._distribute_equal_ranking *)
Definition ssum (l : list (C * Q)) : Q := fold_right (fun tn acc => snd tn + acc) 0 l.

Lemma split_counts_sum ds r : (0 <= r)%Z -> forall T j,
  fold_right (fun tc acc => (snd tc + acc)%Z) 0%Z (split_counts T j r ds) = cnt_in ds (j * r) ((j + Z.of_nat (length T)) * r).
Proof.
  intros Hr. induction T as [|t T IH]; intros j.
  - simpl. rewrite Z.add_0_r, cnt_in_empty by lia. reflexivity.
  - cbn [split_counts fold_right snd length]. rewrite IH.
    rewrite (cnt_in_split ds (j * r) ((j + 1) * r) ((j + Z.of_nat (S (length T))) * r)) by nia.
    replace (j + 1 + Z.of_nat (length T))%Z with (j + Z.of_nat (S (length T)))%Z by lia. reflexivity.
Qed.

Lemma split_counts_fst ds r T : forall j, map fst (split_counts T j r ds) = T.
Proof. induction T as [|t T IH]; intros j; simpl; [reflexivity|]. rewrite IH. reflexivity. Qed.

Lemma split_counts_nonneg ds r T : forall j t n, In (t, n) (split_counts T j r ds) -> (0 <= n)%Z.
Proof.
  induction T as [|t0 T IH]; intros j t n; simpl; [intros []|].
  intros [[= <- <-]|H]; [apply cnt_in_nonneg|exact (IH _ _ _ H)].
Qed.

Lemma ssum_const (T : list C) (z : Z) : ssum (map (fun t => (t, inject_Z z)) T) == inject_Z (Z.of_nat (length T) * z).
Proof.
  induction T as [|t T IH]; [simpl; reflexivity|]. cbn [map ssum fold_right snd length].
  fold (ssum (map (fun t0 : C => (t0, inject_Z z)) T)). rewrite IH.
  rewrite Nat2Z.inj_succ, <- Z.add_1_r, Z.mul_add_distr_r, inject_Z_plus, Z.mul_1_l. ring.
Qed.

Lemma ssum_counts (whole : Z) (sc : list (C * Z)) : (forall t n, In (t, n) sc -> (0 <= n)%Z) ->
  ssum (flat_map (fun tc : C * Z => if negb (whole =? 0)%Z || (0 <? snd tc)%Z then [(fst tc, inject_Z (whole + snd tc))] else []) sc)
  == inject_Z (Z.of_nat (length sc) * whole + fold_right (fun tc acc => (snd tc + acc)%Z) 0%Z sc).
Proof.
  induction sc as [|[t n] sc IH]; intros Hnn; [simpl; reflexivity|].
  cbn [flat_map length fst snd fold_right]. unfold ssum in *. rewrite fold_right_app.
  assert (IH' := IH (fun t0 n0 H0 => Hnn t0 n0 (or_intror H0))). clear IH.
  rewrite Nat2Z.inj_succ, <- Z.add_1_r, Z.mul_add_distr_r, Z.mul_1_l.
  set (rest := fold_right (fun (tn : C * Q) (acc : Q) => snd tn + acc) 0
                 (flat_map (fun tc : C * Z => if negb (whole =? 0)%Z || (0 <? snd tc)%Z then [(fst tc, inject_Z (whole + snd tc))] else []) sc)) in *.
  destruct (negb (whole =? 0)%Z || (0 <? n)%Z) eqn:E.
  - cbn [fold_right snd]. rewrite IH'. rewrite !inject_Z_plus. ring.
  - apply orb_false_iff in E. destruct E as [E1 E2]. apply negb_false_iff, Z.eqb_eq in E1. apply Z.ltb_ge in E2.
    pose proof (Hnn t n (or_introl eq_refl)). assert (n = 0)%Z by lia. subst n. cbn [fold_right]. rewrite IH', E1.
    rewrite !inject_Z_plus. ring.
Qed.

(* the shares of one ballot leaving for a shared rank: they go to targets only, add up to the weight of the
   ballot exactly, and are whole and non-negative when the weight is *)
Theorem hare_split_spec T w o shares o' : hare_split T w o = HOk shares o' ->
  ssum shares == w /\ (forall t s, In (t, s) shares -> In t T) /\
  (whole_nonneg w = true -> forall t s, In (t, s) shares -> whole_nonneg s = true).
Proof.
  unfold hare_split. destruct (is_int w) eqn:Ei; cbn [negb]; [|discriminate]. apply is_int_spec in Ei.
  set (k := Z.of_nat (length T)). set (wz := Qfloor w) in *. set (whole := (wz / k)%Z).
  set (r := if (whole =? 0)%Z then wz else (wz - k * whole)%Z).
  assert (Hwhole : whole_nonneg w = true -> (0 <= whole)%Z).
  { intros Hw. apply whole_nonneg_spec in Hw. destruct Hw as [_ Hw]. fold wz in Hw. unfold whole.
    destruct (Z.eq_dec k 0) as [->|Hk]; [rewrite Zdiv_0_r; lia|]. apply Z.div_pos; lia. }
  destruct (negb (whole =? 0)%Z && (r =? 0)%Z) eqn:Eb.
  - intros [= <- <-]. apply andb_true_iff in Eb. destruct Eb as [Eb1 Eb2]. apply negb_true_iff, Z.eqb_neq in Eb1.
    apply Z.eqb_eq in Eb2. unfold r in Eb2. destruct (whole =? 0)%Z eqn:E0; [apply Z.eqb_eq in E0; contradiction|].
    split; [|split].
    + rewrite Ei. fold wz. replace wz with (k * whole)%Z by lia. apply ssum_const.
    + intros t s Hin. apply in_map_iff in Hin. destruct Hin as (t0 & [= <- _] & Ht). exact Ht.
    + intros Hw t s Hin. apply in_map_iff in Hin. destruct Hin as (t0 & [= _ <-] & Ht). apply whole_nonneg_inject, Hwhole, Hw.
  - destruct o as [|ds o0]; [discriminate|]. destruct (draws_ok ds r (k * r)) eqn:Ed; [|discriminate].
    intros [= <- <-]. destruct (draws_ok_spec _ _ _ Ed) as (D1 & D2 & D3).
    assert (Hr : (0 <= r)%Z) by lia.
    pose proof (split_counts_sum ds r Hr T 0%Z) as Hsum. rewrite Z.mul_0_l, Z.add_0_l in Hsum. fold k in Hsum.
    rewrite (cnt_in_all _ _ _ D2), D1 in Hsum.
    assert (Hkw : (k * whole + r = wz)%Z).
    { unfold r. destruct (whole =? 0)%Z eqn:E0; [apply Z.eqb_eq in E0; rewrite E0; lia|lia]. }
    split; [|split].
    + rewrite Ei. fold wz.
      rewrite (ssum_counts whole _ (split_counts_nonneg ds r T 0%Z)).
      replace (length (split_counts T 0 r ds)) with (length T) by (rewrite <- (split_counts_fst ds r T 0%Z) at 1; apply map_length).
      rewrite Hsum. fold k. rewrite Hkw. reflexivity.
    + intros t s Hin. apply in_flat_map in Hin. destruct Hin as ([t0 n0] & H0 & Hin). cbn [fst snd] in Hin.
      destruct (_ || _); [|destruct Hin]. destruct Hin as [[= <- _]|[]].
      rewrite <- (split_counts_fst ds r T 0%Z). apply in_map_iff. exists (t0, n0). auto.
    + intros Hw t s Hin. apply in_flat_map in Hin. destruct Hin as ([t0 n0] & H0 & Hin). cbn [fst snd] in Hin.
      destruct (_ || _); [|destruct Hin]. destruct Hin as [[= _ <-]|[]]. apply whole_nonneg_inject.
      pose proof (split_counts_nonneg ds r T 0%Z t0 n0 H0). pose proof (Hwhole Hw). lia.
Qed.
