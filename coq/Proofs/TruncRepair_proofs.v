(* Wave 6, fixes/C12-truncation-middle: with the cut-off capped at (scores - 1) // 2 the truncation never leaves a
   candidate that holds a score without scores; the capped cut-off is the configured one whenever the pinned code left
   a score (so the repair only changes the cases that crashed, or - for the sum - counted nothing);
   consequence: the repaired score voting answers on every profile with positive ballot counts. *)
From Coq Require Import ZArith QArith Qround Qabs List Bool Arith Lia Lqa Sorting.Sorted Permutation.
From VL Require Import Prelude.PyDict Model.GetNBest Model.Convert Model.Cardinal Proofs.QOrd Proofs.Dict_proofs Proofs.MJ_proofs
     Proofs.MJ_removal_proofs Proofs.ScoreDict_proofs Proofs.Truncation_proofs Proofs.Scale2Med_proofs Proofs.Repair_proofs.
Import ListNotations.
Open Scope Z_scope.

(* ---------------------------------------------------------------- the two notions of distinct keys *)
Lemma distinct_keys_nd d : cs_distinct d <-> keys_nd (map fst d).
Proof.
  induction d as [|sn d IH]; [split; intros; exact I|]. cbn [cs_distinct map keys_nd]. split; intros (H0 & H1).
  - split; [|apply IH, H1]. intros s' Hs' He. apply in_map_iff in Hs'. destruct Hs' as (sn' & <- & Hin). apply (H0 sn' Hin). symmetry. exact He.
  - split; [|apply IH, H1]. intros sn' Hin He. apply (H0 (fst sn')); [apply in_map, Hin|symmetry; exact He].
Qed.

Lemma okd_counted fn d : cs_okd d -> aggregate_one_w fn d = aggregate_one fn d.
Proof. intros (Hn & Hd). apply aggregate_one_w_eq; [exact Hn|apply distinct_keys_nd, Hd]. Qed.

(* ---------------------------------------------------------------- a sweep and the number of scores *)
Lemma sorted_any {X} (l : list X) : StronglySorted (fun _ _ => True) l.
Proof. induction l as [|x l IH]; constructor; [exact IH|]. apply Forall_forall. intros; exact I. Qed.

Lemma sweep_total keys d cutoff d' : cs_okd d -> (forall sn, In sn d -> exists k, In k keys /\ (fst sn == k)%Q) -> 0 <= cutoff ->
  subtract_lowest d keys cutoff 0 = Some d' -> cs_total d' = Z.max 0 (cs_total d - cutoff).
Proof.
  intros Hd Hcov Hc E.
  assert (Hs : StronglySorted (before (fun _ _ : Q => true)) keys).
  { apply (sorted_mono (fun _ _ => True)); [|apply sorted_any]. intros a b _ t Ht. exact Ht. }
  destruct (sweep (fun _ _ => true) (fun _ _ _ _ => eq_refl) keys d cutoff 0 d' Hs Hd Hcov Hc E) as (Hd' & _ & Hcnt).
  specialize (Hcnt 0%Q). rewrite (cs_total_wcnt d' (proj1 Hd')), (cs_total_wcnt d (proj1 Hd)). lia.
Qed.

(* truncation with ANY cut-off 0 <= c: the number of scores left *)
Lemma truncation_total d c : cs_okd d -> 0 <= c ->
  exists d2 d3, subtract_lowest d (sort_q (map fst d)) c 0 = Some d2 /\ subtract_lowest d2 (rev (sort_q (map fst d))) c 0 = Some d3 /\
    cs_total d3 = Z.max 0 (Z.max 0 (cs_total d - c) - c).
Proof.
  intros Hd Hc. destruct (truncation_spec d c Hd Hc) as (d2 & d3 & E2 & E3 & _). cbv zeta in E2, E3.
  exists d2, d3. split; [exact E2|]. split; [exact E3|].
  assert (Hcov : forall sn, In sn d -> exists k, In k (sort_q (map fst d)) /\ (fst sn == k)%Q).
  { intros sn Hsn. exists (fst sn). split; [apply sort_q_in_rev, in_map, Hsn|reflexivity]. }
  pose proof (sweep_total _ d c d2 Hd Hcov Hc E2) as H2.
  assert (Hd2 : cs_okd d2) by (apply (subtract_lowest_okd _ _ _ _ _ Hd E2)).
  assert (Hcov2 : forall sn, In sn d2 -> exists k, In k (rev (sort_q (map fst d))) /\ (fst sn == k)%Q).
  { assert (Hs : StronglySorted (before lev) (sort_q (map fst d))).
    { apply (sorted_mono Qle); [|apply sort_q_sorted]. intros a b Hab t Ht. unfold lev in *. apply Qle_bool_iff in Ht. apply Qle_bool_iff.
      apply (Qle_trans _ b); assumption. }
    destruct (sweep lev lev_compat _ d c 0 d2 Hs Hd Hcov Hc E2) as (_ & Hk2 & _).
    intros sn Hsn. exists (fst sn). split; [|reflexivity]. apply in_rev. rewrite rev_involutive. apply sort_q_in_rev, Hk2, Hsn. }
  rewrite (sweep_total _ d2 c d3 Hd2 Hcov2 Hc E3), H2. reflexivity.
Qed.

(* the capped cut-off *)
Definition mid_cutoff (c T : Z) : Z := Z.max 0 (Z.min c ((T - 1) / 2)).

Lemma mid_cutoff_bounds c T : 0 <= mid_cutoff c T /\ (1 <= T -> 2 * mid_cutoff c T <= T - 1) /\ (0 <= c -> 2 * c < T -> mid_cutoff c T = c).
Proof.
  unfold mid_cutoff. pose proof (Z.div_mod (T - 1) 2 ltac:(lia)) as D. pose proof (Z.mod_pos_bound (T - 1) 2 ltac:(lia)) as B.
  set (q := (T - 1) / 2) in *. set (r := (T - 1) mod 2) in *.
  split; [lia|]. split; intros; lia.
Qed.

(* fixes/C12-truncation-middle on one dictionary: at least one score stays, exactly 2 * (capped cut-off) go *)
Theorem truncation_keeps_middle d c : cs_okd d -> 1 <= cs_total d ->
  let c' := mid_cutoff c (cs_total d) in
  exists d2 d3, subtract_lowest d (sort_q (map fst d)) c' 0 = Some d2 /\ subtract_lowest d2 (rev (sort_q (map fst d))) c' 0 = Some d3 /\
    cs_okd d3 /\ cs_total d3 = cs_total d - 2 * c' /\ 1 <= cs_total d3 /\
    (forall t, Z.of_nat (wcnt (lev t) d2) = Z.max 0 (Z.of_nat (wcnt (lev t) d) - c')) /\
    (forall t, Z.of_nat (wcnt (gev t) d3) = Z.max 0 (Z.of_nat (wcnt (gev t) d2) - c')).
Proof.
  intros Hd HT c'. destruct (mid_cutoff_bounds c (cs_total d)) as (H0 & H1 & _). fold c' in H0, H1. specialize (H1 HT).
  destruct (truncation_spec d c' Hd H0) as (d2 & d3 & E2 & E3 & Hd3 & Hc2 & Hc3). cbv zeta in E2, E3.
  destruct (truncation_total d c' Hd H0) as (d2' & d3' & E2' & E3' & Htot).
  rewrite E2 in E2'. injection E2' as <-. rewrite E3 in E3'. injection E3' as <-.
  exists d2, d3. split; [exact E2|]. split; [exact E3|]. split; [exact Hd3|]. split; [lia|]. split; [lia|]. split; assumption.
Qed.

(* ---------------------------------------------------------------- correct_scores with the repair *)
Lemma correct_scores_x_unfold rp cf d n_votes :
  correct_scores_x rp cf d n_votes =
  if cs_total d <? sc_min_count cf then inl [(sc_bottom cf, sc_min_count cf)] else
  match unscored_fill cf d n_votes with
  | inr e => inr e
  | inl d1 =>
      if Qle_bool (sc_trunc cf) 0 then inl d1 else
      let c := if rp_trunc rp then mid_cutoff (trunc_cutoff cf d n_votes) (cs_total d1) else trunc_cutoff cf d n_votes in
      match subtract_lowest d1 (sort_q (map fst d1)) c 0 with
      | None => inr SE_key
      | Some d2 => match subtract_lowest d2 (rev (sort_q (map fst d1))) c 0 with
                   | None => inr SE_key
                   | Some d3 => inl d3
                   end
      end
  end.
Proof.
  unfold correct_scores_x, unscored_fill. destruct (rp_counted rp); [rewrite list_min_counted|]; reflexivity.
Qed.

Lemma list_min_some (l : list Q) : l <> [] -> exists v, list_min l = Some v.
Proof. destruct l as [|x l]; [congruence|]. intros _. eexists. reflexivity. Qed.

(* the filled dictionary: well formed, and it holds a score as soon as the candidate does *)
Lemma unscored_fill_total cf d n_votes : cs_okd d -> (sc_unscored cf = UNone \/ cs_total d <= n_votes) -> 1 <= cs_total d ->
  exists d1, unscored_fill cf d n_votes = inl d1 /\ cs_okd d1 /\ cs_total d <= cs_total d1.
Proof.
  intros Hd Hb HT. unfold unscored_fill.
  assert (Hset : forall v, cs_total d <= n_votes ->
     cs_okd (cs_set d v (n_votes - cs_total d + match cs_get d v with Some n => n | None => 0 end)) /\
     cs_total d <= cs_total (cs_set d v (n_votes - cs_total d + match cs_get d v with Some n => n | None => 0 end))).
  { intros v Hle. split.
    - apply cs_set_okd; [exact Hd|]. destruct (cs_get d v) as [k|] eqn:E; [pose proof (cs_get_nonneg _ _ _ (proj1 Hd) E); lia|lia].
    - rewrite cs_total_set. lia. }
  destruct (sc_unscored cf) as [|v|] eqn:Eu.
  - exists d. split; [reflexivity|]. split; [exact Hd|lia].
  - destruct Hb as [Hb|Hb]; [discriminate|]. eexists. split; [reflexivity|]. apply Hset, Hb.
  - destruct Hb as [Hb|Hb]; [discriminate|].
    assert (Hne : expand d <> []).
    { intros E. pose proof (expand_length d (proj1 Hd)) as Hl. rewrite E in Hl. cbn [length] in Hl. lia. }
    destruct (list_min_some _ Hne) as (v & Ev). rewrite Ev. eexists. split; [reflexivity|]. apply Hset, Hb.
Qed.

(* fixes/C12-truncation-middle, one candidate: whatever the configuration, a candidate that holds a score keeps one *)
Theorem correct_scores_x_keeps rp cf d n_votes : rp_trunc rp = true ->
  cs_okd d -> (sc_unscored cf = UNone \/ cs_total d <= n_votes) -> 1 <= cs_total d ->
  exists d3, correct_scores_x rp cf d n_votes = inl d3 /\ cs_okd d3 /\ 1 <= cs_total d3.
Proof.
  intros Hrp Hd Hb HT. rewrite correct_scores_x_unfold, Hrp.
  destruct (cs_total d <? sc_min_count cf) eqn:Em.
  { apply Z.ltb_lt in Em. eexists. split; [reflexivity|]. split.
    - split; [constructor; [cbn; lia|constructor]|split; [intros ? []|exact I]].
    - rewrite cs_total_cons. cbn [snd]. unfold cs_total. cbn. lia. }
  destruct (unscored_fill_total cf d n_votes Hd Hb HT) as (d1 & E1 & Hd1 & HT1). rewrite E1.
  destruct (Qle_bool (sc_trunc cf) 0); [exists d1; split; [reflexivity|split; [exact Hd1|lia]]|]. cbv zeta.
  destruct (truncation_keeps_middle d1 (trunc_cutoff cf d n_votes) Hd1 ltac:(lia)) as (d2 & d3 & E2 & E3 & Hd3 & _ & H3 & _).
  cbv zeta in E2, E3. rewrite E2, E3. exists d3. split; [reflexivity|]. split; assumption.
Qed.

(* ... and the repair does what the configuration says whenever that leaves a score: the capped cut-off is the configured one
   unless twice the configured cut-off reaches the number of scores (the case in which the pinned code left nothing) *)
Theorem correct_scores_x_conservative rp cf d n_votes d1 : cs_okd d -> (sc_unscored cf = UNone \/ cs_total d <= n_votes) -> 0 <= n_votes ->
  unscored_fill cf d n_votes = inl d1 -> 2 * trunc_cutoff cf d n_votes < cs_total d1 ->
  correct_scores_x rp cf d n_votes = correct_scores cf d n_votes.
Proof.
  intros Hd Hb Hnv E1 Hlt. rewrite correct_scores_x_unfold, correct_scores_unfold, E1.
  destruct (cs_total d <? sc_min_count cf); [reflexivity|]. destruct (Qle_bool (sc_trunc cf) 0) eqn:Et; [reflexivity|]. cbv zeta.
  destruct (rp_trunc rp); [|reflexivity].
  assert (Hc : 0 <= trunc_cutoff cf d n_votes).
  { assert (Hpos : (0 < sc_trunc cf)%Q) by (apply Qnot_le_lt; intros H; apply Qle_bool_iff in H; congruence).
    assert (Hfl : forall x, (0 <= x)%Q -> 0 <= Qfloor x) by (intros x Hx; exact (Qfloor_resp_le 0 x Hx)).
    unfold trunc_cutoff. destruct (Qle_bool 1 (sc_trunc cf)); apply Hfl; [apply Qlt_le_weak, Hpos|].
    apply Qmult_le_0_compat; [|apply Qlt_le_weak, Hpos].
    pose proof (cs_total_nonneg d (proj1 Hd)) as Htot.
    destruct (n_votes =? 0); change 0%Q with (inject_Z 0); rewrite <- Zle_Qle; assumption. }
  destruct (mid_cutoff_bounds (trunc_cutoff cf d n_votes) (cs_total d1)) as (_ & _ & H). rewrite (H Hc Hlt). reflexivity.
Qed.

(* ---------------------------------------------------------------- the whole aggregation answers *)
Definition profile_pos (votes : sprofile) : Prop :=
  forall bn, In bn votes -> 0 < snd bn /\ NoDup (map fst (fst bn)).

Lemma profile_pos_ok votes : profile_pos votes -> profile_ok votes.
Proof. intros H bn Hbn. destruct (H bn Hbn). split; [lia|assumption]. Qed.

Definition held (cd : C * cscores) : Prop := cs_okd (snd cd) /\ 1 <= cs_total (snd cd).

Lemma raw_step_held w d cs : 0 < w -> (forall cd, In cd d -> held cd) -> forall cd, In cd (raw_step w d cs) -> held cd.
Proof.
  intros Hw H cd Hin. split; [apply (raw_step_okd w d cs ltac:(lia) (fun cd0 H0 => proj1 (H cd0 H0)) cd Hin)|].
  unfold raw_step in Hin. cbv zeta in Hin. apply dset_in in Hin. destruct Hin as [->|Hin]; [|apply H, Hin].
  cbn [snd]. rewrite cs_total_set.
  pose proof (old_okd d (fst cs) (fun cd0 H0 => proj1 (H cd0 H0))) as Hold. pose proof (cs_total_nonneg _ (proj1 Hold)). lia.
Qed.

Lemma raw_scores_held votes : (forall bn, In bn votes -> 0 < snd bn) -> forall cd, In cd (raw_scores votes) -> held cd.
Proof.
  intros Hv. rewrite raw_scores_unfold.
  assert (Hin : forall (b : sballot) w d, 0 < w -> (forall cd, In cd d -> held cd) ->
            forall cd, In cd (fold_left (raw_step w) b d) -> held cd).
  { induction b as [|cs b IH]; intros w d Hw Hd; [exact Hd|]. cbn [fold_left]. apply IH; [exact Hw|]. apply raw_step_held; assumption. }
  assert (H : forall (vs : sprofile) d, (forall bn, In bn vs -> 0 < snd bn) -> (forall cd, In cd d -> held cd) ->
            forall cd, In cd (fold_left (fun d (bn : sballot * Z) => fold_left (raw_step (snd bn)) (fst bn) d) vs d) -> held cd).
  { induction vs as [|bn vs IH]; intros d Hvs Hd; [exact Hd|]. cbn [fold_left]. apply IH.
    - intros bn' Hbn'. apply Hvs. right. exact Hbn'.
    - apply Hin; [apply Hvs; left; reflexivity|exact Hd]. }
  apply H; [exact Hv|intros cd []].
Qed.

Lemma sequence_all {X Y} (l : list (X * (Y + serr))) : (forall x, In x l -> exists y, snd x = inl y) -> exists r, sequence l = inl r.
Proof.
  induction l as [|[x v] l IH]; intros H; [eexists; reflexivity|]. destruct (H (x, v) (or_introl eq_refl)) as (y & Hy). cbn [snd] in Hy. subst v.
  destruct (IH (fun x0 H0 => H x0 (or_intror H0))) as (r & Hr). cbn [sequence]. rewrite Hr. eexists. reflexivity.
Qed.

(* a dictionary that holds a score has every aggregate *)
Lemma aggregate_one_total fn d : cs_okd d -> 1 <= cs_total d -> exists v, aggregate_one fn d = inl v.
Proof.
  intros Hd HT. destruct fn.
  - unfold aggregate_one. cbv zeta. destruct (expand d) as [|x l] eqn:E; [|eexists; reflexivity].
    pose proof (expand_length d (proj1 Hd)) as Hl. rewrite E in Hl. cbn [length] in Hl. lia.
  - eexists. reflexivity.
  - destruct (median_spec d (proj1 Hd) ltac:(lia)) as (g & Hg & _). exists g. exact Hg.
Qed.

Lemma aggregate_one_x_total rp fn d : cs_okd d -> 1 <= cs_total d -> exists v, aggregate_one_x rp fn d = inl v.
Proof.
  intros Hd HT. unfold aggregate_one_x. destruct (rp_counted rp); [rewrite (okd_counted fn d Hd)|]; apply aggregate_one_total; assumption.
Qed.

Lemma corrected_scores_x_held rp cf votes : rp_trunc rp = true -> profile_pos votes ->
  exists sc, corrected_scores_x rp cf votes = inl sc /\ forall cd, In cd sc -> held cd.
Proof.
  intros Hrp Hv. unfold corrected_scores_x. cbv zeta. set (nv := fold_left Z.add (map snd votes) 0).
  assert (Hone : forall cd, In cd (raw_scores votes) -> exists d3, correct_scores_x rp cf (snd cd) nv = inl d3 /\ cs_okd d3 /\ 1 <= cs_total d3).
  { intros cd Hcd. destruct (raw_scores_held votes (fun bn H => proj1 (Hv bn H)) cd Hcd) as (Hd & HT).
    apply correct_scores_x_keeps; [exact Hrp|exact Hd| |exact HT]. right.
    apply (raw_scores_bound votes (profile_pos_ok votes Hv) cd Hcd). }
  destruct (sequence_all (map (fun cd : C * cscores => (fst cd, correct_scores_x rp cf (snd cd) nv)) (raw_scores votes))) as (sc & Hsc).
  { intros x Hx. apply in_map_iff in Hx. destruct Hx as (cd & <- & Hcd). destruct (Hone cd Hcd) as (d3 & E & _). exists d3. exact E. }
  exists sc. split; [exact Hsc|]. intros [c d'] Hin. apply (sequence_in _ _ _ _ Hsc) in Hin. apply in_map_iff in Hin.
  destruct Hin as (cd & Heq & Hcd). injection Heq as _ Heq. destruct (Hone cd Hcd) as (d3 & E & Hd3 & HT3).
  rewrite E in Heq. injection Heq as <-. split; assumption.
Qed.

(* fixes/C12-truncation-middle (with or without the counted aggregates): score voting answers on every profile with
   positive ballot counts in which no ballot scores a candidate twice - every configuration, every number of seats *)
Theorem score_to_simple_x_answers rp cf votes : rp_trunc rp = true -> profile_pos votes ->
  exists agg, score_to_simple_x rp cf votes = inl agg.
Proof.
  intros Hrp Hv. unfold score_to_simple_x. destruct (corrected_scores_x_held rp cf votes Hrp Hv) as (sc & -> & Hheld).
  unfold aggregate_x. apply sequence_all. intros x Hx. apply in_map_iff in Hx. destruct Hx as (cd & <- & Hcd). cbn [snd].
  destruct (Hheld cd Hcd). apply aggregate_one_x_total; assumption.
Qed.

Theorem score_voting_x_answers rp cf votes n : rp_trunc rp = true -> profile_pos votes ->
  exists r, score_voting_x rp cf votes n = inl r.
Proof.
  intros Hrp Hv. unfold score_voting_x. destruct (score_to_simple_x_answers rp cf votes Hrp Hv) as (agg & ->). eexists. reflexivity.
Qed.
