(* Wave 6, fixes/C12-mj-default-exhausted: the default tie-break of majority judgment with the rule "a level candidate
   that has run out of grades ranks below those that still have some" (Model/Cardinal.v mj_default_x with rp_mj).
   Reference order: the removal sequences of MJ_seats_proofs compared lexicographically, where a sequence that ends
   (the candidate has no grade left) is below one that goes on - [mj_lex_below].
   Proved for every number of seats: an answer holds no tie object and every elected candidate is strictly above every
   candidate left out; the loop never raises StatisticsError (or any error but the refusal of a lasting tie). *)
From Coq Require Import ZArith QArith Qround Qabs List Bool Arith Lia Lqa Permutation.
From VL Require Import Prelude.PyDict Model.GetNBest Model.Convert Model.Cardinal
     Proofs.GetNBest_proofs Proofs.QOrd Proofs.Dict_proofs Proofs.MJ_proofs Proofs.MJ_removal_proofs Proofs.MJ_seats_proofs
     Proofs.ScoreDict_proofs Proofs.Truncation_proofs Proofs.Scale2Dup_proofs Proofs.Scale2Med_proofs Proofs.Repair_proofs Proofs.TruncRepair_proofs.
Import ListNotations.
Open Scope Q_scope.

(* ================================================================ the reference order with sequences that end *)
Definition mj_lex_below (d' d : cscores) : Prop :=
  exists k m, mj_seq k d = Some m /\
    match mj_seq k d' with Some m' => m' < m | None => True end /\
    forall j, (j < k)%nat -> exists x x', mj_seq j d = Some x /\ mj_seq j d' = Some x' /\ x' == x.

Lemma mj_lex_lt_below d' d : mj_lex_lt d' d -> mj_lex_below d' d.
Proof. intros (k & m & m' & H1 & H2 & H3 & H4). exists k, m. rewrite H2. auto. Qed.

Lemma mj_below_0 d d' v v' :
  aggregate_one FMedianLow d = inl v -> aggregate_one FMedianLow d' = inl v' -> v' < v -> mj_lex_below d' d.
Proof. intros H H' Hlt. apply mj_lex_lt_below. exact (mj_lex_lt_0 d d' v v' H H' Hlt). Qed.

(* a candidate without grades is below every candidate that holds one *)
Lemma mj_below_empty d d' v : aggregate_one FMedianLow d = inl v -> cs_nonneg d' -> cs_total d' = 0%Z -> mj_lex_below d' d.
Proof.
  intros H Hn HT. exists 0%nat, v. unfold mj_seq. cbn [mj_rmk]. rewrite H.
  destruct (nonneg_total_zero d' Hn HT) as (_ & He). unfold aggregate_one at 1. rewrite He.
  split; [reflexivity|]. split; [exact I|]. intros j Hj. lia.
Qed.

Lemma mj_below_lift ch d d' dn dn' m m' :
  mj_rmk ch d = inl dn -> mj_rmk ch d' = inl dn' ->
  (forall j, (j < ch)%nat -> mj_seq j d = Some m) -> (forall j, (j < ch)%nat -> mj_seq j d' = Some m') -> m' == m ->
  mj_lex_below dn' dn -> mj_lex_below d' d.
Proof.
  intros Hd Hd' Hs Hs' Hmm (k & x & H1 & H2 & Hpre).
  exists (ch + k)%nat, x. rewrite (mj_seq_add ch k d dn Hd), (mj_seq_add ch k d' dn' Hd').
  split; [exact H1|]. split; [exact H2|].
  intros j Hj. destruct (Nat.lt_ge_cases j ch) as [Hlo|Hhi].
  - exists m, m'. split; [apply Hs, Hlo|]. split; [apply Hs', Hlo|exact Hmm].
  - replace j with (ch + (j - ch))%nat by lia.
    rewrite (mj_seq_add ch (j - ch) d dn Hd), (mj_seq_add ch (j - ch) d' dn' Hd'). apply Hpre. lia.
Qed.

(* ================================================================ the repaired loop *)
Lemma aggregate_x_ok rp fn sub : Forall cs_ok sub -> aggregate_x rp fn sub = aggregate fn sub.
Proof.
  intros H. unfold aggregate_x, aggregate. f_equal. apply map_ext_in. intros cd Hin. f_equal.
  rewrite Forall_forall in H. unfold aggregate_one_x. destruct (rp_counted rp); [|reflexivity]. apply okd_counted. exact (H cd Hin).
Qed.

Lemma mj_default_x_unfold rp f sub n : rp_mj rp = true ->
  mj_default_x rp (S f) sub n =
  if (fold_left Z.max (map (fun cd : C * cscores => cs_total (snd cd)) sub) 0%Z <=? 0)%Z then inr SE_vse else
  if Nat.ltb (length (mj_live sub)) n then inr SE_vse else
  match aggregate_x rp FMedianLow (mj_live sub) with
  | inr e => inr e
  | inl medians =>
      let best := get_n_best Qle_bool medians n in
      let untied := length (filter is_cand best) in
      if Nat.eqb (count_tie best) 0 then inl best
      else if Nat.ltb 0 untied then
        let winners := firstn untied best in
        let wc := flat_map (fun r : res C => match r with Cand c => [c] | TieR _ => [] end) winners in
        match mj_default_x rp f (filter (fun cd : C * cscores => negb (cmem (fst cd) wc)) (mj_live sub)) (n - untied) with
        | inl r => inl (winners ++ r)
        | inr e => inr e
        end
      else mj_default_x rp f (mj_round (mj_live sub) medians (match best with TieR l :: _ => l | _ => [] end)) n
  end.
Proof. intros Hrp. cbn [mj_default_x]. rewrite Hrp. reflexivity. Qed.

Lemma mj_live_in cd sub : In cd (mj_live sub) <-> In cd sub /\ cs_total (snd cd) <> 0%Z.
Proof. unfold mj_live. rewrite filter_In, negb_true_iff, Z.eqb_neq. tauto. Qed.

Lemma mj_live_ok sub : Forall cs_ok sub -> Forall cs_ok (mj_live sub).
Proof. apply filter_ok. Qed.

Lemma mj_live_nodup sub : NoDup (map fst sub) -> NoDup (map fst (mj_live sub)).
Proof. apply filter_keys_NoDup_gen. Qed.

(* every live candidate has a median *)
Lemma mj_live_medians sub : Forall cs_ok sub -> exists medians, aggregate FMedianLow (mj_live sub) = inl medians.
Proof.
  intros Hok. apply aggregate_total. intros cd Hin. apply mj_live_in in Hin. destruct Hin as (Hin & HT).
  rewrite Forall_forall in Hok. pose proof (Hok cd Hin) as Hcd. apply aggregate_one_total; [exact Hcd|].
  pose proof (cs_total_nonneg _ (proj1 Hcd)). lia.
Qed.

(* the state of the loop: distinct candidates with well-formed dictionaries *)
Definition mj_wf (sub : list (C * cscores)) : Prop := NoDup (map fst sub) /\ Forall cs_ok sub.

Lemma mj_wf_live sub : mj_wf sub -> mj_wf (mj_live sub).
Proof. intros (H1 & H2). split; [apply mj_live_nodup, H1|apply mj_live_ok, H2]. Qed.

Lemma mj_wf_filter (f : C * cscores -> bool) sub : mj_wf sub -> mj_wf (filter f sub).
Proof. intros (H1 & H2). split; [apply filter_keys_NoDup_gen, H1|apply filter_ok, H2]. Qed.

Lemma mj_wf_round sub medians T : mj_wf sub -> aggregate FMedianLow sub = inl medians -> mj_wf (mj_round sub medians T).
Proof. intros (H1 & H2) Ha. destruct (mj_round_successive sub medians T H1 H2 Ha) as (_ & _ & H3 & H4). split; assumption. Qed.

(* the winners are live candidates of the contest *)
Lemma mj_default_x_cands rp : rp_mj rp = true -> forall fuel sub k r c, mj_wf sub ->
  mj_default_x rp fuel sub k = inl r -> In (Cand c) r -> In c (map fst (mj_live sub)).
Proof.
  intros Hrp. induction fuel as [|f IH]; intros sub k r c Hwf; [discriminate|]. rewrite (mj_default_x_unfold rp f sub k Hrp).
  destruct (fold_left Z.max (map (fun cd : C * cscores => cs_total (snd cd)) sub) 0%Z <=? 0)%Z; [discriminate|].
  destruct (Nat.ltb (length (mj_live sub)) k); [discriminate|].
  pose proof (mj_wf_live sub Hwf) as Hwf1. rewrite (aggregate_x_ok rp _ _ (proj2 Hwf1)).
  destruct (aggregate FMedianLow (mj_live sub)) as [medians|e] eqn:Ea; [|discriminate]. cbv zeta.
  pose proof (aggregate_keys _ _ _ Ea) as Hk.
  destruct (Nat.eqb (count_tie (get_n_best Qle_bool medians k)) 0).
  - intros [= <-] H. apply get_n_best_cand_in in H. rewrite <- Hk. exact H.
  - destruct (Nat.ltb 0 _).
    + match goal with |- context [mj_default_x rp f ?s ?m] => destruct (mj_default_x rp f s m) as [r'|e] eqn:Er end; [|discriminate].
      intros [= <-] H. apply in_app_or in H. destruct H as [H|H].
      * apply firstn_incl in H. apply get_n_best_cand_in in H. rewrite <- Hk. exact H.
      * apply (IH _ _ _ _ (mj_wf_filter _ _ Hwf1) Er) in H. unfold mj_live at 1 in H. apply filter_keys_incl in H.
        apply filter_keys_incl in H. exact H.
    + intros Hr H. apply (IH _ _ _ _ (mj_wf_round _ _ _ Hwf1 Ea) Hr) in H. unfold mj_live at 1 in H. apply filter_keys_incl in H.
      rewrite mj_round_keys in H. apply filter_keys_incl in H. exact H.
Qed.

(* ================================================================ the repaired tie-break for any number of seats *)
Theorem mj_default_x_seats rp : rp_mj rp = true -> forall fuel sub n r,
  mj_wf sub -> (1 <= n)%nat ->
  mj_default_x rp fuel sub n = inl r ->
  (forall x, In x r -> exists c, x = Cand c) /\
  (forall c d c' d', In (Cand c) r -> In (c, d) sub -> In (c', d') sub -> ~ In (Cand c') r -> mj_lex_below d' d).
Proof.
  intros Hrp. induction fuel as [|f IH]; intros sub0 n r Hwf0 Hn; [discriminate|].
  intros Hrun. pose proof Hrun as Hrun0. revert Hrun.
  rewrite (mj_default_x_unfold rp f sub0 n Hrp).
  destruct (fold_left Z.max (map (fun cd : C * cscores => cs_total (snd cd)) sub0) 0%Z <=? 0)%Z; [discriminate|].
  destruct (Nat.ltb (length (mj_live sub0)) n); [discriminate|].
  pose proof (mj_wf_live sub0 Hwf0) as Hwf. set (sub := mj_live sub0) in *. destruct Hwf as (Hnd & Hok).
  rewrite (aggregate_x_ok rp _ _ Hok).
  destruct (aggregate FMedianLow sub) as [medians|e] eqn:Ea; [|discriminate]. cbv zeta.
  assert (Hndm : NoDup (map fst medians)) by (rewrite (aggregate_keys _ _ _ Ea); exact Hnd).
  (* it is enough to compare inside the live candidates: an exhausted candidate is below every winner *)
  assert (Hext : forall r0, r0 = r ->
     ((forall x, In x r0 -> exists c, x = Cand c) /\
      (forall c d c' d', In (Cand c) r0 -> In (c, d) sub -> In (c', d') sub -> ~ In (Cand c') r0 -> mj_lex_below d' d)) ->
     (forall x, In x r -> exists c, x = Cand c) /\
     (forall c d c' d', In (Cand c) r -> In (c, d) sub0 -> In (c', d') sub0 -> ~ In (Cand c') r -> mj_lex_below d' d)).
  { intros r0 -> (Hplain & Hlex). split; [exact Hplain|]. intros c d c' d' Hc Hd Hd' Hnc.
    pose proof (mj_default_x_cands rp Hrp _ _ _ _ c Hwf0 Hrun0 Hc) as Hcl. fold sub in Hcl.
    apply in_map_iff in Hcl. destruct Hcl as ([c0 d1] & Hc0 & Hd1). cbn [fst] in Hc0. subst c0.
    assert (Hd1' : In (c, d1) sub0) by (apply mj_live_in in Hd1; tauto).
    rewrite (NoDup_keys_val _ _ _ _ (proj1 Hwf0) Hd1' Hd) in Hd1. clear d1 Hd1'.
    destruct (Z.eq_dec (cs_total d') 0) as [Hz|Hnz].
    - destruct (medians_in _ _ _ _ Hnd Ea Hd1) as (v & _ & Hav & _).
      pose proof (proj2 Hwf0) as Hok0. rewrite Forall_forall in Hok0. destruct (Hok0 _ Hd') as (Hnn & _). cbn [snd] in Hnn.
      exact (mj_below_empty d d' v Hav Hnn Hz).
    - apply (Hlex c d c' d' Hc Hd1); [|exact Hnc]. apply mj_live_in. split; [exact Hd'|exact Hnz]. }
  destruct (gnb_cases medians n Hn Hndm) as [(Hct & Hplain & Hcut & _)|(above & level & below & thr & k & Hp & Ha & Hl & Hb & Hbest & Hlen & Hk)].
  - rewrite Hct. cbn [Nat.eqb]. intros [= <-]. apply (Hext _ eq_refl). split; [exact Hplain|].
    intros c d c' d' Hc Hd Hd' Hnc.
    destruct (medians_in _ _ _ _ Hnd Ea Hd) as (v & Hv & Hav & _). destruct (medians_in _ _ _ _ Hnd Ea Hd') as (v' & Hv' & Hav' & _).
    apply (mj_below_0 _ _ v v' Hav Hav'). exact (Hcut _ _ _ _ Hc Hv Hv' Hnc).
  - rewrite Hbest, count_tie_app, filter_cand_app, map_length. cbn [Nat.eqb].
    assert (Hsplit : forall c v, In (c, v) medians -> In (c, v) above \/ In (c, v) level \/ In (c, v) below).
    { intros c v H. apply (Permutation_in _ (Permutation_sym Hp)) in H.
      apply in_app_or in H. destruct H as [H|H]; [left; exact H|]. apply in_app_or in H. tauto. }
    assert (Hback : forall c v, In (c, v) above \/ In (c, v) level \/ In (c, v) below -> In (c, v) medians).
    { intros c v H. eapply Permutation_in; [exact Hp|]. apply in_or_app. destruct H as [H|[H|H]]; [left; exact H|right|right];
        apply in_or_app; [left|right]; exact H. }
    assert (Hcase : above = [] \/ (0 <? length above)%nat = true) by (destruct above; [left; reflexivity|right; reflexivity]).
    destruct Hcase as [->|Hpos].
    + (* the lead is shared: one round of removals among the level candidates *)
      cbn [length Nat.ltb Nat.leb map app repeat].
      set (T := map fst level) in *. intros Hr. apply (Hext _ eq_refl).
      pose proof (mj_wf_round sub medians T (conj Hnd Hok) Ea) as Hwf'.
      destruct (IH _ _ _ Hwf' Hn Hr) as (Hplain & Hlex). split; [exact Hplain|].
      intros c d c' d' Hc Hd Hd' Hnc.
      assert (Hcn : In c (map fst (mj_round sub medians T))).
      { pose proof (mj_default_x_cands rp Hrp _ _ _ _ c Hwf' Hr Hc) as H. unfold mj_live in H. apply filter_keys_incl in H. exact H. }
      apply in_map_iff in Hcn. destruct Hcn as ([c0 dn] & Hc0 & Hdn). cbn [fst] in Hc0. subst c0.
      destruct (mj_round_seq sub medians T Hnd Hok Ea c dn Hdn) as (d0 & m & Hd0 & HcT & Hm & Hrk & Hsq).
      rewrite (NoDup_keys_val _ _ _ _ Hnd Hd0 Hd) in *. clear d0 Hd0.
      assert (Hmthr : m == thr).
      { unfold T in HcT. apply in_map_iff in HcT. destruct HcT as ([c1 v1] & Hc1 & Hlv). cbn [fst] in Hc1. subst c1.
        rewrite (NoDup_keys_val _ _ _ _ Hndm Hm (Hback _ _ (or_intror (or_introl Hlv)))). apply (Hl _ Hlv). }
      destruct (medians_in _ _ _ _ Hnd Ea Hd') as (v' & Hv' & Hav' & _).
      destruct (medians_in _ _ _ _ Hnd Ea Hd) as (v & Hv & Hav & _).
      rewrite (NoDup_keys_val _ _ _ _ Hndm Hv Hm) in Hav. clear v Hv.
      destruct (Hsplit _ _ Hv') as [H|[H|H]]; [destruct H| |].
      * (* the rival is level, too: compare what is left of both *)
        assert (Hc'T : In (c', d') (mj_level sub T)).
        { unfold mj_level. apply filter_In. split; [exact Hd'|]. cbn [fst]. apply cmem_In. unfold T. apply in_map_iff. exists (c', v'). auto. }
        assert (Hc'n : In c' (map fst (mj_round sub medians T))) by (rewrite mj_round_keys; apply in_map_iff; exists (c', d'); auto).
        apply in_map_iff in Hc'n. destruct Hc'n as ([c0 dn'] & Hc0 & Hdn'). cbn [fst] in Hc0. subst c0.
        destruct (mj_round_seq sub medians T Hnd Hok Ea c' dn' Hdn') as (d0 & m' & Hd0 & _ & Hm' & Hrk' & Hsq').
        rewrite (NoDup_keys_val _ _ _ _ Hnd Hd0 Hd') in *. clear d0 Hd0.
        rewrite (NoDup_keys_val _ _ _ _ Hndm Hm' Hv') in *. clear m' Hm'.
        apply Hl in H. cbn [snd] in H.
        apply (mj_below_lift _ d d' dn dn' m v' Hrk Hrk' Hsq Hsq'); [lra|].
        exact (Hlex c dn c' dn' Hc Hdn Hdn' Hnc).
      * apply Hb in H. cbn [snd] in H. apply (mj_below_0 _ _ m v' Hav Hav'). lra.
    + (* some candidates lead outright: they are seated, the others go on for the remaining seats *)
      rewrite Hpos.
      assert (Hfn : firstn (length above) (map cand_of above ++ repeat (TieR (map fst level)) (S k)) = map cand_of above).
      { rewrite <- (map_length (@cand_of C Q) above), firstn_app, firstn_all, Nat.sub_diag, firstn_O, app_nil_r. reflexivity. }
      rewrite Hfn, cands_of_map.
      replace (n - length above)%nat with (S k) by lia.
      set (sub' := filter (fun cd : C * cscores => negb (cmem (fst cd) (map fst above))) sub).
      destruct (mj_default_x rp f sub' (S k)) as [r'|e] eqn:Er; [|discriminate]. intros [= Hr]. apply (Hext _ Hr).
      pose proof (mj_wf_filter (fun cd : C * cscores => negb (cmem (fst cd) (map fst above))) sub (conj Hnd Hok)) as Hwf'. fold sub' in Hwf'.
      destruct (IH sub' (S k) r' Hwf' ltac:(lia) Er) as (Hplain & Hlex). split.
      * intros x Hx. apply in_app_or in Hx. destruct Hx as [Hx|Hx]; [|apply Hplain, Hx].
        apply in_map_iff in Hx. destruct Hx as (it & <- & _). eexists. reflexivity.
      * intros c d c' d' Hc Hd Hd' Hnc.
        destruct (medians_in _ _ _ _ Hnd Ea Hd') as (v' & Hv' & Hav' & _).
        destruct (medians_in _ _ _ _ Hnd Ea Hd) as (v & Hv & Hav & _).
        assert (Hna' : ~ In c' (map fst above)).
        { intros H. apply Hnc. apply in_or_app. left. apply in_map_iff in H. destruct H as (it & <- & Hit).
          apply in_map_iff. exists it. split; [reflexivity|exact Hit]. }
        assert (Hsub'_in : forall x dx, In (x, dx) sub -> ~ In x (map fst above) -> In (x, dx) sub').
        { intros x dx Hx Hnx. unfold sub'. apply filter_In. split; [exact Hx|]. cbn [fst]. apply negb_true_iff.
          destruct (cmem x (map fst above)) eqn:E; [|reflexivity]. apply cmem_In in E. contradiction. }
        apply in_app_or in Hc. destruct Hc as [Hc|Hc].
        -- apply in_map_iff in Hc. destruct Hc as ([c0 v0] & Hc0 & Hin0). unfold cand_of in Hc0. cbn [fst] in Hc0. injection Hc0 as ->.
           rewrite (NoDup_keys_val _ _ _ _ Hndm Hv (Hback _ _ (or_introl Hin0))) in *.
           apply Ha in Hin0. cbn [snd] in Hin0.
           apply (mj_below_0 _ _ v0 v' Hav Hav').
           destruct (Hsplit _ _ Hv') as [H|[H|H]].
           ++ exfalso. apply Hna'. apply in_map_iff. exists (c', v'). auto.
           ++ apply Hl in H. cbn [snd] in H. lra.
           ++ apply Hb in H. cbn [snd] in H. lra.
        -- assert (Hcs : In c (map fst sub')).
           { pose proof (mj_default_x_cands rp Hrp _ _ _ _ c Hwf' Er Hc) as H. unfold mj_live in H. apply filter_keys_incl in H. exact H. }
           apply in_map_iff in Hcs. destruct Hcs as ([c0 d0] & Hc0 & Hd0). cbn [fst] in Hc0. subst c0.
           assert (Hd0' : In (c, d0) sub) by (unfold sub' in Hd0; apply filter_In in Hd0; tauto).
           rewrite (NoDup_keys_val _ _ _ _ Hnd Hd0' Hd) in Hd0.
           apply (Hlex c d c' d' Hc Hd0 (Hsub'_in _ _ Hd' Hna')).
           intros H. apply Hnc. apply in_or_app. right. exact H.
Qed.

(* ================================================================ no StatisticsError any more *)
Theorem mj_default_x_no_crash rp : rp_mj rp = true -> forall fuel sub n, mj_wf sub ->
  match mj_default_x rp fuel sub n with inl _ => True | inr e => e = SE_vse \/ e = SE_fuel end.
Proof.
  intros Hrp. induction fuel as [|f IH]; intros sub0 n Hwf0; [right; reflexivity|].
  rewrite (mj_default_x_unfold rp f sub0 n Hrp).
  destruct (fold_left Z.max (map (fun cd : C * cscores => cs_total (snd cd)) sub0) 0%Z <=? 0)%Z; [left; reflexivity|].
  destruct (Nat.ltb (length (mj_live sub0)) n); [left; reflexivity|].
  pose proof (mj_wf_live sub0 Hwf0) as Hwf. rewrite (aggregate_x_ok rp _ _ (proj2 Hwf)).
  destruct (mj_live_medians sub0 (proj2 Hwf0)) as (medians & Ea). rewrite Ea. cbv zeta.
  destruct (Nat.eqb (count_tie (get_n_best Qle_bool medians n)) 0); [exact I|].
  destruct (Nat.ltb 0 _).
  - match goal with |- context [mj_default_x rp f ?s ?m] => pose proof (IH s m (mj_wf_filter _ _ Hwf)) as H; destruct (mj_default_x rp f s m) end;
      [exact I|exact H].
  - apply IH. apply (mj_wf_round _ _ _ Hwf Ea).
Qed.

(* ================================================================ how many are elected *)
Theorem mj_default_x_seats_count rp : rp_mj rp = true -> forall fuel sub n r,
  mj_wf sub -> (1 <= n)%nat ->
  mj_default_x rp fuel sub n = inl r -> length r = n /\ NoDup r.
Proof.
  intros Hrp. induction fuel as [|f IH]; intros sub0 n r Hwf0 Hn; [discriminate|].
  rewrite (mj_default_x_unfold rp f sub0 n Hrp).
  destruct (fold_left Z.max (map (fun cd : C * cscores => cs_total (snd cd)) sub0) 0%Z <=? 0)%Z; [discriminate|].
  destruct (Nat.ltb (length (mj_live sub0)) n) eqn:Elive; [discriminate|]. apply Nat.ltb_ge in Elive.
  pose proof (mj_wf_live sub0 Hwf0) as Hwf. set (sub := mj_live sub0) in *. destruct Hwf as (Hnd & Hok).
  rewrite (aggregate_x_ok rp _ _ Hok).
  destruct (aggregate FMedianLow sub) as [medians|e] eqn:Ea; [|discriminate]. cbv zeta.
  pose proof (aggregate_keys _ _ _ Ea) as Hkeys.
  assert (Hndm : NoDup (map fst medians)) by (rewrite Hkeys; exact Hnd).
  assert (Hlenm : length medians = length sub) by (rewrite <- (map_length fst medians), Hkeys, map_length; reflexivity).
  destruct (gnb_cases medians n Hn Hndm) as [(Hct & _ & _ & Hlen & Hndb)|(above & level & below & thr & k & Hp & Ha & Hl & Hb & Hbest & Hlen & Hk)].
  - rewrite Hct. cbn [Nat.eqb]. intros [= <-]. rewrite Hlen, Hlenm. split; [lia|exact Hndb].
  - rewrite Hbest, count_tie_app, filter_cand_app, map_length. cbn [Nat.eqb].
    destruct (perm_parts _ _ _ _ Hndm Hp) as (Hnda & Hndl & Hlv).
    assert (Hcase : above = [] \/ (0 <? length above)%nat = true) by (destruct above; [left; reflexivity|right; reflexivity]).
    destruct Hcase as [->|Hpos].
    + cbn [length Nat.ltb Nat.leb map app repeat]. intros Hr.
      exact (IH _ _ _ (mj_wf_round sub medians (map fst level) (conj Hnd Hok) Ea) Hn Hr).
    + rewrite Hpos.
      assert (Hfn : firstn (length above) (map cand_of above ++ repeat (TieR (map fst level)) (S k)) = map cand_of above).
      { rewrite <- (map_length (@cand_of C Q) above), firstn_app, firstn_all, Nat.sub_diag, firstn_O, app_nil_r. reflexivity. }
      rewrite Hfn, cands_of_map.
      replace (n - length above)%nat with (S k) by lia.
      set (sub' := filter (fun cd : C * cscores => negb (cmem (fst cd) (map fst above))) sub).
      destruct (mj_default_x rp f sub' (S k)) as [r'|e] eqn:Er; [|discriminate]. intros [= <-].
      pose proof (mj_wf_filter (fun cd : C * cscores => negb (cmem (fst cd) (map fst above))) sub (conj Hnd Hok)) as Hwf'. fold sub' in Hwf'.
      destruct (IH sub' (S k) r' Hwf' ltac:(lia) Er) as (Hl1 & Hl2).
      split.
      * rewrite app_length, map_length, Hl1. lia.
      * apply NoDup_app_intro; [apply cand_of_nodup, Hnda|exact Hl2|].
        intros x Hx Hx'. apply in_map_iff in Hx. destruct Hx as ([c v] & <- & Hin). unfold cand_of in Hx'. cbn [fst] in Hx'.
        apply (mj_default_x_cands rp Hrp _ _ _ _ c Hwf' Er) in Hx'. unfold mj_live in Hx'. apply filter_keys_incl in Hx'.
        apply in_map_iff in Hx'. destruct Hx' as ([c0 d] & Hc0 & Hd). cbn [fst] in Hc0. subst c0.
        unfold sub' in Hd. apply filter_In in Hd. destruct Hd as (_ & Hd). cbn [fst] in Hd. apply negb_true_iff in Hd.
        assert (Hc : cmem c (map fst above) = true) by (apply cmem_In, in_map_iff; exists (c, v); auto). congruence.
Qed.

(* ================================================================ the corrected dictionaries, with any repair *)
Lemma correct_scores_x_okd rp cf d n_votes d' : cs_okd d -> (sc_unscored cf = UNone \/ (cs_total d <= n_votes)%Z) ->
  correct_scores_x rp cf d n_votes = inl d' -> cs_okd d'.
Proof.
  intros Hd Hb. rewrite correct_scores_x_unfold.
  destruct (cs_total d <? sc_min_count cf)%Z eqn:Em.
  { intros [= <-]. apply Z.ltb_lt in Em. pose proof (cs_total_nonneg d (proj1 Hd)).
    split; [constructor; [cbn; lia|constructor]|split; [intros ? []|exact I]]. }
  destruct (unscored_fill cf d n_votes) as [d1|e] eqn:E1; [|discriminate].
  assert (Hd1 : cs_okd d1).
  { apply (correct_scores_okd {| sc_fn := sc_fn cf; sc_unscored := sc_unscored cf; sc_min_count := sc_min_count cf; sc_trunc := 0%Q; sc_bottom := sc_bottom cf |} d n_votes d1 Hd Hb).
    rewrite correct_scores_unfold. cbn [sc_min_count sc_trunc]. rewrite Em.
    unfold unscored_fill in *. cbn [sc_unscored]. rewrite E1. reflexivity. }
  destruct (Qle_bool (sc_trunc cf) 0); [intros [= <-]; exact Hd1|]. cbv zeta.
  match goal with |- match subtract_lowest d1 ?K ?CU 0%Z with _ => _ end = _ -> _ =>
    destruct (subtract_lowest d1 K CU 0%Z) as [d2|] eqn:E2; [|discriminate];
    destruct (subtract_lowest d2 (rev K) CU 0%Z) as [d3|] eqn:E3; [|discriminate] end.
  intros [= <-]. apply (subtract_lowest_okd _ _ _ _ _ (subtract_lowest_okd _ _ _ _ _ Hd1 E2) E3).
Qed.

Theorem corrected_scores_x_ok rp cf votes sc : profile_ok votes -> corrected_scores_x rp cf votes = inl sc -> Forall cs_ok sc.
Proof.
  intros Hv Hsc. apply Forall_forall. intros [c d'] Hin. unfold corrected_scores_x in Hsc. cbv zeta in Hsc.
  apply (sequence_in _ _ _ _ Hsc) in Hin. apply in_map_iff in Hin. destruct Hin as ([c0 d] & Heq & Hd). cbn [fst snd] in Heq.
  injection Heq as -> Hcorr. unfold cs_ok. cbn [snd].
  assert (Hokd : cs_okd d) by (apply (raw_scores_okd votes (fun bn H => proj1 (Hv bn H)) (c, d) Hd)).
  refine (correct_scores_x_okd rp cf d _ d' Hokd _ Hcorr). right.
  apply (raw_scores_bound votes Hv (c, d) Hd).
Qed.

Lemma corrected_scores_x_nodup rp cf votes sc : corrected_scores_x rp cf votes = inl sc -> NoDup (map fst sc).
Proof.
  unfold corrected_scores_x. cbv zeta. intros H. rewrite (sequence_keys _ _ H), map_map. cbn [fst].
  rewrite <- (map_ext fst (fun x : C * cscores => fst x) (fun _ => eq_refl)). apply raw_scores_nodup.
Qed.

(* ================================================================ the evaluator: default tie-break, n seats, repaired *)
Theorem mj_x_default_rule rp cf votes n sc r : rp_mj rp = true ->
  (1 <= n)%nat -> corrected_scores_x rp cf votes = inl sc -> Forall cs_ok sc ->
  majority_judgment_x rp false cf votes n = inl r ->
  (forall x, In x r -> exists c, x = Cand c) /\ length r = Nat.min n (length sc) /\ NoDup r /\
  (forall c, In (Cand c) r -> In c (map fst sc)) /\
  (forall c d c' d', In (Cand c) r -> In (c, d) sc -> In (c', d') sc -> ~ In (Cand c') r -> mj_lex_below d' d).
Proof.
  intros Hrp Hn Hsc Hok. pose proof (corrected_scores_x_nodup _ _ _ _ Hsc) as Hnd.
  unfold majority_judgment_x. rewrite Hsc, (aggregate_x_ok rp _ _ Hok).
  destruct (aggregate FMedianLow sc) as [med|e] eqn:Ea; [|discriminate].
  pose proof (aggregate_keys _ _ _ Ea) as Hkeys.
  assert (Hndm : NoDup (map fst med)) by (rewrite Hkeys; exact Hnd).
  assert (Hlenm : length med = length sc) by (rewrite <- (map_length fst med), Hkeys, map_length; reflexivity).
  destruct (gnb_cases med n Hn Hndm) as [(Hct & Hplain & Hcut & Hlen & Hndb)|(above & level & below & thr & k & Hp & Ha & Hl & Hb & Hbest & Hlen & Hk)].
  - cbv zeta. rewrite (last_tie_plain _ Hplain). intros [= <-]. split; [exact Hplain|]. split; [rewrite Hlen, Hlenm; reflexivity|].
    split; [exact Hndb|]. split; [intros c Hc; rewrite <- Hkeys; apply (get_n_best_cand_in _ _ _ Hc)|].
    intros c d c' d' Hc Hd Hd' Hnc.
    destruct (medians_in _ _ _ _ Hnd Ea Hd) as (v & Hv & Hav & _). destruct (medians_in _ _ _ _ Hnd Ea Hd') as (v' & Hv' & Hav' & _).
    apply (mj_below_0 _ _ v v' Hav Hav'). exact (Hcut _ _ _ _ Hc Hv Hv' Hnc).
  - cbv zeta. rewrite Hbest, last_tie_app, count_tie_app.
    replace (length (map cand_of above ++ repeat (TieR (map fst level)) (S k)) - S k)%nat with (length (map (@cand_of C Q) above))
      by (rewrite app_length, repeat_length; lia).
    rewrite firstn_app, firstn_all, Nat.sub_diag, firstn_O, app_nil_r.
    fold (mj_level sc (map fst level)). set (T := map fst level) in *. set (sub := mj_level sc T).
    match goal with |- context [mj_default_x rp ?f sub (S k)] => destruct (mj_default_x rp f sub (S k)) as [r'|e] eqn:Er end; [|discriminate].
    intros [= <-].
    assert (Hwf' : mj_wf sub) by (split; [apply filter_keys_NoDup_gen, Hnd|apply filter_ok, Hok]).
    destruct (mj_default_x_seats rp Hrp _ sub (S k) r' Hwf' (le_n_S _ _ (Nat.le_0_l k)) Er) as (Hplain & Hlex).
    destruct (mj_default_x_seats_count rp Hrp _ sub (S k) r' Hwf' (le_n_S _ _ (Nat.le_0_l k)) Er) as (Hl1 & Hl2).
    destruct (perm_parts _ _ _ _ Hndm Hp) as (Hnda & Hndl & Hlv).
    assert (Hsplit : forall c v, In (c, v) med -> In (c, v) above \/ In (c, v) level \/ In (c, v) below).
    { intros c v H. apply (Permutation_in _ (Permutation_sym Hp)) in H.
      apply in_app_or in H. destruct H as [H|H]; [left; exact H|]. apply in_app_or in H. tauto. }
    assert (Hback : forall c v, In (c, v) above \/ In (c, v) level \/ In (c, v) below -> In (c, v) med).
    { intros c v H. eapply Permutation_in; [exact Hp|]. apply in_or_app. destruct H as [H|[H|H]]; [left; exact H|right|right];
        apply in_or_app; [left|right]; exact H. }
    assert (Hsub_in : forall x dx, In (x, dx) sub <-> In (x, dx) sc /\ In x T).
    { intros x dx. unfold sub, mj_level. rewrite filter_In. cbn [fst]. rewrite cmem_In. tauto. }
    assert (Hbig : (length above + length level <= length sc)%nat).
    { rewrite <- Hlenm, <- (Permutation_length Hp), !app_length. lia. }
    assert (Hr'T : forall c, In (Cand c) r' -> In c T /\ In c (map fst sc)).
    { intros c Hc. apply (mj_default_x_cands rp Hrp _ _ _ _ c Hwf' Er) in Hc. unfold mj_live in Hc. apply filter_keys_incl in Hc.
      apply in_map_iff in Hc. destruct Hc as ([c0 d] & Hc0 & Hd).
      cbn [fst] in Hc0. subst c0. apply Hsub_in in Hd. split; [tauto|]. apply in_map_iff. exists (c, d). tauto. }
    split; [|split; [|split; [|split]]].
    + intros x Hx. apply in_app_or in Hx. destruct Hx as [Hx|Hx]; [|apply Hplain, Hx].
      apply in_map_iff in Hx. destruct Hx as (it & <- & _). eexists. reflexivity.
    + rewrite app_length, map_length, Hl1. lia.
    + apply NoDup_app_intro; [apply cand_of_nodup, Hnda|exact Hl2|].
      intros x Hx Hx'. apply in_map_iff in Hx. destruct Hx as ([c v] & <- & Hin). unfold cand_of in Hx'. cbn [fst] in Hx'.
      destruct (Hr'T _ Hx') as (HT & _). destruct (Hlv c HT) as (_ & Hna). apply Hna. apply in_map_iff. exists (c, v). auto.
    + intros c Hc. apply in_app_or in Hc. destruct Hc as [Hc|Hc]; [|apply Hr'T, Hc].
      apply in_map_iff in Hc. destruct Hc as ([c0 v0] & Hc0 & Hin0). unfold cand_of in Hc0. cbn [fst] in Hc0. injection Hc0 as ->.
      rewrite <- Hkeys. apply in_map_iff. exists (c, v0). split; [reflexivity|]. apply Hback. left. exact Hin0.
    + intros c d c' d' Hc Hd Hd' Hnc.
      destruct (medians_in _ _ _ _ Hnd Ea Hd') as (v' & Hv' & Hav' & _).
      destruct (medians_in _ _ _ _ Hnd Ea Hd) as (v & Hv & Hav & _).
      assert (Hna' : ~ In (c', v') above).
      { intros H. apply Hnc. apply in_or_app. left. apply in_map_iff. exists (c', v'). split; [reflexivity|exact H]. }
      apply in_app_or in Hc. destruct Hc as [Hc|Hc].
      * apply in_map_iff in Hc. destruct Hc as ([c0 v0] & Hc0 & Hin0). unfold cand_of in Hc0. cbn [fst] in Hc0. injection Hc0 as ->.
        rewrite (NoDup_keys_val _ _ _ _ Hndm Hv (Hback _ _ (or_introl Hin0))) in *.
        apply Ha in Hin0. cbn [snd] in Hin0. apply (mj_below_0 _ _ v0 v' Hav Hav').
        destruct (Hsplit _ _ Hv') as [H|[H|H]]; [contradiction| |].
        -- apply Hl in H. cbn [snd] in H. lra.
        -- apply Hb in H. cbn [snd] in H. lra.
      * destruct (Hr'T _ Hc) as (HcT & _).
        assert (Hvthr : v == thr).
        { unfold T in HcT. apply in_map_iff in HcT. destruct HcT as ([c1 v1] & Hc1 & Hlv1). cbn [fst] in Hc1. subst c1.
          rewrite (NoDup_keys_val _ _ _ _ Hndm Hv (Hback _ _ (or_intror (or_introl Hlv1)))). apply (Hl _ Hlv1). }
        destruct (Hsplit _ _ Hv') as [H|[H|H]]; [contradiction| |].
        -- apply (Hlex c d c' d' Hc); [apply Hsub_in; split; [exact Hd|exact HcT]| |].
           ++ apply Hsub_in. split; [exact Hd'|]. unfold T. apply in_map_iff. exists (c', v'). auto.
           ++ intros H'. apply Hnc. apply in_or_app. right. exact H'.
        -- apply Hb in H. cbn [snd] in H. apply (mj_below_0 _ _ v v' Hav Hav'). lra.
Qed.

(* ================================================================ the evaluator never crashes *)
Theorem majority_judgment_x_no_crash rp plus cf votes n : rp_trunc rp = true -> rp_mj rp = true -> (1 <= n)%nat ->
  profile_pos votes ->
  match majority_judgment_x rp plus cf votes n with inl _ => True | inr e => e = SE_vse \/ e = SE_fuel end.
Proof.
  intros Hrt Hrp Hn Hv. unfold majority_judgment_x.
  destruct (corrected_scores_x_held rp cf votes Hrt Hv) as (sc & Hsc & Hheld). rewrite Hsc.
  assert (Hok : Forall cs_ok sc) by (apply Forall_forall; intros cd Hcd; exact (proj1 (Hheld cd Hcd))).
  pose proof (corrected_scores_x_nodup _ _ _ _ Hsc) as Hnd.
  rewrite (aggregate_x_ok rp _ _ Hok).
  destruct (aggregate_total sc) as (med & Ea).
  { intros cd Hcd. destruct (Hheld cd Hcd). apply aggregate_one_total; assumption. }
  rewrite Ea. cbv zeta.
  pose proof (aggregate_keys _ _ _ Ea) as Hkeys.
  assert (Hndm : NoDup (map fst med)) by (rewrite Hkeys; exact Hnd).
  destruct (gnb_cases med n Hn Hndm) as [(Hct & Hplain & _)|(above & level & below & thr & k & Hp & Ha & Hl & Hb & Hbest & Hlen & Hk)].
  - rewrite (last_tie_plain _ Hplain). exact I.
  - rewrite Hbest, last_tie_app, count_tie_app.
    fold (mj_level sc (map fst level)). set (T := map fst level) in *. set (sub := mj_level sc T).
    assert (Hwf' : mj_wf sub) by (split; [apply filter_keys_NoDup_gen, Hnd|apply filter_ok, Hok]).
    destruct plus.
    + (* plus: the shared median of the first level candidate exists *)
      destruct (perm_parts _ _ _ _ Hndm Hp) as (_ & _ & Hlv).
      destruct level as [|[c0 v0] level']; [cbn [length] in Hk; lia|].
      assert (Hc0 : In c0 (map fst sc)) by (rewrite <- Hkeys; apply (Hlv c0); left; reflexivity).
      apply in_map_iff in Hc0. destruct Hc0 as ([c1 d0] & Hc1 & Hd0). cbn [fst] in Hc1. subst c1.
      assert (Hin : In (c0, d0) sub).
      { unfold sub, mj_level. apply filter_In. split; [exact Hd0|]. cbn [fst]. apply cmem_In. left. reflexivity. }
      unfold mj_plus_x. destruct sub as [|[c2 d2] sub'] eqn:Es; [destruct Hin|].
      assert (Hd2 : held (c2, d2)).
      { apply Hheld. assert (H : In (c2, d2) (mj_level sc T)) by (fold sub; rewrite Es; left; reflexivity).
        unfold mj_level in H. apply filter_In in H. tauto. }
      destruct (aggregate_one_x_total rp FMedianLow d2 (proj1 Hd2) (proj2 Hd2)) as (v & ->). exact I.
    + match goal with |- context [mj_default_x rp ?f sub (S k)] =>
        pose proof (mj_default_x_no_crash rp Hrp f sub (S k) Hwf') as H; destruct (mj_default_x rp f sub (S k)) end; [exact I|exact H].
Qed.

(* ================================================================ the repair changes no answer the pinned loop gave *)
(* wherever the pinned tie-break does not end in StatisticsError - it answers, refuses a lasting tie, or runs out of the
   model's fuel - the repaired one does the same: nobody was exhausted before the others on the way *)
Theorem mj_default_x_conservative rp : forall fuel sub n, mj_wf sub -> (1 <= n <= length sub)%nat ->
  mj_default fuel sub n <> inr SE_stats -> mj_default_x rp fuel sub n = mj_default fuel sub n.
Proof.
  induction fuel as [|f IH]; intros sub n Hwf Hn Hns; [reflexivity|].
  rewrite MJ_seats_proofs.mj_default_unfold in Hns |- *. cbn [mj_default_x].
  destruct (fold_left Z.max (map (fun cd : C * cscores => cs_total (snd cd)) sub) 0%Z <=? 0)%Z; [reflexivity|].
  destruct (aggregate FMedianLow sub) as [medians|e] eqn:Ea.
  2:{ exfalso. apply Hns. f_equal.
      (* the only error of the low median is StatisticsError *)
      clear -Ea. induction sub as [|cd sub IHs]; [discriminate|]. rewrite aggregate_cons in Ea.
      destruct (aggregate_one FMedianLow (snd cd)) as [y|e0] eqn:Ey.
      - destruct (aggregate FMedianLow sub) as [r|e1]; [discriminate|]. injection Ea as <-. apply IHs. reflexivity.
      - injection Ea as <-. rewrite median_unfold in Ey. destruct (expand (snd cd)); [injection Ey as <-; reflexivity|discriminate]. }
  (* every candidate has a median, hence a score: nobody is dropped *)
  destruct Hwf as (Hnd & Hok).
  assert (Hlive : mj_live sub = sub).
  { unfold mj_live. apply filter_keep_all. intros cd Hcd. apply negb_true_iff, Z.eqb_neq. intros Hz.
    destruct cd as [c d]. destruct (medians_in sub medians c d Hnd Ea Hcd) as (v & _ & Hav & _). cbn [snd] in Hz.
    rewrite Forall_forall in Hok. destruct (Hok _ Hcd) as (Hnn & _). cbn [snd] in Hnn.
    destruct (nonneg_total_zero d Hnn Hz) as (_ & He). rewrite median_unfold, He in Hav. discriminate. }
  assert (Hs1 : (if rp_mj rp then mj_live sub else sub) = sub) by (destruct (rp_mj rp); [exact Hlive|reflexivity]). rewrite Hs1.
  assert (Hlen : rp_mj rp && Nat.ltb (length sub) n = false) by (destruct (rp_mj rp); [apply Nat.ltb_ge; lia|reflexivity]).
  rewrite Hlen, (aggregate_x_ok rp _ _ Hok), Ea. cbv zeta in Hns |- *.
  assert (Hndm : NoDup (map fst medians)) by (rewrite (aggregate_keys _ _ _ Ea); exact Hnd).
  pose proof (aggregate_keys _ _ _ Ea) as Hkeys.
  change (fun r : res C => match r with Cand _ => true | TieR _ => false end) with is_cand.
  destruct (gnb_cases medians n (proj1 Hn) Hndm) as [(Hct & _)|(above & level & below & thr & k & Hp & _ & _ & _ & Hbest & Hlenb & Hk)].
  - rewrite Hct. reflexivity.
  - destruct (perm_parts _ _ _ _ Hndm Hp) as (Hnda & Hndl & Hlv).
    revert Hns. rewrite Hbest, count_tie_app, filter_cand_app, map_length. cbn [Nat.eqb].
    assert (Hcase : above = [] \/ (0 <? length above)%nat = true) by (destruct above; [left; reflexivity|right; reflexivity]).
    destruct Hcase as [->|Hpos].
    + cbn [length Nat.ltb Nat.leb map app repeat]. intros Hns.
      change (mj_default_x rp f (mj_round sub medians (map fst level)) n = mj_default f (mj_round sub medians (map fst level)) n).
      apply IH; [apply (mj_wf_round _ _ _ (conj Hnd Hok) Ea)| |exact Hns].
      assert (Hge : (length level <= length (mj_round sub medians (map fst level)))%nat).
      { apply keys_incl_length; [exact Hndl|]. intros c Hc. rewrite mj_round_keys. destruct (Hlv c Hc) as (Hm & _).
        rewrite Hkeys in Hm. apply in_map_iff in Hm. destruct Hm as ([c0 d] & Hc0 & Hd). cbn [fst] in Hc0. subst c0.
        apply in_map_iff. exists (c, d). split; [reflexivity|]. unfold mj_level. apply filter_In. split; [exact Hd|].
        cbn [fst]. apply cmem_In, Hc. }
      cbn [length] in Hlenb. lia.
    + rewrite Hpos.
      assert (Hfn : firstn (length above) (map cand_of above ++ repeat (TieR (map fst level)) (S k)) = map cand_of above).
      { rewrite <- (map_length (@cand_of C Q) above), firstn_app, firstn_all, Nat.sub_diag, firstn_O, app_nil_r. reflexivity. }
      rewrite Hfn, cands_of_map. replace (n - length above)%nat with (S k) by lia.
      set (sub' := filter (fun cd : C * cscores => negb (cmem (fst cd) (map fst above))) sub).
      intros Hns. rewrite (IH sub' (S k)); [reflexivity|apply mj_wf_filter; split; assumption| |].
      * assert (Hge : (length level <= length sub')%nat).
        { apply keys_incl_length; [exact Hndl|]. intros c Hc. destruct (Hlv c Hc) as (Hm & Hna).
          rewrite Hkeys in Hm. apply in_map_iff in Hm. destruct Hm as ([c0 d] & Hc0 & Hd). cbn [fst] in Hc0. subst c0.
          apply in_map_iff. exists (c, d). split; [reflexivity|]. unfold sub'. apply filter_In. split; [exact Hd|].
          cbn [fst]. apply negb_true_iff. destruct (cmem c (map fst above)) eqn:E; [|reflexivity]. apply cmem_In in E. contradiction. }
        lia.
      * intros E. apply Hns. rewrite E. reflexivity.
Qed.

(* ================================================================ ... nor any answer of the evaluators *)
(* a dictionary whose mean / low median exists holds a score *)
Lemma aggregate_one_holds fn d v : fn <> FSum -> cs_okd d -> aggregate_one fn d = inl v -> (1 <= cs_total d)%Z.
Proof.
  intros Hfn Hd Ha. pose proof (expand_length d (proj1 Hd)) as Hl. pose proof (cs_total_nonneg d (proj1 Hd)) as H0.
  destruct (Z.eq_dec (cs_total d) 0) as [Hz|Hz]; [exfalso|lia].
  destruct (nonneg_total_zero d (proj1 Hd) Hz) as (_ & He). destruct fn; [|congruence|]; unfold aggregate_one in Ha; rewrite He in Ha; discriminate.
Qed.

(* the corrections of one candidate: when the pinned code leaves a score, the repaired code gives the same dictionary *)
Lemma correct_scores_x_same rp cf d nv d3 : cs_okd d -> (sc_unscored cf = UNone \/ (cs_total d <= nv)%Z) -> (0 <= nv)%Z ->
  correct_scores cf d nv = inl d3 -> (1 <= cs_total d3)%Z -> correct_scores_x rp cf d nv = inl d3.
Proof.
  intros Hd Hb Hnv Hc HT. rewrite <- Hc. rewrite correct_scores_unfold in Hc. rewrite correct_scores_x_unfold, correct_scores_unfold.
  destruct (cs_total d <? sc_min_count cf)%Z eqn:Em; [reflexivity|].
  destruct (unscored_fill cf d nv) as [d1|e] eqn:E1; [|reflexivity].
  destruct (Qle_bool (sc_trunc cf) 0) eqn:Et; [reflexivity|]. cbv zeta.
  destruct (rp_trunc rp); [|reflexivity].
  assert (Hd1 : cs_okd d1).
  { apply (correct_scores_okd {| sc_fn := sc_fn cf; sc_unscored := sc_unscored cf; sc_min_count := sc_min_count cf; sc_trunc := 0%Q; sc_bottom := sc_bottom cf |} d nv d1 Hd Hb).
    rewrite correct_scores_unfold. cbn [sc_min_count sc_trunc]. rewrite Em.
    unfold unscored_fill in *. cbn [sc_unscored]. rewrite E1. reflexivity. }
  assert (Hc0 : (0 <= trunc_cutoff cf d nv)%Z).
  { assert (Hpos : (0 < sc_trunc cf)%Q) by (apply Qnot_le_lt; intros H; apply Qle_bool_iff in H; congruence).
    assert (Hfl : forall x, (0 <= x)%Q -> (0 <= Qfloor x)%Z) by (intros x Hx; exact (Qfloor_resp_le 0 x Hx)).
    unfold trunc_cutoff. destruct (Qle_bool 1 (sc_trunc cf)); apply Hfl; [apply Qlt_le_weak, Hpos|].
    apply Qmult_le_0_compat; [|apply Qlt_le_weak, Hpos].
    pose proof (cs_total_nonneg d (proj1 Hd)) as Htot.
    destruct (nv =? 0)%Z; change 0%Q with (inject_Z 0); rewrite <- Zle_Qle; assumption. }
  destruct (truncation_total d1 (trunc_cutoff cf d nv) Hd1 Hc0) as (d2 & d3' & E2 & E3 & Htot).
  rewrite E2, E3 in Hc. injection Hc as <-.
  destruct (mid_cutoff_bounds (trunc_cutoff cf d nv) (cs_total d1)) as (_ & _ & Hmid). rewrite (Hmid Hc0 ltac:(lia)). reflexivity.
Qed.

Lemma corrected_scores_x_same rp cf votes sc : profile_ok votes -> corrected_scores cf votes = inl sc ->
  (forall cd, In cd sc -> (1 <= cs_total (snd cd))%Z) -> corrected_scores_x rp cf votes = inl sc.
Proof.
  intros Hv Hsc Hheld. unfold corrected_scores_x, corrected_scores in *. cbv zeta in *.
  set (nv := fold_left Z.add (map snd votes) 0%Z) in *.
  assert (Hnv : (0 <= nv)%Z).
  { unfold nv. clear -Hv. assert (G : forall (l : sprofile) a, (forall bn, In bn l -> (0 <= snd bn)%Z) -> (0 <= a)%Z -> (0 <= fold_left Z.add (map snd l) a)%Z).
    { induction l as [|bn l IHl]; intros a Hl Ha; [exact Ha|]. cbn [map fold_left]. apply IHl; [intros b Hb; apply Hl; right; exact Hb|].
      pose proof (Hl bn (or_introl eq_refl)). lia. }
    apply G; [intros bn Hbn; exact (proj1 (Hv bn Hbn))|lia]. }
  revert sc Hsc Hheld. generalize (raw_scores_okd votes (fun bn H => proj1 (Hv bn H))) (raw_scores_bound votes Hv).
  fold nv. generalize (raw_scores votes) as raw. induction raw as [|[c d] raw IHr]; intros Hokd Hbound sc Hsc Hheld; [exact Hsc|].
  cbn [map sequence fst snd] in Hsc |- *.
  destruct (correct_scores cf d nv) as [d3|e] eqn:Ec; [|discriminate].
  destruct (sequence (map (fun cd : C * cscores => (fst cd, correct_scores cf (snd cd) nv)) raw)) as [r|e] eqn:Er; [|discriminate].
  injection Hsc as <-.
  rewrite (correct_scores_x_same rp cf d nv d3 (Hokd (c, d) (or_introl eq_refl)) (or_intror (Hbound (c, d) (or_introl eq_refl))) Hnv Ec
             (Hheld (c, d3) (or_introl eq_refl))).
  rewrite (IHr (fun cd H => Hokd cd (or_intror H)) (fun cd H => Hbound cd (or_intror H)) r eq_refl (fun cd H => Hheld cd (or_intror H))).
  reflexivity.
Qed.

Lemma aggregate_holds fn sc agg : fn <> FSum -> Forall cs_ok sc -> aggregate fn sc = inl agg -> forall cd, In cd sc -> (1 <= cs_total (snd cd))%Z.
Proof.
  intros Hfn Hok Ha [c d] Hin. pose proof (aggregate_keys _ _ _ Ha) as Hk.
  assert (Hc : In c (map fst agg)) by (rewrite Hk; apply in_map_iff; exists (c, d); auto).
  clear Hk Hc. revert agg Ha. induction sc as [|cd0 sc IHs]; intros agg Ha; [destruct Hin|].
  rewrite aggregate_cons in Ha. destruct (aggregate_one fn (snd cd0)) as [y|] eqn:Ey; [|discriminate].
  destruct (aggregate fn sc) as [r|] eqn:Er; [|discriminate]. inversion Hok as [|? ? H0 Hok']; subst.
  destruct Hin as [->|Hin]; [exact (aggregate_one_holds fn d y Hfn H0 Ey)|exact (IHs Hok' Hin r eq_refl)].
Qed.

(* score voting by mean or low median: an answer of the pinned code is the answer of the repaired code (every repair) *)
Theorem score_voting_x_conservative rp cf votes n r : profile_ok votes -> sc_fn cf <> FSum ->
  score_voting cf votes n = inl r -> score_voting_x rp cf votes n = inl r.
Proof.
  intros Hv Hfn. unfold score_voting, score_voting_x, score_to_simple, score_to_simple_x.
  destruct (corrected_scores cf votes) as [sc|e] eqn:Esc; [|discriminate].
  pose proof (corrected_scores_ok cf votes sc Hv Esc) as Hok.
  destruct (aggregate (sc_fn cf) sc) as [agg|e] eqn:Ea; [|discriminate].
  rewrite (corrected_scores_x_same rp cf votes sc Hv Esc (aggregate_holds _ _ _ Hfn Hok Ea)), (aggregate_x_ok rp _ _ Hok), Ea.
  intros H. exact H.
Qed.

(* majority judgment, either rule *)
Theorem majority_judgment_x_conservative rp plus cf votes n r : profile_ok votes -> (1 <= n)%nat ->
  majority_judgment plus cf votes n = inl r -> majority_judgment_x rp plus cf votes n = inl r.
Proof.
  intros Hv Hn. unfold majority_judgment, majority_judgment_x.
  destruct (corrected_scores cf votes) as [sc|e] eqn:Esc; [|discriminate].
  pose proof (corrected_scores_ok cf votes sc Hv Esc) as Hok. pose proof (corrected_scores_nodup _ _ _ Esc) as Hnd.
  destruct (aggregate FMedianLow sc) as [med|e] eqn:Ea; [|discriminate].
  assert (Hfn : FMedianLow <> FSum) by discriminate.
  rewrite (corrected_scores_x_same rp cf votes sc Hv Esc (aggregate_holds _ _ _ Hfn Hok Ea)), (aggregate_x_ok rp _ _ Hok), Ea. cbv zeta.
  pose proof (aggregate_keys _ _ _ Ea) as Hkeys.
  assert (Hndm : NoDup (map fst med)) by (rewrite Hkeys; exact Hnd).
  destruct (gnb_cases med n Hn Hndm) as [(_ & Hplain & _)|(above & level & below & thr & k & Hp & _ & _ & _ & Hbest & Hlenb & Hk)].
  - rewrite (last_tie_plain _ Hplain). intros H. exact H.
  - rewrite Hbest, last_tie_app, count_tie_app.
    fold (mj_level sc (map fst level)). set (sub := mj_level sc (map fst level)).
    assert (Hwf : mj_wf sub) by (split; [apply filter_keys_NoDup_gen, Hnd|apply filter_ok, Hok]).
    destruct plus.
    + assert (Hpl : mj_plus_x rp sub (S k) = mj_plus sub (S k)).
      { unfold mj_plus_x, mj_plus. destruct sub as [|[c0 d0] sub0]; [reflexivity|]. destruct Hwf as (_ & Hok0). inversion Hok0 as [|? ? H0 _]; subst.
        unfold aggregate_one_x. destruct (rp_counted rp); [rewrite (okd_counted _ d0 H0)|]; reflexivity. }
      rewrite Hpl. intros H. exact H.
    + destruct (perm_parts _ _ _ _ Hndm Hp) as (_ & Hndl & Hlv).
      assert (Hge : (length level <= length sub)%nat).
      { apply keys_incl_length; [exact Hndl|]. intros c Hc0. destruct (Hlv c Hc0) as (Hmm & _).
        rewrite Hkeys in Hmm. apply in_map_iff in Hmm. destruct Hmm as ([c0 d] & Hc1 & Hd). cbn [fst] in Hc1. subst c0.
        apply in_map_iff. exists (c, d). split; [reflexivity|]. unfold sub, mj_level. apply filter_In. split; [exact Hd|].
        cbn [fst]. apply cmem_In, Hc0. }
      match goal with |- context [mj_default ?F sub (S k)] => set (fuel := F) end.
      destruct (mj_default fuel sub (S k)) as [r'|e] eqn:Er; [|discriminate].
      rewrite (mj_default_x_conservative rp fuel sub (S k) Hwf ltac:(lia)); [rewrite Er; intros H; exact H|rewrite Er; discriminate].
Qed.

(* ================================================================ the fuel of the evaluator is enough *)
(* the number of scores held by the candidates of the contest goes down in every pass of the repaired loop *)
Definition stot (sub : list (C * cscores)) : Z := fold_left Z.add (map (fun cd : C * cscores => cs_total (snd cd)) sub) 0%Z.

Lemma stot_cons cd sub : stot (cd :: sub) = (cs_total (snd cd) + stot sub)%Z.
Proof. unfold stot. cbn [map fold_left]. rewrite fold_add_shift. lia. Qed.

Lemma ok_total_nonneg cd : cs_ok cd -> (0 <= cs_total (snd cd))%Z.
Proof. intros (Hn & _). apply cs_total_nonneg, Hn. Qed.

Lemma stot_nonneg sub : Forall cs_ok sub -> (0 <= stot sub)%Z.
Proof. induction 1 as [|cd sub Hcd _ IH]; [unfold stot; cbn; lia|]. rewrite stot_cons. pose proof (ok_total_nonneg cd Hcd). lia. Qed.

Lemma stot_filter_le (f : C * cscores -> bool) sub : Forall cs_ok sub -> (stot (filter f sub) <= stot sub)%Z.
Proof.
  induction 1 as [|cd sub Hcd _ IH]; [cbn; lia|]. cbn [filter]. pose proof (ok_total_nonneg cd Hcd).
  destruct (f cd); rewrite !stot_cons; lia.
Qed.

Lemma stot_filter_drop (f : C * cscores -> bool) sub cd : Forall cs_ok sub -> In cd sub -> f cd = false ->
  (stot (filter f sub) + cs_total (snd cd) <= stot sub)%Z.
Proof.
  induction 1 as [|cd0 sub Hcd Hsub IH]; intros Hin Hf; [destruct Hin|]. cbn [filter]. pose proof (ok_total_nonneg cd0 Hcd).
  destruct Hin as [->|Hin].
  - rewrite Hf, stot_cons. pose proof (stot_filter_le f sub Hsub). lia.
  - specialize (IH Hin Hf). destruct (f cd0); rewrite !stot_cons; lia.
Qed.

Lemma stot_live sub : stot (mj_live sub) = stot sub.
Proof.
  unfold mj_live. induction sub as [|cd sub IH]; [reflexivity|]. cbn [filter]. destruct (cs_total (snd cd) =? 0)%Z eqn:E; cbn [negb].
  - apply Z.eqb_eq in E. rewrite stot_cons, IH. lia.
  - rewrite !stot_cons, IH. reflexivity.
Qed.

Lemma stot_remove sub medians ch : stot (mj_remove sub medians ch) = (stot sub - ch * Z.of_nat (length sub))%Z.
Proof.
  unfold mj_remove. induction sub as [|cd sub IH]; [unfold stot; cbn; lia|]. cbn [map]. rewrite !stot_cons, IH. cbn [snd length].
  rewrite cs_total_set, Nat2Z.inj_succ. lia.
Qed.

Lemma get_n_best_zero (medians : list (C * Q)) : get_n_best Qle_bool medians 0 = [].
Proof.
  unfold get_n_best. destruct (sort_desc Qle_bool medians) as [|[c1 thr] s]; [reflexivity|].
  cbn [length Nat.ltb Nat.leb Nat.sub nth_error]. unfold eqv. rewrite Scale2Dup_proofs.Qle_bool_refl. cbn [andb first_eq_index snd].
  unfold eqv. rewrite Scale2Dup_proofs.Qle_bool_refl. reflexivity.
Qed.

Theorem mj_default_x_fuel rp : rp_mj rp = true -> forall fuel sub n, mj_wf sub -> (Z.to_nat (stot sub) < fuel)%nat ->
  mj_default_x rp fuel sub n <> inr SE_fuel.
Proof.
  intros Hrp. induction fuel as [|f IH]; intros sub0 n Hwf0 Hfuel; [lia|].
  rewrite (mj_default_x_unfold rp f sub0 n Hrp).
  destruct (fold_left Z.max (map (fun cd : C * cscores => cs_total (snd cd)) sub0) 0%Z <=? 0)%Z; [discriminate|].
  destruct (Nat.ltb (length (mj_live sub0)) n); [discriminate|].
  pose proof (mj_wf_live sub0 Hwf0) as Hwf. pose proof (stot_live sub0) as Hsl. set (sub := mj_live sub0) in *. destruct Hwf as (Hnd & Hok).
  rewrite (aggregate_x_ok rp _ _ Hok).
  destruct (aggregate FMedianLow sub) as [medians|e] eqn:Ea.
  2:{ destruct (mj_live_medians sub0 (proj2 Hwf0)) as (m' & Em). fold sub in Em. congruence. }
  cbv zeta. pose proof (aggregate_keys _ _ _ Ea) as Hkeys. pose proof (stot_nonneg sub Hok) as Hs0.
  assert (Hndm : NoDup (map fst medians)) by (rewrite Hkeys; exact Hnd).
  destruct n as [|n'].
  { rewrite get_n_best_zero. discriminate. }
  destruct (gnb_cases medians (S n') (le_n_S _ _ (Nat.le_0_l n')) Hndm) as [(Hct & _)|(above & level & below & thr & k & Hp & _ & _ & _ & Hbest & Hlenb & Hk)].
  - rewrite Hct. discriminate.
  - rewrite Hbest, count_tie_app, filter_cand_app, map_length. cbn [Nat.eqb].
    destruct (perm_parts _ _ _ _ Hndm Hp) as (Hnda & Hndl & Hlv).
    assert (Hcase : above = [] \/ (0 <? length above)%nat = true) by (destruct above; [left; reflexivity|right; reflexivity]).
    destruct Hcase as [->|Hpos].
    + (* a shared lead: at least one score leaves each of the level candidates *)
      cbn [length Nat.ltb Nat.leb map app repeat].
      pose proof (mj_wf_round sub medians (map fst level) (conj Hnd Hok) Ea) as Hwf'.
      apply IH; [exact Hwf'|].
      unfold mj_round. rewrite stot_remove. pose proof (mj_ch_pos (mj_level sub (map fst level)) medians) as Hch.
      pose proof (stot_filter_le (fun cd : C * cscores => cmem (fst cd) (map fst level)) sub Hok) as Hle. fold (mj_level sub (map fst level)) in Hle.
      assert (Hge : (length level <= length (mj_level sub (map fst level)))%nat).
      { apply keys_incl_length; [exact Hndl|]. intros c Hc. destruct (Hlv c Hc) as (Hm & _).
        rewrite Hkeys in Hm. apply in_map_iff in Hm. destruct Hm as ([c0 d] & Hc0 & Hd). cbn [fst] in Hc0. subst c0.
        apply in_map_iff. exists (c, d). split; [reflexivity|]. unfold mj_level. apply filter_In. split; [exact Hd|].
        cbn [fst]. apply cmem_In, Hc. }
      assert (Hl1 : (1 <= Z.of_nat (length (mj_level sub (map fst level))))%Z) by lia.
      assert (Hs1 : (1 <= stot sub)%Z).
      { destruct (mj_level sub (map fst level)) as [|cd l] eqn:El; [cbn [length] in Hl1; lia|].
        assert (Hin : In cd sub).
        { assert (H : In cd (mj_level sub (map fst level))) by (rewrite El; left; reflexivity). unfold mj_level in H. apply filter_In in H. tauto. }
        pose proof (stot_filter_drop (fun _ => false) sub cd Hok Hin eq_refl) as Hd.
        assert (Hnil : filter (fun _ : C * cscores => false) sub = []) by (clear; induction sub as [|x l IHl]; [reflexivity|exact IHl]).
        rewrite Hnil in Hd. change (stot []) with 0%Z in Hd.
        pose proof (proj1 (mj_live_in cd sub0) Hin) as (_ & Hnz). rewrite Forall_forall in Hok. pose proof (ok_total_nonneg _ (Hok _ Hin)). lia. }
      assert (Hdec : (stot (mj_level sub (map fst level)) - mj_ch (mj_level sub (map fst level)) medians * Z.of_nat (length (mj_level sub (map fst level))) <= stot sub - 1)%Z) by nia.
      lia.
    + (* at least one candidate is seated outright and leaves the contest with its scores *)
      rewrite Hpos.
      assert (Hfn : firstn (length above) (map cand_of above ++ repeat (TieR (map fst level)) (S k)) = map cand_of above).
      { rewrite <- (map_length (@cand_of C Q) above), firstn_app, firstn_all, Nat.sub_diag, firstn_O, app_nil_r. reflexivity. }
      rewrite Hfn, cands_of_map.
      set (sub' := filter (fun cd : C * cscores => negb (cmem (fst cd) (map fst above))) sub).
      assert (Hlt : (stot sub' < stot sub)%Z).
      { destruct above as [|[c0 v0] above']; [cbn in Hpos; discriminate|].
        assert (Hc0 : In c0 (map fst sub)).
        { rewrite <- Hkeys. apply in_map_iff. exists (c0, v0). split; [reflexivity|]. eapply Permutation_in; [exact Hp|]. left. reflexivity. }
        apply in_map_iff in Hc0. destruct Hc0 as ([c1 d0] & Hc1 & Hd0). cbn [fst] in Hc1. subst c1.
        assert (Hdrop : negb (cmem (fst (c0, d0)) (map fst ((c0, v0) :: above'))) = false).
        { apply negb_false_iff, cmem_In. left. reflexivity. }
        pose proof (stot_filter_drop (fun cd : C * cscores => negb (cmem (fst cd) (map fst ((c0, v0) :: above')))) sub (c0, d0) Hok Hd0 Hdrop) as Hd.
        fold sub' in Hd. cbn [snd] in Hd.
        pose proof (proj1 (mj_live_in (c0, d0) sub0) Hd0) as (_ & Hnz). rewrite Forall_forall in Hok. pose proof (ok_total_nonneg _ (Hok _ Hd0)) as H0.
        cbn [snd] in *. lia. }
      pose proof (mj_wf_filter (fun cd : C * cscores => negb (cmem (fst cd) (map fst above))) sub (conj Hnd Hok)) as Hwf'. fold sub' in Hwf'.
      pose proof (stot_nonneg sub' (proj2 Hwf')) as Hs'.
      pose proof (IH sub' (S n' - length above)%nat Hwf' ltac:(lia)) as Hrec.
      destruct (mj_default_x rp f sub' (S n' - length above)) as [r|e]; [discriminate|]. intros [= ->]. apply Hrec. reflexivity.
Qed.

(* with the fuel the evaluator hands over (number of scores of the level candidates + 2) the loop ends by itself *)
Theorem majority_judgment_x_answers_or_refuses rp plus cf votes n : rp_trunc rp = true -> rp_mj rp = true -> (1 <= n)%nat ->
  profile_pos votes ->
  match majority_judgment_x rp plus cf votes n with inl _ => True | inr e => e = SE_vse end.
Proof.
  intros Hrt Hrp Hn Hv. pose proof (majority_judgment_x_no_crash rp plus cf votes n Hrt Hrp Hn Hv) as H.
  destruct (majority_judgment_x rp plus cf votes n) as [r|e] eqn:E; [exact I|].
  destruct H as [H|H]; [exact H|exfalso]. subst e. revert E. unfold majority_judgment_x.
  destruct (corrected_scores_x_held rp cf votes Hrt Hv) as (sc & Hsc & Hheld). rewrite Hsc.
  assert (Hok : Forall cs_ok sc) by (apply Forall_forall; intros cd Hcd; exact (proj1 (Hheld cd Hcd))).
  pose proof (corrected_scores_x_nodup _ _ _ _ Hsc) as Hnd.
  rewrite (aggregate_x_ok rp _ _ Hok).
  destruct (aggregate_total sc) as (med & Ea).
  { intros cd Hcd. destruct (Hheld cd Hcd). apply aggregate_one_total; assumption. }
  rewrite Ea. cbv zeta.
  destruct (last_tie (get_n_best Qle_bool med n)) as [tied|]; [|discriminate].
  set (sub := filter (fun cd : C * cscores => cmem (fst cd) tied) sc).
  assert (Hwf : mj_wf sub) by (split; [apply filter_keys_NoDup_gen, Hnd|apply filter_ok, Hok]).
  destruct plus.
  - unfold mj_plus_x. destruct sub as [|[c0 d0] sub'] eqn:Es; [discriminate|].
    assert (Hd0 : held (c0, d0)).
    { apply Hheld. assert (H : In (c0, d0) sub) by (rewrite Es; left; reflexivity). unfold sub in H. apply filter_In in H. tauto. }
    destruct (aggregate_one_x_total rp FMedianLow d0 (proj1 Hd0) (proj2 Hd0)) as (v & ->). discriminate.
  - fold (stot sub). pose proof (mj_default_x_fuel rp Hrp (Z.to_nat (stot sub) + 2) sub (count_tie (get_n_best Qle_bool med n)) Hwf ltac:(lia)) as Hf.
    destruct (mj_default_x rp (Z.to_nat (stot sub) + 2) sub (count_tie (get_n_best Qle_bool med n))) as [r|e]; [discriminate|].
    intros [= ->]. apply Hf. reflexivity.
Qed.
