(* C10, ballot order: ProportionalApproval and SequentialProportionalApproval (Model/Cardinal.v) return the SAME answer
   (equality, incl. the refusals) whatever the insertion order of the approval profile.
   PAV: the satisfaction of an alternative is a sum over the ballots (== under permutation), so the set of maximisers,
   the refusal when it is not a singleton and the order of the satisfaction drops are unchanged; the candidate list
   is the canonical sorted list of the same set.
   SPAV: each round's tally is a dictionary with the same keys and == values in another insertion order; its unique
   leader (or the tie / exhaustion) is the same. *)
From Coq Require Import ZArith QArith Qreduction List Bool Arith Lia Lqa Permutation Sorted Setoid.
From VL Require Import Prelude.PyDict Model.GetNBest Model.Convert Model.Cardinal Proofs.Dict_proofs Proofs.GetNBest_proofs Proofs.QOrd
     Proofs.LRScale_proofs Proofs.STVScale_proofs Proofs.Scale2PAV_proofs Proofs.JR_proofs Proofs.QDOrder_proofs
     Proofs.Cardinal_proofs Proofs.Shape2_proofs Proofs.PAVRename_proofs.
Import ListNotations.
Open Scope Q_scope.

(* ------------------------------------------------------------------ sums over permuted lists *)
Lemma qsum_fold_resp {A} (g : A -> Q) l : forall a a', a == a' ->
  fold_left (fun acc x => acc + g x) l a == fold_left (fun acc x => acc + g x) l a'.
Proof. induction l as [|x l IH]; intros a a' H; simpl; [exact H|]. apply IH. rewrite H. reflexivity. Qed.

Lemma qsum_fold_perm {A} (g : A -> Q) l l' : Permutation l l' -> forall a a', a == a' ->
  fold_left (fun acc x => acc + g x) l a == fold_left (fun acc x => acc + g x) l' a'.
Proof.
  induction 1 as [|x l l' _ IH|x y l|l l' l'' _ IH1 _ IH2]; intros a a' H; simpl.
  - exact H.
  - apply IH. rewrite H. reflexivity.
  - apply qsum_fold_resp. rewrite H. ring.
  - rewrite (IH1 a a' H). apply IH2. reflexivity.
Qed.

Lemma satisfaction_votes_perm votes votes' alt : Permutation votes votes' -> satisfaction votes alt == satisfaction votes' alt.
Proof.
  intros H. unfold satisfaction.
  apply (qsum_fold_perm (fun bw : list C * Q => harmonic (inter_size (fst bw) alt) * snd bw) votes votes' H 0 0). reflexivity.
Qed.

(* ------------------------------------------------------------------ PAV *)
Lemma lt01 : 0 < 1.
Proof. reflexivity. Qed.
Lemma qsc1 a a' : a == a' -> qsc 1 a a'.
Proof. intros H. unfold qsc. rewrite H. ring. Qed.

Lemma Forall2_map_same {A B D} (P : B -> D -> Prop) (g : A -> B) (g' : A -> D) l : (forall x, P (g x) (g' x)) -> Forall2 P (map g l) (map g' l).
Proof. intros H. induction l; cbn [map]; constructor; auto. Qed.

Lemma pav_best_order votes votes' cands n : Permutation votes votes' -> pav_best votes' cands n = pav_best votes cands n.
Proof.
  intros H. unfold pav_best. cbv zeta.
  assert (Hs : screl 1 (map (fun a => (a, satisfaction votes a)) (combos cands n)) (map (fun a => (a, satisfaction votes' a)) (combos cands n))).
  { apply Forall2_map_same. intros a. split; [reflexivity|]. cbn [snd]. apply qsc1, satisfaction_votes_perm, H. }
  destruct Hs as [|[a s] [a' s'] l l' Hy Hl]; [reflexivity|].
  assert (Hyl : screl 1 ((a, s) :: l) ((a', s') :: l')) by (constructor; assumption).
  apply (filter_best_rel 1 lt01); [|exact Hyl]. apply (fold_best_rel 1 lt01); [exact Hyl|exact (proj2 Hy)].
Qed.

Theorem pav_on_order votes votes' cands n : Permutation votes votes' -> pav_on votes' cands n = pav_on votes cands n.
Proof.
  intros H. unfold pav_on. rewrite (pav_best_order votes votes' cands n H).
  destruct (pav_best votes cands n) as [|alt [|? ?]]; try reflexivity. f_equal.
  apply (get_n_best_rel Qle_bool Qle_bool (qsc 1) (qsc_le 1 lt01)). unfold drops.
  apply Forall2_map_same. intros c. split; [reflexivity|]. cbn [snd]. apply qsc1.
  rewrite (satisfaction_votes_perm votes votes' _ H). reflexivity.
Qed.

(* the canonical list of a set does not depend on the order in which the set is given *)
Lemma sorted_lt_unique (a : list C) : forall b, StronglySorted Pos.lt a -> StronglySorted Pos.lt b -> (forall x, In x a <-> In x b) -> a = b.
Proof.
  induction a as [|x a IH]; intros [|y b] Ha Hb Hin.
  - reflexivity.
  - exfalso. apply (proj2 (Hin y)). left. reflexivity.
  - exfalso. apply (proj1 (Hin x)). left. reflexivity.
  - inversion Ha as [|? ? Sa Fa]; subst. inversion Hb as [|? ? Sb Fb]; subst. rewrite Forall_forall in Fa, Fb.
    assert (E : x = y).
    { destruct (proj1 (Hin x) (or_introl eq_refl)) as [E|Hx]; [symmetry; exact E|].
      destruct (proj2 (Hin y) (or_introl eq_refl)) as [E|Hy]; [exact E|].
      specialize (Fa _ Hy). specialize (Fb _ Hx). lia. }
    subst y. f_equal. apply IH; [exact Sa|exact Sb|]. intros z. split; intros Hz.
    + destruct (proj1 (Hin z) (or_intror Hz)) as [E|H]; [|exact H]. subst z. specialize (Fa _ Hz). lia.
    + destruct (proj2 (Hin z) (or_intror Hz)) as [E|H]; [|exact H]. subst z. specialize (Fb _ Hz). lia.
Qed.

Lemma canon_set_sorted l : StronglySorted Pos.lt (canon_set l).
Proof.
  unfold canon_set.
  assert (H : forall l acc, StronglySorted Pos.lt acc -> StronglySorted Pos.lt (fold_left (fun s c => insert_c c s) l acc)).
  { clear l. induction l as [|c l IH]; intros acc Hacc; cbn [fold_left]; [exact Hacc|]. apply IH, insert_c_sorted, Hacc. }
  apply H. constructor.
Qed.

Lemma canon_set_perm l l' : Permutation l l' -> canon_set l = canon_set l'.
Proof.
  intros H. apply sorted_lt_unique; [apply canon_set_sorted|apply canon_set_sorted|].
  intros x. rewrite (proj2 (canon_set_spec l) x), (proj2 (canon_set_spec l') x). split; intros Hx.
  - apply (Permutation_in _ H Hx).
  - apply (Permutation_in _ (Permutation_sym H) Hx).
Qed.

Theorem pav_order votes votes' n : Permutation votes votes' -> pav votes' n = pav votes n.
Proof.
  intros H. rewrite !pav_on_canon. rewrite (canon_set_perm (flat_map fst votes') (flat_map fst votes)).
  - apply pav_on_order, H.
  - apply Permutation_flat_map, Permutation_sym, H.
Qed.

(* ------------------------------------------------------------------ SPAV: the round tally as a sum over the ballots *)
Fixpoint csum (c' : C) (b : list C) (x : Q) : Q :=
  match b with [] => 0 | c :: t => (if ceqb c' c then x else 0) + csum c' t x end.

Lemma inner_get (c' : C) (x : Q) b : forall d : list (C * Q),
  dget_or (fold_left (fun d c => dset d c (dget_or d c 0 + x)) b d) c' 0 == dget_or d c' 0 + csum c' b x.
Proof.
  induction b as [|c t IH]; intros d; cbn [fold_left csum]; [ring|].
  rewrite IH, dget_or_dset. destruct (ceqb c' c) eqn:E; [|ring]. apply ceqb_eq in E. subst c'. ring.
Qed.

Definition wshare (elected : list C) (bw : list C * Q) : Q := snd bw / inject_Z (Z.of_nat (S (inter_size (fst bw) elected))).
Fixpoint vsum (elected : list C) (c' : C) (votes : aprofile) : Q :=
  match votes with [] => 0 | bw :: t => csum c' (fst bw) (wshare elected bw) + vsum elected c' t end.

Definition spav_all (votes : aprofile) (elected : list C) (d : list (C * Q)) : list (C * Q) :=
  fold_left (fun d bw =>
      let k := inter_size (fst bw) elected in
      fold_left (fun d c => dset d c (dget_or d c 0 + snd bw / inject_Z (Z.of_nat (S k)))) (fst bw) d) votes d.

Lemma spav_round_all votes elected : spav_round votes elected = filter (fun cv => negb (cmem (fst cv) elected)) (spav_all votes elected []).
Proof. reflexivity. Qed.

Lemma outer_get elected c' votes : forall d, dget_or (spav_all votes elected d) c' 0 == dget_or d c' 0 + vsum elected c' votes.
Proof.
  unfold spav_all. induction votes as [|bw t IH]; intros d; cbn [fold_left vsum]; [ring|].
  rewrite IH. cbv zeta. rewrite (inner_get c' (snd bw / inject_Z (Z.of_nat (S (inter_size (fst bw) elected)))) (fst bw) d).
  unfold wshare. ring.
Qed.

Lemma vsum_perm elected c' votes votes' : Permutation votes votes' -> vsum elected c' votes == vsum elected c' votes'.
Proof.
  induction 1 as [|x l l' _ IH|x y l|l l' l'' _ IH1 _ IH2]; cbn [vsum].
  - reflexivity.
  - rewrite IH. reflexivity.
  - ring.
  - rewrite IH1. exact IH2.
Qed.

Lemma dget_filter_keys {X} (P : C -> bool) (d : list (C * X)) c :
  dget (filter (fun cv => P (fst cv)) d) c = if P c then dget d c else None.
Proof.
  induction d as [|[k v] d IH]; cbn [filter dget fst]; [destruct (P c); reflexivity|].
  destruct (P k) eqn:Ek; cbn [dget].
  - destruct (ceqb c k) eqn:E; [apply ceqb_eq in E; subst k; rewrite Ek; reflexivity|exact IH].
  - destruct (ceqb c k) eqn:E; [apply ceqb_eq in E; subst k; rewrite IH, Ek; reflexivity|exact IH].
Qed.

Lemma spav_round_get votes elected c :
  dget_or (spav_round votes elected) c 0 == if cmem c elected then 0 else vsum elected c votes.
Proof.
  rewrite spav_round_all. unfold dget_or at 1. rewrite (dget_filter_keys (fun k => negb (cmem k elected))).
  destruct (cmem c elected); cbn [negb]; [reflexivity|].
  pose proof (outer_get elected c votes []) as H. unfold dget_or at 1 2 in H. cbn [dget] in H. rewrite H. ring.
Qed.

(* ------------------------------------------------------------------ the leader of two dictionaries with the same content up to == *)
Definition nrm (d : list (C * Q)) : list (C * Q) := map (fun cv => (fst cv, Qred (snd cv))) d.

Lemma gnb_nrm d n : get_n_best Qle_bool (nrm d) n = get_n_best Qle_bool d n.
Proof.
  apply (get_n_best_rel Qle_bool Qle_bool Qeq (fun a a' b b' Ha Hb => Qle_bool_Qeq a a' b b' (Qeq_sym _ _ Ha) (Qeq_sym _ _ Hb))).
  unfold nrm. induction d as [|[c v] d IH]; cbn [map]; constructor; [|exact IH].
  split; [reflexivity|]. cbn [snd]. symmetry. apply Qred_correct.
Qed.
Lemma nrm_keys d : map fst (nrm d) = map fst d.
Proof. unfold nrm. rewrite map_map. reflexivity. Qed.

Lemma In_dget_or (d : list (C * Q)) c v : NoDup (map fst d) -> In (c, v) d -> dget_or d c 0 = v.
Proof. intros Hn Hi. unfold dget_or. rewrite (In_dget d c v Hn Hi). reflexivity. Qed.

Lemma nrm_perm d d' : NoDup (map fst d) -> NoDup (map fst d') -> (forall c, In c (map fst d) <-> In c (map fst d')) ->
  (forall c, dget_or d c 0 == dget_or d' c 0) -> Permutation (nrm d) (nrm d').
Proof.
  intros Hn Hn' Hk Hv.
  assert (Half : forall e e' : list (C * Q), NoDup (map fst e) -> NoDup (map fst e') -> (forall c, In c (map fst e) -> In c (map fst e')) ->
            (forall c, dget_or e c 0 == dget_or e' c 0) -> forall x, In x (nrm e) -> In x (nrm e')).
  { intros e e' Ne Ne' Ke Ve [c q] Hx. unfold nrm in Hx. apply in_map_iff in Hx. destruct Hx as ([c0 v] & E & Hi). cbn [fst snd] in E.
    injection E as -> <-. assert (Hc : In c (map fst e')) by (apply Ke; apply in_map_iff; exists (c, v); split; [reflexivity|exact Hi]).
    apply in_map_iff in Hc. destruct Hc as ([c1 v'] & E1 & Hi'). cbn [fst] in E1. subst c1.
    unfold nrm. apply in_map_iff. exists (c, v'). split; [|exact Hi']. cbn [fst snd]. f_equal.
    apply Qred_complete. rewrite <- (In_dget_or e c v Ne Hi), <- (In_dget_or e' c v' Ne' Hi'). symmetry. apply Ve. }
  apply NoDup_Permutation.
  - apply (NoDup_map_inv fst). rewrite nrm_keys. exact Hn.
  - apply (NoDup_map_inv fst). rewrite nrm_keys. exact Hn'.
  - intros x. split.
    + apply Half; try assumption. intros c. apply Hk.
    + apply Half; try assumption; [intros c; apply Hk|intros c; symmetry; apply Hv].
Qed.

Definition head_rel (r r' : list (res C)) : Prop :=
  match r, r' with
  | [], [] => True
  | Cand c :: _, Cand c' :: _ => c = c'
  | TieR _ :: _, TieR _ :: _ => True
  | _, _ => False
  end.

Lemma gnb1_deq d d' : NoDup (map fst d) -> NoDup (map fst d') -> (forall c, In c (map fst d) <-> In c (map fst d')) ->
  (forall c, dget_or d c 0 == dget_or d' c 0) -> head_rel (get_n_best Qle_bool d 1) (get_n_best Qle_bool d' 1).
Proof.
  intros Hn Hn' Hk Hv. rewrite <- (gnb_nrm d 1), <- (gnb_nrm d' 1).
  assert (Nn : NoDup (map fst (nrm d))) by (rewrite nrm_keys; exact Hn).
  assert (Nn' : NoDup (map fst (nrm d'))) by (rewrite nrm_keys; exact Hn').
  destruct (gnb_perm_shape (nrm d) (nrm d') 1%nat (le_n 1) Nn (nrm_perm d d' Hn Hn' Hk Hv)) as (cs & cs' & T & T' & k & E & E' & Pcs & _ & _).
  pose proof (gnb_len1 (nrm d) Nn) as L. pose proof (gnb_len1 (nrm d') Nn') as L'.
  rewrite E in *. rewrite E' in *. rewrite app_length, map_length, repeat_length in L, L'.
  destruct cs as [|c [|c2 cs]].
  - apply Permutation_nil in Pcs. subst cs'. destruct k as [|k]; exact I.
  - apply Permutation_length_1_inv in Pcs. subst cs'. reflexivity.
  - cbn [length] in L. lia.
Qed.

Lemma spav_round_head votes votes' elected : Permutation votes votes' ->
  head_rel (get_n_best Qle_bool (spav_round votes elected) 1) (get_n_best Qle_bool (spav_round votes' elected) 1).
Proof.
  intros H. apply gnb1_deq; [apply spav_round_nodup|apply spav_round_nodup| |].
  - intros c. rewrite !spav_round_keys. split; intros [H1 H2]; (split; [|exact H2]).
    + apply (Permutation_in _ (Permutation_flat_map fst H) H1).
    + apply (Permutation_in _ (Permutation_sym (Permutation_flat_map fst H)) H1).
  - intros c. rewrite !spav_round_get. destruct (cmem c elected); [reflexivity|]. apply vsum_perm, H.
Qed.

Lemma spav_loop_order votes votes' n : Permutation votes votes' -> forall fuel elected,
  spav_loop fuel votes' n elected = spav_loop fuel votes n elected.
Proof.
  intros H. induction fuel as [|fu IH]; intros elected; [reflexivity|]. cbn [spav_loop].
  destruct (Nat.leb n (length elected)); [reflexivity|].
  pose proof (spav_round_head votes votes' elected H) as Hh.
  destruct (get_n_best Qle_bool (spav_round votes elected) 1) as [|[c|t] r], (get_n_best Qle_bool (spav_round votes' elected) 1) as [|[c'|t'] r'];
    cbn [head_rel] in Hh; try contradiction; try reflexivity.
  subst c'. apply IH.
Qed.

Theorem spav_order votes votes' n : Permutation votes votes' -> spav votes' n = spav votes n.
Proof. intros H. unfold spav. apply spav_loop_order, H. Qed.
