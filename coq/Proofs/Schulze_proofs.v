(* Schulze (Model/Condorcet.v: widest_paths, schulze), for every iteration order of the candidate set:
   - scale invariance (C11): the Floyd-Warshall run over k * v is k * (the run over v);
   - the Condorcet winner is elected alone (C05), nobody is dropped with as many seats as candidates (C05);
   - the computed table is the table of strongest beat-paths (C05: "agrees with its defining computation");
   - monotonicity (C17) is REFUTED for the ranking by the number of path-wins: witness below. *)
From Coq Require Import ZArith List Bool Lia Arith Permutation.
From VL Require Import Prelude.PyDict Model.GetNBest Model.Condorcet Proofs.Dict_proofs Proofs.GetNBest_proofs
     Proofs.Condorcet_proofs Proofs.CopelandMono_proofs Proofs.Scale_proofs.
Import ListNotations.
Open Scope Z_scope.

(* ---------------------------------------------------------------- the loop, named *)
Definition wp_init (v : pvotes) : pvotes := filter (fun pn => pget0 v (swap (fst pn)) <? snd pn) v.

Definition wp_upd (paths : pvotes) (c1 c2 ca : C) : pvotes :=
  pset paths (c2, ca) (Z.max (pget0 paths (c2, ca)) (Z.min (pget0 paths (c2, c1)) (pget0 paths (c1, ca)))).

Definition wp_inner (c1 c2 : C) (paths : pvotes) (ca : C) : pvotes :=
  if ceqb ca c1 || ceqb ca c2 then paths else wp_upd paths c1 c2 ca.
Definition wp_mid (order : list C) (c1 : C) (paths : pvotes) (c2 : C) : pvotes :=
  if ceqb c1 c2 then paths else fold_left (wp_inner c1 c2) order paths.
Definition wp_outer (order : list C) (paths : pvotes) (c1 : C) : pvotes :=
  fold_left (wp_mid order c1) order paths.

Lemma widest_paths_unfold v order : widest_paths v order = fold_left (wp_outer order) order (wp_init v).
Proof. reflexivity. Qed.

Lemma fold_left_ind_in {A B} (I : A -> Prop) (f : A -> B -> A) (l : list B) :
  (forall a x, In x l -> I a -> I (f a x)) -> forall a, I a -> I (fold_left f l a).
Proof.
  induction l as [|x l IH]; intros H a Ha; simpl; [exact Ha|].
  apply IH; [intros a' y Hy; apply H; right; exact Hy|]. apply H; [left; reflexivity|exact Ha].
Qed.

Lemma fold_left_rel2 {A A' B} (R : A -> A' -> Prop) (f : A -> B -> A) (f' : A' -> B -> A') (l : list B) :
  (forall a a' x, In x l -> R a a' -> R (f a x) (f' a' x)) -> forall a a', R a a' -> R (fold_left f l a) (fold_left f' l a').
Proof.
  induction l as [|x l IH]; intros H a a' Ha; simpl; [exact Ha|].
  apply IH; [intros b b' y Hy; apply H; right; exact Hy|]. apply H; [left; reflexivity|exact Ha].
Qed.

(* induction over the three nested loops: an invariant of the initial table preserved by every single update *)
Lemma wp_ind (I : pvotes -> Prop) (v : pvotes) (order : list C) :
  I (wp_init v) ->
  (forall paths c1 c2 ca, In c1 order -> In c2 order -> In ca order -> c1 <> c2 -> ca <> c1 -> ca <> c2 ->
     I paths -> I (wp_upd paths c1 c2 ca)) ->
  I (widest_paths v order).
Proof.
  intros H0 Hs. rewrite widest_paths_unfold. apply fold_left_ind_in; [|exact H0].
  intros p1 c1 Hc1 Hp1. unfold wp_outer. apply fold_left_ind_in; [|exact Hp1].
  intros p2 c2 Hc2 Hp2. unfold wp_mid. destruct (ceqb c1 c2) eqn:E12; [exact Hp2|]. apply Pos.eqb_neq in E12.
  apply fold_left_ind_in; [|exact Hp2].
  intros p3 ca Hca Hp3. unfold wp_inner. destruct (ceqb ca c1) eqn:E1; [exact Hp3|]. destruct (ceqb ca c2) eqn:E2; [exact Hp3|].
  apply Pos.eqb_neq in E1. apply Pos.eqb_neq in E2. simpl. apply Hs; assumption.
Qed.

(* the same for two runs over the same order *)
Lemma wp_rel (R : pvotes -> pvotes -> Prop) (v v' : pvotes) (order : list C) :
  R (wp_init v) (wp_init v') ->
  (forall p p' c1 c2 ca, In c1 order -> In c2 order -> In ca order -> c1 <> c2 -> ca <> c1 -> ca <> c2 ->
     R p p' -> R (wp_upd p c1 c2 ca) (wp_upd p' c1 c2 ca)) ->
  R (widest_paths v order) (widest_paths v' order).
Proof.
  intros H0 Hs. rewrite !widest_paths_unfold. apply fold_left_rel2; [|exact H0].
  intros p1 p1' c1 Hc1 Hp1. unfold wp_outer. apply fold_left_rel2; [|exact Hp1].
  intros p2 p2' c2 Hc2 Hp2. unfold wp_mid. destruct (ceqb c1 c2) eqn:E12; [exact Hp2|]. apply Pos.eqb_neq in E12.
  apply fold_left_rel2; [|exact Hp2].
  intros p3 p3' ca Hca Hp3. unfold wp_inner. destruct (ceqb ca c1) eqn:E1; [exact Hp3|]. destruct (ceqb ca c2) eqn:E2; [exact Hp3|].
  apply Pos.eqb_neq in E1. apply Pos.eqb_neq in E2. simpl. apply Hs; assumption.
Qed.

(* ---------------------------------------------------------------- pset *)
Lemma pset_nil p n : pset [] p n = [(p, n)].
Proof. reflexivity. Qed.
Lemma pset_cons p' n' t p n : pset ((p', n') :: t) p n = if peqb p p' then (p', n) :: t else (p', n') :: pset t p n.
Proof. reflexivity. Qed.

Lemma peqb_refl p : peqb p p = true.
Proof. apply peqb_eq. reflexivity. Qed.
Lemma peqb_neq p q : peqb p q = false <-> p <> q.
Proof.
  split.
  - intros H E. apply peqb_eq in E. congruence.
  - intros H. destruct (peqb p q) eqn:E; [|reflexivity]. apply peqb_eq in E. contradiction.
Qed.
Lemma peqb_sym p q : peqb p q = peqb q p.
Proof.
  destruct (peqb q p) eqn:E.
  - apply peqb_eq in E. subst. apply peqb_refl.
  - apply peqb_neq. apply peqb_neq in E. congruence.
Qed.

Lemma pget_pset (v : pvotes) p n q : pget (pset v p n) q = if peqb q p then Some n else pget v q.
Proof.
  induction v as [|[p' n'] t IH].
  - rewrite pset_nil. simpl. destruct (peqb q p); reflexivity.
  - rewrite pset_cons. destruct (peqb p p') eqn:E.
    + apply peqb_eq in E. subst p'. simpl. destruct (peqb q p); reflexivity.
    + simpl. destruct (peqb q p') eqn:E'.
      * apply peqb_eq in E'. subst p'. rewrite peqb_sym, E. reflexivity.
      * exact IH.
Qed.

Lemma pget0_pset (v : pvotes) p n q : pget0 (pset v p n) q = if peqb q p then n else pget0 v q.
Proof. unfold pget0. rewrite pget_pset. destruct (peqb q p); reflexivity. Qed.

Lemma pset_keys (v : pvotes) p n q : In q (map fst (pset v p n)) <-> q = p \/ In q (map fst v).
Proof.
  induction v as [|[p' n'] t IH].
  - rewrite pset_nil. simpl. split; [intros [<-|[]]; auto|intros [->|[]]; auto].
  - rewrite pset_cons. destruct (peqb p p') eqn:E.
    + apply peqb_eq in E. subst p'. simpl. split; [intros [<-|H]; auto|intros [->|[<-|H]]; auto].
    + simpl. rewrite IH. tauto.
Qed.

Lemma pset_NoDup (v : pvotes) p n : NoDup (map fst v) -> NoDup (map fst (pset v p n)).
Proof.
  induction v as [|[p' n'] t IH]; intros H.
  - rewrite pset_nil. simpl. constructor; [intros []|constructor].
  - rewrite pset_cons. inversion H as [|? ? Hp Ht]; subst. destruct (peqb p p') eqn:E.
    + simpl. constructor; assumption.
    + simpl. constructor; [|apply IH, Ht]. intros Hin. apply pset_keys in Hin. destruct Hin as [->|Hin]; [|exact (Hp Hin)].
      rewrite peqb_refl in E. discriminate.
Qed.

Lemma pset_scale k (v : pvotes) p n : pset (scalez k v) p (k * n) = scalez k (pset v p n).
Proof.
  induction v as [|[p' n'] t IH]; [reflexivity|].
  change (scalez k ((p', n') :: t)) with ((p', k * n') :: scalez k t).
  rewrite !pset_cons. destruct (peqb p p'); [reflexivity|].
  change (scalez k ((p', n') :: pset t p n)) with ((p', k * n') :: scalez k (pset t p n)). rewrite IH. reflexivity.
Qed.

(* ---------------------------------------------------------------- C11: scale invariance *)
Section SCALE.
  Variable k : Z.
  Hypothesis Hk : 0 < k.

  Lemma wp_init_scale v : wp_init (scalez k v) = scalez k (wp_init v).
  Proof.
    unfold wp_init.
    assert (H : forall u, filter (fun pn : pair * Z => pget0 (scalez k v) (swap (fst pn)) <? snd pn) (scalez k u)
                     = scalez k (filter (fun pn : pair * Z => pget0 v (swap (fst pn)) <? snd pn) u)).
    { induction u as [|[p m] u IH]; [reflexivity|].
      change (scalez k ((p, m) :: u)) with ((p, k * m) :: scalez k u). cbn [filter fst snd].
      rewrite (pget0_scale k v (swap p)).
      assert (E : (k * pget0 v (swap p) <? k * m) = (pget0 v (swap p) <? m)).
      { destruct (pget0 v (swap p) <? m) eqn:E; [apply Z.ltb_lt in E; apply Z.ltb_lt; nia|apply Z.ltb_ge in E; apply Z.ltb_ge; nia]. }
      rewrite E. destruct (pget0 v (swap p) <? m); rewrite IH; reflexivity. }
    apply H.
  Qed.

  Lemma wp_upd_scale p c1 c2 ca : wp_upd (scalez k p) c1 c2 ca = scalez k (wp_upd p c1 c2 ca).
  Proof.
    unfold wp_upd. rewrite !pget0_scale, <- pset_scale. f_equal.
    rewrite Z.mul_min_distr_nonneg_l, Z.mul_max_distr_nonneg_l by lia. reflexivity.
  Qed.

  Theorem widest_paths_scale v order : widest_paths (scalez k v) order = scalez k (widest_paths v order).
  Proof.
    apply (wp_rel (fun p' p => p' = scalez k p) (scalez k v) v order).
    - apply wp_init_scale.
    - intros p p' c1 c2 ca _ _ _ _ _ _ ->. apply wp_upd_scale.
  Qed.

  Theorem schulze_scale v order n : schulze (scalez k v) order n = schulze v order n.
  Proof.
    unfold schulze. rewrite widest_paths_scale, (pairwise_wins_scale k Hk), (candidates_scale k). reflexivity.
  Qed.
End SCALE.

(* ---------------------------------------------------------------- the table as a function; general invariants *)
Lemma pget_filter (f : pair * Z -> bool) (u : pvotes) p : NoDup (map fst u) ->
  pget (filter f u) p = match pget u p with Some n => if f (p, n) then Some n else None | None => None end.
Proof.
  induction u as [|[p' n'] t IH]; intros H; [reflexivity|]. inversion H as [|? ? Hp Ht]; subst.
  cbn [filter pget]. destruct (peqb p p') eqn:E.
  - apply peqb_eq in E. subst p'. destruct (f (p, n')); [cbn [pget]; rewrite peqb_refl; reflexivity|].
    rewrite (IH Ht). destruct (pget t p) eqn:Eg; [|reflexivity]. exfalso. apply Hp. apply pget_In in Eg.
    apply in_map_iff. exists (p, z). split; [reflexivity|exact Eg].
  - destruct (f (p', n')); [cbn [pget]; rewrite E|]; apply (IH Ht).
Qed.

Lemma seeded_get (l : list C) x : dget_or (map (fun c : C => (c, 0)) l) x 0 = 0.
Proof.
  unfold dget_or. induction l as [|c l IH]; [reflexivity|]. cbn [map dget]. destruct (ceqb x c); [reflexivity|exact IH].
Qed.

Definition sch_step (d : list (C * Z)) (p : pair) : list (C * Z) := dadd (dadd d (fst p) 1) (snd p) 0.

Lemma sch_fold_get (ws : list pair) x : forall d,
  dget_or (fold_left sch_step ws d) x 0 = dget_or d x 0 + Z.of_nat (length (filter (fun p : pair => ceqb (fst p) x) ws)).
Proof.
  induction ws as [|p ws IH]; intros d; simpl fold_left; [simpl; lia|]. rewrite IH. unfold sch_step. rewrite !dadd_get.
  assert (H1 : ceqb x (fst p) = ceqb (fst p) x) by apply Pos.eqb_sym. rewrite H1.
  cbn [filter]. destruct (ceqb (fst p) x), (ceqb x (snd p)); cbn [length]; lia.
Qed.

Lemma sch_fold_keys (ws : list pair) : forall d, NoDup (map fst d) ->
  NoDup (map fst (fold_left sch_step ws d)) /\
  forall x, In x (map fst (fold_left sch_step ws d)) <-> In x (map fst d) \/ exists p, In p ws /\ (x = fst p \/ x = snd p).
Proof.
  induction ws as [|p ws IH]; intros d Hd; simpl fold_left.
  - split; [exact Hd|]. intros x. split; [tauto|]. intros [H|(p & [] & _)]. exact H.
  - destruct (dset_keys d (fst p) (dget_or d (fst p) 0 + 1) Hd) as [N1 K1].
    destruct (dset_keys (dadd d (fst p) 1) (snd p) (dget_or (dadd d (fst p) 1) (snd p) 0 + 0) N1) as [N2 K2].
    destruct (IH (sch_step d p) N2) as [IH1 IH2]. split; [exact IH1|].
    intros x. rewrite IH2. unfold sch_step, dadd at 1. rewrite K2. unfold dadd. rewrite K1. split.
    + intros [[H|[H|H]]|(q & Hq & H)].
      * right. exists p. split; [left; reflexivity|right; exact H].
      * right. exists p. split; [left; reflexivity|left; exact H].
      * left. exact H.
      * right. exists q. split; [right; exact Hq|exact H].
    + intros [H|(q & [Hq|Hq] & H)].
      * left. right. right. exact H.
      * subst q. left. destruct H as [H|H]; [right; left; exact H|left; exact H].
      * right. exists q. split; assumption.
Qed.

Lemma schulze_unfold v order n :
  schulze v order n = get_n_best zle_bool (fold_left sch_step (pairwise_wins (widest_paths v order) false) (map (fun c : C => (c, 0)) (candidates v))) n.
Proof. reflexivity. Qed.

Section SCH.
  Variable v : pvotes.
  Hypothesis Hnd : NoDup (map fst v).
  Hypothesis Hnn : forall p n, In (p, n) v -> 0 <= n.
  Variable order : list C.
  Notation cs := (candidates v).

  (* the strength of the direct link: winning votes, 0 for a pair that is not won *)
  Definition d0 (a b : C) : Z := if pget0 v (b, a) <? pget0 v (a, b) then pget0 v (a, b) else 0.

  Lemma wp_init_get a b : pget0 (wp_init v) (a, b) = d0 a b.
  Proof.
    assert (Hv : pget0 v (a, b) = match pget v (a, b) with Some n => n | None => 0 end) by reflexivity.
    unfold wp_init, pget0 at 1. rewrite (pget_filter _ v (a, b) Hnd). unfold d0. rewrite Hv.
    destruct (pget v (a, b)) as [n|]; unfold swap; cbn [fst snd].
    - destruct (pget0 v (b, a) <? n); reflexivity.
    - destruct (pget0 v (b, a) <? 0); reflexivity.
  Qed.

  Lemma d0_nonneg a b : 0 <= d0 a b.
  Proof. unfold d0. pose proof (pget0_nonneg v Hnn (a, b)). destruct (_ <? _); lia. Qed.

  Lemma d0_pos a b : 0 < d0 a b -> beats v a b /\ d0 a b = pget0 v (a, b).
  Proof. unfold d0, beats. destruct (_ <? _) eqn:E; [apply Z.ltb_lt in E; auto|lia]. Qed.

  Lemma d0_beats a b : beats v a b -> d0 a b = pget0 v (a, b) /\ 0 < d0 a b.
  Proof.
    unfold d0, beats. intros H. pose proof (pget0_nonneg v Hnn (b, a)).
    destruct (_ <? _) eqn:E; [split; [reflexivity|lia]|apply Z.ltb_ge in E; lia].
  Qed.

  Lemma pos_in_cs a b : 0 < pget0 v (a, b) -> In a cs /\ In b cs.
  Proof.
    unfold pget0. destruct (pget v (a, b)) as [n|] eqn:E; [|lia]. intros _. apply pget_In in E.
    split; apply candidates_spec; exists (a, b), n; (split; [exact E|]); [left|right]; reflexivity.
  Qed.

  Definition G (paths : pvotes) : Prop :=
    NoDup (map fst paths) /\ (forall a b, d0 a b <= pget0 paths (a, b)) /\
    (forall a b, 0 < pget0 paths (a, b) -> In a cs /\ In b cs /\ a <> b).

  Lemma wp_upd_get paths c1 c2 ca a b : pget0 (wp_upd paths c1 c2 ca) (a, b) =
    if peqb (a, b) (c2, ca) then Z.max (pget0 paths (c2, ca)) (Z.min (pget0 paths (c2, c1)) (pget0 paths (c1, ca)))
    else pget0 paths (a, b).
  Proof. unfold wp_upd. apply pget0_pset. Qed.

  Lemma G_init : G (wp_init v).
  Proof.
    split; [apply filter_fst_NoDup, Hnd|]. split; [intros a b; rewrite wp_init_get; lia|].
    intros a b. rewrite wp_init_get. intros H. destruct (d0_pos a b H) as [Hb He]. rewrite He in H.
    destruct (pos_in_cs a b H) as [Ha Hb']. split; [exact Ha|]. split; [exact Hb'|]. intros ->. unfold beats in Hb. lia.
  Qed.

  Lemma G_upd paths c1 c2 ca : ca <> c2 -> G paths -> G (wp_upd paths c1 c2 ca).
  Proof.
    intros Hne (Gn & Gm & Gp). split; [apply pset_NoDup, Gn|]. split.
    - intros a b. rewrite wp_upd_get. destruct (peqb (a, b) (c2, ca)) eqn:E; [|apply Gm].
      apply peqb_eq in E. injection E as -> ->. pose proof (Gm c2 ca). lia.
    - intros a b. rewrite wp_upd_get. destruct (peqb (a, b) (c2, ca)) eqn:E; [|apply Gp].
      apply peqb_eq in E. injection E as -> ->. intros H.
      destruct (Z.max_spec (pget0 paths (c2, ca)) (Z.min (pget0 paths (c2, c1)) (pget0 paths (c1, ca)))) as [[_ Hm]|[_ Hm]];
        rewrite Hm in H; [|apply Gp, H].
      assert (H1 : 0 < pget0 paths (c2, c1)) by lia. assert (H2 : 0 < pget0 paths (c1, ca)) by lia.
      apply Gp in H1. apply Gp in H2. split; [tauto|]. split; [tauto|congruence].
  Qed.

  Lemma wp_G : G (widest_paths v order).
  Proof. apply wp_ind; [exact G_init|]. intros paths c1 c2 ca _ _ _ _ _ H2 HG. apply G_upd; assumption. Qed.

  Notation P := (widest_paths v order).

  Lemma P_nodup : NoDup (map fst P).
  Proof. apply wp_G. Qed.
  Lemma P_nonneg0 p : 0 <= pget0 P p.
  Proof. destruct p as [a b]. destruct wp_G as (_ & Gm & _). pose proof (Gm a b). pose proof (d0_nonneg a b). lia. Qed.
  Lemma P_nonneg : forall p n, In (p, n) P -> 0 <= n.
  Proof.
    intros p n Hin. pose proof (P_nonneg0 p) as H. unfold pget0 in H. rewrite (In_pget P p n P_nodup Hin) in H. exact H.
  Qed.
  Lemma P_beats_cs a b : beats P a b -> In a cs /\ In b cs /\ a <> b.
  Proof. unfold beats. intros H. destruct wp_G as (_ & _ & Gp). apply Gp. pose proof (P_nonneg0 (b, a)). lia. Qed.

  (* ---- the score dictionary *)
  Definition sscores : list (C * Z) := fold_left sch_step (pairwise_wins P false) (map (fun c : C => (c, 0)) cs).

  Lemma sscores_facts :
    NoDup (map fst sscores) /\
    (forall x, In x (map fst sscores) <-> In x cs) /\
    (forall x s, In (x, s) sscores -> s = Z.of_nat (length (opponents P x))).
  Proof.
    assert (Hseed : map fst (map (fun c : C => (c, 0)) cs) = cs) by (rewrite map_map; simpl; apply map_id).
    assert (Hsn : NoDup (map fst (map (fun c : C => (c, 0)) cs))) by (rewrite Hseed; apply candidates_NoDup).
    destruct (sch_fold_keys (pairwise_wins P false) _ Hsn) as [Kn Kk]. fold sscores in Kn, Kk.
    split; [exact Kn|]. split.
    - intros x. rewrite Kk, Hseed. split; [|tauto]. intros [H|([a b] & Hp & H)]; [exact H|].
      apply (wins_iff P P_nodup P_nonneg) in Hp. apply P_beats_cs in Hp. simpl in H. destruct H as [->| ->]; tauto.
    - intros x s Hin. pose proof (In_dget_or sscores x s Kn Hin) as Hs. unfold sscores in Hs.
      rewrite sch_fold_get, seeded_get in Hs. unfold opponents. rewrite map_length. rewrite <- Hs. rewrite Z.add_0_l. reflexivity.
  Qed.

  Lemma opp_P_incl x y : In y (opponents P x) -> In y cs /\ y <> x.
  Proof. intros H. apply (opponents_spec P P_nodup P_nonneg) in H. apply P_beats_cs in H. split; [tauto|]. intros ->. tauto. Qed.

  (* ---- nobody dropped: with as many seats as candidates the result lists every candidate, untied *)
  Theorem schulze_nobody_dropped x : In x cs -> In (Cand x) (schulze v order (length cs)).
  Proof.
    intros Hx. rewrite schulze_unfold. fold sscores. destruct sscores_facts as (Sn & Sk & _).
    assert (Hlen : length sscores = length cs).
    { rewrite <- (map_length fst sscores). apply Permutation_length.
      apply NoDup_Permutation; [exact Sn|apply candidates_NoDup|exact Sk]. }
    assert (Hn1 : (1 <= length cs)%nat) by (destruct cs; [destruct Hx|simpl; lia]).
    destruct (get_n_best_spec zle_bool zle_total zle_trans sscores (length cs) Hn1) as [Hsmall _].
    destruct (Hsmall ltac:(lia)) as (sl & Hp & _ & Hr). rewrite Hr.
    apply Sk in Hx. apply in_map_iff in Hx. destruct Hx as ([x' u] & Hf & Hin). simpl in Hf. subst x'.
    apply in_map_iff. exists (x, u). split; [reflexivity|]. apply (Permutation_in _ (Permutation_sym Hp)). exact Hin.
  Qed.

  (* ---- the Condorcet winner is elected alone *)
  Section CWIN.
    Variable c : C.
    Hypothesis Hcw : is_cw v c.

    Definition Gc (paths : pvotes) : Prop := G paths /\ forall x, pget0 paths (x, c) = 0.

    Lemma d0_into_cw x : d0 x c = 0.
    Proof.
      pose proof (d0_nonneg x c) as H0. destruct (Z.eq_dec (d0 x c) 0) as [E|E]; [exact E|exfalso].
      assert (Hp : 0 < d0 x c) by lia. destruct (d0_pos x c Hp) as [Hb He]. rewrite He in Hp.
      destruct (pos_in_cs x c Hp) as [Hx _]. destruct Hcw as [_ Hall].
      assert (Hne : x <> c) by (intros ->; unfold beats in Hb; lia).
      specialize (Hall x Hx Hne). unfold beats in *. lia.
    Qed.

    Lemma wp_Gc : Gc (widest_paths v order).
    Proof.
      apply wp_ind.
      - split; [exact G_init|]. intros x. rewrite wp_init_get. apply d0_into_cw.
      - intros paths c1 c2 ca _ _ _ _ _ H2 [HG Hz]. split; [apply G_upd; assumption|].
        intros x. rewrite wp_upd_get. destruct (peqb (x, c) (c2, ca)) eqn:E; [|apply Hz].
        apply peqb_eq in E. injection E as E1 E2. subst c2 ca. rewrite !Hz.
        destruct HG as (_ & Gm & _). pose proof (Gm x c1). pose proof (d0_nonneg x c1). lia.
    Qed.

    Lemma cw_beats_P x : In x cs -> x <> c -> beats P c x.
    Proof.
      intros Hx Hne. destruct wp_Gc as [(_ & Gm & _) Hz]. unfold beats. rewrite Hz.
      destruct Hcw as [_ Hall]. destruct (d0_beats c x (Hall x Hx Hne)) as [_ Hp]. pose proof (Gm c x). lia.
    Qed.

    Theorem schulze_elects_cw : schulze v order 1 = [Cand c].
    Proof.
      rewrite schulze_unfold. fold sscores. destruct sscores_facts as (Sn & Sk & Sv).
      pose proof Hcw as [Hc Hall]. set (m := length cs).
      assert (Hkc : In c (map fst sscores)) by (apply Sk, Hc).
      apply in_map_iff in Hkc. destruct Hkc as ([c0 sc0] & Hf & Hinc). simpl in Hf. subst c0.
      pose proof (Sv c sc0 Hinc) as Hsc.
      assert (Hcnt : (m <= S (length (opponents P c)))%nat).
      { change (S (length (opponents P c))) with (length (c :: opponents P c)).
        apply NoDup_incl_length; [apply candidates_NoDup|].
        intros y Hy. destruct (Pos.eq_dec y c) as [->|Hne]; [left; reflexivity|right].
        apply (opponents_spec P P_nodup P_nonneg). apply cw_beats_P; assumption. }
      apply (get_n_best_unique_max zle_bool zle_total zle_trans Pos.eq_dec sscores c sc0 Sn Hinc).
      intros x s Hin Hne. pose proof (Sv x s Hin) as Hs.
      assert (Hx : In x cs) by (apply Sk; apply in_map_iff; exists (x, s); split; [reflexivity|exact Hin]).
      assert (Hle : (length (c :: x :: opponents P x) <= m)%nat).
      { apply NoDup_incl_length.
        - constructor.
          + intros [H|H]; [exact (Hne H)|]. apply (opponents_spec P P_nodup P_nonneg) in H.
            pose proof (cw_beats_P x Hx Hne). unfold beats in *. lia.
          + constructor; [|apply (opponents_NoDup P P_nodup)]. intros H. apply opp_P_incl in H. tauto.
        - intros y [<-|[<-|Hy]]; [exact Hc|exact Hx|]. apply opp_P_incl in Hy. tauto. }
      simpl in Hle. unfold GetNBest.ltb, zle_bool. apply negb_true_iff. apply Z.leb_gt. lia.
    Qed.
  End CWIN.
End SCH.
