(* Schulze (Model/Condorcet.v: widest_paths, schulze), for every iteration order of the candidate set:
   - scale invariance (C11): the Floyd-Warshall run over k * v is k * (the run over v);
   - the Condorcet winner is elected alone (C05), nobody is dropped with as many seats as candidates (C05);
   - the computed table is the table of strongest beat-paths (C05: "agrees with its defining computation");
   - monotonicity (C17) is REFUTED for the ranking by the number of path-wins: witness below. *)
From Coq Require Import ZArith List Bool Lia Arith Permutation.
From VL Require Import Prelude.PyDict Model.GetNBest Model.Condorcet Proofs.Dict_proofs Proofs.GetNBest_proofs
     Proofs.Condorcet_proofs Proofs.CopelandMono_proofs Proofs.Scale_proofs.
Import ListNotations.
Open Scope Z_scope.

(* ---------------------------------------------------------------- the loop, named *)
Definition wp_init (v : pvotes) : pvotes := filter (fun pn => pget0 v (swap (fst pn)) <? snd pn) v.

Definition wp_upd (paths : pvotes) (c1 c2 ca : C) : pvotes :=
  pset paths (c2, ca) (Z.max (pget0 paths (c2, ca)) (Z.min (pget0 paths (c2, c1)) (pget0 paths (c1, ca)))).

Definition wp_inner (c1 c2 : C) (paths : pvotes) (ca : C) : pvotes :=
  if ceqb ca c1 || ceqb ca c2 then paths else wp_upd paths c1 c2 ca.
Definition wp_mid (order : list C) (c1 : C) (paths : pvotes) (c2 : C) : pvotes :=
  if ceqb c1 c2 then paths else fold_left (wp_inner c1 c2) order paths.
Definition wp_outer (order : list C) (paths : pvotes) (c1 : C) : pvotes :=
  fold_left (wp_mid order c1) order paths.

Lemma widest_paths_unfold v order : widest_paths v order = fold_left (wp_outer order) order (wp_init v).
Proof. reflexivity. Qed.

Lemma fold_left_ind_in {A B} (I : A -> Prop) (f : A -> B -> A) (l : list B) :
  (forall a x, In x l -> I a -> I (f a x)) -> forall a, I a -> I (fold_left f l a).
Proof.
  induction l as [|x l IH]; intros H a Ha; simpl; [exact Ha|].
  apply IH; [intros a' y Hy; apply H; right; exact Hy|]. apply H; [left; reflexivity|exact Ha].
Qed.

Lemma fold_left_rel2 {A A' B} (R : A -> A' -> Prop) (f : A -> B -> A) (f' : A' -> B -> A') (l : list B) :
  (forall a a' x, In x l -> R a a' -> R (f a x) (f' a' x)) -> forall a a', R a a' -> R (fold_left f l a) (fold_left f' l a').
Proof.
  induction l as [|x l IH]; intros H a a' Ha; simpl; [exact Ha|].
  apply IH; [intros b b' y Hy; apply H; right; exact Hy|]. apply H; [left; reflexivity|exact Ha].
Qed.

(* induction over the three nested loops: an invariant of the initial table preserved by every single update *)
Lemma wp_ind (I : pvotes -> Prop) (v : pvotes) (order : list C) :
  I (wp_init v) ->
  (forall paths c1 c2 ca, In c1 order -> In c2 order -> In ca order -> c1 <> c2 -> ca <> c1 -> ca <> c2 ->
     I paths -> I (wp_upd paths c1 c2 ca)) ->
  I (widest_paths v order).
Proof.
  intros H0 Hs. rewrite widest_paths_unfold. apply fold_left_ind_in; [|exact H0].
  intros p1 c1 Hc1 Hp1. unfold wp_outer. apply fold_left_ind_in; [|exact Hp1].
  intros p2 c2 Hc2 Hp2. unfold wp_mid. destruct (ceqb c1 c2) eqn:E12; [exact Hp2|]. apply Pos.eqb_neq in E12.
  apply fold_left_ind_in; [|exact Hp2].
  intros p3 ca Hca Hp3. unfold wp_inner. destruct (ceqb ca c1) eqn:E1; [exact Hp3|]. destruct (ceqb ca c2) eqn:E2; [exact Hp3|].
  apply Pos.eqb_neq in E1. apply Pos.eqb_neq in E2. simpl. apply Hs; assumption.
Qed.

(* the same for two runs over the same order *)
Lemma wp_rel (R : pvotes -> pvotes -> Prop) (v v' : pvotes) (order : list C) :
  R (wp_init v) (wp_init v') ->
  (forall p p' c1 c2 ca, In c1 order -> In c2 order -> In ca order -> c1 <> c2 -> ca <> c1 -> ca <> c2 ->
     R p p' -> R (wp_upd p c1 c2 ca) (wp_upd p' c1 c2 ca)) ->
  R (widest_paths v order) (widest_paths v' order).
Proof.
  intros H0 Hs. rewrite !widest_paths_unfold. apply fold_left_rel2; [|exact H0].
  intros p1 p1' c1 Hc1 Hp1. unfold wp_outer. apply fold_left_rel2; [|exact Hp1].
  intros p2 p2' c2 Hc2 Hp2. unfold wp_mid. destruct (ceqb c1 c2) eqn:E12; [exact Hp2|]. apply Pos.eqb_neq in E12.
  apply fold_left_rel2; [|exact Hp2].
  intros p3 p3' ca Hca Hp3. unfold wp_inner. destruct (ceqb ca c1) eqn:E1; [exact Hp3|]. destruct (ceqb ca c2) eqn:E2; [exact Hp3|].
  apply Pos.eqb_neq in E1. apply Pos.eqb_neq in E2. simpl. apply Hs; assumption.
Qed.

(* ---------------------------------------------------------------- pset *)
Lemma pset_nil p n : pset [] p n = [(p, n)].
Proof. reflexivity. Qed.
Lemma pset_cons p' n' t p n : pset ((p', n') :: t) p n = if peqb p p' then (p', n) :: t else (p', n') :: pset t p n.
Proof. reflexivity. Qed.

Lemma peqb_refl p : peqb p p = true.
Proof. apply peqb_eq. reflexivity. Qed.
Lemma peqb_neq p q : peqb p q = false <-> p <> q.
Proof.
  split.
  - intros H E. apply peqb_eq in E. congruence.
  - intros H. destruct (peqb p q) eqn:E; [|reflexivity]. apply peqb_eq in E. contradiction.
Qed.
Lemma peqb_sym p q : peqb p q = peqb q p.
Proof.
  destruct (peqb q p) eqn:E.
  - apply peqb_eq in E. subst. apply peqb_refl.
  - apply peqb_neq. apply peqb_neq in E. congruence.
Qed.

Lemma pget_pset (v : pvotes) p n q : pget (pset v p n) q = if peqb q p then Some n else pget v q.
Proof.
  induction v as [|[p' n'] t IH].
  - rewrite pset_nil. simpl. destruct (peqb q p); reflexivity.
  - rewrite pset_cons. destruct (peqb p p') eqn:E.
    + apply peqb_eq in E. subst p'. simpl. destruct (peqb q p); reflexivity.
    + simpl. destruct (peqb q p') eqn:E'.
      * apply peqb_eq in E'. subst p'. rewrite peqb_sym, E. reflexivity.
      * exact IH.
Qed.

Lemma pget0_pset (v : pvotes) p n q : pget0 (pset v p n) q = if peqb q p then n else pget0 v q.
Proof. unfold pget0. rewrite pget_pset. destruct (peqb q p); reflexivity. Qed.

Lemma pset_keys (v : pvotes) p n q : In q (map fst (pset v p n)) <-> q = p \/ In q (map fst v).
Proof.
  induction v as [|[p' n'] t IH].
  - rewrite pset_nil. simpl. split; [intros [<-|[]]; auto|intros [->|[]]; auto].
  - rewrite pset_cons. destruct (peqb p p') eqn:E.
    + apply peqb_eq in E. subst p'. simpl. split; [intros [<-|H]; auto|intros [->|[<-|H]]; auto].
    + simpl. rewrite IH. tauto.
Qed.

Lemma pset_NoDup (v : pvotes) p n : NoDup (map fst v) -> NoDup (map fst (pset v p n)).
Proof.
  induction v as [|[p' n'] t IH]; intros H.
  - rewrite pset_nil. simpl. constructor; [intros []|constructor].
  - rewrite pset_cons. inversion H as [|? ? Hp Ht]; subst. destruct (peqb p p') eqn:E.
    + simpl. constructor; assumption.
    + simpl. constructor; [|apply IH, Ht]. intros Hin. apply pset_keys in Hin. destruct Hin as [->|Hin]; [|exact (Hp Hin)].
      rewrite peqb_refl in E. discriminate.
Qed.

Lemma pset_scale k (v : pvotes) p n : pset (scalez k v) p (k * n) = scalez k (pset v p n).
Proof.
  induction v as [|[p' n'] t IH]; [reflexivity|].
  change (scalez k ((p', n') :: t)) with ((p', k * n') :: scalez k t).
  rewrite !pset_cons. destruct (peqb p p'); [reflexivity|].
  change (scalez k ((p', n') :: pset t p n)) with ((p', k * n') :: scalez k (pset t p n)). rewrite IH. reflexivity.
Qed.

(* ---------------------------------------------------------------- C11: scale invariance *)
Section SCALE.
  Variable k : Z.
  Hypothesis Hk : 0 < k.

  Lemma wp_init_scale v : wp_init (scalez k v) = scalez k (wp_init v).
  Proof.
    unfold wp_init.
    assert (H : forall u, filter (fun pn : pair * Z => pget0 (scalez k v) (swap (fst pn)) <? snd pn) (scalez k u)
                     = scalez k (filter (fun pn : pair * Z => pget0 v (swap (fst pn)) <? snd pn) u)).
    { induction u as [|[p m] u IH]; [reflexivity|].
      change (scalez k ((p, m) :: u)) with ((p, k * m) :: scalez k u). cbn [filter fst snd].
      rewrite (pget0_scale k v (swap p)).
      assert (E : (k * pget0 v (swap p) <? k * m) = (pget0 v (swap p) <? m)).
      { destruct (pget0 v (swap p) <? m) eqn:E; [apply Z.ltb_lt in E; apply Z.ltb_lt; nia|apply Z.ltb_ge in E; apply Z.ltb_ge; nia]. }
      rewrite E. destruct (pget0 v (swap p) <? m); rewrite IH; reflexivity. }
    apply H.
  Qed.

  Lemma wp_upd_scale p c1 c2 ca : wp_upd (scalez k p) c1 c2 ca = scalez k (wp_upd p c1 c2 ca).
  Proof.
    unfold wp_upd. rewrite !pget0_scale, <- pset_scale. f_equal.
    rewrite Z.mul_min_distr_nonneg_l, Z.mul_max_distr_nonneg_l by lia. reflexivity.
  Qed.

  Theorem widest_paths_scale v order : widest_paths (scalez k v) order = scalez k (widest_paths v order).
  Proof.
    apply (wp_rel (fun p' p => p' = scalez k p) (scalez k v) v order).
    - apply wp_init_scale.
    - intros p p' c1 c2 ca _ _ _ _ _ _ ->. apply wp_upd_scale.
  Qed.

  Theorem schulze_scale v order n : schulze (scalez k v) order n = schulze v order n.
  Proof.
    unfold schulze. rewrite widest_paths_scale, (pairwise_wins_scale k Hk), (candidates_scale k). reflexivity.
  Qed.
End SCALE.

(* ---------------------------------------------------------------- the table as a function; general invariants *)
Lemma pget_filter (f : pair * Z -> bool) (u : pvotes) p : NoDup (map fst u) ->
  pget (filter f u) p = match pget u p with Some n => if f (p, n) then Some n else None | None => None end.
Proof.
  induction u as [|[p' n'] t IH]; intros H; [reflexivity|]. inversion H as [|? ? Hp Ht]; subst.
  cbn [filter pget]. destruct (peqb p p') eqn:E.
  - apply peqb_eq in E. subst p'. destruct (f (p, n')); [cbn [pget]; rewrite peqb_refl; reflexivity|].
    rewrite (IH Ht). destruct (pget t p) eqn:Eg; [|reflexivity]. exfalso. apply Hp. apply pget_In in Eg.
    apply in_map_iff. exists (p, z). split; [reflexivity|exact Eg].
  - destruct (f (p', n')); [cbn [pget]; rewrite E|]; apply (IH Ht).
Qed.

Lemma seeded_get (l : list C) x : dget_or (map (fun c : C => (c, 0)) l) x 0 = 0.
Proof.
  unfold dget_or. induction l as [|c l IH]; [reflexivity|]. cbn [map dget]. destruct (ceqb x c); [reflexivity|exact IH].
Qed.

Definition sch_step (d : list (C * Z)) (p : pair) : list (C * Z) := dadd (dadd d (fst p) 1) (snd p) 0.

Lemma sch_fold_get (ws : list pair) x : forall d,
  dget_or (fold_left sch_step ws d) x 0 = dget_or d x 0 + Z.of_nat (length (filter (fun p : pair => ceqb (fst p) x) ws)).
Proof.
  induction ws as [|p ws IH]; intros d; simpl fold_left; [simpl; lia|]. rewrite IH. unfold sch_step. rewrite !dadd_get.
  assert (H1 : ceqb x (fst p) = ceqb (fst p) x) by apply Pos.eqb_sym. rewrite H1.
  cbn [filter]. destruct (ceqb (fst p) x), (ceqb x (snd p)); cbn [length]; lia.
Qed.

Lemma sch_fold_keys (ws : list pair) : forall d, NoDup (map fst d) ->
  NoDup (map fst (fold_left sch_step ws d)) /\
  forall x, In x (map fst (fold_left sch_step ws d)) <-> In x (map fst d) \/ exists p, In p ws /\ (x = fst p \/ x = snd p).
Proof.
  induction ws as [|p ws IH]; intros d Hd; simpl fold_left.
  - split; [exact Hd|]. intros x. split; [tauto|]. intros [H|(p & [] & _)]. exact H.
  - destruct (dset_keys d (fst p) (dget_or d (fst p) 0 + 1) Hd) as [N1 K1].
    destruct (dset_keys (dadd d (fst p) 1) (snd p) (dget_or (dadd d (fst p) 1) (snd p) 0 + 0) N1) as [N2 K2].
    destruct (IH (sch_step d p) N2) as [IH1 IH2]. split; [exact IH1|].
    intros x. rewrite IH2. unfold sch_step, dadd at 1. rewrite K2. unfold dadd. rewrite K1. split.
    + intros [[H|[H|H]]|(q & Hq & H)].
      * right. exists p. split; [left; reflexivity|right; exact H].
      * right. exists p. split; [left; reflexivity|left; exact H].
      * left. exact H.
      * right. exists q. split; [right; exact Hq|exact H].
    + intros [H|(q & [Hq|Hq] & H)].
      * left. right. right. exact H.
      * subst q. left. destruct H as [H|H]; [right; left; exact H|left; exact H].
      * right. exists q. split; assumption.
Qed.

Lemma schulze_unfold v order n :
  schulze v order n = get_n_best zle_bool (fold_left sch_step (pairwise_wins (widest_paths v order) false) (map (fun c : C => (c, 0)) (candidates v))) n.
Proof. reflexivity. Qed.

Section SCH.
  Variable v : pvotes.
  Hypothesis Hnd : NoDup (map fst v).
  Hypothesis Hnn : forall p n, In (p, n) v -> 0 <= n.
  Variable order : list C.
  Notation cs := (candidates v).

  (* the strength of the direct link: winning votes, 0 for a pair that is not won *)
  Definition d0 (a b : C) : Z := if pget0 v (b, a) <? pget0 v (a, b) then pget0 v (a, b) else 0.

  Lemma wp_init_get a b : pget0 (wp_init v) (a, b) = d0 a b.
  Proof.
    assert (Hv : pget0 v (a, b) = match pget v (a, b) with Some n => n | None => 0 end) by reflexivity.
    unfold wp_init, pget0 at 1. rewrite (pget_filter _ v (a, b) Hnd). unfold d0. rewrite Hv.
    destruct (pget v (a, b)) as [n|]; unfold swap; cbn [fst snd].
    - destruct (pget0 v (b, a) <? n); reflexivity.
    - destruct (pget0 v (b, a) <? 0); reflexivity.
  Qed.

  Lemma d0_nonneg a b : 0 <= d0 a b.
  Proof. unfold d0. pose proof (pget0_nonneg v Hnn (a, b)). destruct (_ <? _); lia. Qed.

  Lemma d0_pos a b : 0 < d0 a b -> beats v a b /\ d0 a b = pget0 v (a, b).
  Proof. unfold d0, beats. destruct (_ <? _) eqn:E; [apply Z.ltb_lt in E; auto|lia]. Qed.

  Lemma d0_beats a b : beats v a b -> d0 a b = pget0 v (a, b) /\ 0 < d0 a b.
  Proof.
    unfold d0, beats. intros H. pose proof (pget0_nonneg v Hnn (b, a)).
    destruct (_ <? _) eqn:E; [split; [reflexivity|lia]|apply Z.ltb_ge in E; lia].
  Qed.

  Lemma pos_in_cs a b : 0 < pget0 v (a, b) -> In a cs /\ In b cs.
  Proof.
    unfold pget0. destruct (pget v (a, b)) as [n|] eqn:E; [|lia]. intros _. apply pget_In in E.
    split; apply candidates_spec; exists (a, b), n; (split; [exact E|]); [left|right]; reflexivity.
  Qed.

  Definition G (paths : pvotes) : Prop :=
    NoDup (map fst paths) /\ (forall a b, d0 a b <= pget0 paths (a, b)) /\
    (forall a b, 0 < pget0 paths (a, b) -> In a cs /\ In b cs /\ a <> b).

  Lemma wp_upd_get paths c1 c2 ca a b : pget0 (wp_upd paths c1 c2 ca) (a, b) =
    if peqb (a, b) (c2, ca) then Z.max (pget0 paths (c2, ca)) (Z.min (pget0 paths (c2, c1)) (pget0 paths (c1, ca)))
    else pget0 paths (a, b).
  Proof. unfold wp_upd. apply pget0_pset. Qed.

  Lemma G_init : G (wp_init v).
  Proof.
    split; [apply filter_fst_NoDup, Hnd|]. split; [intros a b; rewrite wp_init_get; lia|].
    intros a b. rewrite wp_init_get. intros H. destruct (d0_pos a b H) as [Hb He]. rewrite He in H.
    destruct (pos_in_cs a b H) as [Ha Hb']. split; [exact Ha|]. split; [exact Hb'|]. intros ->. unfold beats in Hb. lia.
  Qed.

  Lemma G_upd paths c1 c2 ca : ca <> c2 -> G paths -> G (wp_upd paths c1 c2 ca).
  Proof.
    intros Hne (Gn & Gm & Gp). split; [apply pset_NoDup, Gn|]. split.
    - intros a b. rewrite wp_upd_get. destruct (peqb (a, b) (c2, ca)) eqn:E; [|apply Gm].
      apply peqb_eq in E. injection E as -> ->. pose proof (Gm c2 ca). lia.
    - intros a b. rewrite wp_upd_get. destruct (peqb (a, b) (c2, ca)) eqn:E; [|apply Gp].
      apply peqb_eq in E. injection E as -> ->. intros H.
      destruct (Z.max_spec (pget0 paths (c2, ca)) (Z.min (pget0 paths (c2, c1)) (pget0 paths (c1, ca)))) as [[_ Hm]|[_ Hm]];
        rewrite Hm in H; [|apply Gp, H].
      assert (H1 : 0 < pget0 paths (c2, c1)) by lia. assert (H2 : 0 < pget0 paths (c1, ca)) by lia.
      apply Gp in H1. apply Gp in H2. split; [tauto|]. split; [tauto|congruence].
  Qed.

  Lemma wp_G : G (widest_paths v order).
  Proof. apply wp_ind; [exact G_init|]. intros paths c1 c2 ca _ _ _ _ _ H2 HG. apply G_upd; assumption. Qed.

  Notation P := (widest_paths v order).

  Lemma P_nodup : NoDup (map fst P).
  Proof. apply wp_G. Qed.
  Lemma P_nonneg0 p : 0 <= pget0 P p.
  Proof. destruct p as [a b]. destruct wp_G as (_ & Gm & _). pose proof (Gm a b). pose proof (d0_nonneg a b). lia. Qed.
  Lemma P_nonneg : forall p n, In (p, n) P -> 0 <= n.
  Proof.
    intros p n Hin. pose proof (P_nonneg0 p) as H. unfold pget0 in H. rewrite (In_pget P p n P_nodup Hin) in H. exact H.
  Qed.
  Lemma P_beats_cs a b : beats P a b -> In a cs /\ In b cs /\ a <> b.
  Proof. unfold beats. intros H. destruct wp_G as (_ & _ & Gp). apply Gp. pose proof (P_nonneg0 (b, a)). lia. Qed.

  (* ---- the score dictionary *)
  Definition sscores : list (C * Z) := fold_left sch_step (pairwise_wins P false) (map (fun c : C => (c, 0)) cs).

  Lemma sscores_facts :
    NoDup (map fst sscores) /\
    (forall x, In x (map fst sscores) <-> In x cs) /\
    (forall x s, In (x, s) sscores -> s = Z.of_nat (length (opponents P x))).
  Proof.
    assert (Hseed : map fst (map (fun c : C => (c, 0)) cs) = cs) by (rewrite map_map; simpl; apply map_id).
    assert (Hsn : NoDup (map fst (map (fun c : C => (c, 0)) cs))) by (rewrite Hseed; apply candidates_NoDup).
    destruct (sch_fold_keys (pairwise_wins P false) _ Hsn) as [Kn Kk]. fold sscores in Kn, Kk.
    split; [exact Kn|]. split.
    - intros x. rewrite Kk, Hseed. split; [|tauto]. intros [H|([a b] & Hp & H)]; [exact H|].
      apply (wins_iff P P_nodup P_nonneg) in Hp. apply P_beats_cs in Hp. simpl in H. destruct H as [->| ->]; tauto.
    - intros x s Hin. pose proof (In_dget_or sscores x s Kn Hin) as Hs. unfold sscores in Hs.
      rewrite sch_fold_get, seeded_get in Hs. unfold opponents. rewrite map_length. rewrite <- Hs. rewrite Z.add_0_l. reflexivity.
  Qed.

  Lemma opp_P_incl x y : In y (opponents P x) -> In y cs /\ y <> x.
  Proof. intros H. apply (opponents_spec P P_nodup P_nonneg) in H. apply P_beats_cs in H. split; [tauto|]. intros ->. tauto. Qed.

  (* ---- nobody dropped: with as many seats as candidates the result lists every candidate, untied *)
  Theorem schulze_nobody_dropped x : In x cs -> In (Cand x) (schulze v order (length cs)).
  Proof.
    intros Hx. rewrite schulze_unfold. fold sscores. destruct sscores_facts as (Sn & Sk & _).
    assert (Hlen : length sscores = length cs).
    { rewrite <- (map_length fst sscores). apply Permutation_length.
      apply NoDup_Permutation; [exact Sn|apply candidates_NoDup|exact Sk]. }
    assert (Hn1 : (1 <= length cs)%nat) by (destruct cs; [destruct Hx|simpl; lia]).
    destruct (get_n_best_spec zle_bool zle_total zle_trans sscores (length cs) Hn1) as [Hsmall _].
    destruct (Hsmall ltac:(lia)) as (sl & Hp & _ & Hr). rewrite Hr.
    apply Sk in Hx. apply in_map_iff in Hx. destruct Hx as ([x' u] & Hf & Hin). simpl in Hf. subst x'.
    apply in_map_iff. exists (x, u). split; [reflexivity|]. apply (Permutation_in _ (Permutation_sym Hp)). exact Hin.
  Qed.

  (* ---- the Condorcet winner is elected alone *)
  Section CWIN.
    Variable c : C.
    Hypothesis Hcw : is_cw v c.

    Definition Gc (paths : pvotes) : Prop := G paths /\ forall x, pget0 paths (x, c) = 0.

    Lemma d0_into_cw x : d0 x c = 0.
    Proof.
      pose proof (d0_nonneg x c) as H0. destruct (Z.eq_dec (d0 x c) 0) as [E|E]; [exact E|exfalso].
      assert (Hp : 0 < d0 x c) by lia. destruct (d0_pos x c Hp) as [Hb He]. rewrite He in Hp.
      destruct (pos_in_cs x c Hp) as [Hx _]. destruct Hcw as [_ Hall].
      assert (Hne : x <> c) by (intros ->; unfold beats in Hb; lia).
      specialize (Hall x Hx Hne). unfold beats in *. lia.
    Qed.

    Lemma wp_Gc : Gc (widest_paths v order).
    Proof.
      apply wp_ind.
      - split; [exact G_init|]. intros x. rewrite wp_init_get. apply d0_into_cw.
      - intros paths c1 c2 ca _ _ _ _ _ H2 [HG Hz]. split; [apply G_upd; assumption|].
        intros x. rewrite wp_upd_get. destruct (peqb (x, c) (c2, ca)) eqn:E; [|apply Hz].
        apply peqb_eq in E. injection E as E1 E2. subst c2 ca. rewrite !Hz.
        destruct HG as (_ & Gm & _). pose proof (Gm x c1). pose proof (d0_nonneg x c1). lia.
    Qed.

    Lemma cw_beats_P x : In x cs -> x <> c -> beats P c x.
    Proof.
      intros Hx Hne. destruct wp_Gc as [(_ & Gm & _) Hz]. unfold beats. rewrite Hz.
      destruct Hcw as [_ Hall]. destruct (d0_beats c x (Hall x Hx Hne)) as [_ Hp]. pose proof (Gm c x). lia.
    Qed.

    Theorem schulze_elects_cw : schulze v order 1 = [Cand c].
    Proof.
      rewrite schulze_unfold. fold sscores. destruct sscores_facts as (Sn & Sk & Sv).
      pose proof Hcw as [Hc Hall]. set (m := length cs).
      assert (Hkc : In c (map fst sscores)) by (apply Sk, Hc).
      apply in_map_iff in Hkc. destruct Hkc as ([c0 sc0] & Hf & Hinc). simpl in Hf. subst c0.
      pose proof (Sv c sc0 Hinc) as Hsc.
      assert (Hcnt : (m <= S (length (opponents P c)))%nat).
      { change (S (length (opponents P c))) with (length (c :: opponents P c)).
        apply NoDup_incl_length; [apply candidates_NoDup|].
        intros y Hy. destruct (Pos.eq_dec y c) as [->|Hne]; [left; reflexivity|right].
        apply (opponents_spec P P_nodup P_nonneg). apply cw_beats_P; assumption. }
      apply (get_n_best_unique_max zle_bool zle_total zle_trans Pos.eq_dec sscores c sc0 Sn Hinc).
      intros x s Hin Hne. pose proof (Sv x s Hin) as Hs.
      assert (Hx : In x cs) by (apply Sk; apply in_map_iff; exists (x, s); split; [reflexivity|exact Hin]).
      assert (Hle : (length (c :: x :: opponents P x) <= m)%nat).
      { apply NoDup_incl_length.
        - constructor.
          + intros [H|H]; [exact (Hne H)|]. apply (opponents_spec P P_nodup P_nonneg) in H.
            pose proof (cw_beats_P x Hx Hne). unfold beats in *. lia.
          + constructor; [|apply (opponents_NoDup P P_nodup)]. intros H. apply opp_P_incl in H. tauto.
        - intros y [<-|[<-|Hy]]; [exact Hc|exact Hx|]. apply opp_P_incl in Hy. tauto. }
      simpl in Hle. unfold GetNBest.ltb, zle_bool. apply negb_true_iff. apply Z.leb_gt. lia.
    Qed.
  End CWIN.
End SCH.

(* ---------------------------------------------------------------- C17: monotonicity of the path-win count is refuted *)
(* a boolean check of [raises] over the candidates (outside them every count is 0) *)
Lemma pget0_outside (v : pvotes) a b : ~ In a (candidates v) \/ ~ In b (candidates v) -> pget0 v (a, b) = 0.
Proof.
  intros H. unfold pget0. destruct (pget v (a, b)) as [n|] eqn:E; [|reflexivity]. exfalso. apply pget_In in E.
  destruct H as [H|H]; apply H; apply candidates_spec; exists (a, b), n; (split; [exact E|]); [left|right]; reflexivity.
Qed.

Definition raises_b (v v' : pvotes) (w : C) : bool :=
  forallb (fun x => (pget0 v (w, x) <=? pget0 v' (w, x)) && (pget0 v' (x, w) <=? pget0 v (x, w))) (candidates v) &&
  forallb (fun a => forallb (fun b => ceqb a w || ceqb b w || (pget0 v' (a, b) =? pget0 v (a, b))) (candidates v)) (candidates v).

Lemma raises_b_sound v v' w : candidates v' = candidates v -> raises_b v v' w = true -> raises v v' w.
Proof.
  intros Hc H. unfold raises_b in H. apply andb_true_iff in H. destruct H as [H1 H2].
  rewrite forallb_forall in H1. rewrite forallb_forall in H2.
  split; [exact Hc|]. split.
  - intros x. destruct (in_dec Pos.eq_dec x (candidates v)) as [Hx|Hx].
    + specialize (H1 x Hx). apply andb_true_iff in H1. destruct H1 as [Ha Hb]. apply Z.leb_le in Ha. apply Z.leb_le in Hb. split; assumption.
    + rewrite (pget0_outside v w x), (pget0_outside v x w) by tauto.
      rewrite (pget0_outside v' w x), (pget0_outside v' x w) by (rewrite Hc; tauto). lia.
  - intros a b Ha Hb. destruct (in_dec Pos.eq_dec a (candidates v)) as [Hia|Hia].
    + destruct (in_dec Pos.eq_dec b (candidates v)) as [Hib|Hib].
      * specialize (H2 a Hia). rewrite forallb_forall in H2. specialize (H2 b Hib).
        apply Pos.eqb_neq in Ha. apply Pos.eqb_neq in Hb. unfold ceqb in H2. rewrite Ha, Hb in H2. simpl in H2. apply Z.eqb_eq in H2. exact H2.
      * rewrite (pget0_outside v a b) by tauto. rewrite (pget0_outside v' a b) by (rewrite Hc; tauto). reflexivity.
    + rewrite (pget0_outside v a b) by tauto. rewrite (pget0_outside v' a b) by (rewrite Hc; tauto). reflexivity.
Qed.

(* Witness: the pairwise counts of the ranked profile
     B>A>D>C>E x1, E>D>C x3, E>B>A>C>D x1, C>A>B>E>D x3, B>D>A>E>C x2, A>D>C x1, E>C>B>A>D x1
   (A..E = 1..5; RankedToCondorcetVotes), before and after the single ballot B>A>D>C>E becomes B>A>C>D>E
   (C moves one place up: (C,D) 5 -> 6, (D,C) 7 -> 6).  Before: C is the only candidate with two path-wins and
   wins alone; after: D no longer reaches anybody, A and E gain a path-win over B each and tie with C. *)
Definition mk_pv (l : list (Z * Z * Z)) : pvotes := map (fun x => ((Z.to_pos (fst (fst x)), Z.to_pos (snd (fst x))), snd x)) l.
Definition mono_v : pvotes := mk_pv
  [(1,2,4);(1,3,5);(1,4,7);(1,5,7);(2,1,5);(2,3,4);(2,4,8);(2,5,6);(3,1,7);(3,2,8);(3,4,5);(3,5,5);
   (4,1,5);(4,2,4);(4,3,7);(4,5,4);(5,1,5);(5,2,5);(5,3,7);(5,4,8)].
Definition mono_v' : pvotes := mk_pv
  [(1,2,4);(1,3,5);(1,4,7);(1,5,7);(2,1,5);(2,3,4);(2,4,8);(2,5,6);(3,1,7);(3,2,8);(3,4,6);(3,5,5);
   (4,1,5);(4,2,4);(4,3,6);(4,5,4);(5,1,5);(5,2,5);(5,3,7);(5,4,8)].

Definition nodup_keys_b (v : pvotes) : bool :=
  (fix go (l : list pair) : bool := match l with [] => true | p :: t => negb (existsb (peqb p) t) && go t end) (map fst v).
Lemma nodup_keys_b_sound v : nodup_keys_b v = true -> NoDup (map fst v).
Proof.
  unfold nodup_keys_b. induction (map fst v) as [|p t IH]; intros H; [constructor|].
  apply andb_true_iff in H. destruct H as [H1 H2]. constructor; [|apply IH, H2].
  intros Hin. apply negb_true_iff in H1. assert (Hex : existsb (peqb p) t = true) by (apply existsb_exists; exists p; split; [exact Hin|apply peqb_refl]).
  congruence.
Qed.
Lemma nonneg_b_sound (v : pvotes) : forallb (fun pn : pair * Z => 0 <=? snd pn) v = true -> forall p n, In (p, n) v -> 0 <= n.
Proof. intros H p n Hin. rewrite forallb_forall in H. specialize (H _ Hin). apply Z.leb_le in H. exact H. Qed.

Theorem schulze_monotone_refuted :
  NoDup (map fst mono_v) /\ NoDup (map fst mono_v') /\
  (forall p n, In (p, n) mono_v -> 0 <= n) /\ (forall p n, In (p, n) mono_v' -> 0 <= n) /\
  raises mono_v mono_v' 3%positive /\
  schulze mono_v (candidates mono_v) 1 = [Cand 3%positive] /\
  schulze mono_v' (candidates mono_v') 1 = [TieR [1%positive; 3%positive; 5%positive]].
Proof.
  split; [apply nodup_keys_b_sound; vm_compute; reflexivity|].
  split; [apply nodup_keys_b_sound; vm_compute; reflexivity|].
  split; [apply nonneg_b_sound; vm_compute; reflexivity|].
  split; [apply nonneg_b_sound; vm_compute; reflexivity|].
  split; [apply raises_b_sound; vm_compute; reflexivity|].
  split; vm_compute; reflexivity.
Qed.

(* ---------------------------------------------------------------- the table is the table of strongest beat-paths *)
Definition le_tab (p q : pvotes) : Prop := forall x, pget0 p x <= pget0 q x.
Lemma le_tab_refl p : le_tab p p.
Proof. intros x. lia. Qed.
Lemma le_tab_trans p q r : le_tab p q -> le_tab q r -> le_tab p r.
Proof. intros H1 H2 x. specialize (H1 x). specialize (H2 x). lia. Qed.

Lemma wp_upd_get' paths c1 c2 ca x : pget0 (wp_upd paths c1 c2 ca) x =
  if peqb x (c2, ca) then Z.max (pget0 paths (c2, ca)) (Z.min (pget0 paths (c2, c1)) (pget0 paths (c1, ca)))
  else pget0 paths x.
Proof. unfold wp_upd. apply pget0_pset. Qed.

Lemma wp_upd_mono paths c1 c2 ca : le_tab paths (wp_upd paths c1 c2 ca).
Proof.
  intros x. rewrite wp_upd_get'. destruct (peqb x (c2, ca)) eqn:E; [|lia]. apply peqb_eq in E. subst x. lia.
Qed.
Lemma wp_inner_mono c1 c2 paths ca : le_tab paths (wp_inner c1 c2 paths ca).
Proof. unfold wp_inner. destruct (_ || _); [apply le_tab_refl|apply wp_upd_mono]. Qed.
Lemma fold_mono {B} (f : pvotes -> B -> pvotes) (l : list B) :
  (forall a x, le_tab a (f a x)) -> forall a, le_tab a (fold_left f l a).
Proof.
  intros H a. apply (fold_left_ind_in (fun r => le_tab a r)); [|apply le_tab_refl].
  intros r x _ Hr. eapply le_tab_trans; [exact Hr|apply H].
Qed.
Lemma wp_mid_mono order c1 paths c2 : le_tab paths (wp_mid order c1 paths c2).
Proof. unfold wp_mid. destruct (ceqb c1 c2); [apply le_tab_refl|]. apply fold_mono. intros a x. apply wp_inner_mono. Qed.
Lemma wp_outer_mono order paths c1 : le_tab paths (wp_outer order paths c1).
Proof. unfold wp_outer. apply fold_mono. intros a x. apply wp_mid_mono. Qed.

Lemma fold_left_establish {A B} (J : A -> Prop) (Q : B -> A -> Prop) (f : A -> B -> A) (l : list B) :
  (forall a x, In x l -> J a -> J (f a x)) ->
  (forall a x, In x l -> J a -> Q x (f a x)) ->
  (forall a x y, In x l -> J a -> Q y a -> Q y (f a x)) ->
  forall a, J a -> J (fold_left f l a) /\ forall x, In x l -> Q x (fold_left f l a).
Proof.
  intros HJ HQ HS a Ha.
  assert (H : forall l' a', (forall x, In x l' -> In x l) -> J a' ->
            J (fold_left f l' a') /\ (forall y, Q y a' -> Q y (fold_left f l' a')) /\ forall x, In x l' -> Q x (fold_left f l' a')).
  { induction l' as [|x l' IH]; intros a' Hsub Ha'; simpl; [split; [exact Ha'|split; [tauto|intros x []]]|].
    assert (Hx : In x l) by (apply Hsub; left; reflexivity).
    destruct (IH (f a' x) (fun y Hy => Hsub y (or_intror Hy)) (HJ a' x Hx Ha')) as (I1 & I2 & I3).
    split; [exact I1|]. split.
    - intros y Hy. apply I2. apply HS; assumption.
    - intros y [<-|Hy]; [apply I2, HQ; assumption|apply I3, Hy]. }
  destruct (H l a (fun x Hx => Hx) Ha) as (H1 & _ & H3). split; assumption.
Qed.

Lemma fold_left_prefix {A B} (Inv : list B -> A -> Prop) (f : A -> B -> A) (l : list B) :
  (forall pre x a, In x l -> Inv pre a -> Inv (pre ++ [x]) (f a x)) ->
  forall pre a, Inv pre a -> Inv (pre ++ l) (fold_left f l a).
Proof.
  induction l as [|x l IH]; intros H pre a Ha; simpl; [rewrite app_nil_r; exact Ha|].
  replace (pre ++ x :: l) with ((pre ++ [x]) ++ l) by (rewrite <- app_assoc; reflexivity).
  apply IH; [intros pre' y a' Hy; apply H; right; exact Hy|]. apply H; [left; reflexivity|exact Ha].
Qed.

(* one phase of the outer loop (intermediate candidate k): row k and column k are untouched, nothing shrinks, and
   every other entry (c2, ca) has absorbed min (c2 -> k) (k -> ca) *)
Section PHASE.
  Variable order : list C.
  Variable k : C.
  Variable P0 : pvotes.

  Definition keepk (paths : pvotes) : Prop :=
    le_tab P0 paths /\ (forall x, pget0 paths (x, k) = pget0 P0 (x, k)) /\ (forall x, pget0 paths (k, x) = pget0 P0 (k, x)).

  Lemma keepk_upd paths c2 ca : c2 <> k -> ca <> k -> keepk paths -> keepk (wp_upd paths k c2 ca).
  Proof.
    intros H2 Ha (Hm & Hc & Hr). split; [eapply le_tab_trans; [exact Hm|apply wp_upd_mono]|]. split.
    - intros x. rewrite wp_upd_get'. destruct (peqb (x, k) (c2, ca)) eqn:E; [|apply Hc]. apply peqb_eq in E. congruence.
    - intros x. rewrite wp_upd_get'. destruct (peqb (k, x) (c2, ca)) eqn:E; [|apply Hr]. apply peqb_eq in E. congruence.
  Qed.

  Lemma keepk_inner c2 paths ca : c2 <> k -> keepk paths -> keepk (wp_inner k c2 paths ca).
  Proof.
    intros H2 HK. unfold wp_inner. destruct (ceqb ca k) eqn:E1; [exact HK|]. destruct (ceqb ca c2) eqn:E2; [exact HK|].
    simpl. apply Pos.eqb_neq in E1. apply keepk_upd; assumption.
  Qed.

  Definition absorbed (c2 ca : C) (paths : pvotes) : Prop :=
    c2 <> k -> ca <> k -> ca <> c2 -> Z.min (pget0 P0 (c2, k)) (pget0 P0 (k, ca)) <= pget0 paths (c2, ca).

  Lemma absorbed_mono c2 ca p q : le_tab p q -> absorbed c2 ca p -> absorbed c2 ca q.
  Proof. intros Hm H A B D. specialize (H A B D). specialize (Hm (c2, ca)). lia. Qed.

  Lemma phase_mid c2 paths : keepk paths ->
    keepk (wp_mid order k paths c2) /\ forall ca, In ca order -> absorbed c2 ca (wp_mid order k paths c2).
  Proof.
    intros HK. unfold wp_mid. destruct (ceqb k c2) eqn:E.
    - apply Pos.eqb_eq in E. split; [exact HK|]. intros ca _ A. congruence.
    - apply Pos.eqb_neq in E. assert (E' : c2 <> k) by congruence.
      apply (fold_left_establish keepk (absorbed c2) (wp_inner k c2) order).
      + intros a x _ Ha. apply keepk_inner; assumption.
      + intros a ca _ (Hm & Hc & Hr) A B D. unfold wp_inner.
        apply Pos.eqb_neq in B. apply Pos.eqb_neq in D. unfold ceqb. rewrite B, D. simpl.
        rewrite wp_upd_get', peqb_refl, Hc, Hr. lia.
      + intros a x y _ _. apply absorbed_mono, wp_inner_mono.
      + exact HK.
  Qed.

  Lemma phase_outer : keepk P0 -> keepk (wp_outer order P0 k) /\
    forall c2 ca, In c2 order -> In ca order -> absorbed c2 ca (wp_outer order P0 k).
  Proof.
    intros HK. unfold wp_outer.
    destruct (fold_left_establish keepk (fun c2 paths => forall ca, In ca order -> absorbed c2 ca paths) (wp_mid order k) order) with (a := P0) as [H1 H2].
    - intros a x _ Ha. apply phase_mid, Ha.
    - intros a x _ Ha. apply phase_mid, Ha.
    - intros a x y _ _ Hy ca Hca. eapply absorbed_mono; [apply wp_mid_mono|apply Hy, Hca].
    - exact HK.
    - split; [exact H1|]. intros c2 ca H2' Hca. apply H2; assumption.
  Qed.
End PHASE.

Lemma keepk_refl k P0 : keepk k P0 P0.
Proof. split; [apply le_tab_refl|]. split; reflexivity. Qed.

Section PATHS.
  Variable v : pvotes.
  Hypothesis Hnd : NoDup (map fst v).
  Hypothesis Hnn : forall p n, In (p, n) v -> 0 <= n.
  Notation cs := (candidates v).
  Notation d := (d0 v).

  (* reach s a b: there is a chain of direct wins from a to b, each with at least s winning votes *)
  Inductive reach (s : Z) : C -> C -> Prop :=
  | reach_one a b : s <= d a b -> reach s a b
  | reach_step a m b : s <= d a m -> reach s m b -> reach s a b.

  Lemma reach_trans s a m b : reach s a m -> reach s m b -> reach s a b.
  Proof. induction 1 as [a m H|a x m H _ IH]; intros Hb; [eapply reach_step; eassumption|eapply reach_step; [exact H|apply IH, Hb]]. Qed.

  (* soundness, any order: an entry of at least s is witnessed by a chain *)
  Theorem wp_sound order a b s : s <= pget0 (widest_paths v order) (a, b) -> reach s a b.
  Proof.
    revert a b s. apply (wp_ind (fun paths => forall a b s, s <= pget0 paths (a, b) -> reach s a b)).
    - intros a b s. rewrite (wp_init_get v Hnd). apply reach_one.
    - intros paths c1 c2 ca _ _ _ _ _ _ IH a b s. rewrite wp_upd_get'.
      destruct (peqb (a, b) (c2, ca)) eqn:E; [|apply IH]. apply peqb_eq in E. injection E as -> ->. intros H.
      destruct (Z_le_gt_dec s (pget0 paths (c2, ca))) as [Hle|Hgt]; [apply IH, Hle|].
      apply (reach_trans s c2 c1 ca); apply IH; lia.
  Qed.

  (* chains whose intermediate candidates all lie in K *)
  Inductive reachK (s : Z) (K : list C) : C -> C -> Prop :=
  | rk_one a b : s <= d a b -> reachK s K a b
  | rk_step a m b : In m K -> reachK s K a m -> reachK s K m b -> reachK s K a b.

  Lemma reachK_split s K K' k : (forall m, In m K' -> m = k \/ In m K) ->
    forall a b, reachK s K' a b -> reachK s K a b \/ (reachK s K a k /\ reachK s K k b).
  Proof.
    intros HK. induction 1 as [a b H|a m b Hm _ IH1 _ IH2]; [left; apply rk_one, H|].
    destruct (HK m Hm) as [->|Hin].
    - right. split; [destruct IH1 as [H|[H _]]; exact H|destruct IH2 as [H|[_ H]]; exact H].
    - destruct IH1 as [L1|[A1 B1]], IH2 as [L2|[A2 B2]].
      + left. eapply rk_step; eassumption.
      + right. split; [eapply rk_step; eassumption|exact B2].
      + right. split; [exact A1|eapply rk_step; eassumption].
      + right. split; assumption.
  Qed.

  Lemma d_pos_cs a b s : 0 < s -> s <= d a b -> In a cs /\ In b cs.
  Proof.
    intros Hs H. assert (Hp : 0 < d a b) by lia. destruct (d0_pos v a b Hp) as [_ He]. rewrite He in Hp. apply (pos_in_cs v a b Hp).
  Qed.

  Lemma reachK_cs s K a b : 0 < s -> reachK s K a b -> In a cs /\ In b cs.
  Proof. intros Hs. induction 1 as [a b H|a m b _ _ IH1 _ IH2]; [apply (d_pos_cs a b s Hs H)|tauto]. Qed.

  Lemma reach_reachK s K a b : 0 < s -> incl cs K -> reach s a b -> reachK s K a b.
  Proof.
    intros Hs HK. induction 1 as [a b H|a m b H _ IH]; [apply rk_one, H|].
    apply (rk_step s K a m b); [apply HK; apply (d_pos_cs a m s Hs H)|apply rk_one, H|exact IH].
  Qed.

  Definition complete_upto (K : list C) (paths : pvotes) : Prop :=
    forall s a b, 0 < s -> a <> b -> reachK s K a b -> s <= pget0 paths (a, b).

  (* completeness, orders that list every candidate: every chain is accounted for *)
  Theorem wp_complete order a b s : incl cs order -> 0 < s -> a <> b -> reach s a b ->
    s <= pget0 (widest_paths v order) (a, b).
  Proof.
    intros Hincl Hs Hab Hr. rewrite widest_paths_unfold.
    assert (Hinv : complete_upto ([] ++ order) (fold_left (wp_outer order) order (wp_init v))).
    { apply (fold_left_prefix complete_upto (wp_outer order) order).
      - intros pre k P0 Hk Hinv s' a' b' Hs' Hab' Hr'.
        destruct (phase_outer order k P0 (keepk_refl k P0)) as [(Hm & _ & _) Habs].
        destruct (reachK_cs s' _ a' b' Hs' Hr') as [Ha' Hb'].
        destruct (reachK_split s' pre (pre ++ [k]) k) with (a := a') (b := b') as [L|[A B]].
        + intros m Hm'. apply in_app_iff in Hm'. destruct Hm' as [H|[H|[]]]; [right; exact H|left; congruence].
        + exact Hr'.
        + specialize (Hinv s' a' b' Hs' Hab' L). specialize (Hm (a', b')). lia.
        + destruct (Pos.eq_dec a' k) as [->|Hak].
          { specialize (Hinv s' k b' Hs' Hab' B). specialize (Hm (k, b')). lia. }
          destruct (Pos.eq_dec b' k) as [->|Hbk].
          { specialize (Hinv s' a' k Hs' Hab' A). specialize (Hm (a', k)). lia. }
          pose proof (Hinv s' a' k Hs' Hak A) as H1. pose proof (Hinv s' k b' Hs' (fun E => Hbk (eq_sym E)) B) as H2.
          pose proof (Habs a' b' (Hincl a' Ha') (Hincl b' Hb') Hak Hbk (fun E => Hab' (eq_sym E))) as H3. lia.
      - intros s' a' b' Hs' Hab' Hr'. inversion Hr' as [? ? H|? m ? Hm]; subst; [|destruct Hm].
        rewrite (wp_init_get v Hnd). exact H. }
    simpl in Hinv. apply Hinv; [exact Hs|exact Hab|]. apply reach_reachK; assumption.
  Qed.

  Theorem wp_spec order a b s : incl cs order -> 0 < s -> a <> b ->
    (s <= pget0 (widest_paths v order) (a, b) <-> reach s a b).
  Proof. intros Hi Hs Hab. split; [apply wp_sound|apply wp_complete; assumption]. Qed.

  Lemma wp_diag order a : pget0 (widest_paths v order) (a, a) = 0.
  Proof.
    pose proof (P_nonneg0 v Hnd Hnn order (a, a)) as H0. destruct (wp_G v Hnd order) as (_ & _ & Gp).
    destruct (Z.eq_dec (pget0 (widest_paths v order) (a, a)) 0) as [E|E]; [exact E|].
    assert (Hp : 0 < pget0 (widest_paths v order) (a, a)) by lia. apply Gp in Hp. tauto.
  Qed.

  (* the table does not depend on the order in which the candidate set is iterated *)
  Theorem wp_order_irrelevant order1 order2 p : incl cs order1 -> incl cs order2 ->
    pget0 (widest_paths v order1) p = pget0 (widest_paths v order2) p.
  Proof.
    intros H1 H2. destruct p as [a b]. destruct (Pos.eq_dec a b) as [->|Hab]; [rewrite !wp_diag; reflexivity|].
    assert (Hle : forall o o', incl cs o -> incl cs o' -> pget0 (widest_paths v o) (a, b) <= pget0 (widest_paths v o') (a, b)).
    { intros o o' Ho Ho'. pose proof (P_nonneg0 v Hnd Hnn o' (a, b)) as H0.
      destruct (Z_le_gt_dec (pget0 (widest_paths v o) (a, b)) 0) as [Hz|Hp]; [lia|].
      apply (wp_complete o' a b _ Ho'); [lia|exact Hab|]. apply (wp_sound o). lia. }
    apply Z.le_antisymm; apply Hle; assumption.
  Qed.
End PATHS.

(* ---------------------------------------------------------------- the evaluator does not depend on the iteration order *)
Lemma dset_same_keys {X} (t : list (C * X)) k x : In k (map fst t) -> map fst (dset t k x) = map fst t.
Proof.
  induction t as [|[k0 x0] t IH]; simpl; [tauto|]. intros H. destruct (ceqb k k0) eqn:E; [reflexivity|].
  simpl. f_equal. apply IH. destruct H as [H|H]; [|exact H]. subst k0. rewrite Pos.eqb_refl in E. discriminate.
Qed.

Lemma dict_canonical (t : list (C * Z)) : NoDup (map fst t) -> t = map (fun c => (c, dget_or t c 0)) (map fst t).
Proof.
  induction t as [|[k x] t IH]; intros H; [reflexivity|]. inversion H as [|? ? Hk Ht]; subst.
  cbn [map fst]. f_equal.
  - unfold dget_or. cbn [dget]. rewrite Pos.eqb_refl. reflexivity.
  - rewrite (IH Ht) at 1. apply map_ext_in. intros c Hc. f_equal. unfold dget_or. cbn [dget].
    destruct (ceqb c k) eqn:E; [|reflexivity]. apply Pos.eqb_eq in E. subst c. contradiction.
Qed.

Lemma sch_fold_same_keys (ws : list pair) : forall d,
  (forall p, In p ws -> In (fst p) (map fst d) /\ In (snd p) (map fst d)) ->
  map fst (fold_left sch_step ws d) = map fst d.
Proof.
  induction ws as [|p ws IH]; intros d H; [reflexivity|]. simpl fold_left.
  assert (Hk : map fst (sch_step d p) = map fst d).
  { unfold sch_step, dadd. destruct (H p (or_introl eq_refl)) as [H1 H2].
    rewrite dset_same_keys; rewrite dset_same_keys; try reflexivity; assumption. }
  rewrite IH; [exact Hk|]. intros q Hq. rewrite Hk. apply H. right. exact Hq.
Qed.

Section ORDER.
  Variable v : pvotes.
  Hypothesis Hnd : NoDup (map fst v).
  Hypothesis Hnn : forall p n, In (p, n) v -> 0 <= n.
  Notation cs := (candidates v).

  Lemma sscores_canonical order :
    sscores v order = map (fun c => (c, Z.of_nat (length (opponents (widest_paths v order) c)))) cs.
  Proof.
    destruct (sscores_facts v Hnd Hnn order) as (Sn & _ & _).
    assert (Hseed : map fst (map (fun c : C => (c, 0)) cs) = cs) by (rewrite map_map; simpl; apply map_id).
    assert (Hk : map fst (sscores v order) = cs).
    { unfold sscores. rewrite sch_fold_same_keys; [exact Hseed|]. intros [a b] Hp. rewrite Hseed.
      apply (wins_iff _ (P_nodup v Hnd order) (P_nonneg v Hnd Hnn order)) in Hp. apply (P_beats_cs v Hnd Hnn order) in Hp. simpl. tauto. }
    rewrite (dict_canonical _ Sn) at 1. rewrite Hk. apply map_ext. intros c. f_equal.
    unfold sscores. rewrite sch_fold_get, seeded_get. unfold opponents. rewrite map_length. rewrite Z.add_0_l. reflexivity.
  Qed.

  Theorem schulze_order_irrelevant order1 order2 n : incl cs order1 -> incl cs order2 ->
    schulze v order1 n = schulze v order2 n.
  Proof.
    intros H1 H2. rewrite !schulze_unfold. fold (sscores v order1). fold (sscores v order2).
    rewrite !sscores_canonical. f_equal. apply map_ext. intros c. do 2 f_equal.
    apply Permutation_length. apply NoDup_Permutation; try (apply opponents_NoDup, P_nodup; exact Hnd).
    intros y. rewrite (opponents_spec _ (P_nodup v Hnd order1) (P_nonneg v Hnd Hnn order1)).
    rewrite (opponents_spec _ (P_nodup v Hnd order2) (P_nonneg v Hnd Hnn order2)).
    unfold beats. rewrite (wp_order_irrelevant v Hnd Hnn order1 order2 (y, c) H1 H2), (wp_order_irrelevant v Hnd Hnn order1 order2 (c, y) H1 H2). reflexivity.
  Qed.
End ORDER.

(* ---------------------------------------------------------------- what raising w does to the table (C17, the part that holds) *)
Section RAISE.
  Variables v v' : pvotes.
  Variable w : C.
  Hypothesis Hnd : NoDup (map fst v).
  Hypothesis Hnd' : NoDup (map fst v').
  Hypothesis Hnn : forall p n, In (p, n) v -> 0 <= n.
  Hypothesis Hnn' : forall p n, In (p, n) v' -> 0 <= n.
  Hypothesis Hr : raises v v' w.
  Variable order : list C.
  Hypothesis Hord : incl (candidates v) order.

  Lemma d0_out x : d0 v w x <= d0 v' w x.
  Proof.
    destruct Hr as (_ & Hup & _). destruct (Hup x) as [H1 H2]. unfold d0.
    destruct (pget0 v (x, w) <? pget0 v (w, x)) eqn:E, (pget0 v' (x, w) <? pget0 v' (w, x)) eqn:E';
      try apply Z.ltb_lt in E; try apply Z.ltb_lt in E'; try apply Z.ltb_ge in E; try apply Z.ltb_ge in E';
      pose proof (pget0_nonneg v' Hnn' (w, x)); lia.
  Qed.
  Lemma d0_in x : d0 v' x w <= d0 v x w.
  Proof.
    destruct Hr as (_ & Hup & _). destruct (Hup x) as [H1 H2]. unfold d0.
    destruct (pget0 v (w, x) <? pget0 v (x, w)) eqn:E, (pget0 v' (w, x) <? pget0 v' (x, w)) eqn:E';
      try apply Z.ltb_lt in E; try apply Z.ltb_lt in E'; try apply Z.ltb_ge in E; try apply Z.ltb_ge in E';
      pose proof (pget0_nonneg v Hnn (x, w)); lia.
  Qed.
  Lemma d0_same a b : a <> w -> b <> w -> d0 v' a b = d0 v a b.
  Proof. destruct Hr as (_ & _ & Hs). intros Ha Hb. unfold d0. rewrite (Hs a b Ha Hb), (Hs b a Hb Ha). reflexivity. Qed.

  (* a chain that starts in w need not come back to w: it only uses links out of w and links among the others *)
  Lemma reach_out_aux s a x : reach v s a x -> x <> w -> reach v' s w x \/ (a <> w /\ reach v' s a x).
  Proof.
    induction 1 as [a b H|a m b H _ IH]; intros Hb.
    - destruct (Pos.eq_dec a w) as [->|Ha].
      + left. apply reach_one. pose proof (d0_out b). lia.
      + right. split; [exact Ha|]. apply reach_one. rewrite (d0_same a b Ha Hb). exact H.
    - destruct (IH Hb) as [L|[Hm R]]; [left; exact L|].
      destruct (Pos.eq_dec a w) as [->|Ha].
      + left. apply (reach_step v' s w m b); [pose proof (d0_out m); lia|exact R].
      + right. split; [exact Ha|]. apply (reach_step v' s a m b); [rewrite (d0_same a m Ha Hm); exact H|exact R].
  Qed.

  (* a chain that ends in w need not pass through w before *)
  Lemma reach_in_aux s a b : reach v' s a b -> b = w -> a <> w -> reach v s a w.
  Proof.
    induction 1 as [a b H|a m b H _ IH]; intros -> Ha.
    - apply reach_one. pose proof (d0_in a). lia.
    - destruct (Pos.eq_dec m w) as [->|Hm].
      + apply reach_one. pose proof (d0_in a). lia.
      + apply (reach_step v s a m w); [rewrite <- (d0_same a m Ha Hm); exact H|apply IH; [reflexivity|exact Hm]].
  Qed.

  Notation P := (widest_paths v order).
  Notation P' := (widest_paths v' order).

  Lemma ord_incl' : incl (candidates v') order.
  Proof. destruct Hr as (Hc & _). rewrite Hc. exact Hord. Qed.

  (* strongest paths out of w do not weaken, strongest paths into w do not strengthen *)
  Theorem raise_paths_out x : pget0 P (w, x) <= pget0 P' (w, x).
  Proof.
    destruct (Pos.eq_dec x w) as [->|Hx]; [rewrite (wp_diag v Hnd Hnn), (wp_diag v' Hnd' Hnn'); lia|].
    pose proof (P_nonneg0 v' Hnd' Hnn' order (w, x)) as H0.
    destruct (Z_le_gt_dec (pget0 P (w, x)) 0) as [Hz|Hp]; [lia|].
    apply (wp_complete v' Hnd' order w x _ ord_incl'); [lia|congruence|].
    destruct (reach_out_aux _ w x (wp_sound v Hnd order w x _ (Z.le_refl _)) Hx) as [H|[H _]]; [exact H|congruence].
  Qed.

  Theorem raise_paths_in x : pget0 P' (x, w) <= pget0 P (x, w).
  Proof.
    destruct (Pos.eq_dec x w) as [->|Hx]; [rewrite (wp_diag v Hnd Hnn), (wp_diag v' Hnd' Hnn'); lia|].
    pose proof (P_nonneg0 v Hnd Hnn order (x, w)) as H0.
    destruct (Z_le_gt_dec (pget0 P' (x, w)) 0) as [Hz|Hp]; [lia|].
    apply (wp_complete v Hnd order x w _ Hord); [lia|exact Hx|].
    apply (reach_in_aux _ x w (wp_sound v' Hnd' order x w _ (Z.le_refl _)) eq_refl Hx).
  Qed.

  (* hence every path-win of w is kept and no path-defeat of w appears *)
  Corollary raise_keeps_wins x : beats P w x -> beats P' w x.
  Proof. unfold beats. pose proof (raise_paths_out x). pose proof (raise_paths_in x). lia. Qed.
  Corollary raise_no_new_defeat x : beats P' x w -> beats P x w.
  Proof. unfold beats. pose proof (raise_paths_out x). pose proof (raise_paths_in x). lia. Qed.

  (* Schulze's own winner criterion (no path-defeat) is monotone *)
  Corollary raise_potential_winner : (forall x, pget0 P (x, w) <= pget0 P (w, x)) -> forall x, pget0 P' (x, w) <= pget0 P' (w, x).
  Proof. intros H x. pose proof (H x). pose proof (raise_paths_out x). pose proof (raise_paths_in x). lia. Qed.

  (* the score votelib ranks by (number of path-wins) does not drop for w *)
  Corollary raise_score : dget_or (sscores v order) w 0 <= dget_or (sscores v' order) w 0.
  Proof.
    unfold sscores. rewrite !sch_fold_get, !seeded_get. apply Zplus_le_compat_l. apply inj_le.
    assert (E : forall u, length (filter (fun p : pair => ceqb (fst p) w) (pairwise_wins u false)) = length (opponents u w))
      by (intros u; unfold opponents; rewrite map_length; reflexivity).
    rewrite !E.
    apply NoDup_incl_length; [apply opponents_NoDup, P_nodup, Hnd|].
    intros y Hy. apply (opponents_spec _ (P_nodup v Hnd order) (P_nonneg v Hnd Hnn order)) in Hy.
    apply (opponents_spec _ (P_nodup v' Hnd' order) (P_nonneg v' Hnd' Hnn' order)). apply raise_keeps_wins, Hy.
  Qed.
End RAISE.

(* Second witness, six candidates: the sole winner LOSES.  Ranked profile (A..F = 1..6)
     D>A>F>B>E>C x3, A>F>C>B>D>E x1, C>E>D>A x1, C>B>D>F>E>A x2, D>B>C>E>F>A x2, E>C>A>F>D>B x3, E>A>F>C>D>B x2;
   one of the three ballots D>A>F>B>E>C becomes D>A>F>E>B>C (E moves one place up: (E,B) 6 -> 7, (B,E) 8 -> 7).
   Before: E has three path-wins, A and C two: E wins alone.  After: B no longer beats E, the strength-8 paths through
   B->E disappear, C now has four path-wins and D three: C wins alone, E is third. *)
Definition mono6_v : pvotes := mk_pv
  [(1,2,10);(1,3,6);(1,4,6);(1,5,4);(1,6,10);(2,1,4);(2,3,5);(2,4,3);(2,5,8);(2,6,4);(3,1,8);(3,2,9);(3,4,9);(3,5,6);(3,6,8);
   (4,1,8);(4,2,11);(4,3,5);(4,5,8);(4,6,8);(5,1,10);(5,2,6);(5,3,8);(5,4,6);(5,6,8);(6,1,4);(6,2,9);(6,3,6);(6,4,6);(6,5,6)].
Definition mono6_v' : pvotes := mk_pv
  [(1,2,10);(1,3,6);(1,4,6);(1,5,4);(1,6,10);(2,1,4);(2,3,5);(2,4,3);(2,5,7);(2,6,4);(3,1,8);(3,2,9);(3,4,9);(3,5,6);(3,6,8);
   (4,1,8);(4,2,11);(4,3,5);(4,5,8);(4,6,8);(5,1,10);(5,2,7);(5,3,8);(5,4,6);(5,6,8);(6,1,4);(6,2,9);(6,3,6);(6,4,6);(6,5,6)].

Theorem schulze_monotone_refuted_loses :
  NoDup (map fst mono6_v) /\ NoDup (map fst mono6_v') /\
  (forall p n, In (p, n) mono6_v -> 0 <= n) /\ (forall p n, In (p, n) mono6_v' -> 0 <= n) /\
  raises mono6_v mono6_v' 5%positive /\
  schulze mono6_v (candidates mono6_v) 1 = [Cand 5%positive] /\
  schulze mono6_v' (candidates mono6_v') 1 = [Cand 3%positive] /\
  schulze mono6_v' (candidates mono6_v') 3 = [Cand 3%positive; Cand 4%positive; Cand 5%positive].
Proof.
  split; [apply nodup_keys_b_sound; vm_compute; reflexivity|].
  split; [apply nodup_keys_b_sound; vm_compute; reflexivity|].
  split; [apply nonneg_b_sound; vm_compute; reflexivity|].
  split; [apply nonneg_b_sound; vm_compute; reflexivity|].
  split; [apply raises_b_sound; vm_compute; reflexivity|].
  split; [vm_compute; reflexivity|]. split; vm_compute; reflexivity.
Qed.
