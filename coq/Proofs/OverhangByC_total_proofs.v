(* ByParty's allocator (highest averages over the constituencies, started from a party's first round seats) hands out
   exactly the seats the party has nationally beyond its first round seats: the party's total is its national seats. *)
From Coq Require Import ZArith QArith List Bool Lia Permutation.
From VL Require Import Prelude.PyDict Model.HighestAverages Model.OverhangByC
     Proofs.Dict_proofs Proofs.HA_proofs Proofs.HAUnique_proofs Proofs.Biprop_proofs Proofs.Divisor_proofs
     Proofs.OverhangByC_proofs Proofs.OverhangByC_ha_proofs.
Import ListNotations.
Open Scope Z_scope.

Lemma dget_or_le_zsum (pp : list (C * Z)) c : (forall x, In x pp -> 0 <= snd x) -> dget_or pp c 0 <= zsum (map snd pp).
Proof.
  intros H. unfold dget_or. induction pp as [|[k v] t IH]; simpl; [rewrite zsum_nil; lia|].
  rewrite zsum_cons. assert (Ht : forall x, In x t -> 0 <= snd x) by (intros x Hx; apply H; right; exact Hx).
  pose proof (H (k, v) (or_introl eq_refl)) as Hv. simpl in Hv.
  assert (0 <= zsum (map snd t)) by (apply zsum_map_nonneg; exact Ht).
  destruct (ceqb c k); [lia|]. specialize (IH Ht). lia.
Qed.

Lemma count_le_length c l : count c l <= Z.of_nat (length l).
Proof. induction l as [|x l IH]; simpl; [lia|]. destruct (ceqb c x); lia. Qed.

Section TOT.
  Variable d : Z -> Q.
  Variable pv : list (C * Q).
  Variable pp : list (C * Z).
  Variable np : Z.
  Hypothesis Hd : divisor_ok d.
  Hypothesis Hv : forall c v, In (c, v) pv -> (0 <= v)%Q.
  Hypothesis Hnd : NoDup (map fst pv).
  Hypothesis Hpn : forall x, In x pp -> 0 <= snd x.
  Hypothesis Hpd : NoDup (map fst pp).
  Hypothesis Hne : pv <> [].
  Hypothesis Hle : zsum (map snd pp) <= np.

  Notation fin := (final_state d pv np pp []).

  Lemma pp_nonneg c : 0 <= dget_or pp c 0.
  Proof.
    unfold dget_or. destruct (dget pp c) as [v|] eqn:E; [|lia]. apply dget_In in E. exact (Hpn _ E).
  Qed.

  Lemma fin_totals_nodup : NoDup (map fst (st_totals fin)).
  Proof. unfold final_state. apply loop_tot_wf. split; simpl; [exact Hpd|discriminate]. Qed.

  Lemma rem_zero : st_tie fin = None -> st_rem fin = 0.
  Proof.
    intros Ht. destruct Hd as [Hpos Hmono].
    destruct (ha_total d pv [] pp np Hpos Hmono Hv Hnd pp_nonneg) as [Hacc Hcase]; [lia|].
    rewrite Ht in Hacc. destruct Hcase as [H|(Hq & Hr & Hcap)]; [exact H|].
    destruct pv as [|[c0 v0] t] eqn:Epv; [congruence|].
    pose proof (Hcap c0 v0 (or_introl eq_refl)) as Hc. unfold cap_of, dget_or in Hc. simpl in Hc.
    pose proof (ha_account d (( c0, v0) :: t) [] pp np Hpos Hmono Hv Hnd pp_nonneg c0) as Ha.
    pose proof (dget_or_le_zsum pp c0 Hpn). pose proof (count_le_length c0 (map fst (st_awards fin))) as Hcl.
    rewrite map_length in Hcl. rewrite Epv in *. unfold tot in *. lia.
  Qed.

  Theorem allocate_total gains : HighestAverages.evaluate d pv np pp [] = HA_ok gains None ->
    zsum (map snd gains) = np - zsum (map snd pp).
  Proof.
    unfold evaluate. destruct (initial_quotients d pv pp [] np) as [|q0 qs]; [discriminate|].
    intros [= <- Ht]. destruct Hd as [Hpos Hmono].
    pose proof (rem_zero Ht) as Hrem.
    destruct (ha_total d pv [] pp np Hpos Hmono Hv Hnd pp_nonneg) as [Hacc _]; [lia|].
    rewrite Ht, Hrem in Hacc.
    pose proof (ha_account d pv [] pp np Hpos Hmono Hv Hnd pp_nonneg) as Ha.
    pose proof fin_totals_nodup as Hn.
    set (aw := map fst (st_awards fin)) in *.
    assert (Hlen : Z.of_nat (length aw) = np - zsum (map snd pp)) by (subst aw; rewrite map_length; lia).
    rewrite <- Hlen.
    (* every awarded constituency is a key of the totals *)
    assert (Hkeys : forall x, In x aw -> In x (map fst (st_totals fin))).
    { intros x Hx. destruct (in_dec Pos.eq_dec x (map fst (st_totals fin))) as [Hi|Hni]; [exact Hi|exfalso].
      assert (Hz : dget_or (st_totals fin) x 0 = 0).
      { unfold dget_or. destruct (dget (st_totals fin) x) as [v|] eqn:E; [|reflexivity].
        apply dget_In in E. exfalso. apply Hni. apply in_map_iff. exists (x, v). auto. }
      pose proof (Ha x) as Hax. unfold tot in Hax. rewrite Hz in Hax.
      pose proof (count_in_pos x aw Hx). pose proof (pp_nonneg x). lia. }
    rewrite <- (ksum_count aw (map fst (st_totals fin)) Hn Hkeys). unfold ksum. rewrite map_map.
    (* gains, entry by entry *)
    set (f := fun ct : C * Z => let (c, t) := ct in let g := t - dget_or pp c 0 in if 0 <? g then [(c, g)] else []).
    assert (Hent : forall l, (forall ct, In ct l -> snd ct = dget_or pp (fst ct) 0 + count (fst ct) aw) ->
              zsum (map snd (flat_map f l)) = zsum (map (fun ct => count (fst ct) aw) l)).
    { induction l as [|[c t] l IH]; intros H; [reflexivity|].
      change (flat_map f ((c, t) :: l)) with (f (c, t) ++ flat_map f l).
      change (map (fun ct : C * Z => count (fst ct) aw) ((c, t) :: l))
        with (count c aw :: map (fun ct : C * Z => count (fst ct) aw) l).
      rewrite map_app, zsum_app, zsum_cons, IH by (intros ct Hct; apply H; right; exact Hct).
      pose proof (H (c, t) (or_introl eq_refl)) as Hc. simpl in Hc. pose proof (count_nonneg c aw).
      unfold f. destruct (0 <? t - dget_or pp c 0) eqn:E; cbn [map snd]; rewrite ?zsum_cons, ?zsum_nil;
        [apply Z.ltb_lt in E|apply Z.ltb_ge in E]; lia. }
    apply Hent. intros [c t] Hin. simpl. rewrite <- (Ha c). unfold tot, dget_or.
    rewrite (In_dget _ _ _ Hn Hin). reflexivity.
  Qed.
End TOT.

(* ------------------------------------------------------------------ all parties of the national result *)
Definition party_gain (gains : list (Cty * C * Z)) (p : C) : Z :=
  zsumf (fun g : Cty * C * Z => if ceqb (snd (fst g)) p then snd g else 0) gains.

Lemma zsumf_zsum {X} (f : X -> Z) l : zsumf f l = zsum (map f l).
Proof. induction l as [|x l IH]; [reflexivity|]. simpl. rewrite zsum_cons, IH. reflexivity. Qed.

Lemma party_gain_app a b p : party_gain (a ++ b) p = party_gain a p + party_gain b p.
Proof. apply zsumf_app. Qed.

Lemma party_gain_block (g : list (C * Z)) q p :
  party_gain (map (fun cs : C * Z => (fst cs, q, snd cs)) g) p = if ceqb q p then zsum (map snd g) else 0.
Proof.
  unfold party_gain. rewrite zsumf_map. simpl. destruct (ceqb q p).
  - rewrite zsumf_zsum. reflexivity.
  - apply zsumf_zero. reflexivity.
Qed.

Lemma bp_allocate_parties da votes prev overall : forall gains,
  bp_allocate da votes prev overall = BP_ok gains ->
  forall g, In g gains -> exists np, In (PK (snd (fst g)), np) overall.
Proof.
  induction overall as [|[[q|l] nq] t IH]; simpl; intros gains.
  - intros [= <-] g [].
  - destruct (HighestAverages.evaluate da (party_votes votes q) nq (party_prev prev q) []) as [gq tie|]; [|discriminate].
    destruct (bp_allocate da votes prev t) as [l0| |] eqn:Et; try discriminate.
    destruct tie; [discriminate|]. intros [= <-] g Hg. apply in_app_iff in Hg. destruct Hg as [Hg|Hg].
    + apply in_map_iff in Hg. destruct Hg as ([c s] & <- & _). simpl. exists nq. left. reflexivity.
    + destruct (IH l0 eq_refl g Hg) as (np & Hin). exists np. right. exact Hin.
  - destruct (bp_allocate da votes prev t); discriminate.
Qed.

Lemma party_gain_absent gains p : (forall g, In g gains -> snd (fst g) <> p) -> party_gain gains p = 0.
Proof.
  intros H. unfold party_gain. apply zsumf_zero. intros g Hg. destruct (ceqb (snd (fst g)) p) eqn:E; [|reflexivity].
  apply ceqb_eq in E. exfalso. exact (H g Hg E).
Qed.

Lemma party_prev_keys prev p : NoDup (map fst prev) -> NoDup (map fst (party_prev prev p)).
Proof.
  unfold party_prev. induction prev as [|[c g] t IH]; simpl; intros H; [constructor|].
  inversion H as [|? ? Hc Hn]; subst. destruct (kget pk_eqb g (PK p)) as [x|]; simpl; [|apply IH, Hn].
  constructor; [|apply IH, Hn]. intros Hin. apply Hc. apply in_map_iff in Hin. destruct Hin as ([c' x'] & <- & Hin).
  apply in_flat_map in Hin. destruct Hin as ([c'' g''] & Hin1 & Hin2). simpl in Hin2.
  destruct (kget pk_eqb g'' (PK p)); [|destruct Hin2]. destruct Hin2 as [[= <- <-]|[]]. apply in_map_iff. exists (c'', g''). auto.
Qed.

Lemma kget_In_nonneg (g : list (pk * Z)) k x : Forall (fun kv : pk * Z => 0 <= snd kv) g -> kget pk_eqb g k = Some x -> 0 <= x.
Proof.
  induction g as [|[k' v] t IH]; simpl; [discriminate|]. intros H. inversion H as [|? ? H1 H2]; subst.
  destruct (pk_eqb k k'); [intros [= <-]; exact H1|apply IH, H2].
Qed.

Lemma party_prev_nonneg prev p : wf_prev pk_eqb prev -> forall x, In x (party_prev prev p) -> 0 <= snd x.
Proof.
  intros [_ Hf] [c x] Hin. unfold party_prev in Hin. apply in_flat_map in Hin. destruct Hin as ([c' g] & Hin1 & Hin2).
  simpl in Hin2. destruct (kget pk_eqb g (PK p)) as [y|] eqn:E; [|destruct Hin2]. destruct Hin2 as [[= <- <-]|[]].
  rewrite Forall_forall in Hf. destruct (Hf _ Hin1) as [_ Hnn]. simpl. exact (kget_In_nonneg g (PK p) y Hnn E).
Qed.

(* the first round seats of a party, added over its dictionary entries = added over the constituencies *)
Lemma party_prev_zsum prev p :
  zsum (map snd (party_prev prev p)) = zsumf (fun cg : Cty * list (pk * Z) => kget0 pk_eqb (snd cg) (PK p)) prev.
Proof.
  unfold party_prev. induction prev as [|[c g] t IH]; [reflexivity|].
  cbn [flat_map zsumf fold_right fst snd]. rewrite map_app, zsum_app, IH.
  unfold kget0. destruct (kget pk_eqb g (PK p)); cbn [map snd]; rewrite ?zsum_cons, ?zsum_nil; unfold zsumf; lia.
Qed.
Lemma party_prev_sum prev p ctys : NoDup (map fst prev) -> NoDup ctys -> incl (map fst prev) ctys ->
  zsum (map snd (party_prev prev p)) = zsumf (fun c => direct pk_eqb prev c (PK p)) ctys.
Proof.
  intros Hn Hk Hi. rewrite party_prev_zsum.
  pose proof (zsumf_assoc (fun (c : C) (g : list (pk * Z)) => kget0 pk_eqb g (PK p)) [] (fun c => eq_refl) prev Hn ctys Hk Hi) as E.
  cbv beta in E. unfold direct. unfold Cty, C in *. rewrite E. reflexivity.
Qed.

Lemma tier_congr res a b : pk_eqb a b = true -> tier pk_eqb res a = tier pk_eqb res b.
Proof.
  intros H. unfold tier. apply existsb_ext'. intros cr _. apply (kmem_congr pk_eqb pk_eqb_sym pk_eqb_trans). exact H.
Qed.
Lemma direct_outside_zero res (g : list (pk * Z)) p y :
  Forall (fun pg : pk * Z => tier pk_eqb res (fst pg) = true \/ snd pg = 0) g ->
  tier pk_eqb res (PK p) = false -> kget pk_eqb g (PK p) = Some y -> y = 0.
Proof.
  intros Hg Et. induction g as [|[k v] t IH]; cbn [kget]; [discriminate|]. inversion Hg as [|? ? G1 G2]; subst.
  destruct (pk_eqb (PK p) k) eqn:Ek; [|apply IH, G2]. intros [= <-]. simpl in G1. destruct G1 as [G1|G1]; [|exact G1].
  rewrite <- (tier_congr res (PK p) k Ek) in G1. congruence.
Qed.

Section BPT.
  Variable da : Z -> Q.
  Variable votes : list (Cty * list (C * Q)).
  Variable prev : list (Cty * list (pk * Z)).
  Hypothesis Hda : divisor_ok da.
  Hypothesis Hvn : Forall (fun cv => Forall (fun pv : C * Q => (0 <= snd pv)%Q) (snd cv)) votes.
  Hypothesis Hvd : NoDup (map fst votes).
  Hypothesis Hvne : votes <> [].
  Hypothesis Hwp : wf_prev pk_eqb prev.

  Lemma party_votes_nonneg p c v : In (c, v) (party_votes votes p) -> (0 <= v)%Q.
  Proof.
    unfold party_votes. intros Hin. apply in_map_iff in Hin. destruct Hin as ([c' dv] & [= <- <-] & Hin).
    rewrite Forall_forall in Hvn. pose proof (Hvn _ Hin) as Hd. simpl in *. unfold dget_or.
    destruct (dget dv p) as [x|] eqn:E; [|apply Qle_refl]. apply dget_In in E. rewrite Forall_forall in Hd. exact (Hd _ E).
  Qed.
  Lemma party_votes_keys p : NoDup (map fst (party_votes votes p)).
  Proof. unfold party_votes. rewrite map_map. simpl. exact Hvd. Qed.
  Lemma party_votes_ne p : party_votes votes p <> [].
  Proof. unfold party_votes. destruct votes; [congruence|discriminate]. Qed.

  Theorem bp_allocate_totals overall : forall gains,
    bp_allocate da votes prev overall = BP_ok gains -> knodup pk_eqb overall ->
    forall p np, In (PK p, np) overall -> zsum (map snd (party_prev prev p)) <= np ->
    party_gain gains p = np - zsum (map snd (party_prev prev p)).
  Proof.
    induction overall as [|[[q|l] nq] t IH]; simpl; intros gains.
    - intros _ _ p np [].
    - destruct (HighestAverages.evaluate da (party_votes votes q) nq (party_prev prev q) []) as [gq tie|] eqn:Ee; [|discriminate].
      destruct (bp_allocate da votes prev t) as [l0| |] eqn:Et; try discriminate.
      destruct tie; [discriminate|]. intros [= <-] [Hh Hn] p np Hin Hle.
      rewrite party_gain_app, party_gain_block. destruct Hin as [[= -> ->]|Hin].
      + rewrite ceqb_refl.
        rewrite (allocate_total da (party_votes votes p) (party_prev prev p) np Hda (party_votes_nonneg p) (party_votes_keys p)
                   (party_prev_nonneg prev p Hwp) (party_prev_keys prev p (proj1 Hwp)) (party_votes_ne p) Hle gq Ee).
        rewrite party_gain_absent; [apply Z.add_0_r|]. intros g Hg Heq.
        destruct (bp_allocate_parties da votes prev t l0 Et g Hg) as (n' & Hin'). rewrite Heq in Hin'.
        assert (khas pk_eqb t (PK p) = true); [|congruence]. apply existsb_exists. exists (PK p, n'). split; [exact Hin'|apply pk_eqb_refl].
      + assert (Hqp : ceqb q p = false).
        { destruct (ceqb q p) eqn:E; [|reflexivity]. apply ceqb_eq in E. subst q.
          assert (khas pk_eqb t (PK p) = true); [|congruence]. apply existsb_exists. exists (PK p, np). split; [exact Hin|apply pk_eqb_refl]. }
        rewrite Hqp. rewrite (IH l0 eq_refl Hn p np Hin Hle). lia.
    - destruct (bp_allocate da votes prev t); discriminate.
  Qed.
End BPT.

(* AdjustedSeatCount(LevelOverhangByConstituency, ByParty) with all first round seats in the tier: every party of the
   national distribution of the enlarged house ends with exactly its national seats (first round seats + seats gained) *)
Theorem adjusted_byc_totals dc a dn da fuel votes n prev adj gains res :
  NoDup (map fst votes) -> votes <> [] -> wf_prev pk_eqb prev -> divisor_ok da ->
  Forall (fun cv => Forall (fun pv : C * Q => (0 <= snd pv)%Q) (snd cv)) votes ->
  adjusted_byc dc a (Ov_given dn) dn da fuel votes n prev = ASC adj (BP_ok gains) ->
  constituency_evaluator pk_eqb (ha_eval dc) PK a votes n = Ok res ->
  direct_in_tier pk_eqb res prev ->
  exists nat, ha_eval dn (qtotals votes) (n + adj) = Ok nat /\
    forall p np, In (PK p, np) nat ->
      zsumf (fun c => direct pk_eqb prev c (PK p)) (cty_list votes prev) + party_gain gains p = np.
Proof.
  intros Hvd Hvne Hwp Hda Hvn Hasc Hc Hdt.
  destruct (adjusted_byc_meaning dc a dn da fuel votes n prev adj (BP_ok gains) Hvd Hwp Hasc) as (Hadj & Hfin & _ & res' & Hc' & Hcov).
  rewrite Hc in Hc'. injection Hc' as <-. destruct (Hcov Hdt) as (nat & Hnat & Hk). exists nat. split; [exact Hnat|].
  intros p np Hin. destruct (ha_eval_wf dn _ _ _ Hnat) as [Hnd Hnn].
  assert (Hget : kget0 pk_eqb nat (PK p) = np).
  { unfold kget0. rewrite (knodup_In_kget pk_eqb pk_eqb_refl pk_eqb_sym pk_eqb_trans nat (PK p) np Hnd Hin). reflexivity. }
  assert (Hsum : zsum (map snd (party_prev prev p)) = zsumf (fun c => direct pk_eqb prev c (PK p)) (cty_list votes prev)).
  { apply party_prev_sum; [exact (proj1 Hwp)|apply cty_list_nodup|apply cty_list_prev]. }
  assert (Hle : zsum (map snd (party_prev prev p)) <= np).
  { rewrite Hsum. destruct (tier pk_eqb res (PK p)) eqn:Et.
    - destruct (Hk (PK p) Et) as [H1 _]. rewrite Hget in H1. exact H1.
    - (* a party outside the tier holds no first round seat *)
      rewrite <- Hsum. rewrite Forall_forall in Hnn. pose proof (Hnn _ Hin) as Hnp. simpl in Hnp.
      assert (Hz : forall x, In x (party_prev prev p) -> snd x = 0).
      { intros [c x] Hx. unfold party_prev in Hx. apply in_flat_map in Hx. destruct Hx as ([c' g] & Hx1 & Hx2). simpl in Hx2.
        destruct (kget pk_eqb g (PK p)) as [y|] eqn:E; [|destruct Hx2]. destruct Hx2 as [[= <- <-]|[]]. simpl.
        unfold direct_in_tier in Hdt. rewrite Forall_forall in Hdt. pose proof (Hdt _ Hx1) as Hg. simpl in Hg.
        exact (direct_outside_zero res g p y Hg Et E). }
      rewrite (zsum_map_ext snd (fun _ => 0) _ Hz). clear -Hnp. induction (party_prev prev p); simpl; [rewrite zsum_nil; exact Hnp|rewrite zsum_cons; lia]. }
  unfold adjusted_byc in Hasc. destruct (lobc_calculate dc a (Ov_given dn) fuel votes n prev) as [adj'| | |]; try discriminate.
  injection Hasc as <- Hbp. unfold by_party in Hbp. rewrite Hnat in Hbp.
  rewrite (bp_allocate_totals da votes prev Hda Hvn Hvd Hvne Hwp nat gains Hbp Hnd p np Hin Hle). lia.
Qed.
