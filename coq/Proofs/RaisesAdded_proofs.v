(* Two more ways in which a ranked profile can change in favour of the winner (C17), taken through the model of
   RankedToCondorcetVotes(unranked_at_bottom=True).convert ([Hybrids.pairwise]; lemmas of Proofs/Hybrids_proofs.v and
   Proofs/RaisesBallot_proofs.v):
   A. a candidate w that one ballot leaves UNRANKED (counted below every ranked candidate, level with the other unranked ones)
      becomes ranked on that ballot, anywhere: p1 ++ p2 becomes p1 ++ IP w :: p2 (bottom: p2 = [], top: p1 = []).
      The dictionary changes exactly by [rank_gain] ([pairwise_rank_exact]): count(w, c) += x for every member c of p2 and every
      other candidate the ballot leaves unranked, count(c, w) -= x for every member c of p2, nothing else; [raises_s] holds, a sole
      Copeland / minimax winner stays ([copeland_ballot_rank], [minimax_ballot_rank]).
   B. a ballot is ADDED that ranks w first.
      B1. the bullet vote [IP w]: count(w, c) += x for every other candidate of the profile, nothing else ([pairwise_bullet_exact]);
          [raises_s]; [copeland_ballot_added_bullet], [minimax_ballot_added_bullet].
      B2. a longer ballot IP w :: rest also changes the contests among the others: [raises_s] fails.  The weaker relation
          [lifts_by] (every count of w rises by d, no count against w rises, the other counts rise by at most d) holds
          ([pairwise_added_lifts]) and keeps a sole minimax winner for the scorers margins and pairwise opposition
          ([minimax_lifts], [minimax_ballot_added]); for Copeland and minimax with winning votes the clause is refuted by
          concrete profiles (at the end of the file). *)
From Coq Require Import ZArith QArith List Bool Lia Arith Permutation.
From VL Require Import Prelude.Sx Prelude.PyDict Prelude.GDict Model.GetNBest Model.Convert Model.STV Model.Condorcet Model.Hybrids
     Proofs.Dict_proofs Proofs.GetNBest_proofs Proofs.Condorcet_proofs Proofs.CopelandMono_proofs Proofs.Minimax_proofs
     Proofs.Hybrids_proofs Proofs.RaisesBallot_proofs.
Import ListNotations.
Open Scope Z_scope.

(* ------------------------------------------------------------------ a sole winner is a candidate of the dictionary *)
Lemma copeland_winner_cand (v : pvotes) (w : C) : NoDup (map fst v) -> (forall p n, In (p, n) v -> 0 <= n) ->
  copeland false v 1 = [Cand w] -> In w (candidates v).
Proof.
  intros Hnd Hnn H. rewrite copeland_raw_is_first_order in H.
  destruct (cscores_facts v Hnd Hnn) as (Sn & Sv & _).
  destruct (get_n_best_1_cand zle_bool zle_total zle_trans (cscores v) w [] Sn H) as (_ & sw & Hin & _).
  exact (proj2 (Sv w sw Hin)).
Qed.

Lemma minimax_winner_cand (v : pvotes) (w : C) (s : scorer) : (2 <= length (candidates v))%nat ->
  minimax s v 1 = [Cand w] -> In w (candidates v).
Proof.
  intros H2 Hwin. rewrite minimax_unfold in Hwin. destruct (mc_keys v H2 s) as [Kn Kk].
  set (nd := map (fun cs0 : C * Z => (fst cs0, - snd cs0)) (mc_of (score_pairs s (complete v)))) in *.
  assert (Nn : NoDup (map fst nd)) by (unfold nd; rewrite map_map; simpl; exact Kn).
  destruct (get_n_best_1_cand zle_bool zle_total zle_trans nd w [] Nn Hwin) as (_ & uw & Hinw & _).
  apply Kk. unfold nd in Hinw. apply in_map_iff in Hinw. destruct Hinw as ([w' mw] & Hf & Hin). simpl in Hf. injection Hf as Hf1 _. subst w'.
  apply in_map_iff. exists (w, mw). split; [reflexivity|exact Hin].
Qed.

(* ------------------------------------------------------------------ the candidates of a profile and of its dictionary *)
Lemma cands_of_insert pre post (b : ranked) (x : Z) c :
  In c (cands_of (pre ++ (b, x) :: post)) <-> In c (cands_of (pre ++ post)) \/ In c (flatten b).
Proof.
  rewrite !cands_of_spec. split.
  - intros (r & y & Hin & Hc). apply in_app_iff in Hin. destruct Hin as [Hin|[Hin|Hin]].
    + left. exists r, y. split; [apply in_app_iff; left; exact Hin|exact Hc].
    + injection Hin as <- <-. right. exact Hc.
    + left. exists r, y. split; [apply in_app_iff; right; exact Hin|exact Hc].
  - intros [(r & y & Hin & Hc)|Hc].
    + exists r, y. split; [|exact Hc]. apply in_app_iff in Hin. apply in_app_iff. destruct Hin as [Hin|Hin]; [left|right; right]; exact Hin.
    + exists b, x. split; [apply in_app_iff; right; left; reflexivity|exact Hc].
Qed.

Lemma candidates_pairwise_cands_of votes : wf_votes votes = true -> pairwise votes <> [] ->
  forall c, In c (candidates (pairwise votes)) <-> In c (cands_of votes).
Proof. intros Hwf Hne c. split; [apply candidates_pairwise_in|apply cands_in_pairwise; assumption]. Qed.

Lemma in_pairs_ext cs cs' r c : NoDup cs -> NoDup cs' -> (forall z, In z cs <-> In z cs') -> in_pairs cs r c -> in_pairs cs' r c.
Proof.
  intros Hn Hn' He (u & l & Hpos & Hc). exists u, l. split; [|exact Hc].
  rewrite <- (coef_cs_ext cs cs' r u l Hn Hn' He). exact Hpos.
Qed.

Lemma candidates_pairwise_incl (V V' : rvotes) :
  (forall r y c, In (r, y) V -> in_pairs (cands_of V) r c -> exists r' y', In (r', y') V' /\ in_pairs (cands_of V') r' c) ->
  forall c, In c (candidates (pairwise V)) -> In c (candidates (pairwise V')).
Proof.
  intros H c. rewrite !candidates_pairwise. intros (r & y & Hin & Hp). exact (H r y c Hin Hp).
Qed.

Lemma pairwise_ne_incl (V V' : rvotes) :
  (forall c, In c (candidates (pairwise V)) -> In c (candidates (pairwise V'))) -> pairwise V <> [] -> pairwise V' <> [].
Proof.
  intros H Hne.
  assert (Hu : exists u, In u (candidates (pairwise V))).
  { destruct (pairwise V) as [|[[u l] n] t]; [congruence|]. exists u.
    apply candidates_spec. exists (u, l), n. split; [left; reflexivity|left; reflexivity]. }
  destruct Hu as [u Hu]. apply H in Hu. intros E2. rewrite E2 in Hu. exact Hu.
Qed.

Lemma in_insert {X} (pre post : list X) (e e' z : X) : In z (pre ++ e :: post) -> z = e \/ In z (pre ++ e' :: post).
Proof.
  intros H. apply in_app_iff in H. destruct H as [H|[H|H]]; [right; apply in_app_iff; left; exact H|left; symmetry; exact H|].
  right. apply in_app_iff. right. right. exact H.
Qed.

Lemma in_insert_skip {X} (pre post : list X) (e z : X) : In z (pre ++ post) -> In z (pre ++ e :: post).
Proof. intros H. apply in_app_iff in H. apply in_app_iff. destruct H as [H|H]; [left|right; right]; exact H. Qed.

Lemma in_insert_inv {X} (pre post : list X) (e z : X) : In z (pre ++ e :: post) -> z = e \/ In z (pre ++ post).
Proof.
  intros H. apply in_app_iff in H. destruct H as [H|[H|H]]; [right; apply in_app_iff; left; exact H|left; symmetry; exact H|].
  right. apply in_app_iff. right. exact H.
Qed.

Lemma wf_insert pre post (b : ranked) (x : Z) :
  wf_votes (pre ++ (b, x) :: post) = true <-> wf_votes (pre ++ post) = true /\ NoDup (flatten b) /\ 0 <= x.
Proof.
  rewrite !wf_votes_spec. split.
  - intros H. split; [|apply (H b x); apply in_app_iff; right; left; reflexivity].
    intros r y Hin. apply (H r y). apply in_insert_skip, Hin.
  - intros (H & Hb & Hx) r y Hin. apply in_insert_inv in Hin. destruct Hin as [Hin|Hin]; [injection Hin as -> ->; split; assumption|apply (H r y Hin)].
Qed.

(* ================================================================== A. an unranked winner becomes ranked *)
Lemma above_out_l r a c : ~ In a (flatten r) -> above r a c = 0.
Proof.
  induction r as [|i t IH]; intros H; [reflexivity|]. rewrite flatten_cons in H. cbn [above].
  rewrite IH by (intros H1; apply H, in_or_app; right; exact H1).
  rewrite (cnt_notin a (members i)) by (intros H1; apply H, in_or_app; left; exact H1). ring.
Qed.

Lemma above_out_r r a c : ~ In c (flatten r) -> above r a c = 0.
Proof.
  induction r as [|i t IH]; intros H; [reflexivity|]. rewrite flatten_cons in H. cbn [above].
  rewrite IH by (intros H1; apply H, in_or_app; right; exact H1).
  rewrite (cnt_notin c (flatten t)) by (intros H1; apply H, in_or_app; right; exact H1). ring.
Qed.

(* what ranking w between p1 and p2 adds to the coefficient of the pair (a, c): w now counts above the members of p2 and above the
   candidates the new ballot still leaves unranked; the members of p2 no longer count above w *)
Definition rank_gain (cs : list C) (p1 p2 : ranked) (w a c : C) : Z :=
  cnt a [w] * (cnt c (flatten p2) + cnt c (set_diff cs (flatten (p1 ++ IP w :: p2)))) - cnt a (flatten p2) * cnt c [w].

Lemma flatten_rank p1 p2 w c : In c (flatten (p1 ++ IP w :: p2)) <-> c = w \/ In c (flatten (p1 ++ p2)).
Proof.
  rewrite !flatten_app, flatten_cons, !in_app_iff. cbn [members In]. split; [intros [H|[[H|[]]|H]]|intros [H|[H|H]]]; auto.
Qed.

Lemma coef_rank cs p1 p2 w a c : NoDup cs -> In w cs -> ~ In w (flatten (p1 ++ p2)) ->
  Hybrids_proofs.coef cs (p1 ++ IP w :: p2) a c = Hybrids_proofs.coef cs (p1 ++ p2) a c + rank_gain cs p1 p2 w a c.
Proof.
  intros Hn Hw Hout. unfold Hybrids_proofs.coef, rank_gain. rewrite !above_app. cbn [above members].
  rewrite !cnt_set_diff.
  assert (Ew : cnt w cs = 1) by (rewrite (cnt_nodup w cs Hn); apply cmem_iff in Hw; rewrite Hw; reflexivity).
  destruct (ceqb c w) eqn:E.
  - apply ceqb_eq in E. subst c.
    assert (E1 : cmem w (flatten (p1 ++ IP w :: p2)) = true) by (apply cmem_iff, flatten_rank; left; reflexivity).
    assert (E2 : cmem w (flatten (p1 ++ p2)) = false) by (apply cmem_false, Hout).
    rewrite E1, E2, Ew. rewrite !flatten_app, !flatten_cons, !cnt_app. cbn [members]. rewrite !cnt_single, ceqb_refl.
    rewrite flatten_app in Hout.
    rewrite (cnt_notin w (flatten p2)) by (intros H; apply Hout, in_or_app; right; exact H).
    ring.
  - assert (E1 : cmem c (flatten (p1 ++ IP w :: p2)) = cmem c (flatten (p1 ++ p2))).
    { destruct (cmem c (flatten (p1 ++ p2))) eqn:E2.
      - apply cmem_iff, flatten_rank. right. apply cmem_iff, E2.
      - apply cmem_false. intros H. apply flatten_rank in H. destruct H as [->|H]; [rewrite ceqb_refl in E; discriminate|].
        apply cmem_iff in H. congruence. }
    rewrite E1. rewrite !flatten_app, !flatten_cons, !cnt_app. cbn [members]. rewrite !cnt_single, E.
    destruct (ceqb a w); ring.
Qed.

Lemma rank_gain_w cs p1 p2 w c : ~ In w (flatten p2) ->
  rank_gain cs p1 p2 w w c = cnt c (flatten p2) + cnt c (set_diff cs (flatten (p1 ++ IP w :: p2))).
Proof. intros H. unfold rank_gain. rewrite cnt_single, ceqb_refl, (cnt_notin w _ H). ring. Qed.

Lemma rank_gain_to_w cs p1 p2 w a : a <> w -> rank_gain cs p1 p2 w a w = - cnt a (flatten p2).
Proof.
  intros Ha. unfold rank_gain. rewrite !cnt_single, ceqb_refl.
  destruct (ceqb a w) eqn:E; [apply ceqb_eq in E; congruence|]. ring.
Qed.

Lemma rank_gain_others cs p1 p2 w a c : a <> w -> c <> w -> rank_gain cs p1 p2 w a c = 0.
Proof.
  intros Ha Hc. unfold rank_gain. rewrite !cnt_single.
  destruct (ceqb a w) eqn:E1; [apply ceqb_eq in E1; congruence|].
  destruct (ceqb c w) eqn:E2; [apply ceqb_eq in E2; congruence|]. ring.
Qed.

Lemma rank_gain_ext cs cs' p1 p2 w a c : NoDup cs -> NoDup cs' -> (forall z, In z cs <-> In z cs') ->
  rank_gain cs p1 p2 w a c = rank_gain cs' p1 p2 w a c.
Proof.
  intros Hn Hn' He. unfold rank_gain. rewrite !cnt_set_diff, (cnt_nodup c cs Hn), (cnt_nodup c cs' Hn'), (cmem_ext cs cs' c He). reflexivity.
Qed.

Section RANK.
  Variables pre post : rvotes.
  Variables p1 p2 : ranked.
  Variable x : Z.
  Variable w : C.
  Notation b := (p1 ++ p2).
  Notation b' := (p1 ++ IP w :: p2).
  Notation L1 := (pre ++ (b, x) :: post).
  Notation L2 := (pre ++ (b', x) :: post).

  Hypothesis Hout : ~ In w (flatten b).          (* the ballot leaves w unranked *)
  Hypothesis Hw : In w (cands_of L1).            (* w occurs somewhere in the profile *)

  Lemma rank_cands_of c : In c (cands_of L2) <-> In c (cands_of L1).
  Proof.
    rewrite !cands_of_insert, flatten_rank. split; [|tauto].
    intros [H|[->|H]]; [left; exact H| |right; exact H]. exact (proj1 (cands_of_insert pre post b x w) Hw).
  Qed.

  Lemma rank_coef r a c : Hybrids_proofs.coef (cands_of L2) r a c = Hybrids_proofs.coef (cands_of L1) r a c.
  Proof. apply coef_cs_ext; [apply cands_of_nodup|apply cands_of_nodup|apply rank_cands_of]. Qed.

  (* the pairwise dictionary of the new profile, entry by entry *)
  Theorem pairwise_rank_exact a c :
    pget0 (pairwise L2) (a, c) = pget0 (pairwise L1) (a, c) + x * rank_gain (cands_of L1) p1 p2 w a c.
  Proof.
    rewrite !pairwise_get.
    rewrite (wsum_ext (fun r => Hybrids_proofs.coef (cands_of L2) r a c) (fun r => Hybrids_proofs.coef (cands_of L1) r a c) L2)
      by (intros; apply rank_coef).
    rewrite !wsum_app, !wsum_cons, (coef_rank _ p1 p2 w a c (cands_of_nodup _) Hw Hout). ring.
  Qed.

  Lemma in_pairs_rank c : in_pairs (cands_of L1) b c -> in_pairs (cands_of L1) b' c.
  Proof.
    intros (u & l & Hpos & Hc). set (cs := cands_of L1) in *.
    pose proof (coef_rank cs p1 p2 w u l (cands_of_nodup _) Hw Hout) as E.
    destruct (Z_le_gt_dec 0 (rank_gain cs p1 p2 w u l)) as [Hj|Hj]; [exists u, l; split; [lia|exact Hc]|].
    (* a lost pair is (u, w) with u a member of p2: the new ballot has (w, u) instead *)
    assert (Hp2 : ~ In w (flatten p2)) by (intros H; apply Hout; rewrite flatten_app; apply in_or_app; right; exact H).
    unfold rank_gain in Hj. pose proof (cnt_nonneg u [w]). pose proof (cnt_nonneg l (flatten p2)).
    pose proof (cnt_nonneg l (set_diff cs (flatten b'))). pose proof (cnt_nonneg u (flatten p2)). pose proof (cnt_nonneg l [w]).
    assert (Hu : 0 < cnt u (flatten p2)) by nia. assert (Hl : 0 < cnt l [w]) by nia.
    apply cnt_pos in Hl. destruct Hl as [<-|[]].
    exists w, u. split; [|tauto].
    rewrite (coef_rank cs p1 p2 w w u (cands_of_nodup _) Hw Hout), (rank_gain_w cs p1 p2 w u Hp2).
    pose proof (coef_nonneg cs b w u). pose proof (cnt_nonneg u (set_diff cs (flatten b'))). lia.
  Qed.

  Lemma rank_cands_incl c : In c (candidates (pairwise L1)) -> In c (candidates (pairwise L2)).
  Proof.
    apply candidates_pairwise_incl. clear c. intros r y c Hin Hp.
    assert (Hp' : forall r0, in_pairs (cands_of L1) r0 c -> in_pairs (cands_of L2) r0 c).
    { intros r0. apply in_pairs_ext; [apply cands_of_nodup|apply cands_of_nodup|]. intros z. symmetry. apply rank_cands_of. }
    destruct (in_insert pre post (b, x) (b', x) (r, y) Hin) as [E|Hin'].
    - injection E as -> ->. exists b', x. split; [apply in_app_iff; right; left; reflexivity|]. apply Hp', in_pairs_rank, Hp.
    - exists r, y. split; [exact Hin'|apply Hp', Hp].
  Qed.

  Hypothesis Hwf : wf_votes L1 = true.
  Hypothesis Hne : pairwise L1 <> [].

  Lemma wf_rank : wf_votes L2 = true.
  Proof.
    apply wf_insert in Hwf. destruct Hwf as (H1 & Hb & Hx). apply wf_insert. split; [exact H1|]. split; [|exact Hx].
    eapply Permutation_NoDup; [|constructor; [exact Hout|exact Hb]].
    rewrite !flatten_app, flatten_cons. cbn [members app]. apply Permutation_middle.
  Qed.

  Lemma rank_ne : pairwise L2 <> [].
  Proof. exact (pairwise_ne_incl L1 L2 rank_cands_incl Hne). Qed.

  Theorem pairwise_rank_cands c : In c (candidates (pairwise L2)) <-> In c (candidates (pairwise L1)).
  Proof.
    rewrite (candidates_pairwise_cands_of L2 wf_rank rank_ne), (candidates_pairwise_cands_of L1 Hwf Hne). apply rank_cands_of.
  Qed.

  Theorem pairwise_rank_raises : raises_s (pairwise L1) (pairwise L2) w.
  Proof.
    assert (Hx : 0 <= x) by (apply wf_insert in Hwf; tauto).
    assert (Hp2 : ~ In w (flatten p2)) by (intros H; apply Hout; rewrite flatten_app; apply in_or_app; right; exact H).
    split; [exact pairwise_rank_cands|]. split.
    - intros c. rewrite !pairwise_rank_exact. split.
      + rewrite (rank_gain_w _ p1 p2 w c Hp2). pose proof (cnt_nonneg c (flatten p2)).
        pose proof (cnt_nonneg c (set_diff (cands_of L1) (flatten b'))). nia.
      + destruct (Pos.eq_dec c w) as [->|Hc].
        * rewrite (rank_gain_w _ p1 p2 w w Hp2). rewrite (cnt_notin w _ Hp2), cnt_set_diff.
          assert (E : cmem w (flatten b') = true) by (apply cmem_iff, flatten_rank; left; reflexivity). rewrite E. lia.
        * rewrite (rank_gain_to_w _ p1 p2 w c Hc). pose proof (cnt_nonneg c (flatten p2)). nia.
    - intros a c Ha Hc. rewrite pairwise_rank_exact, (rank_gain_others _ p1 p2 w a c Ha Hc). ring.
  Qed.
End RANK.

(* the packaged statements: converter followed by the evaluator; w is a candidate of the profile because it wins *)
Lemma winner_in_profile votes w : In w (candidates (pairwise votes)) -> In w (cands_of votes) /\ pairwise votes <> [].
Proof. intros H. split; [apply candidates_pairwise_in, H|]. intros E. rewrite E in H. exact H. Qed.

Theorem copeland_ballot_rank pre post p1 p2 x w so :
  wf_votes (pre ++ (p1 ++ p2, x) :: post) = true -> ~ In w (flatten (p1 ++ p2)) ->
  copeland false (pairwise (pre ++ (p1 ++ p2, x) :: post)) 1 = [Cand w] ->
  copeland so (pairwise (pre ++ (p1 ++ IP w :: p2, x) :: post)) 1 = [Cand w].
Proof.
  intros Hwf Hout Hwin.
  destruct (winner_in_profile _ w (copeland_winner_cand _ w (pairwise_nodup _) (pairwise_nonneg _ Hwf) Hwin)) as [Hw Hne].
  pose proof (wf_rank pre post p1 p2 x w Hout Hwf) as Hwf'.
  apply (copeland_monotone_s _ _ w (pairwise_nodup _) (pairwise_nodup _) (pairwise_nonneg _ Hwf) (pairwise_nonneg _ Hwf')); [|exact Hwin].
  apply pairwise_rank_raises; assumption.
Qed.

Theorem minimax_ballot_rank pre post p1 p2 x w s :
  wf_votes (pre ++ (p1 ++ p2, x) :: post) = true -> ~ In w (flatten (p1 ++ p2)) ->
  minimax s (pairwise (pre ++ (p1 ++ p2, x) :: post)) 1 = [Cand w] ->
  minimax s (pairwise (pre ++ (p1 ++ IP w :: p2, x) :: post)) 1 = [Cand w].
Proof.
  intros Hwf Hout Hwin.
  assert (Hne : pairwise (pre ++ (p1 ++ p2, x) :: post) <> []).
  { intros E. rewrite E in Hwin. destruct s; vm_compute in Hwin; discriminate Hwin. }
  pose proof (pairwise_two _ Hwf Hne) as H2.
  destruct (winner_in_profile _ w (minimax_winner_cand _ w s H2 Hwin)) as [Hw _].
  pose proof (wf_rank pre post p1 p2 x w Hout Hwf) as Hwf'.
  apply (minimax_monotone_s _ _ w (pairwise_nonneg _ Hwf) (pairwise_nonneg _ Hwf') H2); [|exact Hwin].
  apply pairwise_rank_raises; assumption.
Qed.

(* ================================================================== B. a ballot is added *)
Section ADDED.
  Variables pre post : rvotes.
  Variable r : ranked.
  Variable x : Z.
  Notation L1 := (pre ++ post).
  Notation L2 := (pre ++ (r, x) :: post).

  Hypothesis Hin : forall c, In c (flatten r) -> In c (cands_of L1).      (* no new candidate *)

  Lemma added_cands_of c : In c (cands_of L2) <-> In c (cands_of L1).
  Proof. rewrite cands_of_insert. split; [intros [H|H]; [exact H|apply Hin, H]|tauto]. Qed.

  Lemma added_coef r0 a c : Hybrids_proofs.coef (cands_of L2) r0 a c = Hybrids_proofs.coef (cands_of L1) r0 a c.
  Proof. apply coef_cs_ext; [apply cands_of_nodup|apply cands_of_nodup|apply added_cands_of]. Qed.

  (* every entry grows by x times the coefficient of the new ballot *)
  Theorem pairwise_added_exact a c :
    pget0 (pairwise L2) (a, c) = pget0 (pairwise L1) (a, c) + x * Hybrids_proofs.coef (cands_of L1) r a c.
  Proof.
    rewrite !pairwise_get.
    rewrite (wsum_ext (fun r0 => Hybrids_proofs.coef (cands_of L2) r0 a c) (fun r0 => Hybrids_proofs.coef (cands_of L1) r0 a c) L2)
      by (intros; apply added_coef).
    rewrite !wsum_app, !wsum_cons. ring.
  Qed.

  Lemma added_cands_incl c : In c (candidates (pairwise L1)) -> In c (candidates (pairwise L2)).
  Proof.
    apply candidates_pairwise_incl. clear c. intros r0 y c H0 Hp. exists r0, y. split; [apply in_insert_skip, H0|].
    revert Hp. apply in_pairs_ext; [apply cands_of_nodup|apply cands_of_nodup|]. intros z. symmetry. apply added_cands_of.
  Qed.

  Hypothesis Hwf : wf_votes L2 = true.
  Hypothesis Hne : pairwise L1 <> [].

  Lemma wf_added_old : wf_votes L1 = true.
  Proof. apply wf_insert in Hwf. tauto. Qed.

  Lemma added_ne : pairwise L2 <> [].
  Proof. exact (pairwise_ne_incl L1 L2 added_cands_incl Hne). Qed.

  Theorem pairwise_added_cands c : In c (candidates (pairwise L2)) <-> In c (candidates (pairwise L1)).
  Proof.
    rewrite (candidates_pairwise_cands_of L2 Hwf added_ne), (candidates_pairwise_cands_of L1 wf_added_old Hne). apply added_cands_of.
  Qed.
End ADDED.

(* ------------------------------------------------------------------ B1. the bullet vote *)
Lemma coef_bullet cs w a c : Hybrids_proofs.coef cs [IP w] a c = cnt a [w] * cnt c (set_diff cs [w]).
Proof. unfold Hybrids_proofs.coef. cbn [above flatten flat_map members app]. change (cnt c []) with 0. ring. Qed.

Section BULLET.
  Variables pre post : rvotes.
  Variable x : Z.
  Variable w : C.
  Notation L1 := (pre ++ post).
  Notation L2 := (pre ++ ([IP w], x) :: post).

  Hypothesis Hw : In w (cands_of L1).

  Lemma bullet_in c : In c (flatten [IP w]) -> In c (cands_of L1).
  Proof. cbn. intros [<-|[]]. exact Hw. Qed.

  (* count(w, c) += x for every other candidate c of the profile; nothing else changes *)
  Theorem pairwise_bullet_exact a c :
    pget0 (pairwise L2) (a, c) = pget0 (pairwise L1) (a, c) + x * (cnt a [w] * cnt c (set_diff (cands_of L1) [w])).
  Proof. rewrite (pairwise_added_exact pre post [IP w] x bullet_in), coef_bullet. reflexivity. Qed.

  Hypothesis Hwf : wf_votes L1 = true.
  Hypothesis Hx : 0 <= x.
  Hypothesis Hne : pairwise L1 <> [].

  Lemma wf_bullet : wf_votes L2 = true.
  Proof. apply wf_insert. split; [exact Hwf|]. split; [|exact Hx]. cbn. constructor; [intros []|constructor]. Qed.

  Theorem pairwise_bullet_cands c : In c (candidates (pairwise L2)) <-> In c (candidates (pairwise L1)).
  Proof. exact (pairwise_added_cands pre post [IP w] x bullet_in wf_bullet Hne c). Qed.

  Theorem pairwise_bullet_raises : raises_s (pairwise L1) (pairwise L2) w.
  Proof.
    split; [exact pairwise_bullet_cands|]. split.
    - intros c. rewrite !pairwise_bullet_exact, cnt_single, ceqb_refl. split.
      + pose proof (cnt_nonneg c (set_diff (cands_of L1) [w])). nia.
      + rewrite cnt_set_diff. assert (E : cmem w [w] = true) by (apply cmem_iff; left; reflexivity). rewrite E. lia.
    - intros a c Ha Hc. rewrite pairwise_bullet_exact, cnt_single.
      destruct (ceqb a w) eqn:E; [apply ceqb_eq in E; congruence|]. ring.
  Qed.
End BULLET.

Theorem copeland_ballot_added_bullet pre post x w so :
  wf_votes (pre ++ post) = true -> 0 <= x ->
  copeland false (pairwise (pre ++ post)) 1 = [Cand w] ->
  copeland so (pairwise (pre ++ ([IP w], x) :: post)) 1 = [Cand w].
Proof.
  intros Hwf Hx Hwin.
  destruct (winner_in_profile _ w (copeland_winner_cand _ w (pairwise_nodup _) (pairwise_nonneg _ Hwf) Hwin)) as [Hw Hne].
  pose proof (wf_bullet pre post x w Hwf Hx) as Hwf'.
  apply (copeland_monotone_s _ _ w (pairwise_nodup _) (pairwise_nodup _) (pairwise_nonneg _ Hwf) (pairwise_nonneg _ Hwf')); [|exact Hwin].
  apply pairwise_bullet_raises; assumption.
Qed.

Theorem minimax_ballot_added_bullet pre post x w s :
  wf_votes (pre ++ post) = true -> 0 <= x ->
  minimax s (pairwise (pre ++ post)) 1 = [Cand w] ->
  minimax s (pairwise (pre ++ ([IP w], x) :: post)) 1 = [Cand w].
Proof.
  intros Hwf Hx Hwin.
  assert (Hne : pairwise (pre ++ post) <> []).
  { intros E. rewrite E in Hwin. destruct s; vm_compute in Hwin; discriminate Hwin. }
  pose proof (pairwise_two _ Hwf Hne) as H2.
  destruct (winner_in_profile _ w (minimax_winner_cand _ w s H2 Hwin)) as [Hw _].
  pose proof (wf_bullet pre post x w Hwf Hx) as Hwf'.
  apply (minimax_monotone_s _ _ w (pairwise_nonneg _ Hwf) (pairwise_nonneg _ Hwf') H2); [|exact Hwin].
  apply pairwise_bullet_raises; assumption.
Qed.

(* ================================================================== B2. a longer added ballot IP w :: rest *)
(* minimax under a uniform shift e of the scores: every defeat of w shrinks by at least e, no defeat of another candidate shrinks
   by more than e.  ([minimax_monotone_s] is the case e = 0.) *)
Section MSHIFT.
  Variables v v' : pvotes.
  Variable w : C.
  Variable s : scorer.
  Variable e : Z.
  Hypothesis H2 : (2 <= length (candidates v))%nat.
  Hypothesis Hc : forall c, In c (candidates v') <-> In c (candidates v).
  Hypothesis Hdw : forall a, In a (candidates v) -> a <> w -> sc v' s a w <= sc v s a w - e.
  Hypothesis Hdo : forall a c, In a (candidates v) -> In c (candidates v) -> c <> w -> a <> c -> sc v s a c - e <= sc v' s a c.

  Lemma shift_cands_two : (2 <= length (candidates v'))%nat.
  Proof.
    eapply Nat.le_trans; [exact H2|]. apply NoDup_incl_length; [apply candidates_NoDup|].
    intros c Hcc. apply Hc, Hcc.
  Qed.

  Theorem minimax_shift : minimax s v 1 = [Cand w] -> minimax s v' 1 = [Cand w].
  Proof.
    intros Hwin. rewrite minimax_unfold in *.
    pose proof shift_cands_two as H2'.
    destruct (mc_keys v H2 s) as [Kn Kk]. destruct (mc_keys v' H2' s) as [Kn' Kk'].
    set (nd := map (fun cs0 : C * Z => (fst cs0, - snd cs0)) (mc_of (score_pairs s (complete v)))) in *.
    set (nd' := map (fun cs0 : C * Z => (fst cs0, - snd cs0)) (mc_of (score_pairs s (complete v')))).
    assert (Nn : NoDup (map fst nd)) by (unfold nd; rewrite map_map; simpl; exact Kn).
    assert (Nn' : NoDup (map fst nd')) by (unfold nd'; rewrite map_map; simpl; exact Kn').
    destruct (get_n_best_1_cand zle_bool zle_total zle_trans nd w [] Nn Hwin) as (_ & uw & Hinw & Hmax).
    assert (Hwc : In w (candidates v)).
    { apply Kk. unfold nd in Hinw. apply in_map_iff in Hinw. destruct Hinw as ([w' mw] & Hf & Hin). simpl in Hf. injection Hf as Hf1 _. subst w'.
      apply in_map_iff. exists (w, mw). split; [reflexivity|exact Hin]. }
    destruct (mc_value v H2 s w Hwc) as (mw & Hmw & Hubw & _).
    assert (Hwc' : In w (candidates v')) by (apply Hc; exact Hwc).
    destruct (mc_value v' H2' s w Hwc') as (mw' & Hmw' & _ & (a0 & Ha0 & Ha0w & Ea0)).
    assert (Huw : uw = - mw).
    { unfold nd in Hinw. apply in_map_iff in Hinw. destruct Hinw as ([w' m0] & Hf & Hin). simpl in Hf. injection Hf as Hf1 Hf2. subst w'.
      assert (m0 = mw); [|lia]. pose proof (In_dget _ w m0 Kn Hin) as G1. pose proof (In_dget _ w mw Kn Hmw) as G2. congruence. }
    (* the worst defeat of w shrinks by at least e *)
    assert (Hle_w : mw' <= mw - e).
    { rewrite <- Ea0. apply Hc in Ha0. pose proof (Hdw a0 Ha0 Ha0w). pose proof (Hubw a0 Ha0 Ha0w). lia. }
    apply (get_n_best_unique_max zle_bool zle_total zle_trans (Pos.eq_dec : forall a b : C, {a = b} + {a <> b}) nd' w (- mw') Nn').
    - unfold nd'. apply in_map_iff. exists (w, mw'). split; [reflexivity|exact Hmw'].
    - intros z u Hin' Hne. unfold nd' in Hin'. apply in_map_iff in Hin'. destruct Hin' as ([z' mz'] & Hf & Hzin'). simpl in Hf. injection Hf as -> <-.
      assert (Hzc' : In z (candidates v')) by (apply Kk'; apply in_map_iff; exists (z, mz'); split; [reflexivity|exact Hzin']).
      assert (Hzc : In z (candidates v)) by (apply Hc; exact Hzc').
      destruct (mc_value v H2 s z Hzc) as (mz & Hmz & _ & (a1 & Ha1 & Ha1z & Ea1)).
      destruct (mc_value v' H2' s z Hzc') as (mz2 & Hmz2 & Hubz' & _).
      assert (mz2 = mz') by (pose proof (In_dget _ z mz2 Kn' Hmz2) as G1; pose proof (In_dget _ z mz' Kn' Hzin') as G2; congruence). subst mz2.
      (* the worst defeat of z shrinks by at most e *)
      assert (Hge_z : mz - e <= mz').
      { rewrite <- Ea1. pose proof (Hdo a1 z Ha1 Hzc Hne Ha1z). pose proof (Hubz' a1 (proj2 (Hc a1) Ha1) Ha1z). lia. }
      assert (Hlt : - mz < uw).
      { assert (Hinz : In (z, - mz) nd) by (unfold nd; apply in_map_iff; exists (z, mz); split; [reflexivity|exact Hmz]).
        pose proof (Hmax z (- mz) Hinz Hne) as H. unfold GetNBest.ltb, zle_bool in H. apply negb_true_iff, Z.leb_gt in H. exact H. }
      unfold GetNBest.ltb, zle_bool. apply negb_true_iff, Z.leb_gt. lia.
  Qed.
End MSHIFT.

(* the relation between the dictionaries: w gains at least d against everybody, nobody gains against w, any other count grows by
   at most d.  Weaker than [raises_s] (d = 0 and the other counts equal). *)
Definition lifts_by (v v' : pvotes) (w : C) (d : Z) : Prop :=
  0 <= d /\
  (forall c, In c (candidates v') <-> In c (candidates v)) /\
  (forall c, In c (candidates v) -> c <> w -> pget0 v (w, c) + d <= pget0 v' (w, c) /\ pget0 v' (c, w) <= pget0 v (c, w)) /\
  (forall a c, a <> w -> c <> w -> pget0 v (a, c) <= pget0 v' (a, c) <= pget0 v (a, c) + d).

Lemma raises_s_lifts v v' w : raises_s v v' w -> lifts_by v v' w 0.
Proof.
  intros (H1 & H2 & H3). split; [lia|]. split; [exact H1|]. split.
  - intros c _ _. destruct (H2 c). lia.
  - intros a c Ha Hc. rewrite (H3 a c Ha Hc). lia.
Qed.

(* margins: the shift is d; pairwise opposition: the shift is 0.  (Winning votes: refuted below.) *)
Theorem minimax_lifts v v' w d s : s <> WinningVotes -> (2 <= length (candidates v))%nat -> lifts_by v v' w d ->
  minimax s v 1 = [Cand w] -> minimax s v' 1 = [Cand w].
Proof.
  intros Hs H2 (Hd & Hc & Hw & Ho).
  destruct s; [congruence| |].
  - apply (minimax_shift v v' w Margins d H2 Hc).
    + intros a Ha Haw. unfold sc. destruct (Hw a Ha Haw). lia.
    + intros a c Ha Hcc Hcw Hac. unfold sc. destruct (Pos.eq_dec a w) as [->|Haw].
      * destruct (Hw c Hcc Hcw). lia.
      * pose proof (Ho a c Haw Hcw). pose proof (Ho c a Hcw Haw). lia.
  - apply (minimax_shift v v' w PairwiseOpposition 0 H2 Hc).
    + intros a Ha Haw. unfold sc. destruct (Hw a Ha Haw). lia.
    + intros a c Ha Hcc Hcw Hac. unfold sc. destruct (Pos.eq_dec a w) as [->|Haw].
      * destruct (Hw c Hcc Hcw). lia.
      * pose proof (Ho a c Haw Hcw). lia.
Qed.

(* the coefficients of a ballot without a repeated candidate are 0 or 1 *)
Lemma above_le r a c : above r a c <= cnt a (flatten r) * cnt c (flatten r).
Proof.
  induction r as [|i t IH]; [cbn; lia|]. cbn [above]. rewrite flatten_cons, !cnt_app.
  pose proof (cnt_nonneg a (members i)). pose proof (cnt_nonneg c (members i)).
  pose proof (cnt_nonneg a (flatten t)). pose proof (cnt_nonneg c (flatten t)). nia.
Qed.

Lemma coef_le_1 cs r a c : NoDup cs -> NoDup (flatten r) -> Hybrids_proofs.coef cs r a c <= 1.
Proof.
  intros Hn Hr. unfold Hybrids_proofs.coef. pose proof (above_le r a c) as H. rewrite cnt_set_diff.
  rewrite (cnt_nodup a _ Hr), (cnt_nodup c _ Hr) in H. rewrite (cnt_nodup a _ Hr), (cnt_nodup c _ Hn).
  destruct (cmem a (flatten r)), (cmem c (flatten r)), (cmem c cs); lia.
Qed.

(* w alone on the first rank: it counts once above every other candidate of the profile, nobody counts above it *)
Lemma coef_first_w cs rest w c : NoDup cs -> NoDup (flatten (IP w :: rest)) -> In c cs -> c <> w ->
  Hybrids_proofs.coef cs (IP w :: rest) w c = 1.
Proof.
  intros Hn Hr Hc Hcw. rewrite flatten_cons in Hr. cbn [members app] in Hr. inversion Hr as [|? ? Hw Hrest]; subst.
  unfold Hybrids_proofs.coef. cbn [above members]. rewrite flatten_cons. cbn [members].
  change ([w] ++ flatten rest) with (w :: flatten rest).
  rewrite (above_out_l rest w c Hw), cnt_set_diff, (cnt_cons w w (flatten rest)), (cnt_notin w _ Hw), cnt_single, ceqb_refl.
  rewrite (cnt_nodup c _ Hrest), (cnt_nodup c _ Hn). apply cmem_iff in Hc. rewrite Hc. cbn [cmem].
  destruct (ceqb c w) eqn:E; [apply ceqb_eq in E; congruence|]. cbn [orb]. destruct (cmem c (flatten rest)); cbn [negb]; lia.
Qed.

Lemma coef_first_to_w cs rest w c : ~ In w (flatten rest) -> Hybrids_proofs.coef cs (IP w :: rest) c w = 0.
Proof.
  intros Hw. unfold Hybrids_proofs.coef. cbn [above]. rewrite (above_out_r rest c w Hw), (cnt_notin w _ Hw), cnt_set_diff.
  assert (E : cmem w (flatten (IP w :: rest)) = true) by (apply cmem_iff; left; reflexivity). rewrite E. ring.
Qed.

Section LONG.
  Variables pre post : rvotes.
  Variable rest : ranked.
  Variable x : Z.
  Variable w : C.
  Notation L1 := (pre ++ post).
  Notation L2 := (pre ++ (IP w :: rest, x) :: post).

  Hypothesis Hw : In w (cands_of L1).
  Hypothesis Hrest : forall c, In c (flatten rest) -> In c (cands_of L1).
  Hypothesis Hwf : wf_votes L2 = true.
  Hypothesis Hne : pairwise L1 <> [].

  Lemma long_in c : In c (flatten (IP w :: rest)) -> In c (cands_of L1).
  Proof. rewrite flatten_cons. cbn [members app In]. intros [<-|H]; [exact Hw|apply Hrest, H]. Qed.

  Theorem pairwise_added_lifts : lifts_by (pairwise L1) (pairwise L2) w x.
  Proof.
    pose proof Hwf as Hwf0. apply wf_insert in Hwf0. destruct Hwf0 as (Hwf1 & Hnd & Hx).
    assert (Hwr : ~ In w (flatten rest)) by (rewrite flatten_cons in Hnd; cbn [members app] in Hnd; inversion Hnd; assumption).
    split; [exact Hx|]. split; [exact (pairwise_added_cands pre post (IP w :: rest) x long_in Hwf Hne)|]. split.
    - intros c Hc Hcw. rewrite !(pairwise_added_exact pre post (IP w :: rest) x long_in).
      apply candidates_pairwise_in in Hc.
      rewrite (coef_first_w _ rest w c (cands_of_nodup _) Hnd Hc Hcw), (coef_first_to_w _ rest w c Hwr). lia.
    - intros a c Ha Hc. rewrite (pairwise_added_exact pre post (IP w :: rest) x long_in).
      pose proof (coef_nonneg (cands_of L1) (IP w :: rest) a c). pose proof (coef_le_1 (cands_of L1) (IP w :: rest) a c (cands_of_nodup _) Hnd). nia.
  Qed.
End LONG.

(* ANY added ballot that ranks w alone on the first rank (shared ranks and truncation after it allowed), lists no candidate twice
   and names no new candidate keeps a sole minimax winner w for margins and pairwise opposition *)
Theorem minimax_ballot_added pre post rest x w s : s <> WinningVotes ->
  wf_votes (pre ++ (IP w :: rest, x) :: post) = true ->
  (forall c, In c (flatten rest) -> In c (cands_of (pre ++ post))) ->
  minimax s (pairwise (pre ++ post)) 1 = [Cand w] ->
  minimax s (pairwise (pre ++ (IP w :: rest, x) :: post)) 1 = [Cand w].
Proof.
  intros Hs Hwf Hrest Hwin.
  assert (Hwf1 : wf_votes (pre ++ post) = true) by (apply wf_insert in Hwf; tauto).
  assert (Hne : pairwise (pre ++ post) <> []).
  { intros E. rewrite E in Hwin. destruct s; vm_compute in Hwin; discriminate Hwin. }
  pose proof (pairwise_two _ Hwf1 Hne) as H2.
  destruct (winner_in_profile _ w (minimax_winner_cand _ w s H2 Hwin)) as [Hw _].
  exact (minimax_lifts _ _ w x s Hs H2 (pairwise_added_lifts pre post rest x w Hw Hrest Hwf Hne) Hwin).
Qed.

(* ------------------------------------------------------------------ B2 refuted for Copeland and for minimax with winning votes
   (found by random search on the implementation, minimised, replayed on votelib: see the replay lines).
   Copeland, candidates A B C D = 1 2 3 4: {(A,D,C): 2, (C,B): 2, (B,D): 2} elects B (B beats A and D and loses to C: score 1;
   C and D: one win, one loss, score 0; A: score -1; A - C and A - D are ties 2 : 2).  One more ballot (B, C) turns the tie C - A
   into a win of C (3 : 2): first-order scores B = C = 1, the result is the tie {C, B}; the second-order tie-break (the default
   Copeland) even elects C alone (the candidates beaten by C have the scores 1 - 2, those beaten by B have -2 + 0).
   The ballot (B, A) gives the tie {A, B} (second_order=False).
   Python: PreConverted(RankedToCondorcetVotes(), Copeland(second_order=False)).evaluate({('A','D','C'): 2, ('C','B'): 2,
   ('B','D'): 2}, 1) = ['B']; with ('B','C'): 1 added = [Tie({'C','B'})]; Copeland() gives ['B'] resp. ['C']. *)
Definition copeland_long_pre : rvotes := [([IP 1; IP 4; IP 3]%positive, 2); ([IP 3; IP 2]%positive, 2); ([IP 2; IP 4]%positive, 2)].

Theorem copeland_added_long_refuted : exists pre post rest x w,
  wf_votes (pre ++ (IP w :: rest, x) :: post) = true /\ 0 < x /\
  (forall c, In c (flatten rest) -> In c (cands_of (pre ++ post))) /\
  copeland false (pairwise (pre ++ post)) 1 = [Cand w] /\ copeland true (pairwise (pre ++ post)) 1 = [Cand w] /\
  copeland false (pairwise (pre ++ (IP w :: rest, x) :: post)) 1 = [TieR [3; 2]%positive] /\
  copeland true (pairwise (pre ++ (IP w :: rest, x) :: post)) 1 = [Cand 3%positive] /\ w <> 3%positive.
Proof.
  exists copeland_long_pre, [], [IP 3%positive], 1, 2%positive.
  split; [vm_compute; reflexivity|]. split; [lia|]. split.
  - intros c H. vm_compute in H. destruct H as [<-|[]]. vm_compute. tauto.
  - repeat split; try (vm_compute; reflexivity). discriminate.
Qed.

Theorem copeland_added_long_refuted_raw : exists pre post rest x w,
  wf_votes (pre ++ (IP w :: rest, x) :: post) = true /\ 0 < x /\
  (forall c, In c (flatten rest) -> In c (cands_of (pre ++ post))) /\
  copeland false (pairwise (pre ++ post)) 1 = [Cand w] /\
  copeland false (pairwise (pre ++ (IP w :: rest, x) :: post)) 1 = [TieR [1; 2]%positive].
Proof.
  exists copeland_long_pre, [], [IP 1%positive], 1, 2%positive.
  split; [vm_compute; reflexivity|]. split; [lia|]. split.
  - intros c H. vm_compute in H. destruct H as [<-|[]]. vm_compute. tauto.
  - split; vm_compute; reflexivity.
Qed.

(* minimax with winning votes, candidates A B D = 1 2 3: {(B,): 2, (D,): 4, (A,B): 3} elects B (its only defeat, by A, has 3 winning
   votes; A is beaten by D with 4, D by B with 5).  One more ballot (B, A) makes D - A a tie (4 : 4) and A - B a tie (3 : 3): A and B
   have no defeat at all, the result is the tie {A, B}.
   Python: PreConverted(RankedToCondorcetVotes(), MinimaxCondorcet()).evaluate({('B',): 2, ('D',): 4, ('A','B'): 3}, 1) = ['B'];
   with ('B','A'): 1 added = [Tie({'A','B'})]. *)
Theorem minimax_winvotes_added_long_refuted : exists pre post rest x w,
  wf_votes (pre ++ (IP w :: rest, x) :: post) = true /\ 0 < x /\
  (forall c, In c (flatten rest) -> In c (cands_of (pre ++ post))) /\
  minimax WinningVotes (pairwise (pre ++ post)) 1 = [Cand w] /\
  minimax WinningVotes (pairwise (pre ++ (IP w :: rest, x) :: post)) 1 = [TieR [1; 2]%positive].
Proof.
  exists [([IP 2]%positive, 2); ([IP 3]%positive, 4); ([IP 1; IP 2]%positive, 3)], [], [IP 1%positive], 1, 2%positive.
  split; [vm_compute; reflexivity|]. split; [lia|]. split.
  - intros c H. vm_compute in H. destruct H as [<-|[]]. vm_compute. tauto.
  - split; vm_compute; reflexivity.
Qed.

(* ------------------------------------------------------------------ non-vacuity *)
(* A: {(A,{B,C},D): 3, (D,B): 1, (B,D): 1} (a shared rank, two truncated ballots): A = 1 is the sole minimax and Copeland winner;
   the ballot (D,B), which leaves A and C unranked, becomes (D,A,B): count(A,B) 3 -> 4, count(A,C) 3 -> 4 (C is still unranked
   there), count(B,A) 2 -> 1, count(D,A) stays 2 *)
Example rank_example :
  let pre := [([IP 1; IS [2; 3]; IP 4]%positive, 3)] in let post := [([IP 2; IP 4]%positive, 1)] in
  let L1 := pre ++ ([IP 4%positive] ++ [IP 2%positive], 1) :: post in
  let L2 := pre ++ ([IP 4%positive] ++ IP 1%positive :: [IP 2%positive], 1) :: post in
  wf_votes L1 = true /\ ~ In 1%positive (flatten ([IP 4%positive] ++ [IP 2%positive])) /\
  minimax Margins (pairwise L1) 1 = [Cand 1%positive] /\ minimax WinningVotes (pairwise L1) 1 = [Cand 1%positive] /\
  copeland false (pairwise L1) 1 = [Cand 1%positive] /\
  map (pget0 (pairwise L1)) [(1, 2); (1, 3); (2, 1); (4, 1)]%positive = [3; 3; 2; 2] /\
  map (pget0 (pairwise L2)) [(1, 2); (1, 3); (2, 1); (4, 1)]%positive = [4; 4; 1; 2] /\
  minimax Margins (pairwise L2) 1 = [Cand 1%positive] /\ copeland true (pairwise L2) 1 = [Cand 1%positive].
Proof.
  cbv zeta. split; [vm_compute; reflexivity|]. split; [vm_compute; intros [H|[H|[]]]; discriminate H|].
  repeat split; vm_compute; reflexivity.
Qed.

(* B1: {(A,{B,C},D): 2, (D,B): 2}: A = 1 is the sole winner; two bullet votes for A: count(A,B) = count(A,C) = count(A,D) 2 -> 4 *)
Example bullet_example :
  let pre := [([IP 1; IS [2; 3]; IP 4]%positive, 2)] in let post := [([IP 4; IP 2]%positive, 1)] in
  wf_votes (pre ++ post) = true /\
  minimax PairwiseOpposition (pairwise (pre ++ post)) 1 = [Cand 1%positive] /\ copeland false (pairwise (pre ++ post)) 1 = [Cand 1%positive] /\
  map (pget0 (pairwise (pre ++ post))) [(1, 2); (1, 3); (1, 4); (4, 1)]%positive = [2; 2; 2; 1] /\
  map (pget0 (pairwise (pre ++ ([IP 1%positive], 2) :: post))) [(1, 2); (1, 3); (1, 4); (4, 1)]%positive = [4; 4; 4; 1].
Proof. cbv zeta. repeat split; vm_compute; reflexivity. Qed.

(* B2: the same profile and the added ballot (A,{C,D}) (B unranked): count(C,B) 0 -> 1 and count(D,B) 1 -> 2 are contests among
   the others, so [raises_s] fails; [lifts_by] holds and A stays the minimax winner (margins) *)
Example added_example :
  let pre := [([IP 1; IS [2; 3]; IP 4]%positive, 2)] in let post := [([IP 4; IP 2]%positive, 1)] in
  let L2 := pre ++ (IP 1%positive :: [IS [3; 4]%positive], 1) :: post in
  wf_votes L2 = true /\ (forall c, In c (flatten [IS [3; 4]%positive]) -> In c (cands_of (pre ++ post))) /\
  minimax Margins (pairwise (pre ++ post)) 1 = [Cand 1%positive] /\
  map (pget0 (pairwise (pre ++ post))) [(1, 2); (3, 2); (4, 2)]%positive = [2; 0; 1] /\
  map (pget0 (pairwise L2)) [(1, 2); (3, 2); (4, 2)]%positive = [3; 1; 2] /\
  ~ raises_s (pairwise (pre ++ post)) (pairwise L2) 1%positive /\
  minimax Margins (pairwise L2) 1 = [Cand 1%positive].
Proof.
  cbv zeta. split; [vm_compute; reflexivity|]. split.
  { intros c H. vm_compute in H. vm_compute. tauto. }
  split; [vm_compute; reflexivity|]. split; [vm_compute; reflexivity|]. split; [vm_compute; reflexivity|]. split; [|vm_compute; reflexivity].
  intros (_ & _ & H). specialize (H 3%positive 2%positive). vm_compute in H. assert (E : 1 = 0) by (apply H; discriminate). discriminate E.
Qed.

Print Assumptions pairwise_rank_exact.
Print Assumptions pairwise_rank_cands.
Print Assumptions pairwise_rank_raises.
Print Assumptions copeland_ballot_rank.
Print Assumptions minimax_ballot_rank.
Print Assumptions pairwise_added_exact.
Print Assumptions pairwise_added_cands.
Print Assumptions pairwise_bullet_exact.
Print Assumptions pairwise_bullet_raises.
Print Assumptions copeland_ballot_added_bullet.
Print Assumptions minimax_ballot_added_bullet.
Print Assumptions minimax_shift.
Print Assumptions raises_s_lifts.
Print Assumptions minimax_lifts.
Print Assumptions pairwise_added_lifts.
Print Assumptions minimax_ballot_added.
Print Assumptions copeland_added_long_refuted.
Print Assumptions copeland_added_long_refuted_raw.
Print Assumptions minimax_winvotes_added_long_refuted.
Print Assumptions rank_example.
Print Assumptions bullet_example.
Print Assumptions added_example.
