(* Scale invariance (C11) of STAR (Model/Star.v): the score sums of a k-fold electorate are k-fold, so the run-off
   members (get_n_best of the sums) are the same; every pairwise support of the run-off is k-fold
   (star_pairwise (k votes) = scalez k (star_pairwise votes)); Schulze over k-fold supports is scale-free by
   Schulze_proofs.schulze_scale.  Ballot counts of score profiles are integers: the factor is a positive integer. *)
From Coq Require Import ZArith QArith List Bool Lia.
From VL Require Import Prelude.PyDict Model.GetNBest Model.Convert Model.Cardinal Model.Condorcet Model.Star
     Proofs.Scale_proofs Proofs.LRScale_proofs Proofs.Schulze_proofs Proofs.Scale2Score_proofs.
Import ListNotations.

Section StarScale.
  Variable k : Z.
  Hypothesis Hk : (0 < k)%Z.

  Lemma star_padd_scale pv p n : Star.padd (scalez k pv) p (k * n) = scalez k (Star.padd pv p n).
  Proof. unfold Star.padd. rewrite pget0_scale, <- Z.mul_add_distr_l. apply pset_scale. Qed.

  Lemma star_inner_scale (b : sballot) (w : Z) (x : C) (l : list C) : forall pv,
    fold_left (fun pv y => if prefers b x y then Star.padd pv (x, y) (k * w) else pv) l (scalez k pv)
    = scalez k (fold_left (fun pv y => if prefers b x y then Star.padd pv (x, y) w else pv) l pv).
  Proof.
    induction l as [|y l IH]; intros pv; cbn [fold_left]; [reflexivity|].
    destruct (prefers b x y); [rewrite star_padd_scale|]; apply IH.
  Qed.

  Lemma star_outer_scale (b : sballot) (w : Z) (members l : list C) : forall pv,
    fold_left (fun pv x => fold_left (fun pv y => if prefers b x y then Star.padd pv (x, y) (k * w) else pv) members pv) l (scalez k pv)
    = scalez k (fold_left (fun pv x => fold_left (fun pv y => if prefers b x y then Star.padd pv (x, y) w else pv) members pv) l pv).
  Proof.
    induction l as [|x l IH]; intros pv; cbn [fold_left]; [reflexivity|].
    rewrite star_inner_scale. apply IH.
  Qed.

  Theorem star_pairwise_scale votes members :
    star_pairwise (scale_z k votes) members = scalez k (star_pairwise votes members).
  Proof.
    unfold star_pairwise. change (@nil (pair * Z)) with (scalez k []) at 1. generalize (@nil (pair * Z)) as pv.
    induction votes as [|bw votes IH]; intros pv; cbn [scale_z map fold_left fst snd]; [reflexivity|].
    rewrite star_outer_scale. apply IH.
  Qed.

  Lemma star_runoff_scale votes n :
    match score_to_simple star_cfg votes, score_to_simple star_cfg (scale_z k votes) with
    | inl a, inl a' => get_n_best Qle_bool a' n = get_n_best Qle_bool a n
    | inr e, inr e' => e = e'
    | _, _ => False
    end.
  Proof.
    pose proof (score_to_simple_rel k Hk star_cfg votes _ (cfg_ok_no_truncation k star_cfg _ eq_refl eq_refl)
                  (sprel_scale k votes)) as Hs.
    destruct (score_to_simple star_cfg votes) as [a|e], (score_to_simple star_cfg (scale_z k votes)) as [a'|e'];
      cbn [sumrel] in Hs; try contradiction; [|exact Hs].
    exact (get_n_best_rel Qle_bool Qle_bool _ (qsc_le _ (agg_factor_pos k Hk (sc_fn star_cfg))) _ _ n Hs).
  Qed.

  Theorem star_scale votes order n : star (scale_z k votes) order n = star votes order n.
  Proof.
    unfold star. pose proof (star_runoff_scale votes (n + 1)) as Hr.
    destruct (score_to_simple star_cfg votes) as [a|e], (score_to_simple star_cfg (scale_z k votes)) as [a'|e'];
      try contradiction; [|congruence].
    rewrite Hr, star_pairwise_scale. f_equal. apply schulze_scale, Hk.
  Qed.

  Theorem star_auto_scale votes n : star_auto (scale_z k votes) n = star_auto votes n.
  Proof.
    unfold star_auto. pose proof (star_runoff_scale votes (n + 1)) as Hr.
    destruct (score_to_simple star_cfg votes) as [a|e] eqn:Ea, (score_to_simple star_cfg (scale_z k votes)) as [a'|e'] eqn:Ea';
      try contradiction; [|congruence].
    rewrite Hr, star_pairwise_scale, candidates_scale. apply star_scale.
  Qed.
End StarScale.
