(* The score dictionaries ScoreToSimpleVotes.corrected_scores builds (Model/Cardinal.v raw_scores, correct_scores:
   unscored_value, min_count, truncation) are well formed - every count >= 0 and the grades of one candidate
   numerically distinct ([cs_ok], the hypothesis of the majority-judgment removal theorems) - for every configuration,
   whenever the ballot counts are >= 0 and no ballot scores a candidate twice. *)
From Coq Require Import ZArith QArith Qround List Bool Arith Lia.
From VL Require Import Prelude.PyDict Model.GetNBest Model.Convert Model.Cardinal Proofs.QOrd Proofs.Dict_proofs
     Proofs.MJ_proofs Proofs.MJ_removal_proofs.
Import ListNotations.
Open Scope Z_scope.

Definition cs_okd (d : cscores) : Prop := cs_nonneg d /\ cs_distinct d.

(* ---- cs_set / cs_del *)
Lemma cs_set_keys d s n x : In x (map fst (cs_set d s n)) -> x = s \/ In x (map fst d).
Proof.
  induction d as [|[s' n'] t IH]; cbn [cs_set map fst In]; [intros [<-|[]]; left; reflexivity|].
  destruct (Qeq_bool s s'); cbn [map fst In]; [intros [<-|H]; right; [left; reflexivity|right; exact H]|].
  intros [<-|H]; [right; left; reflexivity|]. destruct (IH H) as [->|H']; [left; reflexivity|right; right; exact H'].
Qed.

Lemma cs_set_distinct_gen d s n : cs_distinct d -> cs_distinct (cs_set d s n).
Proof.
  induction d as [|[s' n'] t IH]; cbn [cs_set cs_distinct]; [intros _; split; [intros ? []|exact I]|].
  intros (Hhead & Ht). cbn [fst] in Hhead. destruct (Qeq_bool s s') eqn:E; cbn [cs_distinct fst]; [split; assumption|].
  split; [|apply IH, Ht]. intros sn' Hin He.
  assert (Hk : In (fst sn') (map fst (cs_set t s n))) by (apply in_map, Hin).
  apply cs_set_keys in Hk. destruct Hk as [Hk|Hk].
  - rewrite Hk in He. apply Qeq_bool_iff in He. congruence.
  - apply in_map_iff in Hk. destruct Hk as (sn0 & Hf & Hin0). apply (Hhead _ Hin0). rewrite Hf. exact He.
Qed.

Lemma cs_set_nonneg_gen d s n : cs_nonneg d -> 0 <= n -> cs_nonneg (cs_set d s n).
Proof.
  unfold cs_nonneg. induction d as [|[s' n'] t IH]; cbn [cs_set]; intros H Hn; [constructor; [exact Hn|constructor]|].
  inversion H; subst. destruct (Qeq_bool s s'); [constructor; [exact Hn|assumption]|constructor; [assumption|apply IH; assumption]].
Qed.

Lemma cs_get_nonneg d s k : cs_nonneg d -> cs_get d s = Some k -> 0 <= k.
Proof.
  unfold cs_nonneg. induction d as [|[s' n'] t IH]; cbn [cs_get]; intros H; [discriminate|]. inversion H; subst.
  destruct (Qeq_bool s s'); [intros [= <-]; assumption|apply IH; assumption].
Qed.

Lemma cs_set_okd d s n : cs_okd d -> 0 <= n -> cs_okd (cs_set d s n).
Proof. intros (H1 & H2) Hn. split; [apply cs_set_nonneg_gen; assumption|apply cs_set_distinct_gen, H2]. Qed.

Lemma filter_distinct (f : Q * Z -> bool) d : cs_distinct d -> cs_distinct (filter f d).
Proof.
  induction d as [|sn t IH]; cbn [filter cs_distinct]; [trivial|]. intros (Hhead & Ht).
  destruct (f sn); cbn [cs_distinct]; [|apply IH, Ht]. split; [|apply IH, Ht].
  intros sn' Hin. apply filter_In in Hin. apply Hhead, Hin.
Qed.

Lemma cs_del_okd d s : cs_okd d -> cs_okd (cs_del d s).
Proof.
  intros (H1 & H2). unfold cs_del. split; [|apply filter_distinct, H2].
  unfold cs_nonneg in *. rewrite Forall_forall in *. intros sn Hin. apply filter_In in Hin. apply H1, Hin.
Qed.

(* ---- totals *)
Lemma cs_total_cons sn d : cs_total (sn :: d) = snd sn + cs_total d.
Proof. unfold cs_total. cbn [map fold_left]. rewrite fold_add_shift. lia. Qed.

Lemma cs_total_set d s n :
  cs_total (cs_set d s n) = cs_total d - (match cs_get d s with Some k => k | None => 0 end) + n.
Proof.
  induction d as [|[s' n'] t IH]; cbn [cs_set cs_get]; [unfold cs_total; cbn; lia|].
  destruct (Qeq_bool s s'); rewrite !cs_total_cons; cbn [snd]; [lia|]. rewrite IH. lia.
Qed.

Lemma cs_total_nonneg d : cs_nonneg d -> 0 <= cs_total d.
Proof.
  unfold cs_nonneg. induction 1 as [|sn d Hsn _ IH]; [unfold cs_total; cbn; lia|]. rewrite cs_total_cons. lia.
Qed.

(* ---- the dictionaries of raw_scores *)
Lemma dset_in {X} (d : list (C * X)) k x cd : In cd (dset d k x) -> cd = (k, x) \/ In cd d.
Proof.
  induction d as [|[k' v'] t IH]; cbn [dset In]; [intros [<-|[]]; left; reflexivity|].
  destruct (ceqb k k') eqn:E; cbn [In].
  - apply ceqb_eq in E. subst k'. intros [<-|H]; [left; reflexivity|right; right; exact H].
  - intros [<-|H]; [right; left; reflexivity|]. destruct (IH H) as [->|H']; [left; reflexivity|right; right; exact H'].
Qed.

Definition raw_step (w : Z) (d : list (C * cscores)) (cs : C * Q) : list (C * cscores) :=
  let old := match dget d (fst cs) with Some x => x | None => [] end in
  dset d (fst cs) (cs_set old (snd cs) (match cs_get old (snd cs) with Some k => k | None => 0 end + w)).

Lemma raw_scores_unfold votes :
  raw_scores votes = fold_left (fun d (bn : sballot * Z) => fold_left (raw_step (snd bn)) (fst bn) d) votes [].
Proof. reflexivity. Qed.

Lemma old_okd (d : list (C * cscores)) c : (forall cd, In cd d -> cs_okd (snd cd)) ->
  cs_okd (match dget d c with Some x => x | None => [] end).
Proof.
  intros H. destruct (dget d c) as [x|] eqn:E; [apply dget_In in E; apply (H _ E)|].
  split; [constructor|exact I].
Qed.

Lemma raw_step_okd w d cs : 0 <= w -> (forall cd, In cd d -> cs_okd (snd cd)) ->
  forall cd, In cd (raw_step w d cs) -> cs_okd (snd cd).
Proof.
  intros Hw H cd Hin. unfold raw_step in Hin. cbv zeta in Hin. apply dset_in in Hin. destruct Hin as [->|Hin]; [|apply H, Hin].
  cbn [snd]. pose proof (old_okd d (fst cs) H) as Hold. apply cs_set_okd; [exact Hold|].
  destruct (cs_get _ (snd cs)) as [k|] eqn:E; [pose proof (cs_get_nonneg _ _ _ (proj1 Hold) E); lia|lia].
Qed.

Lemma raw_scores_okd votes : (forall bn, In bn votes -> 0 <= snd bn) ->
  forall cd, In cd (raw_scores votes) -> cs_okd (snd cd).
Proof.
  intros Hv. rewrite raw_scores_unfold.
  assert (Hin : forall (b : sballot) w d, 0 <= w -> (forall cd, In cd d -> cs_okd (snd cd)) ->
            forall cd, In cd (fold_left (raw_step w) b d) -> cs_okd (snd cd)).
  { induction b as [|cs b IH]; intros w d Hw Hd; [exact Hd|]. cbn [fold_left]. apply IH; [exact Hw|]. apply raw_step_okd; assumption. }
  assert (H : forall (vs : sprofile) d, (forall bn, In bn vs -> 0 <= snd bn) -> (forall cd, In cd d -> cs_okd (snd cd)) ->
            forall cd, In cd (fold_left (fun d (bn : sballot * Z) => fold_left (raw_step (snd bn)) (fst bn) d) vs d) -> cs_okd (snd cd)).
  { induction vs as [|bn vs IH]; intros d Hvs Hd; [exact Hd|]. cbn [fold_left]. apply IH.
    - intros bn' Hbn'. apply Hvs. right. exact Hbn'.
    - apply Hin; [apply Hvs; left; reflexivity|exact Hd]. }
  apply H; [exact Hv|intros cd []].
Qed.

(* no candidate holds more scores than there are voters *)
Lemma raw_step_bound w W done d cs : 0 <= w -> 0 <= W -> ~ In (fst cs) done ->
  (forall cd, In cd d -> cs_total (snd cd) <= W + (if cmem (fst cd) done then w else 0)) ->
  forall cd, In cd (raw_step w d cs) -> cs_total (snd cd) <= W + (if cmem (fst cd) (fst cs :: done) then w else 0).
Proof.
  intros Hw HW Hnd H cd Hin. unfold raw_step in Hin. cbv zeta in Hin. apply dset_in in Hin. destruct Hin as [->|Hin].
  - cbn [fst snd cmem]. rewrite ceqb_refl. cbn [orb]. rewrite cs_total_set.
    assert (Hold : cs_total (match dget d (fst cs) with Some x => x | None => [] end) <= W).
    { destruct (dget d (fst cs)) as [x|] eqn:E; [|unfold cs_total; cbn; lia]. apply dget_In in E. specialize (H _ E). cbn [fst snd] in H.
      destruct (cmem (fst cs) done) eqn:Ec; [apply cmem_In in Ec; contradiction|lia]. }
    lia.
  - specialize (H _ Hin). cbn [cmem]. destruct (ceqb (fst cd) (fst cs)); cbn [orb]; [destruct (cmem (fst cd) done); lia|exact H].
Qed.

Lemma raw_ballot_bound w W : 0 <= w -> 0 <= W -> forall (b : sballot) done d, NoDup (map fst b) ->
  (forall c, In c (map fst b) -> ~ In c done) ->
  (forall cd, In cd d -> cs_total (snd cd) <= W + (if cmem (fst cd) done then w else 0)) ->
  forall cd, In cd (fold_left (raw_step w) b d) -> cs_total (snd cd) <= W + w.
Proof.
  intros Hw HW. induction b as [|cs b IH]; intros done d Hnd Hdis H cd Hin.
  - cbn [fold_left] in Hin. specialize (H _ Hin). destruct (cmem (fst cd) done); lia.
  - cbn [fold_left] in Hin. cbn [map] in Hnd. inversion Hnd as [|? ? Hx Hn]; subst.
    apply (IH (fst cs :: done) (raw_step w d cs) Hn); [| |exact Hin].
    + intros c Hc [<-|Hd]; [exact (Hx Hc)|]. apply (Hdis c); [right; exact Hc|exact Hd].
    + apply raw_step_bound; try assumption. apply Hdis. left. reflexivity.
Qed.

Lemma raw_scores_bound votes : (forall bn, In bn votes -> 0 <= snd bn /\ NoDup (map fst (fst bn))) ->
  forall cd, In cd (raw_scores votes) -> cs_total (snd cd) <= fold_left Z.add (map snd votes) 0.
Proof.
  intros Hv. rewrite raw_scores_unfold.
  assert (H : forall (vs : sprofile) d W, 0 <= W -> (forall bn, In bn vs -> 0 <= snd bn /\ NoDup (map fst (fst bn))) ->
            (forall cd, In cd d -> cs_total (snd cd) <= W) ->
            forall cd, In cd (fold_left (fun d (bn : sballot * Z) => fold_left (raw_step (snd bn)) (fst bn) d) vs d) ->
              cs_total (snd cd) <= W + fold_left Z.add (map snd vs) 0).
  { induction vs as [|bn vs IH]; intros d W HW Hvs Hd cd Hin; [cbn in *; specialize (Hd _ Hin); lia|].
    cbn [fold_left map] in *. destruct (Hvs bn (or_introl eq_refl)) as (Hw & Hnd).
    rewrite fold_add_shift. replace (W + (0 + snd bn + fold_left Z.add (map snd vs) 0)) with ((W + snd bn) + fold_left Z.add (map snd vs) 0) by lia.
    apply (IH (fold_left (raw_step (snd bn)) (fst bn) d)); [lia| | |exact Hin].
    - intros bn' Hbn'. apply Hvs. right. exact Hbn'.
    - apply (raw_ballot_bound (snd bn) W Hw HW (fst bn) [] d Hnd); [intros c _ []|].
      intros cd' Hcd'. cbn [cmem]. specialize (Hd _ Hcd'). lia. }
  intros cd Hin. pose proof (H votes [] 0 (Z.le_refl 0) Hv (fun cd0 (F : In cd0 []) => match F with end) cd Hin) as H0. rewrite Z.add_0_l in H0. exact H0.
Qed.

(* ---- the corrections *)
Lemma subtract_lowest_okd keys : forall d cutoff cut d', cs_okd d -> subtract_lowest d keys cutoff cut = Some d' -> cs_okd d'.
Proof.
  induction keys as [|s t IH]; intros d cutoff cut d' Hd; cbn [subtract_lowest]; [intros [= <-]; exact Hd|].
  destruct (cs_get d s) as [n|] eqn:E; [|apply IH, Hd].
  destruct (n <=? cutoff - cut) eqn:En; [apply IH, cs_del_okd, Hd|]. intros [= <-]. apply Z.leb_gt in En.
  apply cs_set_okd; [exact Hd|lia].
Qed.

Lemma correct_scores_okd cf d n_votes d' : cs_okd d -> (sc_unscored cf = UNone \/ cs_total d <= n_votes) ->
  correct_scores cf d n_votes = inl d' -> cs_okd d'.
Proof.
  intros Hd Hb. unfold correct_scores. cbv zeta.
  pose proof (cs_total_nonneg d (proj1 Hd)) as Ht.
  destruct (cs_total d <? sc_min_count cf) eqn:Em.
  { intros [= <-]. apply Z.ltb_lt in Em. split; [constructor; [cbn; lia|constructor]|split; [intros ? []|exact I]]. }
  assert (Hset : forall v, cs_total d <= n_votes ->
            cs_okd (cs_set d v (n_votes - cs_total d + match cs_get d v with Some n => n | None => 0 end))).
  { intros v Hle. apply cs_set_okd; [exact Hd|]. destruct (cs_get d v) as [k|] eqn:E; [pose proof (cs_get_nonneg _ _ _ (proj1 Hd) E); lia|lia]. }
  assert (Hd1 : forall d1, match sc_unscored cf with
            | UNone => inl d
            | UConst v => inl (cs_set d v (n_votes - cs_total d + match cs_get d v with Some n => n | None => 0 end))
            | UMin => match list_min (expand d) with
                      | Some v => inl (cs_set d v (n_votes - cs_total d + match cs_get d v with Some n => n | None => 0 end))
                      | None => inr SE_value
                      end
            end = inl d1 -> cs_okd d1).
  { intros d1. destruct (sc_unscored cf) as [|v|].
    - intros [= <-]. exact Hd.
    - intros [= <-]. apply Hset. destruct Hb as [Hb|Hb]; [discriminate|exact Hb].
    - destruct (list_min (expand d)) as [v|]; [|discriminate]. intros [= <-]. apply Hset. destruct Hb as [Hb|Hb]; [discriminate|exact Hb]. }
  match goal with |- match ?X with inl _ => _ | inr _ => _ end = _ -> _ => destruct X as [d1|e] eqn:E1; [|discriminate] end.
  specialize (Hd1 d1 eq_refl).
  destruct (Qle_bool (sc_trunc cf) 0); [intros [= <-]; exact Hd1|].
  match goal with |- match subtract_lowest d1 ?K ?CU 0 with _ => _ end = _ -> _ =>
    destruct (subtract_lowest d1 K CU 0) as [d2|] eqn:E2; [|discriminate];
    destruct (subtract_lowest d2 (rev K) CU 0) as [d3|] eqn:E3; [|discriminate] end.
  intros [= <-]. apply (subtract_lowest_okd _ _ _ _ _ (subtract_lowest_okd _ _ _ _ _ Hd1 E2) E3).
Qed.

(* ballots with non-negative counts that score no candidate twice *)
Definition profile_ok (votes : sprofile) : Prop :=
  forall bn, In bn votes -> 0 <= snd bn /\ NoDup (map fst (fst bn)).

Theorem corrected_scores_ok cf votes sc : profile_ok votes -> corrected_scores cf votes = inl sc -> Forall cs_ok sc.
Proof.
  intros Hv Hsc. apply Forall_forall. intros [c d'] Hin. unfold corrected_scores in Hsc. cbv zeta in Hsc.
  apply (sequence_in _ _ _ _ Hsc) in Hin. apply in_map_iff in Hin. destruct Hin as ([c0 d] & Heq & Hd). cbn [fst snd] in Heq.
  injection Heq as -> Hcorr. unfold cs_ok. cbn [snd].
  assert (Hokd : cs_okd d) by (apply (raw_scores_okd votes (fun bn H => proj1 (Hv bn H)) (c, d) Hd)).
  refine (correct_scores_okd cf d _ d' Hokd _ Hcorr). right.
  apply (raw_scores_bound votes Hv (c, d) Hd).
Qed.

(* the same without the one-score-per-candidate condition when unscored candidates are not filled in *)
Theorem corrected_scores_ok_none cf votes sc : (forall bn, In bn votes -> 0 <= snd bn) -> sc_unscored cf = UNone ->
  corrected_scores cf votes = inl sc -> Forall cs_ok sc.
Proof.
  intros Hv Hu Hsc. apply Forall_forall. intros [c d'] Hin. unfold corrected_scores in Hsc. cbv zeta in Hsc.
  apply (sequence_in _ _ _ _ Hsc) in Hin. apply in_map_iff in Hin. destruct Hin as ([c0 d] & Heq & Hd). cbn [fst snd] in Heq.
  injection Heq as -> Hcorr. unfold cs_ok. cbn [snd].
  refine (correct_scores_okd cf d _ d' (raw_scores_okd votes Hv (c, d) Hd) _ Hcorr). left. exact Hu.
Qed.
