(* Result shape (C08), second part: the declarative shape [sel_shape] of Proofs/Shape_proofs.v proved for the
   evaluators that end in get_n_best over a per-candidate dictionary (Copeland raw / second order, minimax,
   Schulze), for Kemeny-Young and ranked pairs, score voting, majority judgment (both tie-breakers), PAV, SPAV
   and preference addition (Bucklin / Oklahoma: at most n, well-shaped for its own length; the short list is a
   refuted clause with its witness).

   [nform cands n r]: r is plain winners followed by k copies of ONE tie object with more than k members, all
   named candidates distinct members of cands, n entries.  It is closed under prefixing distinct plain winners
   that are not candidates of the rest (the way every tie-breaking / multi-round rule composes its answer),
   and it implies [sel_shape]. *)
From Coq Require Import ZArith QArith List Bool Lia Permutation Arith.
From VL Require Import Prelude.PyDict Model.GetNBest Model.Convert Model.Cardinal Model.Condorcet Proofs.Dict_proofs Proofs.GetNBest_proofs
     Proofs.QOrd Proofs.HA_proofs Proofs.Condorcet_proofs Proofs.Shape_proofs Proofs.Smith_proofs Proofs.Minimax_proofs
     Proofs.Schulze_proofs Proofs.Kemeny_proofs Proofs.RankedPairs_proofs Proofs.Cardinal_proofs Proofs.MJ_proofs Proofs.JR_proofs
     Prelude.Sx Prelude.GDict Model.Bucklin Proofs.Bucklin_proofs Model.Star.
Import ListNotations.
Close Scope Q_scope.
Close Scope Z_scope.
Open Scope nat_scope.

(* ================================================================ the normal form *)
Definition nform (cands : list C) (n : nat) (r : list (res C)) : Prop :=
  exists (e T : list C) (k : nat),
    r = map Cand e ++ repeat (TieR T) k /\ length e + k = n /\ (k = 0 \/ k < length T) /\
    NoDup (e ++ T) /\ incl (e ++ T) cands.

Lemma nform_shape cands n r : nform cands n r -> sel_shape cands n r.
Proof. intros (e & T & k & -> & Hl & Hk & Hd & Hi). apply normal_form_shape; assumption. Qed.

Lemma nform_incl cands cands' n r : incl cands cands' -> nform cands n r -> nform cands' n r.
Proof.
  intros Hc (e & T & k & Hr & Hl & Hk & Hd & Hi). exists e, T, k. repeat split; try assumption.
  intros x Hx. apply Hc, Hi, Hx.
Qed.

Lemma nform_length cands n r : nform cands n r -> length r = n.
Proof. intros (e & T & k & -> & Hl & _). rewrite app_length, map_length, repeat_length. exact Hl. Qed.

(* distinct plain winners in front of a normal form over candidates they are not among *)
Lemma nform_prefix cands cands' (e : list C) k r :
  NoDup e -> incl e cands -> incl cands' cands -> (forall x, In x e -> ~ In x cands') ->
  nform cands' k r -> nform cands (length e + k) (map Cand e ++ r).
Proof.
  intros He Hie Hic Hdis (e' & T & k' & -> & Hl & Hk & Hd & Hi).
  exists (e ++ e'), T, k'. rewrite map_app, <- app_assoc. split; [reflexivity|].
  split; [rewrite app_length; lia|]. split; [exact Hk|]. split.
  - rewrite <- app_assoc. apply Threshold_proofs.nodup_app_intro; [exact He|exact Hd|]. intros x Hx Hx'. exact (Hdis x Hx (Hi x Hx')).
  - rewrite <- app_assoc. intros x Hx. apply in_app_or in Hx. destruct Hx as [Hx|Hx]; [apply Hie, Hx|apply Hic, Hi, Hx].
Qed.

Lemma nform_plain cands (e : list C) : NoDup e -> incl e cands -> nform cands (length e) (map Cand e).
Proof.
  intros He Hi. exists e, [], 0. rewrite !app_nil_r. simpl. split; [reflexivity|]. split; [lia|]. split; [left; reflexivity|].
  split; assumption.
Qed.

(* ---- every get_n_best result over a dictionary with distinct keys, for any total preorder on the values *)
Section GShape.
  Context {V : Type}.
  Variable leb : V -> V -> bool.
  Hypothesis leb_total : forall a b, leb a b = true \/ leb b a = true.
  Hypothesis leb_trans : forall a b c, leb a b = true -> leb b c = true -> leb a c = true.
  Notation gnb := (@get_n_best C V leb).

  Lemma map_cand_keys' (l : list (C * V)) : map (fun it : C * V => Cand (fst it)) l = map Cand (map fst l).
  Proof. rewrite map_map. reflexivity. Qed.

  Theorem gnb_nform (votes : list (C * V)) n : 1 <= n <= length votes -> NoDup (map fst votes) ->
    nform (map fst votes) n (gnb votes n).
  Proof.
    intros [Hn Hle] Hnd.
    destruct (get_n_best_spec leb leb_total leb_trans votes n Hn) as [Hsmall Hbig].
    destruct (Nat.eq_dec n (length votes)) as [He|Hne].
    - destruct (Hsmall ltac:(lia)) as (s & Hp & _ & Hr).
      exists (map fst s), [], 0. rewrite Hr. unfold cand_of. rewrite map_cand_keys', !app_nil_r. simpl.
      split; [reflexivity|]. split; [rewrite map_length, (Permutation_length Hp); lia|]. split; [left; reflexivity|].
      split.
      + eapply Permutation_NoDup; [apply Permutation_map, Permutation_sym, Hp|exact Hnd].
      + intros x Hx. eapply Permutation_in; [apply Permutation_map, Hp|exact Hx].
    - destruct (Hbig ltac:(lia)) as (above & level & below & thr & Hp & _ & _ & _ & _ & Hlen & Hfit & Htie).
      assert (HndL : NoDup (map fst (above ++ level ++ below))).
      { eapply Permutation_NoDup; [apply Permutation_map, Permutation_sym, Hp|exact Hnd]. }
      rewrite !map_app in HndL.
      assert (HndAL : NoDup (map fst above ++ map fst level)).
      { rewrite app_assoc in HndL. apply nodup_app_inv in HndL. tauto. }
      assert (Hincl : incl (map fst above ++ map fst level) (map fst votes)).
      { intros x Hx. eapply Permutation_in; [apply Permutation_map, Hp|]. rewrite !map_app.
        apply in_app_or in Hx. apply in_or_app. destruct Hx; [left; assumption|right; apply in_or_app; left; assumption]. }
      destruct (Nat.eq_dec (length above + length level) n) as [Hf|Hnf].
      + exists (map fst (above ++ level)), [], 0. rewrite (Hfit Hf). unfold cand_of. rewrite map_cand_keys', !app_nil_r. simpl.
        split; [reflexivity|]. split; [rewrite map_length, app_length; lia|]. split; [left; reflexivity|].
        rewrite map_app. split; assumption.
      + exists (map fst above), (map fst level), (n - length above).
        rewrite (Htie ltac:(lia)). unfold cand_of. rewrite map_cand_keys'.
        split; [reflexivity|]. split; [rewrite map_length; lia|]. split; [right; rewrite map_length; lia|].
        split; assumption.
  Qed.

  (* fewer entries than seats: everybody, untied *)
  Lemma gnb_all (votes : list (C * V)) n : 1 <= n -> length votes <= n ->
    exists s, Permutation s votes /\ gnb votes n = map Cand (map fst s).
  Proof.
    intros Hn Hle. destruct (get_n_best_spec leb leb_total leb_trans votes n Hn) as [Hsmall _].
    destruct (Hsmall Hle) as (s & Hp & _ & Hr). exists s. split; [exact Hp|]. rewrite Hr. unfold cand_of. apply map_cand_keys'.
  Qed.

  (* the same over any list of candidates the keys are a rearrangement of *)
  Corollary gnb_nform_perm (votes : list (C * V)) cands n : 1 <= n <= length cands -> NoDup (map fst votes) ->
    NoDup cands -> (forall x, In x (map fst votes) <-> In x cands) -> nform cands n (gnb votes n).
  Proof.
    intros Hn Hnd Hc Hk.
    assert (Hp : Permutation (map fst votes) cands) by (apply NoDup_Permutation; assumption).
    apply (nform_incl (map fst votes)); [intros x Hx; apply Hk, Hx|].
    apply gnb_nform; [|exact Hnd]. rewrite <- (map_length fst votes), (Permutation_length Hp). exact Hn.
  Qed.
End GShape.

(* ---- members and plain part of a normal form *)
Lemma res_members_nf (e T : list C) k x : In x (res_members (map Cand e ++ repeat (TieR T) k)) <-> k <> 0 /\ In x T.
Proof.
  unfold res_members. rewrite flat_map_app.
  assert (H0 : flat_map (fun y : res C => match y with TieR l => l | Cand _ => [] end) (map Cand e) = []).
  { induction e as [|a e IH]; simpl; [reflexivity|exact IH]. }
  rewrite H0. simpl. induction k as [|k IH]; simpl; [split; [tauto|intros [H _]; congruence]|].
  rewrite in_app_iff, IH. split; [intros [H|[_ H]]; (split; [discriminate|exact H])|intros [_ H]; left; exact H].
Qed.
Lemma res_untied_nf (e T : list C) k : res_untied (map Cand e ++ repeat (TieR T) k) = map Cand e.
Proof.
  unfold res_untied. rewrite filter_app.
  assert (H1 : forall l : list C, filter (fun y : res C => match y with Cand _ => true | TieR _ => false end) (map Cand l) = map Cand l).
  { induction l as [|a l IH]; simpl; [reflexivity|]. rewrite IH. reflexivity. }
  assert (H2 : filter (fun y : res C => match y with Cand _ => true | TieR _ => false end) (repeat (TieR T) k) = []).
  { induction k as [|k IH]; simpl; [reflexivity|exact IH]. }
  rewrite H1, H2, app_nil_r. reflexivity.
Qed.
Lemma has_tie_nf (e T : list C) k : has_tie (map Cand e ++ repeat (TieR T) k) = negb (Nat.eqb k 0).
Proof.
  unfold has_tie. rewrite existsb_app.
  assert (H1 : existsb (fun y : res C => match y with TieR _ => true | Cand _ => false end) (map Cand e) = false).
  { induction e as [|a l IH]; simpl; [reflexivity|exact IH]. }
  rewrite H1. destruct k; reflexivity.
Qed.

(* ================================================================ Copeland *)
Open Scope Z_scope.

Lemma dadd_keys (d : list (C * Z)) c k : NoDup (map fst d) ->
  NoDup (map fst (dadd d c k)) /\ forall x, In x (map fst (dadd d c k)) <-> x = c \/ In x (map fst d).
Proof. unfold dadd. apply dset_keys. Qed.

Lemma wins_in_cands (v : pvotes) t p : In p (pairwise_wins v t) -> In (fst p) (candidates v) /\ In (snd p) (candidates v).
Proof.
  unfold pairwise_wins. intros H. apply in_map_iff in H. destruct H as ([q n] & Hq & Hin). simpl in Hq. subst q.
  apply filter_In in Hin. destruct Hin as [Hin _].
  split; apply candidates_spec; exists p, n; (split; [exact Hin|]); [left|right]; reflexivity.
Qed.

Lemma copeland_scores_keys_in (S : list C) (ws : list pair) : (forall p, In p ws -> In (fst p) S /\ In (snd p) S) ->
  forall d, NoDup (map fst d) -> incl (map fst d) S ->
  NoDup (map fst (fold_left (fun d (p : pair) => dadd (dadd d (fst p) 1) (snd p) (-1)) ws d)) /\
  incl (map fst (fold_left (fun d (p : pair) => dadd (dadd d (fst p) 1) (snd p) (-1)) ws d)) S.
Proof.
  induction ws as [|p ws IH]; intros Hs d Hd Hi; simpl; [split; assumption|].
  destruct (Hs p (or_introl eq_refl)) as [Ha Hb].
  destruct (dadd_keys d (fst p) 1 Hd) as [N1 K1]. destruct (dadd_keys _ (snd p) (-1) N1) as [N2 K2].
  apply IH; [intros q Hq; apply Hs; right; exact Hq|exact N2|].
  intros x Hx. apply K2 in Hx. destruct Hx as [->|Hx]; [exact Hb|]. apply K1 in Hx. destruct Hx as [->|Hx]; [exact Ha|apply Hi, Hx].
Qed.

(* the first-order score dictionary: one entry per candidate *)
Definition cop_scores (v : pvotes) : list (C * Z) := fold_left seed (candidates v) (copeland_scores (pairwise_wins v false)).

Lemma cop_scores_keys (v : pvotes) : NoDup (map fst (cop_scores v)) /\ forall x, In x (map fst (cop_scores v)) <-> In x (candidates v).
Proof.
  destruct (copeland_scores_keys_in (candidates v) (pairwise_wins v false) (wins_in_cands v false) [] (NoDup_nil _)) as [Hn Hk];
    [intros x []|].
  destruct (seed_fold (candidates v) _ Hn) as (Sn & _ & Sk). fold (cop_scores v) in Sn, Sk. split; [exact Sn|].
  intros x. rewrite Sk. split; [intros [H|H]; [apply Hk, H|exact H]|intros H; right; exact H].
Qed.

(* the second-order step of Copeland as a function of the first-order answer *)
Definition cop_second (scores : list (C * Z)) (wins : list pair) (best : list (res C)) : list (res C) :=
  let tied := res_members best in
  let so0 := flat_map (fun cs : C * Z => if cmem (fst cs) tied then [(fst cs, 0)] else []) scores in
  let so := fold_left (fun d (p : pair) => if cmem (fst p) tied then dadd d (fst p) (dget_or scores (snd p) 0) else d) wins so0 in
  let untied := res_untied best in
  untied ++ get_n_best zle_bool so (length best - length untied).

Lemma copeland_unfold2 so v n :
  copeland so v n = let best := get_n_best zle_bool (cop_scores v) n in
                    if so && has_tie best then cop_second (cop_scores v) (pairwise_wins v false) best else best.
Proof. reflexivity. Qed.

Lemma so0_keys (scores : list (C * Z)) tied :
  map fst (flat_map (fun cs : C * Z => if cmem (fst cs) tied then [(fst cs, 0)] else []) scores)
  = filter (fun c => cmem c tied) (map fst scores).
Proof.
  induction scores as [|[c s] l IH]; simpl; [reflexivity|]. destruct (cmem c tied); simpl; rewrite IH; reflexivity.
Qed.

Lemma so_fold_keys (scores : list (C * Z)) tied (wins : list pair) : forall d, NoDup (map fst d) ->
  (forall x, In x (map fst d) <-> In x tied) ->
  let d' := fold_left (fun d (p : pair) => if cmem (fst p) tied then dadd d (fst p) (dget_or scores (snd p) 0) else d) wins d in
  NoDup (map fst d') /\ forall x, In x (map fst d') <-> In x tied.
Proof.
  induction wins as [|p ws IH]; intros d Hd Hk; simpl; [split; assumption|].
  destruct (cmem (fst p) tied) eqn:E; [|apply IH; assumption].
  apply Shape_proofs.cmem_In in E. destruct (dadd_keys d (fst p) (dget_or scores (snd p) 0) Hd) as [N1 K1].
  apply IH; [exact N1|]. intros x. rewrite K1, Hk. split; [intros [->|H]; assumption|intros H; right; exact H].
Qed.

Close Scope Z_scope.

Theorem cop_second_nform cands (scores : list (C * Z)) wins (e T : list C) k n :
  NoDup (map fst scores) -> incl (e ++ T) (map fst scores) -> incl (e ++ T) cands -> NoDup (e ++ T) ->
  length e + k = n -> 1 <= k < length T ->
  nform cands n (cop_second scores wins (map Cand e ++ repeat (TieR T) k)).
Proof.
  intros Hsn Hik Hic Hnd Hlen Hk. unfold cop_second.
  set (best := map Cand e ++ repeat (TieR T) k).
  set (tied := res_members best).
  assert (Htied : forall x, In x tied <-> In x T).
  { intros x. unfold tied, best. rewrite res_members_nf. split; [tauto|]. intros H. split; [lia|exact H]. }
  destruct (nodup_app_inv _ _ Hnd) as (HndE & HndT & Hdis).
  set (so0 := flat_map (fun cs : C * Z => if cmem (fst cs) tied then [(fst cs, 0%Z)] else []) scores).
  assert (H0n : NoDup (map fst so0)) by (unfold so0; rewrite so0_keys; apply NoDup_filter, Hsn).
  assert (H0k : forall x, In x (map fst so0) <-> In x tied).
  { intros x. unfold so0. rewrite so0_keys, filter_In, Shape_proofs.cmem_In. split; [tauto|]. intros H. split; [|exact H].
    apply Hik, in_or_app. right. apply Htied, H. }
  destruct (so_fold_keys scores tied wins so0 H0n H0k) as [Sn Sk]. cbv zeta in Sn, Sk.
  set (so := fold_left _ wins so0) in *.
  replace (res_untied best) with (map Cand e) by (symmetry; apply res_untied_nf).
  replace (length best) with (length e + k) by (unfold best; rewrite app_length, map_length, repeat_length; reflexivity).
  rewrite map_length.
  replace (length e + k - length e) with k by lia.
  rewrite <- Hlen. apply (nform_prefix cands T); [exact HndE|intros x Hx; apply Hic, in_or_app; left; exact Hx| |exact Hdis|].
  - intros x Hx. apply Hic, in_or_app. right. exact Hx.
  - apply (gnb_nform_perm zle_bool zle_total zle_trans so T k); [lia|exact Sn|exact HndT|].
    intros x. rewrite Sk. apply Htied.
Qed.

Theorem copeland_nform so (v : pvotes) n : 1 <= n <= length (candidates v) -> nform (candidates v) n (copeland so v n).
Proof.
  intros Hn. destruct (cop_scores_keys v) as [Sn Sk]. rewrite copeland_unfold2. cbv zeta.
  pose proof (gnb_nform_perm zle_bool zle_total zle_trans (cop_scores v) (candidates v) n Hn Sn (candidates_NoDup v) Sk) as Hb.
  destruct (so && has_tie _) eqn:E; [|exact Hb].
  apply andb_true_iff in E. destruct E as [_ E].
  destruct Hb as (e & T & k & Hr & Hl & Hk & Hd & Hi). rewrite Hr in E |- *. rewrite has_tie_nf in E.
  apply negb_true_iff, Nat.eqb_neq in E.
  apply cop_second_nform; [exact Sn| |exact Hi|exact Hd|exact Hl|lia].
  intros x Hx. apply Sk, Hi, Hx.
Qed.

(* ================================================================ minimax *)
(* a pairwise dictionary over a single candidate (only a diagonal pair) has no contest: the completed dictionary is
   empty and so is the answer; with a real contest (two candidates) every candidate is the loser of some pair *)
Theorem minimax_nform (s : Condorcet.scorer) (v : pvotes) n : 2 <= length (candidates v) -> 1 <= n <= length (candidates v) ->
  nform (candidates v) n (minimax s v n).
Proof.
  intros H2 Hn. rewrite minimax_unfold. destruct (mc_keys v H2 s) as [Kn Kk].
  set (mc := mc_of (score_pairs s (complete v))) in *.
  assert (Hm : map fst (map (fun cs : C * Z => (fst cs, (- snd cs)%Z)) mc) = map fst mc) by (rewrite map_map; reflexivity).
  apply (gnb_nform_perm zle_bool zle_total zle_trans); [exact Hn|rewrite Hm; exact Kn|apply candidates_NoDup|].
  intros x. rewrite Hm. apply Kk.
Qed.

(* ================================================================ Schulze *)
Open Scope Z_scope.
(* entries of the path table that involve somebody who is not a candidate of the votes stay 0
   (whatever the iteration order contains, whatever the sign of the counts) *)
Definition off_zero (v paths : pvotes) : Prop :=
  forall a b n, In ((a, b), n) paths -> ~ In a (candidates v) \/ ~ In b (candidates v) -> n = 0.

Lemma off_zero_get v paths a b : off_zero v paths -> ~ In a (candidates v) \/ ~ In b (candidates v) -> pget0 paths (a, b) = 0.
Proof.
  intros H Ho. unfold pget0. destruct (pget paths (a, b)) as [n|] eqn:E; [|reflexivity].
  apply pget_In in E. exact (H a b n E Ho).
Qed.

Lemma pset_In (v : pvotes) p n q m : In (q, m) (pset v p n) -> In (q, m) v \/ (q = p /\ m = n).
Proof.
  induction v as [|[p' n'] t IH]; [rewrite pset_nil; intros [H|[]]; injection H as <- <-; right; split; reflexivity|].
  rewrite pset_cons. destruct (peqb p p') eqn:E.
  - apply peqb_eq in E. subst p'. intros [H|H]; [injection H as <- <-; right; split; reflexivity|left; right; exact H].
  - intros [H|H]; [left; left; exact H|]. destruct (IH H) as [H'|H']; [left; right; exact H'|right; exact H'].
Qed.

Lemma wp_off_zero v order : off_zero v (widest_paths v order).
Proof.
  apply wp_ind.
  - intros a b n Hin Ho. unfold wp_init in Hin. apply filter_In in Hin. destruct Hin as [Hin _]. exfalso.
    destruct Ho as [Ho|Ho]; apply Ho, candidates_spec; exists (a, b), n; (split; [exact Hin|]); [left|right]; reflexivity.
  - intros paths c1 c2 ca _ _ _ _ _ _ H a b n Hin Ho. unfold wp_upd in Hin. apply pset_In in Hin.
    destruct Hin as [Hin|[Hq ->]]; [exact (H a b n Hin Ho)|]. injection Hq as -> ->.
    rewrite (off_zero_get v paths c2 ca H Ho). destruct Ho as [Ho|Ho].
    + rewrite (off_zero_get v paths c2 c1 H (or_introl Ho)). lia.
    + rewrite (off_zero_get v paths c1 ca H (or_intror Ho)). lia.
Qed.

Lemma schulze_wins_in_cands v order p : In p (pairwise_wins (widest_paths v order) false) ->
  In (fst p) (candidates v) /\ In (snd p) (candidates v).
Proof.
  unfold pairwise_wins. intros H. apply in_map_iff in H. destruct H as ([q n] & Hq & Hin). simpl in Hq. subst q.
  apply filter_In in Hin. destruct Hin as [Hin Hf]. cbn [fst snd] in Hf. rewrite andb_false_l, orb_false_r in Hf.
  apply Z.ltb_lt in Hf. destruct p as [a b]. cbn [fst snd].
  destruct (in_dec Pos.eq_dec a (candidates v)) as [Ha|Ha]; [destruct (in_dec Pos.eq_dec b (candidates v)) as [Hb|Hb]; [tauto|]|]; exfalso.
  - pose proof (wp_off_zero v order a b n Hin (or_intror Hb)) as Hn.
    unfold swap in Hf. cbn [fst snd] in Hf. rewrite (off_zero_get v _ b a (wp_off_zero v order) (or_introl Hb)) in Hf. lia.
  - pose proof (wp_off_zero v order a b n Hin (or_introl Ha)) as Hn.
    unfold swap in Hf. cbn [fst snd] in Hf. rewrite (off_zero_get v _ b a (wp_off_zero v order) (or_intror Ha)) in Hf. lia.
Qed.
Close Scope Z_scope.

Theorem schulze_nform (v : pvotes) (order : list C) n : 1 <= n <= length (candidates v) ->
  nform (candidates v) n (schulze v order n).
Proof.
  intros Hn. rewrite schulze_unfold.
  assert (Hseed : map fst (map (fun c : C => (c, 0%Z)) (candidates v)) = candidates v) by (rewrite map_map; simpl; apply map_id).
  assert (Hsn : NoDup (map fst (map (fun c : C => (c, 0%Z)) (candidates v)))) by (rewrite Hseed; apply candidates_NoDup).
  destruct (sch_fold_keys (pairwise_wins (widest_paths v order) false) _ Hsn) as [Kn Kk].
  apply (gnb_nform_perm zle_bool zle_total zle_trans); [exact Hn|exact Kn|apply candidates_NoDup|].
  intros x. rewrite Kk, Hseed. split; [|tauto]. intros [H|(p & Hp & H)]; [exact H|].
  apply schulze_wins_in_cands in Hp. destruct H as [->| ->]; tauto.
Qed.

(* ================================================================ Kemeny-Young, ranked pairs *)
Lemma firstn_NoDup {X} (l : list X) n : NoDup l -> NoDup (firstn n l).
Proof. intros H. rewrite <- (firstn_skipn n l) in H. apply nodup_app_inv in H. tauto. Qed.

Lemma perm_prefix_nform cands (p : list C) n : NoDup cands -> Permutation p cands -> n <= length cands ->
  nform cands n (map Cand (firstn n p)).
Proof.
  intros Hc Hp Hn.
  assert (Hl : length (firstn n p) = n) by (apply firstn_length_le; rewrite (Permutation_length Hp); exact Hn).
  rewrite <- Hl at 1. apply nform_plain.
  - apply firstn_NoDup. eapply Permutation_NoDup; [apply Permutation_sym, Hp|exact Hc].
  - intros x Hx. eapply Permutation_in; [exact Hp|]. rewrite <- (firstn_skipn n p). apply in_or_app. left. exact Hx.
Qed.

Theorem kemeny_nform (v : pvotes) n r : n <= length (candidates v) -> kemeny v n = CR_ok r -> nform (candidates v) n r.
Proof.
  intros Hn H. destruct (kemeny_defining v n r H) as (p & (Hp & _) & _ & -> & _).
  apply perm_prefix_nform; [apply candidates_NoDup|exact Hp|exact Hn].
Qed.

Theorem ranked_pairs_nform (s : Condorcet.scorer) (v : pvotes) n r : 2 <= length (candidates v) -> n <= length (candidates v) ->
  ranked_pairs s v n = CR_ok r -> nform (candidates v) n r.
Proof.
  intros H2 Hn H. destruct (ranked_pairs_ranking v s H2 n) as (p & Hr & Hp & _). rewrite Hr in H. injection H as <-.
  apply perm_prefix_nform; [apply candidates_NoDup|exact Hp|exact Hn].
Qed.

(* ================================================================ score voting *)
(* the candidates of a score profile: the keys of the per-candidate score counts, in order of first appearance *)
Definition score_cands (votes : sprofile) : list C := map fst (raw_scores votes).

Lemma corrected_scores_keys cf votes sc : corrected_scores cf votes = inl sc -> map fst sc = score_cands votes.
Proof. unfold corrected_scores. intros H. apply sequence_keys in H. rewrite H, map_map. reflexivity. Qed.

Theorem score_nform cf votes n r : 1 <= n <= length (score_cands votes) -> score_voting cf votes n = inl r ->
  nform (score_cands votes) n r.
Proof.
  intros Hn. unfold score_voting, score_to_simple.
  destruct (corrected_scores cf votes) as [sc|e] eqn:Ec; [|discriminate].
  destruct (aggregate (sc_fn cf) sc) as [agg|e] eqn:Ea; [|discriminate]. intros [= <-].
  pose proof (aggregate_keys _ _ _ Ea) as Hk. rewrite (corrected_scores_keys _ _ _ Ec) in Hk. rewrite <- Hk.
  apply (gnb_nform Qle_bool Qle_bool_total Qle_bool_trans).
  - rewrite <- (map_length fst agg), Hk. exact Hn.
  - rewrite Hk. apply raw_scores_nodup.
Qed.

(* ================================================================ majority judgment *)
Lemma filter_keys_eq {X} (f : C -> bool) (l : list (C * X)) : map fst (filter (fun cd => f (fst cd)) l) = filter f (map fst l).
Proof. induction l as [|[c x] l IH]; simpl; [reflexivity|]. destruct (f c); simpl; rewrite IH; reflexivity. Qed.

Lemma count_tie_nf (e T : list C) k : count_tie (map Cand e ++ repeat (TieR T) k) = k.
Proof.
  unfold count_tie. rewrite filter_app, app_length.
  assert (H1 : filter (fun r : res C => match r with TieR _ => true | Cand _ => false end) (map Cand e) = []).
  { induction e as [|x l IHl]; [reflexivity|exact IHl]. }
  assert (H2 : filter (fun r : res C => match r with TieR _ => true | Cand _ => false end) (repeat (TieR T) k) = repeat (TieR T) k).
  { induction k as [|k IHk]; [reflexivity|]. simpl. f_equal. exact IHk. }
  rewrite H1, H2, repeat_length. reflexivity.
Qed.
Lemma count_cand_nf (e T : list C) k :
  length (filter (fun r : res C => match r with Cand _ => true | TieR _ => false end) (map Cand e ++ repeat (TieR T) k)) = length e.
Proof. fold (res_untied (map Cand e ++ repeat (TieR T) k)). rewrite res_untied_nf, map_length. reflexivity. Qed.
Lemma firstn_nf (e T : list C) k : firstn (length e) (map Cand e ++ repeat (TieR T) k) = map Cand e.
Proof.
  rewrite firstn_app, map_length, Nat.sub_diag, firstn_O, app_nil_r.
  rewrite <- (map_length Cand e) at 1. apply firstn_all.
Qed.
Lemma plain_cands_eq (e : list C) : flat_map (fun r : res C => match r with Cand c => [c] | TieR _ => [] end) (map Cand e) = e.
Proof. induction e as [|x e IH]; simpl; [reflexivity|]. rewrite IH. reflexivity. Qed.
Lemma last_tie_plain (e : list C) : last_tie (map Cand e) = None.
Proof. unfold last_tie. rewrite <- map_rev. destruct (rev e); reflexivity. Qed.

(* the members of a tie T among the keys of [sub]: at least as many entries as T has members *)
Lemma level_sub {X} (sub : list (C * X)) (T : list C) : NoDup T -> incl T (map fst sub) ->
  length T <= length (filter (fun cd => cmem (fst cd) T) sub).
Proof.
  intros Hn Hi. rewrite <- (map_length fst (filter _ sub)). apply NoDup_incl_length; [exact Hn|].
  intros x Hx. rewrite (filter_keys_eq (fun c => cmem c T)). apply filter_In. split; [apply Hi, Hx|apply Shape_proofs.cmem_In, Hx].
Qed.

Lemma mj_plus_nform sub k r : NoDup (map fst sub) -> 1 <= k <= length sub -> mj_plus sub k = inl r -> nform (map fst sub) k r.
Proof.
  intros Hn Hk. unfold mj_plus. destruct sub as [|[c0 d0] sub'] eqn:Es; [discriminate|]. rewrite <- Es in *.
  destruct (aggregate_one FMedianLow d0) as [med|e]; [|discriminate]. intros [= <-].
  set (l := map (fun cd : C * cscores => (fst cd, inject_Z (counts_over (snd cd) med))) sub).
  assert (Hl : map fst l = map fst sub) by (unfold l; rewrite map_map; reflexivity).
  rewrite <- Hl. apply (gnb_nform Qle_bool Qle_bool_total Qle_bool_trans); [|rewrite Hl; exact Hn].
  unfold l. rewrite map_length. exact Hk.
Qed.

Lemma mj_default_nform : forall fuel sub k r, NoDup (map fst sub) -> 1 <= k <= length sub ->
  mj_default fuel sub k = inl r -> nform (map fst sub) k r.
Proof.
  induction fuel as [|f IH]; intros sub k r Hn Hk; [discriminate|]. cbn [mj_default]. cbv zeta.
  destruct (fold_left Z.max (map (fun cd : C * cscores => cs_total (snd cd)) sub) 0%Z <=? 0)%Z; [discriminate|].
  destruct (aggregate FMedianLow sub) as [medians|e0] eqn:Ea; [|discriminate].
  pose proof (aggregate_keys _ _ _ Ea) as Hkeys.
  assert (Hb : nform (map fst sub) k (get_n_best Qle_bool medians k)).
  { rewrite <- Hkeys. apply (gnb_nform Qle_bool Qle_bool_total Qle_bool_trans); [|rewrite Hkeys; exact Hn].
    rewrite <- (map_length fst medians), Hkeys, map_length. exact Hk. }
  destruct (Nat.eqb (count_tie (get_n_best Qle_bool medians k)) 0) eqn:Ect; [intros [= <-]; exact Hb|].
  destruct Hb as (e & T & k' & Hr & Hlen & Hk' & Hnd & Hincl). rewrite Hr in Ect |- *. rewrite count_tie_nf in Ect.
  apply Nat.eqb_neq in Ect. rewrite count_cand_nf.
  destruct (nodup_app_inv _ _ Hnd) as (HndE & HndT & Hdis).
  assert (HiT : incl T (map fst sub)) by (intros x Hx; apply Hincl, in_or_app; right; exact Hx).
  assert (HiE : incl e (map fst sub)) by (intros x Hx; apply Hincl, in_or_app; left; exact Hx).
  destruct (Nat.ltb 0 (length e)) eqn:El.
  - rewrite firstn_nf, plain_cands_eq.
    set (sub' := filter (fun cd : C * cscores => negb (cmem (fst cd) e)) sub).
    destruct (mj_default f sub' (k - length e)) as [r'|e1] eqn:Er; [|discriminate]. intros [= <-].
    assert (Hkeys' : map fst sub' = filter (fun c => negb (cmem c e)) (map fst sub)) by apply (filter_keys_eq (fun c => negb (cmem c e))).
    replace (k - length e) with k' in Er by lia.
    assert (Hlt : length T <= length sub').
    { rewrite <- (map_length fst sub'). apply NoDup_incl_length; [exact HndT|]. intros x Hx. rewrite Hkeys'. apply filter_In.
      split; [apply HiT, Hx|]. apply negb_true_iff, not_true_iff_false. intros Hc. apply Shape_proofs.cmem_In in Hc. exact (Hdis x Hc Hx). }
    rewrite <- Hlen. apply (nform_prefix (map fst sub) (map fst sub')); [exact HndE|exact HiE| | |].
    + intros x Hx. rewrite Hkeys' in Hx. apply filter_In in Hx. tauto.
    + intros x Hx Hx'. rewrite Hkeys' in Hx'. apply filter_In in Hx'. destruct Hx' as [_ Hx'].
      apply negb_true_iff in Hx'. apply Shape_proofs.cmem_In in Hx. congruence.
    + apply (IH sub' k' r'); [rewrite Hkeys'; apply NoDup_filter, Hn|lia|exact Er].
  - apply Nat.ltb_ge in El. assert (e = []) by (destruct e; [reflexivity|simpl in El; lia]). subst e. simpl in Hlen. subst k'.
    simpl app. destruct k as [|k0]; [lia|]. cbn [repeat].
    set (sub1 := filter (fun cd : C * cscores => cmem (fst cd) T) sub).
    intros Hrec. apply IH in Hrec.
    + rewrite map_map in Hrec. cbn [fst] in Hrec. apply (nform_incl (map fst sub1)); [|exact Hrec].
      intros x Hx. eapply filter_keys_incl. exact Hx.
    + rewrite map_map. cbn [fst]. apply filter_keys_NoDup_gen, Hn.
    + rewrite map_length. pose proof (level_sub sub T HndT HiT). fold sub1 in H. lia.
Qed.

Theorem mj_nform plus cf votes n r : 1 <= n <= length (score_cands votes) -> majority_judgment plus cf votes n = inl r ->
  nform (score_cands votes) n r.
Proof.
  intros Hn. unfold majority_judgment.
  destruct (corrected_scores cf votes) as [sc|e0] eqn:Ec; [|discriminate].
  destruct (aggregate FMedianLow sc) as [med|e0] eqn:Ea; [|discriminate].
  pose proof (aggregate_keys _ _ _ Ea) as Hk. pose proof (corrected_scores_keys _ _ _ Ec) as Hsc.
  pose proof (corrected_scores_nodup _ _ _ Ec) as Hscn.
  assert (Hb : nform (map fst sc) n (get_n_best Qle_bool med n)).
  { rewrite <- Hk. apply (gnb_nform Qle_bool Qle_bool_total Qle_bool_trans); [|rewrite Hk; exact Hscn].
    rewrite <- (map_length fst med), Hk, Hsc. exact Hn. }
  rewrite <- Hsc.
  destruct Hb as (e & T & k & Hr & Hlen & Hk' & Hnd & Hincl). rewrite Hr.
  destruct k as [|k0].
  - simpl repeat. rewrite app_nil_r, last_tie_plain. intros [= <-].
    exists e, [], 0. rewrite !app_nil_r. simpl. split; [reflexivity|]. split; [exact Hlen|]. split; [left; reflexivity|].
    destruct (nodup_app_inv _ _ Hnd) as (HndE & _ & _). split; [exact HndE|]. intros x Hx. apply Hincl, in_or_app. left. exact Hx.
  - rewrite last_tie_app, count_tie_nf.
    destruct (nodup_app_inv _ _ Hnd) as (HndE & HndT & Hdis).
    assert (HiT : incl T (map fst sc)) by (intros x Hx; apply Hincl, in_or_app; right; exact Hx).
    assert (HiE : incl e (map fst sc)) by (intros x Hx; apply Hincl, in_or_app; left; exact Hx).
    set (sub := filter (fun cd : C * cscores => cmem (fst cd) T) sc).
    assert (Hsn : NoDup (map fst sub)) by (apply filter_keys_NoDup_gen, Hscn).
    assert (Hsl : 1 <= S k0 <= length sub) by (pose proof (level_sub sc T HndT HiT) as H; fold sub in H; lia).
    assert (Hsk : forall x, In x (map fst sub) -> In x T /\ In x (map fst sc)).
    { intros x Hx. unfold sub in Hx. rewrite (filter_keys_eq (fun c => cmem c T)) in Hx. apply filter_In in Hx.
      destruct Hx as [H1 H2]. apply Shape_proofs.cmem_In in H2. tauto. }
    replace (length (map Cand e ++ repeat (TieR T) (S k0)) - S k0) with (length e)
      by (rewrite app_length, map_length, repeat_length; lia).
    rewrite firstn_nf.
    assert (Hfin : forall r', nform (map fst sub) (S k0) r' -> nform (map fst sc) n (map Cand e ++ r')).
    { intros r' Hr'. rewrite <- Hlen. apply (nform_prefix (map fst sc) (map fst sub)); [exact HndE|exact HiE| | |exact Hr'].
      - intros x Hx. apply Hsk, Hx.
      - intros x Hx Hx'. apply Hsk in Hx'. exact (Hdis x Hx (proj1 Hx')). }
    destruct plus.
    + destruct (mj_plus sub (S k0)) as [r'|e1] eqn:Er; [|discriminate]. intros [= <-].
      apply Hfin. apply mj_plus_nform; assumption.
    + match goal with |- context [mj_default ?fu sub (S k0)] => destruct (mj_default fu sub (S k0)) as [r'|e1] eqn:Er end; [|discriminate].
      intros [= <-]. apply Hfin. eapply mj_default_nform; eassumption.
Qed.

(* ================================================================ PAV, SPAV *)
(* the candidates of an approval profile *)
Definition approval_cands (votes : aprofile) : list C := canon_set (flat_map fst votes).

Theorem pav_nform votes n r : pav votes n = AR_ok r -> nform (approval_cands votes) n r.
Proof.
  intros H. destruct (pav_committee votes n r H) as (W & s & Hbest & Hp & ->).
  destruct (pav_best_optimal votes _ n W Hbest) as [Hin _]. destruct (combos_sound _ _ _ Hin) as [Hss Hlen].
  destruct (canon_set_spec (flat_map fst votes)) as [Hcn _]. fold (approval_cands votes) in *.
  rewrite <- Hlen, <- (Permutation_length Hp). apply nform_plain.
  - eapply Permutation_NoDup; [apply Permutation_sym, Hp|]. eapply subseq_NoDup; [exact Hss|exact Hcn].
  - intros x Hx. eapply subseq_incl; [exact Hss|]. eapply Permutation_in; [exact Hp|exact Hx].
Qed.

Lemma spav_inner_keys (l : list C) (w : Q) x : forall d : list (C * Q),
  In x (map fst (fold_left (fun d c => dset d c (dget_or d c 0 + w)%Q) l d)) <-> In x (map fst d) \/ In x l.
Proof.
  induction l as [|c l IH]; intros d; simpl; [tauto|]. rewrite IH, Condorcet_proofs.dset_keys_in. split.
  - intros [[->|H]|H]; auto.
  - intros [H|[->|H]]; auto.
Qed.

Lemma spav_round_keys votes elected x :
  In x (map fst (spav_round votes elected)) <-> In x (flat_map fst votes) /\ ~ In x elected.
Proof.
  unfold spav_round. cbv zeta. rewrite (filter_keys_eq (fun c => negb (cmem c elected))), filter_In.
  assert (H : forall (vs : aprofile) (d : list (C * Q)),
    In x (map fst (fold_left (fun d bw =>
      fold_left (fun d c => dset d c (dget_or d c 0 + snd bw / inject_Z (Z.of_nat (S (inter_size (fst bw) elected))))%Q) (fst bw) d) vs d))
    <-> In x (map fst d) \/ In x (flat_map fst vs)).
  { induction vs as [|bw vs IH]; intros d; simpl; [tauto|]. rewrite IH, spav_inner_keys, in_app_iff. tauto. }
  rewrite (H votes []). simpl. rewrite negb_true_iff, <- not_true_iff_false, Shape_proofs.cmem_In. tauto.
Qed.

Lemma spav_loop_shape votes cands : NoDup cands -> (forall x, In x cands <-> In x (flat_map fst votes)) ->
  forall fuel n elected r, NoDup elected -> incl elected cands -> length elected <= n -> n <= length elected + fuel ->
  n <= length cands -> spav_loop fuel votes n elected = Some r ->
  NoDup r /\ incl r cands /\ length r = n.
Proof.
  intros Hcn Hck. induction fuel as [|f IH]; intros n elected r He Hi Hle Hf Hn; simpl.
  - assert (Nat.leb n (length elected) = true) as -> by (apply Nat.leb_le; lia). intros [= <-]. repeat split; try assumption. lia.
  - destruct (Nat.leb n (length elected)) eqn:El.
    + apply Nat.leb_le in El. intros [= <-]. repeat split; try assumption. lia.
    + apply Nat.leb_gt in El.
      (* somebody is still to be elected *)
      assert (Hex : exists c, In c cands /\ ~ In c elected).
      { destruct (existsb (fun c => negb (cmem c elected)) cands) eqn:E.
        - apply existsb_exists in E. destruct E as (c & Hc & Hm). exists c. split; [exact Hc|].
          apply negb_true_iff in Hm. intros Hin. apply Shape_proofs.cmem_In in Hin. congruence.
        - exfalso. assert (Hsub : incl cands elected).
          { intros c Hc. destruct (cmem c elected) eqn:Em; [apply Shape_proofs.cmem_In, Em|].
            assert (existsb (fun c => negb (cmem c elected)) cands = true) by (apply existsb_exists; exists c; rewrite Em; auto). congruence. }
          pose proof (NoDup_incl_length Hcn Hsub). lia. }
      destruct Hex as (c0 & Hc0 & Hn0).
      assert (Hne : spav_round votes elected <> []).
      { intros E. assert (Hk : In c0 (map fst (spav_round votes elected))) by (apply spav_round_keys; split; [apply Hck, Hc0|exact Hn0]).
        rewrite E in Hk. destruct Hk. }
      pose proof (Bucklin_proofs.gnb1_length _ Hne) as Hl1.
      destruct (get_n_best Qle_bool (spav_round votes elected) 1) as [|[c|t] rest] eqn:Eg; [simpl in Hl1; lia| |discriminate].
      assert (Hc : In c (map fst (spav_round votes elected))) by (apply (get_n_best_cand_in _ 1); rewrite Eg; left; reflexivity).
      apply spav_round_keys in Hc. destruct Hc as [Hc1 Hc2]. apply Hck in Hc1.
      apply IH.
      * apply Threshold_proofs.nodup_app_intro; [exact He|constructor; [intros []|constructor]|]. intros x Hx [<-|[]]. exact (Hc2 Hx).
      * intros x Hx. apply in_app_or in Hx. destruct Hx as [Hx|[<-|[]]]; [apply Hi, Hx|exact Hc1].
      * rewrite app_length. simpl. lia.
      * rewrite app_length. simpl. lia.
      * exact Hn.
Qed.

Theorem spav_nform votes n r : n <= length (approval_cands votes) -> spav votes n = Some r ->
  nform (approval_cands votes) n (map Cand r).
Proof.
  intros Hn H. destruct (canon_set_spec (flat_map fst votes)) as [Hcn Hck]. fold (approval_cands votes) in *.
  destruct (spav_loop_shape votes (approval_cands votes) Hcn Hck n n [] r (NoDup_nil _)) as (H1 & H2 & H3);
    [intros x []|simpl; lia|simpl; lia|exact Hn|exact H|].
  rewrite <- H3. apply nform_plain; assumption.
Qed.

(* ================================================================ preference addition (Bucklin, Oklahoma) *)
(* the candidates named on the ballots the rounds run over *)
Definition pa_cands (votes : list (ranked * Q)) : list C := flat_map (fun bw => flatten (fst bw)) votes.

(* what the round loop can return: a full normal form, or fewer than n distinct plain winners and no tie *)
Definition pa_result_ok (cands : list C) (n : nat) (r : list (res C)) : Prop :=
  nform cands n r \/ exists el, r = map Cand el /\ NoDup el /\ incl el cands /\ length el < n.

Lemma elected_mem_plain c (el : list C) : elected_mem c (map Cand el) = true <-> In c el.
Proof.
  unfold elected_mem. induction el as [|a el IH]; simpl; [split; [discriminate|tauto]|].
  rewrite orb_true_iff, IH. unfold ceqb. rewrite Pos.eqb_eq. split; intros [H|H]; auto.
Qed.

(* the running totals: distinct candidates of the ballots, nobody already elected *)
Definition pa_tot_ok (cands el : list C) (T : list (C * Q)) : Prop :=
  NoDup (map fst T) /\ forall x, In x (map fst T) -> In x cands /\ ~ In x el.

Lemma add_cand_ok cands el y T c : In c cands -> pa_tot_ok cands el T -> pa_tot_ok cands el (add_cand (map Cand el) y T c).
Proof.
  intros Hc [Hn Hk]. unfold add_cand. destruct (elected_mem c (map Cand el)) eqn:E; [split; assumption|].
  unfold tadd. split; [apply dset_nodup, Hn|]. intros x Hx. apply dset_keys_iff in Hx. destruct Hx as [->|Hx]; [|apply Hk, Hx].
  split; [exact Hc|]. intros Hin. apply elected_mem_plain in Hin. congruence.
Qed.

Lemma add_members_ok cands el y (l : list C) : (forall c, In c l -> In c cands) -> forall T,
  pa_tot_ok cands el T -> pa_tot_ok cands el (fold_left (add_cand (map Cand el) y) l T).
Proof.
  induction l as [|c l IH]; intros Hl T HT; simpl; [exact HT|].
  apply IH; [intros x Hx; apply Hl; right; exact Hx|]. apply add_cand_ok; [apply Hl; left; reflexivity|exact HT].
Qed.

Lemma add_round_ok coef votes r el : forall T, pa_tot_ok (pa_cands votes) el T ->
  pa_tot_ok (pa_cands votes) el (add_round coef votes r (map Cand el) T).
Proof.
  unfold add_round.
  assert (H : forall vs, incl vs votes -> forall T, pa_tot_ok (pa_cands votes) el T ->
            pa_tot_ok (pa_cands votes) el (fold_left (add_ballot (coef r) r (map Cand el)) vs T)).
  { induction vs as [|bw vs IH]; intros Hi T HT; simpl; [exact HT|].
    apply IH; [intros x Hx; apply Hi; right; exact Hx|].
    unfold add_ballot. destruct (nth_error (fst bw) r) as [it|] eqn:En; [|exact HT].
    apply add_members_ok; [|exact HT]. intros c Hc. unfold pa_cands. apply in_flat_map. exists bw.
    split; [apply Hi; left; reflexivity|]. unfold flatten. apply in_flat_map. exists it. split; [eapply nth_error_In, En|exact Hc]. }
  apply H. intros x Hx. exact Hx.
Qed.

Lemma majority_keys_in q (T : list (C * Q)) x : In x (map fst (majority_of q T)) -> In x (map fst T).
Proof.
  intros H. apply in_map_iff in H. destruct H as ([c v] & <- & Hin). apply majority_in in Hin. apply in_map_iff. exists (c, v). tauto.
Qed.

Lemma pa_loop_shape coef votes quota n : forall rounds T el,
  NoDup el -> incl el (pa_cands votes) -> length el < n -> pa_tot_ok (pa_cands votes) el T ->
  pa_result_ok (pa_cands votes) n (pa_loop coef votes quota n rounds T (map Cand el)).
Proof.
  set (cands := pa_cands votes).
  induction rounds as [|r0 rest IH]; intros T el He Hi Hlt HT; cbn [pa_loop]; cbv zeta.
  - right. exists el. repeat split; assumption.
  - pose proof (add_round_ok coef votes r0 el T HT) as [N1 K1]. fold cands in K1.
    set (T1 := add_round coef votes r0 (map Cand el) T) in *.
    pose proof (majority_nodup quota T1 N1) as NM.
    set (M := majority_of quota T1) in *.
    assert (KM : forall x, In x (map fst M) -> In x cands /\ ~ In x el) by (intros x Hx; apply K1, (majority_keys_in quota), Hx).
    rewrite map_length. set (m := n - length el).
    destruct (le_lt_dec m (length M)) as [Hge|Hsm].
    + assert (Hb : nform (map fst M) m (get_n_best Qle_bool M m)) by (apply (gnb_nform Qle_bool Qle_bool_total Qle_bool_trans); [lia|exact NM]).
      assert (Hfull : nform cands n (map Cand el ++ get_n_best Qle_bool M m)).
      { replace n with (length el + m) by lia. apply (nform_prefix cands (map fst M)); [exact He|exact Hi| | |exact Hb].
        - intros x Hx. apply KM, Hx.
        - intros x Hx Hx'. exact (proj2 (KM x Hx') Hx). }
      rewrite (nform_length _ _ _ Hfull), Nat.eqb_refl. left. exact Hfull.
    + destruct (gnb_all Qle_bool Qle_bool_total Qle_bool_trans M m ltac:(lia) ltac:(lia)) as (s & Hp & Hbest). rewrite Hbest.
      assert (Hps : Permutation (map fst s) (map fst M)) by (apply Permutation_map, Hp).
      rewrite <- map_app. rewrite map_length, app_length, map_length, (Permutation_length Hp).
      assert (Nat.eqb (length el + length M) n = false) as -> by (apply Nat.eqb_neq; lia).
      apply IH.
      * apply Threshold_proofs.nodup_app_intro; [exact He|eapply Permutation_NoDup; [apply Permutation_sym, Hps|exact NM]|].
        intros x Hx Hx'. apply (Permutation_in _ Hps) in Hx'. exact (proj2 (KM x Hx') Hx).
      * intros x Hx. apply in_app_or in Hx. destruct Hx as [Hx|Hx]; [apply Hi, Hx|]. apply (Permutation_in _ Hps) in Hx. apply KM, Hx.
      * rewrite app_length, map_length, (Permutation_length Hp). lia.
      * unfold drop_best. split.
        -- rewrite (filter_keys_eq (fun c => negb (elected_mem c (map Cand (map fst s))))). apply NoDup_filter, N1.
        -- intros x Hx. rewrite (filter_keys_eq (fun c => negb (elected_mem c (map Cand (map fst s))))) in Hx.
           apply filter_In in Hx. destruct Hx as [Hx Hm]. destruct (K1 x Hx) as [Hc Hne]. split; [exact Hc|].
           intros Hin. apply in_app_or in Hin. destruct Hin as [Hin|Hin]; [exact (Hne Hin)|].
           apply negb_true_iff in Hm. apply elected_mem_plain in Hin. congruence.
Qed.

Theorem pa_core_shape coef votes n : 1 <= n -> pa_result_ok (pa_cands votes) n (pa_core coef votes n).
Proof.
  intros Hn. unfold pa_core. apply (pa_loop_shape coef votes _ n _ [] []); [constructor|intros x []|simpl; lia|].
  split; [constructor|intros x []].
Qed.

(* in terms of the declarative shape: exactly n well-shaped entries, or fewer than n distinct plain winners *)
Lemma pa_result_ok_shape cands n r : pa_result_ok cands n r ->
  (length r <= n)%nat /\ sel_shape cands (length r) r /\ (length r < n -> ties_of r = []).
Proof.
  intros [H|(el & -> & He & Hi & Hl)].
  - pose proof (nform_length _ _ _ H) as Hlen. rewrite Hlen. split; [lia|]. split; [apply nform_shape, H|lia].
  - rewrite map_length. split; [lia|]. split; [apply nform_shape, nform_plain; assumption|]. intros _. apply ties_of_cands.
Qed.

Theorem pa_eval_shape fx coef split votes n r : pa_eval fx coef split votes n = PA_ok r ->
  pa_result_ok (pa_cands (prep fx split votes)) n r.
Proof.
  unfold pa_eval. destruct n as [|n0]; [discriminate|]. fold (prep fx split votes).
  destruct (prep fx split votes) as [|bw vs] eqn:Ep; [discriminate|]. rewrite <- Ep.
  unfold reconcile. destruct (existsb _ _); [discriminate|]. intros [= <-]. apply pa_core_shape. lia.
Qed.

(* ---- _decouple_equal_rankings introduces no candidate: every ballot it writes (either splicing loop) names only
   candidates of the ballot it comes from *)
Lemma gadd_keys_in {K} (keqb : K -> K -> bool) (d : list (K * Q)) k x k' :
  In k' (map fst (gadd keqb d k x)) -> k' = k \/ In k' (map fst d).
Proof.
  induction d as [|[k0 v] d IH]; simpl; [intros [<-|[]]; left; reflexivity|].
  destruct (keqb k k0); simpl; [intros H; right; exact H|]. intros [<-|H]; [right; left; reflexivity|].
  destruct (IH H) as [->|H']; [left; reflexivity|right; right; exact H'].
Qed.

Lemma picks_in {X} (l : list X) x rest : In (x, rest) (picks l) -> In x l /\ incl rest l.
Proof.
  revert x rest. induction l as [|a l IH]; intros x rest; simpl; [tauto|]. intros [H|H].
  - injection H as <- <-. split; [left; reflexivity|intros y Hy; right; exact Hy].
  - apply in_map_iff in H. destruct H as ([y r'] & Heq & Hin). simpl in Heq. injection Heq as <- <-.
    destruct (IH _ _ Hin) as [H1 H2]. split; [right; exact H1|]. intros z [<-|Hz]; [left; reflexivity|right; apply H2, Hz].
Qed.

Lemma perms_n_in n : forall (l p : list C), In p (perms_n n l) -> incl p l.
Proof.
  induction n as [|n IH]; intros l p; simpl; [intros [<-|[]]; intros x []|].
  intros H. apply in_flat_map in H. destruct H as ([x rest] & Hpk & Hin). apply in_map_iff in Hin.
  destruct Hin as (q & <- & Hq). simpl. destruct (picks_in _ _ _ Hpk) as [Hx Hr].
  intros y [<-|Hy]; [exact Hx|]. apply Hr. exact (IH _ _ Hq y Hy).
Qed.

Lemma product_perms_in (S : list C) : forall (sr : list (nat * list C)) parts,
  (forall il, In il sr -> incl (snd il) S) ->
  In parts (product (map (fun il : nat * list C => perms (snd il)) sr)) -> forall p, In p parts -> incl p S.
Proof.
  induction sr as [|il sr IH]; intros parts Hs; simpl; [intros [<-|[]] p []|].
  intros H. apply in_flat_map in H. destruct H as (p0 & Hp0 & Hin). apply in_map_iff in Hin. destruct Hin as (ps & <- & Hps).
  intros p [<-|Hp].
  - intros x Hx. apply (Hs il (or_introl eq_refl)). exact (perms_n_in _ _ _ Hp0 x Hx).
  - apply (IH ps); [intros il' Hil; apply Hs; right; exact Hil|exact Hps|exact Hp].
Qed.

Lemma shared_ranks_in : forall (r : ranked) i il, In il (shared_ranks_from i r) -> incl (snd il) (flatten r).
Proof.
  induction r as [|[c|l] r IH]; intros i il; simpl; [tauto| |].
  - intros H x Hx. right. exact (IH _ _ H x Hx).
  - intros [<-|H] x Hx; simpl in *; apply in_or_app; [left; exact Hx|right; exact (IH _ _ H x Hx)].
Qed.

Lemma flatten_app (a b : ranked) : flatten (a ++ b) = flatten a ++ flatten b.
Proof. unfold flatten. apply flat_map_app. Qed.
Lemma flatten_plain_items (l : list C) : flatten (map IP l) = l.
Proof. unfold flatten. induction l as [|x l IH]; simpl; [reflexivity|]. f_equal. exact IH. Qed.
Lemma flatten_firstn k (v : ranked) : incl (flatten (firstn k v)) (flatten v).
Proof. intros x Hx. rewrite <- (firstn_skipn k v), flatten_app. apply in_or_app. left. exact Hx. Qed.
Lemma flatten_skipn k (v : ranked) : incl (flatten (skipn k v)) (flatten v).
Proof. intros x Hx. rewrite <- (firstn_skipn k v), flatten_app. apply in_or_app. right. exact Hx. Qed.

Lemma splice_in (S : list C) v pos part : incl (flatten v) S -> incl part S -> incl (flatten (splice v pos part)) S.
Proof.
  intros Hv Hp x Hx. unfold splice in Hx. rewrite !flatten_app, flatten_plain_items in Hx.
  apply in_app_or in Hx. destruct Hx as [Hx|Hx]; [apply Hv, (flatten_firstn pos), Hx|].
  apply in_app_or in Hx. destruct Hx as [Hx|Hx]; [apply Hp, Hx|apply Hv, (flatten_skipn (Datatypes.S pos)), Hx].
Qed.

Lemma splice_all_in (S : list C) fx : forall idx parts v off, incl (flatten v) S -> (forall p, In p parts -> incl p S) ->
  incl (flatten (splice_all fx v off idx parts)) S.
Proof.
  induction idx as [|i idx IH]; intros parts v off Hv Hp; simpl; [exact Hv|].
  destruct parts as [|p parts]; [exact Hv|].
  apply IH; [apply splice_in; [exact Hv|apply Hp; left; reflexivity]|intros q Hq; apply Hp; right; exact Hq].
Qed.

Lemma variants_in fx (r v : ranked) : In v (variants fx r) -> incl (flatten v) (flatten r).
Proof.
  unfold variants. intros H. apply in_map_iff in H. destruct H as (parts & <- & Hparts).
  apply splice_all_in; [intros x Hx; exact Hx|].
  apply (product_perms_in (flatten r) (shared_ranks_from 0 r) parts); [|exact Hparts].
  intros il Hil. exact (shared_ranks_in r 0 il Hil).
Qed.

Lemma decouple_cands fx votes : incl (pa_cands (decouple fx votes)) (pa_cands votes).
Proof.
  set (S := pa_cands votes).
  set (ok := fun d : list (ranked * Q) => forall k, In k (map fst d) -> incl (flatten k) S).
  assert (Hstep : forall new bw, In bw votes -> ok new -> ok (decouple_step fx new bw)).
  { intros new bw Hbw Hnew. unfold decouple_step. destruct (has_shared (fst bw)); [|exact Hnew].
    set (share := (snd bw / inject_Z (Z.of_nat (length (variants fx (fst bw)))))%Q).
    assert (Hfold : forall vs acc, (forall v, In v vs -> incl (flatten v) S) -> ok acc ->
               ok (fold_left (fun acc v => gadd ranked_eqb acc v share) vs acc)).
    { induction vs as [|v vs IH]; intros acc Hvs Hacc; simpl; [exact Hacc|].
      apply IH; [intros w Hw; apply Hvs; right; exact Hw|]. intros k Hk. apply gadd_keys_in in Hk.
      destruct Hk as [->|Hk]; [apply Hvs; left; reflexivity|apply Hacc, Hk]. }
    apply Hfold.
    - intros v Hv x Hx. unfold S, pa_cands. apply in_flat_map. exists bw. split; [exact Hbw|exact (variants_in fx _ _ Hv x Hx)].
    - intros k Hk. apply Hnew. unfold rdel in Hk. apply in_map_iff in Hk. destruct Hk as (kv & <- & Hin). apply filter_In in Hin.
      apply in_map. tauto. }
  assert (Hfold : forall vs new, incl vs votes -> ok new -> ok (fold_left (decouple_step fx) vs new)).
  { induction vs as [|bw vs IH]; intros new Hi Hnew; simpl; [exact Hnew|].
    apply IH; [intros x Hx; apply Hi; right; exact Hx|apply Hstep; [apply Hi; left; reflexivity|exact Hnew]]. }
  assert (Hfin : ok (decouple fx votes)).
  { unfold decouple. apply Hfold; [intros x Hx; exact Hx|]. intros k Hk x Hx. apply in_map_iff in Hk. destruct Hk as (bw & <- & Hbw).
    unfold S, pa_cands. apply in_flat_map. exists bw. split; assumption. }
  intros x Hx. unfold pa_cands in Hx. apply in_flat_map in Hx. destruct Hx as (bw & Hbw & Hx).
  apply (Hfin (fst bw)); [apply in_map, Hbw|exact Hx].
Qed.

Lemma pa_result_ok_incl cands cands' n r : incl cands cands' -> pa_result_ok cands n r -> pa_result_ok cands' n r.
Proof.
  intros Hc [H|(el & -> & He & Hi & Hl)]; [left; eapply nform_incl; eassumption|].
  right. exists el. repeat split; try assumption. intros x Hx. apply Hc, Hi, Hx.
Qed.

(* Bucklin / Oklahoma / any coefficients, with or without decoupling of shared ranks, either splicing loop:
   over the candidates of the ORIGINAL ballots *)
Theorem pa_shape fx coef split votes n r : pa_eval fx coef split votes n = PA_ok r ->
  (length r <= n)%nat /\ sel_shape (pa_cands votes) (length r) r /\ (length r < n -> ties_of r = []).
Proof.
  intros H. apply pa_result_ok_shape. apply (pa_result_ok_incl (pa_cands (prep fx split votes))); [|exact (pa_eval_shape fx coef split votes n r H)].
  unfold prep. destruct split; [apply decouple_cands|intros x Hx; exact Hx].
Qed.

(* the seats are NOT always filled (known finding C08-preference-addition-short): three candidates stand, two seats
   are asked for, one winner is returned - after the last preference round nobody else has passed the quota *)
Definition pa_short_votes : list (ranked * Q) := [([IP 1%positive], 5 # 1); ([IP 2%positive; IP 3%positive], 1 # 1)]%Q.
(* ... and the recorded witness of the finding, with a shared rank *)
Definition pa_short_votes' : list (ranked * Q) := [([IP 1%positive], 5 # 1); ([IS [1%positive; 3%positive]; IP 2%positive], 1 # 1)]%Q.

Theorem pa_full_refuted :
  canon_set (pa_cands pa_short_votes) = [1; 2; 3]%positive /\
  bucklin false pa_short_votes 2 = PA_ok [Cand 1%positive] /\ oklahoma false pa_short_votes 2 = PA_ok [Cand 1%positive] /\
  bucklin true pa_short_votes 2 = PA_ok [Cand 1%positive] /\
  canon_set (pa_cands pa_short_votes') = [1; 2; 3]%positive /\
  bucklin false pa_short_votes' 2 = PA_ok [Cand 1%positive] /\ oklahoma false pa_short_votes' 2 = PA_ok [Cand 1%positive].
Proof. vm_compute. repeat split; reflexivity. Qed.

(* ================================================================ STAR (default configuration) *)
(* the answer is Schulze over the pairwise counts of the run-off members: well-shaped whenever those counts name at
   least n candidates ... *)
Theorem star_nform votes order n r agg : score_to_simple star_cfg votes = inl agg ->
  let pv := star_pairwise votes (star_members (get_n_best Qle_bool agg (n + 1))) in
  1 <= n <= length (candidates pv) -> star votes order n = inl r -> nform (candidates pv) n r.
Proof.
  intros Ha pv Hn. unfold star. rewrite Ha. intros [= <-]. apply schulze_nform, Hn.
Qed.

(* ... which they need not (known finding C08-star-short): no ballot separates the two finalists *)
Definition star_short_votes : sprofile := [([(1%positive, 5 # 1); (2%positive, 5 # 1); (3%positive, 3 # 1)]%Q, 2%Z)].
Theorem star_full_refuted : score_cands star_short_votes = [1; 2; 3]%positive /\ star_auto star_short_votes 1 = inl [].
Proof. vm_compute. split; reflexivity. Qed.
