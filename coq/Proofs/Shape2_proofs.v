(* Result shape (C08), second part: the declarative shape [sel_shape] of Proofs/Shape_proofs.v proved for the
   evaluators that end in get_n_best over a per-candidate dictionary (Copeland raw / second order, minimax,
   Schulze), for Kemeny-Young and ranked pairs, score voting, majority judgment (both tie-breakers), PAV, SPAV
   and preference addition (Bucklin / Oklahoma: at most n, well-shaped for its own length; the short list is a
   refuted clause with its witness).

   [nform cands n r]: r is plain winners followed by k copies of ONE tie object with more than k members, all
   named candidates distinct members of cands, n entries.  It is closed under prefixing distinct plain winners
   that are not candidates of the rest (the way every tie-breaking / multi-round rule composes its answer),
   and it implies [sel_shape]. *)
From Coq Require Import ZArith QArith List Bool Lia Permutation Arith.
From VL Require Import Prelude.PyDict Model.GetNBest Model.Condorcet Proofs.Dict_proofs Proofs.GetNBest_proofs
     Proofs.QOrd Proofs.HA_proofs Proofs.Condorcet_proofs Proofs.Shape_proofs Proofs.Smith_proofs Proofs.Minimax_proofs
     Proofs.Schulze_proofs Proofs.Kemeny_proofs Proofs.RankedPairs_proofs.
Import ListNotations.
Close Scope Q_scope.
Close Scope Z_scope.
Open Scope nat_scope.

(* ================================================================ the normal form *)
Definition nform (cands : list C) (n : nat) (r : list (res C)) : Prop :=
  exists (e T : list C) (k : nat),
    r = map Cand e ++ repeat (TieR T) k /\ length e + k = n /\ (k = 0 \/ k < length T) /\
    NoDup (e ++ T) /\ incl (e ++ T) cands.

Lemma nform_shape cands n r : nform cands n r -> sel_shape cands n r.
Proof. intros (e & T & k & -> & Hl & Hk & Hd & Hi). apply normal_form_shape; assumption. Qed.

Lemma nform_incl cands cands' n r : incl cands cands' -> nform cands n r -> nform cands' n r.
Proof.
  intros Hc (e & T & k & Hr & Hl & Hk & Hd & Hi). exists e, T, k. repeat split; try assumption.
  intros x Hx. apply Hc, Hi, Hx.
Qed.

Lemma nform_length cands n r : nform cands n r -> length r = n.
Proof. intros (e & T & k & -> & Hl & _). rewrite app_length, map_length, repeat_length. exact Hl. Qed.

(* distinct plain winners in front of a normal form over candidates they are not among *)
Lemma nform_prefix cands cands' (e : list C) k r :
  NoDup e -> incl e cands -> incl cands' cands -> (forall x, In x e -> ~ In x cands') ->
  nform cands' k r -> nform cands (length e + k) (map Cand e ++ r).
Proof.
  intros He Hie Hic Hdis (e' & T & k' & -> & Hl & Hk & Hd & Hi).
  exists (e ++ e'), T, k'. rewrite map_app, <- app_assoc. split; [reflexivity|].
  split; [rewrite app_length; lia|]. split; [exact Hk|]. split.
  - rewrite <- app_assoc. apply Threshold_proofs.nodup_app_intro; [exact He|exact Hd|]. intros x Hx Hx'. exact (Hdis x Hx (Hi x Hx')).
  - rewrite <- app_assoc. intros x Hx. apply in_app_or in Hx. destruct Hx as [Hx|Hx]; [apply Hie, Hx|apply Hic, Hi, Hx].
Qed.

Lemma nform_plain cands (e : list C) : NoDup e -> incl e cands -> nform cands (length e) (map Cand e).
Proof.
  intros He Hi. exists e, [], 0. rewrite !app_nil_r. simpl. split; [reflexivity|]. split; [lia|]. split; [left; reflexivity|].
  split; assumption.
Qed.

(* ---- every get_n_best result over a dictionary with distinct keys, for any total preorder on the values *)
Section GShape.
  Context {V : Type}.
  Variable leb : V -> V -> bool.
  Hypothesis leb_total : forall a b, leb a b = true \/ leb b a = true.
  Hypothesis leb_trans : forall a b c, leb a b = true -> leb b c = true -> leb a c = true.
  Notation gnb := (@get_n_best C V leb).

  Lemma map_cand_keys' (l : list (C * V)) : map (fun it : C * V => Cand (fst it)) l = map Cand (map fst l).
  Proof. rewrite map_map. reflexivity. Qed.

  Theorem gnb_nform (votes : list (C * V)) n : 1 <= n <= length votes -> NoDup (map fst votes) ->
    nform (map fst votes) n (gnb votes n).
  Proof.
    intros [Hn Hle] Hnd.
    destruct (get_n_best_spec leb leb_total leb_trans votes n Hn) as [Hsmall Hbig].
    destruct (Nat.eq_dec n (length votes)) as [He|Hne].
    - destruct (Hsmall ltac:(lia)) as (s & Hp & _ & Hr).
      exists (map fst s), [], 0. rewrite Hr. unfold cand_of. rewrite map_cand_keys', !app_nil_r. simpl.
      split; [reflexivity|]. split; [rewrite map_length, (Permutation_length Hp); lia|]. split; [left; reflexivity|].
      split.
      + eapply Permutation_NoDup; [apply Permutation_map, Permutation_sym, Hp|exact Hnd].
      + intros x Hx. eapply Permutation_in; [apply Permutation_map, Hp|exact Hx].
    - destruct (Hbig ltac:(lia)) as (above & level & below & thr & Hp & _ & _ & _ & _ & Hlen & Hfit & Htie).
      assert (HndL : NoDup (map fst (above ++ level ++ below))).
      { eapply Permutation_NoDup; [apply Permutation_map, Permutation_sym, Hp|exact Hnd]. }
      rewrite !map_app in HndL.
      assert (HndAL : NoDup (map fst above ++ map fst level)).
      { rewrite app_assoc in HndL. apply nodup_app_inv in HndL. tauto. }
      assert (Hincl : incl (map fst above ++ map fst level) (map fst votes)).
      { intros x Hx. eapply Permutation_in; [apply Permutation_map, Hp|]. rewrite !map_app.
        apply in_app_or in Hx. apply in_or_app. destruct Hx; [left; assumption|right; apply in_or_app; left; assumption]. }
      destruct (Nat.eq_dec (length above + length level) n) as [Hf|Hnf].
      + exists (map fst (above ++ level)), [], 0. rewrite (Hfit Hf). unfold cand_of. rewrite map_cand_keys', !app_nil_r. simpl.
        split; [reflexivity|]. split; [rewrite map_length, app_length; lia|]. split; [left; reflexivity|].
        rewrite map_app. split; assumption.
      + exists (map fst above), (map fst level), (n - length above).
        rewrite (Htie ltac:(lia)). unfold cand_of. rewrite map_cand_keys'.
        split; [reflexivity|]. split; [rewrite map_length; lia|]. split; [right; rewrite map_length; lia|].
        split; assumption.
  Qed.

  (* fewer entries than seats: everybody, untied *)
  Lemma gnb_all (votes : list (C * V)) n : 1 <= n -> length votes <= n ->
    exists s, Permutation s votes /\ gnb votes n = map Cand (map fst s).
  Proof.
    intros Hn Hle. destruct (get_n_best_spec leb leb_total leb_trans votes n Hn) as [Hsmall _].
    destruct (Hsmall Hle) as (s & Hp & _ & Hr). exists s. split; [exact Hp|]. rewrite Hr. unfold cand_of. apply map_cand_keys'.
  Qed.

  (* the same over any list of candidates the keys are a rearrangement of *)
  Corollary gnb_nform_perm (votes : list (C * V)) cands n : 1 <= n <= length cands -> NoDup (map fst votes) ->
    NoDup cands -> (forall x, In x (map fst votes) <-> In x cands) -> nform cands n (gnb votes n).
  Proof.
    intros Hn Hnd Hc Hk.
    assert (Hp : Permutation (map fst votes) cands) by (apply NoDup_Permutation; assumption).
    apply (nform_incl (map fst votes)); [intros x Hx; apply Hk, Hx|].
    apply gnb_nform; [|exact Hnd]. rewrite <- (map_length fst votes), (Permutation_length Hp). exact Hn.
  Qed.
End GShape.

(* ---- members and plain part of a normal form *)
Lemma res_members_nf (e T : list C) k x : In x (res_members (map Cand e ++ repeat (TieR T) k)) <-> k <> 0 /\ In x T.
Proof.
  unfold res_members. rewrite flat_map_app.
  assert (H0 : flat_map (fun y : res C => match y with TieR l => l | Cand _ => [] end) (map Cand e) = []).
  { induction e as [|a e IH]; simpl; [reflexivity|exact IH]. }
  rewrite H0. simpl. induction k as [|k IH]; simpl; [split; [tauto|intros [H _]; congruence]|].
  rewrite in_app_iff, IH. split; [intros [H|[_ H]]; (split; [discriminate|exact H])|intros [_ H]; left; exact H].
Qed.
Lemma res_untied_nf (e T : list C) k : res_untied (map Cand e ++ repeat (TieR T) k) = map Cand e.
Proof.
  unfold res_untied. rewrite filter_app.
  assert (H1 : forall l : list C, filter (fun y : res C => match y with Cand _ => true | TieR _ => false end) (map Cand l) = map Cand l).
  { induction l as [|a l IH]; simpl; [reflexivity|]. rewrite IH. reflexivity. }
  assert (H2 : filter (fun y : res C => match y with Cand _ => true | TieR _ => false end) (repeat (TieR T) k) = []).
  { induction k as [|k IH]; simpl; [reflexivity|exact IH]. }
  rewrite H1, H2, app_nil_r. reflexivity.
Qed.
Lemma has_tie_nf (e T : list C) k : has_tie (map Cand e ++ repeat (TieR T) k) = negb (Nat.eqb k 0).
Proof.
  unfold has_tie. rewrite existsb_app.
  assert (H1 : existsb (fun y : res C => match y with TieR _ => true | Cand _ => false end) (map Cand e) = false).
  { induction e as [|a l IH]; simpl; [reflexivity|exact IH]. }
  rewrite H1. destruct k; reflexivity.
Qed.

(* ================================================================ Copeland *)
Open Scope Z_scope.

Lemma dadd_keys (d : list (C * Z)) c k : NoDup (map fst d) ->
  NoDup (map fst (dadd d c k)) /\ forall x, In x (map fst (dadd d c k)) <-> x = c \/ In x (map fst d).
Proof. unfold dadd. apply dset_keys. Qed.

Lemma wins_in_cands (v : pvotes) t p : In p (pairwise_wins v t) -> In (fst p) (candidates v) /\ In (snd p) (candidates v).
Proof.
  unfold pairwise_wins. intros H. apply in_map_iff in H. destruct H as ([q n] & Hq & Hin). simpl in Hq. subst q.
  apply filter_In in Hin. destruct Hin as [Hin _].
  split; apply candidates_spec; exists p, n; (split; [exact Hin|]); [left|right]; reflexivity.
Qed.

Lemma copeland_scores_keys_in (S : list C) (ws : list pair) : (forall p, In p ws -> In (fst p) S /\ In (snd p) S) ->
  forall d, NoDup (map fst d) -> incl (map fst d) S ->
  NoDup (map fst (fold_left (fun d (p : pair) => dadd (dadd d (fst p) 1) (snd p) (-1)) ws d)) /\
  incl (map fst (fold_left (fun d (p : pair) => dadd (dadd d (fst p) 1) (snd p) (-1)) ws d)) S.
Proof.
  induction ws as [|p ws IH]; intros Hs d Hd Hi; simpl; [split; assumption|].
  destruct (Hs p (or_introl eq_refl)) as [Ha Hb].
  destruct (dadd_keys d (fst p) 1 Hd) as [N1 K1]. destruct (dadd_keys _ (snd p) (-1) N1) as [N2 K2].
  apply IH; [intros q Hq; apply Hs; right; exact Hq|exact N2|].
  intros x Hx. apply K2 in Hx. destruct Hx as [->|Hx]; [exact Hb|]. apply K1 in Hx. destruct Hx as [->|Hx]; [exact Ha|apply Hi, Hx].
Qed.

(* the first-order score dictionary: one entry per candidate *)
Definition cop_scores (v : pvotes) : list (C * Z) := fold_left seed (candidates v) (copeland_scores (pairwise_wins v false)).

Lemma cop_scores_keys (v : pvotes) : NoDup (map fst (cop_scores v)) /\ forall x, In x (map fst (cop_scores v)) <-> In x (candidates v).
Proof.
  destruct (copeland_scores_keys_in (candidates v) (pairwise_wins v false) (wins_in_cands v false) [] (NoDup_nil _)) as [Hn Hk];
    [intros x []|].
  destruct (seed_fold (candidates v) _ Hn) as (Sn & _ & Sk). fold (cop_scores v) in Sn, Sk. split; [exact Sn|].
  intros x. rewrite Sk. split; [intros [H|H]; [apply Hk, H|exact H]|intros H; right; exact H].
Qed.

(* the second-order step of Copeland as a function of the first-order answer *)
Definition cop_second (scores : list (C * Z)) (wins : list pair) (best : list (res C)) : list (res C) :=
  let tied := res_members best in
  let so0 := flat_map (fun cs : C * Z => if cmem (fst cs) tied then [(fst cs, 0)] else []) scores in
  let so := fold_left (fun d (p : pair) => if cmem (fst p) tied then dadd d (fst p) (dget_or scores (snd p) 0) else d) wins so0 in
  let untied := res_untied best in
  untied ++ get_n_best zle_bool so (length best - length untied).

Lemma copeland_unfold2 so v n :
  copeland so v n = let best := get_n_best zle_bool (cop_scores v) n in
                    if so && has_tie best then cop_second (cop_scores v) (pairwise_wins v false) best else best.
Proof. reflexivity. Qed.

Lemma so0_keys (scores : list (C * Z)) tied :
  map fst (flat_map (fun cs : C * Z => if cmem (fst cs) tied then [(fst cs, 0)] else []) scores)
  = filter (fun c => cmem c tied) (map fst scores).
Proof.
  induction scores as [|[c s] l IH]; simpl; [reflexivity|]. destruct (cmem c tied); simpl; rewrite IH; reflexivity.
Qed.

Lemma so_fold_keys (scores : list (C * Z)) tied (wins : list pair) : forall d, NoDup (map fst d) ->
  (forall x, In x (map fst d) <-> In x tied) ->
  let d' := fold_left (fun d (p : pair) => if cmem (fst p) tied then dadd d (fst p) (dget_or scores (snd p) 0) else d) wins d in
  NoDup (map fst d') /\ forall x, In x (map fst d') <-> In x tied.
Proof.
  induction wins as [|p ws IH]; intros d Hd Hk; simpl; [split; assumption|].
  destruct (cmem (fst p) tied) eqn:E; [|apply IH; assumption].
  apply Shape_proofs.cmem_In in E. destruct (dadd_keys d (fst p) (dget_or scores (snd p) 0) Hd) as [N1 K1].
  apply IH; [exact N1|]. intros x. rewrite K1, Hk. split; [intros [->|H]; assumption|intros H; right; exact H].
Qed.

Close Scope Z_scope.

Theorem cop_second_nform cands (scores : list (C * Z)) wins (e T : list C) k n :
  NoDup (map fst scores) -> incl (e ++ T) (map fst scores) -> incl (e ++ T) cands -> NoDup (e ++ T) ->
  length e + k = n -> 1 <= k < length T ->
  nform cands n (cop_second scores wins (map Cand e ++ repeat (TieR T) k)).
Proof.
  intros Hsn Hik Hic Hnd Hlen Hk. unfold cop_second.
  set (best := map Cand e ++ repeat (TieR T) k).
  set (tied := res_members best).
  assert (Htied : forall x, In x tied <-> In x T).
  { intros x. unfold tied, best. rewrite res_members_nf. split; [tauto|]. intros H. split; [lia|exact H]. }
  destruct (nodup_app_inv _ _ Hnd) as (HndE & HndT & Hdis).
  set (so0 := flat_map (fun cs : C * Z => if cmem (fst cs) tied then [(fst cs, 0%Z)] else []) scores).
  assert (H0n : NoDup (map fst so0)) by (unfold so0; rewrite so0_keys; apply NoDup_filter, Hsn).
  assert (H0k : forall x, In x (map fst so0) <-> In x tied).
  { intros x. unfold so0. rewrite so0_keys, filter_In, Shape_proofs.cmem_In. split; [tauto|]. intros H. split; [|exact H].
    apply Hik, in_or_app. right. apply Htied, H. }
  destruct (so_fold_keys scores tied wins so0 H0n H0k) as [Sn Sk]. cbv zeta in Sn, Sk.
  set (so := fold_left _ wins so0) in *.
  replace (res_untied best) with (map Cand e) by (symmetry; apply res_untied_nf).
  replace (length best) with (length e + k) by (unfold best; rewrite app_length, map_length, repeat_length; reflexivity).
  rewrite map_length.
  replace (length e + k - length e) with k by lia.
  rewrite <- Hlen. apply (nform_prefix cands T); [exact HndE|intros x Hx; apply Hic, in_or_app; left; exact Hx| |exact Hdis|].
  - intros x Hx. apply Hic, in_or_app. right. exact Hx.
  - apply (gnb_nform_perm zle_bool zle_total zle_trans so T k); [lia|exact Sn|exact HndT|].
    intros x. rewrite Sk. apply Htied.
Qed.

Theorem copeland_nform so (v : pvotes) n : 1 <= n <= length (candidates v) -> nform (candidates v) n (copeland so v n).
Proof.
  intros Hn. destruct (cop_scores_keys v) as [Sn Sk]. rewrite copeland_unfold2. cbv zeta.
  pose proof (gnb_nform_perm zle_bool zle_total zle_trans (cop_scores v) (candidates v) n Hn Sn (candidates_NoDup v) Sk) as Hb.
  destruct (so && has_tie _) eqn:E; [|exact Hb].
  apply andb_true_iff in E. destruct E as [_ E].
  destruct Hb as (e & T & k & Hr & Hl & Hk & Hd & Hi). rewrite Hr in E |- *. rewrite has_tie_nf in E.
  apply negb_true_iff, Nat.eqb_neq in E.
  apply cop_second_nform; [exact Sn| |exact Hi|exact Hd|exact Hl|lia].
  intros x Hx. apply Sk, Hi, Hx.
Qed.

(* ================================================================ minimax *)
(* a pairwise dictionary over a single candidate (only a diagonal pair) has no contest: the completed dictionary is
   empty and so is the answer; with a real contest (two candidates) every candidate is the loser of some pair *)
Theorem minimax_nform (s : Condorcet.scorer) (v : pvotes) n : 2 <= length (candidates v) -> 1 <= n <= length (candidates v) ->
  nform (candidates v) n (minimax s v n).
Proof.
  intros H2 Hn. rewrite minimax_unfold. destruct (mc_keys v H2 s) as [Kn Kk].
  set (mc := mc_of (score_pairs s (complete v))) in *.
  assert (Hm : map fst (map (fun cs : C * Z => (fst cs, (- snd cs)%Z)) mc) = map fst mc) by (rewrite map_map; reflexivity).
  apply (gnb_nform_perm zle_bool zle_total zle_trans); [exact Hn|rewrite Hm; exact Kn|apply candidates_NoDup|].
  intros x. rewrite Hm. apply Kk.
Qed.

(* ================================================================ Schulze *)
Open Scope Z_scope.
(* entries of the path table that involve somebody who is not a candidate of the votes stay 0
   (whatever the iteration order contains, whatever the sign of the counts) *)
Definition off_zero (v paths : pvotes) : Prop :=
  forall a b n, In ((a, b), n) paths -> ~ In a (candidates v) \/ ~ In b (candidates v) -> n = 0.

Lemma off_zero_get v paths a b : off_zero v paths -> ~ In a (candidates v) \/ ~ In b (candidates v) -> pget0 paths (a, b) = 0.
Proof.
  intros H Ho. unfold pget0. destruct (pget paths (a, b)) as [n|] eqn:E; [|reflexivity].
  apply pget_In in E. exact (H a b n E Ho).
Qed.

Lemma pset_In (v : pvotes) p n q m : In (q, m) (pset v p n) -> In (q, m) v \/ (q = p /\ m = n).
Proof.
  induction v as [|[p' n'] t IH]; [rewrite pset_nil; intros [H|[]]; injection H as <- <-; right; split; reflexivity|].
  rewrite pset_cons. destruct (peqb p p') eqn:E.
  - apply peqb_eq in E. subst p'. intros [H|H]; [injection H as <- <-; right; split; reflexivity|left; right; exact H].
  - intros [H|H]; [left; left; exact H|]. destruct (IH H) as [H'|H']; [left; right; exact H'|right; exact H'].
Qed.

Lemma wp_off_zero v order : off_zero v (widest_paths v order).
Proof.
  apply wp_ind.
  - intros a b n Hin Ho. unfold wp_init in Hin. apply filter_In in Hin. destruct Hin as [Hin _]. exfalso.
    destruct Ho as [Ho|Ho]; apply Ho, candidates_spec; exists (a, b), n; (split; [exact Hin|]); [left|right]; reflexivity.
  - intros paths c1 c2 ca _ _ _ _ _ _ H a b n Hin Ho. unfold wp_upd in Hin. apply pset_In in Hin.
    destruct Hin as [Hin|[Hq ->]]; [exact (H a b n Hin Ho)|]. injection Hq as -> ->.
    rewrite (off_zero_get v paths c2 ca H Ho). destruct Ho as [Ho|Ho].
    + rewrite (off_zero_get v paths c2 c1 H (or_introl Ho)). lia.
    + rewrite (off_zero_get v paths c1 ca H (or_intror Ho)). lia.
Qed.

Lemma schulze_wins_in_cands v order p : In p (pairwise_wins (widest_paths v order) false) ->
  In (fst p) (candidates v) /\ In (snd p) (candidates v).
Proof.
  unfold pairwise_wins. intros H. apply in_map_iff in H. destruct H as ([q n] & Hq & Hin). simpl in Hq. subst q.
  apply filter_In in Hin. destruct Hin as [Hin Hf]. cbn [fst snd] in Hf. rewrite andb_false_l, orb_false_r in Hf.
  apply Z.ltb_lt in Hf. destruct p as [a b]. cbn [fst snd].
  destruct (in_dec Pos.eq_dec a (candidates v)) as [Ha|Ha]; [destruct (in_dec Pos.eq_dec b (candidates v)) as [Hb|Hb]; [tauto|]|]; exfalso.
  - pose proof (wp_off_zero v order a b n Hin (or_intror Hb)) as Hn.
    unfold swap in Hf. cbn [fst snd] in Hf. rewrite (off_zero_get v _ b a (wp_off_zero v order) (or_introl Hb)) in Hf. lia.
  - pose proof (wp_off_zero v order a b n Hin (or_introl Ha)) as Hn.
    unfold swap in Hf. cbn [fst snd] in Hf. rewrite (off_zero_get v _ b a (wp_off_zero v order) (or_intror Ha)) in Hf. lia.
Qed.
Close Scope Z_scope.

Theorem schulze_nform (v : pvotes) (order : list C) n : 1 <= n <= length (candidates v) ->
  nform (candidates v) n (schulze v order n).
Proof.
  intros Hn. rewrite schulze_unfold.
  assert (Hseed : map fst (map (fun c : C => (c, 0%Z)) (candidates v)) = candidates v) by (rewrite map_map; simpl; apply map_id).
  assert (Hsn : NoDup (map fst (map (fun c : C => (c, 0%Z)) (candidates v)))) by (rewrite Hseed; apply candidates_NoDup).
  destruct (sch_fold_keys (pairwise_wins (widest_paths v order) false) _ Hsn) as [Kn Kk].
  apply (gnb_nform_perm zle_bool zle_total zle_trans); [exact Hn|exact Kn|apply candidates_NoDup|].
  intros x. rewrite Kk, Hseed. split; [|tauto]. intros [H|(p & Hp & H)]; [exact H|].
  apply schulze_wins_in_cands in Hp. destruct H as [->| ->]; tauto.
Qed.

(* ================================================================ Kemeny-Young, ranked pairs *)
Lemma firstn_NoDup {X} (l : list X) n : NoDup l -> NoDup (firstn n l).
Proof. intros H. rewrite <- (firstn_skipn n l) in H. apply nodup_app_inv in H. tauto. Qed.

Lemma perm_prefix_nform cands (p : list C) n : NoDup cands -> Permutation p cands -> n <= length cands ->
  nform cands n (map Cand (firstn n p)).
Proof.
  intros Hc Hp Hn.
  assert (Hl : length (firstn n p) = n) by (apply firstn_length_le; rewrite (Permutation_length Hp); exact Hn).
  rewrite <- Hl at 1. apply nform_plain.
  - apply firstn_NoDup. eapply Permutation_NoDup; [apply Permutation_sym, Hp|exact Hc].
  - intros x Hx. eapply Permutation_in; [exact Hp|]. rewrite <- (firstn_skipn n p). apply in_or_app. left. exact Hx.
Qed.

Theorem kemeny_nform (v : pvotes) n r : n <= length (candidates v) -> kemeny v n = CR_ok r -> nform (candidates v) n r.
Proof.
  intros Hn H. destruct (kemeny_defining v n r H) as (p & (Hp & _) & _ & -> & _).
  apply perm_prefix_nform; [apply candidates_NoDup|exact Hp|exact Hn].
Qed.

Theorem ranked_pairs_nform (s : Condorcet.scorer) (v : pvotes) n r : 2 <= length (candidates v) -> n <= length (candidates v) ->
  ranked_pairs s v n = CR_ok r -> nform (candidates v) n r.
Proof.
  intros H2 Hn H. destruct (ranked_pairs_ranking v s H2 n) as (p & Hr & Hp & _). rewrite Hr in H. injection H as <-.
  apply perm_prefix_nform; [apply candidates_NoDup|exact Hp|exact Hn].
Qed.
