(* Result shape (C08), third part: the shape clause for the evaluators that were only judged per explored case -
   the seatless selectors (thresholds, bracketers, Condorcet winner, Smith / Schwartz set: a duplicate-free list of
   candidates of the votes), open lists, QuotaSelector (at most n by design), the Condorcet-runoff hybrids Benham and
   Tideman alternative (Model/Hybrids.v, with the declared refusal as the only other outcome) and Baldwin
   (Model/Elimination.v). *)
From Coq Require Import ZArith QArith List Bool Lia Permutation Arith.
From VL Require Import Prelude.PyDict Model.GetNBest Model.Convert Model.Condorcet Model.QuotaDistributor Model.Threshold
     Proofs.Dict_proofs Proofs.GetNBest_proofs Proofs.QOrd Proofs.Condorcet_proofs Proofs.Shape_proofs Proofs.Smith_proofs
     Proofs.Threshold_proofs Proofs.Shape2_proofs.
Import ListNotations.
Close Scope Q_scope.
Close Scope Z_scope.
Open Scope nat_scope.

(* ================================================================ seatless selections *)
(* the right shape of a selector that is not asked for a number of seats: a duplicate-free list of candidates of the
   votes - which is the shape [sel_shape] of a selection of plain winners for as many seats as it has entries *)
Definition seatless_shape (cands r : list C) : Prop := NoDup r /\ incl r cands.

Lemma seatless_sel_shape cands r : seatless_shape cands r <-> sel_shape cands (length r) (map Cand r).
Proof.
  split.
  - intros [Hn Hi]. apply nform_shape, nform_plain; assumption.
  - intros (_ & Hi & Hn & _). rewrite plain_of_cands in Hi, Hn. split; [exact Hn|exact Hi].
Qed.

(* ---- thresholds (Model/Threshold.v) *)
Lemma sel_eval_incl votes : forall s c, In c (sel_eval s votes) -> In c (map fst votes).
Proof.
  fix IH 1. intros [thr ae|thr ae|parts] c H.
  - apply absolute_spec in H. destruct H as (v & Hin & _). apply in_map_iff. exists (c, v). split; [reflexivity|exact Hin].
  - apply relative_spec in H. destruct H as (v & Hin & _). apply in_map_iff. exists (c, v). split; [reflexivity|exact Hin].
  - cbn [sel_eval] in H. apply (proj1 (dedup_In _ _)) in H. revert H. generalize parts. fix IHp 1. intros [|p ps] H; [destruct H|].
    cbn [flat_map] in H. apply in_app_or in H. destruct H as [H|H]; [exact (IH p c H)|exact (IHp ps H)].
Qed.

Lemma sorted_filter_keys_NoDup (f : C * Q -> bool) votes : NoDup (map fst votes) ->
  NoDup (map fst (filter f (sort_desc Qle_bool votes))).
Proof.
  intros H. apply filter_keys_NoDup. eapply Permutation_NoDup; [apply Permutation_sym, sort_desc_keys|exact H].
Qed.

Lemma sel_eval_NoDup votes s : NoDup (map fst votes) -> NoDup (sel_eval s votes).
Proof.
  intros H. destruct s as [thr ae|thr ae|parts]; cbn [sel_eval]; [apply sorted_filter_keys_NoDup, H|apply sorted_filter_keys_NoDup, H|apply dedup_NoDup].
Qed.

Theorem threshold_shape s votes : NoDup (map fst votes) -> seatless_shape (map fst votes) (sel_eval s votes).
Proof. intros H. split; [apply sel_eval_NoDup, H|intros c Hc; exact (sel_eval_incl votes s c Hc)]. Qed.

Theorem bracket_shape evals default bracket votes : NoDup (map fst votes) ->
  seatless_shape (map fst votes) (bracket_eval evals default bracket votes).
Proof.
  intros H. unfold bracket_eval. split; [apply sorted_filter_keys_NoDup, H|].
  intros c Hc. apply in_sorted_filter in Hc. destruct Hc as (v & Hin & _). apply in_map_iff. exists (c, v). split; [reflexivity|exact Hin].
Qed.

(* ---- open list: exactly n distinct members of the list *)
Theorem openlist_shape cfg votes n lst :
  NoDup lst -> NoDup (map fst votes) -> incl (map fst votes) lst -> 1 <= n <= length lst ->
  sel_shape lst n (map Cand (openlist_eval cfg votes n lst)).
Proof.
  intros Hl Hv Hin Hn. destruct (openlist_count cfg votes n lst Hl Hv Hin Hn) as (H1 & H2 & H3).
  rewrite <- H1 at 1. apply (proj1 (seatless_sel_shape _ _)). split; assumption.
Qed.

(* ---- QuotaSelector: at most n by design; well-shaped for its own length, a short answer is plain winners only *)
Lemma filter_length_le {X} (f : X -> bool) l : length (filter f l) <= length l.
Proof. induction l as [|x l IH]; simpl; [lia|]. destruct (f x); simpl; lia. Qed.

Lemma filter_fst_incl {X} (f : C * X -> bool) l : incl (map fst (filter f l)) (map fst l).
Proof. intros c Hc. apply in_map_iff in Hc. destruct Hc as (y & <- & Hy). apply filter_In in Hy. apply in_map. tauto. Qed.

Theorem quota_selector_shape quota ae select votes (n : Z) r :
  NoDup (map fst votes) -> (1 <= n)%Z -> qsel_evaluate quota ae select votes n = QS_ok r ->
  length r <= Z.to_nat n /\ sel_shape (map fst votes) (length r) r /\
  (length r < Z.to_nat n -> ties_of r = []) /\
  (* a full answer whenever that many candidates reach the quota *)
  (Z.to_nat n <= length (filter (fun cv => fulfills ae (snd cv) (quota (qsumv votes) n)) votes) -> length r = Z.to_nat n).
Proof.
  intros Hnd Hn. unfold qsel_evaluate. cbv zeta.
  set (over := filter (fun cv => fulfills ae (snd cv) (quota (qsumv votes) n)) votes).
  destruct (_ && _); [discriminate|]. intros [= <-].
  assert (Hon : NoDup (map fst over)) by (apply filter_keys_NoDup, Hnd).
  assert (Hoi : incl (map fst over) (map fst votes)) by apply filter_fst_incl.
  assert (H1 : 1 <= Z.to_nat n) by lia.
  destruct (le_lt_dec (Z.to_nat n) (length over)) as [Hle|Hlt].
  - pose proof (gnb_nform Qle_bool Qle_bool_total Qle_bool_trans over (Z.to_nat n) (conj H1 Hle) Hon) as Hf.
    pose proof (nform_length _ _ _ Hf) as Hlen. rewrite Hlen. split; [lia|]. split; [|split; [lia|intros _; reflexivity]].
    apply nform_shape. eapply nform_incl; [exact Hoi|exact Hf].
  - destruct (gnb_all Qle_bool Qle_bool_total Qle_bool_trans over (Z.to_nat n) H1 ltac:(lia)) as (s & Hp & ->).
    assert (Hls : length (map Cand (map fst s)) = length over) by (rewrite !map_length; apply Permutation_length, Hp).
    rewrite Hls. split; [lia|]. split; [|split; [intros _; apply ties_of_cands|lia]].
    rewrite <- Hls, (map_length Cand (map fst s)). apply (proj1 (seatless_sel_shape _ _)). split.
    + eapply Permutation_NoDup; [apply Permutation_map, Permutation_sym, Hp|exact Hon].
    + intros x Hx. apply Hoi. eapply Permutation_in; [apply Permutation_map, Hp|exact Hx].
Qed.

(* ---- Condorcet winner: nobody, or one candidate of the dictionary *)
Lemma beat_counts_keys_in (v : pvotes) c : In c (map fst (beat_counts v)) -> In c (candidates v).
Proof.
  unfold beat_counts.
  assert (G : forall (ws : list pair) d, (forall p, In p ws -> In (fst p) (candidates v)) -> incl (map fst d) (candidates v) ->
                incl (map fst (fold_left (fun d (p : pair) => dadd d (fst p) 1%Z) ws d)) (candidates v)).
  { induction ws as [|p ws IH]; intros d Hw Hd; simpl; [exact Hd|].
    apply IH; [intros q Hq; apply Hw; right; exact Hq|]. intros x Hx. unfold dadd in Hx. apply dset_keys_in in Hx.
    destruct Hx as [->|Hx]; [apply Hw; left; reflexivity|apply Hd, Hx]. }
  apply G; [|intros x []]. intros p Hp. apply (wins_in_cands v false p Hp).
Qed.

Theorem condorcet_winner_shape (v : pvotes) : seatless_shape (candidates v) (condorcet_winner v) /\ length (condorcet_winner v) <= 1.
Proof.
  unfold condorcet_winner. destruct (find _ (beat_counts v)) as [[c k]|] eqn:E.
  - apply find_some in E. destruct E as [E _]. split; [|simpl; lia]. split; [constructor; [intros []|constructor]|].
    intros x [<-|[]]. apply beat_counts_keys_in. apply in_map_iff. exists (c, k). split; [reflexivity|exact E].
  - split; [split; [constructor|intros x []]|simpl; lia].
Qed.

(* ---- Smith set (ties count as wins) and Schwartz set (they do not): a prefix of the Copeland order *)
Lemma complete_cands (v : pvotes) p t : In p (pairwise_wins (complete v) t) -> In (fst p) (candidates v) /\ In (snd p) (candidates v).
Proof.
  unfold pairwise_wins. intros H. apply in_map_iff in H. destruct H as ([[a b] n] & Hq & Hin). simpl in Hq. subst p.
  apply filter_In in Hin. destruct Hin as [Hin _]. apply complete_in in Hin. cbn [fst snd]. tauto.
Qed.

Theorem smith_schwartz_shape (v : pvotes) (ties : bool) : seatless_shape (candidates v) (smith_schwartz v ties).
Proof.
  unfold smith_schwartz. cbv zeta.
  set (wins := pairwise_wins (complete v) ties).
  destruct (cscore_keys wins) as [Hn Hk].
  assert (Hp : Permutation (map fst (sort_desc zle_bool (copeland_scores wins))) (map fst (copeland_scores wins)))
    by (apply Permutation_map, sort_desc_perm).
  split.
  - apply Shape2_proofs.firstn_NoDup. eapply Permutation_NoDup; [apply Permutation_sym, Hp|exact Hn].
  - intros x Hx. apply Threshold_proofs.firstn_incl in Hx. apply (Permutation_in _ Hp) in Hx. apply Hk in Hx.
    destruct Hx as (p & Hpw & Hx). destruct (complete_cands v p ties Hpw) as [Ha Hb]. destruct Hx as [->| ->]; assumption.
Qed.

(* ================================================================ approval voting / SAV: ApprovalToSimpleVotes in front of plurality *)
From VL Require Import Model.ApprovalSimple.
Close Scope Q_scope.
Close Scope Z_scope.
Open Scope nat_scope.

Lemma approval_inner_nodup (l : list C) (w : Q) : forall d : list (C * Q), NoDup (map fst d) ->
  NoDup (map fst (fold_left (fun d c => dset d c (dget_or d c 0 + w)%Q) l d)).
Proof.
  induction l as [|c l IH]; intros d Hd; cbn [fold_left]; [exact Hd|]. apply IH. apply (dset_keys d c _ Hd).
Qed.

Lemma approval_simple_keys split (votes : list (list C * Q)) :
  NoDup (map fst (approval_simple split votes)) /\
  forall x, In x (map fst (approval_simple split votes)) <-> In x (flat_map fst votes).
Proof.
  unfold approval_simple.
  assert (G : forall (vs : list (list C * Q)) (d : list (C * Q)), NoDup (map fst d) ->
     let d' := fold_left (fun d (bw : list C * Q) =>
                 fold_left (fun d c => dset d c (dget_or d c 0 + ballot_share split (fst bw) (snd bw))%Q) (fst bw) d) vs d in
     NoDup (map fst d') /\ forall x, In x (map fst d') <-> In x (map fst d) \/ In x (flat_map fst vs)).
  { induction vs as [|[b w] vs IH]; intros d Hd; cbn [fold_left flat_map fst snd].
    - split; [exact Hd|]. intros x. split; [intros H; left; exact H|intros [H|[]]; exact H].
    - destruct (IH _ (approval_inner_nodup b (ballot_share split b w) d Hd)) as [N K]. cbv zeta in N, K. split; [exact N|].
      intros x. rewrite K, spav_inner_keys, in_app_iff. tauto. }
  destruct (G votes [] (NoDup_nil _)) as [N K]. cbv zeta in N, K. split; [exact N|]. intros x. rewrite K. cbn. tauto.
Qed.

(* exactly n entries in normal form over the candidates approved by somebody; no hypothesis on the profile *)
Theorem approval_plurality_nform split (votes : list (list C * Q)) n : 1 <= n <= length (approval_cands votes) ->
  nform (approval_cands votes) n (approval_plurality split votes n).
Proof.
  intros Hn. destruct (approval_simple_keys split votes) as [N K].
  destruct (JR_proofs.canon_set_spec (flat_map fst votes)) as [Hcn Hck]. fold (approval_cands votes) in Hcn, Hck.
  unfold approval_plurality. apply (gnb_nform_perm Qle_bool Qle_bool_total Qle_bool_trans); [exact Hn|exact N|exact Hcn|].
  intros x. rewrite K. symmetry. apply Hck.
Qed.
