(* C07 <-> C01: a district row of a certified biproportional matrix IS the answer of the HighestAverages model on that
   district's votes weighted by the party multipliers (parties without votes in the district left out), whenever
   the min-max inequality of the certificate is strict (no tie at the cut).  Rests on the uniqueness theorem
   Proofs/HAUnique_proofs.v. *)
From Coq Require Import ZArith QArith List Bool Lia Lqa.
From VL Require Import Prelude.PyDict Model.Divisor Model.HighestAverages Model.Biprop
     Proofs.Dict_proofs Proofs.Divisor_proofs Proofs.HA_proofs Proofs.Mono_proofs Proofs.HAUnique_proofs Proofs.Biprop_proofs.
Import ListNotations.
Open Scope Z_scope.

(* ---------------------------------------------------------------- the totals dict only holds positive entries *)
Definition all_pos (t : list (C * Z)) : Prop := Forall (fun kv => 0 < snd kv) t.

Lemma all_pos_dget_or t c : all_pos t -> 0 <= dget_or t c 0.
Proof.
  unfold dget_or. induction t as [|[k v] t IH]; intros H; simpl; [lia|].
  inversion H as [|? ? Hk Ht]; subst. destruct (ceqb c k); [simpl in Hk; lia|apply IH, Ht].
Qed.

Lemma all_pos_dset t c v : all_pos t -> 0 < v -> all_pos (dset t c v).
Proof.
  induction t as [|[k w] t IH]; intros H Hv; simpl.
  - constructor; [exact Hv|constructor].
  - inversion H as [|? ? Hk Ht]; subst. destruct (ceqb c k); constructor; try assumption. apply IH; assumption.
Qed.

Lemma all_pos_incr t c : all_pos t -> all_pos (incr_t t c).
Proof. intros H. unfold incr_t. apply all_pos_dset; [exact H|]. pose proof (all_pos_dget_or t c H). lia. Qed.

Lemma all_pos_fold ks : forall t, all_pos t -> all_pos (fold_left incr ks t).
Proof. induction ks as [|k ks IH]; intros t H; simpl; [exact H|]. apply IH, all_pos_incr, H. Qed.

Lemma all_pos_step d votes caps n s : all_pos (st_totals s) -> all_pos (st_totals (step d votes caps n s)).
Proof.
  intros H. unfold step. destruct (st_qs s) as [|[c0 m] q]; [exact H|]. cbv zeta.
  destruct (_ <=? st_rem s); cbn [st_totals]; [apply all_pos_fold, H|exact H].
Qed.

Lemma all_pos_loop d votes caps n fuel : forall s, all_pos (st_totals s) -> all_pos (st_totals (loop d votes caps n fuel s)).
Proof.
  induction fuel as [|f IH]; intros s H; simpl; [exact H|].
  destruct (_ && _); [apply IH, all_pos_step, H|exact H].
Qed.

Lemma gains_of_pos t : all_pos t ->
  flat_map (fun ct : C * Z => let (c, t0) := ct in if 0 <? t0 - dget_or (@nil (C * Z)) c 0 then [(c, t0 - dget_or (@nil (C * Z)) c 0)] else []) t = t.
Proof.
  set (F := fun ct : C * Z => let (c, t0) := ct in if 0 <? t0 - dget_or (@nil (C * Z)) c 0 then [(c, t0 - dget_or (@nil (C * Z)) c 0)] else []).
  induction t as [|[k v] t IH]; intros H; [reflexivity|]. inversion H as [|? ? Hk Ht]; subst. simpl in Hk.
  change (flat_map F ((k, v) :: t)) with (F (k, v) ++ flat_map F t). rewrite (IH Ht).
  unfold F. change (dget_or [] k 0) with 0. rewrite Z.sub_0_r.
  destruct (0 <? v) eqn:E; [reflexivity|apply Z.ltb_ge in E; lia].
Qed.

Lemma insert_asc_nonempty {K V} (leb : V -> V -> bool) (x : K * V) l : GetNBest.insert_asc leb x l <> [].
Proof. destruct l as [|y l]; simpl; [discriminate|]. destruct (leb (snd x) (snd y)); discriminate. Qed.

Lemma initial_quotients_nonempty (d : Z -> Q) votes n c v : (0 < d 0%Z)%Q -> 0 < n -> In (c, v) votes ->
  initial_quotients d votes [] [] n <> [].
Proof.
  intros Hd Hn Hin. unfold initial_quotients.
  match goal with |- rev (GetNBest.sort_asc _ ?it) <> [] => set (items := it) end.
  assert (Hi : In (c, (v / d 0%Z)%Q) items).
  { unfold items. apply in_flat_map. exists (c, v). split; [exact Hin|]. cbv zeta. change (dget_or [] c 0) with 0. change (cap_of [] n c) with n.
    destruct (Qle_bool (d 0) 0) eqn:E1; [apply Qle_bool_iff in E1; lra|].
    destruct (0 <? n) eqn:E2; [left; reflexivity|apply Z.ltb_ge in E2; lia]. }
  clearbody items. destruct items as [|x items]; [destruct Hi|].
  simpl. intros E. apply (f_equal (@length _)) in E. rewrite rev_length in E.
  destruct (GetNBest.sort_asc Qle_bool items) as [|y l]; simpl in E; [discriminate|].
  destruct (Qle_bool (snd x) (snd y)); simpl in E; discriminate.
Qed.

(* ---------------------------------------------------------------- the row theorem *)
Definition wrow (votes : mat) (gamma : C -> Q) (ps : list C) (i : C) : list (C * Q) :=
  flat_map (fun j => if 0 <? mget votes i j then [(j, (inject_Z (mget votes i j) * gamma j)%Q)] else []) ps.

Lemma wrow_keys votes gamma ps i : map fst (wrow votes gamma ps i) = filter (fun j => 0 <? mget votes i j) ps.
Proof.
  unfold wrow. induction ps as [|j ps IH]; [reflexivity|]. simpl.
  destruct (0 <? mget votes i j); simpl; rewrite IH; reflexivity.
Qed.

Lemma wrow_in votes gamma ps i c v : In (c, v) (wrow votes gamma ps i) ->
  In c ps /\ 0 < mget votes i c /\ v = (inject_Z (mget votes i c) * gamma c)%Q.
Proof.
  unfold wrow. intros H. apply in_flat_map in H. destruct H as (j & Hj & H).
  destruct (0 <? mget votes i j) eqn:E; [|destruct H]. destruct H as [H|[]]. injection H as <- <-.
  apply Z.ltb_lt in E. auto.
Qed.

Lemma filter_sum (f g : C -> Z) l : (forall j, In j l -> f j <= 0 -> g j = 0) ->
  zsum (map g (filter (fun j => 0 <? f j) l)) = zsum (map g l).
Proof.
  induction l as [|j l IH]; intros H; [reflexivity|]. simpl.
  assert (IH' : zsum (map g (filter (fun j => 0 <? f j) l)) = zsum (map g l)) by (apply IH; intros k Hk; apply H; right; exact Hk).
  destruct (0 <? f j) eqn:E; simpl; rewrite ?zsum_cons, IH'; [reflexivity|].
  apply Z.ltb_ge in E. rewrite (H j (or_introl eq_refl) E). lia.
Qed.

Section Row.
  Variable d : Z -> Q.
  Variables ds ps : list C.
  Variable votes : mat.
  Variables dseats pseats : list (C * Z).
  Variable res : mat.
  Variables rho gamma : C -> Q.
  Hypothesis Hok : divisor_ok d.
  Hypothesis Hstrict : divisor_strict d.
  Hypothesis Hvotes : forall i j, 0 <= mget votes i j.
  Hypothesis Hps : NoDup ps.
  Hypothesis Hspec : spec_with d ds ps votes dseats pseats res rho gamma.

  Variable i : C.
  Hypothesis Hi : In i ds.
  Hypothesis Hseats : 0 < dget_or dseats i 0.
  Hypothesis Hminmax : forall j j', In j ps -> In j' ps -> 0 < mget res i j' ->
    (inject_Z (mget votes i j) * gamma j / d (mget res i j)
     < inject_Z (mget votes i j') * gamma j' / d (mget res i j' - 1)%Z)%Q.

  Notation row := (wrow votes gamma ps i).
  Notation n := (dget_or dseats i 0).

  Lemma row_pos c v : In (c, v) row -> (0 < v)%Q.
  Proof.
    intros H. destruct (wrow_in _ _ _ _ _ _ H) as (Hc & Hv & ->).
    apply Qmult_lt_0_compat; [|apply (sp_gamma _ _ _ _ _ _ _ _ _ Hspec c Hc)].
    change 0%Q with (inject_Z 0). rewrite <- Zlt_Qlt. exact Hv.
  Qed.

  Lemma row_nodup : NoDup (map fst row).
  Proof. rewrite wrow_keys. apply NoDup_filter, Hps. Qed.

  Lemma row_sum : ksum (fun j => mget res i j) (map fst row) = n.
  Proof.
    rewrite wrow_keys, <- (sp_rows _ _ _ _ _ _ _ _ _ Hspec i Hi). unfold rowsum, ksum.
    apply filter_sum. intros j _ Hle. apply (sp_zero _ _ _ _ _ _ _ _ _ Hspec i j). pose proof (Hvotes i j). lia.
  Qed.

  Theorem row_is_highest_averages :
    exists gains, evaluate d row n [] [] = HA_ok gains None /\
                  forall j, In j ps -> dget_or gains j 0 = mget res i j.
  Proof.
    destruct Hok as [Hpos Hmono].
    assert (Hmm : forall c v c' v', In (c, v) row -> In (c', v') row -> 0 < mget res i c' ->
              (v / d (mget res i c) < v' / d (mget res i c' - 1))%Q).
    { intros c v c' v' Hc Hc' Hs. destruct (wrow_in _ _ _ _ _ _ Hc) as (Hcp & _ & ->).
      destruct (wrow_in _ _ _ _ _ _ Hc') as (Hcp' & _ & ->). apply Hminmax; assumption. }
    destruct (ha_unique d row n Hpos Hstrict row_pos row_nodup (fun j => mget res i j)
                (fun c _ => sp_nonneg _ _ _ _ _ _ _ _ _ Hspec i c) row_sum Hmm) as (Htie & Hrem & Htot).
    (* the row is not empty: some party holds a seat *)
    assert (Hne : exists c v, In (c, v) row).
    { destruct row as [|[c v] r] eqn:E; [|exists c, v; left; reflexivity].
      pose proof row_sum as Hs. rewrite E in Hs. unfold ksum in Hs. simpl in Hs. rewrite zsum_nil in Hs. lia. }
    destruct Hne as (c0 & v0 & Hin0).
    pose proof (initial_quotients_nonempty d row n c0 v0 (Hpos 0 ltac:(lia)) Hseats Hin0) as Hq.
    unfold evaluate. destruct (initial_quotients d row [] [] n) as [|q0 qs0] eqn:Eq; [congruence|]. cbv zeta.
    assert (Hap : all_pos (st_totals (final_state d row n [] []))).
    { unfold final_state. apply all_pos_loop. unfold init_state. cbn [st_totals]. constructor. }
    rewrite (gains_of_pos _ Hap), Htie.
    exists (st_totals (final_state d row n [] [])). split; [reflexivity|].
    intros j Hj. destruct (0 <? mget votes i j) eqn:E.
    - apply Htot. rewrite wrow_keys. apply filter_In. split; assumption.
    - apply Z.ltb_ge in E. assert (Hz : mget votes i j = 0) by (pose proof (Hvotes i j); lia).
      rewrite (sp_zero _ _ _ _ _ _ _ _ _ Hspec i j Hz).
      (* j holds no seat in the run either: every awarded party is a key of the row *)
      change (dget_or (st_totals (final_state d row n [] [])) j 0) with (tot (final_state d row n [] []) j).
      assert (Hmono' : forall k, 0 <= k -> (d k <= d (k + 1)%Z)%Q) by exact Hmono.
      assert (Hv0 : forall c v, In (c, v) row -> (0 <= v)%Q) by (intros c v H; apply Qlt_le_weak, (row_pos c v H)).
      assert (Hprev : forall c, 0 <= dget_or (@nil (C * Z)) c 0) by (intros c; change (dget_or [] c 0) with 0; lia).
      rewrite (ha_account d row [] [] n Hpos Hmono' Hv0 row_nodup Hprev j). change (dget_or [] j 0) with 0.
      rewrite count_notin; [reflexivity|].
      intros Hin. apply in_map_iff in Hin. destruct Hin as (a & Ha & Hin).
      destruct (ha_awards_genuine d row [] [] n Hpos Hmono' Hv0 row_nodup Hprev a Hin) as (v & _ & Hv & _).
      rewrite Ha in Hv. destruct (wrow_in _ _ _ _ _ _ Hv) as (_ & Hp & _). lia.
  Qed.
End Row.
