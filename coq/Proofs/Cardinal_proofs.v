(* Approval family (Model/Cardinal.v): PAV optimality, SPAV rounds. *)
From Coq Require Import ZArith QArith List Bool Arith Lia Lqa Permutation.
From VL Require Import Prelude.PyDict Model.GetNBest Model.Convert Model.Cardinal
     Proofs.GetNBest_proofs Proofs.QOrd.
From VL Require Proofs.Threshold_proofs.
Import ListNotations.
Open Scope Q_scope.

(* ---- itertools.combinations: every n-element sub-sequence, each once *)
Inductive subseq {X} : list X -> list X -> Prop :=
| ss_nil l : subseq [] l
| ss_take x s l : subseq s l -> subseq (x :: s) (x :: l)
| ss_skip x s l : subseq s l -> subseq s (x :: l).

Theorem combos_complete l : forall n s, subseq s l -> length s = n -> In s (combos l n).
Proof.
  induction l as [|x l IH]; intros n s Hs Hl.
  - inversion Hs; subst. simpl. left. reflexivity.
  - destruct n as [|n].
    + destruct s; [simpl; left; reflexivity|discriminate].
    + simpl. apply in_or_app. inversion Hs as [|y s' l' Hs'|y s' l' Hs']; subst.
      * discriminate.
      * left. apply in_map. apply IH; [exact Hs'|simpl in Hl; lia].
      * right. apply IH; [exact Hs'|exact Hl].
Qed.

Theorem combos_sound l : forall n s, In s (combos l n) -> subseq s l /\ length s = n.
Proof.
  induction l as [|x l IH]; intros [|n] s Hin; simpl in Hin.
  - destruct Hin as [<-|[]]. split; [constructor|reflexivity].
  - destruct Hin.
  - destruct Hin as [<-|[]]. split; [constructor|reflexivity].
  - apply in_app_or in Hin. destruct Hin as [Hin|Hin].
    + apply in_map_iff in Hin. destruct Hin as (s' & <- & Hs'). destruct (IH n s' Hs') as [H1 H2].
      split; [constructor; exact H1|simpl; lia].
    + destruct (IH (S n) s Hin) as [H1 H2]. split; [constructor; exact H1|exact H2].
Qed.

(* ---- the maximum of the scan *)
Lemma fold_max_ge (l : list (list C * Q)) : forall b0,
  let best := fold_left (fun b sa => if Qle_bool b (snd sa) then snd sa else b) l b0 in
  b0 <= best /\ Forall (fun sa => snd sa <= best) l /\ (best == b0 \/ exists sa, In sa l /\ best == snd sa).
Proof.
  induction l as [|x l IH]; intros b0; simpl.
  - split; [lra|]. split; [constructor|left; reflexivity].
  - destruct (Qle_bool b0 (snd x)) eqn:E.
    + apply Qle_bool_iff in E. destruct (IH (snd x)) as (H1 & H2 & H3). split; [lra|]. split.
      * constructor; [exact H1|exact H2].
      * right. destruct H3 as [H3|(sa & Hin & H3)]; [exists x; split; [left; reflexivity|exact H3]|exists sa; split; [right; exact Hin|exact H3]].
    + assert (Hlt : snd x < b0).
      { apply Qnot_le_lt. intros H. apply Qle_bool_iff in H. congruence. }
      destruct (IH b0) as (H1 & H2 & H3). split; [exact H1|]. split.
      * constructor; [lra|exact H2].
      * destruct H3 as [H3|(sa & Hin & H3)]; [left; exact H3|right; exists sa; split; [right; exact Hin|exact H3]].
Qed.

(* the committee PAV returns maximises the harmonic satisfaction over all n-subsets, uniquely *)
Theorem pav_best_optimal votes cands n alt :
  pav_best votes cands n = [alt] ->
  In alt (combos cands n) /\
  forall s, subseq s cands -> length s = n ->
    satisfaction votes s <= satisfaction votes alt /\ (satisfaction votes s == satisfaction votes alt -> s = alt).
Proof.
  unfold pav_best. set (scored := map (fun a => (a, satisfaction votes a)) (combos cands n)).
  destruct scored as [|[a0 s0] rest] eqn:Es; [discriminate|].
  rewrite <- Es. clear Es rest a0.
  destruct (fold_max_ge scored s0) as (H1 & H2 & H3). set (best := fold_left _ scored s0) in *.
  intros Hf.
  assert (Hin_alt : In (alt, satisfaction votes alt) scored /\ Qeq_bool (satisfaction votes alt) best = true).
  { assert (Hi : In alt (map fst (filter (fun sa : list C * Q => Qeq_bool (snd sa) best) scored))) by (rewrite Hf; left; reflexivity).
    apply in_map_iff in Hi. destruct Hi as ([a s] & Ha & Hi). simpl in Ha. subst a. apply filter_In in Hi. destruct Hi as [Hi Hb].
    unfold scored in Hi. apply in_map_iff in Hi. destruct Hi as (a' & Heq & Hc). injection Heq as -> <-.
    split; [unfold scored; apply in_map_iff; exists alt; split; [reflexivity|exact Hc]|exact Hb]. }
  destruct Hin_alt as [Hin_alt Hbest]. apply Qeq_bool_iff in Hbest.
  split.
  - unfold scored in Hin_alt. apply in_map_iff in Hin_alt. destruct Hin_alt as (a' & Heq & Hc). injection Heq as ->. exact Hc.
  - intros s Hs Hl. pose proof (combos_complete cands n s Hs Hl) as Hc.
    assert (Hsc : In (s, satisfaction votes s) scored) by (unfold scored; apply in_map_iff; exists s; split; [reflexivity|exact Hc]).
    rewrite Forall_forall in H2. pose proof (H2 _ Hsc) as Hle. simpl in Hle. split; [lra|].
    intros Heq.
    assert (Hfs : In s (map fst (filter (fun sa : list C * Q => Qeq_bool (snd sa) best) scored))).
    { apply in_map_iff. exists (s, satisfaction votes s). split; [reflexivity|]. apply filter_In. split; [exact Hsc|].
      simpl. apply Qeq_bool_iff. lra. }
    rewrite Hf in Hfs. destruct Hfs as [<-|[]]. reflexivity.
Qed.

(* ---- sequential PAV: each round elects the unique best reweighted candidate, else refuses *)
Theorem spav_round_rule votes : forall fuel n elected r,
  spav_loop fuel votes n elected = Some r ->
  exists added, r = elected ++ added.
Proof.
  induction fuel as [|f IH]; intros n elected r; simpl.
  - destruct (Nat.leb n (length elected)); intros [= <-]; exists []; rewrite app_nil_r; reflexivity.
  - destruct (Nat.leb n (length elected)); [intros [= <-]; exists []; rewrite app_nil_r; reflexivity|].
    destruct (get_n_best Qle_bool (spav_round votes elected) 1) as [|[c|t] rest]; try discriminate.
    + intros [= <-]. exists []. rewrite app_nil_r. reflexivity.
    + intros H. destruct (IH _ _ _ H) as [added ->]. exists (c :: added). rewrite <- app_assoc. reflexivity.
Qed.

(* the round tallies have distinct candidates *)
Lemma dset_keys_nodup (d : list (C * Q)) k x : NoDup (map fst d) -> NoDup (map fst (dset d k x)).
Proof.
  induction d as [|[k0 v0] d IH]; simpl; intros H; [constructor; [intros []|constructor]|].
  inversion H as [|? ? Hk Hn]; subst. destruct (ceqb k k0) eqn:E; simpl; [exact H|].
  constructor; [|apply IH, Hn]. intros Hin.
  assert (Hsub : forall c, In c (map fst (dset d k x)) -> c = k \/ In c (map fst d)).
  { clear. induction d as [|[k1 v1] d IHd]; simpl; intros c Hc; [destruct Hc as [<-|[]]; left; reflexivity|].
    destruct (ceqb k k1); simpl in *; [destruct Hc; [right; left; assumption|right; right; assumption]|].
    destruct Hc as [<-|Hc]; [right; left; reflexivity|]. destruct (IHd c Hc); [left; assumption|right; right; assumption]. }
  destruct (Hsub _ Hin) as [->|H1]; [rewrite Pos.eqb_refl in E; discriminate|exact (Hk H1)].
Qed.

Lemma fold_dset_nodup (l : list C) (w : Q) : forall d, NoDup (map fst d) ->
  NoDup (map fst (fold_left (fun d c => dset d c (dget_or d c 0 + w)%Q) l d)).
Proof.
  induction l as [|c l IHl]; intros d Hd; simpl; [exact Hd|]. apply IHl. apply dset_keys_nodup. exact Hd.
Qed.

Lemma spav_round_nodup votes elected : NoDup (map fst (spav_round votes elected)).
Proof.
  unfold spav_round.
  assert (H : forall (vs : aprofile) d, NoDup (map fst d) ->
    NoDup (map fst (fold_left (fun d bw =>
      let k := inter_size (fst bw) elected in
      fold_left (fun d c => dset d c (dget_or d c 0 + snd bw / inject_Z (Z.of_nat (S k)))%Q) (fst bw) d) vs d))).
  { induction vs as [|bw vs IH]; intros d Hd; [exact Hd|]. cbn [fold_left]. apply IH. cbv zeta.
    apply fold_dset_nodup. exact Hd. }
  apply (Threshold_proofs.filter_keys_NoDup _ _ (H votes [] (NoDup_nil _))).
Qed.

(* each SPAV round elects the candidate whose reweighted approval is strictly greatest *)
Theorem spav_round_argmax votes elected c rest :
  get_n_best Qle_bool (spav_round votes elected) 1 = Cand c :: rest ->
  rest = [] /\ exists v, In (c, v) (spav_round votes elected) /\
    forall c' v', In (c', v') (spav_round votes elected) -> c' <> c -> (v' < v)%Q.
Proof.
  intros H.
  destruct (get_n_best_1_cand Qle_bool Qle_bool_total Qle_bool_trans (spav_round votes elected) c rest
              (spav_round_nodup votes elected) H) as (Hr & v & Hin & Hmax).
  split; [exact Hr|]. exists v. split; [exact Hin|]. intros c' v' Hin' Hne.
  specialize (Hmax c' v' Hin' Hne). unfold GetNBest.ltb in Hmax. apply negb_true_iff in Hmax.
  apply Qnot_le_lt. intros Hle. apply Qle_bool_iff in Hle. congruence.
Qed.
