(* Wave 6: the repaired score family (Model/Cardinal.v [repairs], fixes/C12-truncation-middle, C12-mj-default-exhausted,
   C12-score-counted).
   1. With no repair applied the flagged definitions ARE the pinned ones ([pinned]).
   2. C12-score-counted: the aggregates computed from the (score -> count) dictionary are the aggregates of the list
      with one element per voter, for every dictionary with counts >= 0 and numerically distinct keys
      ([aggregate_one_w_eq]); likewise the minimum used for unscored_value = 'min'. *)
From Coq Require Import ZArith QArith Qround Qabs List Bool Arith Lia Lqa Sorted Permutation.
From VL Require Import Prelude.PyDict Model.GetNBest Model.Convert Model.Cardinal Proofs.QOrd
     Proofs.MJ_proofs Proofs.MJ_removal_proofs Proofs.ScoreDict_proofs Proofs.Scale2Dup_proofs Proofs.Scale2Med_proofs.
Import ListNotations.

(* ================================================================ 1. no repair = the code as pinned *)
Lemma aggregate_one_x_pinned fn d : aggregate_one_x pinned fn d = aggregate_one fn d.
Proof. reflexivity. Qed.
Lemma correct_scores_x_pinned cf d nv : correct_scores_x pinned cf d nv = correct_scores cf d nv.
Proof. reflexivity. Qed.
Lemma corrected_scores_x_pinned cf votes : corrected_scores_x pinned cf votes = corrected_scores cf votes.
Proof. reflexivity. Qed.
Lemma aggregate_x_pinned fn sc : aggregate_x pinned fn sc = aggregate fn sc.
Proof. reflexivity. Qed.
Lemma score_to_simple_x_pinned cf votes : score_to_simple_x pinned cf votes = score_to_simple cf votes.
Proof. reflexivity. Qed.
Lemma score_voting_x_pinned cf votes n : score_voting_x pinned cf votes n = score_voting cf votes n.
Proof. reflexivity. Qed.
Lemma mj_plus_x_pinned sub n : mj_plus_x pinned sub n = mj_plus sub n.
Proof. reflexivity. Qed.
Lemma mj_default_x_pinned : forall fuel sub n, mj_default_x pinned fuel sub n = mj_default fuel sub n.
Proof.
  induction fuel as [|f IH]; intros sub n; [reflexivity|]. cbn [mj_default_x mj_default rp_mj pinned andb].
  destruct (fold_left Z.max (map (fun cd : C * cscores => cs_total (snd cd)) sub) 0%Z <=? 0)%Z; [reflexivity|].
  change (aggregate_x pinned FMedianLow sub) with (aggregate FMedianLow sub).
  destruct (aggregate FMedianLow sub) as [medians|e]; [|reflexivity]. cbv zeta.
  destruct (Nat.eqb (count_tie (get_n_best Qle_bool medians n)) 0); [reflexivity|].
  destruct (Nat.ltb 0 _); rewrite IH; reflexivity.
Qed.
Lemma majority_judgment_x_pinned plus cf votes n : majority_judgment_x pinned plus cf votes n = majority_judgment plus cf votes n.
Proof.
  unfold majority_judgment_x, majority_judgment. rewrite corrected_scores_x_pinned.
  destruct (corrected_scores cf votes) as [sc|e]; [|reflexivity]. rewrite aggregate_x_pinned.
  destruct (aggregate FMedianLow sc) as [med|e]; [|reflexivity]. cbv zeta.
  destruct (last_tie _); [|reflexivity]. destruct plus; [reflexivity|]. rewrite mj_default_x_pinned. reflexivity.
Qed.

(* ================================================================ 2. aggregates from the counts *)
Local Open Scope Q_scope.

Lemma fold_Qplus_acc (l : list Q) : forall a, fold_left Qplus l a == a + fold_left Qplus l 0.
Proof.
  induction l as [|x l IH]; intros a; cbn [fold_left]; [ring|]. rewrite (IH (a + x)), (IH (0 + x)). ring.
Qed.

Lemma sum_repeat s k : fold_left Qplus (repeat s k) 0 == s * inject_Z (Z.of_nat k).
Proof.
  induction k as [|k IH]; [cbn; ring|]. cbn [repeat fold_left]. rewrite fold_Qplus_acc, IH.
  rewrite Nat2Z.inj_succ. unfold Z.succ. rewrite inject_Z_plus. ring.
Qed.

Lemma wsum_acc d : forall a, fold_left (fun acc (sn : Q * Z) => acc + fst sn * inject_Z (snd sn)) d a == a + cs_wsum d.
Proof.
  unfold cs_wsum. induction d as [|sn d IH]; intros a; cbn [fold_left]; [ring|].
  rewrite (IH (a + fst sn * inject_Z (snd sn))), (IH (0 + fst sn * inject_Z (snd sn))). ring.
Qed.

Lemma cs_wsum_cons sn d : cs_wsum (sn :: d) == fst sn * inject_Z (snd sn) + cs_wsum d.
Proof. unfold cs_wsum at 1. cbn [fold_left]. rewrite wsum_acc. ring. Qed.

Lemma expand_cons s n d : expand ((s, n) :: d) = repeat s (Z.to_nat n) ++ expand d.
Proof. reflexivity. Qed.

Lemma sum_expand d : nonneg d -> fold_left Qplus (expand d) 0 == cs_wsum d.
Proof.
  induction 1 as [|[s n] d Hn _ IH]; [reflexivity|]. cbn [snd] in Hn.
  rewrite expand_cons, fold_left_app, fold_Qplus_acc, sum_repeat, IH, cs_wsum_cons, Z2Nat.id by exact Hn. reflexivity.
Qed.

(* ---- the sum of a function over a list of keys, stable under sort_q *)
Section KeySum.
  Variable d : cscores.
  Definition ksum (f : Q -> bool) (l : list Q) : Z :=
    fold_right (fun x acc => if f x then (get0 d x + acc)%Z else acc) 0%Z l.

  Lemma ksum_app f a b : ksum f (a ++ b) = (ksum f a + ksum f b)%Z.
  Proof. induction a as [|x a IH]; [reflexivity|]. cbn [app ksum fold_right]. fold (ksum f (a ++ b)). fold (ksum f a). rewrite IH. destruct (f x); lia. Qed.

  Lemma ksum_insert f x l : ksum f (insert_q x l) = ksum f (x :: l).
  Proof.
    induction l as [|y l IH]; [reflexivity|]. cbn [insert_q]. destruct (Qle_bool x y); [reflexivity|].
    cbn [ksum fold_right] in *. fold (ksum f (insert_q x l)). fold (ksum f l) in *. rewrite IH. destruct (f x), (f y); lia.
  Qed.

  Lemma ksum_sort f l : ksum f (sort_q l) = ksum f l.
  Proof.
    unfold sort_q. induction l as [|x l IH]; [reflexivity|]. cbn [fold_right]. rewrite ksum_insert.
    cbn [ksum fold_right]. fold (ksum f (fold_right insert_q [] l)). fold (ksum f l). rewrite IH. reflexivity.
  Qed.

  Lemma ksum_all f l : (forall x, In x l -> f x = true) -> ksum f l = ksum (fun _ => true) l.
  Proof.
    induction l as [|x l IH]; intros H; [reflexivity|]. cbn [ksum fold_right]. fold (ksum f l). fold (ksum (fun _ => true) l).
    rewrite (H x (or_introl eq_refl)), IH; [reflexivity|]. intros y Hy. apply H. right. exact Hy.
  Qed.

  Lemma ksum_none f l : (forall x, In x l -> f x = false) -> ksum f l = 0%Z.
  Proof.
    induction l as [|x l IH]; intros H; [reflexivity|]. cbn [ksum fold_right]. fold (ksum f l).
    rewrite (H x (or_introl eq_refl)), IH; [reflexivity|]. intros y Hy. apply H. right. exact Hy.
  Qed.
End KeySum.

Lemma get0_own d s n : keys_nd (map fst d) -> In (s, n) d -> get0 d s = n.
Proof.
  unfold get0. induction d as [|[s0 n0] d IH]; intros Hk Hin; [destruct Hin|].
  cbn [map fst keys_nd] in Hk. destruct Hk as [Hk0 Hk]. cbn [cs_get]. destruct Hin as [[= -> ->]|Hin].
  - assert (E : Qeq_bool s s = true) by (apply Qeq_bool_iff; reflexivity). rewrite E. reflexivity.
  - destruct (Qeq_bool s s0) eqn:E; [|apply IH; assumption]. apply Qeq_bool_iff in E. exfalso.
    apply (Hk0 s); [apply in_map_iff; exists (s, n); auto|symmetry; exact E].
Qed.

(* the weighted count of the scores satisfying f = the sum over the keys with a positive count *)
Lemma sumf_ksum d f : nonneg d -> keys_nd (map fst d) -> sumf f d = ksum d f (pos_keys d).
Proof.
  intros Hn Hk.
  assert (H : forall d', incl d' d -> sumf f d' = ksum d f (pos_keys d')).
  { induction d' as [|[s n] d' IH]; intros Hi; [reflexivity|].
    cbn [sumf fold_right fst snd]. fold (sumf f d'). rewrite IH by (intros x Hx; apply Hi; right; exact Hx).
    assert (Hin : In (s, n) d) by (apply Hi; left; reflexivity).
    unfold pos_keys. cbn [filter snd]. destruct (0 <? n)%Z eqn:E.
    - cbn [map fst ksum fold_right]. rewrite (get0_own d s n Hk Hin). reflexivity.
    - unfold nonneg in Hn. rewrite Forall_forall in Hn. pose proof (Hn _ Hin) as H0. cbn [snd] in H0.
      assert (n = 0%Z) by lia. subst n. destruct (f s); reflexivity. }
  apply H. apply incl_refl.
Qed.

(* ---- the sorted positive keys are strictly sorted *)
Lemma insert_q_strict x l : StronglySorted Qlt l -> (forall y, In y l -> ~ x == y) -> StronglySorted Qlt (insert_q x l).
Proof.
  induction l as [|y t IH]; intros Hs Hx; [repeat constructor|]. cbn [insert_q].
  inversion Hs as [|? ? Hst Hall]; subst. rewrite Forall_forall in Hall.
  destruct (Qle_bool x y) eqn:E.
  - apply Qle_bool_iff in E. assert (Hlt : x < y).
    { apply Qle_lt_or_eq in E. destruct E as [E|E]; [exact E|]. exfalso. apply (Hx y (or_introl eq_refl) E). }
    constructor; [exact Hs|]. constructor; [exact Hlt|]. apply Forall_forall. intros z Hz. specialize (Hall z Hz). lra.
  - apply Scale2Med_proofs.Qle_bool_false in E. constructor.
    + apply IH; [exact Hst|]. intros z Hz. apply Hx. right. exact Hz.
    + apply Forall_forall. intros z Hz. apply insert_q_In in Hz. destruct Hz as [->|Hz]; [exact E|apply Hall, Hz].
Qed.

Lemma sort_q_strict l : keys_nd l -> StronglySorted Qlt (sort_q l).
Proof.
  unfold sort_q. induction l as [|x l IH]; intros Hk; [constructor|]. cbn [keys_nd] in Hk. destruct Hk as [Hk0 Hk].
  cbn [fold_right]. apply insert_q_strict; [apply IH, Hk|]. intros y Hy. apply Hk0. apply (sort_q_In l y). exact Hy.
Qed.

Lemma pos_keys_nd d : keys_nd (map fst d) -> keys_nd (pos_keys d).
Proof.
  unfold pos_keys. induction d as [|[s n] d IH]; intros Hk; [exact I|]. cbn [map fst keys_nd] in Hk. destruct Hk as [Hk0 Hk].
  cbn [filter snd]. destruct (0 <? n)%Z; [|apply IH, Hk]. cbn [map fst keys_nd]. split; [|apply IH, Hk].
  intros s' Hs'. apply Hk0. apply in_map_iff in Hs'. destruct Hs' as (sn & <- & Hin). apply filter_In in Hin. apply in_map, Hin.
Qed.

Lemma pos_keys_in d x : In x (pos_keys d) -> In x (map fst d).
Proof. unfold pos_keys. intros H. apply in_map_iff in H. destruct H as (sn & <- & Hin). apply filter_In in Hin. apply in_map, Hin. Qed.

Lemma sorted_app_lt (P t : list Q) : StronglySorted Qlt (P ++ t) -> forall x y, In x P -> In y t -> x < y.
Proof.
  induction P as [|p P IH]; intros Hs x y Hx Hy; [destruct Hx|]. cbn [app] in Hs. inversion Hs as [|? ? Hst Hall]; subst.
  destruct Hx as [->|Hx]; [|apply IH; assumption]. rewrite Forall_forall in Hall. apply Hall. apply in_or_app. right. exact Hy.
Qed.

Lemma sorted_app_r (P t : list Q) : StronglySorted Qlt (P ++ t) -> StronglySorted Qlt t.
Proof. induction P as [|p P IH]; intros Hs; [exact Hs|]. cbn [app] in Hs. inversion Hs; subst. apply IH. assumption. Qed.

Lemma split_counts d P v t : StronglySorted Qlt (P ++ v :: t) ->
  ksum d (fun s => qlt s v) (P ++ v :: t) = ksum d (fun _ => true) P /\
  ksum d (fun s => Qle_bool s v) (P ++ v :: t) = (ksum d (fun _ => true) P + get0 d v)%Z.
Proof.
  intros Hs. pose proof (sorted_app_lt _ _ Hs) as Hlt. pose proof (sorted_app_r _ _ Hs) as Hr.
  inversion Hr as [|? ? _ Hall]; subst. rewrite Forall_forall in Hall.
  rewrite !ksum_app. split.
  - rewrite (ksum_all d (fun s => qlt s v) P) by (intros x Hx; apply qlt_iff, Hlt; [exact Hx|left; reflexivity]).
    rewrite (ksum_none d (fun s => qlt s v) (v :: t)); [lia|].
    intros x [<-|Hx]; apply not_true_iff_false; rewrite qlt_iff; [apply Qlt_irrefl|]. specialize (Hall x Hx). lra.
  - rewrite (ksum_all d (fun s => Qle_bool s v) P) by (intros x Hx; apply Qle_bool_iff, Qlt_le_weak, Hlt; [exact Hx|left; reflexivity]).
    cbn [ksum fold_right]. fold (ksum d (fun s => Qle_bool s v) t).
    assert (E : Qle_bool v v = true) by (apply Qle_bool_iff, Qle_refl). rewrite E.
    rewrite (ksum_none d (fun s => Qle_bool s v) t); [lia|].
    intros x Hx. apply Scale2Med_proofs.Qle_bool_false. apply Hall, Hx.
Qed.

(* ---- _counted_middle finds the low median *)
Lemma counted_middle_spec d : nonneg d -> keys_nd (map fst d) -> (0 < cs_total d)%Z ->
  let L := sort_q (pos_keys d) in let T := cs_total d in
  forall t P running low, P ++ t = L -> running = ksum d (fun _ => true) P ->
    (P <> [] -> (2 * running <= T)%Z) ->
    match low with None => (2 * running < T)%Z | Some l => is_med d l /\ In l L end ->
    exists l h, counted_middle d t T running low = Some (l, h) /\ is_med d l /\ In l L.
Proof.
  intros Hn Hk HT L T.
  assert (HS : StronglySorted Qlt L) by (apply sort_q_strict, pos_keys_nd, Hk).
  assert (Hsum : forall f, sumf f d = ksum d f L) by (intros f; unfold L; rewrite ksum_sort; apply sumf_ksum; assumption).
  assert (HTL : T = ksum d (fun _ => true) L) by (unfold T; rewrite cs_total_sumf; apply Hsum).
  induction t as [|v t IH]; intros P running low HL Hrun Hnr Hlow.
  - rewrite app_nil_r in HL. subst P. rewrite <- HTL in Hrun. exfalso. destruct low as [l|]; [|lia].
    destruct L as [|x L']; [cbn in HTL; lia|]. specialize (Hnr ltac:(discriminate)). lia.
  - cbn [counted_middle]. fold (get0 d v). cbv zeta.
    rewrite <- HL in HS. destruct (split_counts d P v t HS) as (Hb & Ha). rewrite HL in Hb, Ha.
    rewrite <- (Hsum (fun s => qlt s v)) in Hb. rewrite <- (Hsum (fun s => Qle_bool s v)) in Ha.
    fold (below d v) in Hb. fold (atmost d v) in Ha. rewrite <- Hrun in Hb, Ha.
    set (r' := (running + get0 d v)%Z) in *.
    assert (HvL : In v L) by (rewrite <- HL; apply in_or_app; right; left; reflexivity).
    set (low' := match low with Some l => Some l | None => if (T <=? 2 * r')%Z then Some v else None end).
    assert (Hlow' : match low' with None => (2 * r' < T)%Z | Some l => is_med d l /\ In l L end).
    { unfold low'. destruct low as [l|]; [exact Hlow|]. destruct (T <=? 2 * r')%Z eqn:E; [|lia].
      split; [|exact HvL]. unfold is_med. fold T. lia. }
    destruct (T <? 2 * r')%Z eqn:E.
    + destruct low' as [l|]; [|lia]. exists l, v. split; [reflexivity|exact Hlow'].
    + apply (IH (P ++ [v]) r' low').
      * rewrite <- app_assoc. exact HL.
      * rewrite ksum_app, <- Hrun. cbn [ksum fold_right]. unfold r'. lia.
      * intros _. lia.
      * exact Hlow'.
Qed.

Lemma keys_nd_eq l a b : keys_nd l -> In a l -> In b l -> a == b -> a = b.
Proof.
  induction l as [|x l IH]; intros Hk Ha Hb He; [destruct Ha|]. cbn [keys_nd] in Hk. destruct Hk as [Hk0 Hk].
  destruct Ha as [->|Ha], Hb as [->|Hb]; [reflexivity| | |apply IH; assumption]; exfalso.
  - apply (Hk0 b Hb He).
  - apply (Hk0 a Ha). symmetry. exact He.
Qed.

Lemma nonneg_total_zero d : nonneg d -> cs_total d = 0%Z -> pos_keys d = [] /\ expand d = [].
Proof.
  induction 1 as [|[s n] d Hn Hd IH]; intros HT; [split; reflexivity|]. cbn [snd] in Hn.
  rewrite cs_total_cons in HT. cbn [snd] in HT.
  assert (H0 : (0 <= cs_total d)%Z) by (rewrite cs_total_sumf; apply sumf_nonneg, Hd).
  assert (n = 0%Z) by lia. subst n. destruct (IH ltac:(lia)) as (H1 & H2). split.
  - unfold pos_keys in *. cbn [filter snd]. exact H1.
  - rewrite expand_cons, H2. reflexivity.
Qed.

(* fixes/C12-score-counted: the aggregate computed from the counts is the aggregate of the list with one element per
   voter - the same rational, in the same representation *)
Theorem aggregate_one_w_eq fn d : nonneg d -> keys_nd (map fst d) -> aggregate_one_w fn d = aggregate_one fn d.
Proof.
  intros Hn Hk. pose proof (expand_length d Hn) as Hlen. pose proof (sum_expand d Hn) as Hsum.
  destruct fn.
  - (* mean *)
    unfold aggregate_one_w, aggregate_one. cbv zeta. destruct (expand d) as [|x l] eqn:E.
    + cbn [length] in Hlen. rewrite <- Hlen. reflexivity.
    + rewrite <- E in *. assert (Hpos : (0 < cs_total d)%Z) by (rewrite <- Hlen, E; cbn [length]; lia).
      destruct (cs_total d =? 0)%Z eqn:E0; [lia|]. f_equal. apply Qred_complete. rewrite Hsum, Hlen. reflexivity.
  - (* sum *)
    unfold aggregate_one_w, aggregate_one. cbv zeta. f_equal. apply Qred_complete. symmetry. exact Hsum.
  - (* low median *)
    assert (H0 : (0 <= cs_total d)%Z) by (rewrite cs_total_sumf; apply sumf_nonneg, Hn).
    destruct (Z.eq_dec (cs_total d) 0) as [HT|HT].
    + destruct (nonneg_total_zero d Hn HT) as (H1 & H2). unfold aggregate_one_w, aggregate_one. rewrite H1, H2. reflexivity.
    + assert (Hpos : (0 < cs_total d)%Z) by lia.
      destruct (counted_middle_spec d Hn Hk Hpos (sort_q (pos_keys d)) [] 0%Z None eq_refl eq_refl) as (l & h & Hcm & Hmed & Hin);
        [intros H; contradiction|cbn; lia|].
      unfold aggregate_one_w. rewrite Hcm.
      destruct (median_char d l Hn Hpos Hmed) as (g0 & Hg & He & Hg0). rewrite Hg. f_equal.
      apply (keys_nd_eq (map fst d)); [exact Hk| |exact Hg0|symmetry; exact He].
      apply pos_keys_in. apply (sort_q_In (pos_keys d) l). exact Hin.
Qed.

(* ---- unscored_value = 'min': the minimum over the values with a positive count *)
Definition lm_step (m y : Q) : Q := if Qle_bool y m then y else m.

Lemma lm_step_idem m s : lm_step (lm_step m s) s = lm_step m s.
Proof.
  unfold lm_step. destruct (Qle_bool s m) eqn:E.
  - assert (E' : Qle_bool s s = true) by (apply Qle_bool_iff, Qle_refl). rewrite E'. reflexivity.
  - rewrite E. reflexivity.
Qed.

Lemma lm_fold_repeat s k m : fold_left lm_step (repeat s (S k)) m = lm_step m s.
Proof.
  cbn [repeat fold_left]. induction k as [|k IH]; [reflexivity|]. cbn [repeat fold_left]. rewrite lm_step_idem. exact IH.
Qed.

Lemma lm_fold_expand d : forall m, fold_left lm_step (expand d) m = fold_left lm_step (pos_keys d) m.
Proof.
  induction d as [|[s n] d IH]; intros m; [reflexivity|]. rewrite expand_cons, fold_left_app. unfold pos_keys. cbn [filter snd].
  destruct (0 <? n)%Z eqn:E.
  - destruct (Z.to_nat n) as [|k] eqn:Ek; [lia|]. rewrite lm_fold_repeat. cbn [map fst fold_left]. apply IH.
  - assert (Ek : Z.to_nat n = 0%nat) by lia. rewrite Ek. cbn [repeat fold_left]. apply IH.
Qed.

Lemma list_min_counted d : list_min (pos_keys d) = list_min (expand d).
Proof.
  induction d as [|[s n] d IH]; [reflexivity|]. rewrite expand_cons. unfold pos_keys in *. cbn [filter snd].
  destruct (0 <? n)%Z eqn:E.
  - destruct (Z.to_nat n) as [|k] eqn:Ek; [lia|]. cbn [map fst repeat app list_min]. f_equal.
    change (fun m y : Q => if Qle_bool y m then y else m) with lm_step.
    rewrite fold_left_app. assert (Hs : fold_left lm_step (repeat s k) s = s).
    { destruct k as [|k]; [reflexivity|]. rewrite lm_fold_repeat. unfold lm_step.
      assert (E' : Qle_bool s s = true) by (apply Qle_bool_iff, Qle_refl). rewrite E'. reflexivity. }
    rewrite Hs. symmetry. apply lm_fold_expand.
  - assert (Ek : Z.to_nat n = 0%nat) by lia. rewrite Ek. cbn [repeat app]. exact IH.
Qed.

(* the corrections: only the truncation repair changes them *)
Lemma correct_scores_x_counted rp cf d nv : rp_trunc rp = false -> correct_scores_x rp cf d nv = correct_scores cf d nv.
Proof.
  intros Ht. unfold correct_scores_x, correct_scores. rewrite Ht.
  destruct (rp_counted rp); [rewrite list_min_counted|]; reflexivity.
Qed.
