(* Complete ballots give balanced corrected score dictionaries (for C11, majority judgment default rule):
   when every ballot scores every candidate exactly once and has a positive count, every candidate's corrected
   (score -> count) dictionary has pairwise different keys, nonnegative counts and the same total - the number of
   votes (min_count = 0, no truncation, any unscored_value). *)
From Coq Require Import ZArith QArith List Bool Arith Lia Lqa.
From VL Require Import Prelude.PyDict Model.GetNBest Model.Convert Model.Cardinal
     Proofs.Dict_proofs Proofs.MJ_proofs Proofs.Scale2Dup_proofs Proofs.Scale2Med_proofs Proofs.Scale2Score_proofs Proofs.Scale2MJ_proofs.
Import ListNotations.

Lemma cs_total_cons s n d : cs_total ((s, n) :: d) = (n + cs_total d)%Z.
Proof. unfold cs_total. cbn [map fold_left snd]. rewrite fold_add_shiftZ. lia. Qed.

Lemma total_cs_set d s v : cs_total (cs_set d s v) = (cs_total d - get0 d s + v)%Z.
Proof.
  unfold get0. induction d as [|[s0 n0] d IH]; [cbn; lia|]. cbn [cs_set cs_get]. destruct (Qeq_bool s s0).
  - rewrite !cs_total_cons. lia.
  - rewrite !cs_total_cons, IH. lia.
Qed.

Lemma nonneg_cs_set d s v : nonneg d -> (0 <= v)%Z -> nonneg (cs_set d s v).
Proof.
  intros H Hv. induction H as [|[s0 n0] d Hn Hd IH]; cbn [cs_set]; [repeat constructor; exact Hv|].
  destruct (Qeq_bool s s0); [constructor; [exact Hv|exact Hd]|constructor; [exact Hn|exact IH]].
Qed.

Lemma get0_nonneg d s : nonneg d -> (0 <= get0 d s)%Z.
Proof.
  unfold get0. induction 1 as [|[s0 n0] d Hn _ IH]; [cbn; lia|]. cbn [cs_get]. destruct (Qeq_bool s s0); [exact Hn|exact IH].
Qed.

Lemma good_cs_set d s v : good d -> (0 <= v)%Z -> good (cs_set d s v).
Proof. intros [H1 H2] Hv. split; [apply keys_nd_cs_set, H1|apply nonneg_cs_set; assumption]. Qed.

Lemma good_nil : good [].
Proof. split; [exact I|constructor]. Qed.

Lemma dget_dset_c {X} (d : list (C * X)) c x c' : dget (dset d c x) c' = if ceqb c' c then Some x else dget d c'.
Proof.
  induction d as [|[c0 v] d IH]; cbn [dset dget]; [destruct (ceqb c' c); reflexivity|].
  destruct (ceqb c c0) eqn:E; cbn [dget].
  - apply Pos.eqb_eq in E. subst c0. destruct (ceqb c' c); reflexivity.
  - destruct (ceqb c' c0) eqn:E2; [|exact IH].
    assert (ceqb c' c = false) as ->; [|reflexivity]. apply Pos.eqb_eq in E2. subst c0.
    unfold ceqb in *. rewrite Pos.eqb_sym. exact E.
Qed.

Definition dict_of (d : list (C * cscores)) (c : C) : cscores := match dget d c with Some x => x | None => [] end.
Definition count_c (c : C) (b : sballot) : Z := Z.of_nat (length (filter (fun cs : C * Q => ceqb c (fst cs)) b)).

Lemma raw_step_total n d cs c : (0 <= n)%Z ->
  cs_total (dict_of (raw_step n d cs) c) = (cs_total (dict_of d c) + if ceqb c (fst cs) then n else 0)%Z.
Proof.
  intros Hn. unfold raw_step, dict_of. cbv zeta. rewrite dget_dset_c. destruct (ceqb c (fst cs)) eqn:E; [|lia].
  apply Pos.eqb_eq in E. subst c. rewrite total_cs_set. unfold get0. lia.
Qed.

Lemma raw_step_good n d cs : (0 <= n)%Z -> (forall c, good (dict_of d c)) -> forall c, good (dict_of (raw_step n d cs) c).
Proof.
  intros Hn H c. unfold raw_step, dict_of. cbv zeta. rewrite dget_dset_c. destruct (ceqb c (fst cs)); [|apply H].
  specialize (H (fst cs)). unfold dict_of in H. apply good_cs_set; [exact H|].
  pose proof (get0_nonneg _ (snd cs) (proj2 H)) as Hg. unfold get0 in Hg. lia.
Qed.

Lemma raw_inner_total n (b : sballot) c : (0 <= n)%Z -> forall d,
  cs_total (dict_of (fold_left (raw_step n) b d) c) = (cs_total (dict_of d c) + n * count_c c b)%Z.
Proof.
  intros Hn. induction b as [|cs b IH]; intros d; cbn [fold_left]; [unfold count_c; cbn; lia|].
  rewrite IH, (raw_step_total n d cs c Hn). unfold count_c. cbn [filter]. destruct (ceqb c (fst cs)); cbn [length]; lia.
Qed.

Lemma raw_inner_good n (b : sballot) : (0 <= n)%Z -> forall d, (forall c, good (dict_of d c)) -> forall c, good (dict_of (fold_left (raw_step n) b d) c).
Proof.
  intros Hn. induction b as [|cs b IH]; intros d H; cbn [fold_left]; [exact H|]. apply IH. apply raw_step_good; assumption.
Qed.

Definition weighted_count (c : C) (votes : sprofile) : Z :=
  fold_right (fun bn acc => (snd bn * count_c c (fst bn) + acc)%Z) 0%Z votes.

Lemma raw_scores_total votes c : (forall b n, In (b, n) votes -> (0 <= n)%Z) ->
  cs_total (dict_of (raw_scores votes) c) = weighted_count c votes /\ good (dict_of (raw_scores votes) c).
Proof.
  intros Hpos. rewrite raw_scores_unfold.
  assert (G : forall d, (forall c', good (dict_of d c')) ->
            cs_total (dict_of (fold_left (fun d bn => fold_left (raw_step (snd bn)) (fst bn) d) votes d) c)
            = (cs_total (dict_of d c) + weighted_count c votes)%Z /\
            good (dict_of (fold_left (fun d bn => fold_left (raw_step (snd bn)) (fst bn) d) votes d) c)).
  { induction votes as [|[b n] votes IH]; intros d Hd; cbn [fold_left weighted_count fold_right fst snd]; [split; [lia|apply Hd]|].
    assert (Hn : (0 <= n)%Z) by (apply (Hpos b n); left; reflexivity).
    destruct (IH (fun b' n' H => Hpos b' n' (or_intror H)) (fold_left (raw_step n) b d) (raw_inner_good n b Hn d Hd)) as [E1 E2].
    split; [rewrite E1, (raw_inner_total n b c Hn d); unfold weighted_count; lia|exact E2]. }
  destruct (G [] (fun _ => good_nil)) as [E1 E2]. split; [rewrite E1; cbn; lia|exact E2].
Qed.

Lemma dict_of_in (d : list (C * cscores)) c x : NoDup (map fst d) -> In (c, x) d -> dict_of d c = x.
Proof.
  unfold dict_of. induction d as [|[c0 x0] d IH]; intros Hnd Hin; [destruct Hin|]. cbn [map fst] in Hnd. inversion Hnd as [|? ? Hc Hnd']; subst.
  cbn [dget]. destruct Hin as [Hin|Hin].
  - injection Hin as -> ->. unfold ceqb. rewrite Pos.eqb_refl. reflexivity.
  - destruct (ceqb c c0) eqn:E; [|apply IH; assumption]. apply Pos.eqb_eq in E. subst c0. exfalso. apply Hc. apply in_map_iff. exists (c, x). auto.
Qed.

(* keys of the raw dictionaries are candidates of some ballot *)
Lemma raw_keys votes c : In c (map fst (raw_scores votes)) -> In c (flat_map (fun bn : sballot * Z => map fst (fst bn)) votes).
Proof.
  rewrite raw_scores_unfold.
  assert (Hstep : forall n d cs c', In c' (map fst (raw_step n d cs)) -> c' = fst cs \/ In c' (map fst d)).
  { intros n d cs c'. unfold raw_step. cbv zeta. apply dset_keys_in. }
  assert (Hin : forall n (b : sballot) d c', In c' (map fst (fold_left (raw_step n) b d)) -> In c' (map fst b) \/ In c' (map fst d)).
  { intros n b. induction b as [|cs b IH]; intros d c' H; cbn [fold_left] in H; [right; exact H|].
    destruct (IH _ _ H) as [H1|H1]; [left; right; exact H1|]. destruct (Hstep _ _ _ _ H1) as [->|H2]; [left; left; reflexivity|right; exact H2]. }
  assert (G : forall d, In c (map fst (fold_left (fun d bn => fold_left (raw_step (snd bn)) (fst bn) d) votes d)) ->
              In c (flat_map (fun bn : sballot * Z => map fst (fst bn)) votes) \/ In c (map fst d)).
  { induction votes as [|[b n] votes IH]; intros d H; cbn [fold_left flat_map fst snd] in *; [right; exact H|].
    destruct (IH _ H) as [H1|H1]; [left; apply in_or_app; right; exact H1|].
    destruct (Hin _ _ _ _ H1) as [H2|H2]; [left; apply in_or_app; left; exact H2|right; exact H2]. }
  intros H. destruct (G [] H) as [H1|[]]. exact H1.
Qed.

Definition complete_ballots (votes : sprofile) : Prop :=
  forall b n, In (b, n) votes -> (0 < n)%Z /\ NoDup (map fst b) /\
    forall c, In c (flat_map (fun bn : sballot * Z => map fst (fst bn)) votes) -> In c (map fst b).

Lemma count_c_one c (b : sballot) : NoDup (map fst b) -> In c (map fst b) -> count_c c b = 1%Z.
Proof.
  unfold count_c. induction b as [|[c0 s] b IH]; intros Hnd Hin; [destruct Hin|]. cbn [map fst] in *. inversion Hnd as [|? ? Hc Hnd']; subst.
  cbn [filter fst]. destruct (ceqb c c0) eqn:E.
  - apply Pos.eqb_eq in E. subst c0. cbn [length].
    assert (E0 : filter (fun cs : C * Q => ceqb c (fst cs)) b = []).
    { apply GetNBest_proofs.filter_none. apply Forall_forall. intros [c1 s1] H1. cbn [fst]. apply not_true_iff_false. intros E1.
      apply Pos.eqb_eq in E1. subst c1. apply Hc. apply in_map_iff. exists (c, s1). auto. }
    rewrite E0. reflexivity.
  - destruct Hin as [->|Hin]; [unfold ceqb in E; rewrite Pos.eqb_refl in E; discriminate|]. apply IH; assumption.
Qed.

Lemma complete_weighted votes c : complete_ballots votes -> In c (flat_map (fun bn : sballot * Z => map fst (fst bn)) votes) ->
  weighted_count c votes = sp_total votes.
Proof.
  intros Hc Hin. unfold sp_total.
  assert (G : forall vs, (forall b n, In (b, n) vs -> NoDup (map fst b) /\ In c (map fst b)) ->
              forall a, fold_left Z.add (map snd vs) a = (a + weighted_count c vs)%Z).
  { induction vs as [|[b n] vs IH]; intros H a; cbn [map fold_left weighted_count fold_right fst snd]; [lia|].
    destruct (H b n ltac:(left; reflexivity)) as [H1 H2]. rewrite (count_c_one c b H1 H2).
    rewrite (IH (fun b' n' Hx => H b' n' (or_intror Hx))). unfold weighted_count. lia. }
  rewrite (G votes); [lia|]. intros b n Hb. destruct (Hc b n Hb) as (_ & H1 & H2). split; [exact H1|apply H2, Hin].
Qed.

Theorem complete_balanced cf votes sc : sc_min_count cf = 0%Z -> Qle_bool (sc_trunc cf) 0 = true -> complete_ballots votes ->
  corrected_scores cf votes = inl sc -> Inv sc (sp_total votes).
Proof.
  intros Hmc Htr Hc Hsc. split; [exact (corrected_scores_nodup cf votes sc Hsc)|].
  apply Forall_forall. intros [c d1] Hin. cbn [snd].
  unfold corrected_scores in Hsc. cbv zeta in Hsc. fold (sp_total votes) in Hsc.
  pose proof (sequence_in _ _ c d1 Hsc Hin) as Hin'. apply in_map_iff in Hin'. destruct Hin' as ([c0 d] & E & Hraw).
  cbn [fst snd] in E. injection E as -> E.
  assert (Hpos : forall b n, In (b, n) votes -> (0 <= n)%Z) by (intros b n Hb; destruct (Hc b n Hb) as [H _]; lia).
  destruct (raw_scores_total votes c Hpos) as [Et Eg].
  rewrite (dict_of_in _ c d (raw_scores_nodup votes) Hraw) in Et, Eg.
  assert (Hk : In c (flat_map (fun bn : sballot * Z => map fst (fst bn)) votes)).
  { apply raw_keys. apply in_map_iff. exists (c, d). auto. }
  rewrite (complete_weighted votes c Hc Hk) in Et.
  assert (HT0 : (0 <= sp_total votes)%Z) by (rewrite <- Et, cs_total_sumf; apply sumf_nonneg, (proj2 Eg)).
  unfold correct_scores in E. cbv zeta in E. rewrite Hmc, Et in E.
  assert ((sp_total votes <? 0)%Z = false) as Elt by (apply Z.ltb_ge; exact HT0). rewrite Elt, Htr in E.
  assert (Hun : forall v, good (cs_set d v (sp_total votes - sp_total votes + match cs_get d v with Some n => n | None => 0%Z end)) /\
                          cs_total (cs_set d v (sp_total votes - sp_total votes + match cs_get d v with Some n => n | None => 0%Z end)) = sp_total votes).
  { intros v. change (match cs_get d v with Some n => n | None => 0%Z end) with (get0 d v).
    pose proof (get0_nonneg d v (proj2 Eg)) as Hg0. split; [apply good_cs_set; [exact Eg|lia]|rewrite total_cs_set, Et; lia]. }
  destruct (sc_unscored cf) as [|v|].
  - injection E as <-. split; [exact Eg|exact Et].
  - injection E as <-. apply Hun.
  - destruct (list_min (expand d)) as [v|]; [|discriminate]. injection E as <-. apply Hun.
Qed.
