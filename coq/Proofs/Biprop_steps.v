(* Lemmas for property C07, part 2: invariants of the tie-and-transfer updates
   (seat transfer along ANY path, multiplier update by the adjustment coefficient),
   the feasibility reference, and the link of a certified row to the divisor method. *)
From Coq Require Import ZArith QArith List Bool Lia Lqa.
From VL Require Import Prelude.PyDict Model.Divisor Model.HighestAverages Model.Biprop
     Proofs.Dict_proofs Proofs.Divisor_proofs Proofs.Biprop_proofs.
Import ListNotations.
Open Scope Z_scope.

(* ------------------------------------------------------------------ more sums *)
Lemma zsum_map_plus {X} (f g : X -> Z) l :
  zsum (map (fun x => f x + g x) l) = zsum (map f l) + zsum (map g l).
Proof. induction l as [|x l IH]; simpl; [rewrite ?zsum_nil; lia|]. rewrite !zsum_cons, IH. lia. Qed.
Lemma zsum_map_minus {X} (f g : X -> Z) l :
  zsum (map (fun x => f x - g x) l) = zsum (map f l) - zsum (map g l).
Proof. induction l as [|x l IH]; simpl; [rewrite ?zsum_nil; lia|]. rewrite !zsum_cons, IH. lia. Qed.
Lemma zsum_map_zero {X} (l : list X) : zsum (map (fun _ => 0) l) = 0.
Proof. induction l as [|x l IH]; simpl; [rewrite ?zsum_nil; lia|]. rewrite zsum_cons, IH. lia. Qed.
(* an indicator summed over a duplicate-free list that contains the point *)
Lemma zsum_indicator a (b : bool) l : NoDup l -> In a l ->
  zsum (map (fun x => if ceqb x a && b then 1 else 0) l) = if b then 1 else 0.
Proof.
  intros Hnd Hin.
  rewrite (zsum_map_point (fun _ => 0) (fun x => if ceqb x a && b then 1 else 0) a (if b then 1 else 0) l).
  - rewrite zsum_map_zero, (count_nodup a l Hnd Hin). lia.
  - intros x. destruct (ceqb x a), b; reflexivity.
Qed.
Lemma zsum_indicator' a (b : bool) l : NoDup l -> In a l ->
  zsum (map (fun x => if b && ceqb x a then 1 else 0) l) = if b then 1 else 0.
Proof.
  intros Hnd Hin. rewrite <- (zsum_indicator a b l Hnd Hin). apply zsum_map_ext.
  intros x _. rewrite andb_comm. reflexivity.
Qed.

(* ------------------------------------------------------------------ _augment_result *)
Lemma mget_dset_row m i row i' j' :
  mget (dset m i row) i' j' = if ceqb i' i then dget_or row j' 0 else mget m i' j'.
Proof. unfold mget. rewrite dget_dset. destruct (ceqb i' i); reflexivity. Qed.

Lemma cell_incr_mget m i j m' : cell_incr m i j = Some m' ->
  forall i' j', mget m' i' j' = mget m i' j' + (if ceqb i' i && ceqb j' j then 1 else 0).
Proof.
  unfold cell_incr. destruct (dget m i) as [row|] eqn:E; [|discriminate]. intros [= <-] i' j'.
  rewrite mget_dset_row. destruct (ceqb i' i) eqn:Ei; simpl; [|lia].
  apply ceqb_eq in Ei. subst i'. rewrite dget_or_dset. unfold mget. rewrite E.
  destruct (ceqb j' j) eqn:Ej; [apply ceqb_eq in Ej; subst; lia|lia].
Qed.

Lemma dget_or_dremove (row : list (C * Z)) j j' :
  dget_or (dremove row j) j' 0 = if ceqb j' j then 0 else dget_or row j' 0.
Proof. unfold dget_or. rewrite dget_dremove. destruct (ceqb j' j); reflexivity. Qed.

Lemma cell_decr_mget m i j m' : cell_decr m i j = Some m' ->
  forall i' j', mget m' i' j' = mget m i' j' - (if ceqb i' i && ceqb j' j then 1 else 0).
Proof.
  unfold cell_decr. destruct (dget m i) as [row|] eqn:E; [|discriminate].
  destruct (dget row j) as [s|] eqn:Es; [|discriminate]. intros [= <-] i' j'.
  rewrite mget_dset_row. destruct (ceqb i' i) eqn:Ei; simpl; [|lia].
  apply ceqb_eq in Ei. subst i'. unfold mget. rewrite E.
  destruct (s - 1 =? 0) eqn:Z0.
  - apply Z.eqb_eq in Z0. rewrite dget_or_dremove. destruct (ceqb j' j) eqn:Ej; [|lia].
    apply ceqb_eq in Ej. subst j'. unfold dget_or. rewrite Es. lia.
  - rewrite dget_or_dset. destruct (ceqb j' j) eqn:Ej; [|lia].
    apply ceqb_eq in Ej. subst j'. unfold dget_or. rewrite Es. lia.
Qed.

(* net change of every cell along a path *)
Fixpoint aug_delta (cur : C) (hops : list (C * C)) (i j : C) : Z :=
  match hops with
  | [] => 0
  | (p, d') :: t => (if ceqb i cur && ceqb j p then 1 else 0) - (if ceqb i d' && ceqb j p then 1 else 0)
                    + aug_delta d' t i j
  end.

Lemma augment_mget : forall hops m cur m', augment m cur hops = Some m' ->
  forall i j, mget m' i j = mget m i j + aug_delta cur hops i j.
Proof.
  induction hops as [|[p d'] t IH]; intros m cur m' H i j; simpl in *.
  - injection H as <-. lia.
  - destruct (cell_incr m cur p) as [m1|] eqn:E1; [|discriminate].
    destruct (cell_decr m1 d' p) as [m2|] eqn:E2; [|discriminate].
    rewrite (IH _ _ _ H), (cell_decr_mget _ _ _ _ E2), (cell_incr_mget _ _ _ _ E1). lia.
Qed.

Lemma last_cons {X} (l : list X) : forall a x, last (a :: l) x = last l a.
Proof.
  induction l as [|b l IH]; intros a x; [reflexivity|].
  change (last (a :: b :: l) x) with (last (b :: l) x). rewrite (IH b x).
  change (last (b :: l) a) with (last (b :: l) a). rewrite (IH b a). reflexivity.
Qed.

Lemma aug_delta_col ds j : NoDup ds -> forall hops cur, In cur ds ->
  (forall p d', In (p, d') hops -> In d' ds) ->
  zsum (map (fun i => aug_delta cur hops i j) ds) = 0.
Proof.
  intros Hnd. induction hops as [|[p d'] t IH]; intros cur Hc Hh; simpl.
  - apply zsum_map_zero.
  - assert (Hd : In d' ds) by (apply (Hh p); left; reflexivity).
    rewrite (zsum_map_plus (fun i => (if ceqb i cur && ceqb j p then 1 else 0) - (if ceqb i d' && ceqb j p then 1 else 0))).
    rewrite (zsum_map_minus (fun i => if ceqb i cur && ceqb j p then 1 else 0)).
    rewrite !zsum_indicator by assumption. rewrite IH; [lia|exact Hd|].
    intros p0 d0 H0. apply (Hh p0). right. exact H0.
Qed.

Lemma aug_delta_row ps i : NoDup ps -> forall hops cur,
  (forall p d', In (p, d') hops -> In p ps) ->
  zsum (map (fun j => aug_delta cur hops i j) ps)
  = (if ceqb i cur then 1 else 0) - (if ceqb i (path_end cur hops) then 1 else 0).
Proof.
  intros Hnd. induction hops as [|[p d'] t IH]; intros cur Hh; simpl.
  - rewrite zsum_map_zero. unfold path_end. simpl. lia.
  - assert (Hp : In p ps) by (apply (Hh p d'); left; reflexivity).
    rewrite (zsum_map_plus (fun j => (if ceqb i cur && ceqb j p then 1 else 0) - (if ceqb i d' && ceqb j p then 1 else 0))).
    rewrite (zsum_map_minus (fun j => if ceqb i cur && ceqb j p then 1 else 0)).
    rewrite !zsum_indicator' by assumption. rewrite IH.
    + unfold path_end. simpl map. rewrite last_cons. lia.
    + intros p0 d0 H0. apply (Hh p0 d0). right. exact H0.
Qed.

Theorem augment_totals m start hops m' ds ps :
  augment m start hops = Some m' -> NoDup ds -> NoDup ps -> In start ds ->
  (forall p d', In (p, d') hops -> In p ps /\ In d' ds) ->
  (forall j, colsum m' ds j = colsum m ds j) /\
  (forall i, rowsum m' ps i = rowsum m ps i + (if ceqb i start then 1 else 0)
                              - (if ceqb i (path_end start hops) then 1 else 0)).
Proof.
  intros H Hds Hps Hs Hh. pose proof (augment_mget _ _ _ _ H) as G. split.
  - intros j. unfold colsum.
    rewrite (zsum_map_ext (fun i => mget m' i j) (fun i => mget m i j + aug_delta start hops i j)) by (intros; apply G).
    rewrite zsum_map_plus, aug_delta_col; [lia|exact Hds|exact Hs|]. intros p d' H0. apply (Hh p d' H0).
  - intros i. unfold rowsum.
    rewrite (zsum_map_ext (fun j => mget m' i j) (fun j => mget m i j + aug_delta start hops i j)) by (intros; apply G).
    rewrite zsum_map_plus, aug_delta_row; [change (fun j : C => mget m i j) with (mget m i); lia|exact Hps|]. intros p d' H0. apply (Hh p d' H0).
Qed.

(* ------------------------------------------------------------------ _adj_coef and the multiplier update *)
Section Scale.
  Variable q : Q.
  Variable res : mat.
  Variables DL PL : list C.
  Notation sg i j := (signpost q (mget res i j)).
  Notation step := (scan_cell q res DL PL).

  Definition condA (cell : C * C * Q) : Prop :=
    let '(i, j, x) := cell in cmem i DL = true /\ cmem j PL = false /\ (0 < sg i j)%Q.
  Definition condB (cell : C * C * Q) : Prop :=
    let '(i, j, x) := cell in cmem i DL = false /\ cmem j PL = true /\ (0 < x)%Q.

  Definition beta_le (b0 : option Q) (b1 : option Q) : Prop :=
    forall b, b0 = Some b -> exists b', b1 = Some b' /\ (b' <= b)%Q.

  Lemma Qpos_b_false x : Qpos_b x = false <-> (x <= 0)%Q.
  Proof.
    split; intros H.
    - destruct (Qlt_le_dec 0 x) as [L|L]; [|exact L]. apply Qpos_b_iff in L. congruence.
    - destruct (Qpos_b x) eqn:E; [|reflexivity]. apply Qpos_b_iff in E. lra.
  Qed.

  Lemma step_facts st cell : sc_zerodiv (step st cell) = false ->
    sc_zerodiv st = false /\ (sc_alpha st <= sc_alpha (step st cell))%Q /\
    beta_le (sc_beta st) (sc_beta (step st cell)) /\
    (condA cell -> ~ (snd cell == 0)%Q /\ (sg (fst (fst cell)) (snd (fst cell)) / snd cell <= sc_alpha (step st cell))%Q) /\
    (condB cell -> exists b, sc_beta (step st cell) = Some b /\
                             (b <= (sg (fst (fst cell)) (snd (fst cell)) + 1) / snd cell)%Q) /\
    ((forall b, sc_beta st = Some b -> (0 < b)%Q) -> (condB cell -> (0 < (sg (fst (fst cell)) (snd (fst cell)) + 1) / snd cell)%Q) ->
     forall b, sc_beta (step st cell) = Some b -> (0 < b)%Q).
  Proof.
    destruct cell as [[i j] x]. unfold scan_cell, condA, condB, beta_le. simpl fst. simpl snd.
    destruct (sc_zerodiv st) eqn:Ez; [intros H; rewrite Ez in H; discriminate|].
    destruct (cmem i DL) eqn:Ei, (cmem j PL) eqn:Ej; simpl.
    - (* both labelled: untouched *)
      intros _. repeat split; try lra; try (intros b Hb; exists b; split; [exact Hb|lra]);
        try (intros [? [? ?]]; discriminate). intros Hp _ b Hb. apply Hp, Hb.
    - (* alpha side *)
      destruct (Qpos_b (sg i j)) eqn:Es.
      + destruct (Qeq_bool x 0) eqn:Ex; [simpl; discriminate|].
        assert (Hx : ~ (x == 0)%Q) by (intros H; apply Qeq_bool_iff in H; congruence).
        destruct (Qpos_b (sg i j / x - sc_alpha st)) eqn:Ea; simpl; intros _.
        * apply Qpos_b_iff in Ea. repeat split; try lra; try (intros b Hb; exists b; split; [exact Hb|lra]);
            try (intros [? [? ?]]; discriminate); try exact Hx. intros Hp _ b Hb. apply Hp, Hb.
        * apply Qpos_b_false in Ea. repeat split; try lra; try (intros b Hb; exists b; split; [exact Hb|lra]);
            try (intros [? [? ?]]; discriminate); try exact Hx. intros Hp _ b Hb. apply Hp, Hb.
      + apply Qpos_b_false in Es. intros _.
        repeat split; try lra; try (intros b Hb; exists b; split; [exact Hb|lra]);
          try (intros [? [? ?]]; try discriminate; lra). intros Hp _ b Hb. apply Hp, Hb.
    - (* beta side *)
      destruct (Qpos_b x) eqn:Ex.
      + destruct (sc_beta st) as [b0|] eqn:Eb.
        * destruct (Qpos_b (b0 - (sg i j + 1) / x)) eqn:Ec; simpl; intros _.
          -- apply Qpos_b_iff in Ec. repeat split; try lra; try (intros [? [? ?]]; discriminate).
             ++ intros b [= <-]. eexists. split; [reflexivity|lra].
             ++ intros _. eexists. split; [reflexivity|lra].
             ++ intros _ Hb b [= <-]. apply Hb. apply Qpos_b_iff in Ex. repeat split; exact Ex.
          -- apply Qpos_b_false in Ec. rewrite Eb. repeat split; try lra; try (intros [? [? ?]]; discriminate).
             ++ intros b [= <-]. eexists. split; [reflexivity|lra].
             ++ intros _. eexists. split; [reflexivity|lra].
             ++ intros Hp _ b Hb. apply Hp, Hb.
        * simpl. intros _. repeat split; try lra; try (intros [? [? ?]]; discriminate).
          -- intros b Hb. discriminate.
          -- intros _. eexists. split; [reflexivity|lra].
          -- intros _ Hb b [= <-]. apply Hb. apply Qpos_b_iff in Ex. repeat split; exact Ex.
      + apply Qpos_b_false in Ex. intros _.
        repeat split; try lra; try (intros b Hb; exists b; split; [exact Hb|lra]);
          try (intros [? [? ?]]; try discriminate; lra). intros Hp _ b Hb. apply Hp, Hb.
    - (* neither labelled *)
      intros _. repeat split; try lra; try (intros b Hb; exists b; split; [exact Hb|lra]);
        try (intros [? [? ?]]; discriminate). intros Hp _ b Hb. apply Hp, Hb.
  Qed.

  Lemma beta_le_trans a b c : beta_le a b -> beta_le b c -> beta_le a c.
  Proof.
    intros H1 H2 x Hx. destruct (H1 x Hx) as (y & Hy & L1). destruct (H2 y Hy) as (z & Hz & L2).
    exists z. split; [exact Hz|lra].
  Qed.

  Lemma scan_facts : forall cells st, sc_zerodiv (fold_left step cells st) = false ->
    sc_zerodiv st = false /\ (sc_alpha st <= sc_alpha (fold_left step cells st))%Q /\
    beta_le (sc_beta st) (sc_beta (fold_left step cells st)) /\
    (forall cell, In cell cells -> condA cell ->
       ~ (snd cell == 0)%Q /\
       (sg (fst (fst cell)) (snd (fst cell)) / snd cell <= sc_alpha (fold_left step cells st))%Q) /\
    (forall cell, In cell cells -> condB cell ->
       exists b, sc_beta (fold_left step cells st) = Some b /\
                 (b <= (sg (fst (fst cell)) (snd (fst cell)) + 1) / snd cell)%Q) /\
    ((forall b, sc_beta st = Some b -> (0 < b)%Q) ->
     (forall cell, In cell cells -> condB cell -> (0 < (sg (fst (fst cell)) (snd (fst cell)) + 1) / snd cell)%Q) ->
     forall b, sc_beta (fold_left step cells st) = Some b -> (0 < b)%Q).
  Proof.
    induction cells as [|cell cells IH]; intros st H; simpl in *.
    - repeat split; try lra; try tauto. intros b Hb. exists b. split; [exact Hb|lra].
    - destruct (IH _ H) as (Z1 & A1 & B1 & CA & CB & P1).
      destruct (step_facts st cell Z1) as (Z0 & A0 & B0 & CA0 & CB0 & P0).
      split; [exact Z0|]. split; [lra|]. split; [eapply beta_le_trans; eassumption|].
      split; [|split].
      + intros c [<-|Hc] Hcond.
        * destruct (CA0 Hcond) as [Hx Ha]. split; [exact Hx|lra].
        * apply CA; assumption.
      + intros c [<-|Hc] Hcond.
        * destruct (CB0 Hcond) as (b & Hb & Lb). destruct (B1 b Hb) as (b' & Hb' & Lb').
          exists b'. split; [exact Hb'|lra].
        * apply CB; assumption.
      + intros Hp Hc. apply P1.
        * apply P0; [exact Hp|]. intros Hcond. apply (Hc cell); [left; reflexivity|exact Hcond].
        * intros c Hin. apply Hc. right. exact Hin.
  Qed.

  (* the implementation's cell invariant: signpost <= quotient <= signpost + 1, quotient >= 0 *)
  Definition within (x : Q) (s : Z) : Prop := (0 <= x /\ signpost q s <= x /\ x <= signpost q s + 1)%Q.
  Lemma within_b_iff x s : within_b q x s = true <-> within x s.
  Proof. unfold within_b, within. rewrite !andb_true_iff, !Qle_bool_iff. tauto. Qed.

  (* the quotient of a cell after district_coefs[d] *= a (d labelled), party_coefs[p] /= a (p labelled) *)
  Definition scaled (a : Q) (cell : C * C * Q) : Q :=
    let '(i, j, x) := cell in
    (x * (if cmem i DL then a else 1) / (if cmem j PL then a else 1))%Q.

  Theorem scale_keeps_cells quots a :
    adj_coef q quots res DL PL = Adj a -> (0 < a)%Q -> (a <= 1)%Q ->
    (forall cell, In cell (cells_of quots) -> within (snd cell) (mget res (fst (fst cell)) (snd (fst cell)))) ->
    forall cell, In cell (cells_of quots) ->
      within (scaled a cell) (mget res (fst (fst cell)) (snd (fst cell))).
  Proof.
    unfold adj_coef. set (cells := cells_of quots).
    pose proof (scan_facts cells (mk_scan 0 None false)) as F.
    remember (fold_left step cells (mk_scan 0 None false)) as fin eqn:Efin.
    destruct (sc_zerodiv fin) eqn:Ez; [discriminate|]. intros Ha Hpos Hle1 Hin.
    destruct (F eq_refl) as (_ & _ & _ & CA & CB & PB). clear F.
    assert (Halpha : (sc_alpha fin <= a)%Q).
    { destruct (sc_beta fin) as [b|]; injection Ha as Ha; rewrite <- Ha.
      - destruct (Qle_bool (1 / b) (sc_alpha fin)) eqn:E; [lra|].
        destruct (Qlt_le_dec (sc_alpha fin) (1 / b)) as [L|L]; [lra|]. apply Qle_bool_iff in L. congruence.
      - destruct (Qle_bool 0 (sc_alpha fin)) eqn:E; [lra|].
        destruct (Qlt_le_dec (sc_alpha fin) 0) as [L|L]; [lra|]. apply Qle_bool_iff in L. congruence. }
    assert (Hbeta : forall b, sc_beta fin = Some b -> (1 / b <= a)%Q).
    { intros b Hb. rewrite Hb in Ha. injection Ha as Ha. rewrite <- Ha.
      destruct (Qle_bool (1 / b) (sc_alpha fin)) eqn:E; [apply Qle_bool_iff in E; lra|lra]. }
    assert (Hbpos : forall b, sc_beta fin = Some b -> (0 < b)%Q).
    { apply PB; [intros b Hb; discriminate|].
      intros [[i j] x] Hc (_ & _ & Hx). cbn [fst snd]. destruct (Hin _ Hc) as (_ & _ & Hu). cbn [fst snd] in Hu.
      apply Qlt_shift_div_l; [exact Hx|]. lra. }
    intros [[i j] x] Hc. specialize (Hin _ Hc) as Hw. cbn [fst snd scaled] in Hw |- *.
    destruct Hw as (H0 & Hlo & Hhi). unfold within.
    destruct (cmem i DL) eqn:Ei, (cmem j PL) eqn:Ej.
    - assert (E : (x * a / a == x)%Q) by (field; lra). rewrite E. repeat split; assumption.
    - assert (E : (x * a / 1 == x * a)%Q) by (field). rewrite E.
      split; [nra|]. split; [|nra].
      destruct (Qlt_le_dec 0 (sg i j)) as [Hs|Hs]; [|nra].
      destruct (CA (i, j, x) Hc) as [Hx Hd]; [repeat split; assumption|]. cbn [fst snd] in Hx, Hd.
      assert (Hxp : (0 < x)%Q) by (destruct (Qlt_le_dec 0 x) as [L|L]; [exact L|exfalso; apply Hx; lra]).
      assert (Hd' : (sg i j / x <= a)%Q) by lra.
      assert (E2 : (sg i j == sg i j / x * x)%Q) by (field; lra).
      remember (sg i j / x)%Q as t. nra.
    - assert (E : (x * 1 / a == x / a)%Q) by (field; lra). rewrite E.
      assert (Hdiv : (x <= x / a)%Q).
      { apply Qle_shift_div_l; [exact Hpos|]. nra. }
      split; [lra|]. split; [lra|].
      destruct (Qlt_le_dec 0 x) as [Hx|Hx].
      + destruct (CB (i, j, x) Hc) as (b & Hb & Lb); [repeat split; assumption|]. cbn [fst snd] in Lb.
        pose proof (Hbpos b Hb) as Hbp. pose proof (Hbeta b Hb) as Hba.
        assert (H1 : (1 <= a * b)%Q).
        { assert (E2 : (1 == 1 / b * b)%Q) by (field; lra). remember (1 / b)%Q as t. nra. }
        assert (H2 : (b * x <= sg i j + 1)%Q).
        { assert (E2 : (sg i j + 1 == (sg i j + 1) / x * x)%Q) by (field; lra).
          remember ((sg i j + 1) / x)%Q as t. nra. }
        apply Qle_shift_div_r; [exact Hpos|]. nra.
      + assert (Hx0 : (x == 0)%Q) by lra. rewrite Hx0.
        assert (E0 : (0 / a == 0)%Q) by (field; lra). rewrite E0. lra.
    - assert (E : (x * 1 / 1 == x)%Q) by field. rewrite E. repeat split; assumption.
  Qed.
End Scale.

(* the multiplier update does to a quotient what [scaled] says *)
Lemma quot_scale_rho v r g a : (quot v (r * a) g == quot v r g * a)%Q.
Proof. unfold quot. ring. Qed.
Lemma quot_scale_gamma v r g a : ~ (a == 0)%Q -> (quot v r (g / a) == quot v r g / a)%Q.
Proof. intros H. unfold quot. field. exact H. Qed.

(* the implementation's units and the divisor units of the checker *)
Lemma within_rounds_d_hondt x s : 0 <= s -> within 0 x s -> rounds d_hondt x s.
Proof.
  intros Hs (H0 & Hlo & Hhi). unfold rounds, d_hondt, signpost in *.
  split; [exact Hs|]. split.
  - rewrite inject_Z_plus. change (inject_Z 1) with 1%Q. lra.
  - intros _. replace (s - 1 + 1) with s by lia. lra.
Qed.
Lemma within_rounds_sainte_lague x s : 0 <= s -> within (1 # 2) x s -> rounds sainte_lague (2 * x) s.
Proof.
  intros Hs (H0 & Hlo & Hhi). unfold rounds, sainte_lague, signpost in *.
  split; [exact Hs|]. split.
  - rewrite inject_Z_plus, inject_Z_mult. change (inject_Z 1) with 1%Q. change (inject_Z 2) with 2%Q. lra.
  - intros _. replace (2 * (s - 1) + 1) with (2 * s + (-1)) by lia.
    rewrite inject_Z_plus, inject_Z_mult. change (inject_Z (-1)) with (-1)%Q. change (inject_Z 2) with 2%Q. lra.
Qed.

(* ------------------------------------------------------------------ feasibility reference *)
Section FlowP.
  Variables ds ps : list C.
  Variable sup : C -> C -> bool.
  Variables r c : C -> Z.

  Definition matrix_spec (m : mat) : Prop :=
    (forall i, In i ds -> rowsum m ps i = r i) /\
    (forall j, In j ps -> colsum m ds j = c j) /\
    (forall i j, In i ds -> In j ps -> 0 <= mget m i j /\ (sup i j = false -> mget m i j = 0)).

  Lemma matrix_ok_iff m : matrix_ok ds ps sup r c m = true <-> matrix_spec m.
  Proof.
    unfold matrix_ok, matrix_spec. rewrite !andb_true_iff, !forallb_forall. split.
    - intros [[H1 H2] H3]. repeat split.
      + intros i Hi. apply Z.eqb_eq, H1, Hi.
      + intros j Hj. apply Z.eqb_eq, H2, Hj.
      + specialize (H3 i H). rewrite forallb_forall in H3. specialize (H3 j H0).
        apply andb_true_iff in H3. apply Z.leb_le, H3.
      + intros Hs. specialize (H3 i H). rewrite forallb_forall in H3. specialize (H3 j H0).
        apply andb_true_iff in H3. destruct H3 as [_ H3]. rewrite Hs in H3. simpl in H3. apply Z.eqb_eq, H3.
    - intros (H1 & H2 & H3). repeat split.
      + intros i Hi. apply Z.eqb_eq, H1, Hi.
      + intros j Hj. apply Z.eqb_eq, H2, Hj.
      + intros i Hi. apply forallb_forall. intros j Hj. destruct (H3 i j Hi Hj) as [Ha Hb].
        apply andb_true_iff. split; [apply Z.leb_le, Ha|].
        destruct (sup i j) eqn:E; [reflexivity|]. simpl. apply Z.eqb_eq, Hb. reflexivity.
  Qed.

  Lemma totals_agree m : matrix_spec m -> zsum (map r ds) = zsum (map c ps).
  Proof.
    intros (H1 & H2 & _).
    rewrite <- (zsum_map_ext (fun i => rowsum m ps i) r ds H1).
    rewrite <- (zsum_map_ext (fun j => colsum m ds j) c ps H2).
    unfold rowsum, colsum. apply (zsum_swap (fun i j => mget m i j)).
  Qed.

  (* a verified cut excludes every matrix *)
  Theorem cut_sound cut : cut_ok ds ps sup r c cut = true -> forall m, ~ matrix_spec m.
  Proof.
    unfold cut_ok. intros H m Hm. apply orb_true_iff in H. destruct H as [H|H].
    - apply negb_true_iff, Z.eqb_neq in H. apply H, (totals_agree m Hm).
    - apply Z.ltb_lt in H. destruct Hm as (H1 & H2 & H3).
      set (S' := filter (fun i => cmem i cut) ds) in *.
      set (inT := fun j => existsb (fun i => cmem i cut && sup i j) ds).
      assert (HS : forall i, In i S' -> In i ds /\ cmem i cut = true) by (intros i Hi; apply filter_In in Hi; exact Hi).
      assert (HT : forall j, In j (reach ds ps sup cut) -> In j ps) by (intros j Hj; apply filter_In in Hj; apply Hj).
      assert (E1 : zsum (map r S') = zsum (map (fun i => zsum (map (fun j => mget m i j) (reach ds ps sup cut))) S')).
      { apply zsum_map_ext. intros i Hi. destruct (HS i Hi) as [Hd Hc]. rewrite <- (H1 i Hd). unfold rowsum, reach.
        symmetry. apply zsum_filter_eq. intros j Hj Hf.
        apply (H3 i j Hd Hj). destruct (sup i j) eqn:Es; [|reflexivity].
        exfalso. assert (existsb (fun i0 => cmem i0 cut && sup i0 j) ds = true); [|congruence].
        apply existsb_exists. exists i. split; [exact Hd|]. rewrite Hc, Es. reflexivity. }
      rewrite (zsum_swap (fun i j => mget m i j)) in E1.
      assert (E2 : zsum (map (fun j => zsum (map (fun i => mget m i j) S')) (reach ds ps sup cut))
                   <= zsum (map c (reach ds ps sup cut))).
      { apply zsum_map_le. intros j Hj. rewrite <- (H2 j (HT j Hj)). unfold colsum, S'.
        apply zsum_filter_le. intros i Hi. apply (H3 i j Hi (HT j Hj)). }
      lia.
  Qed.

  Lemma flow_loop_sound fuel : forall m0,
    match flow_loop ds ps sup r c fuel m0 with
    | FeasMatrix m => matrix_ok ds ps sup r c m = true
    | FeasCut cut => cut_ok ds ps sup r c cut = true
    | FeasUnknown => True
    end.
  Proof.
    induction fuel as [|f IH]; intros m0; simpl; [exact I|].
    destruct (filter (fun i => rowsum m0 ps i <? r i) ds) as [|x dl] eqn:Ed.
    - destruct (matrix_ok ds ps sup r c m0) eqn:E; [exact E|exact I].
    - destruct (sweeps ds ps sup (length ds + length ps + 1) m0 _) as [lr lc].
      destruct (filter _ lc) as [|[j p] rest].
      + destruct (cut_ok ds ps sup r c (map fst lr)) eqn:E; [exact E|exact I].
      + destruct (push_back _ _ _ _ _) as [m'|]; [apply IH|exact I].
  Qed.

  Theorem feasible_ref_sound :
    match feasible_ref ds ps sup r c with
    | FeasMatrix m => matrix_spec m
    | FeasCut cut => forall m, ~ matrix_spec m
    | FeasUnknown => True
    end.
  Proof.
    unfold feasible_ref. destruct (negb (zsum (map r ds) =? zsum (map c ps))).
    - destruct (cut_ok ds ps sup r c []) eqn:E; [apply (cut_sound [] E)|exact I].
    - pose proof (flow_loop_sound (Z.to_nat (zsum (map (fun i => Z.max 0 (r i)) ds)) + 1) []) as H.
      destruct (flow_loop _ _ _ _ _ _ _) as [m|cut|]; [apply matrix_ok_iff, H|apply (cut_sound cut H)|exact I].
  Qed.
End FlowP.

(* ------------------------------------------------------------------ a certified row is a divisor-method apportionment *)
Section Row.
  Variable d : Z -> Q.
  Hypothesis Hpos : forall k, 0 <= k -> (0 < d k)%Q.

  (* scaled votes w, seats s, multiplier rho: every s j is a rounding of w j * rho.  Then no unseated
     claim is stronger than a seated one (the min-max inequality that characterises divisor methods,
     C01_optimal's statement) *)
  Lemma row_minmax (w : C -> Q) (s : C -> Z) (rho : Q) (ps : list C) :
    (0 < rho)%Q -> (forall j, In j ps -> (0 <= w j)%Q) ->
    (forall j, In j ps -> rounds d (w j * rho) (s j)) ->
    forall j j', In j ps -> In j' ps -> 0 < s j' ->
      (w j / d (s j) <= w j' / d (s j' - 1))%Q.
  Proof.
    intros Hr Hw Hx j j' Hj Hj' Hs.
    destruct (Hx j Hj) as (S0 & U & _). destruct (Hx j' Hj') as (S0' & _ & Lo). specialize (Lo Hs).
    pose proof (Hpos (s j) S0) as D1. pose proof (Hpos (s j' - 1) ltac:(lia)) as D2.
    pose proof (Hw j Hj) as W1. pose proof (Hw j' Hj') as W2.
    apply Qle_shift_div_r; [exact D1|].
    assert (E : (w j' / d (s j' - 1) * d (s j) == w j' * d (s j) / d (s j' - 1))%Q) by (field; lra).
    rewrite E. apply Qle_shift_div_l; [exact D2|].
    assert (P1 : (0 <= w j * (w j' * rho - d (s j' - 1)))%Q) by (apply Qmult_le_0_compat; lra).
    assert (P2 : (0 <= w j' * (d (s j) - w j * rho))%Q) by (apply Qmult_le_0_compat; lra).
    lra.
  Qed.
End Row.

Lemma rounds_compat d x y s : (x == y)%Q -> rounds d x s -> rounds d y s.
Proof. intros E (H0 & H1 & H2). unfold rounds. rewrite <- E. auto. Qed.

(* every district row of a certified matrix, read with the party multipliers as vote weights, is a
   divisor-method apportionment of the district's seats with divisor 1 / (district multiplier) *)
Lemma spec_row_minmax d ds ps votes dseats pseats res rho gamma :
  (forall k, 0 <= k -> (0 < d k)%Q) -> (forall i j, 0 <= mget votes i j) ->
  spec_with d ds ps votes dseats pseats res rho gamma ->
  forall i, In i ds -> forall j j', In j ps -> In j' ps -> (0 < mget res i j')%Z ->
    (inject_Z (mget votes i j) * gamma j / d (mget res i j)
     <= inject_Z (mget votes i j') * gamma j' / d (mget res i j' - 1)%Z)%Q.
Proof.
  intros Hpos Hv [_ _ _ _ Hr Hg Hx] i Hi j j' Hj Hj' Hs.
  apply (row_minmax d Hpos (fun j => inject_Z (mget votes i j) * gamma j)%Q (fun j => mget res i j) (rho i) ps).
  - apply Hr, Hi.
  - intros k Hk. apply Qmult_le_0_compat; [|apply Qlt_le_weak, Hg, Hk].
    change 0%Q with (inject_Z 0). rewrite <- Zle_Qle. apply Hv.
  - intros k Hk. eapply rounds_compat; [|apply (Hx i k Hi Hk)]. unfold quot. ring.
  - exact Hj.
  - exact Hj'.
  - exact Hs.
Qed.

Lemma ha_marginal_spec d tv n g : ha_marginal d tv n = Some g ->
  HighestAverages.evaluate d tv n [] [] = HA_ok g None.
Proof.
  unfold ha_marginal. destruct (HighestAverages.evaluate d tv n [] []) as [g' [t|]|]; try discriminate.
  intros [= ->]. reflexivity.
Qed.

(* ------------------------------------------------------------------ the index lists cover the support *)
Lemma add_new_keeps l k x : In x l -> In x (add_new l k).
Proof. unfold add_new. destruct (cmem k l); [auto|]. intros H. apply in_or_app. left. exact H. Qed.
Lemma add_new_has l k : In k (add_new l k).
Proof.
  unfold add_new. destruct (cmem k l) eqn:E; [apply cmem_In, E|]. apply in_or_app. right. left. reflexivity.
Qed.
Lemma add_new_nodup l k : NoDup l -> NoDup (add_new l k).
Proof.
  intros H. unfold add_new. destruct (cmem k l) eqn:E; [exact H|].
  assert (Hn : ~ In k l) by (intros Hi; apply cmem_In in Hi; congruence).
  clear E. induction H as [|x l Hx Hl IH]; simpl.
  - constructor; [tauto|constructor].
  - constructor.
    + intros Hi. apply in_app_or in Hi. destruct Hi as [Hi|[Hi|[]]]; [tauto|]. subst. apply Hn. left. reflexivity.
    + apply IH. intros Hi. apply Hn. right. exact Hi.
Qed.

Definition row_fold (acc : list C) (row : list (C * Z)) : list C :=
  fold_left (fun acc kv => add_new acc (fst kv)) row acc.
Lemma row_fold_facts row : forall acc,
  (forall x, In x acc -> In x (row_fold acc row)) /\
  (forall kv, In kv row -> In (fst kv) (row_fold acc row)) /\
  (NoDup acc -> NoDup (row_fold acc row)).
Proof.
  unfold row_fold. induction row as [|kv row IH]; intros acc; simpl.
  - repeat split; auto. intros kv [].
  - destruct (IH (add_new acc (fst kv))) as (K1 & K2 & K3). repeat split.
    + intros x Hx. apply K1, add_new_keeps, Hx.
    + intros kv' [<-|H]; [apply K1, add_new_has|apply K2, H].
    + intros H. apply K3, add_new_nodup, H.
Qed.

Lemma parties_facts (votes : mat) : forall acc,
  let out := fold_left (fun acc row => row_fold acc (snd row)) votes acc in
  (forall x, In x acc -> In x out) /\
  (forall row kv, In row votes -> In kv (snd row) -> In (fst kv) out) /\
  (NoDup acc -> NoDup out).
Proof.
  induction votes as [|row votes IH]; intros acc; simpl.
  - repeat split; auto. intros row kv [].
  - destruct (IH (row_fold acc (snd row))) as (K1 & K2 & K3).
    destruct (row_fold_facts (snd row) acc) as (R1 & R2 & R3). repeat split.
    + intros x Hx. apply K1, R1, Hx.
    + intros row' kv [<-|H] Hk; [apply K1, R2, Hk|apply (K2 row' kv H Hk)].
    + intros H. apply K3, R3, H.
Qed.

Lemma parties_nodup votes : NoDup (parties votes).
Proof. destruct (parties_facts votes []) as (_ & _ & K). apply K. constructor. Qed.

(* every cell with votes lies inside districts x parties, so the sums of the statement are the full
   district and party totals *)
Lemma support_in_index votes i j : mget votes i j <> 0 -> In i (districts votes) /\ In j (parties votes).
Proof.
  intros H. destruct (mget_stored votes i j H) as (row & kv & Hr & Hi & Hk & Hj). split.
  - unfold districts. rewrite <- Hi. apply in_map, Hr.
  - rewrite <- Hj. destruct (parties_facts votes []) as (_ & K & _). apply (K row kv Hr Hk).
Qed.
