(* RoundedVotes beyond 28 significant digits (Model/Convert2.v round_code, dr_class): the library rounds a Fraction count twice - to
   28 significant digits (v = sig_round 28 x), then to d decimals.  The second rounding is a step function of its argument; it jumps
   only at the BOUNDARIES of the mode: the exact halves (2 n + 1) / (2 10^d) for ROUND_HALF_UP / HALF_DOWN / HALF_EVEN, the grid points
   2 k / (2 10^d) for the five directed modes.

     crosses m d x v = false  ->  round_q m d x == round_q m d v                                  crosses_false_round
     dr_class prec m d x = false  ->  round_code prec via m d x is the exact rounding (or InvalidOperation)   round_code_outside_class
     a half strictly between x and v  ->  the two roundings differ (three HALF modes)               half_strictly_between_differs

   so the class is exact for the HALF modes up to the case that x or v IS the boundary (where the tie rule of the mode decides). *)
From Coq Require Import ZArith QArith Qabs Qround Lqa Lia Bool List.
From VL Require Import Prelude.Sx Prelude.GDict Model.Convert2 Proofs.Round_proofs.
Import ListNotations.
Open Scope Q_scope.

Lemma half_boundaries_mode m : half_boundaries m = half_mode m.
Proof. reflexivity. Qed.

(* ================= the signed rounding of a scaled count ================= *)
Definition rsig (m : rmode) (t : Q) : Z :=
  if Qle_bool 0 t then round_mag m false t else (- round_mag m true (- t))%Z.

Lemma rsig_err m t :
  let e := inject_Z (rsig m t) - t in
  (-1 < e /\ e < 1) /\ (half_mode m = true -> -(1#2) <= e /\ e <= (1#2)).
Proof.
  unfold rsig. destruct (Qle_bool 0 t) eqn:E.
  - apply mag_err.
  - destruct (mag_err m true (- t)) as [[E1 E2] E3]. cbv zeta in *. rewrite inject_Z_opp. split; [split; lra|].
    intros Hh. destruct (E3 Hh). split; lra.
Qed.

Lemma rsig_mono m t t' : t <= t' -> (rsig m t <= rsig m t')%Z.
Proof.
  intros H. unfold rsig. destruct (Qle_bool 0 t) eqn:E, (Qle_bool 0 t') eqn:E'.
  - apply mag_mono, H.
  - apply Qle_bool_iff in E. apply Qle_bool_false in E'. lra.
  - apply Qle_bool_false in E. apply Qle_bool_iff in E'.
    assert (0 <= - t) as Ha by lra. pose proof (mag_nonneg m true _ Ha). pose proof (mag_nonneg m false _ E'). lia.
  - assert (- t' <= - t) as Ha by lra. pose proof (mag_mono m true _ _ Ha). lia.
Qed.

Lemma inject_Z_inj a b : inject_Z a == inject_Z b -> a = b.
Proof. unfold Qeq. simpl. lia. Qed.

Lemma inject_Z_succ_le a b : (a < b)%Z -> inject_Z a + 1 <= inject_Z b.
Proof. intros H. change 1 with (inject_Z 1). rewrite <- inject_Z_plus, <- Zle_Qle. lia. Qed.

Lemma odd_2n1 n : Z.odd (2 * n + 1) = true.
Proof. rewrite Z.add_comm, Z.odd_add_mul_2. reflexivity. Qed.
Lemma odd_2n k : Z.odd (2 * k) = false.
Proof. replace (2 * k)%Z with (0 + 2 * k)%Z by lia. rewrite Z.odd_add_mul_2. reflexivity. Qed.

Lemma inject_Z_odd n : inject_Z (2 * n + 1) == 2 * inject_Z n + 1.
Proof. rewrite inject_Z_plus, inject_Z_mult. reflexivity. Qed.

Lemma inject_Z_even k : inject_Z (2 * k) == 2 * inject_Z k.
Proof. rewrite inject_Z_mult. reflexivity. Qed.

(* ---- the three HALF modes are constant between two neighbouring halves *)
Lemma rsig_half_const m a b : half_mode m = true -> a <= b ->
  (forall n : Z, ~ (2 * a <= inject_Z (2 * n + 1) /\ inject_Z (2 * n + 1) <= 2 * b)) ->
  rsig m a = rsig m b.
Proof.
  intros Hh Hab Hno. pose proof (rsig_mono m a b Hab) as Hm.
  destruct (Z.eq_dec (rsig m a) (rsig m b)) as [E|E]; [exact E|]. exfalso.
  apply (Hno (rsig m a)). rewrite inject_Z_odd.
  destruct (rsig_err m a) as [_ Ea]. destruct (rsig_err m b) as [_ Eb]. cbv zeta in *.
  destruct (Ea Hh) as [Ea1 Ea2]. destruct (Eb Hh) as [Eb1 Eb2].
  assert (inject_Z (rsig m a) + 1 <= inject_Z (rsig m b)) by (apply inject_Z_succ_le; lia).
  split; lra.
Qed.

(* ... and jump at every half *)
Lemma rsig_half_jump m a b n : half_mode m = true ->
  2 * a < inject_Z (2 * n + 1) -> inject_Z (2 * n + 1) < 2 * b -> (rsig m a < rsig m b)%Z.
Proof.
  intros Hh Ha Hb. rewrite inject_Z_odd in Ha, Hb.
  destruct (rsig_err m a) as [_ Ea]. destruct (rsig_err m b) as [_ Eb]. cbv zeta in *.
  destruct (Ea Hh) as [Ea1 Ea2]. destruct (Eb Hh) as [Eb1 Eb2].
  assert (inject_Z (rsig m a) < inject_Z (n + 1)) as H1 by (rewrite inject_Z_plus; change (inject_Z 1) with 1; lra).
  assert (inject_Z n < inject_Z (rsig m b)) as H2 by lra.
  rewrite <- Zlt_Qlt in H1, H2. lia.
Qed.

(* ---- the five directed modes are constant between two neighbouring grid points *)
Lemma up_dir m neg lo r r' : half_mode m = false -> 0 < r -> 0 < r' -> up_rule m neg lo r = up_rule m neg lo r'.
Proof.
  intros Hh Hr Hr'. assert (Qle_bool r 0 = false) as E by (apply Qle_bool_false; exact Hr).
  assert (Qle_bool r' 0 = false) as E' by (apply Qle_bool_false; exact Hr').
  destruct m; try discriminate; simpl; rewrite ?E, ?E'; reflexivity.
Qed.

Lemma rsig_dir_const m a b : half_mode m = false -> a <= b ->
  (forall k : Z, ~ (a <= inject_Z k /\ inject_Z k <= b)) ->
  rsig m a = rsig m b.
Proof.
  intros Hh Hab Hno. set (f := Qfloor a).
  pose proof (Qfloor_le a) as F1. pose proof (Qlt_floor a) as F2. fold f in F1, F2.
  rewrite inject_Z_plus in F2. change (inject_Z 1) with 1 in F2.
  assert (A1 : inject_Z f < a).
  { destruct (Qlt_le_dec (inject_Z f) a) as [H|H]; [exact H|]. exfalso. apply (Hno f). split; lra. }
  assert (B1 : b < inject_Z f + 1).
  { destruct (Qlt_le_dec b (inject_Z f + 1)) as [H|H]; [exact H|]. exfalso. apply (Hno (f + 1)%Z).
    rewrite inject_Z_plus. change (inject_Z 1) with 1. split; lra. }
  unfold rsig. destruct (Z_le_gt_dec 0 f) as [Hf|Hf].
  - assert (0 <= inject_Z f) as Hf' by (change 0 with (inject_Z 0); rewrite <- Zle_Qle; exact Hf).
    assert (Qle_bool 0 a = true) as -> by (apply Qle_bool_iff; lra).
    assert (Qle_bool 0 b = true) as -> by (apply Qle_bool_iff; lra).
    unfold round_mag. fold f.
    assert (Qfloor b = f) as -> by (apply floor_unique; lra).
    rewrite (up_dir m false f (a - inject_Z f) (b - inject_Z f) Hh); [reflexivity|lra|lra].
  - assert (inject_Z f + 1 <= 0) as Hf'.
    { change 1 with (inject_Z 1). change 0 with (inject_Z 0). rewrite <- inject_Z_plus, <- Zle_Qle. lia. }
    assert (Qle_bool 0 a = false) as -> by (apply Qle_bool_false; lra).
    assert (Qle_bool 0 b = false) as -> by (apply Qle_bool_false; lra).
    unfold round_mag.
    assert (Ef : inject_Z (- f - 1) == - inject_Z f - 1).
    { unfold Zminus. rewrite inject_Z_plus, !inject_Z_opp. reflexivity. }
    assert (Qfloor (- a) = (- f - 1)%Z) as -> by (apply floor_unique; rewrite Ef; lra).
    assert (Qfloor (- b) = (- f - 1)%Z) as -> by (apply floor_unique; rewrite Ef; lra).
    rewrite (up_dir m true (- f - 1)%Z (- a - inject_Z (- f - 1)) (- b - inject_Z (- f - 1)) Hh); [reflexivity| |]; rewrite Ef; lra.
Qed.

(* ================= rounding to a multiple of 1 / s ================= *)
Section AT.
  Variable s : Q.
  Hypothesis s_pos : 0 < s.

  Lemma round_at_rsig m x : round_at m s x == inject_Z (rsig m (x * s)) / s.
  Proof.
    unfold rsig. destruct (Qlt_le_dec x 0) as [Hx|Hx].
    - assert (x * s < 0) as H by (setoid_replace 0 with (0 * s) by ring; apply Qmult_lt_compat_r; assumption).
      assert (Qle_bool 0 (x * s) = false) as -> by (apply Qle_bool_false; exact H).
      rewrite (round_at_neg s m x Hx), inject_Z_opp.
      rewrite (mag_comp m true (- (x * s)) (- x * s)); [reflexivity|ring].
    - assert (0 <= x * s) as H by (apply Qmult_le_0_compat; lra).
      assert (Qle_bool 0 (x * s) = true) as -> by (apply Qle_bool_iff; exact H).
      apply (round_at_nonneg s m x Hx).
  Qed.

  Lemma round_at_eq_rsig m x y : rsig m (x * s) = rsig m (y * s) -> round_at m s x == round_at m s y.
  Proof. intros H. rewrite !round_at_rsig, H. reflexivity. Qed.

  Lemma round_at_neq_rsig m x y : rsig m (x * s) <> rsig m (y * s) -> ~ round_at m s x == round_at m s y.
  Proof.
    intros H E. rewrite !round_at_rsig in E. apply H, inject_Z_inj.
    assert (Hs : ~ s == 0) by lra.
    setoid_replace (inject_Z (rsig m (x * s))) with (inject_Z (rsig m (x * s)) / s * s) by (field; exact Hs).
    rewrite E. field. exact Hs.
  Qed.

  (* no boundary of the mode in [lo, hi] (in units of 1 / (2 s): the odd integers for the HALF modes, the even ones otherwise) *)
  Definition between (m : rmode) (lo hi : Q) : bool :=
    let jl := Qceiling (lo * (2 * s)) in
    let jh := Qfloor (hi * (2 * s)) in
    (jl <=? jh)%Z && ((jl <? jh)%Z || Bool.eqb (Z.odd jl) (half_boundaries m)).

  Lemma between_false m lo hi j : between m lo hi = false -> Z.odd j = half_boundaries m ->
    ~ (lo * (2 * s) <= inject_Z j /\ inject_Z j <= hi * (2 * s)).
  Proof.
    unfold between. intros H Hj [H1 H2].
    pose proof (Qceiling_resp_le _ _ H1) as C1. rewrite Qceiling_Z in C1.
    pose proof (Qfloor_resp_le _ _ H2) as C2. rewrite Qfloor_Z in C2.
    apply andb_false_iff in H. destruct H as [H|H]; [apply Z.leb_gt in H; lia|].
    apply orb_false_iff in H. destruct H as [H3 H4]. apply Z.ltb_ge in H3.
    assert (Qceiling (lo * (2 * s)) = j) as E by lia. rewrite E, Hj, Bool.eqb_reflx in H4. discriminate.
  Qed.

  Lemma between_false_round m lo hi : lo <= hi -> between m lo hi = false -> round_at m s lo == round_at m s hi.
  Proof.
    intros Hle H. apply round_at_eq_rsig.
    assert (Hab : lo * s <= hi * s) by (apply Qmult_le_compat_r; lra).
    destruct (half_mode m) eqn:Hh.
    - apply (rsig_half_const m _ _ Hh Hab). intros n [H1 H2].
      apply (between_false m lo hi (2 * n + 1) H); [rewrite half_boundaries_mode, Hh; apply odd_2n1|]. split; lra.
    - apply (rsig_dir_const m _ _ Hh Hab). intros k [H1 H2].
      apply (between_false m lo hi (2 * k) H); [rewrite half_boundaries_mode, Hh; apply odd_2n|].
      rewrite inject_Z_even. split; lra.
  Qed.

  Lemma half_between_differs m lo hi n : half_mode m = true ->
    lo * (2 * s) < inject_Z (2 * n + 1) -> inject_Z (2 * n + 1) < hi * (2 * s) -> ~ round_at m s lo == round_at m s hi.
  Proof.
    intros Hh H1 H2. apply round_at_neq_rsig.
    assert (rsig m (lo * s) < rsig m (hi * s))%Z; [|lia].
    apply (rsig_half_jump m _ _ n Hh); lra.
  Qed.
End AT.

(* ================= RoundedVotes ================= *)
Lemma two_pow10 d : 0 < pow10 d.
Proof. apply pow10_pos. Qed.

Theorem crosses_false_round m d x v : crosses m d x v = false -> round_q m d x == round_q m d v.
Proof.
  unfold crosses, round_q. destruct (Qle_bool x v) eqn:E; intros H.
  - apply Qle_bool_iff in E. exact (between_false_round (pow10 d) (pow10_pos d) m x v E H).
  - apply Qle_bool_false in E. symmetry. apply (between_false_round (pow10 d) (pow10_pos d) m v x); [lra|exact H].
Qed.

(* outside the class the library's two roundings are the one exact rounding *)
Theorem dr_class_false_round prec m d x : dr_class prec m d x = false -> round_q m d (sig_round prec x) == round_q m d x.
Proof.
  unfold dr_class. cbv zeta. intros H. apply andb_false_iff in H. destruct H as [H|H].
  - apply negb_false_iff, Qeq_bool_iff in H. apply round_q_compat, H.
  - symmetry. apply crosses_false_round, H.
Qed.

Theorem round_code_outside_class prec via m d x : dr_class prec m d x = false \/ via = false ->
  round_code prec via m d x = RInvalid \/ exists r, round_code prec via m d x = ROk r /\ r == round_q m d x.
Proof.
  intros H. unfold round_code.
  destruct (Qle_bool (pow10 prec) _); [left; reflexivity|right].
  eexists; split; [reflexivity|]. destruct via; [|reflexivity].
  destruct H as [H|H]; [|discriminate]. apply dr_class_false_round, H.
Qed.

(* the class of C13_rounded_code_exact (the quotient is exact) lies outside the class *)
Lemma exact_outside_class prec m d x : sig_round prec x == x -> dr_class prec m d x = false.
Proof. intros H. unfold dr_class. cbv zeta. apply Qeq_bool_iff in H. rewrite H. reflexivity. Qed.

(* HALF modes: a half strictly between the count and its quotient gives the wrong neighbour *)
Theorem half_strictly_between_differs prec m d x n : half_mode m = true ->
  (x * (2 * pow10 d) < inject_Z (2 * n + 1) /\ inject_Z (2 * n + 1) < sig_round prec x * (2 * pow10 d)) \/
  (sig_round prec x * (2 * pow10 d) < inject_Z (2 * n + 1) /\ inject_Z (2 * n + 1) < x * (2 * pow10 d)) ->
  ~ round_q m d (sig_round prec x) == round_q m d x.
Proof.
  intros Hh [[H1 H2]|[H1 H2]] E.
  - apply (half_between_differs (pow10 d) (pow10_pos d) m x (sig_round prec x) n Hh H1 H2). symmetry. exact E.
  - exact (half_between_differs (pow10 d) (pow10_pos d) m (sig_round prec x) x n Hh H1 H2 E).
Qed.

(* the witnesses: inside the class and wrong (HALF_DOWN), inside the class and right all the same (HALF_UP: the quotient IS the half,
   the tie rule sends it to the neighbour the count itself goes to), outside the class although the quotient is inexact (1/3) *)
Lemma dr_class_witnesses :
  let x := (1#2) + (1 # 10 ^ 30) in
  dr_class 28 RHalfDown 0 x = true /\ round_code 28 true RHalfDown 0 x = ROk 0 /\ round_q RHalfDown 0 x == 1 /\
  dr_class 28 RHalfUp 0 x = true /\ round_code 28 true RHalfUp 0 x = ROk 1 /\ round_q RHalfUp 0 x == 1 /\
  dr_class 28 RHalfEven 2 (1#3) = false /\ Qeq_bool (sig_round 28 (1#3)) (1#3) = false /\
  dr_class 28 RUp 0 (1 + (1 # 10 ^ 30)) = true /\ round_code 28 true RUp 0 (1 + (1 # 10 ^ 30)) = ROk 1 /\
  round_q RUp 0 (1 + (1 # 10 ^ 30)) == 2.
Proof. vm_compute. repeat split; reflexivity. Qed.

(* ================= the class exactly, for the three HALF modes ================= *)
Lemma rsig_half_differs_iff m a b : half_mode m = true -> a < b ->
  (rsig m a <> rsig m b <->
   (exists n : Z, 2 * a < inject_Z (2 * n + 1) /\ inject_Z (2 * n + 1) < 2 * b) \/
   (exists n : Z, 2 * a == inject_Z (2 * n + 1) /\ inject_Z (rsig m a) < a) \/
   (exists n : Z, 2 * b == inject_Z (2 * n + 1) /\ b < inject_Z (rsig m b))).
Proof.
  intros Hh Hab.
  destruct (rsig_err m a) as [_ Ea]. destruct (rsig_err m b) as [_ Eb]. cbv zeta in *.
  destruct (Ea Hh) as [Ea1 Ea2]. destruct (Eb Hh) as [Eb1 Eb2].
  pose proof (rsig_mono m a b (Qlt_le_weak _ _ Hab)) as Hm.
  split.
  - intros Hne. assert (Hlt : (rsig m a < rsig m b)%Z) by lia.
    pose proof (inject_Z_succ_le _ _ Hlt) as Hs.
    destruct (Qlt_le_dec (2 * a) (inject_Z (2 * rsig m a + 1))) as [H1|H1].
    + destruct (Qlt_le_dec (inject_Z (2 * rsig m a + 1)) (2 * b)) as [H2|H2].
      * left. exists (rsig m a). split; assumption.
      * right. right. exists (rsig m a). rewrite inject_Z_odd in *. split; lra.
    + right. left. exists (rsig m a). rewrite inject_Z_odd in *. split; lra.
  - intros [(n & H1 & H2)|[(n & H1 & H2)|(n & H1 & H2)]].
    + pose proof (rsig_half_jump m a b n Hh H1 H2). lia.
    + rewrite inject_Z_odd in H1.
      assert (inject_Z (rsig m a) < inject_Z (n + 1)) as A1 by (rewrite inject_Z_plus; change (inject_Z 1) with 1; lra).
      assert (inject_Z n < inject_Z (rsig m b)) as A2 by lra.
      rewrite <- Zlt_Qlt in A1, A2. lia.
    + rewrite inject_Z_odd in H1.
      assert (inject_Z (rsig m a) < inject_Z (n + 1)) as A1 by (rewrite inject_Z_plus; change (inject_Z 1) with 1; lra).
      assert (inject_Z n < inject_Z (rsig m b)) as A2 by lra.
      rewrite <- Zlt_Qlt in A1, A2. lia.
Qed.

Lemma is_odd_int_spec t : is_odd_int t = true <-> exists n : Z, t == inject_Z (2 * n + 1).
Proof.
  unfold is_odd_int. rewrite andb_true_iff. split.
  - intros [H1 H2]. apply Qeq_bool_iff in H1. apply Z.odd_spec in H2. destruct H2 as [n Hn]. exists n. rewrite <- Hn. exact H1.
  - intros [n Hn]. assert (Qfloor t = (2 * n + 1)%Z) as E by (rewrite (Qfloor_comp _ _ Hn); apply Qfloor_Z).
    rewrite E. split; [apply Qeq_bool_iff; exact Hn|apply odd_2n1].
Qed.

Lemma odd_between_spec p q :
  ((Qfloor p + 1 <=? Qceiling q - 1)%Z && ((Qfloor p + 1 <? Qceiling q - 1)%Z || Z.odd (Qfloor p + 1))) = true <->
  exists n : Z, p < inject_Z (2 * n + 1) /\ inject_Z (2 * n + 1) < q.
Proof.
  pose proof (Qlt_floor p) as P1. pose proof (Qfloor_le p) as P0.
  pose proof (Qceiling_lt q) as Q1. pose proof (Qle_ceiling q) as Q0.
  split.
  - intros H. apply andb_true_iff in H. destruct H as [H1 H2]. apply Z.leb_le in H1.
    destruct (Z.odd (Qfloor p + 1)) eqn:Eo.
    + apply Z.odd_spec in Eo. destruct Eo as [n Hn]. exists n. rewrite <- Hn. split; [exact P1|].
      apply (Qle_lt_trans _ (inject_Z (Qceiling q - 1))); [rewrite <- Zle_Qle; exact H1|exact Q1].
    + rewrite orb_false_r in H2. apply Z.ltb_lt in H2.
      assert (Z.odd (Qfloor p + 1 + 1) = true) as Eo2 by (rewrite Z.odd_add, Eo; reflexivity).
      apply Z.odd_spec in Eo2. destruct Eo2 as [n Hn]. exists n. rewrite <- Hn. split.
      * apply (Qlt_le_trans _ (inject_Z (Qfloor p + 1))); [exact P1|rewrite <- Zle_Qle; lia].
      * apply (Qle_lt_trans _ (inject_Z (Qceiling q - 1))); [rewrite <- Zle_Qle; lia|exact Q1].
  - intros (n & H1 & H2).
    assert (A1 : (Qfloor p < 2 * n + 1)%Z) by (rewrite Zlt_Qlt; apply (Qle_lt_trans _ p); assumption).
    assert (A2 : (2 * n + 1 < Qceiling q)%Z) by (rewrite Zlt_Qlt; apply (Qlt_le_trans _ q); assumption).
    apply andb_true_iff. split; [apply Z.leb_le; lia|].
    destruct (Z.odd (Qfloor p + 1)) eqn:Eo; [apply orb_true_r|]. rewrite orb_false_r. apply Z.ltb_lt.
    destruct (Z.eq_dec (Qfloor p + 1) (2 * n + 1)) as [E|E]; [rewrite E, odd_2n1 in Eo; discriminate|lia].
Qed.

Section ATX.
  Variable s : Q.
  Hypothesis s_pos : 0 < s.

  Lemma round_at_eq_iff m x y : round_at m s x == round_at m s y <-> rsig m (x * s) = rsig m (y * s).
  Proof.
    split; [|apply (round_at_eq_rsig s s_pos)].
    intros H. destruct (Z.eq_dec (rsig m (x * s)) (rsig m (y * s))) as [E|E]; [exact E|].
    exfalso. exact (round_at_neq_rsig s s_pos m x y E H).
  Qed.

  Lemma div_lt_iff (r : Z) t : inject_Z r / s < t <-> inject_Z r < t * s.
  Proof.
    split; intros H.
    - apply Qnot_le_lt. intros H2. apply (Qle_shift_div_l _ _ _ s_pos) in H2. apply (Qlt_not_le _ _ H H2).
    - apply Qlt_shift_div_r; assumption.
  Qed.
  Lemma div_gt_iff (r : Z) t : t < inject_Z r / s <-> t * s < inject_Z r.
  Proof.
    split; intros H.
    - apply Qnot_le_lt. intros H2. apply (Qle_shift_div_r _ _ _ s_pos) in H2. apply (Qlt_not_le _ _ H H2).
    - apply Qlt_shift_div_l; assumption.
  Qed.

  Lemma tie_down_iff m t : negb (Qle_bool t (round_at m s t)) = true <-> inject_Z (rsig m (t * s)) < t * s.
  Proof.
    rewrite negb_true_iff, Qle_bool_false. rewrite (round_at_rsig s s_pos m t). apply div_lt_iff.
  Qed.
  Lemma tie_up_iff m t : negb (Qle_bool (round_at m s t) t) = true <-> t * s < inject_Z (rsig m (t * s)).
  Proof.
    rewrite negb_true_iff, Qle_bool_false. rewrite (round_at_rsig s s_pos m t). apply div_gt_iff.
  Qed.

  Theorem half_class_exact m lo hi : half_mode m = true -> lo < hi ->
    (((Qfloor (lo * (2 * s)) + 1 <=? Qceiling (hi * (2 * s)) - 1)%Z &&
      ((Qfloor (lo * (2 * s)) + 1 <? Qceiling (hi * (2 * s)) - 1)%Z || Z.odd (Qfloor (lo * (2 * s)) + 1)))
     || (is_odd_int (lo * (2 * s)) && negb (Qle_bool lo (round_at m s lo)))
     || (is_odd_int (hi * (2 * s)) && negb (Qle_bool (round_at m s hi) hi))) = true
    <-> ~ round_at m s lo == round_at m s hi.
  Proof.
    intros Hh Hlt.
    assert (Hab : lo * s < hi * s) by (apply Qmult_lt_compat_r; assumption).
    assert (El : lo * (2 * s) == 2 * (lo * s)) by ring. assert (Eh : hi * (2 * s) == 2 * (hi * s)) by ring.
    rewrite round_at_eq_iff, (rsig_half_differs_iff m _ _ Hh Hab).
    rewrite !orb_true_iff, odd_between_spec, !andb_true_iff, !is_odd_int_spec, tie_down_iff, tie_up_iff.
    split.
    - intros [[(n & H1 & H2)|[(n & H1) H2]]|[(n & H1) H2]].
      + left. exists n. rewrite <- El, <- Eh. split; assumption.
      + right. left. exists n. rewrite <- El. split; assumption.
      + right. right. exists n. rewrite <- Eh. split; assumption.
    - intros [(n & H1 & H2)|[(n & H1 & H2)|(n & H1 & H2)]].
      + left. left. exists n. rewrite El, Eh. split; assumption.
      + left. right. split; [exists n; rewrite El; exact H1|exact H2].
      + right. split; [exists n; rewrite Eh; exact H1|exact H2].
  Qed.
End ATX.

Theorem crosses_half_exact m d x v : half_mode m = true -> ~ x == v ->
  (crosses_half m d x v = true <-> ~ round_q m d x == round_q m d v).
Proof.
  intros Hh Hne. unfold crosses_half, half_inside, round_q. destruct (Qle_bool x v) eqn:E.
  - apply Qle_bool_iff in E. assert (x < v) as Hlt by (apply Qnot_le_lt; intros H; apply Hne; lra).
    exact (half_class_exact (pow10 d) (pow10_pos d) m x v Hh Hlt).
  - apply Qle_bool_false in E. rewrite (half_class_exact (pow10 d) (pow10_pos d) m v x Hh E).
    split; intros H H2; apply H; symmetry; exact H2.
Qed.

(* HALF modes: the library's two roundings give the wrong neighbour EXACTLY on dr_class_half *)
Theorem dr_class_half_exact prec m d x : half_mode m = true ->
  (dr_class_half prec m d x = true <-> ~ round_q m d (sig_round prec x) == round_q m d x).
Proof.
  intros Hh. unfold dr_class_half. cbv zeta. destruct (Qeq_bool (sig_round prec x) x) eqn:E; cbn [negb andb].
  - apply Qeq_bool_iff in E. split; [discriminate|]. intros H. exfalso. apply H, round_q_compat, E.
  - assert (Hne : ~ x == sig_round prec x).
    { intros H. symmetry in H. apply Qeq_bool_iff in H. congruence. }
    rewrite (crosses_half_exact m d x (sig_round prec x) Hh Hne). split; intros H H2; apply H; symmetry; exact H2.
Qed.

(* the exact class lies inside the geometric one *)
Lemma dr_class_half_sub prec m d x : half_mode m = true -> dr_class_half prec m d x = true -> dr_class prec m d x = true.
Proof.
  intros Hh H. destruct (dr_class prec m d x) eqn:E; [reflexivity|]. exfalso.
  apply (proj1 (dr_class_half_exact prec m d x Hh) H). apply dr_class_false_round, E.
Qed.

Theorem round_code_half_exact prec m d x r : half_mode m = true -> round_code prec true m d x = ROk r ->
  (r == round_q m d x <-> dr_class_half prec m d x = false).
Proof.
  intros Hh. unfold round_code. destruct (Qle_bool (pow10 prec) _); [discriminate|]. intros H. injection H as <-.
  pose proof (dr_class_half_exact prec m d x Hh) as Hx. destruct (dr_class_half prec m d x).
  - split; [|discriminate]. intros H. exfalso. apply (proj1 Hx eq_refl), H.
  - split; [reflexivity|]. intros _.
    destruct (Qeq_dec (round_q m d (sig_round prec x)) (round_q m d x)) as [H|H]; [exact H|].
    apply Hx in H. discriminate.
Qed.
