(* Thresholds and open lists (Model/Threshold.v). *)
From Coq Require Import ZArith QArith List Bool Arith Lia Permutation.
From VL Require Import Prelude.PyDict Model.GetNBest Model.QuotaDistributor Model.Threshold
     Proofs.Dict_proofs Proofs.GetNBest_proofs Proofs.QOrd.
Import ListNotations.

Lemma cmem_In c l : cmem c l = true <-> In c l.
Proof.
  induction l as [|x t IH]; simpl; [split; [discriminate|tauto]|].
  rewrite orb_true_iff, IH, ceqb_eq. split; intros [H|H]; auto.
Qed.

Lemma passes_spec ae v thr :
  passes ae v thr = true <-> (thr < v)%Q \/ (ae = true /\ (v == thr)%Q).
Proof.
  unfold passes. rewrite orb_true_iff, andb_true_iff, negb_true_iff, Qeq_bool_iff.
  split; intros [H|H]; auto.
  - left. apply Qnot_le_lt. intros Hle. apply Qle_bool_iff in Hle. congruence.
  - left. apply not_true_iff_false. intros Hle. apply Qle_bool_iff in Hle. apply (Qlt_not_le _ _ H Hle).
Qed.

Lemma in_sorted_filter (f : C * Q -> bool) votes c :
  In c (map fst (filter f (sort_desc Qle_bool votes))) <-> exists v, In (c, v) votes /\ f (c, v) = true.
Proof.
  rewrite in_map_iff. split.
  - intros ([c' v] & Hc & Hin). simpl in Hc. subst c'. apply filter_In in Hin. destruct Hin as [Hin Hf].
    exists v. split; [|exact Hf]. eapply Permutation_in; [apply sort_desc_perm|exact Hin].
  - intros (v & Hin & Hf). exists (c, v). split; [reflexivity|]. apply filter_In. split; [|exact Hf].
    eapply Permutation_in; [apply Permutation_sym, sort_desc_perm|exact Hin].
Qed.

Theorem absolute_spec thr ae votes c :
  In c (sel_eval (SAbs thr ae) votes) <->
  exists v, In (c, v) votes /\ ((thr < v)%Q \/ (ae = true /\ (v == thr)%Q)).
Proof.
  simpl. rewrite in_sorted_filter. split; intros (v & Hin & H); exists v; (split; [exact Hin|]);
    simpl in *; apply passes_spec; exact H.
Qed.

Theorem relative_spec thr ae votes c :
  In c (sel_eval (SRel thr ae) votes) <->
  exists v, In (c, v) votes /\
    ((thr < v / qsumv votes)%Q \/ (ae = true /\ (v / qsumv votes == thr)%Q)).
Proof.
  simpl. rewrite in_sorted_filter. split; intros (v & Hin & H); exists v; (split; [exact Hin|]);
    simpl in *; apply passes_spec; exact H.
Qed.

Lemma dedup_In c l : In c (dedup l) <-> In c l.
Proof.
  induction l as [|x t IH]; simpl; [tauto|].
  destruct (cmem x t) eqn:E.
  - rewrite IH. apply cmem_In in E. split; [tauto|]. intros [->|H]; assumption.
  - simpl. rewrite IH. tauto.
Qed.

Lemma dedup_NoDup l : NoDup (dedup l).
Proof.
  induction l as [|x t IH]; simpl; [constructor|].
  destruct (cmem x t) eqn:E; [exact IH|]. constructor; [|exact IH].
  rewrite dedup_In. intros H. apply cmem_In in H. congruence.
Qed.

Theorem alternative_spec parts votes c :
  In c (sel_eval (SAlt parts) votes) <-> exists p, In p parts /\ In c (sel_eval p votes).
Proof.
  simpl. rewrite dedup_In, in_flat_map. tauto.
Qed.

(* ---------------------------------------------------------------- open list *)
Lemma filter_ext_in' {X} (f g : X -> bool) l : (forall x, In x l -> f x = g x) -> filter f l = filter g l.
Proof.
  induction l as [|x t IH]; simpl; intros H; [reflexivity|].
  rewrite (H x (or_introl eq_refl)), IH; [reflexivity|]. intros y Hy. apply H. right. exact Hy.
Qed.

Lemma cmem_app c a b : cmem c (a ++ b) = cmem c a || cmem c b.
Proof. induction a as [|x a IH]; simpl; [reflexivity|]. rewrite IH, orb_assoc. reflexivity. Qed.

Theorem fill_spec n lst : NoDup lst -> forall elected, (length elected <= n)%nat ->
  fill n elected lst =
  elected ++ firstn (n - length elected) (filter (fun c => negb (cmem c elected)) lst).
Proof.
  induction 1 as [|c t Hc Hnd IH]; intros elected Hle; simpl.
  - rewrite firstn_nil, app_nil_r. reflexivity.
  - destruct (Nat.eqb (length elected) n) eqn:E.
    + apply Nat.eqb_eq in E. rewrite E, Nat.sub_diag. simpl. rewrite app_nil_r. reflexivity.
    + apply Nat.eqb_neq in E. destruct (cmem c elected) eqn:Em; simpl.
      * apply IH. exact Hle.
      * rewrite IH by (rewrite app_length; simpl; lia).
        rewrite app_length. simpl length.
        replace (n - length elected)%nat with (S (n - (length elected + 1)))%nat by lia.
        simpl. rewrite <- app_assoc. simpl. f_equal. f_equal. f_equal.
        apply filter_ext_in'. intros x Hx. rewrite cmem_app. simpl. rewrite orb_false_r.
        assert (ceqb x c = false) as ->; [|rewrite orb_false_r; reflexivity].
        apply ceqb_neq. intros ->. exact (Hc Hx).
  Qed.

Lemma filter_split_length {X} (f : X -> bool) l :
  (length (filter f l) + length (filter (fun x => negb (f x)) l) = length l)%nat.
Proof. induction l as [|x t IH]; simpl; [reflexivity|]. destruct (f x); simpl; lia. Qed.

Lemma filter_mem_length (E lst : list C) : NoDup E -> NoDup lst -> incl E lst ->
  length (filter (fun c => cmem c E) lst) = length E.
Proof.
  intros HE Hl Hin. apply Permutation_length. apply NoDup_Permutation.
  - apply NoDup_filter. exact Hl.
  - exact HE.
  - intros x. rewrite filter_In, cmem_In. split; [tauto|]. intros H. split; [apply Hin, H|exact H].
Qed.

Lemma nodup_app_intro {X} (a b : list X) :
  NoDup a -> NoDup b -> (forall x, In x a -> ~ In x b) -> NoDup (a ++ b).
Proof.
  induction 1 as [|x a Hx Ha IH]; simpl; intros Hb Hd; [exact Hb|].
  constructor.
  - intros Hin. apply in_app_or in Hin. destruct Hin as [H|H]; [exact (Hx H)|].
    exact (Hd x (or_introl eq_refl) H).
  - apply IH; [exact Hb|]. intros y Hy. apply Hd. right. exact Hy.
Qed.

Lemma firstn_incl {X} k (l : list X) : incl (firstn k l) l.
Proof.
  revert k. induction l as [|x t IH]; intros k; destruct k as [|k]; simpl; intros z Hz.
  - destruct Hz.
  - destruct Hz.
  - destruct Hz.
  - destruct Hz as [->|Hz]; [left; reflexivity|right; apply (IH k), Hz].
Qed.

Lemma firstn_NoDup {X} k (l : list X) : NoDup l -> NoDup (firstn k l).
Proof.
  revert k. induction l as [|x t IH]; intros [|k] H; simpl; try constructor.
  - inversion H as [|? ? Hx Hn]; subst. intros Hin. apply Hx. apply (firstn_incl k t), Hin.
  - inversion H; subst. apply IH. assumption.
Qed.

(* with enough list members the fill-up yields exactly n distinct members, the
   already elected (jumpers) first, then list members in list order *)
Theorem fill_count n lst elected : NoDup lst -> NoDup elected -> incl elected lst ->
  (length elected <= n <= length lst)%nat ->
  length (fill n elected lst) = n /\ NoDup (fill n elected lst) /\ incl (fill n elected lst) lst.
Proof.
  intros Hl He Hin [H1 H2]. rewrite (fill_spec n lst Hl elected H1).
  set (rest := filter (fun c => negb (cmem c elected)) lst).
  assert (Hrl : (length rest = length lst - length elected)%nat).
  { pose proof (filter_split_length (fun c => cmem c elected) lst) as H.
    rewrite (filter_mem_length elected lst He Hl Hin) in H. unfold rest. lia. }
  split; [|split].
  - rewrite app_length, firstn_length. lia.
  - apply nodup_app_intro; [exact He|apply firstn_NoDup, NoDup_filter, Hl|].
    intros x Hx Hf. apply firstn_incl in Hf. unfold rest in Hf. apply filter_In in Hf.
    destruct Hf as [_ Hf]. apply negb_true_iff in Hf. apply cmem_In in Hx. congruence.
  - intros x Hx. apply in_app_or in Hx. destruct Hx as [Hx|Hx]; [apply Hin, Hx|].
    apply firstn_incl in Hx. unfold rest in Hx. apply filter_In in Hx. tauto.
Qed.

(* nobody is passed over by a lower-listed colleague who did not jump *)
Theorem fill_no_leapfrog n elected pre a mid b post :
  NoDup (pre ++ a :: mid ++ b :: post) -> (length elected <= n)%nat ->
  ~ In a elected -> ~ In b elected ->
  In b (fill n elected (pre ++ a :: mid ++ b :: post)) ->
  In a (fill n elected (pre ++ a :: mid ++ b :: post)).
Proof.
  intros Hnd Hle Ha Hb. rewrite (fill_spec n _ Hnd elected Hle).
  set (f := fun c => negb (cmem c elected)).
  rewrite !in_app_iff. intros [H|H]; [contradiction|]. right.
  assert (Hfa : f a = true) by (unfold f; apply negb_true_iff, not_true_iff_false; rewrite cmem_In; exact Ha).
  assert (Hfb : f b = true) by (unfold f; apply negb_true_iff, not_true_iff_false; rewrite cmem_In; exact Hb).
  rewrite filter_app in *. simpl in *. rewrite Hfa in *. rewrite filter_app in *. simpl in *. rewrite Hfb in *.
  set (k := (n - length elected)%nat) in *.
  set (P := filter f pre) in *. set (M := filter f mid) in *. set (R := filter f post) in *.
  (* position argument: b sits behind a in the filtered list; a prefix that holds b holds a *)
  assert (Hnb : ~ In b (P ++ a :: M)).
  { intros Hin.
    assert (Hin2 : In b (pre ++ a :: mid)).
    { apply in_app_or in Hin. apply in_or_app. destruct Hin as [Hin|[->|Hin]].
      - left. unfold P in Hin. apply filter_In in Hin. tauto.
      - right. left. reflexivity.
      - right. right. unfold M in Hin. apply filter_In in Hin. tauto. }
    replace (pre ++ a :: mid ++ b :: post) with ((pre ++ a :: mid) ++ b :: post) in Hnd
      by (rewrite <- app_assoc; reflexivity).
    apply NoDup_remove_2 in Hnd. apply Hnd. apply in_or_app. left. exact Hin2. }
  replace (P ++ a :: M ++ b :: R) with ((P ++ a :: M) ++ b :: R) in * by (rewrite <- app_assoc; reflexivity).
  rewrite firstn_app in H. apply in_app_or in H. destruct H as [H|H].
  - exfalso. apply Hnb. apply (firstn_incl k), H.
  - (* then k exceeds the length of the prefix, so the whole prefix (with a) is taken *)
    destruct (k - length (P ++ a :: M))%nat eqn:Ek; [simpl in H; destruct H|].
    rewrite firstn_app. apply in_or_app. left.
    rewrite firstn_all2 by lia. apply in_or_app. right. left. reflexivity.
Qed.

(* ---- the whole evaluator *)
Lemma sort_desc_keys (l : list (C * Q)) : Permutation (map fst (sort_desc Qle_bool l)) (map fst l).
Proof. apply Permutation_map, sort_desc_perm. Qed.

Lemma filter_keys_NoDup (f : C * Q -> bool) (l : list (C * Q)) :
  NoDup (map fst l) -> NoDup (map fst (filter f l)).
Proof.
  induction l as [|x t IH]; simpl; intros H; [constructor|].
  inversion H as [|? ? Hx Hn]; subst. destruct (f x); simpl; [|apply IH, Hn].
  constructor; [|apply IH, Hn]. intros Hin. apply Hx.
  apply in_map_iff in Hin. destruct Hin as (y & Hy & Hin). apply filter_In in Hin.
  apply in_map_iff. exists y. tauto.
Qed.

Lemma jumping_keys cfg votes thr : NoDup (map fst votes) ->
  NoDup (map fst (ol_jumping cfg votes thr)) /\ incl (map fst (ol_jumping cfg votes thr)) (map fst votes).
Proof.
  intros H. unfold ol_jumping. split.
  - apply filter_keys_NoDup. eapply Permutation_NoDup; [apply Permutation_sym, sort_desc_keys|exact H].
  - intros c Hc. apply in_map_iff in Hc. destruct Hc as (y & <- & Hy). apply filter_In in Hy.
    eapply Permutation_in; [apply sort_desc_keys|]. apply in_map. tauto.
Qed.

Lemma firstn_map {X Y} (f : X -> Y) k l : firstn k (map f l) = map f (firstn k l).
Proof. revert k. induction l as [|x t IH]; intros [|k]; simpl; try reflexivity. rewrite IH. reflexivity. Qed.

Lemma sort_asc_nat_perm {X} (l : list (X * nat)) : Permutation (sort_asc Nat.leb l) l.
Proof.
  induction l as [|x t IH]; simpl; [reflexivity|].
  assert (H : forall s, Permutation (insert_asc Nat.leb x s) (x :: s)).
  { induction s as [|y s IHs]; simpl; [reflexivity|].
    destruct (Nat.leb (snd x) (snd y)); [reflexivity|]. rewrite IHs. apply perm_swap. }
  rewrite H. constructor. exact IH.
Qed.

(* exactly n distinct list members are seated *)
Theorem openlist_count cfg votes n lst :
  NoDup lst -> NoDup (map fst votes) -> incl (map fst votes) lst -> (1 <= n <= length lst)%nat ->
  let r := openlist_eval cfg votes n lst in
  length r = n /\ NoDup r /\ incl r lst.
Proof.
  intros Hl Hv Hin [Hn1 Hn2] r. subst r. unfold openlist_eval.
  destruct (ol_threshold cfg (qsumv votes) (Z.of_nat n)) as [thr|].
  2:{ split; [rewrite firstn_length; lia|]. split; [apply firstn_NoDup, Hl|apply firstn_incl]. }
  destruct (jumping_keys cfg votes thr Hv) as [Hjn Hji].
  set (jumping := ol_jumping cfg votes thr) in *.
  destruct (Nat.ltb n (length jumping)) eqn:E.
  - apply Nat.ltb_lt in E. destruct (ol_list_precedence cfg).
    + set (by_list := sort_asc Nat.leb (map (fun cv : C * Q => (cv, index_of (fst cv) lst)) jumping)).
      assert (Hp : Permutation (map fst by_list) jumping).
      { unfold by_list. rewrite sort_asc_nat_perm. rewrite map_map. simpl. rewrite map_id. reflexivity. }
      set (kept := map fst (firstn n by_list)).
      assert (Hk : kept = firstn n (map fst by_list)) by (unfold kept; rewrite firstn_map; reflexivity).
      assert (Hkn : NoDup (map fst kept)).
      { rewrite Hk, <- firstn_map. apply firstn_NoDup.
        eapply Permutation_NoDup; [apply Permutation_map, Permutation_sym, Hp|exact Hjn]. }
      assert (Hki : incl (map fst kept) (map fst jumping)).
      { rewrite Hk, <- firstn_map. intros x Hx. apply firstn_incl in Hx.
        eapply Permutation_in; [apply Permutation_map, Hp|exact Hx]. }
      split; [|split].
      * rewrite map_length, sort_desc_length. unfold kept. rewrite map_length, firstn_length.
        assert (length by_list = length jumping) by (rewrite <- (Permutation_length Hp), map_length; reflexivity). lia.
      * eapply Permutation_NoDup; [apply Permutation_sym, sort_desc_keys|exact Hkn].
      * intros x Hx. apply Hin, Hji, Hki. eapply Permutation_in; [apply sort_desc_keys|exact Hx].
    + split; [|split].
      * rewrite map_length, firstn_length. lia.
      * rewrite <- firstn_map. apply firstn_NoDup, Hjn.
      * rewrite <- firstn_map. intros x Hx. apply Hin, Hji. apply firstn_incl in Hx. exact Hx.
  - apply Nat.ltb_ge in E. apply fill_count; [exact Hl|exact Hjn| |].
    + intros x Hx. apply Hin, Hji, Hx.
    + rewrite map_length. lia.
Qed.

(* when the jumpers fit: jumpers first, in non-increasing order of votes, then the list *)
Theorem openlist_structure cfg votes n lst thr :
  NoDup lst -> ol_threshold cfg (qsumv votes) (Z.of_nat n) = Some thr ->
  (length (ol_jumping cfg votes thr) <= n)%nat ->
  let jumping := ol_jumping cfg votes thr in
  openlist_eval cfg votes n lst =
    map fst jumping ++ firstn (n - length jumping) (filter (fun c => negb (cmem c (map fst jumping))) lst)
  /\ (forall c, In c (map fst jumping) <->
        exists v, In (c, v) votes /\ ((thr < v)%Q \/ (ol_accept_equal cfg = true /\ (v == thr)%Q)))
  /\ @sorted_desc C Q Qle_bool jumping.
Proof.
  intros Hl Ht Hle jumping. unfold openlist_eval. rewrite Ht. fold jumping.
  assert (Nat.ltb n (length jumping) = false) as -> by (apply Nat.ltb_ge; exact Hle).
  split; [|split].
  - rewrite fill_spec; [rewrite map_length; reflexivity|exact Hl|rewrite map_length; exact Hle].
  - intros c. unfold jumping, ol_jumping. rewrite in_sorted_filter.
    split; intros (v & Hin & H); exists v; (split; [exact Hin|]); simpl in *; apply passes_spec; exact H.
  - unfold jumping, ol_jumping.
    pose proof (sort_desc_sorted Qle_bool Qle_bool_total Qle_bool_trans votes) as Hs.
    revert Hs. generalize (sort_desc Qle_bool votes). intros s Hs.
    induction Hs as [|x t Hs IH Hall]; simpl; [constructor|].
    destruct (passes _ _ _); [|exact IH]. constructor; [exact IH|].
    apply Forall_forall. intros y Hy. apply filter_In in Hy. rewrite Forall_forall in Hall. apply Hall. tauto.
Qed.

(* ---------------------------------------------------------------- bracketers (C16) *)
Definition bracket_pick (evals : list (Z * option sel)) (default : option sel) (b : Z) : option sel :=
  match find (fun e => Z.eqb (fst e) b) evals with Some e => snd e | None => default end.

(* a candidate passes a bracketer exactly when the selector configured for its bracket value passes it
   (no selector for that bracket: it passes); the result lists the passing candidates by descending votes *)
Theorem bracket_eval_spec evals default bracket votes c :
  In c (bracket_eval evals default bracket votes) <->
  exists v, In (c, v) votes /\
    match bracket_pick evals default (dget_or bracket c 1%Z) with
    | Some s => In c (sel_eval s votes)
    | None => True
    end.
Proof.
  unfold bracket_eval, bracket_pick. rewrite in_map_iff.
  set (pk := match find (fun e : Z * option sel => fst e =? dget_or bracket c 1)%Z evals with Some e => snd e | None => default end).
  split.
  - intros ([c' v] & Hf & Hin). simpl in Hf. subst c'. apply filter_In in Hin. destruct Hin as [Hin Hp].
    exists v. split; [apply (Permutation_in _ (sort_desc_perm Qle_bool votes)); exact Hin|].
    cbn [fst] in Hp. fold pk in Hp. destruct pk; [apply cmem_In; exact Hp|exact I].
  - intros (v & Hin & Hp). exists (c, v). split; [reflexivity|]. apply filter_In. split.
    + apply (Permutation_in _ (Permutation_sym (sort_desc_perm Qle_bool votes))). exact Hin.
    + cbn [fst]. fold pk. destruct pk; [apply cmem_In; exact Hp|reflexivity].
Qed.
