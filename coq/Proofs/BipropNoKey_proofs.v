(* Lemmas for property C07, part 9: NO KeyError.  From a state that satisfies the loop invariant and in which every district
   has a row in the seat matrix, with a target dictionary without foreign keys, an iteration of the whole-loop model
   (Model/BipropLoop.v) never stops with [BP_key_error]:
     1. the labelling search only reads rows of districts (quotients[d], result[d]);
     2. the label dictionaries point backwards: the party that labelled a district was itself labelled from a district that
        comes EARLIER in the district dictionary (rank = position), a start district is over-represented - so the path walk of
        _augment_result pops every set once, ends at an over-represented district and visits no district twice;
     3. along that path every cell that loses a seat is stored (it holds at least one seat), so the transfer goes through.
   The initial solution has a row for every district and placing the columns never misses one. *)
From Coq Require Import ZArith QArith List Bool Lia Lqa Arith Permutation.
From VL Require Import Prelude.PyDict Model.Divisor Model.HighestAverages Model.Biprop Model.BipropLoop
     Proofs.Dict_proofs Proofs.Divisor_proofs Proofs.HA_proofs Proofs.HAMinmax_proofs Proofs.Biprop_proofs Proofs.Biprop_steps
     Proofs.BipropLoop_proofs Proofs.BipropInit_proofs Proofs.BipropProgress_proofs Proofs.BipropTerm_proofs Proofs.BipropFlow_proofs.
Import ListNotations.
Open Scope Z_scope.

(* ------------------------------------------------------------------ every district has a row *)
Definition rows_ok (ds : list C) (res : mat) : Prop := forall i, In i ds -> exists row, dget res i = Some row.

Lemma dset_row_keeps (m : mat) i row ds : rows_ok ds m -> rows_ok ds (dset m i row).
Proof.
  intros H i' Hi'. rewrite dget_dset. destruct (ceqb i' i); [exists row; reflexivity|apply H, Hi'].
Qed.
Lemma cell_incr_rows ds m i j m' : rows_ok ds m -> cell_incr m i j = Some m' -> rows_ok ds m'.
Proof. unfold cell_incr. intros H. destruct (dget m i); [|discriminate]. intros [= <-]. apply dset_row_keeps, H. Qed.
Lemma cell_decr_rows ds m i j m' : rows_ok ds m -> cell_decr m i j = Some m' -> rows_ok ds m'.
Proof.
  unfold cell_decr. intros H. destruct (dget m i) as [row|]; [|discriminate]. destruct (dget row j); [|discriminate].
  intros [= <-]. apply dset_row_keeps, H.
Qed.
Lemma cell_set_rows ds m i j k m' : rows_ok ds m -> cell_set m i j k = Some m' -> rows_ok ds m'.
Proof. unfold cell_set. intros H. destruct (dget m i); [|discriminate]. intros [= <-]. apply dset_row_keeps, H. Qed.
Lemma augment_rows ds : forall hops m cur m', rows_ok ds m -> augment m cur hops = Some m' -> rows_ok ds m'.
Proof.
  induction hops as [|[p d'] t IH]; intros m cur m' H Ha; simpl in Ha; [injection Ha as <-; exact H|].
  destruct (cell_incr m cur p) as [m1|] eqn:E1; [|discriminate]. destruct (cell_decr m1 d' p) as [m2|] eqn:E2; [|discriminate].
  apply (IH m2 d' m'); [|exact Ha]. apply (cell_decr_rows ds m1 d' p m2); [|exact E2]. apply (cell_incr_rows ds m cur p m1 H E1).
Qed.

(* ------------------------------------------------------------------ the sweeps do not fail when the rows they read exist *)
Section GSome.
  Context {V : Type}.
  Variables avail test : C -> C -> bool.
  Variable val : C -> V.
  Lemma ginner_some o inner : (forall k, In k inner -> avail o k = true) ->
    forall L, exists L', fold_left (gstep avail test val o) inner (Some L) = Some L'.
  Proof.
    induction inner as [|k t IH]; intros H L; simpl; [exists L; reflexivity|].
    rewrite (H k (or_introl eq_refl)).
    destruct (dmem L k); [apply IH; intros x Hx; apply H; right; exact Hx|].
    destruct (test o k); apply IH; intros x Hx; apply H; right; exact Hx.
  Qed.
  Lemma gsweep_some inner : forall outer, (forall o k, In o outer -> In k inner -> avail o k = true) ->
    forall L, exists L', gsweep avail test val outer inner (Some L) = Some L'.
  Proof.
    unfold gsweep. induction outer as [|o t IH]; intros H L; simpl; [exists L; reflexivity|].
    destruct (ginner_some o inner (fun k Hk => H o k (or_introl eq_refl) Hk) L) as (L1 & E1). rewrite E1.
    apply IH. intros o' k Ho Hk. apply H; [right; exact Ho|exact Hk].
  Qed.
End GSome.

(* ------------------------------------------------------------------ _labeled: no KeyError, labels point backwards *)
Section LabQ.
  Variable q : Q.
  Variable quots : qmat.
  Variable res : mat.
  Variables sp dl0 under over : list C.
  Hypothesis Hover : NoDup over.
  Hypothesis Hav : forall i, In i dl0 \/ In i over -> availd quots res i = true.

  Record QInv (LD : LDt) (LP : LPt) : Prop := {
    q_col : forall p i, dget LP p = Some i -> In i (map fst LD);
    q_row : forall i p, dget LD i = Some (Some p) ->
              exists i'', dget LP p = Some i'' /\ (idx i'' (map fst LD) < idx i (map fst LD))%nat;
    q_root : forall i, dget LD i = Some None -> In i over
  }.

  Lemma QInv_init : QInv (LD0 over) [].
  Proof.
    constructor.
    - intros p i H. discriminate.
    - intros i p H. apply dget_In in H. unfold LD0 in H. apply in_map_iff in H. destruct H as (x & E & _). discriminate.
    - intros i H. apply dget_In_key in H. rewrite LD0_keys in H. exact H.
  Qed.

  Lemma LD_keys LD LP : LInv q quots res sp dl0 over LD LP -> forall i, In i (map fst LD) -> In i dl0 \/ In i over.
  Proof.
    intros I i Hi. destruct (li_prefix _ _ _ _ _ _ _ _ I) as (addD & E & Hk). rewrite E, map_app, LD0_keys in Hi.
    apply in_app_or in Hi. destruct Hi as [Hi|Hi]; [right; exact Hi|left].
    apply in_map_iff in Hi. destruct Hi as ([i0 v] & <- & Hin). apply (Hk i0 v Hin).
  Qed.

  Lemma round_some LD LP : LInv q quots res sp dl0 over LD LP ->
    exists LP1 LD1,
      fold_left (fun acc i => fold_left (down_scan q quots res i) sp acc) (map fst LD) (Some LP) = Some LP1 /\
      fold_left (fun acc j => fold_left (up_scan q quots res j) dl0 acc) (map fst LP1) (Some LD) = Some LD1.
  Proof.
    intros I.
    destruct (gsweep_some (fun o _ => availd quots res o) (dtest q quots res) (fun o => o) sp (map fst LD)
                (fun o k Ho _ => Hav o (LD_keys LD LP I o Ho)) LP) as (LP1 & E1).
    destruct (gsweep_some (fun _ k => availd quots res k) (fun o k => utest q quots res k o) (fun o => Some o) dl0 (map fst LP1)
                (fun o k _ Hk => Hav k (or_introl Hk)) LD) as (LD1 & E2).
    exists LP1, LD1. split; [rewrite down_sweep_g; exact E1|rewrite up_sweep_g; exact E2].
  Qed.

  Lemma round_q LD LP LP1 LD1 : QInv LD LP ->
    fold_left (fun acc i => fold_left (down_scan q quots res i) sp acc) (map fst LD) (Some LP) = Some LP1 ->
    fold_left (fun acc j => fold_left (up_scan q quots res j) dl0 acc) (map fst LP1) (Some LD) = Some LD1 ->
    QInv LD1 LP1.
  Proof.
    intros Q H1 H2. rewrite down_sweep_g in H1. rewrite up_sweep_g in H2.
    destruct (gsweep_spec _ _ _ sp (map fst LD) LP LP1 H1) as (aP & EP & AP & _).
    destruct (gsweep_spec _ _ _ dl0 (map fst LP1) LD LD1 H2) as (aD & ED & AD & _).
    subst LP1 LD1.
    assert (Hcol : forall p i, dget (LP ++ aP) p = Some i -> In i (map fst LD)).
    { intros p i H. destruct (in_dec Pos.eq_dec p (map fst LP)) as [Hp|Hp].
      - rewrite (dget_app_l LP aP p Hp) in H. apply (q_col _ _ Q p i H).
      - rewrite (dget_app_r LP aP p Hp) in H. apply dget_In in H. destruct (AP p i H) as (_ & o & Ho & -> & _). exact Ho. }
    constructor.
    - intros p i H. rewrite map_app. apply in_or_app. left. apply (Hcol p i H).
    - intros i p H. destruct (in_dec Pos.eq_dec i (map fst LD)) as [Hi|Hi].
      + rewrite (dget_app_l LD aD i Hi) in H. destruct (q_row _ _ Q i p H) as (i'' & Hd & Hlt).
        exists i''. split; [rewrite (dget_app_l LP aP p (dget_In_key _ _ _ Hd)); exact Hd|].
        rewrite map_app, !idx_app_l; [exact Hlt|exact Hi|apply (q_col _ _ Q p i'' Hd)].
      + rewrite (dget_app_r LD aD i Hi) in H. apply dget_In in H. destruct (AD i (Some p) H) as (_ & o & Ho & Ev & _).
        injection Ev as <-. apply dmem_keys in Ho. unfold dmem in Ho. destruct (dget (LP ++ aP) p) as [i''|] eqn:Ed; [|discriminate].
        exists i''. split; [reflexivity|]. pose proof (Hcol p i'' Ed) as Hi''.
        rewrite map_app, (idx_app_l i'' _ _ Hi''). pose proof (idx_lt i'' _ Hi''). pose proof (idx_app_r i (map fst LD) (map fst aD) Hi). lia.
    - intros i H. destruct (in_dec Pos.eq_dec i (map fst LD)) as [Hi|Hi].
      + rewrite (dget_app_l LD aD i Hi) in H. apply (q_root _ _ Q i H).
      + rewrite (dget_app_r LD aD i Hi) in H. apply dget_In in H. destruct (AD i None H) as (_ & o & _ & Ev & _). discriminate.
  Qed.

  Lemma lab_loop_q : forall fuel LD LP LD' LP', LInv q quots res sp dl0 over LD LP -> QInv LD LP ->
    lab_loop q fuel under sp dl0 quots res LD LP = Lab LD' LP' -> QInv LD' LP'.
  Proof.
    induction fuel as [|f IH]; intros LD LP LD' LP' I Q H; simpl in H; [discriminate|].
    destruct (fold_left (fun acc i => fold_left (down_scan q quots res i) sp acc) (map fst LD) (Some LP)) as [LP1|] eqn:E1; [|discriminate].
    destruct (fold_left (fun acc j => fold_left (up_scan q quots res j) dl0 acc) (map fst LP1) (Some LD)) as [LD1|] eqn:E2; [|discriminate].
    pose proof (round_q LD LP LP1 LD1 Q E1 E2) as Q1.
    destruct (round_spec q quots res sp dl0 over LD LP LP1 LD1 I E1 E2) as (I1 & _).
    destruct (existsb (fun i => cmem i under) (map fst LD1)); [injection H as <- <-; exact Q1|].
    destruct (Nat.eqb (length LD1 + length LP1) (length LD + length LP)); [injection H as <- <-; exact Q1|].
    apply (IH LD1 LP1 LD' LP' I1 Q1 H).
  Qed.

  Lemma lab_loop_nokey : forall fuel LD LP, LInv q quots res sp dl0 over LD LP ->
    lab_loop q fuel under sp dl0 quots res LD LP <> LabKeyError.
  Proof.
    induction fuel as [|f IH]; intros LD LP I; simpl; [discriminate|].
    destruct (round_some LD LP I) as (LP1 & LD1 & E1 & E2). rewrite E1, E2.
    destruct (round_spec q quots res sp dl0 over LD LP LP1 LD1 I E1 E2) as (I1 & _).
    destruct (existsb (fun i => cmem i under) (map fst LD1)); [discriminate|].
    destruct (Nat.eqb (length LD1 + length LP1) (length LD + length LP)); [discriminate|]. apply (IH LD1 LP1 I1).
  Qed.

  (* ---------------------------------------------------------------- the path walk *)
  (* the path: every hop goes to a district of lower rank *)
  Fixpoint desc (LD : LDt) (LP : LPt) (cur : C) (hops : list (C * C)) : Prop :=
    match hops with
    | [] => True
    | (p, d') :: t => dget LD cur = Some (Some p) /\ dget LP p = Some d' /\
                      (idx d' (map fst LD) < idx cur (map fst LD))%nat /\ desc LD LP d' t
    end.

  Lemma walk_ok LD LP : QInv LD LP -> forall fuel cur seenD seenP,
    In cur (map fst LD) -> (idx cur (map fst LD) < fuel)%nat ->
    (forall x, In x seenD -> (idx cur (map fst LD) < idx x (map fst LD))%nat) ->
    (forall p', In p' seenP -> exists i', dget LP p' = Some i' /\ (idx cur (map fst LD) <= idx i' (map fst LD))%nat) ->
    exists hops, walk fuel LD LP over cur seenD seenP = WalkDone hops /\ desc LD LP cur hops.
  Proof.
    intros Q. induction fuel as [|f IH]; intros cur seenD seenP Hc Hf HsD HsP; [lia|]. cbn [walk].
    destruct (cmem cur over) eqn:Eo; [exists []; split; [reflexivity|exact I]|].
    assert (EsD : cmem cur seenD = false).
    { destruct (cmem cur seenD) eqn:E; [|reflexivity]. apply cmem_In in E. specialize (HsD cur E). lia. }
    rewrite EsD.
    assert (Hd : exists x, dget LD cur = Some x).
    { apply dmem_keys in Hc. unfold dmem in Hc. destruct (dget LD cur) as [x|]; [exists x; reflexivity|discriminate]. }
    destruct Hd as ([p|] & Hd); rewrite Hd.
    - destruct (q_row _ _ Q cur p Hd) as (i'' & Hp & Hlt).
      assert (EsP : cmem p seenP = false).
      { destruct (cmem p seenP) eqn:E; [|reflexivity]. apply cmem_In in E. destruct (HsP p E) as (i' & Hi' & Hle).
        rewrite Hp in Hi'. injection Hi' as <-. lia. }
      rewrite EsP, Hp.
      destruct (IH i'' (cur :: seenD) (p :: seenP)) as (hops & Ew & Hdesc).
      + apply (q_col _ _ Q p i'' Hp).
      + lia.
      + intros x [<-|Hx]; [exact Hlt|]. specialize (HsD x Hx). lia.
      + intros p' [<-|Hp']; [exists i''; split; [exact Hp|lia]|]. destruct (HsP p' Hp') as (i' & Hi' & Hle). exists i'. split; [exact Hi'|lia].
      + rewrite Ew. exists ((p, i'') :: hops). split; [reflexivity|]. cbn [desc]. auto.
    - exfalso. pose proof (q_root _ _ Q cur Hd) as Hin. apply cmem_In in Hin. congruence.
  Qed.

  Lemma desc_lower LD LP : forall hops cur, desc LD LP cur hops ->
    forall p d', In (p, d') hops -> (idx d' (map fst LD) < idx cur (map fst LD))%nat.
  Proof.
    induction hops as [|[p0 d0] t IH]; intros cur H p d' Hin; [destruct Hin|].
    cbn [desc] in H. destruct H as (_ & _ & Hlt & Ht). destruct Hin as [E|Hin]; [injection E as <- <-; exact Hlt|].
    specialize (IH d0 Ht p d' Hin). lia.
  Qed.
End LabQ.

(* ------------------------------------------------------------------ the transfer along the path goes through *)
Lemma idx_neq (l : list C) a b : (idx a l < idx b l)%nat -> a <> b.
Proof. intros H ->. lia. Qed.

Section AugOk.
  Variable q : Q.
  Variable quots : qmat.
  Variable res : mat.
  Variable sp : list C.
  Variable LD : LDt.
  Variable LP : LPt.
  Hypothesis HP : LPok q quots res sp LP.

  Lemma augment_ok : forall hops mcur cur, desc LD LP cur hops ->
    (exists row, dget mcur cur = Some row) ->
    (forall p d', In (p, d') hops -> dget mcur d' = dget res d') ->
    exists m', augment mcur cur hops = Some m'.
  Proof.
    induction hops as [|[p d'] t IH]; intros mcur cur Hdesc (row & Hrow) Hag; [exists mcur; reflexivity|].
    cbn [desc] in Hdesc. destruct Hdesc as (HLD & HLP & Hlt & Ht). cbn [augment].
    unfold cell_incr. rewrite Hrow.
    set (m1 := dset mcur cur (dset row p (dget_or row p 0 + 1))).
    assert (Hne : d' <> cur) by (apply (idx_neq (map fst LD)); exact Hlt).
    assert (E1 : dget m1 d' = dget res d').
    { unfold m1. rewrite dget_dset. assert (ceqb d' cur = false) as -> by (apply ceqb_neq; exact Hne). apply (Hag p d'). left. reflexivity. }
    destruct (HP p d' (dget_In _ _ _ HLP)) as (_ & qrow & rrow & _ & Er & Hdown).
    apply downgradable_spec in Hdown. destruct Hdown as [_ Hs1].
    assert (Es : exists s, dget rrow p = Some s).
    { unfold dget_or in Hs1. destruct (dget rrow p) as [s|]; [exists s; reflexivity|lia]. }
    destruct Es as (s & Es).
    unfold cell_decr. rewrite E1, Er, Es.
    set (m2 := dset m1 d' (if s - 1 =? 0 then dremove rrow p else dset rrow p (s - 1))).
    apply (IH m2 d' Ht).
    - unfold m2. rewrite dget_dset, ceqb_refl. eexists. reflexivity.
    - intros p2 d2 Hin. pose proof (desc_lower LD LP t d' Ht p2 d2 Hin) as Hlt2.
      assert (Hn1 : d2 <> d') by (apply (idx_neq (map fst LD)); exact Hlt2).
      assert (Hn2 : d2 <> cur) by (apply (idx_neq (map fst LD)); lia).
      unfold m2, m1. rewrite !dget_dset.
      assert (ceqb d2 d' = false) as -> by (apply ceqb_neq; exact Hn1).
      assert (ceqb d2 cur = false) as -> by (apply ceqb_neq; exact Hn2).
      apply (Hag p2 d2). right. exact Hin.
  Qed.
End AugOk.

(* ------------------------------------------------------------------ an iteration never raises KeyError *)
Section StepNoKey.
  Variable q : Q.
  Variable votes : mat.
  Hypothesis Hwf : wf_votes votes.
  Variable tgt : list (C * Z).
  Variable dorder : list C.
  Hypothesis Hdo : NoDup dorder.
  Hypothesis Hdo2 : incl dorder (districts votes).
  Notation ds := (districts votes).
  Notation ps := (parties votes).
  Notation quots s := (calc_quots votes (b_rho s) (b_gamma s)).

  Lemma quots_row rho gamma i : In i ds -> exists qr, dget (calc_quots votes rho gamma) i = Some qr.
  Proof.
    intros Hi. unfold calc_quots.
    rewrite (dget_map_keyed (fun i0 row => map (fun kv => (fst kv, quot (snd kv) (mul rho i0) (mul gamma (fst kv)))) row) votes i).
    destruct (dget votes i) as [row|] eqn:E; [eexists; reflexivity|]. exfalso. apply (dget_none_notin _ _ E Hi).
  Qed.

  Lemma bstep_body_nokey s under over : rows_ok ds (b_res s) -> NoDup over -> incl over ds ->
    bstep_body q votes s under over <> Stop BP_key_error.
  Proof.
    intros HR Hov Hin. unfold bstep_body.
    assert (Hav : forall i, In i ds \/ In i over -> availd (quots s) (b_res s) i = true).
    { intros i Hi. assert (Hi' : In i ds) by (destruct Hi as [Hi|Hi]; [exact Hi|apply Hin, Hi]).
      unfold availd. destruct (quots_row (b_rho s) (b_gamma s) i Hi') as (qr & ->). destruct (HR i Hi') as (row & ->). reflexivity. }
    pose proof (LInv_init q (quots s) (b_res s) (sort_pos ps) ds over Hov) as LI0.
    destruct (labeled q ps ds (quots s) (b_res s) under over) as [LD LP| |] eqn:El.
    - pose proof El as El'. unfold labeled in El'. change (map (fun i => (i, @None C)) over) with (LD0 over) in El'.
      pose proof (lab_loop_q q (quots s) (b_res s) (sort_pos ps) ds under over _ _ _ _ _ LI0 (QInv_init over) El') as Q.
      destruct (lab_loop_spec q (quots s) (b_res s) (sort_pos ps) ds under over _ _ _ _ _ LI0 El') as [LI _].
      apply (lab_loop_ok q _ _ (sort_pos ps)) in El'.
      2:{ intros i p H. unfold LD0 in H. apply in_map_iff in H. destruct H as (x & Hx & _). discriminate. }
      2:{ intros p i []. }
      destruct El' as [HD HP].
      destruct (sort_pos (filter (fun i => dmem LD i) under)) as [|start rest] eqn:Es.
      + destruct (adj_coef q _ (b_res s) (map fst LD) (map fst LP)) as [a|]; [|discriminate].
        destruct (Qeq_bool a 0 || Qle_bool 1 a); discriminate.
      + assert (Hst : In start (filter (fun i => dmem LD i) under)) by (apply sort_pos_in; rewrite Es; left; reflexivity).
        apply filter_In in Hst. destruct Hst as [_ Hst]. apply dmem_keys in Hst.
        destruct (walk_ok over LD LP Q (S (length LD)) start [] [] Hst) as (hops & Ew & Hdesc).
        * pose proof (idx_lt start _ Hst) as H1. rewrite map_length in H1. lia.
        * intros x [].
        * intros p' [].
        * rewrite Ew.
          assert (Hsd : In start ds).
          { destruct (LD_keys q (quots s) (b_res s) (sort_pos ps) ds over LD LP LI start Hst) as [H|H]; [exact H|apply Hin, H]. }
          destruct (augment_ok q (quots s) (b_res s) (sort_pos ps) LD LP HP hops (b_res s) start Hdesc (HR start Hsd) (fun _ _ _ => eq_refl)) as (m' & Ea).
          rewrite Ea. discriminate.
    - exfalso. revert El. unfold labeled. change (map (fun i => (i, @None C)) over) with (LD0 over).
      apply (lab_loop_nokey q (quots s) (b_res s) (sort_pos ps) ds under over Hav). exact LI0.
    - discriminate.
  Qed.

  Lemma bstep_nokey s : rows_ok ds (b_res s) -> bstep q votes tgt dorder s <> Stop BP_key_error.
  Proof.
    intros HR. unfold bstep. cbv zeta.
    assert (Hov : NoDup (snd (unsat dorder (b_res s) tgt))) by (unfold unsat; cbn [snd]; apply NoDup_filter, Hdo).
    assert (Hin : incl (snd (unsat dorder (b_res s) tgt)) ds).
    { intros i Hi. unfold unsat in Hi. cbn [snd] in Hi. apply filter_In in Hi. apply Hdo2, Hi. }
    destruct (fst (unsat dorder (b_res s) tgt)); [destruct (snd (unsat dorder (b_res s) tgt)) eqn:E; [discriminate|]|];
      apply bstep_body_nokey; assumption.
  Qed.

  Lemma bstep_rows s s' : rows_ok ds (b_res s) -> bstep q votes tgt dorder s = Next s' -> rows_ok ds (b_res s').
  Proof.
    intros HR. unfold bstep. cbv zeta.
    assert (Hb : forall under over, bstep_body q votes s under over = Next s' -> rows_ok ds (b_res s')).
    { intros under over. unfold bstep_body.
      destruct (labeled q ps ds (quots s) (b_res s) under over) as [LD LP| |]; try discriminate.
      destruct (sort_pos (filter (fun i => dmem LD i) under)) as [|start rest].
      - destruct (adj_coef q _ (b_res s) (map fst LD) (map fst LP)) as [a|]; [|discriminate].
        destruct (Qeq_bool a 0 || Qle_bool 1 a); [discriminate|]. intros [= <-]. exact HR.
      - destruct (walk (S (length LD)) LD LP over start [] []) as [hops| |]; try discriminate.
        destruct (augment (b_res s) start hops) as [res'|] eqn:Ea; [|discriminate]. intros [= <-]. cbn [b_res].
        apply (augment_rows ds hops (b_res s) start res' HR Ea). }
    destruct (fst (unsat dorder (b_res s) tgt)); [destruct (snd (unsat dorder (b_res s) tgt)); [discriminate|]|]; apply Hb.
  Qed.

  Lemma bloop_nokey : forall fuel s, rows_ok ds (b_res s) -> bloop q votes tgt dorder fuel s <> BP_key_error.
  Proof.
    induction fuel as [|f IH]; intros s HR; simpl; [discriminate|].
    pose proof (bstep_nokey s HR) as Hn. pose proof (bstep_rows s) as Hr.
    destruct (bstep q votes tgt dorder s) as [|s'|r]; [discriminate|apply IH, (Hr s' HR eq_refl)|congruence].
  Qed.
End StepNoKey.

(* ------------------------------------------------------------------ the initial solution *)
Lemma set_fold_rows ds j : forall gains m, (forall ik, In ik gains -> In (fst ik) ds) -> rows_ok ds m ->
  exists m', set_fold j gains (Some m) = Some m' /\ rows_ok ds m'.
Proof.
  induction gains as [|[i k0] gains IH]; intros m Hk HR; [exists m; split; [reflexivity|exact HR]|].
  unfold set_fold. simpl. fold (set_fold j gains (cell_set m i j k0)).
  destruct (HR i (Hk (i, k0) (or_introl eq_refl))) as (row & Er).
  assert (E : cell_set m i j k0 = Some (dset m i (dset row j k0))) by (unfold cell_set; rewrite Er; reflexivity).
  rewrite E. apply IH; [intros ik Hik; apply Hk; right; exact Hik|]. apply (cell_set_rows ds m i j k0 _ HR E).
Qed.
Lemma incr_fold_rows ds j : forall sel m, (forall i, In i sel -> In i ds) -> rows_ok ds m ->
  exists m', incr_fold j sel (Some m) = Some m' /\ rows_ok ds m'.
Proof.
  induction sel as [|i sel IH]; intros m Hk HR; [exists m; split; [reflexivity|exact HR]|].
  unfold incr_fold. simpl. fold (incr_fold j sel (cell_incr m i j)).
  destruct (HR i (Hk i (or_introl eq_refl))) as (row & Er).
  assert (E : cell_incr m i j = Some (dset m i (dset row j (dget_or row j 0 + 1)))) by (unfold cell_incr; rewrite Er; reflexivity).
  rewrite E. apply IH; [intros x Hx; apply Hk; right; exact Hx|]. apply (cell_incr_rows ds m i j _ HR E).
Qed.

Section InitNoKey.
  Variable d : Z -> Q.
  Variables q k : Q.
  Hypothesis Hq1 : (q < 1)%Q.
  Hypothesis Hk : (0 < k)%Q.
  Hypothesis Hd : forall s, (d s == k * (inject_Z s + 1 - q))%Q.
  Variable votes : mat.
  Hypothesis Hwf : wf_votes votes.
  Hypothesis Hvnn : forall i j, 0 <= mget votes i j.
  Notation ds := (districts votes).

  Lemma empty_solution_rows : rows_ok ds (empty_solution votes).
  Proof.
    intros i Hi. unfold empty_solution. rewrite (dget_map_keyed (fun _ (_ : list (C * Z)) => @nil (C * Z)) votes i).
    destruct (dget votes i) eqn:E; [eexists; reflexivity|]. exfalso. apply (dget_none_notin _ _ E Hi).
  Qed.

  Lemma init_fold_rows : forall todo sol p0, rows_ok ds sol -> (forall j nj, In (j, nj) todo -> 0 < nj) ->
    match fold_left (init_column d votes) todo (Init_ok sol p0) with
    | Init_ok sol' _ => rows_ok ds sol'
    | Init_key_error => False
    | _ => True
    end.
  Proof.
    induction todo as [|[j nj] todo IH]; intros sol p0 HR Hpos; [exact HR|]. simpl.
    pose proof (Hpos j nj (or_introl eq_refl)) as Hnj.
    destruct (evaluate d (column votes j) nj [] []) as [g t|] eqn:Ee.
    2:{ rewrite init_fold_err by (intros; discriminate). exact I. }
    destruct (column_ok d q k Hq1 Hk Hd votes Hwf Hvnn j nj g t Hnj Ee) as ((Hnn & Hout & _ & _) & Hgn & _).
    destruct (evaluate_ok _ _ _ _ _ Ee) as (_ & _ & _ & _ & Hgp).
    assert (Hgk : forall ik, In ik g -> In (fst ik) ds).
    { intros [i k0] Hin. cbn [fst]. destruct (in_dec Pos.eq_dec i ds) as [Hi|Hi]; [exact Hi|exfalso].
      pose proof (Hout i Hi) as H0. unfold col_alloc in H0. unfold dget_or in H0. rewrite (In_dget _ _ _ Hgn Hin) in H0.
      pose proof (all_pos_in _ _ _ Hgp Hin). destruct (cmem i (tie_sel t)); lia. }
    assert (Htk : forall i, In i (tie_sel t) -> In i ds).
    { intros i Hin. destruct (in_dec Pos.eq_dec i ds) as [Hi|Hi]; [exact Hi|exfalso].
      pose proof (Hout i Hi) as H0. unfold col_alloc in H0. apply cmem_In in Hin. rewrite Hin in H0.
      assert (0 <= dget_or g i 0).
      { unfold dget_or. destruct (dget g i) as [v|] eqn:E; [|lia]. pose proof (all_pos_in _ _ _ Hgp (dget_In _ _ _ E)). lia. }
      lia. }
    rewrite place_column_folds.
    destruct (set_fold_rows ds j g sol Hgk HR) as (m1 & E1 & R1). rewrite E1.
    destruct (incr_fold_rows ds j (tie_sel t) m1 Htk R1) as (m2 & E2 & R2). rewrite E2.
    apply IH; [exact R2|]. intros j0 n0 H0. apply (Hpos j0 n0). right. exact H0.
  Qed.

  Lemma binit_rows n : match binit d q votes n with
                       | inr s => rows_ok ds (b_res s)
                       | inl e => e <> BP_key_error
                       end.
  Proof.
    unfold binit, initial_solution.
    destruct (evaluate d (party_totals votes) n [] []) as [pseats [tie|]|] eqn:Ep; try discriminate.
    destruct (evaluate_ok _ _ _ _ _ Ep) as (_ & _ & _ & _ & Hgp).
    pose proof (init_fold_rows pseats (empty_solution votes) pseats empty_solution_rows (fun j nj H => all_pos_in _ _ _ Hgp H)) as H.
    destruct (fold_left (init_column d votes) pseats (Init_ok (empty_solution votes) pseats)); try discriminate; [exact H|destruct H].
  Qed.
End InitNoKey.

Theorem evaluate_core_nokey d q k votes tgt dorder strict n fuel :
  (q < 1)%Q -> (0 < k)%Q -> (forall s, d s == k * (inject_Z s + 1 - q))%Q ->
  wf_votes votes -> (forall i j, 0 <= mget votes i j) -> NoDup dorder -> incl dorder (districts votes) ->
  evaluate_core d q votes tgt dorder strict n fuel <> BP_key_error.
Proof.
  intros Hq1 Hk Hd Hwf Hv Hdo Hdo2. unfold evaluate_core. destruct (refuses_empty votes strict); [discriminate|].
  pose proof (binit_rows d q k Hq1 Hk Hd votes Hwf Hv n) as H.
  destruct (binit d q votes n) as [e|s]; [exact H|]. apply (bloop_nokey q votes tgt dorder Hdo Hdo2 fuel s H).
Qed.

(* ------------------------------------------------------------------ which answers the loop can give; the errors of the marginal *)
Lemma bstep_stop_kinds q votes tgt dorder s r : bstep q votes tgt dorder s = Stop r ->
  r = BP_key_error \/ r = BP_out_of_fuel \/ r = BP_zero_division \/ exists a, r = BP_refused a.
Proof.
  unfold bstep. cbv zeta.
  assert (Hb : forall under over, bstep_body q votes s under over = Stop r ->
            r = BP_key_error \/ r = BP_out_of_fuel \/ r = BP_zero_division \/ exists a, r = BP_refused a).
  { intros under over. unfold bstep_body.
    destruct (labeled q (parties votes) (districts votes) _ (b_res s) under over) as [LD LP| |]; try (intros [= <-]; auto).
    destruct (sort_pos (filter (fun i => dmem LD i) under)) as [|start rest].
    - destruct (adj_coef q _ (b_res s) (map fst LD) (map fst LP)) as [a|]; [|intros [= <-]; auto].
      destruct (Qeq_bool a 0 || Qle_bool 1 a); [intros [= <-]; right; right; right; exists a; reflexivity|discriminate].
    - destruct (walk (S (length LD)) LD LP over start [] []) as [hops| |]; try (intros [= <-]; auto).
      destruct (augment (b_res s) start hops); [discriminate|intros [= <-]; auto]. }
  destruct (fst (unsat dorder (b_res s) tgt)); [destruct (snd (unsat dorder (b_res s) tgt)); [discriminate|]|]; apply Hb.
Qed.
Lemma bloop_kinds q votes tgt dorder : forall fuel s r, bloop q votes tgt dorder fuel s = r ->
  (exists res rho gamma, r = BP_ok res rho gamma) \/ r = BP_key_error \/ r = BP_out_of_fuel \/ r = BP_zero_division \/
  exists a, r = BP_refused a.
Proof.
  induction fuel as [|f IH]; intros s r H; simpl in H; [subst r; auto|].
  destruct (bstep q votes tgt dorder s) as [|s'|r0] eqn:E.
  - left. subst r. eauto.
  - apply (IH s' r H).
  - subst r0. right. apply (bstep_stop_kinds q votes tgt dorder s r E).
Qed.

Lemma evaluate_nonempty d (vs : list (C * Q)) n : vs <> [] -> 0 < n -> (0 < d 0%Z)%Q -> evaluate d vs n [] [] <> HA_value_error.
Proof.
  intros Hne Hn Hd0. unfold evaluate.
  assert (Hq : initial_quotients d vs [] [] n <> []).
  { unfold initial_quotients. intros E. apply (f_equal (@length _)) in E. rewrite rev_length in E.
    rewrite (Permutation_length (sort_asc_perm _)) in E.
    destruct vs as [|[c v] t]; [apply Hne; reflexivity|]. cbn [flat_map] in E.
    unfold cap_of, dget_or in E. cbn [dget] in E.
    assert (Qle_bool (d 0) 0 = false) as Eq by (destruct (Qle_bool (d 0) 0) eqn:E0; [apply Qle_bool_iff in E0; lra|reflexivity]).
    assert (0 <? n = true) as En by (apply Z.ltb_lt; exact Hn).
    rewrite Eq, En in E. simpl in E. discriminate. }
  destruct (initial_quotients d vs [] [] n); [contradiction|discriminate].
Qed.

Lemma init_fold_marginal d votes : votes <> [] -> (0 < d 0%Z)%Q -> forall todo sol p0, (forall j nj, In (j, nj) todo -> 0 < nj) ->
  match fold_left (init_column d votes) todo (Init_ok sol p0) with
  | Init_value_error | Init_party_tie => False
  | _ => True
  end.
Proof.
  intros Hne Hd0. induction todo as [|[j nj] todo IH]; intros sol p0 Hpos; [exact I|]. simpl.
  pose proof (Hpos j nj (or_introl eq_refl)) as Hnj.
  assert (Hcol : column votes j <> []) by (unfold column; destruct votes; [contradiction|discriminate]).
  pose proof (evaluate_nonempty d (column votes j) nj Hcol Hnj Hd0) as Hev.
  destruct (evaluate d (column votes j) nj [] []) as [g t|]; [|contradiction].
  destruct (place_column sol j g t) as [sol1|].
  - apply IH. intros j0 n0 H0. apply (Hpos j0 n0). right. exact H0.
  - rewrite init_fold_err by (intros; discriminate). exact I.
Qed.

(* a ValueError or a Tie can only come from the apportionment of the party seats: then there is no tie-free party marginal
   (outside the property's quantifier) *)
Theorem evaluate_core_marginal_errors d q votes tgt dorder strict n fuel : (0 < d 0%Z)%Q ->
  evaluate_core d q votes tgt dorder strict n fuel = BP_value_error \/
  evaluate_core d q votes tgt dorder strict n fuel = BP_party_tie ->
  ha_marginal d (party_totals votes) n = None.
Proof.
  intros Hd0. unfold evaluate_core. destruct (refuses_empty votes strict); [intros [H|H]; discriminate|].
  unfold binit, initial_solution, ha_marginal.
  destruct (evaluate d (party_totals votes) n [] []) as [pseats [tie|]|] eqn:Ep; try reflexivity.
  intros H. exfalso.
  destruct votes as [|row votes'] eqn:Ev.
  { unfold party_totals, parties in Ep. simpl in Ep. unfold evaluate in Ep. simpl in Ep. discriminate. }
  rewrite <- Ev in *.
  destruct (evaluate_ok _ _ _ _ _ Ep) as (_ & _ & _ & _ & Hgp).
  pose proof (init_fold_marginal d votes ltac:(rewrite Ev; discriminate) Hd0 pseats (empty_solution votes) pseats (fun j nj Hin => all_pos_in _ _ _ Hgp Hin)) as Hf.
  destruct (fold_left (init_column d votes) pseats (Init_ok (empty_solution votes) pseats)) as [sol p1| | |] eqn:Ef; try contradiction.
  - set (s0 := mk_bstate sol (initial_district_coefs votes) (initial_party_coefs q votes sol)) in *.
    destruct (bloop_kinds q votes tgt dorder fuel s0 _ eq_refl) as [(r1 & r2 & r3 & E)|[E|[E|[E|(a & E)]]]];
      destruct H as [H|H]; rewrite H in E; discriminate.
  - destruct H as [H|H]; discriminate.
Qed.

Lemma evaluate_core_no_district_tie d q votes tgt dorder strict n fuel :
  evaluate_core d q votes tgt dorder strict n fuel <> BP_district_tie.
Proof.
  unfold evaluate_core. destruct (refuses_empty votes strict); [discriminate|].
  destruct (binit d q votes n) as [e|s] eqn:Ei.
  - unfold binit in Ei. destruct (initial_solution d votes n); try discriminate; injection Ei as <-; discriminate.
  - intros H. destruct (bloop_kinds q votes tgt dorder fuel s _ eq_refl) as [(r1 & r2 & r3 & E)|[E|[E|[E|(a & E)]]]]; rewrite H in E; discriminate.
Qed.
