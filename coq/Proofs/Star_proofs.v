(* STAR (Model/Star.v): with one seat and two untied finalists the winner is the finalist whom strictly more
   ballot weight places above the other. *)
From Coq Require Import ZArith QArith List Bool Arith Lia.
From VL Require Import Prelude.PyDict Model.GetNBest Model.Convert Model.Cardinal Model.Condorcet Model.Star
     Proofs.Dict_proofs.
Import ListNotations.
Open Scope Z_scope.

Lemma prefers_irrefl b x : prefers b x x = false.
Proof.
  unfold prefers. destruct (dget b x) as [vx|]; [|reflexivity].
  assert (H : Qle_bool vx vx = true) by (apply Qle_bool_iff, Qle_refl). rewrite H. reflexivity.
Qed.

(* ---- the pairwise dictionary of two finalists *)
Definition step2 (a b : C) (pv : pvotes) (bw : sballot * Z) : pvotes :=
  let pv1 := if prefers (fst bw) a b then padd pv (a, b) (snd bw) else pv in
  if prefers (fst bw) b a then padd pv1 (b, a) (snd bw) else pv1.

Lemma star_pairwise_two votes a b : star_pairwise votes [a; b] = fold_left (step2 a b) votes [].
Proof.
  unfold star_pairwise. generalize (@nil (pair * Z)). induction votes as [|bw votes IH]; intros acc; [reflexivity|].
  cbn [fold_left]. rewrite !prefers_irrefl. rewrite IH. reflexivity.
Qed.

Definition shape2 (a b : C) (pv : pvotes) : Prop :=
  pv = [] \/ (exists n, pv = [((a, b), n)]) \/ (exists m, pv = [((b, a), m)]) \/
  (exists n m, pv = [((a, b), n); ((b, a), m)]) \/ (exists n m, pv = [((b, a), m); ((a, b), n)]).

Section Two.
  Variables a b : C.
  Hypothesis Hab : a <> b.
  Let Eab : Pos.eqb a b = false. Proof. apply Pos.eqb_neq, Hab. Qed.
  Let Eba : Pos.eqb b a = false. Proof. apply Pos.eqb_neq. congruence. Qed.
  Let Eaa : Pos.eqb a a = true := Pos.eqb_refl a.
  Let Ebb : Pos.eqb b b = true := Pos.eqb_refl b.

  Ltac red2 := unfold padd, pget0, pset, peqb, ceqb; cbn [pget fst snd swap]; unfold peqb, ceqb; cbn [fst snd];
               rewrite ?Eab, ?Eba, ?Eaa, ?Ebb; cbn [andb].

  Lemma padd_shape_ab pv w : shape2 a b pv -> shape2 a b (padd pv (a, b) w).
  Proof.
    intros [->|[[n ->]|[[m ->]|[(n & m & ->)|(n & m & ->)]]]]; unfold shape2.
    - right. left. eexists. reflexivity.
    - right. left. red2. eexists. reflexivity.
    - right. right. right. right. red2. do 2 eexists. reflexivity.
    - right. right. right. left. red2. do 2 eexists. reflexivity.
    - right. right. right. right. red2. do 2 eexists. reflexivity.
  Qed.

  Lemma padd_shape_ba pv w : shape2 a b pv -> shape2 a b (padd pv (b, a) w).
  Proof.
    intros [->|[[n ->]|[[m ->]|[(n & m & ->)|(n & m & ->)]]]]; unfold shape2.
    - right. right. left. eexists. reflexivity.
    - right. right. right. left. red2. do 2 eexists. reflexivity.
    - right. right. left. red2. eexists. reflexivity.
    - right. right. right. left. red2. do 2 eexists. reflexivity.
    - right. right. right. right. red2. do 2 eexists. reflexivity.
  Qed.

  Lemma pairwise_shape votes : shape2 a b (star_pairwise votes [a; b]).
  Proof.
    rewrite star_pairwise_two.
    assert (H : forall acc, shape2 a b acc -> shape2 a b (fold_left (step2 a b) votes acc)).
    { induction votes as [|bw votes IH]; intros acc Hacc; [exact Hacc|]. cbn [fold_left]. apply IH. unfold step2.
      destruct (prefers (fst bw) a b), (prefers (fst bw) b a); auto using padd_shape_ab, padd_shape_ba. }
    apply H. left. reflexivity.
  Qed.

  (* with two candidates the widest-path relaxation has no intermediate candidate to go through *)
  Lemma widest_paths_two (v : pvotes) order : (forall x, In x order -> x = a \/ x = b) ->
    widest_paths v order = filter (fun pn => pget0 v (swap (fst pn)) <? snd pn) v.
  Proof.
    intros Ho. unfold widest_paths. set (init := filter _ v). clearbody init.
    assert (Hin : forall l3 c1 c2 paths, (forall x, In x l3 -> x = a \/ x = b) -> (c1 = a \/ c1 = b) -> (c2 = a \/ c2 = b) ->
              ceqb c1 c2 = false ->
              fold_left (fun paths ca => if ceqb ca c1 || ceqb ca c2 then paths else
                 pset paths (c2, ca) (Z.max (pget0 paths (c2, ca)) (Z.min (pget0 paths (c2, c1)) (pget0 paths (c1, ca))))) l3 paths = paths).
    { induction l3 as [|ca l3 IH]; intros c1 c2 paths Hl H1 H2 Hne; [reflexivity|]. cbn [fold_left].
      assert (E : ceqb ca c1 || ceqb ca c2 = true).
      { apply ceqb_neq in Hne. apply orb_true_iff. rewrite !ceqb_eq.
        destruct (Hl ca (or_introl eq_refl)), H1, H2; subst; tauto. }
      rewrite E. apply IH; try assumption. intros x Hx. apply Hl. right. exact Hx. }
    assert (Hmid : forall l2 c1 paths, (forall x, In x l2 -> x = a \/ x = b) -> (c1 = a \/ c1 = b) ->
              fold_left (fun paths c2 => if ceqb c1 c2 then paths else
                 fold_left (fun paths ca => if ceqb ca c1 || ceqb ca c2 then paths else
                   pset paths (c2, ca) (Z.max (pget0 paths (c2, ca)) (Z.min (pget0 paths (c2, c1)) (pget0 paths (c1, ca))))) order paths) l2 paths = paths).
    { induction l2 as [|c2 l2 IH]; intros c1 paths Hl H1; [reflexivity|]. cbn [fold_left].
      destruct (ceqb c1 c2) eqn:E.
      - apply IH; [intros x Hx; apply Hl; right; exact Hx|exact H1].
      - rewrite (Hin order c1 c2 paths Ho H1 (Hl c2 (or_introl eq_refl)) E).
        apply IH; [intros x Hx; apply Hl; right; exact Hx|exact H1]. }
    assert (Hout : forall l1 paths, (forall x, In x l1 -> x = a \/ x = b) ->
              fold_left (fun paths c1 => fold_left (fun paths c2 => if ceqb c1 c2 then paths else
                 fold_left (fun paths ca => if ceqb ca c1 || ceqb ca c2 then paths else
                   pset paths (c2, ca) (Z.max (pget0 paths (c2, ca)) (Z.min (pget0 paths (c2, c1)) (pget0 paths (c1, ca))))) order paths) order paths) l1 paths = paths).
    { induction l1 as [|c1 l1 IH]; intros paths Hl; [reflexivity|]. cbn [fold_left].
      rewrite (Hmid order c1 paths Ho (Hl c1 (or_introl eq_refl))). apply IH. intros x Hx. apply Hl. right. exact Hx. }
    apply Hout. exact Ho.
  Qed.

  Ltac ev := repeat (progress (cbn [fold_left filter map fst snd cmem app pget orb andb dset dget negb];
                               unfold swap, pget0, peqb, ceqb, dget_or; cbn [fst snd];
                               rewrite ?Eab, ?Eba, ?Eaa, ?Ebb)).
  Ltac go := repeat (ev; try match goal with |- context [Z.ltb ?x ?y] => let E := fresh "E" in destruct (Z.ltb x y) eqn:E end).
  Ltac fin := cbn; first [discriminate | intros [= <-]; repeat match goal with E : Z.ltb _ _ = true |- _ => apply Z.ltb_lt in E | E : Z.ltb _ _ = false |- _ => apply Z.ltb_ge in E end;
                                         first [left; split; [reflexivity|lia] | right; split; [reflexivity|lia]]].

  Lemma schulze_two pv order c : shape2 a b pv -> (forall x, In x order -> x = a \/ x = b) ->
    schulze pv order 1 = [Cand c] ->
    (c = a /\ pget0 pv (b, a) < pget0 pv (a, b)) \/ (c = b /\ pget0 pv (a, b) < pget0 pv (b, a)).
  Proof.
    intros Hs Ho. unfold schulze. rewrite (widest_paths_two pv order Ho).
    destruct Hs as [->|[[n ->]|[[m ->]|[(n & m & ->)|(n & m & ->)]]]].
    - cbn. discriminate.
    - unfold candidates, add_new, pairwise_wins, dadd. go; fin.
    - unfold candidates, add_new, pairwise_wins, dadd. go; fin.
    - unfold candidates, add_new, pairwise_wins, dadd. go; fin.
    - unfold candidates, add_new, pairwise_wins, dadd. go; fin.
  Qed.
End Two.


(* ---- what the pairwise dictionary counts *)
Definition support (votes : sprofile) (x y : C) : Z :=
  zsum (map (fun bw : sballot * Z => if prefers (fst bw) x y then snd bw else 0) votes).

Lemma peqb_eq p q : peqb p q = true <-> p = q.
Proof.
  unfold peqb. rewrite andb_true_iff, !ceqb_eq. destruct p, q; simpl. split; [intros [-> ->]; reflexivity|intros [= -> ->]; auto].
Qed.

Lemma pget_pset v p n q : pget (pset v p n) q = if peqb q p then Some n else pget v q.
Proof.
  unfold pset. induction v as [|[p' n'] v IH]; cbn [pget].
  - destruct (peqb q p); reflexivity.
  - destruct (peqb p p') eqn:E; cbn [pget].
    + apply peqb_eq in E. subst p'. destruct (peqb q p); reflexivity.
    + destruct (peqb q p') eqn:E2.
      * apply peqb_eq in E2. subst p'. assert (peqb q p = false) as ->; [|reflexivity].
        destruct (peqb q p) eqn:E3; [apply peqb_eq in E3; subst; rewrite (proj2 (peqb_eq p p) eq_refl) in E; discriminate|reflexivity].
      * exact IH.
Qed.

Lemma pget0_padd v p w q : pget0 (padd v p w) q = if peqb q p then pget0 v p + w else pget0 v q.
Proof. unfold padd, pget0 at 1. rewrite pget_pset. destruct (peqb q p); reflexivity. Qed.

Lemma fold_add_shift (l : list Z) : forall x, fold_left Z.add l x = x + fold_left Z.add l 0.
Proof.
  induction l as [|y l IH]; intros x; cbn [fold_left]; [lia|]. rewrite IH, (IH (0 + y)). lia.
Qed.

Lemma pairwise_support votes a b : a <> b ->
  pget0 (star_pairwise votes [a; b]) (a, b) = support votes a b /\
  pget0 (star_pairwise votes [a; b]) (b, a) = support votes b a.
Proof.
  intros Hab. rewrite star_pairwise_two. unfold support, zsum.
  assert (Hne1 : peqb (a, b) (b, a) = false).
  { destruct (peqb (a, b) (b, a)) eqn:E; [apply peqb_eq in E; injection E as E1 E2; congruence|reflexivity]. }
  assert (Hne2 : peqb (b, a) (a, b) = false).
  { destruct (peqb (b, a) (a, b)) eqn:E; [apply peqb_eq in E; injection E as E1 E2; congruence|reflexivity]. }
  assert (Hrefl : forall p, peqb p p = true) by (intros p; apply peqb_eq; reflexivity).
  assert (H : forall acc,
    pget0 (fold_left (step2 a b) votes acc) (a, b) =
      pget0 acc (a, b) + fold_left Z.add (map (fun bw : sballot * Z => if prefers (fst bw) a b then snd bw else 0) votes) 0 /\
    pget0 (fold_left (step2 a b) votes acc) (b, a) =
      pget0 acc (b, a) + fold_left Z.add (map (fun bw : sballot * Z => if prefers (fst bw) b a then snd bw else 0) votes) 0).
  { induction votes as [|bw votes IH]; intros acc; cbn [fold_left map]; [split; lia|].
    destruct (IH (step2 a b acc bw)) as [H1 H2]. rewrite H1, H2.
    rewrite (fold_add_shift _ (0 + _)), (fold_add_shift _ (0 + (if prefers (fst bw) b a then snd bw else 0))).
    unfold step2. destruct (prefers (fst bw) a b), (prefers (fst bw) b a);
      rewrite ?pget0_padd, ?Hne1, ?Hne2, ?Hrefl, ?pget0_padd, ?Hne1, ?Hne2, ?Hrefl; split; lia. }
  destruct (H []) as [H1 H2]. rewrite H1, H2. unfold pget0. cbn [pget]. split; lia.
Qed.

Lemma pairwise_same votes a : star_pairwise votes [a; a] = [].
Proof.
  rewrite star_pairwise_two.
  assert (H : forall acc, fold_left (step2 a a) votes acc = acc).
  { induction votes as [|bw votes IH]; intros acc; [reflexivity|]. cbn [fold_left]. unfold step2 at 2.
    rewrite prefers_irrefl. apply IH. }
  apply H.
Qed.

(* ---- STAR, one seat, two untied finalists a and b (the two highest score sums): the winner is the finalist
   placed above the other by strictly more ballot weight *)
Theorem star_runoff votes order agg a b c :
  score_to_simple star_cfg votes = inl agg ->
  get_n_best Qle_bool agg 2 = [Cand a; Cand b] ->
  (forall x, In x order -> x = a \/ x = b) ->
  star votes order 1 = inl [Cand c] ->
  (c = a /\ support votes b a < support votes a b) \/ (c = b /\ support votes a b < support votes b a).
Proof.
  intros Hagg Hrun Ho. unfold star. rewrite Hagg. change (1 + 1)%nat with 2%nat. rewrite Hrun.
  cbn [star_members flat_map app]. intros [= Hr].
  destruct (Pos.eq_dec a b) as [->|Hab].
  - exfalso. rewrite pairwise_same in Hr. unfold schulze in Hr. rewrite (widest_paths_two b b [] order Ho) in Hr.
    cbn in Hr. discriminate.
  - destruct (pairwise_support votes a b Hab) as [H1 H2]. rewrite <- H1, <- H2.
    apply (schulze_two a b Hab _ order c (pairwise_shape a b Hab votes) Ho Hr).
Qed.

(* the candidates of the pairwise dictionary are the two finalists (the order the wire wrapper passes) *)
Lemma candidates_two a b pv : a <> b -> shape2 a b pv -> forall x, In x (candidates pv) -> x = a \/ x = b.
Proof.
  intros Hab Hs.
  assert (Eab : Pos.eqb a b = false) by (apply Pos.eqb_neq, Hab).
  assert (Eba : Pos.eqb b a = false) by (apply Pos.eqb_neq; congruence).
  destruct Hs as [->|[[n ->]|[[m ->]|[(n & m & ->)|(n & m & ->)]]]];
    unfold candidates, add_new; cbn [fold_left fst snd cmem app]; unfold ceqb; rewrite ?Eab, ?Eba, ?Pos.eqb_refl; cbn [orb app cmem];
    unfold ceqb; rewrite ?Eab, ?Eba, ?Pos.eqb_refl; cbn [orb app]; simpl; unfold ceqb; rewrite ?Eab, ?Eba, ?Pos.eqb_refl; simpl; intros x; intuition.
Qed.

Theorem star_auto_runoff votes agg a b c :
  score_to_simple star_cfg votes = inl agg ->
  get_n_best Qle_bool agg 2 = [Cand a; Cand b] ->
  star_auto votes 1 = inl [Cand c] ->
  (c = a /\ support votes b a < support votes a b) \/ (c = b /\ support votes a b < support votes b a).
Proof.
  intros Hagg Hrun. unfold star_auto. rewrite Hagg. change (1 + 1)%nat with 2%nat. rewrite Hrun.
  cbn [star_members flat_map app]. intros Hr.
  destruct (Pos.eq_dec a b) as [->|Hab].
  - rewrite pairwise_same in Hr. apply (star_runoff votes (candidates []) agg b b c Hagg Hrun); [intros x []|exact Hr].
  - apply (star_runoff votes (candidates (star_pairwise votes [a; b])) agg a b c Hagg Hrun); [|exact Hr].
    apply candidates_two; [exact Hab|apply pairwise_shape, Hab].
Qed.
