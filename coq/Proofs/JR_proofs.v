(* Justified representation of the PAV committee (Model/Cardinal.v pav_best / pav).
   Aziz, Brill, Conitzer, Elkind, Freeman, Walsh 2017: if the voters who approve c and nobody of the
   optimal committee W weighed more than total/(n+1), swapping some member of W for c would raise the
   harmonic satisfaction.  Weighted (rational, non-negative) ballots. *)
From Coq Require Import ZArith QArith List Bool Arith Lia Lqa Permutation.
From VL Require Import Prelude.PyDict Model.GetNBest Model.Convert Model.Cardinal
     Proofs.GetNBest_proofs Proofs.QOrd Proofs.Dict_proofs Proofs.Cardinal_proofs.
Import ListNotations.
Open Scope Q_scope.

Lemma Qmult_le_nonneg_l z x y : 0 <= z -> x <= y -> z * x <= z * y.
Proof. intros Hz Hxy. rewrite !(Qmult_comm z). apply Qmult_le_compat_r; assumption. Qed.

(* ================================================================ finite sums *)
Section LSum.
  Context {X : Type}.
  Definition lsum (f : X -> Q) (l : list X) : Q := fold_right (fun x acc => f x + acc) 0 l.

  Lemma lsum_cons f x l : lsum f (x :: l) = f x + lsum f l.
  Proof. reflexivity. Qed.

  Lemma lsum_le f g l : (forall x, In x l -> f x <= g x) -> lsum f l <= lsum g l.
  Proof.
    induction l as [|x l IH]; intros H; [simpl; lra|]. rewrite !lsum_cons.
    pose proof (H x (or_introl eq_refl)). assert (lsum f l <= lsum g l) by (apply IH; intros y Hy; apply H; right; exact Hy). lra.
  Qed.

  Lemma lsum_eq f g l : (forall x, In x l -> f x == g x) -> lsum f l == lsum g l.
  Proof.
    induction l as [|x l IH]; intros H; [reflexivity|]. rewrite !lsum_cons.
    rewrite (H x (or_introl eq_refl)), IH; [reflexivity|]. intros y Hy; apply H; right; exact Hy.
  Qed.

  Lemma lsum_minus f g l : lsum (fun x => f x - g x) l == lsum f l - lsum g l.
  Proof. induction l as [|x l IH]; [simpl; lra|]. rewrite !lsum_cons, IH. lra. Qed.

  Lemma lsum_scale k f l : lsum (fun x => k * f x) l == k * lsum f l.
  Proof. induction l as [|x l IH]; [simpl; lra|]. rewrite !lsum_cons, IH. lra. Qed.

  Lemma lsum_const k l : lsum (fun _ => k) l == k * inject_Z (Z.of_nat (length l)).
  Proof.
    induction l as [|x l IH]; [unfold lsum; cbn [fold_right length]; change (inject_Z (Z.of_nat 0)) with 0; lra|]. rewrite lsum_cons, IH.
    change (length (x :: l)) with (S (length l)). rewrite Nat2Z.inj_succ. unfold Z.succ. rewrite inject_Z_plus. change (inject_Z 1) with 1. lra.
  Qed.

  Lemma lsum_indicator (p : X -> bool) k l :
    lsum (fun x => if p x then k else 0) l == k * inject_Z (Z.of_nat (length (filter p l))).
  Proof.
    induction l as [|x l IH]; [unfold lsum; cbn [fold_right length filter]; change (inject_Z (Z.of_nat 0)) with 0; lra|]. rewrite lsum_cons, IH. cbn [filter]. destruct (p x).
    - change (length (x :: filter p l)) with (S (length (filter p l))). rewrite Nat2Z.inj_succ. unfold Z.succ.
      rewrite inject_Z_plus. change (inject_Z 1) with 1. lra.
    - lra.
  Qed.

  Lemma lsum_nonpos f l : (forall x, In x l -> f x <= 0) -> lsum f l <= 0.
  Proof.
    intros H. assert (H0 : lsum f l <= lsum (fun _ => 0) l) by (apply lsum_le; exact H).
    rewrite lsum_const in H0. lra.
  Qed.
End LSum.

Lemma lsum_swap {X Y} (f : X -> Y -> Q) (l1 : list X) (l2 : list Y) :
  lsum (fun x => lsum (fun y => f x y) l2) l1 == lsum (fun y => lsum (fun x => f x y) l1) l2.
Proof.
  induction l1 as [|x l1 IH].
  - simpl. induction l2 as [|y l2 IH2]; [reflexivity|]. rewrite lsum_cons, <- IH2. simpl. lra.
  - rewrite lsum_cons, IH. clear IH. induction l2 as [|y l2 IH2]; [simpl; lra|].
    rewrite !lsum_cons, <- IH2. lra.
Qed.

Lemma fold_left_lsum {X} (g : X -> Q) (l : list X) : forall a,
  fold_left (fun acc x => acc + g x) l a == a + lsum g l.
Proof.
  induction l as [|x l IH]; intros a; [simpl; lra|]. cbn [fold_left]. rewrite IH, lsum_cons. lra.
Qed.

Lemma satisfaction_lsum votes alt :
  satisfaction votes alt == lsum (fun bw : list C * Q => harmonic (inter_size (fst bw) alt) * snd bw) votes.
Proof. unfold satisfaction. rewrite (fold_left_lsum (fun bw : list C * Q => harmonic (inter_size (fst bw) alt) * snd bw)). lra. Qed.

Lemma qsum_lsum (l : list Q) : qsum l == lsum (fun x => x) l.
Proof. unfold qsum. rewrite (fold_left_lsum (fun x : Q => x)). lra. Qed.

Lemma lsum_map {X Y} (h : X -> Y) (f : Y -> Q) l : lsum f (map h l) = lsum (fun x => f (h x)) l.
Proof. induction l as [|x l IH]; [reflexivity|]. cbn [map]. rewrite !lsum_cons. f_equal. exact IH. Qed.

(* ================================================================ the harmonic numbers *)
Lemma harmonic_S k : harmonic (S k) = harmonic k + (1 # Pos.of_nat (S k)).
Proof. reflexivity. Qed.

Lemma harmonic_mono k k' : (k <= k')%nat -> harmonic k <= harmonic k'.
Proof.
  induction 1 as [|m Hm IH]; [lra|]. rewrite harmonic_S.
  assert (0 < 1 # Pos.of_nat (S m)) by reflexivity. lra.
Qed.

Lemma harmonic_ge_1 k : (1 <= k)%nat -> 1 <= harmonic k.
Proof. intros H. apply (harmonic_mono 1 k) in H. change (harmonic 1) with (0 + (1 # 1)) in H. lra. Qed.

Lemma pos_of_nat_S k : inject_Z (Z.of_nat (S k)) * (1 # Pos.of_nat (S k)) == 1.
Proof.
  unfold Qeq, Qmult, inject_Z. cbn [Qnum Qden]. rewrite <- Pos.of_nat_succ, Pos.mul_1_l, Zpos_P_of_succ_nat, Nat2Z.inj_succ. lia.
Qed.

(* ================================================================ membership and intersections *)
Lemma cmem_In c l : cmem c l = true <-> In c l.
Proof.
  induction l as [|x l IH]; simpl; [split; [discriminate|tauto]|].
  rewrite orb_true_iff, IH. unfold ceqb. rewrite Pos.eqb_eq. split; intros [H|H]; auto.
Qed.

Lemma cmem_false c l : cmem c l = false <-> ~ In c l.
Proof. rewrite <- cmem_In. destruct (cmem c l); split; congruence. Qed.

Lemma cmem_ext l l' : (forall x, In x l <-> In x l') -> forall x, cmem x l = cmem x l'.
Proof.
  intros H x. destruct (cmem x l) eqn:E1, (cmem x l') eqn:E2; try reflexivity.
  - apply cmem_In, H, cmem_In in E1. congruence.
  - apply cmem_In, H, cmem_In in E2. congruence.
Qed.

Definition drop (w : C) (W : list C) : list C := filter (fun x => negb (ceqb x w)) W.

Lemma drop_In w W x : In x (drop w W) <-> In x W /\ x <> w.
Proof.
  unfold drop. rewrite filter_In, negb_true_iff. unfold ceqb. rewrite Pos.eqb_neq. tauto.
Qed.

Lemma drop_length w W : NoDup W -> In w W -> S (length (drop w W)) = length W.
Proof.
  induction W as [|y W IH]; intros Hnd Hin; [destruct Hin|]. inversion Hnd as [|? ? Hy Hnd']; subst.
  unfold drop. cbn [filter]. destruct (ceqb y w) eqn:E; cbn [negb].
  - apply ceqb_eq in E. subst y. cbn [length]. f_equal.
    assert (Hall : filter (fun x => negb (ceqb x w)) W = W).
    { clear - Hy. induction W as [|z W IHW]; [reflexivity|]. cbn [filter].
      destruct (ceqb z w) eqn:Ez; [apply ceqb_eq in Ez; subst; exfalso; apply Hy; left; reflexivity|].
      cbn [negb]. f_equal. apply IHW. intros H. apply Hy. right. exact H. }
    rewrite Hall. reflexivity.
  - cbn [length]. f_equal. apply IH; [exact Hnd'|]. destruct Hin as [->|Hin]; [rewrite ceqb_refl in E; discriminate|exact Hin].
Qed.

Lemma filter_length_le {X} (p q : X -> bool) l : (forall x, In x l -> p x = true -> q x = true) ->
  (length (filter p l) <= length (filter q l))%nat.
Proof.
  induction l as [|x l IH]; intros H; [simpl; lia|]. cbn [filter].
  assert (IH' : (length (filter p l) <= length (filter q l))%nat) by (apply IH; intros y Hy; apply H; right; exact Hy).
  destruct (p x) eqn:Ep.
  - rewrite (H x (or_introl eq_refl) Ep). simpl. lia.
  - destruct (q x); simpl; lia.
Qed.

Lemma inter_size_ext a s s' : (forall x, cmem x s = cmem x s') -> inter_size a s = inter_size a s'.
Proof. intros H. unfold inter_size. f_equal. apply filter_ext. intros x. apply H. Qed.

Lemma inter_size_mono a s s' : (forall x, In x s -> In x s') -> (inter_size a s <= inter_size a s')%nat.
Proof. intros H. unfold inter_size. apply filter_length_le. intros x _ Hx. apply cmem_In. apply H. apply cmem_In. exact Hx. Qed.

Lemma inter_size_zero a s : (forall x, In x a -> ~ In x s) -> inter_size a s = 0%nat.
Proof.
  intros H. unfold inter_size. induction a as [|x a IH]; [reflexivity|]. cbn [filter].
  assert (E : cmem x s = false) by (apply cmem_false; apply H; left; reflexivity). rewrite E.
  apply IH. intros y Hy. apply H. right. exact Hy.
Qed.

Lemma inter_size_pos a s x : In x a -> In x s -> (1 <= inter_size a s)%nat.
Proof.
  intros Ha Hs. unfold inter_size. assert (Hin : In x (filter (fun c => cmem c s) a)) by (apply filter_In; split; [exact Ha|apply cmem_In; exact Hs]).
  destruct (filter (fun c => cmem c s) a); [destruct Hin|simpl; lia].
Qed.

(* removing w from the committee loses at most the one approval of w *)
Lemma inter_size_drop a W w : NoDup a ->
  (inter_size a W <= inter_size a (drop w W) + (if cmem w a then 1 else 0))%nat.
Proof.
  unfold inter_size. induction a as [|x a IH]; intros Hnd; [simpl; lia|].
  inversion Hnd as [|? ? Hx Hnd']; subst. specialize (IH Hnd'). cbn [filter cmem].
  destruct (ceqb w x) eqn:E.
  - apply ceqb_eq in E. subst x. assert (E2 : cmem w a = false) by (apply cmem_false; exact Hx). rewrite E2 in IH.
    assert (E3 : cmem w (drop w W) = false) by (apply cmem_false; rewrite drop_In; tauto). rewrite E3. cbn [orb].
    destruct (cmem w W); simpl; lia.
  - cbn [orb]. assert (E2 : cmem x (drop w W) = cmem x W).
    { destruct (cmem x W) eqn:E3.
      - apply cmem_In. apply drop_In. split; [apply cmem_In; exact E3|]. apply ceqb_neq in E. congruence.
      - apply cmem_false. rewrite drop_In. apply cmem_false in E3. tauto. }
    rewrite E2. destruct (cmem x W); simpl; lia.
Qed.

(* for duplicate-free lists the intersection can be counted from either side *)
Lemma inter_size_sym_le a W : NoDup W -> (length (filter (fun w => cmem w a) W) <= inter_size a W)%nat.
Proof.
  intros Hnd. unfold inter_size. apply NoDup_incl_length; [apply NoDup_filter; exact Hnd|].
  intros x Hx. apply filter_In in Hx. destruct Hx as [HxW Hxa]. apply filter_In. split; [apply cmem_In; exact Hxa|apply cmem_In; exact HxW].
Qed.

(* ================================================================ sub-sequences *)
Lemma subseq_incl {X} (s l : list X) : subseq s l -> incl s l.
Proof.
  induction 1 as [l|x s l _ IH|x s l _ IH]; intros y Hy.
  - destruct Hy.
  - destruct Hy as [<-|Hy]; [left; reflexivity|right; apply IH, Hy].
  - right. apply IH, Hy.
Qed.

Lemma subseq_NoDup {X} (s l : list X) : subseq s l -> NoDup l -> NoDup s.
Proof.
  induction 1 as [l|x s l Hs IH|x s l Hs IH]; intros Hnd.
  - constructor.
  - inversion Hnd as [|? ? Hx Hnd']; subst. constructor; [|apply IH, Hnd'].
    intros Hin. apply Hx. apply (subseq_incl _ _ Hs). exact Hin.
  - inversion Hnd; subst. apply IH. assumption.
Qed.

Lemma filter_subseq {X} (p : X -> bool) l : subseq (filter p l) l.
Proof.
  induction l as [|x l IH]; [constructor|]. cbn [filter]. destruct (p x); constructor; exact IH.
Qed.

(* a duplicate-free set of candidates, arranged as a sub-sequence of the candidate list *)
Lemma arrange (cands s : list C) : NoDup cands -> NoDup s -> incl s cands ->
  exists s', subseq s' cands /\ length s' = length s /\ forall x, cmem x s' = cmem x s.
Proof.
  intros Hc Hs Hi. exists (filter (fun x => cmem x s) cands).
  assert (Hmem : forall x, In x (filter (fun x => cmem x s) cands) <-> In x s).
  { intros x. rewrite filter_In, cmem_In. split; [tauto|]. intros H. split; [apply Hi, H|exact H]. }
  split; [apply filter_subseq|]. split.
  - apply Permutation_length. apply NoDup_Permutation; [apply NoDup_filter, Hc|exact Hs|exact Hmem].
  - apply cmem_ext. exact Hmem.
Qed.

(* ================================================================ one voter *)
Section Voter.
  Variables (a W : list C) (c : C).
  Hypothesis Ha : NoDup a.
  Hypothesis HW : NoDup W.

  Let k := inter_size a W.
  Definition unrep_b (a W : list C) (c : C) : bool := cmem c a && Nat.eqb (inter_size a W) 0.

  Lemma voter_bound :
    (if unrep_b a W c then inject_Z (Z.of_nat (length W)) else - (1)) <=
    lsum (fun w => harmonic (inter_size a (c :: drop w W)) - harmonic (inter_size a W)) W.
  Proof.
    unfold unrep_b. fold k. destruct (cmem c a && Nat.eqb k 0) eqn:EG.
    - (* an unrepresented supporter of c gains a full point whoever is dropped *)
      apply andb_true_iff in EG. destruct EG as [Hc Hk]. apply Nat.eqb_eq in Hk. rewrite Hk.
      assert (H1 : lsum (fun _ : C => 1) W <= lsum (fun w => harmonic (inter_size a (c :: drop w W)) - harmonic 0) W).
      { apply lsum_le. intros w _. change (harmonic 0) with 0.
        assert (1 <= harmonic (inter_size a (c :: drop w W))).
        { apply harmonic_ge_1. apply (inter_size_pos _ _ c); [apply cmem_In; exact Hc|left; reflexivity]. }
        lra. }
      rewrite lsum_const in H1. lra.
    - (* anybody else loses at most 1/k for each approved member, k of them *)
      destruct k as [|j] eqn:Ek.
      + (* nobody of W approved: nothing to lose *)
        assert (H1 : lsum (fun _ : C => 0) W <= lsum (fun w => harmonic (inter_size a (c :: drop w W)) - harmonic 0) W).
        { apply lsum_le. intros w _. change (harmonic 0) with 0.
          assert (0 <= harmonic (inter_size a (c :: drop w W))) by (apply (harmonic_mono 0); lia). lra. }
        rewrite lsum_const in H1. lra.
      + set (q := 1 # Pos.of_nat (S j)).
        assert (H1 : lsum (fun w => - (if cmem w a then q else 0)) W <=
                     lsum (fun w => harmonic (inter_size a (c :: drop w W)) - harmonic (S j)) W).
        { apply lsum_le. intros w Hw.
          assert (Hm : (inter_size a (drop w W) <= inter_size a (c :: drop w W))%nat)
            by (apply inter_size_mono; intros x Hx; right; exact Hx).
          pose proof (inter_size_drop a W w Ha) as Hd. fold k in Hd. rewrite Ek in Hd.
          destruct (cmem w a) eqn:Ewa.
          - assert (Hj : (j <= inter_size a (c :: drop w W))%nat) by lia.
            apply harmonic_mono in Hj. rewrite harmonic_S. fold q. lra.
          - assert (Hj : (S j <= inter_size a (c :: drop w W))%nat) by lia.
            apply harmonic_mono in Hj. lra. }
        assert (H2 : lsum (fun w => - (if cmem w a then q else 0)) W == - (q * inject_Z (Z.of_nat (length (filter (fun w => cmem w a) W))))).
        { rewrite <- (lsum_indicator (fun w => cmem w a) q W).
          rewrite (lsum_eq (fun w => - (if cmem w a then q else 0)) (fun w => (- (1)) * (if cmem w a then q else 0)) W) by (intros; lra).
          rewrite lsum_scale. lra. }
        pose proof (inter_size_sym_le a W HW) as Hm. fold k in Hm. rewrite Ek in Hm.
        assert (H3 : q * inject_Z (Z.of_nat (length (filter (fun w => cmem w a) W))) <= 1).
        { rewrite <- (pos_of_nat_S j). fold q. rewrite (Qmult_comm (inject_Z _) q).
          apply Qmult_le_l; [reflexivity|]. rewrite <- Zle_Qle. lia. }
        lra.
  Qed.
End Voter.

(* ================================================================ the committee *)
Section JR.
  Variables (votes : aprofile) (cands W : list C) (n : nat).
  Hypothesis Hweights : forall bw, In bw votes -> 0 <= snd bw.
  Hypothesis Hballots : forall bw, In bw votes -> NoDup (fst bw).
  Hypothesis Hcands : NoDup cands.
  Hypothesis HWsub : subseq W cands.
  Hypothesis HWlen : length W = n.
  Hypothesis Hopt : forall s, subseq s cands -> length s = n -> satisfaction votes s <= satisfaction votes W.

  Definition unrep_weight (votes : aprofile) (W : list C) (c : C) : Q :=
    lsum (fun bw : list C * Q => if unrep_b (fst bw) W c then snd bw else 0) votes.

  Let HWnd : NoDup W := subseq_NoDup _ _ HWsub Hcands.

  Lemma swap_not_better c w : In c cands -> ~ In c W -> In w W ->
    satisfaction votes (c :: drop w W) <= satisfaction votes W.
  Proof.
    intros Hc HcW Hw.
    assert (Hnd : NoDup (c :: drop w W)).
    { constructor; [rewrite drop_In; tauto|apply NoDup_filter; exact HWnd]. }
    assert (Hincl : incl (c :: drop w W) cands).
    { intros x [<-|Hx]; [exact Hc|]. apply drop_In in Hx. apply (subseq_incl _ _ HWsub). tauto. }
    destruct (arrange cands _ Hcands Hnd Hincl) as (s & Hs & Hlen & Hmem).
    assert (Hl : length s = n).
    { rewrite Hlen. cbn [length]. rewrite (drop_length w W HWnd Hw). exact HWlen. }
    pose proof (Hopt s Hs Hl) as Hle.
    assert (Heq : satisfaction votes s == satisfaction votes (c :: drop w W)).
    { rewrite !satisfaction_lsum. apply lsum_eq. intros bw _. rewrite (inter_size_ext (fst bw) _ _ Hmem). reflexivity. }
    lra.
  Qed.

  (* the voters approving c and nobody of W weigh at most total / (n + 1) *)
  Theorem pav_jr_bound c : In c cands -> ~ In c W ->
    unrep_weight votes W c * inject_Z (Z.of_nat (n + 1)) <= lsum snd votes.
  Proof.
    intros Hc HcW.
    set (delta := fun (w : C) (bw : list C * Q) =>
                    (harmonic (inter_size (fst bw) (c :: drop w W)) - harmonic (inter_size (fst bw) W)) * snd bw).
    (* no swap improves the committee *)
    assert (H1 : lsum (fun w => lsum (delta w) votes) W <= 0).
    { apply lsum_nonpos. intros w Hw. pose proof (swap_not_better c w Hc HcW Hw) as Hs.
      rewrite !satisfaction_lsum in Hs. unfold delta.
      rewrite (lsum_eq _ (fun bw : list C * Q => harmonic (inter_size (fst bw) (c :: drop w W)) * snd bw
                                                - harmonic (inter_size (fst bw) W) * snd bw) votes) by (intros; lra).
      rewrite lsum_minus. lra. }
    rewrite (lsum_swap delta W votes) in H1.
    (* voter by voter *)
    assert (H2 : lsum (fun bw : list C * Q => snd bw * (if unrep_b (fst bw) W c then inject_Z (Z.of_nat n) else - (1))) votes
                 <= lsum (fun bw => lsum (fun w => delta w bw) W) votes).
    { apply lsum_le. intros bw Hbw. unfold delta.
      rewrite (lsum_eq _ (fun w => snd bw * (harmonic (inter_size (fst bw) (c :: drop w W)) - harmonic (inter_size (fst bw) W))) W)
        by (intros; lra).
      rewrite lsum_scale. pose proof (voter_bound (fst bw) W c (Hballots bw Hbw) HWnd) as Hv. rewrite HWlen in Hv.
      apply Qmult_le_nonneg_l; [apply Hweights, Hbw|exact Hv]. }
    assert (H3 : lsum (fun bw : list C * Q => snd bw * (if unrep_b (fst bw) W c then inject_Z (Z.of_nat n) else - (1))) votes
                 == inject_Z (Z.of_nat (n + 1)) * unrep_weight votes W c - lsum snd votes).
    { unfold unrep_weight. rewrite <- lsum_scale, <- lsum_minus. apply lsum_eq. intros bw _.
      rewrite Nat2Z.inj_add, inject_Z_plus. change (inject_Z (Z.of_nat 1)) with 1.
      destruct (unrep_b (fst bw) W c); lra. }
    lra.
  Qed.
End JR.

(* ================================================================ the candidate list of pav *)
From Coq Require Import Sorted.

Lemma insert_c_In c l x : In x (insert_c c l) <-> x = c \/ In x l.
Proof.
  induction l as [|y t IH]; cbn [insert_c].
  - simpl. split; intros [H|H]; auto.
  - destruct (Pos.eqb c y) eqn:E1.
    + apply Pos.eqb_eq in E1. subst y. simpl. split; [tauto|]. intros [->|H]; auto.
    + destruct (Pos.ltb c y); [simpl; split; intros [H|H]; auto|].
      simpl. rewrite IH. tauto.
Qed.

Lemma insert_c_sorted c l : StronglySorted Pos.lt l -> StronglySorted Pos.lt (insert_c c l).
Proof.
  induction l as [|y t IH]; intros Hs; cbn [insert_c]; [repeat constructor|].
  inversion Hs as [|? ? Hst Hall]; subst.
  destruct (Pos.eqb c y) eqn:E1; [exact Hs|]. apply Pos.eqb_neq in E1.
  destruct (Pos.ltb c y) eqn:E2.
  - apply Pos.ltb_lt in E2. constructor; [exact Hs|]. constructor; [exact E2|].
    eapply Forall_impl; [|exact Hall]. intros z Hz. simpl in Hz. lia.
  - apply Pos.ltb_ge in E2. constructor; [apply IH, Hst|].
    apply Forall_forall. intros z Hz. apply insert_c_In in Hz. destruct Hz as [->|Hz]; [lia|].
    rewrite Forall_forall in Hall. apply Hall, Hz.
Qed.

Lemma sorted_NoDup (l : list C) : StronglySorted Pos.lt l -> NoDup l.
Proof.
  induction 1 as [|x l Hs IH Hall]; constructor; [|exact IH].
  intros Hin. rewrite Forall_forall in Hall. apply Hall in Hin. lia.
Qed.

Lemma canon_set_spec l : NoDup (canon_set l) /\ forall x, In x (canon_set l) <-> In x l.
Proof.
  unfold canon_set.
  assert (H : forall l acc, StronglySorted Pos.lt acc ->
            StronglySorted Pos.lt (fold_left (fun s c => insert_c c s) l acc) /\
            forall x, In x (fold_left (fun s c => insert_c c s) l acc) <-> In x acc \/ In x l).
  { clear l. induction l as [|c l IH]; intros acc Hacc; cbn [fold_left].
    - split; [exact Hacc|]. intros x. simpl. tauto.
    - destruct (IH (insert_c c acc) (insert_c_sorted c acc Hacc)) as [H1 H2]. split; [exact H1|].
      intros x. rewrite H2, insert_c_In. simpl. split; intros [H|H]; auto; destruct H; auto. }
  destruct (H l [] (SSorted_nil _)) as [H1 H2]. split; [apply sorted_NoDup, H1|].
  intros x. rewrite H2. simpl. tauto.
Qed.

(* ================================================================ justified representation *)
Lemma group_weight_le (votes G : aprofile) W c :
  (forall bw, In bw votes -> 0 <= snd bw) ->
  subseq G votes -> (forall bw, In bw G -> unrep_b (fst bw) W c = true) ->
  lsum snd G <= unrep_weight votes W c.
Proof.
  intros Hw Hs. unfold unrep_weight. induction Hs as [l|bw s l Hs IH|bw s l Hs IH]; intros HG.
  - change (lsum snd []) with 0. rewrite <- (Qmult_0_l (inject_Z (Z.of_nat (length l)))), <- lsum_const.
    apply lsum_le. intros bw Hbw. pose proof (Hw bw Hbw). destruct (unrep_b (fst bw) W c); lra.
  - rewrite !lsum_cons. rewrite (HG bw (or_introl eq_refl)).
    assert (lsum snd s <= lsum (fun bw : list C * Q => if unrep_b (fst bw) W c then snd bw else 0) l).
    { apply IH; [intros b Hb; apply Hw; right; exact Hb|intros b Hb; apply HG; right; exact Hb]. }
    lra.
  - rewrite lsum_cons.
    assert (lsum snd s <= lsum (fun bw : list C * Q => if unrep_b (fst bw) W c then snd bw else 0) l).
    { apply IH; [intros b Hb; apply Hw; right; exact Hb|exact HG]. }
    pose proof (Hw bw (or_introl eq_refl)). destruct (unrep_b (fst bw) W c); lra.
Qed.

Lemma unrep_b_true a W c : In c a -> (forall w, In w W -> ~ In w a) -> unrep_b a W c = true.
Proof.
  intros Hc Hno. unfold unrep_b. apply andb_true_iff. split; [apply cmem_In, Hc|].
  apply Nat.eqb_eq. apply inter_size_zero. intros x Hx HxW. exact (Hno x HxW Hx).
Qed.

(* no group approving a common candidate c and nobody of the PAV committee W weighs more than total / (n + 1) *)
Theorem pav_jr_groups votes n W :
  (forall bw, In bw votes -> 0 <= snd bw /\ NoDup (fst bw)) ->
  pav_best votes (canon_set (flat_map fst votes)) n = [W] ->
  forall G c, subseq G votes ->
    (forall bw, In bw G -> In c (fst bw) /\ forall w, In w W -> ~ In w (fst bw)) ->
    qsum (map snd G) * inject_Z (Z.of_nat (n + 1)) <= qsum (map snd votes).
Proof.
  intros Hv Hbest G c HG Hgrp.
  destruct (pav_best_optimal _ _ _ _ Hbest) as [Hin Hopt].
  destruct (combos_sound _ _ _ Hin) as [HWsub HWlen].
  destruct (canon_set_spec (flat_map fst votes)) as [Hnd Hmem].
  assert (Hw : forall bw, In bw votes -> 0 <= snd bw) by (intros bw Hbw; apply Hv, Hbw).
  assert (Hb : forall bw, In bw votes -> NoDup (fst bw)) by (intros bw Hbw; apply Hv, Hbw).
  rewrite !qsum_lsum, !lsum_map.
  assert (Hn0 : 0 <= inject_Z (Z.of_nat (n + 1))) by (change 0 with (inject_Z 0); rewrite <- Zle_Qle; lia).
  destruct G as [|bw0 G'] eqn:EG.
  - change (lsum (fun x : list C * Q => snd x) []) with 0. rewrite Qmult_0_l.
    rewrite <- (Qmult_0_l (inject_Z (Z.of_nat (length votes)))), <- lsum_const. apply lsum_le. exact Hw.
  - rewrite <- EG in *.
    assert (Hbw0 : In bw0 G) by (rewrite EG; left; reflexivity).
    destruct (Hgrp bw0 Hbw0) as [Hc0 Hno0].
    assert (Hc : In c (canon_set (flat_map fst votes))).
    { apply Hmem. apply in_flat_map. exists bw0. split; [apply (subseq_incl _ _ HG), Hbw0|exact Hc0]. }
    assert (HcW : ~ In c W) by (intros H; exact (Hno0 c H Hc0)).
    pose proof (pav_jr_bound votes _ W n Hw Hb Hnd HWsub HWlen (fun s Hs Hl => proj1 (Hopt s Hs Hl)) c Hc HcW) as Hbound.
    assert (Hle : lsum snd G <= unrep_weight votes W c).
    { apply group_weight_le; [exact Hw|exact HG|]. intros bw Hbw. destruct (Hgrp bw Hbw) as [H1 H2]. apply unrep_b_true; assumption. }
    assert (Hmul : lsum snd G * inject_Z (Z.of_nat (n + 1)) <= unrep_weight votes W c * inject_Z (Z.of_nat (n + 1)))
      by (apply Qmult_le_compat_r; assumption).
    change (lsum (fun x : list C * Q => snd x)) with (@lsum (list C * Q) snd). lra.
Qed.

(* justified representation: a group that deserves a seat (weight >= total / n) and agrees on a candidate
   is not left without any representative *)
Theorem pav_jr votes n W :
  (forall bw, In bw votes -> 0 <= snd bw /\ NoDup (fst bw)) ->
  pav_best votes (canon_set (flat_map fst votes)) n = [W] ->
  forall G c, subseq G votes ->
    (forall bw, In bw G -> In c (fst bw) /\ forall w, In w W -> ~ In w (fst bw)) ->
    0 < qsum (map snd G) ->
    qsum (map snd G) * inject_Z (Z.of_nat n) < qsum (map snd votes).
Proof.
  intros Hv Hbest G c HG Hgrp Hpos.
  pose proof (pav_jr_groups votes n W Hv Hbest G c HG Hgrp) as H.
  rewrite Nat2Z.inj_add, inject_Z_plus in H. change (inject_Z (Z.of_nat 1)) with 1 in H. lra.
Qed.

(* what pav returns is the maximising committee, listed in some order *)
Theorem pav_committee votes n r : pav votes n = AR_ok r ->
  exists W s, pav_best votes (canon_set (flat_map fst votes)) n = [W] /\ Permutation s W /\ r = map Cand s.
Proof.
  unfold pav. destruct (pav_best votes (canon_set (flat_map fst votes)) n) as [|alt [|b t]]; try discriminate.
  intros [= <-]. set (drops := map (fun c => (c, - satisfaction votes (filter (fun x => negb (ceqb x c)) alt))) alt).
  exists alt, (map fst (sort_desc Qle_bool drops)). split; [reflexivity|]. split.
  - eapply Permutation_trans; [apply Permutation_map, sort_desc_perm|]. unfold drops. rewrite map_map. simpl. rewrite map_id. reflexivity.
  - unfold get_n_best. rewrite sort_desc_length. unfold drops at 1. rewrite map_length, Nat.ltb_irrefl, map_map. reflexivity.
Qed.
