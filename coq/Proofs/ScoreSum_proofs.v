(* ScoreToSimpleVotes (Model/Cardinal.v score_to_simple, convert.py L160-252) as a vote converter (C13).

   The converter first tallies, per candidate, how often each score was given ([raw_scores]: candidate -> score -> count),
   and only then aggregates.  The tallies are SUMS over the ballots: for every weight function phi of the score,

        sum over the dictionary of candidate c of  phi(score) * count  ==  psum phi c votes              [wq_raw]

   where [psum phi c votes] = sum over the ballots (b, n) of n * sum over the pairs (c, s) of b of phi(s).
   With phi = identity this is the `sum` aggregate itself: per-ballot exact (the image of a ballot is its own (candidate, score)
   pairs) and additive.  `mean` is the quotient of two such tallies and `median_low` is fixed by three of them
   (2 * #below < #all <= 2 * #at-most): exact statements, and neither is additive.
   All for the plain configuration (no unscored_value, min_count <= 0, no truncation) and ballot counts >= 0. *)
From Coq Require Import ZArith QArith Qround Qreduction List Bool Arith Lia Lqa Permutation.
From VL Require Import Prelude.PyDict Model.GetNBest Model.Convert Model.Cardinal
     Proofs.QOrd Proofs.Dict_proofs Proofs.MJ_proofs Proofs.MJ_removal_proofs Proofs.ScoreDict_proofs Proofs.ScoreOrder_proofs.
Import ListNotations.
Open Scope Q_scope.

(* ================= weighted counts of a score dictionary ================= *)
Definition wq (phi : Q -> Q) (d : cscores) : Q := fold_right (fun sn acc => phi (fst sn) * inject_Z (snd sn) + acc) 0 d.
Definition phi_ok (phi : Q -> Q) : Prop := forall a b, a == b -> phi a == phi b.

Lemma wq_cons phi sn d : wq phi (sn :: d) = phi (fst sn) * inject_Z (snd sn) + wq phi d.
Proof. reflexivity. Qed.

Lemma wq_set phi d s w : phi_ok phi -> wq phi (cs_set d s (odf (cs_get d s) + w)) == wq phi d + phi s * inject_Z w.
Proof.
  intros Hp. induction d as [|[s' n'] t IH]; cbn [cs_set cs_get odf].
  - rewrite !wq_cons. cbn [fst snd wq fold_right]. rewrite inject_Z_plus. ring.
  - destruct (Qeq_bool s s') eqn:E; cbn [odf].
    + apply Qeq_bool_iff in E. rewrite !wq_cons. cbn [fst snd]. rewrite inject_Z_plus, (Hp s s' E). ring.
    + rewrite !wq_cons. cbn [fst snd]. rewrite IH. ring.
Qed.

(* ================= the tallies as sums over the ballots ================= *)
Definition bsum (phi : Q -> Q) (c : C) (b : sballot) : Q :=
  fold_right (fun cs acc => (if ceqb c (fst cs) then phi (snd cs) else 0) + acc) 0 b.
Definition psum (phi : Q -> Q) (c : C) (votes : sprofile) : Q :=
  fold_right (fun bn acc => inject_Z (snd bn) * bsum phi c (fst bn) + acc) 0 votes.
Definition insum (phi : Q -> Q) (c : C) (l : list instr) : Q :=
  fold_right (fun i acc => (if ceqb c (fst (fst i)) then phi (snd (fst i)) * inject_Z (snd i) else 0) + acc) 0 l.

Lemma insum_app phi c a b : insum phi c (a ++ b) == insum phi c a + insum phi c b.
Proof. unfold insum. induction a as [|i a IH]; cbn [app fold_right]; [ring|]. rewrite IH. ring. Qed.

Lemma insum_ballot phi c (b : sballot) n :
  insum phi c (map (fun cs : C * Q => (fst cs, snd cs, n)) b) == inject_Z n * bsum phi c b.
Proof.
  unfold insum, bsum. induction b as [|[c' s] b IH]; cbn [map fold_right fst snd]; [ring|].
  rewrite IH. destruct (ceqb c c'); ring.
Qed.

Lemma insum_instrs phi c votes : insum phi c (instrs votes) == psum phi c votes.
Proof.
  unfold instrs, psum. induction votes as [|[b n] votes IH]; cbn [flat_map fold_right fst snd]; [reflexivity|].
  rewrite insum_app, insum_ballot, IH. reflexivity.
Qed.

Lemma psum_app phi c a b : psum phi c (a ++ b) == psum phi c a + psum phi c b.
Proof. unfold psum. induction a as [|bn a IH]; cbn [app fold_right]; [ring|]. rewrite IH. ring. Qed.

Lemma psum_single phi c b n : psum phi c [(b, n)] == inject_Z n * bsum phi c b.
Proof. unfold psum. cbn [fold_right fst snd]. ring. Qed.

Lemma W_sstep phi D i c : phi_ok phi ->
  wq phi (look (sstep D i) c) == wq phi (look D c) + (if ceqb c (fst (fst i)) then phi (snd (fst i)) * inject_Z (snd i) else 0).
Proof.
  intros Hp. rewrite look_sstep. destruct (ceqb c (fst (fst i))) eqn:E; [|ring].
  apply ceqb_eq in E. subst c. unfold g. apply wq_set, Hp.
Qed.

Lemma W_fold phi c l : phi_ok phi -> forall D, wq phi (look (fold_left sstep l D) c) == wq phi (look D c) + insum phi c l.
Proof.
  intros Hp. induction l as [|i l IH]; intros D; cbn [fold_left insum fold_right]; [ring|].
  fold (insum phi c l). rewrite IH, W_sstep by exact Hp. ring.
Qed.

(* every tally of the dictionary of a candidate is the sum of the ballots' contributions *)
Theorem wq_raw phi c votes : phi_ok phi -> wq phi (look (raw_scores votes) c) == psum phi c votes.
Proof.
  intros Hp. rewrite raw_scores_instrs, (W_fold phi c _ Hp), insum_instrs. unfold look. cbn [dget wq fold_right]. ring.
Qed.

(* the candidates of the output: those scored by some ballot *)
Lemma raw_scores_keys votes c :
  In c (map fst (raw_scores votes)) <-> exists b n s, In (b, n) votes /\ In (c, s) b.
Proof.
  rewrite <- dmem_In, raw_scores_instrs, dmem_fold.
  replace (dmem (@nil (C * cscores)) c) with false by reflexivity. rewrite orb_false_r, existsb_exists.
  unfold instrs. split.
  - intros ([[c' s] n] & Hin & E). cbn [fst] in E. apply ceqb_eq in E. subst c'.
    apply in_flat_map in Hin. destruct Hin as ([b n'] & Hb & Hi). cbn [fst snd] in Hi.
    apply in_map_iff in Hi. destruct Hi as ([c2 s2] & E2 & Hcs). cbn [fst snd] in E2. injection E2 as -> -> ->.
    exists b, n, s. split; assumption.
  - intros (b & n & s & Hb & Hcs). exists (c, s, n). split; [|cbn [fst]; apply ceqb_refl].
    apply in_flat_map. exists (b, n). split; [exact Hb|]. cbn [fst snd]. apply in_map_iff. exists (c, s). split; [reflexivity|exact Hcs].
Qed.

(* ================= the expanded list of scores ================= *)
Lemma qsum_shift l : forall a, fold_left Qplus l a == a + fold_left Qplus l 0.
Proof. induction l as [|x l IH]; intros a; cbn [fold_left]; [ring|]. rewrite IH, (IH (0 + x)). ring. Qed.

Lemma qsum_app a b : fold_left Qplus (a ++ b) 0 == fold_left Qplus a 0 + fold_left Qplus b 0.
Proof. rewrite fold_left_app, qsum_shift. reflexivity. Qed.

Lemma qsum_repeat s k : fold_left Qplus (repeat s k) 0 == s * inject_Z (Z.of_nat k).
Proof.
  induction k as [|k IH]; [cbn; ring|]. cbn [repeat fold_left]. rewrite qsum_shift, IH, Nat2Z.inj_succ.
  unfold Z.succ. rewrite inject_Z_plus. ring.
Qed.

Lemma sum_expand d : cs_nonneg d -> fold_left Qplus (expand d) 0 == wq (fun s => s) d.
Proof.
  unfold expand. induction 1 as [|[s n] d Hn _ IH]; [reflexivity|]. cbn [flat_map fst snd] in *.
  rewrite qsum_app, qsum_repeat, IH, wq_cons, Z2Nat.id by exact Hn. reflexivity.
Qed.

Lemma wcnt_wq p d : cs_nonneg d -> inject_Z (Z.of_nat (wcnt p d)) == wq (fun s => if p s then 1 else 0) d.
Proof.
  induction 1 as [|[s n] d Hn _ IH]; [reflexivity|]. rewrite wcnt_cons, wq_cons, Nat2Z.inj_add, inject_Z_plus, IH.
  cbn [fst snd] in *. destruct (p s); [rewrite Z2Nat.id by exact Hn; ring|cbn; ring].
Qed.

Lemma length_wq d : cs_nonneg d -> inject_Z (Z.of_nat (length (expand d))) == wq (fun _ => 1) d.
Proof. intros H. rewrite <- wcnt_length, (wcnt_wq (fun _ => true) d H). reflexivity. Qed.

(* ================= the plain configuration: no correction of the tallies ================= *)
Definition plain_cfg (cf : score_cfg) : bool :=
  match sc_unscored cf with UNone => (sc_min_count cf <=? 0)%Z && Qle_bool (sc_trunc cf) 0 | _ => false end.
Definition counts_nonneg (votes : sprofile) : bool := forallb (fun bn : sballot * Z => (0 <=? snd bn)%Z) votes.

Lemma counts_nonneg_spec votes : counts_nonneg votes = true -> forall bn, In bn votes -> (0 <= snd bn)%Z.
Proof. unfold counts_nonneg. rewrite forallb_forall. intros H bn Hin. apply Z.leb_le, H, Hin. Qed.

Lemma correct_plain cf d nv : plain_cfg cf = true -> cs_nonneg d -> correct_scores cf d nv = inl d.
Proof.
  unfold plain_cfg, correct_scores. destruct (sc_unscored cf); try discriminate. intros H Hd.
  apply andb_true_iff in H. destruct H as [H1 H2]. apply Z.leb_le in H1.
  pose proof (cs_total_nonneg d Hd) as Ht.
  assert ((cs_total d <? sc_min_count cf)%Z = false) as -> by (apply Z.ltb_ge; lia).
  rewrite H2. reflexivity.
Qed.

Lemma sequence_all_inl {X Y} (l : list (X * Y)) (f : X * Y -> Y + serr) :
  (forall xy, In xy l -> f xy = inl (snd xy)) -> sequence (map (fun xy => (fst xy, f xy)) l) = inl l.
Proof.
  induction l as [|[x y] l IH]; intros H; cbn [map sequence fst]; [reflexivity|].
  rewrite (H (x, y) (or_introl eq_refl)). cbn [snd]. rewrite IH; [reflexivity|]. intros xy Hin. apply H. right. exact Hin.
Qed.

Lemma corrected_plain cf votes : plain_cfg cf = true -> counts_nonneg votes = true ->
  corrected_scores cf votes = inl (raw_scores votes).
Proof.
  intros Hc Hv. unfold corrected_scores. cbv zeta. apply sequence_all_inl. intros cd Hin.
  apply correct_plain; [exact Hc|]. apply (raw_scores_okd votes (counts_nonneg_spec votes Hv) cd Hin).
Qed.

Lemma score_plain cf votes : plain_cfg cf = true -> counts_nonneg votes = true ->
  score_to_simple cf votes = aggregate (sc_fn cf) (raw_scores votes).
Proof. intros Hc Hv. unfold score_to_simple. rewrite (corrected_plain cf votes Hc Hv). reflexivity. Qed.

Lemma raw_look votes c d : In (c, d) (raw_scores votes) -> look (raw_scores votes) c = d.
Proof. intros H. unfold look. rewrite (In_dget _ _ _ (raw_scores_nodup votes) H). reflexivity. Qed.

(* ================= sum: per-ballot exact ================= *)
Definition sum_out (votes : sprofile) : list (C * Q) :=
  map (fun cd : C * cscores => (fst cd, Qred (fold_left Qplus (expand (snd cd)) 0))) (raw_scores votes).

Lemma aggregate_sum sc : aggregate FSum sc = inl (map (fun cd : C * cscores => (fst cd, Qred (fold_left Qplus (expand (snd cd)) 0))) sc).
Proof.
  unfold aggregate. induction sc as [|[c d] sc IH]; cbn [map fst snd]; [reflexivity|].
  change (aggregate_one FSum d) with (@inl Q serr (Qred (fold_left Qplus (expand d) 0))).
  cbn [sequence]. rewrite IH. reflexivity.
Qed.

Theorem score_sum_runs cf votes : sc_fn cf = FSum -> plain_cfg cf = true -> counts_nonneg votes = true ->
  score_to_simple cf votes = inl (sum_out votes).
Proof. intros Hf Hc Hv. rewrite (score_plain cf votes Hc Hv), Hf. apply aggregate_sum. Qed.

Theorem sum_out_value votes c : counts_nonneg votes = true -> dget_or (sum_out votes) c 0 == psum (fun s => s) c votes.
Proof.
  intros Hv. rewrite <- (wq_raw (fun s => s) c votes) by (intros a b H; exact H).
  unfold sum_out, dget_or, look. rewrite (dget_map_vals (fun d : cscores => Qred (fold_left Qplus (expand d) 0))). destruct (dget (raw_scores votes) c) as [d|] eqn:E; cbn [option_map]; [|reflexivity].
  rewrite Qred_correct. apply sum_expand. apply dget_In in E.
  apply (raw_scores_okd votes (counts_nonneg_spec votes Hv) (c, d) E).
Qed.

Lemma sum_out_keys votes : map fst (sum_out votes) = map fst (raw_scores votes).
Proof. unfold sum_out. rewrite map_map. reflexivity. Qed.

(* ================= mean and median: exact statements ================= *)
Theorem score_mean_value cf votes out c x : sc_fn cf = FMean -> plain_cfg cf = true -> counts_nonneg votes = true ->
  score_to_simple cf votes = inl out -> In (c, x) out ->
  0 < psum (fun _ => 1) c votes /\ x * psum (fun _ => 1) c votes == psum (fun s => s) c votes.
Proof.
  intros Hf Hc Hv Hr Hin. rewrite (score_plain cf votes Hc Hv), Hf in Hr.
  destruct (aggregate_in _ _ _ _ _ Hr Hin) as (d & Hd & Ha).
  assert (Hn : cs_nonneg d) by apply (raw_scores_okd votes (counts_nonneg_spec votes Hv) (c, d) Hd).
  rewrite <- (wq_raw (fun _ => 1) c votes) by (intros a b _; reflexivity).
  rewrite <- (wq_raw (fun s => s) c votes) by (intros a b H; exact H).
  rewrite (raw_look votes c d Hd), <- (length_wq d Hn), <- (sum_expand d Hn).
  unfold aggregate_one in Ha. cbv zeta in Ha. destruct (expand d) as [|y l] eqn:E; [discriminate|].
  apply (f_equal (fun r : Q + serr => match r with inl v => v | inr _ => 0 end)) in Ha. cbv beta iota in Ha. subst x.
  assert (Hpos : 0 < inject_Z (Z.of_nat (length (y :: l)))).
  { change 0 with (inject_Z 0). rewrite <- Zlt_Qlt. cbn [length]. lia. }
  split; [exact Hpos|]. rewrite Qred_correct. field. intros H0. rewrite H0 in Hpos. apply (Qlt_irrefl 0 Hpos).
Qed.

Definition below (m s : Q) : Q := if ltv m s then 1 else 0.       (* s < m *)
Definition atmost (m s : Q) : Q := if lev m s then 1 else 0.      (* s <= m *)

Lemma below_ok m : phi_ok (below m).
Proof.
  intros a b H. unfold below, ltv. rewrite (Qle_bool_resp m m a b (Qeq_refl m) H). reflexivity.
Qed.
Lemma atmost_ok m : phi_ok (atmost m).
Proof.
  intros a b H. unfold atmost, lev. rewrite (Qle_bool_resp a b m m H (Qeq_refl m)). reflexivity.
Qed.

Theorem score_median_value cf votes out c m : sc_fn cf = FMedianLow -> plain_cfg cf = true -> counts_nonneg votes = true ->
  score_to_simple cf votes = inl out -> In (c, m) out ->
  2 * psum (below m) c votes < psum (fun _ => 1) c votes /\ psum (fun _ => 1) c votes <= 2 * psum (atmost m) c votes.
Proof.
  intros Hf Hc Hv Hr Hin. rewrite (score_plain cf votes Hc Hv), Hf in Hr.
  destruct (aggregate_in _ _ _ _ _ Hr Hin) as (d & Hd & Ha).
  assert (Hn : cs_nonneg d) by apply (raw_scores_okd votes (counts_nonneg_spec votes Hv) (c, d) Hd).
  rewrite <- (wq_raw (fun _ => 1) c votes) by (intros a b _; reflexivity).
  rewrite <- (wq_raw (below m) c votes) by apply below_ok.
  rewrite <- (wq_raw (atmost m) c votes) by apply atmost_ok.
  rewrite (raw_look votes c d Hd), <- (length_wq d Hn).
  unfold below, atmost. rewrite <- (wcnt_wq (ltv m) d Hn), <- (wcnt_wq (lev m) d Hn).
  destruct (median_counts d m Ha) as (HN & H1 & H2 & _). cbv zeta in *.
  destruct (midx_bounds _ HN) as (B1 & B2).
  change 2 with (inject_Z 2). rewrite <- !inject_Z_mult, <- Zlt_Qlt, <- Zle_Qle. lia.
Qed.

(* ================= neither mean nor median is additive ================= *)
Definition cfg_of (fn : aggfn) : score_cfg :=
  {| sc_fn := fn; sc_unscored := UNone; sc_min_count := 0; sc_trunc := 0; sc_bottom := 0 |}.

Lemma score_mean_not_additive :
  exists a b oa ob oab c,
    plain_cfg (cfg_of FMean) = true /\ counts_nonneg a = true /\ counts_nonneg b = true /\
    score_to_simple (cfg_of FMean) a = inl oa /\ score_to_simple (cfg_of FMean) b = inl ob /\
    score_to_simple (cfg_of FMean) (a ++ b) = inl oab /\
    ~ dget_or oab c 0 == dget_or oa c 0 + dget_or ob c 0.
Proof.
  exists [([(1%positive, 0)], 1%Z)], [([(1%positive, 4)], 1%Z)], [(1%positive, 0)], [(1%positive, 4)], [(1%positive, 2)], 1%positive.
  repeat split. vm_compute. discriminate.
Qed.

Lemma score_median_not_additive :
  exists a b oa ob oab c,
    plain_cfg (cfg_of FMedianLow) = true /\ counts_nonneg a = true /\ counts_nonneg b = true /\
    score_to_simple (cfg_of FMedianLow) a = inl oa /\ score_to_simple (cfg_of FMedianLow) b = inl ob /\
    score_to_simple (cfg_of FMedianLow) (a ++ b) = inl oab /\
    ~ dget_or oab c 0 == dget_or oa c 0 + dget_or ob c 0.
Proof.
  exists [([(1%positive, 1)], 1%Z)], [([(1%positive, 4)], 1%Z)], [(1%positive, 1)], [(1%positive, 4)], [(1%positive, 1)], 1%positive.
  repeat split. vm_compute. discriminate.
Qed.

(* ================= sum with a constant unscored_value: a profile-dependent image =================
   unscored_value = v: every ballot also gives v to each candidate OF THE PROFILE it does not score.  Like the positional or the inverted
   approval image this reads the candidate set off the profile: the sum is additive over profiles that score the same candidates. *)
Definition ptotal (votes : sprofile) : Q := fold_right (fun bn acc => inject_Z (snd bn) + acc) 0 votes.

Lemma ptotal_app a b : ptotal (a ++ b) == ptotal a + ptotal b.
Proof. unfold ptotal. induction a as [|bn a IH]; cbn [app fold_right]; [ring|]. rewrite IH. ring. Qed.

Lemma n_votes_ptotal votes : inject_Z (fold_left Z.add (map snd votes) 0%Z) == ptotal votes.
Proof.
  unfold ptotal. induction votes as [|bn votes IH]; cbn [map fold_left fold_right]; [reflexivity|].
  rewrite fold_add_shift, inject_Z_plus, IH. change (0 + snd bn)%Z with (snd bn). reflexivity.
Qed.

Lemma total_wq d : inject_Z (cs_total d) == wq (fun _ => 1) d.
Proof.
  induction d as [|sn d IH]; [reflexivity|]. rewrite cs_total_cons, inject_Z_plus, IH, wq_cons. ring.
Qed.

Definition const_cfg (cf : score_cfg) (v : Q) : Prop :=
  sc_fn cf = FSum /\ sc_unscored cf = UConst v /\ (sc_min_count cf <= 0)%Z /\ Qle_bool (sc_trunc cf) 0 = true.

Definition fill (v : Q) (nv : Z) (d : cscores) : cscores := cs_set d v (nv - cs_total d + odf (cs_get d v)).

Lemma correct_const cf d nv v : const_cfg cf v -> cs_nonneg d -> correct_scores cf d nv = inl (fill v nv d).
Proof.
  intros (_ & Hu & Hm & Ht) Hd. unfold correct_scores. rewrite Hu.
  pose proof (cs_total_nonneg d Hd) as Hn.
  assert ((cs_total d <? sc_min_count cf)%Z = false) as -> by (apply Z.ltb_ge; lia).
  rewrite Ht. reflexivity.
Qed.

Lemma sequence_all_inl_map {X Y Z'} (l : list (X * Y)) (f : X * Y -> Z' + serr) (g : Y -> Z') :
  (forall xy, In xy l -> f xy = inl (g (snd xy))) ->
  sequence (map (fun xy => (fst xy, f xy)) l) = inl (map (fun xy => (fst xy, g (snd xy))) l).
Proof.
  induction l as [|[x y] l IH]; intros H; cbn [map sequence fst snd]; [reflexivity|].
  rewrite (H (x, y) (or_introl eq_refl)). cbn [snd]. rewrite IH; [reflexivity|]. intros xy Hin. apply H. right. exact Hin.
Qed.

Definition const_out (v : Q) (votes : sprofile) : list (C * Q) :=
  map (fun cd : C * cscores => (fst cd, Qred (fold_left Qplus (expand (fill v (fold_left Z.add (map snd votes) 0%Z) (snd cd))) 0)))
      (raw_scores votes).

Theorem score_const_runs cf v votes : const_cfg cf v -> profile_ok votes -> score_to_simple cf votes = inl (const_out v votes).
Proof.
  intros Hc Hv. unfold score_to_simple, corrected_scores. cbv zeta.
  rewrite (sequence_all_inl_map (raw_scores votes) _ (fill v (fold_left Z.add (map snd votes) 0%Z))).
  - destruct Hc as (-> & _). rewrite aggregate_sum, map_map. reflexivity.
  - intros cd Hin. apply (correct_const cf _ _ v Hc).
    apply (raw_scores_okd votes (fun bn H => proj1 (Hv bn H)) cd Hin).
Qed.

Theorem const_out_value v votes c : profile_ok votes -> In c (map fst (raw_scores votes)) ->
  dget_or (const_out v votes) c 0 == psum (fun s => s) c votes + v * (ptotal votes - psum (fun _ => 1) c votes).
Proof.
  intros Hv Hc. apply in_map_iff in Hc. destruct Hc as ([c' d] & E & Hin). cbn [fst] in E. subst c'.
  rewrite <- (wq_raw (fun s => s) c votes) by (intros a b H; exact H).
  rewrite <- (wq_raw (fun _ => 1) c votes) by (intros a b _; reflexivity).
  rewrite (raw_look votes c d Hin), <- n_votes_ptotal, <- total_wq.
  unfold const_out, dget_or.
  rewrite (dget_map_vals (fun d0 : cscores => Qred (fold_left Qplus (expand (fill v (fold_left Z.add (map snd votes) 0%Z) d0)) 0))).
  rewrite (In_dget _ _ _ (raw_scores_nodup votes) Hin). cbn [option_map].
  pose proof (raw_scores_okd votes (fun bn H => proj1 (Hv bn H)) (c, d) Hin) as [Hn _]. cbn [snd] in Hn.
  pose proof (raw_scores_bound votes Hv (c, d) Hin) as Hb. cbn [snd] in Hb.
  set (nv := fold_left Z.add (map snd votes) 0%Z) in *.
  assert (Hb' : (cs_total d <= nv)%Z) by exact Hb.
  assert (Hg : (0 <= odf (cs_get d v))%Z).
  { destruct (cs_get d v) as [k|] eqn:E; cbn [odf]; [exact (cs_get_nonneg d v k Hn E)|lia]. }
  rewrite Qred_correct, sum_expand.
  - unfold fill. replace (nv - cs_total d + odf (cs_get d v))%Z with (odf (cs_get d v) + (nv - cs_total d))%Z by lia.
    rewrite (wq_set (fun s => s) d v (nv - cs_total d)) by (intros a b H; exact H).
    unfold Zminus. rewrite inject_Z_plus, inject_Z_opp. ring.
  - unfold fill. apply cs_set_nonneg_gen; [exact Hn|lia].
Qed.

Lemma const_out_keys v votes : map fst (const_out v votes) = map fst (raw_scores votes).
Proof. unfold const_out. rewrite map_map. reflexivity. Qed.

Lemma profile_ok_app a b : profile_ok a -> profile_ok b -> profile_ok (a ++ b).
Proof. intros Ha Hb bn Hin. apply in_app_or in Hin. destruct Hin as [H|H]; [apply Ha, H|apply Hb, H]. Qed.

Lemma raw_keys_app a b c : In c (map fst (raw_scores a)) -> In c (map fst (raw_scores (a ++ b))).
Proof.
  rewrite !raw_scores_keys. intros (x & n & s & H1 & H2). exists x, n, s. split; [apply in_or_app; left; exact H1|exact H2].
Qed.

(* additive on a candidate both profiles score (in particular: on two profiles that score the same candidates) *)
Theorem score_const_additive cf v a b oa ob oab c : const_cfg cf v -> profile_ok a -> profile_ok b ->
  In c (map fst (raw_scores a)) -> In c (map fst (raw_scores b)) ->
  score_to_simple cf a = inl oa -> score_to_simple cf b = inl ob -> score_to_simple cf (a ++ b) = inl oab ->
  dget_or oab c 0 == dget_or oa c 0 + dget_or ob c 0.
Proof.
  intros Hc Ha Hb Ca Cb Ra Rb Rab.
  rewrite (score_const_runs cf v a Hc Ha) in Ra. rewrite (score_const_runs cf v b Hc Hb) in Rb.
  rewrite (score_const_runs cf v (a ++ b) Hc (profile_ok_app a b Ha Hb)) in Rab.
  injection Ra as <-. injection Rb as <-. injection Rab as <-.
  rewrite (const_out_value v a c Ha Ca), (const_out_value v b c Hb Cb),
          (const_out_value v (a ++ b) c (profile_ok_app a b Ha Hb) (raw_keys_app a b c Ca)).
  rewrite !psum_app, ptotal_app. ring.
Qed.

(* the candidate-set condition is needed: a candidate only one of the two profiles scores *)
Lemma score_const_needs_same_cands :
  exists cf a b oa ob oab c,
    const_cfg cf 1 /\ profile_ok a /\ profile_ok b /\
    score_to_simple cf a = inl oa /\ score_to_simple cf b = inl ob /\ score_to_simple cf (a ++ b) = inl oab /\
    ~ dget_or oab c 0 == dget_or oa c 0 + dget_or ob c 0.
Proof.
  exists {| sc_fn := FSum; sc_unscored := UConst 1; sc_min_count := 0; sc_trunc := 0; sc_bottom := 0 |},
         [([(1%positive, 3)], 1%Z)], [([(2%positive, 3)], 1%Z)], [(1%positive, 3)], [(2%positive, 3)], [(1%positive, 4); (2%positive, 4)], 1%positive.
  split; [|split; [|split]].
  - split; [reflexivity|split; [reflexivity|split; [apply Z.le_refl|reflexivity]]].
  - intros bn [<-|[]]. split; [cbn; lia|repeat constructor; intros []].
  - intros bn [<-|[]]. split; [cbn; lia|repeat constructor; intros []].
  - repeat split. vm_compute. discriminate.
Qed.
