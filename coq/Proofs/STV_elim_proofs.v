(* The elimination rule of the transferable-vote count (C03): when nobody reaches the quota, next_count eliminates
   exactly the configured number of lowest continuing candidates; the exhausted pile is never a contender; a tie at
   the cut is a NotImplementedError refusal. *)
From Coq Require Import ZArith QArith List Bool Lia Arith Permutation.
From VL Require Import Prelude.PyDict Model.GetNBest Model.Convert Model.STV Proofs.GetNBest_proofs Proofs.QOrd
     Proofs.HA_proofs Proofs.Shape_proofs Proofs.Additive_proofs.
Import ListNotations.
Close Scope Q_scope.

Lemma NoDup_filter_c (g : C -> bool) (l : list C) : NoDup l -> NoDup (filter g l).
Proof.
  induction l as [|x l IH]; simpl; intros H; [constructor|]. inversion H as [|? ? Hx Hl]; subst.
  destruct (g x); [|apply IH, Hl]. constructor; [|apply IH, Hl]. intros Hi. apply filter_In in Hi. tauto.
Qed.

Definition has_tie_r (r : list (res C)) : bool := existsb (fun x => match x with TieR _ => true | _ => false end) r.
Definition kept_of (r : list (res C)) : list C := flat_map (fun x => match x with Cand c => [c] | _ => [] end) r.

(* what next_count computes in the no-quota branch *)
Definition in_play (a : alloc) : list (C * Q) := some_totals (totals a).
Definition retained (cf : cfg) (a : alloc) : list (res C) :=
  get_n_best Qle_bool (in_play a) (retained_count cf (length (in_play a))).
Definition eliminated (cf : cfg) (a : alloc) : list C :=
  filter (fun c => negb (cmem c (kept_of (retained cf a)))) (map fst (in_play a)).

Lemma next_count_noquota cf a n total prev caps quota :
  (* the shortcut does not apply and nobody reaches the quota *)
  next_count cf a n total prev caps <> CR_all (flat_map (fun kt : option C * Q => match fst kt with
                                         | Some c => [(c, (dget_or caps c 0 - dget_or prev c 0)%Z)]
                                         | None => [] end) (sort_desc Qle_bool (totals a))) ->
  quota = match c_quota cf with
          | Some qf => if Qeq_bool total 0 || (n =? 0)%Z then None else Some (qf total n)
          | None => None end ->
  elect_by_quota cf (totals a) quota (n - zsum (map snd prev))%Z prev caps = inl None ->
  next_count cf a n total prev caps =
    if has_tie_r (retained cf a) then CR_stop S_nie
    else CR_next (match eliminated cf a with [] => a | _ => transfer a (eliminated cf a) end) [].
Proof.
  intros Hns -> He. unfold next_count in *. cbv zeta in *.
  destruct (negb _ && _ && negb (c_mandatory cf)); [exfalso; apply Hns; reflexivity|].
  rewrite He. reflexivity.
Qed.

Section ELIM.
  Variable cf : cfg.
  Variable a : alloc.
  Hypothesis Hnd : NoDup (map fst (in_play a)).
  Hypothesis Hnotie : has_tie_r (retained cf a) = false.
  Let m := length (in_play a).
  Let k := retained_count cf m.
  Hypothesis Hk : 1 <= k <= m.

  Lemma retained_plain : exists elected, retained cf a = map Cand elected /\ length elected = k /\
    NoDup elected /\ incl elected (map fst (in_play a)).
  Proof.
    change (retained cf a) with (get_n_best Qle_bool (in_play a) k) in *.
    destruct (gnb_shape (in_play a) k Hk Hnd) as (el & T & j & Hr & Hlen & Hj & Hnd2 & Hincl).
    assert (j = 0).
    { destruct j; [reflexivity|]. exfalso. unfold has_tie_r in Hnotie. rewrite Hr, existsb_app in Hnotie.
      simpl in Hnotie. rewrite orb_true_r in Hnotie. discriminate. }
    subst j. simpl in Hr. rewrite app_nil_r in Hr. exists el. split; [exact Hr|]. split; [lia|].
    apply nodup_app_inv in Hnd2. split; [tauto|]. intros x Hx. apply Hincl, in_or_app. left. exact Hx.
  Qed.

  Lemma kept_of_cands l : kept_of (map (@Cand C) l) = l.
  Proof. unfold kept_of. induction l as [|x l IH]; simpl; [reflexivity|]. rewrite IH. reflexivity. Qed.

  (* exactly m - k candidates are eliminated *)
  Theorem eliminated_count : length (eliminated cf a) = m - k.
  Proof.
    destruct retained_plain as (el & Hr & Hlen & Hndel & Hincl).
    unfold eliminated. rewrite Hr, kept_of_cands.
    assert (G1 : forall (f : C -> bool) (l : list C), length (filter f l) + length (filter (fun c => negb (f c)) l) = length l).
    { intros f l. induction l as [|x l IH]; simpl; [reflexivity|]. destruct (f x); simpl; lia. }
    assert (G2 : length (filter (fun c => cmem c el) (map fst (in_play a))) = length el).
    { apply Nat.le_antisymm.
      - apply NoDup_incl_length; [apply NoDup_filter_c; exact Hnd|]. intros x Hx. apply filter_In in Hx. apply cmem_In. tauto.
      - apply NoDup_incl_length; [exact Hndel|]. intros x Hx. apply filter_In. split; [apply Hincl, Hx|apply cmem_In, Hx]. }
    pose proof (G1 (fun c => cmem c el) (map fst (in_play a))) as H1. rewrite G2, map_length in H1. fold m in H1. lia.
  Qed.

  (* only the lowest go: nobody eliminated holds strictly more than somebody retained *)
  Theorem eliminated_lowest : forall e ve c vc, In e (eliminated cf a) -> In (e, ve) (in_play a) ->
    In (Cand c) (retained cf a) -> In (c, vc) (in_play a) -> (ve <= vc)%Q.
  Proof.
    intros e ve c vc He Hve Hc Hvc.
    destruct (Qlt_le_dec vc ve) as [Hlt|Hle]; [exfalso|exact Hle].
    change (retained cf a) with (get_n_best Qle_bool (in_play a) k) in Hc.
    assert (Hin : In (Cand e) (retained cf a)).
    { change (retained cf a) with (get_n_best Qle_bool (in_play a) k).
      apply (get_n_best_no_inversion Qle_bool Qle_bool_total Qle_bool_trans (in_play a) k (proj1 Hk) Hnd c vc e ve Hvc Hve).
      - apply qltb_iff. exact Hlt.
      - exact Hc. }
    unfold eliminated in He. apply filter_In in He. destruct He as [_ He]. apply negb_true_iff in He.
    apply not_true_iff_false in He. apply He, cmem_In. unfold kept_of. apply in_flat_map. exists (Cand e). split; [exact Hin|left; reflexivity].
  Qed.
End ELIM.

(* the exhausted pile is not a contender: [in_play] never lists it, whatever its size *)
Lemma in_play_no_pile a : forall c v, In (c, v) (in_play a) -> exists p, In (Some c, p) a.
Proof.
  unfold in_play, some_totals, totals. intros c v H. apply in_flat_map in H. destruct H as ([o t] & Hin & H).
  destruct o as [c'|]; [|destruct H]. destruct H as [H|[]]. injection H as -> _.
  apply in_map_iff in Hin. destruct Hin as ([o p] & Hf & Hin). simpl in Hf. injection Hf as -> _. exists p. exact Hin.
Qed.

(* with eliminate_step = -s (s >= 1): exactly min(s, m - 1) candidates go; +s: all but min(s, m - 1) *)
Lemma retained_count_neg cf m : (c_step cf < 0)%Z -> 1 <= m ->
  1 <= retained_count cf m <= m /\ m - retained_count cf m = Nat.min (Z.to_nat (- c_step cf)) (m - 1).
Proof. intros Hs Hm. unfold retained_count. assert ((c_step cf <? 0)%Z = true) as -> by (apply Z.ltb_lt; exact Hs). lia. Qed.
