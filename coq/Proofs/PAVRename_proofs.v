(* C10: ProportionalApproval ([pav] of Model/Cardinal.v) - the one model of the approval / score family that consults an
   ORDER on candidates: it enumerates [combos cands n] over [cands := canon_set (...)], the candidates sorted by number
   ([Pos.ltb] in [insert_c]).  In the Python code that list is a frozenset (`all_candidates`, and `frozenset(best_alts[0])`
   in _order_by_score): its iteration order is whatever the hash table gives, so the sorted list is a representative
   chosen by the model - a modelling artefact, and the only place a name / hash seed can enter.  This file shows it cannot:
     [pav_on votes cands n]  := the evaluation with an explicit iteration order [cands]   ([pav_on_canon]: pav = pav_on . canon_set)
     pav_on_ren              : EXACT equivariance under injective renamings for every iteration order
     pav_on_perm             : any two iteration orders (Permutation cands cands') give both a refusal (tied alternatives) or
                               results that are [res_equiv]: all plain winners, position by position the same shape, the same
                               elected candidates - only equally placed winners (equal satisfaction drop) may swap
     pav_rename              : hence pav (renamed votes) ~ renamed (pav votes). *)
From Coq Require Import ZArith QArith List Bool Arith Lia Permutation.
From VL Require Import Prelude.PyDict Model.GetNBest Model.Convert Model.Cardinal
     Proofs.Dict_proofs Proofs.GetNBest_proofs Proofs.QOrd Proofs.Order_proofs Proofs.HARename_proofs Proofs.Equivariant
     Proofs.GnbSim_proofs Proofs.CondorcetOrder_proofs Proofs.JR_proofs Proofs.CardinalRename_proofs.
Import ListNotations.

(* ------------------------------------------------------------------ lists of alternatives up to order (outer and inner) *)
Section PP.
  Context {X : Type}.
  Definition PP (L L' : list (list X)) : Prop := exists M, Permutation L M /\ Forall2 (@Permutation X) M L'.

  Lemma F2P_refl (L : list (list X)) : Forall2 (@Permutation X) L L.
  Proof. induction L; constructor; [apply Permutation_refl|assumption]. Qed.
  Lemma PP_refl L : PP L L.
  Proof. exists L. split; [apply Permutation_refl|apply F2P_refl]. Qed.
  Lemma PP_of_perm L L' : Permutation L L' -> PP L L'.
  Proof. intros H. exists L'. split; [exact H|apply F2P_refl]. Qed.
  Lemma PP_of_F2 L L' : Forall2 (@Permutation X) L L' -> PP L L'.
  Proof. intros H. exists L. split; [apply Permutation_refl|exact H]. Qed.

  (* a position-wise relation commutes with a permutation of one side *)
  Lemma F2_perm_commute {A B} (P : A -> B -> Prop) (l2 l3 : list B) : Permutation l2 l3 ->
    forall l1, Forall2 P l1 l2 -> exists l1', Permutation l1 l1' /\ Forall2 P l1' l3.
  Proof.
    induction 1 as [|x l l' _ IH|x y l|l l' l'' _ IH1 _ IH2]; intros l1 H.
    - inversion H; subst. exists []. split; constructor.
    - inversion H as [|a ? t ? Ha Ht]; subst. destruct (IH t Ht) as (t' & Hp & Hf).
      exists (a :: t'). split; [constructor; exact Hp|constructor; assumption].
    - inversion H as [|a ? t ? Ha Ht]; subst. inversion Ht as [|b ? t2 ? Hb Ht2]; subst.
      exists (b :: a :: t2). split; [apply perm_swap|repeat constructor; assumption].
    - destruct (IH1 l1 H) as (m & Hp & Hf). destruct (IH2 m Hf) as (m' & Hp' & Hf').
      exists m'. split; [eapply Permutation_trans; eassumption|exact Hf'].
  Qed.
  Lemma F2P_trans (A B D : list (list X)) : Forall2 (@Permutation X) A B -> Forall2 (@Permutation X) B D -> Forall2 (@Permutation X) A D.
  Proof.
    intros H. revert D. induction H as [|a b A B Hab _ IH]; intros D HD; inversion HD; subst; constructor.
    - eapply Permutation_trans; eassumption.
    - apply IH. assumption.
  Qed.
  Lemma F2P_sym (A B : list (list X)) : Forall2 (@Permutation X) A B -> Forall2 (@Permutation X) B A.
  Proof. induction 1; constructor; [apply Permutation_sym|]; assumption. Qed.

  Lemma PP_trans A B D : PP A B -> PP B D -> PP A D.
  Proof.
    intros (M1 & P1 & F1) (M2 & P2 & F2). destruct (F2_perm_commute _ B M2 P2 M1 F1) as (M1' & P1' & F1').
    exists M1'. split; [eapply Permutation_trans; eassumption|eapply F2P_trans; eassumption].
  Qed.
  Lemma PP_sym A B : PP A B -> PP B A.
  Proof.
    intros (M & P & F). destruct (F2_perm_commute _ M A (Permutation_sym P) B (F2P_sym _ _ F)) as (B' & PB & FB).
    exists B'. split; assumption.
  Qed.
  Lemma PP_app A A' B B' : PP A A' -> PP B B' -> PP (A ++ B) (A' ++ B').
  Proof.
    intros (M1 & P1 & F1) (M2 & P2 & F2). exists (M1 ++ M2). split; [apply Permutation_app; assumption|apply Forall2_app; assumption].
  Qed.
  Lemma PP_map_cons x A A' : PP A A' -> PP (map (cons x) A) (map (cons x) A').
  Proof.
    intros (M & P & F). exists (map (cons x) M). split; [apply Permutation_map, P|].
    clear P. induction F; cbn [map]; constructor; [apply perm_skip|]; assumption.
  Qed.
  Lemma PP_length A B : PP A B -> length A = length B.
  Proof. intros (M & P & F). rewrite (Permutation_length P). apply (F2_length _ _ _ F). Qed.
  Lemma PP_In A B a : PP A B -> In a A -> exists b, In b B /\ Permutation a b.
  Proof.
    intros (M & P & F) Ha. apply (Permutation_in _ P) in Ha. clear P. induction F as [|m b M B Hmb _ IH]; [destruct Ha|].
    destruct Ha as [->|Ha]; [exists b; split; [left; reflexivity|exact Hmb]|].
    destruct (IH Ha) as (b' & Hb & Hp). exists b'. split; [right; exact Hb|exact Hp].
  Qed.
  Lemma PP_filter (P P' : list X -> bool) A B : (forall a a', Permutation a a' -> P a = P' a') -> PP A B -> PP (filter P A) (filter P' B).
  Proof.
    intros H (M & Pm & F). exists (filter P M). split.
    - apply (filter_perm_ext P P A M Pm). reflexivity.
    - clear Pm. induction F as [|m b M B Hmb _ IH]; cbn [filter]; [constructor|].
      rewrite <- (H m b Hmb). destruct (P m); [constructor; assumption|exact IH].
  Qed.
  Lemma PP_single a B : PP [a] B -> exists b, B = [b] /\ Permutation a b.
  Proof.
    intros (M & P & F). apply Permutation_length_1_inv in P. subst M.
    inversion F as [|? b ? B' Hab HB]; subst. inversion HB; subst. exists b. split; [reflexivity|exact Hab].
  Qed.
End PP.

(* ------------------------------------------------------------------ combinations of a permuted list *)
Lemma combos_0 l : combos l 0 = [[]].
Proof. destruct l; reflexivity. Qed.
Lemma combos_cons x l n : combos (x :: l) (S n) = map (cons x) (combos l n) ++ combos l (S n).
Proof. reflexivity. Qed.

Lemma combos_PP l l' : Permutation l l' -> forall n, PP (combos l n) (combos l' n).
Proof.
  induction 1 as [|x l l' _ IH|x y l|l l' l'' _ IH1 _ IH2]; intros n.
  - apply PP_refl.
  - destruct n as [|n]; [rewrite !combos_0; apply PP_refl|]. rewrite !combos_cons. apply PP_app; [apply PP_map_cons, IH|apply IH].
  - destruct n as [|[|n]].
    + rewrite !combos_0. apply PP_refl.
    + rewrite !combos_cons, !combos_0. cbn [map app]. apply PP_of_perm, perm_swap.
    + rewrite !combos_cons, !map_app, !map_map.
      set (A := combos l n). set (B := combos l (S n)). set (D := combos l (S (S n))).
      apply (PP_trans _ ((map (fun a => y :: x :: a) A ++ map (cons x) B) ++ map (cons y) B ++ D)).
      * apply PP_of_perm. rewrite <- !app_assoc. apply Permutation_app_head. rewrite !app_assoc. apply Permutation_app_tail.
        apply Permutation_app_comm.
      * apply PP_app; [|apply PP_refl]. apply PP_app; [|apply PP_refl]. apply PP_of_F2.
        induction A; cbn [map]; constructor; [apply perm_swap|assumption].
  - eapply PP_trans; [apply IH1|apply IH2].
Qed.

(* ------------------------------------------------------------------ satisfaction depends on the alternative as a set *)
Lemma cmem_In c l : cmem c l = true <-> In c l.
Proof.
  induction l as [|x l IH]; simpl; [split; [discriminate|tauto]|].
  rewrite orb_true_iff, IH, ceqb_eq. split; intros [H|H]; auto.
Qed.
Lemma cmem_perm c l l' : Permutation l l' -> cmem c l = cmem c l'.
Proof.
  intros H. destruct (cmem c l) eqn:E1, (cmem c l') eqn:E2; try reflexivity.
  - apply cmem_In in E1. apply (Permutation_in _ H) in E1. apply cmem_In in E1. congruence.
  - apply cmem_In in E2. apply (Permutation_in _ (Permutation_sym H)) in E2. apply cmem_In in E2. congruence.
Qed.
Lemma inter_size_perm b a a' : Permutation a a' -> inter_size b a = inter_size b a'.
Proof. intros H. unfold inter_size. f_equal. apply filter_ext. intros c. apply cmem_perm, H. Qed.
Lemma satisfaction_perm votes a a' : Permutation a a' -> satisfaction votes a = satisfaction votes a'.
Proof.
  intros H. unfold satisfaction. generalize 0%Q. induction votes as [|bw votes IH]; intros acc; [reflexivity|].
  cbn [fold_left]. rewrite (inter_size_perm (fst bw) a a' H). apply IH.
Qed.

(* ------------------------------------------------------------------ pav with an explicit iteration order *)
Definition drops (votes : aprofile) (alt : list C) : list (C * Q) :=
  map (fun c => (c, (- satisfaction votes (filter (fun x => negb (ceqb x c)) alt))%Q)) alt.
Definition pav_on (votes : aprofile) (cands : list C) (n : nat) : ares :=
  match pav_best votes cands n with
  | [alt] => AR_ok (get_n_best Qle_bool (drops votes alt) (length alt))
  | _ => AR_nie
  end.
Lemma pav_on_canon votes n : pav votes n = pav_on votes (canon_set (flat_map fst votes)) n.
Proof. reflexivity. Qed.

(* the running maximum of pav_best *)
Definition stepmax (b : Q) (sa : list C * Q) : Q := if Qle_bool b (snd sa) then snd sa else b.
Lemma fold_max_spec (l : list (list C * Q)) : forall s,
  let b := fold_left stepmax l s in
  (b = s \/ exists sa, In sa l /\ b = snd sa) /\ (s <= b)%Q /\ (forall sa, In sa l -> (snd sa <= b)%Q).
Proof.
  induction l as [|x l IH]; intros s; cbn [fold_left].
  - split; [left; reflexivity|]. split; [apply Qle_refl|intros sa []].
  - destruct (IH (stepmax s x)) as (H1 & H2 & H3). cbv zeta.
    assert (Hs : (s <= stepmax s x)%Q /\ (snd x <= stepmax s x)%Q /\ (stepmax s x = s \/ stepmax s x = snd x)).
    { unfold stepmax. destruct (Qle_bool s (snd x)) eqn:E.
      - apply Qle_bool_iff in E. split; [exact E|]. split; [apply Qle_refl|right; reflexivity].
      - split; [apply Qle_refl|]. split; [|left; reflexivity].
        destruct (Qlt_le_dec (snd x) s) as [H|H]; [apply Qlt_le_weak, H|]. apply Qle_bool_iff in H. congruence. }
    destruct Hs as (Hs1 & Hs2 & Hs3). split; [|split].
    + destruct H1 as [H1|(sa & Hsa & H1)].
      * destruct Hs3 as [Hs3|Hs3]; [left; congruence|right; exists x; split; [left; reflexivity|congruence]].
      * right. exists sa. split; [right; exact Hsa|exact H1].
    + eapply Qle_trans; eassumption.
    + intros sa [<-|Hsa]; [eapply Qle_trans; eassumption|apply H3, Hsa].
Qed.

Lemma pav_best_char votes cands n :
  let L := combos cands n in
  (L = [] /\ pav_best votes cands n = []) \/
  (exists b, (exists a, In a L /\ b = satisfaction votes a) /\ (forall a, In a L -> (satisfaction votes a <= b)%Q) /\
             pav_best votes cands n = filter (fun a => Qeq_bool (satisfaction votes a) b) L).
Proof.
  cbv zeta. unfold pav_best. cbv zeta. destruct (combos cands n) as [|a0 L]; [left; split; reflexivity|right].
  set (L0 := a0 :: L). change (map (fun a => (a, satisfaction votes a)) L0) with ((a0, satisfaction votes a0) :: map (fun a => (a, satisfaction votes a)) L).
  cbv iota beta. change ((a0, satisfaction votes a0) :: map (fun a => (a, satisfaction votes a)) L) with (map (fun a => (a, satisfaction votes a)) L0).
  set (scored := map (fun a => (a, satisfaction votes a)) L0).
  change (fold_left (fun b (sa : list C * Q) => if Qle_bool b (snd sa) then snd sa else b) scored (satisfaction votes a0))
    with (fold_left stepmax scored (satisfaction votes a0)).
  destruct (fold_max_spec scored (satisfaction votes a0)) as (H1 & H2 & H3). cbv zeta in H1, H2, H3.
  set (b := fold_left stepmax scored (satisfaction votes a0)) in *.
  exists b. split; [|split].
  - destruct H1 as [H1|(sa & Hsa & H1)].
    + exists a0. split; [left; reflexivity|exact H1].
    + apply in_map_iff in Hsa. destruct Hsa as (a & <- & Ha). exists a. split; [exact Ha|exact H1].
  - intros a Ha. apply (H3 (a, satisfaction votes a)). apply in_map_iff. exists a. split; [reflexivity|exact Ha].
  - subst scored. clearbody b L0. clear H1 H2 H3. induction L0 as [|a L1 IH]; [reflexivity|]. cbn [map filter fst snd].
    destruct (Qeq_bool (satisfaction votes a) b); cbn [map fst]; rewrite IH; reflexivity.
Qed.

Lemma Qeq_bool_resp a b a' b' : (a == a')%Q -> (b == b')%Q -> Qeq_bool a b = Qeq_bool a' b'.
Proof.
  intros Ha Hb. destruct (Qeq_bool a b) eqn:E1, (Qeq_bool a' b') eqn:E2; try reflexivity.
  - apply Qeq_bool_iff in E1. assert (H : (a' == b')%Q) by (rewrite <- Ha, <- Hb; exact E1). apply Qeq_bool_iff in H. congruence.
  - apply Qeq_bool_iff in E2. assert (H : (a == b)%Q) by (rewrite Ha, Hb; exact E2). apply Qeq_bool_iff in H. congruence.
Qed.

Lemma pav_best_perm votes cands cands' n : Permutation cands cands' -> PP (pav_best votes cands n) (pav_best votes cands' n).
Proof.
  intros Hp. pose proof (combos_PP cands cands' Hp n) as HL.
  destruct (pav_best_char votes cands n) as [[E1 E2]|(b & (a & Ha & Hb) & Hmax & E)];
    destruct (pav_best_char votes cands' n) as [[E1' E2']|(b' & (a' & Ha' & Hb') & Hmax' & E')].
  - rewrite E2, E2'. apply PP_refl.
  - apply PP_length in HL. rewrite E1 in HL. destruct (combos cands' n); [destruct Ha'|discriminate].
  - apply PP_length in HL. rewrite E1' in HL. destruct (combos cands n); [destruct Ha|discriminate].
  - assert (Hbb : (b == b')%Q).
    { apply Qle_antisym.
      - destruct (PP_In _ _ a HL Ha) as (x & Hx & Hpx). rewrite Hb, (satisfaction_perm votes a x Hpx). apply Hmax', Hx.
      - destruct (PP_In _ _ a' (PP_sym _ _ HL) Ha') as (x & Hx & Hpx). rewrite Hb', (satisfaction_perm votes a' x Hpx). apply Hmax, Hx. }
    rewrite E, E'. apply PP_filter; [|exact HL]. intros x x' Hx. rewrite (satisfaction_perm votes x x' Hx).
    apply Qeq_bool_resp; [reflexivity|exact Hbb].
Qed.

Lemma drops_perm votes alt alt' : Permutation alt alt' -> Permutation (drops votes alt) (drops votes alt').
Proof.
  intros H. unfold drops.
  assert (E : map (fun c => (c, (- satisfaction votes (filter (fun x => negb (ceqb x c)) alt'))%Q)) alt'
              = map (fun c => (c, (- satisfaction votes (filter (fun x => negb (ceqb x c)) alt))%Q)) alt').
  { apply map_ext. intros c. f_equal. f_equal. apply satisfaction_perm, Permutation_sym.
    apply (filter_perm_ext _ _ alt alt' H). reflexivity. }
  rewrite E. apply Permutation_map, H.
Qed.

(* all seats filled from a full-length request: plain winners only *)
Lemma gnb_full {K} (l : list (K * Q)) : get_n_best Qle_bool l (length l) = map (fun it => Cand (fst it)) (sort_desc Qle_bool l).
Proof. unfold get_n_best. rewrite (sort_desc_length Qle_bool), Nat.ltb_irrefl. reflexivity. Qed.

Definition ares_equiv (r r' : ares) : Prop :=
  match r, r' with AR_nie, AR_nie => True | AR_ok l, AR_ok l' => res_equiv l l' | _, _ => False end.

Lemma gnb_full_equiv (d d' : list (C * Q)) : Permutation d d' ->
  res_equiv (get_n_best Qle_bool d (length d)) (get_n_best Qle_bool d' (length d')).
Proof.
  intros Hp. split.
  - rewrite <- (Permutation_length Hp).
    eapply F2_impl'; [|apply (gnb_sim Qle_bool Qle_bool_total Qle_bool_trans d d' (length d) Hp)].
    intros [a|T] [b|T']; simpl; tauto.
  - intros c. rewrite !gnb_full.
    assert (H : forall l : list (C * Q), In (Cand c) (map (fun it : C * Q => Cand (fst it)) (sort_desc Qle_bool l)) <-> In c (map fst l)).
    { intros l. rewrite in_map_iff. split.
      - intros (x & Hx & Hi). injection Hx as <-. apply in_map. apply (Permutation_in _ (sort_desc_perm Qle_bool l) Hi).
      - intros Hi. apply in_map_iff in Hi. destruct Hi as (x & <- & Hi). exists x. split; [reflexivity|].
        apply (Permutation_in _ (Permutation_sym (sort_desc_perm Qle_bool l)) Hi). }
    rewrite !H. split; intros Hi.
    + apply (Permutation_in _ (Permutation_map fst Hp) Hi).
    + apply (Permutation_in _ (Permutation_sym (Permutation_map fst Hp)) Hi).
Qed.

Lemma drops_length votes alt : length (drops votes alt) = length alt.
Proof. apply map_length. Qed.

(* any two iteration orders of the candidate set *)
Theorem pav_on_perm votes cands cands' n : Permutation cands cands' -> ares_equiv (pav_on votes cands n) (pav_on votes cands' n).
Proof.
  intros Hp. pose proof (pav_best_perm votes cands cands' n Hp) as H. unfold pav_on.
  destruct (pav_best votes cands n) as [|alt [|alt2 r]].
  - apply PP_length in H. destruct (pav_best votes cands' n); [exact I|discriminate].
  - destruct (PP_single _ _ H) as (alt' & -> & Ha). cbn [ares_equiv].
    rewrite <- !drops_length with (votes := votes). apply gnb_full_equiv, drops_perm, Ha.
  - apply PP_length in H. destruct (pav_best votes cands' n) as [|? [|? ?]]; try discriminate. exact I.
Qed.

(* ------------------------------------------------------------------ renaming, for every iteration order *)
Section PREN.
  Variable f : C -> C.
  Hypothesis f_inj : forall a b, f a = f b -> a = b.
  Definition ren_ares (r : ares) : ares := match r with AR_ok l => AR_ok (map (ren_res f) l) | AR_nie => AR_nie end.

  Lemma satisfaction_ren votes alt : satisfaction (renap f votes) (map f alt) = satisfaction votes alt.
  Proof.
    unfold satisfaction, renap. apply fold_left_inv. intros acc [b w]. unfold rab. cbn [fst snd].
    rewrite (inter_size_ren f f_inj). reflexivity.
  Qed.
  Lemma combos_ren l : forall n, combos (map f l) n = map (map f) (combos l n).
  Proof.
    induction l as [|x l IH]; intros [|n]; try reflexivity.
    change (map f (x :: l)) with (f x :: map f l). rewrite !combos_cons, !IH, map_app, !map_map. reflexivity.
  Qed.

  Definition pb_of (scored : list (list C * Q)) : list (list C) :=
    match scored with
    | [] => []
    | (_, s0) :: _ => map fst (filter (fun sa : list C * Q => Qeq_bool (snd sa) (fold_left stepmax scored s0)) scored)
    end.
  Lemma pav_best_pb votes cands n : pav_best votes cands n = pb_of (map (fun a => (a, satisfaction votes a)) (combos cands n)).
  Proof. reflexivity. Qed.
  Lemma pb_of_hd scored : pb_of scored = if is_nil scored then [] else
    map fst (filter (fun sa : list C * Q => Qeq_bool (snd sa) (fold_left stepmax scored (snd (hd ([], 0%Q) scored)))) scored).
  Proof. destruct scored as [|[a s] r]; reflexivity. Qed.
  Lemma pb_of_renk scored : pb_of (renk (map f) scored) = map (map f) (pb_of scored).
  Proof.
    rewrite !pb_of_hd. unfold renk at 1. rewrite is_nil_map. destruct (is_nil scored) eqn:En; [reflexivity|].
    assert (Eh : snd (hd ([], 0%Q) (renk (map f) scored)) = snd (hd ([], 0%Q) scored)) by (destruct scored as [|[a s] r]; reflexivity).
    assert (Ef : forall s, fold_left stepmax (renk (map f) scored) s = fold_left stepmax scored s)
      by (intros s; unfold renk; apply fold_left_inv; intros a x; reflexivity).
    rewrite Eh, Ef. set (b := fold_left stepmax scored _).
    assert (E : filter (fun sa : list C * Q => Qeq_bool (snd sa) b) (renk (map f) scored)
                = renk (map f) (filter (fun sa : list C * Q => Qeq_bool (snd sa) b) scored))
      by (unfold renk; apply filter_map_eqv; intros x; reflexivity).
    rewrite E, renk_keys. reflexivity.
  Qed.

  Lemma pav_best_ren votes cands n : pav_best (renap f votes) (map f cands) n = map (map f) (pav_best votes cands n).
  Proof.
    rewrite !pav_best_pb, combos_ren.
    rewrite (decorate_renk (map f) (fun a => satisfaction votes a) (fun a => satisfaction (renap f votes) a)) by (intros x; apply satisfaction_ren).
    apply pb_of_renk.
  Qed.

  Lemma drops_ren votes alt : drops (renap f votes) (map f alt) = renl f (drops votes alt).
  Proof.
    unfold drops, renl. rewrite !map_map. apply map_ext. intros c. cbn [fst snd]. f_equal. f_equal.
    rewrite (filter_map_eqv f (fun x => negb (ceqb x c))) by (intros x; rewrite (ceqb_f f f_inj); reflexivity).
    apply satisfaction_ren.
  Qed.

  Theorem pav_on_ren votes cands n : pav_on (renap f votes) (map f cands) n = ren_ares (pav_on votes cands n).
  Proof.
    unfold pav_on. rewrite pav_best_ren. destruct (pav_best votes cands n) as [|alt [|alt2 r]]; try reflexivity.
    cbn [map ren_ares]. rewrite drops_ren, map_length, get_n_best_renl. reflexivity.
  Qed.

  (* the canonical candidate list of the renamed profile is a permutation of the renamed canonical list *)
  Lemma canon_ren_perm votes :
    Permutation (map f (canon_set (flat_map fst votes))) (canon_set (flat_map fst (renap f votes))).
  Proof.
    assert (E : flat_map fst (renap f votes) = map f (flat_map fst votes)).
    { unfold renap. apply (flat_map_eqv (rab f) f). intros x. reflexivity. }
    destruct (canon_set_spec (flat_map fst votes)) as [N1 I1].
    destruct (canon_set_spec (flat_map fst (renap f votes))) as [N2 I2].
    apply NoDup_Permutation; [apply FinFun.Injective_map_NoDup; [exact f_inj|exact N1]|exact N2|].
    intros x. rewrite I2, E, !in_map_iff. split; intros (c & Hc & Hi); exists c; (split; [exact Hc|]); apply I1; exact Hi.
  Qed.

  Theorem pav_rename votes n : ares_equiv (ren_ares (pav votes n)) (pav (renap f votes) n).
  Proof.
    rewrite !pav_on_canon, <- pav_on_ren. apply pav_on_perm, canon_ren_perm.
  Qed.
End PREN.
