(* Order independence (C10) of the transferable-vote count (Model/STV.v, Gregory transfers): presenting the
   ballots in another order changes neither the seats (as a dictionary), nor the stop reason, nor the totals /
   elected of any count (as dictionaries).
   Allocations are compared as two-level dictionaries ([aeq]: same pile keys, every pile holds the same ballots
   with == weights); every operation of the count is shown to respect [aeq] and the loops over dictionaries
   (ballots of a pile, eliminated candidates, ballots of the profile) are folds of commuting updates. *)
From Coq Require Import ZArith QArith Qround Qreduction Setoid List Bool Arith Lia Lqa Permutation.
From VL Require Import Prelude.PyDict Model.GetNBest Model.Convert Model.STV Proofs.Dict_proofs
     Proofs.GetNBest_proofs Proofs.QOrd Proofs.Order_proofs Proofs.HAPerm_proofs Proofs.LRScale_proofs
     Proofs.STV_proofs Proofs.QDOrder_proofs.
Import ListNotations.
Open Scope Q_scope.

(* ---------------------------------------------------------------- a fold of commuting updates *)
Section FoldPerm.
  Variables (S I : Type) (R : S -> S -> Prop) (RI : I -> I -> Prop) (okI : I -> Prop) (op : S -> I -> S).
  Hypothesis R_trans : forall a b c, R a b -> R b c -> R a c.
  Hypothesis RI_refl : forall i, okI i -> RI i i.
  Hypothesis op_resp : forall s s' i i', R s s' -> okI i -> RI i i' -> R (op s i) (op s' i').
  Hypothesis op_comm : forall s i j, R s s -> okI i -> okI j -> R (op (op s i) j) (op (op s j) i).

  Lemma fold_resp l l' : Forall2 RI l l' -> Forall okI l -> forall s s', R s s' -> R (fold_left op l s) (fold_left op l' s').
  Proof.
    induction 1 as [|i i' l l' Hi _ IH]; intros Hok s s' Hs; simpl; [exact Hs|].
    inversion Hok; subst. apply IH; [assumption|]. apply op_resp; assumption.
  Qed.

  Lemma Forall2_refl_ok l : Forall okI l -> Forall2 RI l l.
  Proof. induction 1; constructor; auto. Qed.

  Lemma fold_perm l l' : Permutation l l' -> Forall okI l -> forall s, R s s -> R (fold_left op l s) (fold_left op l' s).
  Proof.
    induction 1 as [|x l l' _ IH|x y l|l l' l'' H1 IH1 _ IH2]; intros Hok s Hs; simpl.
    - exact Hs.
    - inversion Hok; subst. apply IH; [assumption|]. apply op_resp; auto.
    - inversion Hok as [|? ? Hy Hok']; subst. inversion Hok' as [|? ? Hx Hl]; subst.
      apply fold_resp; [apply Forall2_refl_ok, Hl|exact Hl|]. apply op_comm; assumption.
    - eapply R_trans; [apply IH1; assumption|]. apply IH2; [|exact Hs].
      apply Forall_forall. intros z Hz. rewrite Forall_forall in Hok. apply Hok. apply (Permutation_in _ (Permutation_sym H1) Hz).
  Qed.

  (* a permutation up to RI *)
  Definition perm_mod (l l' : list I) : Prop := exists m, Permutation l m /\ Forall2 RI m l'.

  Lemma fold_perm_mod l l' : perm_mod l l' -> Forall okI l -> forall s s', R s s' -> R s s -> R (fold_left op l s) (fold_left op l' s').
  Proof.
    intros (m & Hp & Hm) Hok s s' Hs Hss.
    eapply R_trans; [apply fold_perm; eassumption|]. apply fold_resp; [exact Hm| |exact Hs].
    apply Forall_forall. intros z Hz. rewrite Forall_forall in Hok. apply Hok. apply (Permutation_in _ (Permutation_sym Hp) Hz).
  Qed.
End FoldPerm.

Lemma perm_mod_flat_map {A B} (RA : A -> A -> Prop) (RB : B -> B -> Prop) (f f' : A -> list B) l l' :
  (forall x y, RA x y -> Forall2 RB (f x) (f' y)) -> perm_mod A RA l l' -> perm_mod B RB (flat_map f l) (flat_map f' l').
Proof.
  intros Hf (m & Hp & Hm). exists (flat_map f m). split; [apply Permutation_flat_map, Hp|].
  clear Hp. induction Hm as [|x y m l' Hxy _ IH]; simpl; [constructor|]. apply Forall2_app; [apply Hf, Hxy|exact IH].
Qed.

Lemma nodup_snoc {A} (l : list A) x : NoDup l -> ~ In x l -> NoDup (l ++ [x]).
Proof.
  intros Hn Hx. eapply Permutation_NoDup; [apply Permutation_cons_append|]. constructor; assumption.
Qed.

(* ---------------------------------------------------------------- ballots as dictionary keys *)
Lemma cmem_refl_all (x : list C) : forallb (fun c => cmem c x) x = true.
Proof.
  apply forallb_forall. intros c Hc. apply cmem_In. exact Hc.
Qed.
Lemma item_eqb_refl i : item_eqb i i = true.
Proof. destruct i as [c|l]; simpl; [apply Pos.eqb_refl|]. rewrite cmem_refl_all. reflexivity. Qed.
Lemma ballot_eqb_refl b : ballot_eqb b b = true.
Proof. induction b as [|i b IH]; simpl; [reflexivity|]. rewrite item_eqb_refl, IH. reflexivity. Qed.

Inductive oeq : option Q -> option Q -> Prop :=
| oeq_none : oeq None None
| oeq_some w w' : w == w' -> oeq (Some w) (Some w').
Lemma oeq_refl o : oeq o o.
Proof. destruct o; constructor. reflexivity. Qed.
Lemma oeq_sym o o' : oeq o o' -> oeq o' o.
Proof. destruct 1; constructor. symmetry. assumption. Qed.
Lemma oeq_trans o1 o2 o3 : oeq o1 o2 -> oeq o2 o3 -> oeq o1 o3.
Proof. destruct 1; inversion 1; subst; constructor. etransitivity; eassumption. Qed.

Lemma oeq_some_l w o : oeq (Some w) o -> exists w', o = Some w' /\ w == w'.
Proof. inversion 1; subst. eexists; split; [reflexivity|assumption]. Qed.
Lemma oeq_some_r o w' : oeq o (Some w') -> exists w, o = Some w /\ w == w'.
Proof. inversion 1; subst. eexists; split; [reflexivity|assumption]. Qed.

Fixpoint pileget (p : pile) (b : ballot) : option Q :=
  match p with
  | [] => None
  | (b', w) :: t => if ballot_eqb b b' then Some w else pileget t b
  end.
Definition padd (o : option Q) (w : Q) : Q := match o with Some w0 => Qred (w0 + w) | None => w end.

Lemma padd_oeq o o' w w' : oeq o o' -> w == w' -> padd o w == padd o' w'.
Proof.
  intros Ho Hw. destruct Ho as [|x x' Hx]; simpl; [exact Hw|].
  pose proof (Qred_correct (x + w)) as E1. pose proof (Qred_correct (x' + w')) as E2. rewrite E1, E2, Hx, Hw. reflexivity.
Qed.

Section Univ.
  (* the ballots of the profile: on them ballot_eqb (frozensets compared as sets) is equality *)
  Variable U : list ballot.
  Hypothesis HU : forall b b', In b U -> In b' U -> ballot_eqb b b' = true -> b = b'.

  Lemma beq_U b b' : In b U -> In b' U -> (ballot_eqb b b' = true <-> b = b').
  Proof. intros Hb Hb'. split; [apply HU; assumption|intros ->; apply ballot_eqb_refl]. Qed.
  Lemma beq_U_false b b' : In b U -> In b' U -> (ballot_eqb b b' = false <-> b <> b').
  Proof. intros Hb Hb'. rewrite <- (beq_U b b' Hb Hb'). destruct (ballot_eqb b b'); intuition congruence. Qed.

  Definition pwf (p : pile) : Prop := incl (map fst p) U /\ NoDup (map fst p).

  Lemma pwf_nil : pwf [].
  Proof. split; [intros x []|constructor]. Qed.
  Lemma pwf_tail x p : pwf (x :: p) -> pwf p.
  Proof. intros [Hi Hn]. split; [intros y Hy; apply Hi; right; exact Hy|inversion Hn; assumption]. Qed.

  Lemma pileget_notin p b : In b U -> pwf p -> ~ In b (map fst p) -> pileget p b = None.
  Proof.
    intros Hb. induction p as [|[b0 w0] t IH]; simpl; intros Hw Hn; [reflexivity|].
    destruct (ballot_eqb b b0) eqn:E.
    - apply beq_U in E; [subst; tauto|exact Hb|apply (proj1 Hw); left; reflexivity].
    - apply IH; [eapply pwf_tail, Hw|tauto].
  Qed.
  Lemma pileget_in p b w : In b U -> pwf p -> (pileget p b = Some w <-> In (b, w) p).
  Proof.
    intros Hb. induction p as [|[b0 w0] t IH]; simpl; intros Hw; [split; [discriminate|tauto]|].
    pose proof (pwf_tail _ _ Hw) as Hw'. destruct Hw as [Hi Hn]. simpl in Hn. inversion Hn as [|? ? Hk _]; subst.
    destruct (ballot_eqb b b0) eqn:E.
    - apply beq_U in E; [|exact Hb|apply Hi; left; reflexivity]. subst b0. split.
      + intros [= ->]. left. reflexivity.
      + intros [H|H]; [congruence|]. exfalso. apply Hk. apply in_map_iff. exists (b, w). auto.
    - rewrite (IH Hw'). split; [tauto|]. intros [H|H]; [|exact H]. injection H as -> ->.
      rewrite ballot_eqb_refl in E. discriminate.
  Qed.
  Lemma pileget_some_key p b w : pileget p b = Some w -> exists b', In (b', w) p.
  Proof.
    induction p as [|[b0 w0] t IH]; simpl; [discriminate|].
    destruct (ballot_eqb b b0); [intros [= ->]; exists b0; left; reflexivity|].
    intros H. destruct (IH H) as (b' & Hb'). exists b'. right. exact Hb'.
  Qed.

  (* pile_add *)
  Lemma pile_add_keys p b w : In b U -> pwf p ->
    map fst (pile_add p b w) = if existsb (fun x => ballot_eqb b (fst x)) p then map fst p else map fst p ++ [b].
  Proof.
    intros Hb. induction p as [|[b0 w0] t IH]; simpl; intros Hw; [reflexivity|].
    destruct (ballot_eqb b b0); simpl; [reflexivity|]. rewrite (IH (pwf_tail _ _ Hw)).
    destruct (existsb _ t); reflexivity.
  Qed.
  Lemma pile_add_wf p b w : In b U -> pwf p -> pwf (pile_add p b w).
  Proof.
    intros Hb Hw. unfold pwf. rewrite (pile_add_keys p b w Hb Hw).
    destruct (existsb (fun x => ballot_eqb b (fst x)) p) eqn:E; [exact Hw|].
    destruct Hw as [Hi Hn]. split.
    - intros x Hx. apply in_app_or in Hx. destruct Hx as [Hx|[<-|[]]]; [apply Hi, Hx|exact Hb].
    - apply nodup_snoc; [exact Hn|].
      intros Hx. apply in_map_iff in Hx. destruct Hx as ([b0 w0] & Hf & Hx). simpl in Hf. subst b0.
      assert (Ht : existsb (fun x => ballot_eqb b (fst x)) p = true).
      { apply existsb_exists. exists (b, w0). split; [exact Hx|apply ballot_eqb_refl]. }
      congruence.
  Qed.
  Lemma pileget_pile_add p b w b' : In b U -> In b' U -> pwf p ->
    pileget (pile_add p b w) b' = if ballot_eqb b' b then Some (padd (pileget p b) w) else pileget p b'.
  Proof.
    intros Hb Hb'. induction p as [|[b0 w0] t IH]; simpl; intros Hw; [reflexivity|].
    pose proof (pwf_tail _ _ Hw) as Hw'. assert (Hb0 : In b0 U) by (apply (proj1 Hw); left; reflexivity).
    destruct (ballot_eqb b b0) eqn:E; simpl.
    - apply beq_U in E; [|assumption|assumption]. subst b0. destruct (ballot_eqb b' b); reflexivity.
    - rewrite (IH Hw'). destruct (ballot_eqb b' b0) eqn:E2; [|reflexivity].
      apply beq_U in E2; [|assumption|assumption]. subst b0.
      destruct (ballot_eqb b' b) eqn:E3; [|reflexivity].
      apply beq_U in E3; [|assumption|assumption]. subst b'. rewrite ballot_eqb_refl in E. discriminate.
  Qed.

  (* piles compared as dictionaries *)
  Definition plook (p p' : pile) : Prop := forall b, In b U -> oeq (pileget p b) (pileget p' b).
  Definition wrel (x y : ballot * Q) : Prop := fst x = fst y /\ snd x == snd y.

  Lemma plook_refl p : plook p p.
  Proof. intros b _. apply oeq_refl. Qed.
  Lemma plook_sym p p' : plook p p' -> plook p' p.
  Proof. intros H b Hb. apply oeq_sym, H, Hb. Qed.
  Lemma plook_trans p1 p2 p3 : plook p1 p2 -> plook p2 p3 -> plook p1 p3.
  Proof. intros H1 H2 b Hb. eapply oeq_trans; [apply H1, Hb|apply H2, Hb]. Qed.

  Lemma plook_perm_mod p p' : pwf p -> pwf p' -> plook p p' -> perm_mod _ wrel p p'.
  Proof.
    intros Hw Hw' Hl.
    exists (map (fun bw' : ballot * Q => (fst bw', match pileget p (fst bw') with Some w => w | None => 0 end)) p'). split.
    - apply NoDup_Permutation.
      + eapply NoDup_map_inv. exact (proj2 Hw).
      + eapply NoDup_map_inv with (f := fst). rewrite map_map. simpl. exact (proj2 Hw').
      + intros [b w]. split; intros H.
        * assert (Hb : In b U) by (apply (proj1 Hw); apply in_map_iff; exists (b, w); auto).
          pose proof (proj2 (pileget_in p b w Hb Hw) H) as Hg. pose proof (Hl b Hb) as Ho. rewrite Hg in Ho.
          apply oeq_some_l in Ho. destruct Ho as (w' & Hg' & _). apply (pileget_in p' b w' Hb Hw') in Hg'.
          apply in_map_iff. exists (b, w'). simpl. rewrite Hg. split; [reflexivity|exact Hg'].
        * apply in_map_iff in H. destruct H as ([b' w'] & Heq & Hin). simpl in Heq. injection Heq as -> Hw0.
          assert (Hb : In b U) by (apply (proj1 Hw'); apply in_map_iff; exists (b, w'); auto).
          pose proof (proj2 (pileget_in p' b w' Hb Hw') Hin) as Hg'. pose proof (Hl b Hb) as Ho. rewrite Hg' in Ho.
          apply oeq_some_r in Ho. destruct Ho as (w0 & Hg & _). rewrite Hg in Hw0. subst w. apply (pileget_in p b w0 Hb Hw). exact Hg.
    - clear Hw. induction p' as [|[b' w'] t IH]; simpl; [constructor|].
      assert (Hb : In b' U) by (apply (proj1 Hw'); left; reflexivity).
      constructor.
      + split; [reflexivity|]. simpl. pose proof (Hl b' Hb) as Ho.
        assert (Hg' : pileget ((b', w') :: t) b' = Some w') by (simpl; rewrite ballot_eqb_refl; reflexivity).
        rewrite Hg' in Ho. apply oeq_some_r in Ho. destruct Ho as (w0 & Hg & Hww). rewrite Hg. exact Hww.
      + (* the tail: lookups of t agree with those of p on t's keys *)
        clear IH.
        assert (Ht : forall x, In x t -> wrel (fst x, match pileget p (fst x) with Some w => w | None => 0 end) x).
        { intros [b w] Hx. assert (Hbx : In b U) by (apply (proj1 Hw'); right; apply in_map_iff; exists (b, w); auto).
          split; [reflexivity|]. simpl. pose proof (Hl b Hbx) as Ho.
          assert (Hg' : pileget ((b', w') :: t) b = Some w) by (apply (pileget_in _ b w Hbx Hw'); right; exact Hx).
          rewrite Hg' in Ho. apply oeq_some_r in Ho. destruct Ho as (w0 & Hg & Hww). rewrite Hg. exact Hww. }
        clear -Ht. induction t as [|x t IHt]; simpl; constructor; [apply Ht; left; reflexivity|].
        apply IHt. intros y Hy. apply Ht. right. exact Hy.
  Qed.

  Lemma perm_mod_plook p p' : pwf p -> pwf p' -> perm_mod _ wrel p p' -> plook p p'.
  Proof.
    intros Hw Hw' (m & Hp & Hm) b Hb.
    destruct (pileget p b) as [w|] eqn:E.
    - apply (pileget_in p b w Hb Hw) in E. apply (Permutation_in _ Hp) in E.
      assert (Hx : exists w', In (b, w') p' /\ w == w').
      { clear -Hm E. induction Hm as [|x y m l Hxy _ IH]; [destruct E|]. destruct E as [->|E].
        - destruct y as [b' w']. destruct Hxy as [H1 H2]. simpl in *. subst b'. exists w'. split; [left; reflexivity|exact H2].
        - destruct (IH E) as (w' & H1 & H2). exists w'. split; [right; exact H1|exact H2]. }
      destruct Hx as (w' & Hin & Hww). apply (pileget_in p' b w' Hb Hw') in Hin. rewrite Hin. constructor. exact Hww.
    - destruct (pileget p' b) as [w'|] eqn:E'; [|constructor]. exfalso.
      apply (pileget_in p' b w' Hb Hw') in E'.
      assert (Hx : exists w, In (b, w) m).
      { clear -Hm E'. induction Hm as [|x y m l Hxy _ IH]; [destruct E'|]. destruct E' as [->|E'].
        - destruct x as [b0 w0]. destruct Hxy as [H1 _]. simpl in H1. subst b0. exists w0. left. reflexivity.
        - destruct (IH E') as (w & H). exists w. right. exact H. }
      destruct Hx as (w & Hin). apply (Permutation_in _ (Permutation_sym Hp)) in Hin.
      apply (pileget_in p b w Hb Hw) in Hin. congruence.
  Qed.

  Lemma wsum_perm_mod p p' : perm_mod _ wrel p p' -> wsum p == wsum p'.
  Proof.
    intros (m & Hp & Hm). transitivity (wsum m).
    - clear Hm. induction Hp as [|x l l' _ IH|x y l|l l' l'' _ IH1 _ IH2]; simpl.
      + reflexivity.
      + rewrite IH. reflexivity.
      + ring.
      + rewrite IH1. exact IH2.
    - clear Hp. induction Hm as [|x y m l [_ Hxy] _ IH]; simpl; [reflexivity|]. rewrite Hxy, IH. reflexivity.
  Qed.

  Lemma pile_sum_plook p p' : pwf p -> pwf p' -> plook p p' -> pile_sum p = pile_sum p'.
  Proof.
    intros Hw Hw' Hl. unfold pile_sum. apply Qred_complete.
    pose proof (pile_sum_wsum p) as H1. pose proof (pile_sum_wsum p') as H2. unfold pile_sum in H1, H2.
    rewrite Qred_correct in H1, H2. rewrite H1, H2. apply wsum_perm_mod, plook_perm_mod; assumption.
  Qed.

  (* ------------------------------------------------------------ allocations as two-level dictionaries *)
  Definition odflt (o : option pile) : pile := match o with Some p => p | None => [] end.
  Definition awf (a : alloc) : Prop := NoDup (akeys a) /\ Forall (fun kp : option C * pile => pwf (snd kp)) a.
  Definition alook (o o' : option pile) : Prop :=
    match o, o' with Some p, Some p' => plook p p' | None, None => True | _, _ => False end.
  Definition aeq (a a' : alloc) : Prop := awf a /\ awf a' /\ forall k, alook (alloc_get a k) (alloc_get a' k).

  Lemma alloc_get_in a k p : alloc_get a k = Some p -> In (k, p) a.
  Proof.
    induction a as [|[k0 p0] a IH]; simpl; [discriminate|].
    destruct (okey_eqb k k0) eqn:E; [apply okey_eqb_eq in E; subst; intros [= ->]; left; reflexivity|].
    intros H. right. apply IH, H.
  Qed.
  Lemma in_alloc_get a k p : NoDup (akeys a) -> In (k, p) a -> alloc_get a k = Some p.
  Proof.
    unfold akeys. induction a as [|[k0 p0] a IH]; simpl; intros Hn Hin; [destruct Hin|].
    inversion Hn as [|? ? Hk Hn']; subst. destruct Hin as [Hin|Hin].
    - injection Hin as -> ->. rewrite okey_eqb_refl. reflexivity.
    - destruct (okey_eqb k k0) eqn:E; [|apply IH; assumption].
      apply okey_eqb_eq in E. subst k0. exfalso. apply Hk. apply in_map_iff. exists (k, p). auto.
  Qed.
  Lemma alloc_get_none a k : alloc_get a k = None <-> ~ In k (akeys a).
  Proof.
    unfold akeys. induction a as [|[k0 p0] a IH]; simpl; [tauto|].
    destruct (okey_eqb k k0) eqn:E.
    - apply okey_eqb_eq in E. subst. split; [discriminate|tauto].
    - rewrite IH. assert (k0 <> k) by (intros ->; rewrite okey_eqb_refl in E; discriminate). tauto.
  Qed.
  Lemma alloc_get_wf a k p : awf a -> alloc_get a k = Some p -> pwf p.
  Proof.
    intros [_ Hf] Hg. apply alloc_get_in in Hg. rewrite Forall_forall in Hf. exact (Hf _ Hg).
  Qed.
  Lemma odflt_wf a k : awf a -> pwf (odflt (alloc_get a k)).
  Proof. intros Hw. destruct (alloc_get a k) eqn:E; simpl; [eapply alloc_get_wf; eassumption|apply pwf_nil]. Qed.

  Lemma alook_refl o : alook o o.
  Proof. destruct o; simpl; [apply plook_refl|exact I]. Qed.
  Lemma alook_sym o o' : alook o o' -> alook o' o.
  Proof. destruct o, o'; simpl; auto. apply plook_sym. Qed.
  Lemma alook_trans o1 o2 o3 : alook o1 o2 -> alook o2 o3 -> alook o1 o3.
  Proof. destruct o1, o2, o3; simpl; try tauto. apply plook_trans. Qed.

  Lemma aeq_refl a : awf a -> aeq a a.
  Proof. intros H. split; [exact H|]. split; [exact H|]. intros k. apply alook_refl. Qed.
  Lemma aeq_sym a a' : aeq a a' -> aeq a' a.
  Proof. intros (H1 & H2 & H3). split; [exact H2|]. split; [exact H1|]. intros k. apply alook_sym, H3. Qed.
  Lemma aeq_trans a1 a2 a3 : aeq a1 a2 -> aeq a2 a3 -> aeq a1 a3.
  Proof.
    intros (H1 & H2 & H3) (_ & H5 & H6). split; [exact H1|]. split; [exact H5|].
    intros k. eapply alook_trans; [apply H3|apply H6].
  Qed.
  Lemma aeq_wf_l a a' : aeq a a' -> awf a.
  Proof. intros H. apply H. Qed.
  Lemma aeq_wf_r a a' : aeq a a' -> awf a'.
  Proof. intros H. apply H. Qed.

  (* alloc_add *)
  Lemma alloc_get_add a k b w k' :
    alloc_get (alloc_add a k b w) k' = if okey_eqb k' k then Some (pile_add (odflt (alloc_get a k)) b w) else alloc_get a k'.
  Proof.
    induction a as [|[k0 p0] a IH]; simpl.
    - destruct (okey_eqb k' k); reflexivity.
    - destruct (okey_eqb k k0) eqn:E; simpl.
      + apply okey_eqb_eq in E. subst k0. destruct (okey_eqb k' k); reflexivity.
      + rewrite IH. destruct (okey_eqb k' k0) eqn:E2; [|reflexivity].
        apply okey_eqb_eq in E2. subst k0. destruct (okey_eqb k' k) eqn:E3; [|reflexivity].
        apply okey_eqb_eq in E3. subst k'. rewrite okey_eqb_refl in E. discriminate.
  Qed.

  Lemma alloc_add_wf a k b w : In b U -> awf a -> awf (alloc_add a k b w).
  Proof.
    intros Hb [Hn Hf]. split; [apply alloc_add_keys, Hn|].
    clear Hn. induction a as [|[k0 p0] a IH]; simpl.
    - constructor; [|constructor]. simpl. apply (pile_add_wf [] b w Hb pwf_nil).
    - inversion Hf as [|? ? Hp Hf']; subst. destruct (okey_eqb k k0); constructor; simpl; auto.
      apply pile_add_wf; assumption.
  Qed.

  Lemma plook_pile_add p p' b w w' : In b U -> pwf p -> pwf p' -> plook p p' -> w == w' ->
    plook (pile_add p b w) (pile_add p' b w').
  Proof.
    intros Hb Hw Hw' Hl Hww b' Hb'. rewrite !pileget_pile_add by assumption.
    destruct (ballot_eqb b' b); [|apply Hl, Hb']. constructor. apply padd_oeq; [apply Hl, Hb|exact Hww].
  Qed.

  Lemma alloc_add_resp a a' k b w w' : aeq a a' -> In b U -> w == w' -> aeq (alloc_add a k b w) (alloc_add a' k b w').
  Proof.
    intros (H1 & H2 & H3) Hb Hww. split; [apply alloc_add_wf; assumption|]. split; [apply alloc_add_wf; assumption|].
    intros k'. rewrite !alloc_get_add. destruct (okey_eqb k' k); [|apply H3]. simpl.
    apply plook_pile_add; try assumption; try (apply odflt_wf; assumption).
    specialize (H3 k). destruct (alloc_get a k), (alloc_get a' k); simpl in *; try contradiction; [exact H3|apply plook_refl].
  Qed.

  Lemma plook_pile_add_comm p b1 w1 b2 w2 : In b1 U -> In b2 U -> pwf p ->
    plook (pile_add (pile_add p b1 w1) b2 w2) (pile_add (pile_add p b2 w2) b1 w1).
  Proof.
    intros H1 H2 Hw b Hb.
    rewrite !pileget_pile_add by (try apply pile_add_wf; assumption).
    destruct (ballot_eqb b1 b2) eqn:E12.
    - apply beq_U in E12; [|assumption|assumption]. subst b2. rewrite ballot_eqb_refl.
      destruct (ballot_eqb b b1); [|apply oeq_refl]. constructor. simpl.
      pose proof (Qred_correct (padd (pileget p b1) w1 + w2)) as E1. pose proof (Qred_correct (padd (pileget p b1) w2 + w1)) as E2.
      rewrite E1, E2. destruct (pileget p b1) as [x|]; simpl.
      + pose proof (Qred_correct (x + w1)) as E3. pose proof (Qred_correct (x + w2)) as E4. rewrite E3, E4. ring.
      + ring.
    - assert (E21 : ballot_eqb b2 b1 = false).
      { apply beq_U_false; [assumption|assumption|]. apply beq_U_false in E12; [congruence|assumption|assumption]. }
      rewrite E21. destruct (ballot_eqb b b2) eqn:Eb2, (ballot_eqb b b1) eqn:Eb1; try apply oeq_refl.
      apply beq_U in Eb2; [|assumption|assumption]. apply beq_U in Eb1; [|assumption|assumption]. subst.
      rewrite ballot_eqb_refl in E12. discriminate.
  Qed.

  Lemma alloc_add_comm a k1 b1 w1 k2 b2 w2 : awf a -> In b1 U -> In b2 U ->
    aeq (alloc_add (alloc_add a k1 b1 w1) k2 b2 w2) (alloc_add (alloc_add a k2 b2 w2) k1 b1 w1).
  Proof.
    intros Hw H1 H2. split; [apply alloc_add_wf, alloc_add_wf; assumption|]. split; [apply alloc_add_wf, alloc_add_wf; assumption|].
    intros k. rewrite !alloc_get_add.
    destruct (okey_eqb k1 k2) eqn:E12.
    - apply okey_eqb_eq in E12. subst k2. rewrite okey_eqb_refl. destruct (okey_eqb k k1); [|apply alook_refl].
      simpl. apply plook_pile_add_comm; try assumption. apply odflt_wf, Hw.
    - assert (E21 : okey_eqb k2 k1 = false).
      { apply not_true_iff_false. intros H. apply okey_eqb_eq in H. subst. rewrite okey_eqb_refl in E12. discriminate. }
      rewrite E21. destruct (okey_eqb k k2) eqn:Ek2, (okey_eqb k k1) eqn:Ek1; try apply alook_refl.
      apply okey_eqb_eq in Ek2, Ek1. subst. rewrite okey_eqb_refl in E12. discriminate.
  Qed.

  (* instruction lists: (pile key, ballot, weight) *)
  Definition instr : Type := option C * ballot * Q.
  Definition okI (i : instr) : Prop := In (snd (fst i)) U.
  Definition RI (i i' : instr) : Prop := fst i = fst i' /\ snd i == snd i'.
  Definition app1 (a : alloc) (i : instr) : alloc := alloc_add a (fst (fst i)) (snd (fst i)) (snd i).
  Definition adds (a : alloc) (l : list instr) : alloc := fold_left app1 l a.

  Lemma adds_wf l : forall a, Forall okI l -> awf a -> awf (adds a l).
  Proof.
    unfold adds. induction l as [|i l IH]; intros a Hok Hw; simpl; [exact Hw|].
    inversion Hok; subst. apply IH; [assumption|]. apply alloc_add_wf; assumption.
  Qed.

  Lemma adds_perm_mod l l' a a' : perm_mod instr RI l l' -> Forall okI l -> aeq a a' -> aeq (adds a l) (adds a' l').
  Proof.
    intros Hp Hok Ha. unfold adds.
    apply (fold_perm_mod alloc instr aeq RI okI app1 aeq_trans); try assumption.
    - intros i _. split; reflexivity.
    - intros s s' [[k b] w] [[k' b'] w'] Hs Hi [Hf Hww]. simpl in *. injection Hf as <- <-.
      unfold app1. simpl. apply alloc_add_resp; assumption.
    - intros s [[k1 b1] w1] [[k2 b2] w2] Hs H1 H2. unfold app1. simpl. apply alloc_add_comm; [apply Hs|exact H1|exact H2].
    - apply aeq_refl, (aeq_wf_l _ _ Ha).
  Qed.

  (* ------------------------------------------------------------ deleting a pile *)
  Lemma aeq_lookups a a' : awf a -> awf a' -> (forall k, alloc_get a k = alloc_get a' k) -> aeq a a'.
  Proof. intros H1 H2 H3. split; [exact H1|]. split; [exact H2|]. intros k. rewrite H3. apply alook_refl. Qed.

  Lemma alloc_get_del a k k' : alloc_get (alloc_del a k) k' = if okey_eqb k' k then None else alloc_get a k'.
  Proof.
    unfold alloc_del. induction a as [|[k0 p0] a IH]; simpl; [destruct (okey_eqb k' k); reflexivity|].
    destruct (okey_eqb k k0) eqn:E; simpl.
    - apply okey_eqb_eq in E. subst k0. rewrite IH. destruct (okey_eqb k' k); reflexivity.
    - rewrite IH. destruct (okey_eqb k' k0) eqn:E2; [|reflexivity].
      apply okey_eqb_eq in E2. subst k0. destruct (okey_eqb k' k) eqn:E3; [|reflexivity].
      apply okey_eqb_eq in E3. subst k'. rewrite okey_eqb_refl in E. discriminate.
  Qed.
  Lemma alloc_del_wf a k : awf a -> awf (alloc_del a k).
  Proof.
    intros [Hn Hf]. unfold alloc_del, akeys in *. split.
    - clear Hf. induction a as [|[k0 p0] a IH]; simpl; [constructor|]. inversion Hn as [|? ? Hk Hn']; subst.
      destruct (negb (okey_eqb k k0)); simpl; [|apply IH, Hn']. constructor; [|apply IH, Hn'].
      intros Hi. apply Hk. apply in_map_iff in Hi. destruct Hi as (x & Hx & Hi). apply filter_In in Hi.
      apply in_map_iff. exists x. tauto.
    - apply Forall_forall. intros x Hx. apply filter_In in Hx. rewrite Forall_forall in Hf. apply Hf, Hx.
  Qed.
  Lemma alloc_del_resp a a' k : aeq a a' -> aeq (alloc_del a k) (alloc_del a' k).
  Proof.
    intros (H1 & H2 & H3). split; [apply alloc_del_wf, H1|]. split; [apply alloc_del_wf, H2|].
    intros k'. rewrite !alloc_get_del. destruct (okey_eqb k' k); [exact I|apply H3].
  Qed.
  Lemma alloc_del_comm a k1 k2 : awf a -> aeq (alloc_del (alloc_del a k1) k2) (alloc_del (alloc_del a k2) k1).
  Proof.
    intros Hw. apply aeq_lookups; [apply alloc_del_wf, alloc_del_wf, Hw|apply alloc_del_wf, alloc_del_wf, Hw|].
    intros k. rewrite !alloc_get_del. destruct (okey_eqb k k1), (okey_eqb k k2); reflexivity.
  Qed.

  Definition ikey (i : instr) : option C := fst (fst i).

  Lemma adds_get_other l : forall a k, (forall i, In i l -> ikey i <> k) -> alloc_get (adds a l) k = alloc_get a k.
  Proof.
    unfold adds. induction l as [|i l IH]; intros a k Hk; simpl; [reflexivity|].
    rewrite IH by (intros j Hj; apply Hk; right; exact Hj). unfold app1. rewrite alloc_get_add.
    destruct (okey_eqb k (fst (fst i))) eqn:E; [|reflexivity]. apply okey_eqb_eq in E. exfalso. apply (Hk i (or_introl eq_refl)). symmetry. exact E.
  Qed.

  Lemma adds_refl_resp l a a' : Forall okI l -> aeq a a' -> aeq (adds a l) (adds a' l).
  Proof.
    intros Hok Ha. apply adds_perm_mod; [|exact Hok|exact Ha]. exists l. split; [apply Permutation_refl|].
    clear. induction l; constructor; [split; reflexivity|assumption].
  Qed.

  Lemma adds_del_comm l k0 : forall a, (forall i, In i l -> ikey i <> k0) -> Forall okI l -> awf a ->
    aeq (adds (alloc_del a k0) l) (alloc_del (adds a l) k0).
  Proof.
    induction l as [|i l IH]; intros a Hk Hok Hw.
    - simpl. apply aeq_refl, alloc_del_wf, Hw.
    - inversion Hok as [|? ? Hi Hok']; subst. change (adds (alloc_del a k0) (i :: l)) with (adds (app1 (alloc_del a k0) i) l).
      change (adds a (i :: l)) with (adds (app1 a i) l).
      eapply aeq_trans; [|apply IH; [intros j Hj; apply Hk; right; exact Hj|exact Hok'|apply alloc_add_wf; assumption]].
      apply adds_refl_resp; [exact Hok'|]. unfold app1.
      apply aeq_lookups; [apply alloc_add_wf, alloc_del_wf; assumption|apply alloc_del_wf, alloc_add_wf; assumption|].
      intros k. rewrite alloc_get_add, !alloc_get_del, alloc_get_add.
      assert (Hne : okey_eqb (fst (fst i)) k0 = false).
      { apply not_true_iff_false. intros H. apply okey_eqb_eq in H. apply (Hk i (or_introl eq_refl)). exact H. }
      rewrite Hne. destruct (okey_eqb k (fst (fst i))) eqn:E; [|reflexivity].
      apply okey_eqb_eq in E. subst k. rewrite Hne. reflexivity.
  Qed.

  (* ------------------------------------------------------------ moving ballots = adding instruction lists *)
  Definition mb_instrs (targets : list C) (b : ballot) (w : Q) : list instr :=
    match targets with
    | [] => [(None, b, w)]
    | _ => map (fun t => (Some t, b, Qred (w / inject_Z (Z.of_nat (length targets))))) targets
    end.

  Lemma move_ballot_adds a targets b w : move_ballot a targets b w = adds a (mb_instrs targets b w).
  Proof.
    unfold move_ballot, mb_instrs, adds. destruct targets as [|t ts]; [reflexivity|].
    generalize (Qred (w / inject_Z (Z.of_nat (length (t :: ts))))). intros share.
    generalize (t :: ts). intros l. revert a. induction l as [|x l IH]; intros a; simpl; [reflexivity|]. apply IH.
  Qed.

  Definition pile_instrs (c : C) (cont : list C) (p : pile) : list instr :=
    flat_map (fun bw : ballot * Q => mb_instrs (ranked_next (fst bw) c cont) (fst bw) (snd bw)) p.

  Lemma inner_fold_adds c cont p : forall a,
    fold_left (fun a (bw : ballot * Q) => move_ballot a (ranked_next (fst bw) c cont) (fst bw) (snd bw)) p a = adds a (pile_instrs c cont p).
  Proof.
    induction p as [|bw p IH]; intros a; simpl; [reflexivity|].
    rewrite IH, move_ballot_adds. unfold adds. rewrite fold_left_app. reflexivity.
  Qed.

  Definition step (cont : list C) (a : alloc) (c : C) : alloc :=
    alloc_del (adds a (pile_instrs c cont (odflt (alloc_get a (Some c))))) (Some c).

  Lemma transfer_steps a elim :
    transfer a elim = fold_left (step (filter (fun c => negb (cmem c elim)) (keys_some a))) (filter (fun c => cmem c elim) (keys_some a)) a.
  Proof.
    unfold transfer. generalize (filter (fun c => cmem c elim) (keys_some a)) as rem.
    generalize (filter (fun c => negb (cmem c elim)) (keys_some a)) as cont. intros cont rem.
    generalize a. induction rem as [|c rem IH]; intros a0; simpl; [reflexivity|].
    rewrite IH. f_equal. unfold step. rewrite inner_fold_adds.
    destruct (alloc_get a0 (Some c)); reflexivity.
  Qed.

  Lemma mb_instrs_key targets b w i : In i (mb_instrs targets b w) -> (ikey i = None \/ exists t, ikey i = Some t /\ In t targets) /\ snd (fst i) = b.
  Proof.
    unfold mb_instrs. destruct targets as [|t ts].
    - intros [<-|[]]. split; [left; reflexivity|reflexivity].
    - intros H. apply in_map_iff in H. destruct H as (x & <- & Hx). split; [right; exists x; split; [reflexivity|exact Hx]|reflexivity].
  Qed.

  Lemma pile_instrs_key c cont p i : In i (pile_instrs c cont p) ->
    (ikey i = None \/ exists t, ikey i = Some t /\ In t cont) /\ In (snd (fst i)) (map fst p).
  Proof.
    unfold pile_instrs. intros H. apply in_flat_map in H. destruct H as ([b w] & Hin & H). simpl in H.
    apply mb_instrs_key in H. destruct H as [H1 H2]. split.
    - destruct H1 as [H1|(t & H1 & Ht)]; [left; exact H1|]. right. exists t. split; [exact H1|].
      apply (ranked_next_allowed b c cont), Ht.
    - rewrite H2. apply in_map_iff. exists (b, w). auto.
  Qed.

  Lemma pile_instrs_ok c cont p : pwf p -> Forall okI (pile_instrs c cont p).
  Proof.
    intros Hw. apply Forall_forall. intros i Hi. apply pile_instrs_key in Hi. unfold okI. apply (proj1 Hw), Hi.
  Qed.

  Lemma pile_instrs_notkey c cont p c0 : ~ In c0 cont -> forall i, In i (pile_instrs c cont p) -> ikey i <> Some c0.
  Proof.
    intros Hc i Hi. apply pile_instrs_key in Hi. destruct Hi as [[H|(t & H & Ht)] _]; rewrite H; [discriminate|].
    intros [= ->]. tauto.
  Qed.

  Lemma step_wf cont a c : awf a -> awf (step cont a c).
  Proof.
    intros Hw. unfold step. apply alloc_del_wf, adds_wf; [|exact Hw]. apply pile_instrs_ok, odflt_wf, Hw.
  Qed.

  Lemma mb_instrs_rel targets b w w' : w == w' -> Forall2 RI (mb_instrs targets b w) (mb_instrs targets b w').
  Proof.
    intros Hw. unfold mb_instrs. destruct targets as [|t ts]; [constructor; [split; [reflexivity|exact Hw]|constructor]|].
    assert (Hs : Qred (w / inject_Z (Z.of_nat (length (t :: ts)))) == Qred (w' / inject_Z (Z.of_nat (length (t :: ts))))).
    { pose proof (Qred_correct (w / inject_Z (Z.of_nat (length (t :: ts))))) as E1.
      pose proof (Qred_correct (w' / inject_Z (Z.of_nat (length (t :: ts))))) as E2. rewrite E1, E2, Hw. reflexivity. }
    generalize dependent (Qred (w / inject_Z (Z.of_nat (length (t :: ts))))). intros s1.
    generalize (Qred (w' / inject_Z (Z.of_nat (length (t :: ts))))). intros s2 Hs.
    induction (t :: ts) as [|x l IH]; simpl; constructor; [split; [reflexivity|exact Hs]|exact IH].
  Qed.

  Lemma pile_instrs_rel c cont p p' : pwf p -> pwf p' -> plook p p' -> perm_mod instr RI (pile_instrs c cont p) (pile_instrs c cont p').
  Proof.
    intros Hw Hw' Hl. unfold pile_instrs. apply (perm_mod_flat_map wrel RI); [|apply plook_perm_mod; assumption].
    intros [b w] [b' w'] [H1 H2]. simpl in *. subst b'. apply mb_instrs_rel, H2.
  Qed.

  Lemma step_resp cont a a' c : aeq a a' -> aeq (step cont a c) (step cont a' c).
  Proof.
    intros Ha. unfold step. apply alloc_del_resp. pose proof Ha as (H1 & H2 & H3).
    apply adds_perm_mod; [|apply pile_instrs_ok, odflt_wf, H1|exact Ha].
    apply pile_instrs_rel; [apply odflt_wf, H1|apply odflt_wf, H2|].
    specialize (H3 (Some c)). destruct (alloc_get a (Some c)), (alloc_get a' (Some c)); simpl in *; try contradiction; [exact H3|apply plook_refl].
  Qed.

  Lemma step_get_other cont a c c2 : c2 <> c -> ~ In c2 cont -> alloc_get (step cont a c) (Some c2) = alloc_get a (Some c2).
  Proof.
    intros Hne Hc. unfold step. rewrite alloc_get_del.
    assert (E : okey_eqb (Some c2) (Some c) = false) by (apply not_true_iff_false; rewrite okey_eqb_eq; congruence).
    rewrite E. apply adds_get_other. apply pile_instrs_notkey, Hc.
  Qed.

  Lemma step_comm cont a c1 c2 : awf a -> ~ In c1 cont -> ~ In c2 cont ->
    aeq (step cont (step cont a c1) c2) (step cont (step cont a c2) c1).
  Proof.
    intros Hw H1 H2. destruct (Pos.eq_dec c1 c2) as [->|Hne]; [apply aeq_refl, step_wf, step_wf, Hw|].
    assert (Hhalf : forall x y, x <> y -> ~ In x cont -> ~ In y cont ->
      aeq (step cont (step cont a x) y)
          (alloc_del (alloc_del (adds a (pile_instrs x cont (odflt (alloc_get a (Some x))) ++ pile_instrs y cont (odflt (alloc_get a (Some y))))) (Some x)) (Some y))).
    { intros x y Hxy Hx Hy. unfold step at 1. rewrite (step_get_other cont a x y) by (try congruence; assumption).
      apply alloc_del_resp. unfold step.
      set (Ix := pile_instrs x cont (odflt (alloc_get a (Some x)))). set (Iy := pile_instrs y cont (odflt (alloc_get a (Some y)))).
      assert (Hox : Forall okI Ix) by (apply pile_instrs_ok, odflt_wf, Hw).
      assert (Hoy : Forall okI Iy) by (apply pile_instrs_ok, odflt_wf, Hw).
      unfold adds at 3. rewrite fold_left_app. fold (adds a Ix). fold (adds (adds a Ix) Iy).
      apply adds_del_comm; [apply pile_instrs_notkey, Hx|exact Hoy|apply adds_wf; assumption]. }
    eapply aeq_trans; [apply Hhalf; assumption|].
    eapply aeq_trans; [|apply aeq_sym, Hhalf; [congruence|assumption|assumption]].
    set (I1 := pile_instrs c1 cont (odflt (alloc_get a (Some c1)))). set (I2 := pile_instrs c2 cont (odflt (alloc_get a (Some c2)))).
    assert (Ho1 : Forall okI I1) by (apply pile_instrs_ok, odflt_wf, Hw).
    assert (Ho2 : Forall okI I2) by (apply pile_instrs_ok, odflt_wf, Hw).
    eapply aeq_trans; [apply alloc_del_comm, adds_wf; [apply Forall_app; split; assumption|exact Hw]|].
    apply alloc_del_resp, alloc_del_resp. apply adds_perm_mod; [|apply Forall_app; split; assumption|apply aeq_refl, Hw].
    exists (I2 ++ I1). split; [apply Permutation_app_comm|].
    clear. induction (I2 ++ I1); constructor; [split; reflexivity|assumption].
  Qed.

  (* ------------------------------------------------------------ transfer respects the dictionary view *)
  Lemma aeq_keys a a' : aeq a a' -> forall k, In k (akeys a) <-> In k (akeys a').
  Proof.
    intros (_ & _ & H) k. specialize (H k).
    destruct (alloc_get a k) eqn:E, (alloc_get a' k) eqn:E'; simpl in H; try contradiction.
    - apply alloc_get_in in E, E'. split; intros _; unfold akeys.
      + apply in_map_iff. exists (k, p0). auto.
      + apply in_map_iff. exists (k, p). auto.
    - apply alloc_get_none in E, E'. tauto.
  Qed.
  Lemma keys_some_in a c : In c (keys_some a) <-> In (Some c) (akeys a).
  Proof.
    unfold keys_some, akeys. induction a as [|[[k|] p] a IH]; simpl; [tauto| |].
    - rewrite IH. split; [intros [->|H]; auto|intros [[= ->]|H]; auto].
    - rewrite IH. split; [auto|intros [H|H]; [discriminate|exact H]].
  Qed.
  Lemma keys_some_nodup a : NoDup (akeys a) -> NoDup (keys_some a).
  Proof.
    unfold akeys. induction a as [|[[k|] p] a IH]; simpl; intros H; [constructor| |].
    - inversion H as [|? ? Hk Hn]; subst. constructor; [|apply IH, Hn]. intros Hi. apply Hk. apply keys_some_in in Hi. exact Hi.
    - inversion H; subst. apply IH. assumption.
  Qed.
  Lemma keys_some_perm a a' : aeq a a' -> Permutation (keys_some a) (keys_some a').
  Proof.
    intros Ha. apply NoDup_Permutation; [apply keys_some_nodup, Ha|apply keys_some_nodup, Ha|].
    intros c. rewrite !keys_some_in. apply aeq_keys, Ha.
  Qed.

  Lemma next_after_ext rest al al' : (forall c, cmem c al = cmem c al') -> next_after rest al = next_after rest al'.
  Proof.
    intros H. induction rest as [|[c|l] t IH]; simpl; [reflexivity| |].
    - rewrite H, IH. reflexivity.
    - rewrite (filter_ext (fun c => cmem c al) (fun c => cmem c al') H), IH. reflexivity.
  Qed.
  Lemma ranked_next_ext v c al al' : (forall c, cmem c al = cmem c al') -> ranked_next v c al = ranked_next v c al'.
  Proof.
    intros H. induction v as [|[x|l] t IH]; simpl; [reflexivity| |]; rewrite IH, (next_after_ext t al al' H); reflexivity.
  Qed.
  Lemma step_ext cont cont' a c : (forall x, cmem x cont = cmem x cont') -> step cont a c = step cont' a c.
  Proof.
    intros H. unfold step, pile_instrs. f_equal. f_equal. apply flat_map_ext. intros bw.
    rewrite (ranked_next_ext _ c cont cont' H). reflexivity.
  Qed.

  Lemma transfer_wf a elim : awf a -> awf (transfer a elim).
  Proof.
    intros Hw. rewrite transfer_steps. generalize (filter (fun c => cmem c elim) (keys_some a)). intros rem.
    generalize (filter (fun c : C => negb (cmem c elim)) (keys_some a)). intros cont.
    revert a Hw. induction rem as [|c rem IH]; intros a0 Hw; simpl; [exact Hw|]. apply IH, step_wf, Hw.
  Qed.

  Theorem transfer_resp a a' elim elim' : aeq a a' -> (forall c, cmem c elim = cmem c elim') ->
    aeq (transfer a elim) (transfer a' elim').
  Proof.
    intros Ha He. rewrite !transfer_steps.
    pose proof (keys_some_perm a a' Ha) as Hk.
    set (cont := filter (fun c => negb (cmem c elim)) (keys_some a)).
    set (cont' := filter (fun c => negb (cmem c elim')) (keys_some a')).
    set (rem := filter (fun c => cmem c elim) (keys_some a)).
    set (rem' := filter (fun c => cmem c elim') (keys_some a')).
    assert (Hc : forall x, cmem x cont' = cmem x cont).
    { intros x. apply cmem_perm. unfold cont, cont'.
      rewrite (filter_ext (fun c => negb (cmem c elim')) (fun c => negb (cmem c elim))) by (intros c; rewrite He; reflexivity).
      apply Permutation_sym, perm_filter, Hk. }
    assert (Hr : Permutation rem rem').
    { unfold rem, rem'. rewrite (filter_ext (fun c => cmem c elim') (fun c => cmem c elim)) by (intros c; rewrite He; reflexivity).
      apply perm_filter, Hk. }
    assert (Hfold : forall l a0, fold_left (step cont') l a0 = fold_left (step cont) l a0).
    { induction l as [|c l IH]; intros a0; simpl; [reflexivity|]. rewrite IH, (step_ext cont' cont a0 c Hc). reflexivity. }
    rewrite Hfold.
    apply (fold_perm_mod alloc C aeq eq (fun c => ~ In c cont) (step cont) aeq_trans).
    - intros; reflexivity.
    - intros s s' i i' Hs _ <-. apply step_resp, Hs.
    - intros s i j Hs Hi Hj. apply step_comm; [apply Hs|exact Hi|exact Hj].
    - exists rem'. split; [exact Hr|]. clear. induction rem'; constructor; auto.
    - apply Forall_forall. intros c Hc0 Hin. unfold rem in Hc0. unfold cont in Hin.
      apply filter_In in Hc0. apply filter_In in Hin. destruct Hc0 as [_ H1], Hin as [_ H2]. rewrite H1 in H2. discriminate.
    - exact Ha.
    - apply aeq_refl, Ha.
  Qed.

  (* ------------------------------------------------------------ subtracting quotas (Gregory) *)
  Lemma pileget_map_scale (g : Q -> Q) p b : pileget (map (fun bw : ballot * Q => (fst bw, g (snd bw))) p) b = option_map g (pileget p b).
  Proof. induction p as [|[b0 w0] p IH]; simpl; [reflexivity|]. destruct (ballot_eqb b b0); [reflexivity|exact IH]. Qed.
  Lemma pwf_map_scale (g : Q -> Q) p : pwf p -> pwf (map (fun bw : ballot * Q => (fst bw, g (snd bw))) p).
  Proof. unfold pwf. rewrite map_map. simpl. tauto. Qed.

  Definition orelp (R : pile -> pile -> Prop) (o o' : option pile) : Prop :=
    match o, o' with Some x, Some y => R x y | None, None => True | _, _ => False end.

  Lemma gregory_resp p p' amt : pwf p -> pwf p' -> plook p p' ->
    orelp (fun q q' => pwf q /\ pwf q' /\ plook q q') (gregory_subtract p amt) (gregory_subtract p' amt).
  Proof.
    intros Hw Hw' Hl. unfold gregory_subtract. rewrite <- (pile_sum_plook p p' Hw Hw' Hl).
    destruct (Qeq_bool (pile_sum p) 0); [exact I|]. destruct (Qle_bool (pile_sum p) amt); cbn [orelp].
    - split; [apply pwf_nil|]. split; [apply pwf_nil|apply plook_refl].
    - set (f := (pile_sum p - amt) / pile_sum p).
      split; [apply (pwf_map_scale (fun w => Qred (w * f))), Hw|]. split; [apply (pwf_map_scale (fun w => Qred (w * f))), Hw'|].
      intros b Hb. rewrite !(pileget_map_scale (fun w => Qred (w * f))). specialize (Hl b Hb). destruct Hl as [|w w' Hww]; cbn [option_map]; constructor.
      pose proof (Qred_correct (w * f)) as E1. pose proof (Qred_correct (w' * f)) as E2. rewrite E1, E2, Hww. reflexivity.
  Qed.

  Definition repl (a : alloc) (c : C) (p' : pile) : alloc :=
    map (fun kp : option C * pile => if okey_eqb (Some c) (fst kp) then (fst kp, p') else kp) a.

  Lemma alloc_get_repl a c p' k :
    alloc_get (repl a c p') k = if okey_eqb k (Some c) then match alloc_get a k with Some _ => Some p' | None => None end else alloc_get a k.
  Proof.
    unfold repl. induction a as [|[k0 p0] a IH]; cbn -[okey_eqb]; [destruct (okey_eqb k (Some c)); reflexivity|].
    destruct (okey_eqb (Some c) k0) eqn:E; cbn -[okey_eqb].
    - apply okey_eqb_eq in E. subst k0. destruct (okey_eqb k (Some c)); [reflexivity|exact IH].
    - destruct (okey_eqb k k0) eqn:E2; [|exact IH].
      apply okey_eqb_eq in E2. subst k0. destruct (okey_eqb k (Some c)) eqn:E3; [|reflexivity].
      apply okey_eqb_eq in E3. subst k. rewrite okey_eqb_refl in E. discriminate.
  Qed.
  Lemma repl_wf a c p' : awf a -> pwf p' -> awf (repl a c p').
  Proof.
    intros [Hn Hf] Hp. unfold repl, awf, akeys in *. split.
    - rewrite map_map. rewrite (map_ext _ fst); [exact Hn|]. intros [k0 p0]. cbn -[okey_eqb]. destruct (okey_eqb (Some c) k0); reflexivity.
    - apply Forall_forall. intros x Hx. apply in_map_iff in Hx. destruct Hx as ([k0 p0] & <- & Hin).
      cbn -[okey_eqb]. destruct (okey_eqb (Some c) k0); simpl; [exact Hp|]. rewrite Forall_forall in Hf. exact (Hf _ Hin).
  Qed.

  Definition sub1 (a : alloc) (ca : C * Q) : option alloc :=
    match alloc_get a (Some (fst ca)) with
    | None => None
    | Some p => match gregory_subtract p (snd ca) with None => None | Some p' => Some (repl a (fst ca) p') end
    end.
  Definition osub (o : option alloc) (ca : C * Q) : option alloc := match o with Some a => sub1 a ca | None => None end.

  Lemma subtract_fold el : forall a, subtract a el = fold_left osub el (Some a).
  Proof.
    induction el as [|[c amt] t IH]; intros a; simpl; [reflexivity|].
    unfold sub1. simpl. destruct (alloc_get a (Some c)) as [p|]; [|clear; induction t; simpl; auto].
    destruct (gregory_subtract p amt) as [p'|]; [apply IH|clear; induction t; simpl; auto].
  Qed.

  Definition oaeq (o o' : option alloc) : Prop := match o, o' with Some a, Some a' => aeq a a' | None, None => True | _, _ => False end.
  Lemma oaeq_trans o1 o2 o3 : oaeq o1 o2 -> oaeq o2 o3 -> oaeq o1 o3.
  Proof. destruct o1, o2, o3; simpl; try tauto. apply aeq_trans. Qed.

  Lemma sub1_resp a a' ca : aeq a a' -> oaeq (sub1 a ca) (sub1 a' ca).
  Proof.
    intros Ha. pose proof Ha as (H1 & H2 & H3). unfold sub1. pose proof (H3 (Some (fst ca))) as Hl.
    destruct (alloc_get a (Some (fst ca))) as [p|] eqn:E, (alloc_get a' (Some (fst ca))) as [p'|] eqn:E'; simpl in Hl; try contradiction; [|exact I].
    pose proof (alloc_get_wf _ _ _ H1 E) as Hw. pose proof (alloc_get_wf _ _ _ H2 E') as Hw'.
    pose proof (gregory_resp p p' (snd ca) Hw Hw' Hl) as Hg.
    destruct (gregory_subtract p (snd ca)) as [q|], (gregory_subtract p' (snd ca)) as [q'|]; simpl in Hg; try contradiction; [|exact I].
    destruct Hg as (Hq & Hq' & Hqq). simpl. split; [apply repl_wf; assumption|]. split; [apply repl_wf; assumption|].
    intros k. rewrite !alloc_get_repl. destruct (okey_eqb k (Some (fst ca))) eqn:Ek; [|apply H3].
    apply okey_eqb_eq in Ek. subst k. rewrite E, E'. exact Hqq.
  Qed.

  Lemma sub1_comm a x y : awf a -> fst x <> fst y -> oaeq (osub (sub1 a x) y) (osub (sub1 a y) x).
  Proof.
    intros Hw Hne. destruct x as [c1 x1], y as [c2 x2]. simpl in Hne.
    assert (E12 : okey_eqb (Some c2) (Some c1) = false) by (apply not_true_iff_false; rewrite okey_eqb_eq; congruence).
    assert (E21 : okey_eqb (Some c1) (Some c2) = false) by (apply not_true_iff_false; rewrite okey_eqb_eq; congruence).
    assert (F1 : forall q, alloc_get (repl a c1 q) (Some c2) = alloc_get a (Some c2)) by (intros q; rewrite alloc_get_repl, E12; reflexivity).
    assert (F2 : forall q, alloc_get (repl a c2 q) (Some c1) = alloc_get a (Some c1)) by (intros q; rewrite alloc_get_repl, E21; reflexivity).
    unfold osub, sub1. cbn [fst snd].
    destruct (alloc_get a (Some c1)) as [p1|] eqn:G1; [destruct (gregory_subtract p1 x1) as [q1|] eqn:S1|];
    (destruct (alloc_get a (Some c2)) as [p2|] eqn:G2; [destruct (gregory_subtract p2 x2) as [q2|] eqn:S2|]);
    rewrite ?F1, ?F2, ?G1, ?G2, ?S1, ?S2; try exact I.
    cbn [oaeq].
    pose proof (alloc_get_wf _ _ _ Hw G1) as W1. pose proof (alloc_get_wf _ _ _ Hw G2) as W2.
    pose proof (gregory_resp p1 p1 x1 W1 W1 (plook_refl p1)) as R1. rewrite S1 in R1. cbn [orelp] in R1.
    pose proof (gregory_resp p2 p2 x2 W2 W2 (plook_refl p2)) as R2. rewrite S2 in R2. cbn [orelp] in R2.
    apply aeq_lookups; [apply repl_wf; [apply repl_wf; tauto|tauto]|apply repl_wf; [apply repl_wf; tauto|tauto]|].
    intros k. rewrite !alloc_get_repl.
    destruct (okey_eqb k (Some c2)) eqn:K2, (okey_eqb k (Some c1)) eqn:K1; try reflexivity.
    apply okey_eqb_eq in K2, K1. congruence.
  Qed.

  Theorem subtract_resp a a' el el' : aeq a a' -> Permutation el el' -> NoDup (map fst el) ->
    oaeq (subtract a el) (subtract a' el').
  Proof.
    intros Ha Hp Hn. rewrite !subtract_fold.
    apply (fold_perm_mod (option alloc) (C * Q) oaeq eq (fun i => In i el) osub oaeq_trans).
    - intros; reflexivity.
    - intros s s' i i' Hs _ <-. destruct s, s'; simpl in *; try contradiction; [apply sub1_resp, Hs|exact I].
    - intros s i j Hs Hi Hj. destruct s as [s|]; [|exact I]. simpl in Hs.
      destruct (Pos.eq_dec (fst i) (fst j)) as [E|E].
      + assert (i = j).
        { destruct i as [c x], j as [c' y]. simpl in E. subst c'. f_equal.
          clear -Hn Hi Hj. induction el as [|[k u] t IH]; [destruct Hi|]. simpl in Hn. inversion Hn as [|? ? Hk Hn']; subst.
          destruct Hi as [Hi|Hi], Hj as [Hj|Hj].
          - congruence.
          - injection Hi as -> ->. exfalso. apply Hk. apply in_map_iff. exists (c, y). auto.
          - injection Hj as -> ->. exfalso. apply Hk. apply in_map_iff. exists (c, x). auto.
          - apply IH; assumption. }
        subst j. simpl.
        pose proof (sub1_resp s s i Hs) as H1. destruct (sub1 s i) as [s1|]; [|exact I]. simpl in *. apply sub1_resp, H1.
      + simpl. apply sub1_comm; [apply Hs|exact E].
    - exists el'. split; [exact Hp|]. clear. induction el'; constructor; auto.
    - apply Forall_forall. auto.
    - exact Ha.
    - simpl. apply aeq_refl, Ha.
  Qed.

  (* ------------------------------------------------------------ totals *)
  Lemma totals_in a k t : NoDup (akeys a) -> (In (k, t) (totals a) <-> exists p, alloc_get a k = Some p /\ t = pile_sum p).
  Proof.
    intros Hn. unfold totals. rewrite in_map_iff. split.
    - intros ([k0 p] & Heq & Hin). simpl in Heq. injection Heq as -> <-. exists p. split; [apply in_alloc_get; assumption|reflexivity].
    - intros (p & Hg & ->). exists (k, p). split; [reflexivity|apply alloc_get_in, Hg].
  Qed.

  Theorem totals_perm a a' : aeq a a' -> Permutation (totals a) (totals a').
  Proof.
    intros (H1 & H2 & H3).
    assert (Hnd : forall x, NoDup (akeys x) -> NoDup (totals x)).
    { intros x Hx. eapply NoDup_map_inv with (f := fst). rewrite totals_keys. exact Hx. }
    apply NoDup_Permutation; [apply Hnd, H1|apply Hnd, H2|].
    intros [k t]. rewrite (totals_in a k t (proj1 H1)), (totals_in a' k t (proj1 H2)). specialize (H3 k).
    split; intros (p & Hg & ->); rewrite Hg in H3.
    - destruct (alloc_get a' k) as [p'|] eqn:E; simpl in H3; [|contradiction]. exists p'. split; [reflexivity|].
      apply pile_sum_plook; [exact (alloc_get_wf a k p H1 Hg)|exact (alloc_get_wf a' k p' H2 E)|exact H3].
    - destruct (alloc_get a k) as [p'|] eqn:E; simpl in H3; [|contradiction]. exists p'. split; [reflexivity|].
      symmetry. apply pile_sum_plook; [exact (alloc_get_wf a k p' H1 E)|exact (alloc_get_wf a' k p H2 Hg)|exact H3].
  Qed.

  (* ------------------------------------------------------------ get_n_best on permuted dictionaries, any n *)
  Definition is_tie {K} (r : res K) : bool := match r with TieR _ => true | _ => false end.
  Definition cands_of {K} (l : list (res K)) : list K := flat_map (fun r => match r with Cand c => [c] | _ => [] end) l.

  Lemma gnb_zero {K} (l : list (K * Q)) : get_n_best Qle_bool l 0 = [].
  Proof.
    unfold get_n_best. destruct (sort_desc Qle_bool l) as [|[c thr] s]; [reflexivity|].
    cbn [length Nat.ltb Nat.leb Nat.sub nth_error]. destruct (eqv Qle_bool thr thr) eqn:E; [|reflexivity].
    cbn [first_eq_index snd]. rewrite E. reflexivity.
  Qed.

  Lemma gnb_perm_kept {K} (votes votes' : list (K * Q)) n : NoDup (map fst votes) -> Permutation votes votes' ->
    existsb is_tie (get_n_best Qle_bool votes n) = existsb is_tie (get_n_best Qle_bool votes' n) /\
    (existsb is_tie (get_n_best Qle_bool votes n) = false ->
     Permutation (cands_of (get_n_best Qle_bool votes n)) (cands_of (get_n_best Qle_bool votes' n)) /\
     NoDup (cands_of (get_n_best Qle_bool votes n))).
  Proof.
    intros Hn Hp. destruct n as [|n]; [rewrite !gnb_zero; simpl; split; [reflexivity|intros _; split; constructor]|].
    destruct (gnb_perm_shape votes votes' (S n) ltac:(lia) Hn Hp) as (cs & cs' & T & T' & k & E & E' & Pcs & Ncs & _).
    rewrite E, E'. rewrite !existsb_app.
    assert (H1 : forall l : list K, existsb is_tie (map Cand l) = false) by (induction l; simpl; auto).
    assert (H2 : forall (X : list K) j, existsb is_tie (repeat (TieR X) j) = match j with O => false | _ => true end) by (intros X [|j]; reflexivity).
    assert (H3 : forall l : list K, cands_of (map Cand l) = l) by (induction l as [|x l IH]; simpl; [reflexivity|f_equal; exact IH]).
    assert (H4 : forall (X : list K) j, cands_of (repeat (TieR X) j) = []) by (intros X j; induction j; simpl; auto).
    rewrite !H1, !H2. split; [reflexivity|]. intros _. unfold cands_of in *. rewrite !flat_map_app, !H3, !H4, !app_nil_r. split; assumption.
  Qed.

  (* ------------------------------------------------------------ _elect_by_quota *)
  Definition ebq_sel (cf : cfg) (q : Q) (prev caps : list (C * Z)) (kt : option C * Q) : list (C * Z * Q) :=
    match fst kt with
    | None => []
    | Some c =>
        let mult := qfloor_div (snd kt) q in
        let over := Qred (snd kt - inject_Z mult * q) in
        if c_accept_equal cf || negb (Qeq_bool over 0) then
          let capped := match dget caps c with Some m => Z.min mult m | None => mult end in
          let actual := (capped - dget_or prev c 0)%Z in
          if (0 <? actual)%Z then [(c, actual, over)] else []
        else []
    end.

  Definition ebq_body (n_rem : Z) (sel : list (C * Z * Q)) : option (list (C * Z)) + stop :=
    let awarded := map (fun x : C * Z * Q => (fst (fst x), snd (fst x))) sel in
    if (n_rem <? zsum (map snd awarded))%Z then
      let kept := get_n_best Qle_bool (map (fun x : C * Z * Q => (fst (fst x), snd x)) sel) (Z.to_nat n_rem) in
      if existsb (fun r => match r with TieR _ => true | _ => false end) kept then inr S_nie
      else
        let keptc := flat_map (fun r => match r with Cand c => [c] | _ => [] end) kept in
        inl (Some (flat_map (fun cs : C * Z =>
                     if cmem (fst cs) keptc then [cs]
                     else if (1 <? snd cs)%Z then [(fst cs, (snd cs - 1)%Z)] else []) awarded))
    else inl (Some awarded).

  Lemma ebq_unfold cf tot q n_rem prev caps :
    elect_by_quota cf tot (Some q) n_rem prev caps =
      match flat_map (ebq_sel cf q prev caps) (sort_desc Qle_bool (map (fun kt : option C * Q => (fst kt, snd kt)) tot)) with
      | [] => inl None
      | sel => ebq_body n_rem sel
      end.
  Proof.
    unfold elect_by_quota. cbv zeta.
    match goal with |- match ?X with _ => _ end = _ => set (s1 := X) end.
    change (flat_map (ebq_sel cf q prev caps) (sort_desc Qle_bool (map (fun kt : option C * Q => (fst kt, snd kt)) tot))) with s1.
    destruct s1; reflexivity.
  Qed.

  Definition ebq_rel (r r' : option (list (C * Z)) + stop) : Prop :=
    match r, r' with
    | inl None, inl None => True
    | inl (Some el), inl (Some el') => NoDup (map fst el) /\ Permutation el el'
    | inr s, inr s' => s = s'
    | _, _ => False
    end.

  Lemma zsum_perm l l' : Permutation l l' -> zsum l = zsum l'.
  Proof. intros H. unfold zsum. rewrite !fold_add_acc. f_equal. apply lsumZ_perm, H. Qed.

  Lemma flat_map_keys_nodup {A B} (f : A -> list (C * B)) (key : A -> C) (l : list A) :
    (forall x y, In y (f x) -> fst y = key x) -> (forall x, (length (f x) <= 1)%nat) -> NoDup (map key l) -> NoDup (map fst (flat_map f l)).
  Proof.
    intros Hk Hl. induction l as [|x l IH]; simpl; intros Hn; [constructor|].
    inversion Hn as [|? ? Hx Hn']; subst. rewrite map_app.
    assert (Hsub : forall c, In c (map fst (flat_map f l)) -> In c (map key l)).
    { intros c Hc. apply in_map_iff in Hc. destruct Hc as (y & <- & Hy). apply in_flat_map in Hy. destruct Hy as (x0 & Hx0 & Hy).
      rewrite (Hk x0 y Hy). apply in_map, Hx0. }
    specialize (Hl x). destruct (f x) as [|y [|z t]] eqn:E; simpl in *; [apply IH, Hn'| |lia].
    constructor; [|apply IH, Hn']. intros Hc. apply Hx. rewrite <- (Hk x y); [apply Hsub, Hc|rewrite E; left; reflexivity].
  Qed.

  Lemma ebq_body_perm n_rem sel sel' : NoDup (map (fun x : C * Z * Q => fst (fst x)) sel) -> Permutation sel sel' ->
    ebq_rel (ebq_body n_rem sel) (ebq_body n_rem sel').
  Proof.
    intros Hn Hp. unfold ebq_body.
    set (aw := map (fun x : C * Z * Q => (fst (fst x), snd (fst x))) sel).
    set (aw' := map (fun x : C * Z * Q => (fst (fst x), snd (fst x))) sel').
    assert (Hap : Permutation aw aw') by (apply Permutation_map, Hp).
    assert (Han : NoDup (map fst aw)) by (unfold aw; rewrite map_map; exact Hn).
    rewrite <- (zsum_perm _ _ (Permutation_map snd Hap)).
    destruct (n_rem <? zsum (map snd aw))%Z; [|simpl; split; assumption].
    set (ov := map (fun x : C * Z * Q => (fst (fst x), snd x)) sel).
    set (ov' := map (fun x : C * Z * Q => (fst (fst x), snd x)) sel').
    assert (Hop : Permutation ov ov') by (apply Permutation_map, Hp).
    assert (Hon : NoDup (map fst ov)) by (unfold ov; rewrite map_map; exact Hn).
    destruct (gnb_perm_kept ov ov' (Z.to_nat n_rem) Hon Hop) as [Ht Hc].
    fold (@is_tie C) in *. fold (@cands_of C (get_n_best Qle_bool ov (Z.to_nat n_rem))) (@cands_of C (get_n_best Qle_bool ov' (Z.to_nat n_rem))).
    rewrite <- Ht. destruct (existsb is_tie (get_n_best Qle_bool ov (Z.to_nat n_rem))); [reflexivity|].
    destruct (Hc eq_refl) as [Hkp _]. cbn [ebq_rel]. split.
    - apply (flat_map_keys_nodup _ fst); [| |exact Han].
      + intros x y. destruct (cmem (fst x) _); [intros [<-|[]]; reflexivity|]. destruct (1 <? snd x)%Z; [intros [<-|[]]; reflexivity|intros []].
      + intros x. destruct (cmem (fst x) _); [simpl; lia|]. destruct (1 <? snd x)%Z; simpl; lia.
    - eapply Permutation_trans; [apply Permutation_flat_map, Hap|]. apply Permutation_refl'.
      apply flat_map_ext. intros cs. rewrite (cmem_perm _ _ _ Hkp). reflexivity.
  Qed.

  Lemma ebq_sel_ext cf q prev prev' caps kt : (forall c, dget_or prev' c 0%Z = dget_or prev c 0%Z) ->
    ebq_sel cf q prev' caps kt = ebq_sel cf q prev caps kt.
  Proof. intros H. unfold ebq_sel. destruct (fst kt); [|reflexivity]. rewrite H. reflexivity. Qed.

  Lemma items_perm (tot : list (option C * Q)) : Permutation (sort_desc Qle_bool (map (fun kt : option C * Q => (fst kt, snd kt)) tot)) tot.
  Proof.
    rewrite map_ext with (g := fun x => x) by (intros [x y]; reflexivity). rewrite map_id. apply sort_desc_perm.
  Qed.

  Theorem elect_by_quota_perm cf tot tot' quota n_rem prev prev' caps :
    NoDup (map fst tot) -> Permutation tot tot' -> keysnd prev -> Permutation prev prev' ->
    ebq_rel (elect_by_quota cf tot quota n_rem prev caps) (elect_by_quota cf tot' quota n_rem prev' caps).
  Proof.
    intros Hn Hp Hpn Hpp. destruct quota as [q|]; [|exact I]. rewrite !ebq_unfold.
    set (items := sort_desc Qle_bool (map (fun kt : option C * Q => (fst kt, snd kt)) tot)).
    set (items' := sort_desc Qle_bool (map (fun kt : option C * Q => (fst kt, snd kt)) tot')).
    assert (Hip : Permutation items items').
    { eapply Permutation_trans; [apply items_perm|]. eapply Permutation_trans; [exact Hp|apply Permutation_sym, items_perm]. }
    assert (Hin : NoDup (map fst items)).
    { eapply Permutation_NoDup; [apply Permutation_map, Permutation_sym, items_perm|exact Hn]. }
    rewrite (flat_map_ext (ebq_sel cf q prev' caps) (ebq_sel cf q prev caps)) by (intros kt; apply ebq_sel_ext; intros c; symmetry; apply dget_or_perm; assumption).
    assert (Hsp : Permutation (flat_map (ebq_sel cf q prev caps) items) (flat_map (ebq_sel cf q prev caps) items')) by (apply Permutation_flat_map, Hip).
    assert (Hsn : NoDup (map (fun x : C * Z * Q => fst (fst x)) (flat_map (ebq_sel cf q prev caps) items))).
    { clear -Hin. induction items as [|[k t] l IH]; simpl; [constructor|]. simpl in Hin. inversion Hin as [|? ? Hk Hn]; subst.
      rewrite map_app. unfold ebq_sel at 1. cbn [fst snd].
      destruct k as [c|]; [|apply IH, Hn].
      destruct (c_accept_equal cf || _); [|apply IH, Hn]. destruct (0 <? _)%Z; [|apply IH, Hn].
      simpl. constructor; [|apply IH, Hn]. intros Hc. apply Hk. apply in_map_iff in Hc. destruct Hc as (y & Hy & Hc).
      apply in_flat_map in Hc. destruct Hc as ([k0 t0] & Hk0 & Hc). unfold ebq_sel in Hc. cbn [fst snd] in Hc.
      destruct k0 as [c0|]; [|destruct Hc]. apply in_map_iff. exists (Some c0, t0). split; [|exact Hk0].
      destruct (c_accept_equal cf || _); [|destruct Hc]. destruct (0 <? _)%Z; [|destruct Hc]. destruct Hc as [<-|[]]. simpl in Hy. simpl. congruence. }
    destruct (flat_map (ebq_sel cf q prev caps) items) as [|x l] eqn:E1.
    - apply Permutation_nil in Hsp. rewrite Hsp. exact I.
    - destruct (flat_map (ebq_sel cf q prev caps) items') as [|y l'] eqn:E2.
      + apply Permutation_sym, Permutation_nil in Hsp. discriminate.
      + apply ebq_body_perm; assumption.
  Qed.

  (* ------------------------------------------------------------ one count *)
  Definition cr_rel (r r' : count_result) : Prop :=
    match r, r' with
    | CR_all el, CR_all el' => keysnd el /\ Permutation el el'
    | CR_next a el, CR_next a' el' => aeq a a' /\ keysnd el /\ Permutation el el'
    | CR_stop s, CR_stop s' => s = s'
    | _, _ => False
    end.

  Lemma transfer_or_not a a' elim elim' : aeq a a' -> Permutation elim elim' ->
    aeq (match elim with [] => a | _ => transfer a elim end) (match elim' with [] => a' | _ => transfer a' elim' end).
  Proof.
    intros Ha Hp. destruct elim as [|x l].
    - apply Permutation_nil in Hp. subst. exact Ha.
    - destruct elim' as [|y l']; [apply Permutation_sym, Permutation_nil in Hp; discriminate|].
      apply transfer_resp; [exact Ha|]. intros c. apply cmem_perm, Hp.
  Qed.

  Lemma some_totals_nodup (t : list (option C * Q)) : NoDup (map fst t) -> NoDup (map fst (some_totals t)).
  Proof.
    unfold some_totals. induction t as [|[[c|] x] t IH]; simpl; intros H; [constructor| |]; inversion H as [|? ? Hk Hn]; subst; [|apply IH, Hn].
    constructor; [|apply IH, Hn]. intros Hi. apply Hk. apply in_map_iff in Hi. destruct Hi as ([c0 x0] & Hc & Hi). simpl in Hc. subst c0.
    apply in_flat_map in Hi. destruct Hi as ([[k|] y] & Hy & Hi); simpl in Hi; [|destruct Hi]. destruct Hi as [Hi|[]]. injection Hi as -> ->.
    apply in_map_iff. exists (Some c, x0). auto.
  Qed.

  Theorem next_count_perm cf a a' n_seats total prev prev' caps :
    aeq a a' -> keysnd prev -> Permutation prev prev' ->
    cr_rel (next_count cf a n_seats total prev caps) (next_count cf a' n_seats total prev' caps).
  Proof.
    intros Ha Hpn Hpp. unfold next_count.
    pose proof (totals_perm a a' Ha) as Htp.
    assert (Htn : NoDup (map fst (totals a))) by (rewrite totals_keys; apply Ha).
    assert (Hpd : forall c, dget_or prev' c 0%Z = dget_or prev c 0%Z) by (intros c; symmetry; apply dget_or_perm; assumption).
    rewrite <- (zsum_perm _ _ (Permutation_map snd Hpp)).
    set (n_rem := (n_seats - zsum (map snd prev))%Z).
    set (tot := totals a) in *. set (tot' := totals a') in *.
    assert (Hbp : Permutation (sort_desc Qle_bool tot) (sort_desc Qle_bool tot')).
    { eapply Permutation_trans; [apply sort_desc_perm|]. eapply Permutation_trans; [exact Htp|apply Permutation_sym, sort_desc_perm]. }
    assert (Hbn : NoDup (map fst (sort_desc Qle_bool tot))).
    { eapply Permutation_NoDup; [apply Permutation_map, Permutation_sym, sort_desc_perm|exact Htn]. }
    rewrite <- (existsb_perm _ _ _ Hbp).
    set (availf := fun pv (kt : option C * Q) => match fst kt with Some c => [(c, (dget_or caps c 0 - dget_or pv c 0)%Z)] | None => [] end).
    change (flat_map (fun kt : option C * Q => match fst kt with Some c => [(c, (dget_or caps c 0 - dget_or prev c 0)%Z)] | None => [] end) (sort_desc Qle_bool tot))
      with (flat_map (availf prev) (sort_desc Qle_bool tot)).
    change (flat_map (fun kt : option C * Q => match fst kt with Some c => [(c, (dget_or caps c 0 - dget_or prev' c 0)%Z)] | None => [] end) (sort_desc Qle_bool tot'))
      with (flat_map (availf prev') (sort_desc Qle_bool tot')).
    rewrite (flat_map_ext (availf prev') (availf prev)) by (intros kt; unfold availf; destruct (fst kt); [rewrite Hpd|]; reflexivity).
    assert (Hav : Permutation (flat_map (availf prev) (sort_desc Qle_bool tot)) (flat_map (availf prev) (sort_desc Qle_bool tot'))) by (apply Permutation_flat_map, Hbp).
    assert (Han : keysnd (flat_map (availf prev) (sort_desc Qle_bool tot))).
    { unfold keysnd. clear -Hbn. induction (sort_desc Qle_bool tot) as [|[[c|] x] t IH]; simpl in *; [constructor| |]; inversion Hbn as [|? ? Hk Hn]; subst; [|apply IH, Hn].
      constructor; [|apply IH, Hn]. intros Hi. apply Hk. apply in_map_iff in Hi. destruct Hi as ([c0 x0] & Hc & Hi). simpl in Hc. subst c0.
      apply in_flat_map in Hi. destruct Hi as ([[k|] y] & Hy & Hi); unfold availf in Hi; simpl in Hi; [|destruct Hi]. destruct Hi as [Hi|[]]. injection Hi as -> _.
      apply in_map_iff. exists (Some c, y). auto. }
    rewrite <- (zsum_perm _ _ (Permutation_map snd Hav)).
    destruct (negb _ && (_ =? n_rem)%Z && negb (c_mandatory cf)); [split; assumption|].
    set (quota := match c_quota cf with Some qf => if Qeq_bool total 0 || (n_seats =? 0)%Z then None else Some (qf total n_seats) | None => None end).
    pose proof (elect_by_quota_perm cf tot tot' quota n_rem prev prev' caps Htn Htp Hpn Hpp) as Heb.
    destruct (elect_by_quota cf tot quota n_rem prev caps) as [[el|]|st], (elect_by_quota cf tot' quota n_rem prev' caps) as [[el'|]|st']; simpl in Heb; try contradiction.
    - destruct Heb as [Hen Hep]. destruct quota as [q|]; [|reflexivity].
      assert (Hmp : Permutation (map (fun cs : C * Z => (fst cs, inject_Z (snd cs) * q)) el) (map (fun cs : C * Z => (fst cs, inject_Z (snd cs) * q)) el')) by (apply Permutation_map, Hep).
      assert (Hmn : NoDup (map fst (map (fun cs : C * Z => (fst cs, inject_Z (snd cs) * q)) el))) by (rewrite map_map; exact Hen).
      pose proof (subtract_resp a a' _ _ Ha Hmp Hmn) as Hs.
      destruct (subtract a _) as [a1|], (subtract a' _) as [a1'|]; simpl in Hs; try contradiction; [|reflexivity].
      cbn [cr_rel]. split; [|split; assumption].
      apply transfer_or_not; [exact Hs|].
      rewrite (flat_map_ext (fun cs : C * Z => match dget caps (fst cs) with Some m => if (m <=? snd cs + dget_or prev' (fst cs) 0)%Z then [fst cs] else [] | None => [] end)
                            (fun cs : C * Z => match dget caps (fst cs) with Some m => if (m <=? snd cs + dget_or prev (fst cs) 0)%Z then [fst cs] else [] | None => [] end))
        by (intros cs; rewrite Hpd; reflexivity).
      apply Permutation_flat_map, Hep.
    - (* nobody reaches the quota: eliminate *)
      assert (Hip : Permutation (some_totals tot) (some_totals tot')) by (apply Permutation_flat_map, Htp).
      assert (Hin : NoDup (map fst (some_totals tot))) by (apply some_totals_nodup, Htn).
      rewrite <- (Permutation_length Hip).
      destruct (gnb_perm_kept (some_totals tot) (some_totals tot') (retained_count cf (length (some_totals tot))) Hin Hip) as [Ht Hc].
      fold (@is_tie C) in *.
      fold (@cands_of C (get_n_best Qle_bool (some_totals tot) (retained_count cf (length (some_totals tot)))))
           (@cands_of C (get_n_best Qle_bool (some_totals tot') (retained_count cf (length (some_totals tot))))).
      rewrite <- Ht. destruct (existsb is_tie _); [reflexivity|]. destruct (Hc eq_refl) as [Hkp _].
      cbn [cr_rel]. split; [|split; [constructor|constructor]].
      apply transfer_or_not; [exact Ha|].
      rewrite (filter_ext (fun c : C => negb (cmem c (cands_of (get_n_best Qle_bool (some_totals tot') (retained_count cf (length (some_totals tot)))))))
                          (fun c : C => negb (cmem c (cands_of (get_n_best Qle_bool (some_totals tot) (retained_count cf (length (some_totals tot)))))))) by (intros c; rewrite (cmem_perm _ _ _ Hkp); reflexivity).
      apply perm_filter, Permutation_map, Hip.
    - exact Heb.
  Qed.

  (* ------------------------------------------------------------ the fixpoint test alloc_eqb *)
  Definition psub (p q : pile) : bool :=
    forallb (fun bw : ballot * Q => existsb (fun bw' : ballot * Q => ballot_eqb (fst bw) (fst bw') && Qeq_bool (snd bw) (snd bw')) q) p.
  Definition asub (x y : alloc) : bool :=
    forallb (fun kp : option C * pile => match alloc_get y (fst kp) with Some q => psub (snd kp) q && psub q (snd kp) | None => false end) x.
  Lemma alloc_eqb_unfold a b : alloc_eqb a b = asub a b && asub b a.
  Proof. reflexivity. Qed.

  Lemma bool_iff (x y : bool) : (x = true <-> y = true) -> x = y.
  Proof. destruct x, y; intuition congruence. Qed.

  Definition PS (p q : pile) : Prop := forall b, In b U -> forall w, pileget p b = Some w -> exists w', pileget q b = Some w' /\ w == w'.

  Lemma psub_spec p q : pwf p -> pwf q -> (psub p q = true <-> PS p q).
  Proof.
    intros Hp Hq. unfold psub. rewrite forallb_forall. split.
    - intros H b Hb w Hg. apply (pileget_in p b w Hb Hp) in Hg. specialize (H _ Hg). apply existsb_exists in H.
      destruct H as ([b' w'] & Hin & Hc). simpl in Hc. apply andb_true_iff in Hc. destruct Hc as [E1 E2].
      assert (Hb' : In b' U) by (apply (proj1 Hq); apply in_map_iff; exists (b', w'); auto).
      apply beq_U in E1; [|assumption|assumption]. subst b'. exists w'. split; [apply (pileget_in q b w' Hb Hq), Hin|apply Qeq_bool_iff, E2].
    - intros H [b w] Hin. assert (Hb : In b U) by (apply (proj1 Hp); apply in_map_iff; exists (b, w); auto).
      destruct (H b Hb w (proj2 (pileget_in p b w Hb Hp) Hin)) as (w' & Hg & Hww). apply existsb_exists. exists (b, w').
      split; [apply (pileget_in q b w' Hb Hq), Hg|]. simpl. rewrite ballot_eqb_refl. apply Qeq_bool_iff, Hww.
  Qed.

  Lemma PS_resp p p1 q q1 : plook p p1 -> plook q q1 -> PS p q -> PS p1 q1.
  Proof.
    intros Hp Hq H b Hb w1 Hg. pose proof (Hp b Hb) as Ho. rewrite Hg in Ho. apply oeq_some_r in Ho. destruct Ho as (w & Hgw & Hww).
    destruct (H b Hb w Hgw) as (w' & Hgq & Hw'). pose proof (Hq b Hb) as Ho. rewrite Hgq in Ho. apply oeq_some_l in Ho.
    destruct Ho as (w1' & Hg1 & Hw1). exists w1'. split; [exact Hg1|]. rewrite <- Hww, Hw', Hw1. reflexivity.
  Qed.

  Lemma psub_resp p p1 q q1 : pwf p -> pwf p1 -> pwf q -> pwf q1 -> plook p p1 -> plook q q1 -> psub p q = psub p1 q1.
  Proof.
    intros. apply bool_iff. rewrite !psub_spec by assumption. split; apply PS_resp; try assumption; apply plook_sym; assumption.
  Qed.

  Definition AS (x y : alloc) : Prop :=
    forall k p, alloc_get x k = Some p -> exists q, alloc_get y k = Some q /\ psub p q = true /\ psub q p = true.

  Lemma asub_spec x y : NoDup (akeys x) -> (asub x y = true <-> AS x y).
  Proof.
    intros Hn. unfold asub. rewrite forallb_forall. split.
    - intros H k p Hg. apply alloc_get_in in Hg. specialize (H _ Hg). simpl in H.
      destruct (alloc_get y k) as [q|]; [|discriminate]. apply andb_true_iff in H. exists q. tauto.
    - intros H [k p] Hin. simpl. destruct (H k p (in_alloc_get x k p Hn Hin)) as (q & Hg & H1 & H2). rewrite Hg, H1, H2. reflexivity.
  Qed.

  Lemma AS_resp x x1 y y1 : aeq x x1 -> aeq y y1 -> AS x y -> AS x1 y1.
  Proof.
    intros (Hx & Hx1 & Lx) (Hy & Hy1 & Ly) H k p1 Hg1. pose proof (Lx k) as L1. rewrite Hg1 in L1.
    destruct (alloc_get x k) as [p|] eqn:Eg; simpl in L1; [|contradiction].
    destruct (H k p Eg) as (q & Hgq & S1 & S2). pose proof (Ly k) as L2. rewrite Hgq in L2.
    destruct (alloc_get y1 k) as [q1|] eqn:Eq1; simpl in L2; [|contradiction]. exists q1. split; [reflexivity|].
    pose proof (alloc_get_wf x k p Hx Eg) as W1. pose proof (alloc_get_wf x1 k p1 Hx1 Hg1) as W2.
    pose proof (alloc_get_wf y k q Hy Hgq) as W3. pose proof (alloc_get_wf y1 k q1 Hy1 Eq1) as W4.
    rewrite <- (psub_resp p p1 q q1), <- (psub_resp q q1 p p1) by assumption. tauto.
  Qed.

  Lemma alloc_eqb_resp a a1 b b1 : aeq a a1 -> aeq b b1 -> alloc_eqb a b = alloc_eqb a1 b1.
  Proof.
    intros Ha Hb. rewrite !alloc_eqb_unfold.
    assert (E1 : asub a b = asub a1 b1).
    { apply bool_iff. rewrite !asub_spec by (try apply Ha; apply Ha). split; apply AS_resp; try assumption; apply aeq_sym; assumption. }
    assert (E2 : asub b a = asub b1 a1).
    { apply bool_iff. rewrite !asub_spec by (try apply Hb; apply Hb). split; apply AS_resp; try assumption; apply aeq_sym; assumption. }
    rewrite E1, E2. reflexivity.
  Qed.

  (* ------------------------------------------------------------ the run *)
  Definition cnt_rel (x y : list (option C * Q) * list (C * Z)) : Prop := Permutation (fst x) (fst y) /\ Permutation (snd x) (snd y).
  Definition trace_rel (t t' : trace) : Prop :=
    Forall2 cnt_rel (t_counts t) (t_counts t') /\ keysnd (t_seats t) /\ Permutation (t_seats t) (t_seats t') /\ t_stop t = t_stop t'.

  Lemma Forall2_rev {A B} (R : A -> B -> Prop) l l' : Forall2 R l l' -> Forall2 R (rev l) (rev l').
  Proof. induction 1; simpl; [constructor|]. apply Forall2_app; [assumption|constructor; [assumption|constructor]]. Qed.

  Lemma add_seats_add_dict seats el : add_seats seats el = QuotaDistributor.add_dict seats el.
  Proof. reflexivity. Qed.

  Theorem run_perm cf n total caps : forall fuel a a' seats seats' acc acc',
    aeq a a' -> keysnd seats -> Permutation seats seats' -> Forall2 cnt_rel acc acc' ->
    trace_rel (run cf fuel a n total seats caps acc) (run cf fuel a' n total seats' caps acc').
  Proof.
    induction fuel as [|f IH]; intros a a' seats seats' acc acc' Ha Hsn Hsp Hacc.
    - cbn [run]. rewrite <- (zsum_perm _ _ (Permutation_map snd Hsp)).
      destruct (zsum (map snd seats) =? n)%Z; (split; [apply Forall2_rev, Hacc|]; split; [exact Hsn|]; split; [exact Hsp|reflexivity]).
    - cbn [run]. rewrite <- (zsum_perm _ _ (Permutation_map snd Hsp)).
      destruct (zsum (map snd seats) =? n)%Z; [split; [apply Forall2_rev, Hacc|]; split; [exact Hsn|]; split; [exact Hsp|reflexivity]|].
      pose proof (next_count_perm cf a a' n total seats seats' caps Ha Hsn Hsp) as Hnc.
      destruct (next_count cf a n total seats caps) as [el|a1 el|st], (next_count cf a' n total seats' caps) as [el'|a1' el'|st']; simpl in Hnc; try contradiction.
      + destruct Hnc as [Hen Hep]. rewrite !add_seats_add_dict.
        split; [cbn [t_counts]; apply Forall2_rev; constructor; [split; simpl; [constructor|exact Hep]|exact Hacc]|].
        cbn [t_seats t_stop]. split; [apply add_dict_nodup, Hsn|]. split; [apply add_dict_perm; assumption|reflexivity].
      + destruct Hnc as (Ha1 & Hen & Hep).
        assert (Hacc1 : Forall2 cnt_rel ((totals a1, el) :: acc) ((totals a1', el') :: acc')).
        { constructor; [split; simpl; [apply totals_perm, Ha1|exact Hep]|exact Hacc]. }
        destruct el as [|x l].
        * apply Permutation_nil in Hep. subst el'. rewrite <- (alloc_eqb_resp a1 a1' a a' Ha1 Ha).
          destruct (alloc_eqb a1 a); [split; [apply Forall2_rev, Hacc|]; split; [exact Hsn|]; split; [exact Hsp|reflexivity]|].
          apply IH; assumption.
        * destruct el' as [|y l']; [apply Permutation_sym, Permutation_nil in Hep; discriminate|].
          rewrite !add_seats_add_dict. apply IH; [exact Ha1|apply add_dict_nodup, Hsn|apply add_dict_perm; assumption|exact Hacc1].
      + subst st'. split; [apply Forall2_rev, Hacc|]. split; [exact Hsn|]. split; [exact Hsp|reflexivity].
  Qed.

  (* ------------------------------------------------------------ the initial allocation *)
  Lemma fold_adds {A} (g : alloc -> A -> alloc) (I0 : A -> list instr) l :
    (forall a x, g a x = adds a (I0 x)) -> forall a, fold_left g l a = adds a (flat_map I0 l).
  Proof.
    intros Hg. induction l as [|x l IH]; intros a; simpl; [reflexivity|].
    rewrite IH, Hg. unfold adds. rewrite fold_left_app. reflexivity.
  Qed.

  Definition ia_direct (bw : ballot * Q) : list instr :=
    match fst bw with IP c :: _ => [(Some c, fst bw, snd bw)] | _ => [] end.
  Definition ia_shared (cands : list C) (bw : ballot * Q) : list instr :=
    match fst bw with IS _ :: _ => mb_instrs (next_after (fst bw) cands) (fst bw) (snd bw) | _ => [] end.
  Definition ia_base (cands : list C) : alloc := map (fun c => (Some c, @nil (ballot * Q))) cands.

  Lemma initial_allocation_adds votes :
    initial_allocation votes =
      adds (adds (ia_base (all_ranked_candidates votes)) (flat_map ia_direct votes)) (flat_map (ia_shared (all_ranked_candidates votes)) votes).
  Proof.
    unfold initial_allocation. cbv zeta. fold (ia_base (all_ranked_candidates votes)).
    rewrite (fold_adds _ (ia_shared (all_ranked_candidates votes))).
    - rewrite (fold_adds _ ia_direct); [reflexivity|].
      intros a [b w]. unfold ia_direct. simpl. destruct b as [|[c|l] t]; reflexivity.
    - intros a [b w]. unfold ia_shared. simpl. destruct b as [|[c|l] t]; try reflexivity. apply move_ballot_adds.
  Qed.

  Lemma ia_base_get cands k : alloc_get (ia_base cands) k = match k with Some c => if cmem c cands then Some [] else None | None => None end.
  Proof.
    unfold ia_base. induction cands as [|x l IH]; simpl; [destruct k; reflexivity|].
    destruct k as [c|]; simpl; [|exact IH]. unfold ceqb. destruct (Pos.eqb c x); [reflexivity|exact IH].
  Qed.
  Lemma ia_base_wf cands : NoDup cands -> awf (ia_base cands).
  Proof.
    intros Hn. unfold ia_base, awf, akeys. split.
    - rewrite map_map. simpl. clear -Hn. induction Hn as [|x l Hx _ IH]; simpl; constructor; [|exact IH].
      intros Hi. apply in_map_iff in Hi. destruct Hi as (y & [= ->] & Hy). tauto.
    - apply Forall_forall. intros x Hx. apply in_map_iff in Hx. destruct Hx as (c & <- & _). apply pwf_nil.
  Qed.
  Lemma ia_base_perm cands cands' : NoDup cands -> Permutation cands cands' -> aeq (ia_base cands) (ia_base cands').
  Proof.
    intros Hn Hp. apply aeq_lookups; [apply ia_base_wf, Hn|apply ia_base_wf; eapply Permutation_NoDup; eassumption|].
    intros k. rewrite !ia_base_get. destruct k as [c|]; [|reflexivity]. rewrite (cmem_perm _ _ _ Hp). reflexivity.
  Qed.

  Lemma perm_to_mod (l l' : list instr) : Permutation l l' -> perm_mod instr RI l l'.
  Proof. intros H. exists l'. split; [exact H|]. clear. induction l'; constructor; [split; reflexivity|assumption]. Qed.

  Theorem initial_allocation_perm votes votes' cands cands' :
    (forall b, In b (map fst votes) -> In b U) -> Permutation votes votes' ->
    cands = all_ranked_candidates votes -> cands' = all_ranked_candidates votes' -> NoDup cands -> Permutation cands cands' ->
    aeq (initial_allocation votes) (initial_allocation votes').
  Proof.
    intros HinU Hp -> -> Hcn Hcp. rewrite !initial_allocation_adds.
    assert (Hok1 : Forall okI (flat_map ia_direct votes)).
    { apply Forall_forall. intros i Hi. apply in_flat_map in Hi. destruct Hi as ([b w] & Hin & Hi). unfold ia_direct in Hi. simpl in Hi.
      destruct b as [|[c|l] t]; [destruct Hi| |destruct Hi]. destruct Hi as [<-|[]]. unfold okI. simpl. apply HinU. apply in_map_iff. exists (IP c :: t, w). auto. }
    assert (Hok2 : Forall okI (flat_map (ia_shared (all_ranked_candidates votes)) votes)).
    { apply Forall_forall. intros i Hi. apply in_flat_map in Hi. destruct Hi as ([b w] & Hin & Hi). unfold ia_shared in Hi. simpl in Hi.
      destruct b as [|[c|l] t]; [destruct Hi|destruct Hi|]. apply mb_instrs_key in Hi. destruct Hi as [_ Hb]. unfold okI. rewrite Hb.
      apply HinU. apply in_map_iff. exists (IS l :: t, w). auto. }
    apply adds_perm_mod; [|exact Hok2|].
    - rewrite (flat_map_ext (ia_shared (all_ranked_candidates votes')) (ia_shared (all_ranked_candidates votes))).
      + apply perm_to_mod, Permutation_flat_map, Hp.
      + intros [b w]. unfold ia_shared. simpl. destruct b as [|[c|l] t]; try reflexivity.
        rewrite (next_after_ext (IS l :: t) (all_ranked_candidates votes') (all_ranked_candidates votes)); [reflexivity|].
        intros x. apply cmem_perm, Permutation_sym, Hcp.
    - apply adds_perm_mod; [apply perm_to_mod, Permutation_flat_map, Hp|exact Hok1|apply ia_base_perm; assumption].
  Qed.
End Univ.

(* ---------------------------------------------------------------- all_ranked_candidates as a set *)
Definition addc (acc : list C) (c : C) : list C := if cmem c acc then acc else acc ++ [c].
Definition arc_inner (votes : list (ballot * Q)) (acc : list C) (i : nat) : list C :=
  fold_left (fun acc (bw : ballot * Q) => match nth_error (fst bw) i with
                                         | Some it => fold_left addc (members it) acc
                                         | None => acc end) votes acc.
Definition maxlen (votes : list (ballot * Q)) : nat := fold_left (fun m (bw : ballot * Q) => Nat.max m (length (fst bw))) votes O.

Lemma arc_unfold votes : all_ranked_candidates votes = fold_left (arc_inner votes) (seq 0 (maxlen votes)) [].
Proof. reflexivity. Qed.

Lemma addc_spec acc c : NoDup acc -> NoDup (addc acc c) /\ forall x, In x (addc acc c) <-> In x acc \/ x = c.
Proof.
  intros Hn. unfold addc. destruct (cmem c acc) eqn:E.
  - apply cmem_In in E. split; [exact Hn|]. intros x. split; [auto|intros [H | ->]; assumption].
  - split; [apply nodup_snoc; [exact Hn|intros H; apply cmem_In in H; congruence]|].
    intros x. rewrite in_app_iff. simpl. intuition.
Qed.
Lemma fold_addc_spec l : forall acc, NoDup acc -> NoDup (fold_left addc l acc) /\ forall x, In x (fold_left addc l acc) <-> In x acc \/ In x l.
Proof.
  induction l as [|c l IH]; intros acc Hn; simpl; [split; [exact Hn|intros x; tauto]|].
  destruct (addc_spec acc c Hn) as [H1 H2]. destruct (IH _ H1) as [H3 H4]. split; [exact H3|].
  intros x. rewrite H4, H2. intuition.
Qed.

Definition ranks_at (votes : list (ballot * Q)) (i : nat) (x : C) : Prop :=
  exists bw it, In bw votes /\ nth_error (fst bw) i = Some it /\ In x (members it).

Lemma arc_inner_spec i votes : forall acc, NoDup acc ->
  NoDup (arc_inner votes acc i) /\ forall x, In x (arc_inner votes acc i) <-> In x acc \/ ranks_at votes i x.
Proof.
  unfold arc_inner, ranks_at. induction votes as [|bw votes IH]; intros acc Hn; simpl.
  - split; [exact Hn|]. intros x. split; [auto|intros [H|(bw & it & [] & _)]; exact H].
  - destruct (nth_error (fst bw) i) as [it|] eqn:E.
    + destruct (fold_addc_spec (members it) acc Hn) as [H1 H2]. destruct (IH _ H1) as [H3 H4]. split; [exact H3|].
      intros x. rewrite H4, H2. split.
      * intros [[H|H]|(bw0 & it0 & Hb & Hi & Hx)]; [left; exact H|right; exists bw, it; auto|right; exists bw0, it0; auto].
      * intros [H|(bw0 & it0 & [<-|Hb] & Hi & Hx)]; [auto| |right; exists bw0, it0; auto].
        rewrite E in Hi. injection Hi as <-. auto.
    + destruct (IH _ Hn) as [H3 H4]. split; [exact H3|]. intros x. rewrite H4. split.
      * intros [H|(bw0 & it0 & Hb & Hi & Hx)]; [left; exact H|right; exists bw0, it0; auto].
      * intros [H|(bw0 & it0 & [<-|Hb] & Hi & Hx)]; [auto|congruence|right; exists bw0, it0; auto].
Qed.

Lemma arc_outer_spec votes l : forall acc, NoDup acc ->
  NoDup (fold_left (arc_inner votes) l acc) /\
  forall x, In x (fold_left (arc_inner votes) l acc) <-> In x acc \/ exists i, In i l /\ ranks_at votes i x.
Proof.
  induction l as [|i l IH]; intros acc Hn; simpl.
  - split; [exact Hn|]. intros x. split; [auto|intros [H|(i & [] & _)]; exact H].
  - destruct (arc_inner_spec i votes acc Hn) as [H1 H2]. destruct (IH _ H1) as [H3 H4]. split; [exact H3|].
    intros x. rewrite H4, H2. split.
    + intros [[H|H]|(j & Hj & H)]; [auto|right; exists i; auto|right; exists j; auto].
    + intros [H|(j & [<-|Hj] & H)]; [auto|auto|right; exists j; auto].
Qed.

Lemma maxlen_bound votes bw : In bw votes -> (length (fst bw) <= maxlen votes)%nat.
Proof.
  unfold maxlen. assert (H : forall l m, (m <= fold_left (fun m (bw : ballot * Q) => Nat.max m (length (fst bw))) l m)%nat /\
    forall bw, In bw l -> (length (fst bw) <= fold_left (fun m (bw : ballot * Q) => Nat.max m (length (fst bw))) l m)%nat).
  { induction l as [|y l IH]; intros m; simpl; [split; [lia|intros ? []]|].
    destruct (IH (Nat.max m (length (fst y)))) as [H1 H2]. split; [lia|]. intros bw0 [<-|Hb]; [lia|apply H2, Hb]. }
  apply H.
Qed.

Theorem arc_spec votes : NoDup (all_ranked_candidates votes) /\
  forall x, In x (all_ranked_candidates votes) <-> exists i, ranks_at votes i x.
Proof.
  rewrite arc_unfold. destruct (arc_outer_spec votes (seq 0 (maxlen votes)) [] (NoDup_nil _)) as [H1 H2]. split; [exact H1|].
  intros x. rewrite H2. split.
  - intros [[]|(i & _ & H)]. exists i. exact H.
  - intros (i & H). right. exists i. split; [|exact H]. destruct H as (bw & it & Hb & Hi & _).
    apply in_seq. split; [lia|]. pose proof (maxlen_bound votes bw Hb).
    assert (i < length (fst bw))%nat by (apply nth_error_Some; congruence). simpl. eapply Nat.lt_le_trans; eassumption.
Qed.

Theorem arc_perm votes votes' : Permutation votes votes' -> Permutation (all_ranked_candidates votes) (all_ranked_candidates votes').
Proof.
  intros Hp. destruct (arc_spec votes) as [N1 S1]. destruct (arc_spec votes') as [N2 S2].
  apply NoDup_Permutation; [exact N1|exact N2|]. intros x. rewrite S1, S2.
  split; intros (i & bw & it & Hb & H); exists i, bw, it; (split; [|exact H]).
  - apply (Permutation_in _ Hp Hb).
  - apply (Permutation_in _ (Permutation_sym Hp) Hb).
Qed.

(* ---------------------------------------------------------------- the count on a permuted profile *)
Definition ballots_distinct (votes : list (ballot * Q)) : Prop :=
  forall b b', In b (map fst votes) -> In b' (map fst votes) -> ballot_eqb b b' = true -> b = b'.

Theorem stv_perm cf votes votes' n prev prev' caps :
  ballots_distinct votes -> Permutation votes votes' -> keysnd prev -> Permutation prev prev' ->
  trace_rel (stv cf votes n prev caps) (stv cf votes' n prev' caps).
Proof.
  intros Hd Hp Hpn Hpp. unfold stv.
  pose proof (arc_perm votes votes' Hp) as Hcp. destruct (arc_spec votes) as [Hcn _].
  rewrite <- (Permutation_length Hcp).
  assert (Ht : Qred (fold_left Qplus (map snd votes') 0) = Qred (fold_left Qplus (map snd votes) 0)).
  { apply Qred_complete. rewrite !fold_left_Qplus. apply Qplus_comp; [reflexivity|].
    assert (Hm : Permutation (map snd votes') (map snd votes)) by (apply Permutation_map, Permutation_sym, Hp).
    clear -Hm. induction Hm; simpl; try ring; [rewrite IHHm; reflexivity|rewrite IHHm1; exact IHHm2]. }
  rewrite Ht. apply (run_perm (map fst votes) Hd); try assumption; [|constructor].
  apply (initial_allocation_perm (map fst votes) Hd votes votes' _ _ (fun b H => H) Hp eq_refl eq_refl Hcn Hcp).
Qed.
