(* Order independence (C10) of the transferable-vote count (Model/STV.v, Gregory transfers): presenting the
   ballots in another order changes neither the seats (as a dictionary), nor the stop reason, nor the totals /
   elected of any count (as dictionaries).
   Allocations are compared as two-level dictionaries ([aeq]: same pile keys, every pile holds the same ballots
   with == weights); every operation of the count is shown to respect [aeq] and the loops over dictionaries
   (ballots of a pile, eliminated candidates, ballots of the profile) are folds of commuting updates. *)
From Coq Require Import ZArith QArith Qround Qreduction Setoid List Bool Arith Lia Lqa Permutation.
From VL Require Import Prelude.PyDict Model.GetNBest Model.Convert Model.STV Proofs.Dict_proofs
     Proofs.GetNBest_proofs Proofs.QOrd Proofs.Order_proofs Proofs.HAPerm_proofs Proofs.LRScale_proofs
     Proofs.STV_proofs Proofs.QDOrder_proofs.
Import ListNotations.
Open Scope Q_scope.

(* ---------------------------------------------------------------- a fold of commuting updates *)
Section FoldPerm.
  Variables (S I : Type) (R : S -> S -> Prop) (RI : I -> I -> Prop) (okI : I -> Prop) (op : S -> I -> S).
  Hypothesis R_trans : forall a b c, R a b -> R b c -> R a c.
  Hypothesis RI_refl : forall i, okI i -> RI i i.
  Hypothesis op_resp : forall s s' i i', R s s' -> okI i -> RI i i' -> R (op s i) (op s' i').
  Hypothesis op_comm : forall s i j, R s s -> okI i -> okI j -> R (op (op s i) j) (op (op s j) i).

  Lemma fold_resp l l' : Forall2 RI l l' -> Forall okI l -> forall s s', R s s' -> R (fold_left op l s) (fold_left op l' s').
  Proof.
    induction 1 as [|i i' l l' Hi _ IH]; intros Hok s s' Hs; simpl; [exact Hs|].
    inversion Hok; subst. apply IH; [assumption|]. apply op_resp; assumption.
  Qed.

  Lemma Forall2_refl_ok l : Forall okI l -> Forall2 RI l l.
  Proof. induction 1; constructor; auto. Qed.

  Lemma fold_perm l l' : Permutation l l' -> Forall okI l -> forall s, R s s -> R (fold_left op l s) (fold_left op l' s).
  Proof.
    induction 1 as [|x l l' _ IH|x y l|l l' l'' H1 IH1 _ IH2]; intros Hok s Hs; simpl.
    - exact Hs.
    - inversion Hok; subst. apply IH; [assumption|]. apply op_resp; auto.
    - inversion Hok as [|? ? Hy Hok']; subst. inversion Hok' as [|? ? Hx Hl]; subst.
      apply fold_resp; [apply Forall2_refl_ok, Hl|exact Hl|]. apply op_comm; assumption.
    - eapply R_trans; [apply IH1; assumption|]. apply IH2; [|exact Hs].
      apply Forall_forall. intros z Hz. rewrite Forall_forall in Hok. apply Hok. apply (Permutation_in _ (Permutation_sym H1) Hz).
  Qed.

  (* a permutation up to RI *)
  Definition perm_mod (l l' : list I) : Prop := exists m, Permutation l m /\ Forall2 RI m l'.

  Lemma fold_perm_mod l l' : perm_mod l l' -> Forall okI l -> forall s s', R s s' -> R s s -> R (fold_left op l s) (fold_left op l' s').
  Proof.
    intros (m & Hp & Hm) Hok s s' Hs Hss.
    eapply R_trans; [apply fold_perm; eassumption|]. apply fold_resp; [exact Hm| |exact Hs].
    apply Forall_forall. intros z Hz. rewrite Forall_forall in Hok. apply Hok. apply (Permutation_in _ (Permutation_sym Hp) Hz).
  Qed.
End FoldPerm.

Lemma perm_mod_flat_map {A B} (RA : A -> A -> Prop) (RB : B -> B -> Prop) (f f' : A -> list B) l l' :
  (forall x y, RA x y -> Forall2 RB (f x) (f' y)) -> perm_mod A RA l l' -> perm_mod B RB (flat_map f l) (flat_map f' l').
Proof.
  intros Hf (m & Hp & Hm). exists (flat_map f m). split; [apply Permutation_flat_map, Hp|].
  clear Hp. induction Hm as [|x y m l' Hxy _ IH]; simpl; [constructor|]. apply Forall2_app; [apply Hf, Hxy|exact IH].
Qed.

Lemma nodup_snoc {A} (l : list A) x : NoDup l -> ~ In x l -> NoDup (l ++ [x]).
Proof.
  intros Hn Hx. eapply Permutation_NoDup; [apply Permutation_cons_append|]. constructor; assumption.
Qed.

(* ---------------------------------------------------------------- ballots as dictionary keys *)
Lemma cmem_refl_all (x : list C) : forallb (fun c => cmem c x) x = true.
Proof.
  apply forallb_forall. intros c Hc. apply cmem_In. exact Hc.
Qed.
Lemma item_eqb_refl i : item_eqb i i = true.
Proof. destruct i as [c|l]; simpl; [apply Pos.eqb_refl|]. rewrite cmem_refl_all. reflexivity. Qed.
Lemma ballot_eqb_refl b : ballot_eqb b b = true.
Proof. induction b as [|i b IH]; simpl; [reflexivity|]. rewrite item_eqb_refl, IH. reflexivity. Qed.

Inductive oeq : option Q -> option Q -> Prop :=
| oeq_none : oeq None None
| oeq_some w w' : w == w' -> oeq (Some w) (Some w').
Lemma oeq_refl o : oeq o o.
Proof. destruct o; constructor. reflexivity. Qed.
Lemma oeq_sym o o' : oeq o o' -> oeq o' o.
Proof. destruct 1; constructor. symmetry. assumption. Qed.
Lemma oeq_trans o1 o2 o3 : oeq o1 o2 -> oeq o2 o3 -> oeq o1 o3.
Proof. destruct 1; inversion 1; subst; constructor. etransitivity; eassumption. Qed.

Lemma oeq_some_l w o : oeq (Some w) o -> exists w', o = Some w' /\ w == w'.
Proof. inversion 1; subst. eexists; split; [reflexivity|assumption]. Qed.
Lemma oeq_some_r o w' : oeq o (Some w') -> exists w, o = Some w /\ w == w'.
Proof. inversion 1; subst. eexists; split; [reflexivity|assumption]. Qed.

Fixpoint pget (p : pile) (b : ballot) : option Q :=
  match p with
  | [] => None
  | (b', w) :: t => if ballot_eqb b b' then Some w else pget t b
  end.
Definition padd (o : option Q) (w : Q) : Q := match o with Some w0 => Qred (w0 + w) | None => w end.

Lemma padd_oeq o o' w w' : oeq o o' -> w == w' -> padd o w == padd o' w'.
Proof.
  intros Ho Hw. destruct Ho as [|x x' Hx]; simpl; [exact Hw|].
  pose proof (Qred_correct (x + w)) as E1. pose proof (Qred_correct (x' + w')) as E2. rewrite E1, E2, Hx, Hw. reflexivity.
Qed.

Section Univ.
  (* the ballots of the profile: on them ballot_eqb (frozensets compared as sets) is equality *)
  Variable U : list ballot.
  Hypothesis HU : forall b b', In b U -> In b' U -> ballot_eqb b b' = true -> b = b'.

  Lemma beq_U b b' : In b U -> In b' U -> (ballot_eqb b b' = true <-> b = b').
  Proof. intros Hb Hb'. split; [apply HU; assumption|intros ->; apply ballot_eqb_refl]. Qed.
  Lemma beq_U_false b b' : In b U -> In b' U -> (ballot_eqb b b' = false <-> b <> b').
  Proof. intros Hb Hb'. rewrite <- (beq_U b b' Hb Hb'). destruct (ballot_eqb b b'); intuition congruence. Qed.

  Definition pwf (p : pile) : Prop := incl (map fst p) U /\ NoDup (map fst p).

  Lemma pwf_nil : pwf [].
  Proof. split; [intros x []|constructor]. Qed.
  Lemma pwf_tail x p : pwf (x :: p) -> pwf p.
  Proof. intros [Hi Hn]. split; [intros y Hy; apply Hi; right; exact Hy|inversion Hn; assumption]. Qed.

  Lemma pget_notin p b : In b U -> pwf p -> ~ In b (map fst p) -> pget p b = None.
  Proof.
    intros Hb. induction p as [|[b0 w0] t IH]; simpl; intros Hw Hn; [reflexivity|].
    destruct (ballot_eqb b b0) eqn:E.
    - apply beq_U in E; [subst; tauto|exact Hb|apply (proj1 Hw); left; reflexivity].
    - apply IH; [eapply pwf_tail, Hw|tauto].
  Qed.
  Lemma pget_in p b w : In b U -> pwf p -> (pget p b = Some w <-> In (b, w) p).
  Proof.
    intros Hb. induction p as [|[b0 w0] t IH]; simpl; intros Hw; [split; [discriminate|tauto]|].
    pose proof (pwf_tail _ _ Hw) as Hw'. destruct Hw as [Hi Hn]. simpl in Hn. inversion Hn as [|? ? Hk _]; subst.
    destruct (ballot_eqb b b0) eqn:E.
    - apply beq_U in E; [|exact Hb|apply Hi; left; reflexivity]. subst b0. split.
      + intros [= ->]. left. reflexivity.
      + intros [H|H]; [congruence|]. exfalso. apply Hk. apply in_map_iff. exists (b, w). auto.
    - rewrite (IH Hw'). split; [tauto|]. intros [H|H]; [|exact H]. injection H as -> ->.
      rewrite ballot_eqb_refl in E. discriminate.
  Qed.
  Lemma pget_some_key p b w : pget p b = Some w -> exists b', In (b', w) p.
  Proof.
    induction p as [|[b0 w0] t IH]; simpl; [discriminate|].
    destruct (ballot_eqb b b0); [intros [= ->]; exists b0; left; reflexivity|].
    intros H. destruct (IH H) as (b' & Hb'). exists b'. right. exact Hb'.
  Qed.

  (* pile_add *)
  Lemma pile_add_keys p b w : In b U -> pwf p ->
    map fst (pile_add p b w) = if existsb (fun x => ballot_eqb b (fst x)) p then map fst p else map fst p ++ [b].
  Proof.
    intros Hb. induction p as [|[b0 w0] t IH]; simpl; intros Hw; [reflexivity|].
    destruct (ballot_eqb b b0); simpl; [reflexivity|]. rewrite (IH (pwf_tail _ _ Hw)).
    destruct (existsb _ t); reflexivity.
  Qed.
  Lemma pile_add_wf p b w : In b U -> pwf p -> pwf (pile_add p b w).
  Proof.
    intros Hb Hw. unfold pwf. rewrite (pile_add_keys p b w Hb Hw).
    destruct (existsb (fun x => ballot_eqb b (fst x)) p) eqn:E; [exact Hw|].
    destruct Hw as [Hi Hn]. split.
    - intros x Hx. apply in_app_or in Hx. destruct Hx as [Hx|[<-|[]]]; [apply Hi, Hx|exact Hb].
    - apply nodup_snoc; [exact Hn|].
      intros Hx. apply in_map_iff in Hx. destruct Hx as ([b0 w0] & Hf & Hx). simpl in Hf. subst b0.
      assert (Ht : existsb (fun x => ballot_eqb b (fst x)) p = true).
      { apply existsb_exists. exists (b, w0). split; [exact Hx|apply ballot_eqb_refl]. }
      congruence.
  Qed.
  Lemma pget_pile_add p b w b' : In b U -> In b' U -> pwf p ->
    pget (pile_add p b w) b' = if ballot_eqb b' b then Some (padd (pget p b) w) else pget p b'.
  Proof.
    intros Hb Hb'. induction p as [|[b0 w0] t IH]; simpl; intros Hw; [reflexivity|].
    pose proof (pwf_tail _ _ Hw) as Hw'. assert (Hb0 : In b0 U) by (apply (proj1 Hw); left; reflexivity).
    destruct (ballot_eqb b b0) eqn:E; simpl.
    - apply beq_U in E; [|assumption|assumption]. subst b0. destruct (ballot_eqb b' b); reflexivity.
    - rewrite (IH Hw'). destruct (ballot_eqb b' b0) eqn:E2; [|reflexivity].
      apply beq_U in E2; [|assumption|assumption]. subst b0.
      destruct (ballot_eqb b' b) eqn:E3; [|reflexivity].
      apply beq_U in E3; [|assumption|assumption]. subst b'. rewrite ballot_eqb_refl in E. discriminate.
  Qed.

  (* piles compared as dictionaries *)
  Definition plook (p p' : pile) : Prop := forall b, In b U -> oeq (pget p b) (pget p' b).
  Definition wrel (x y : ballot * Q) : Prop := fst x = fst y /\ snd x == snd y.

  Lemma plook_refl p : plook p p.
  Proof. intros b _. apply oeq_refl. Qed.
  Lemma plook_sym p p' : plook p p' -> plook p' p.
  Proof. intros H b Hb. apply oeq_sym, H, Hb. Qed.
  Lemma plook_trans p1 p2 p3 : plook p1 p2 -> plook p2 p3 -> plook p1 p3.
  Proof. intros H1 H2 b Hb. eapply oeq_trans; [apply H1, Hb|apply H2, Hb]. Qed.

  Lemma plook_perm_mod p p' : pwf p -> pwf p' -> plook p p' -> perm_mod _ wrel p p'.
  Proof.
    intros Hw Hw' Hl.
    exists (map (fun bw' : ballot * Q => (fst bw', match pget p (fst bw') with Some w => w | None => 0 end)) p'). split.
    - apply NoDup_Permutation.
      + eapply NoDup_map_inv. exact (proj2 Hw).
      + eapply NoDup_map_inv with (f := fst). rewrite map_map. simpl. exact (proj2 Hw').
      + intros [b w]. split; intros H.
        * assert (Hb : In b U) by (apply (proj1 Hw); apply in_map_iff; exists (b, w); auto).
          pose proof (proj2 (pget_in p b w Hb Hw) H) as Hg. pose proof (Hl b Hb) as Ho. rewrite Hg in Ho.
          apply oeq_some_l in Ho. destruct Ho as (w' & Hg' & _). apply (pget_in p' b w' Hb Hw') in Hg'.
          apply in_map_iff. exists (b, w'). simpl. rewrite Hg. split; [reflexivity|exact Hg'].
        * apply in_map_iff in H. destruct H as ([b' w'] & Heq & Hin). simpl in Heq. injection Heq as -> Hw0.
          assert (Hb : In b U) by (apply (proj1 Hw'); apply in_map_iff; exists (b, w'); auto).
          pose proof (proj2 (pget_in p' b w' Hb Hw') Hin) as Hg'. pose proof (Hl b Hb) as Ho. rewrite Hg' in Ho.
          apply oeq_some_r in Ho. destruct Ho as (w0 & Hg & _). rewrite Hg in Hw0. subst w. apply (pget_in p b w0 Hb Hw). exact Hg.
    - clear Hw. induction p' as [|[b' w'] t IH]; simpl; [constructor|].
      assert (Hb : In b' U) by (apply (proj1 Hw'); left; reflexivity).
      constructor.
      + split; [reflexivity|]. simpl. pose proof (Hl b' Hb) as Ho.
        assert (Hg' : pget ((b', w') :: t) b' = Some w') by (simpl; rewrite ballot_eqb_refl; reflexivity).
        rewrite Hg' in Ho. apply oeq_some_r in Ho. destruct Ho as (w0 & Hg & Hww). rewrite Hg. exact Hww.
      + (* the tail: lookups of t agree with those of p on t's keys *)
        clear IH.
        assert (Ht : forall x, In x t -> wrel (fst x, match pget p (fst x) with Some w => w | None => 0 end) x).
        { intros [b w] Hx. assert (Hbx : In b U) by (apply (proj1 Hw'); right; apply in_map_iff; exists (b, w); auto).
          split; [reflexivity|]. simpl. pose proof (Hl b Hbx) as Ho.
          assert (Hg' : pget ((b', w') :: t) b = Some w) by (apply (pget_in _ b w Hbx Hw'); right; exact Hx).
          rewrite Hg' in Ho. apply oeq_some_r in Ho. destruct Ho as (w0 & Hg & Hww). rewrite Hg. exact Hww. }
        clear -Ht. induction t as [|x t IHt]; simpl; constructor; [apply Ht; left; reflexivity|].
        apply IHt. intros y Hy. apply Ht. right. exact Hy.
  Qed.

  Lemma perm_mod_plook p p' : pwf p -> pwf p' -> perm_mod _ wrel p p' -> plook p p'.
  Proof.
    intros Hw Hw' (m & Hp & Hm) b Hb.
    destruct (pget p b) as [w|] eqn:E.
    - apply (pget_in p b w Hb Hw) in E. apply (Permutation_in _ Hp) in E.
      assert (Hx : exists w', In (b, w') p' /\ w == w').
      { clear -Hm E. induction Hm as [|x y m l Hxy _ IH]; [destruct E|]. destruct E as [->|E].
        - destruct y as [b' w']. destruct Hxy as [H1 H2]. simpl in *. subst b'. exists w'. split; [left; reflexivity|exact H2].
        - destruct (IH E) as (w' & H1 & H2). exists w'. split; [right; exact H1|exact H2]. }
      destruct Hx as (w' & Hin & Hww). apply (pget_in p' b w' Hb Hw') in Hin. rewrite Hin. constructor. exact Hww.
    - destruct (pget p' b) as [w'|] eqn:E'; [|constructor]. exfalso.
      apply (pget_in p' b w' Hb Hw') in E'.
      assert (Hx : exists w, In (b, w) m).
      { clear -Hm E'. induction Hm as [|x y m l Hxy _ IH]; [destruct E'|]. destruct E' as [->|E'].
        - destruct x as [b0 w0]. destruct Hxy as [H1 _]. simpl in H1. subst b0. exists w0. left. reflexivity.
        - destruct (IH E') as (w & H). exists w. right. exact H. }
      destruct Hx as (w & Hin). apply (Permutation_in _ (Permutation_sym Hp)) in Hin.
      apply (pget_in p b w Hb Hw) in Hin. congruence.
  Qed.

  Lemma wsum_perm_mod p p' : perm_mod _ wrel p p' -> wsum p == wsum p'.
  Proof.
    intros (m & Hp & Hm). transitivity (wsum m).
    - clear Hm. induction Hp as [|x l l' _ IH|x y l|l l' l'' _ IH1 _ IH2]; simpl.
      + reflexivity.
      + rewrite IH. reflexivity.
      + ring.
      + rewrite IH1. exact IH2.
    - clear Hp. induction Hm as [|x y m l [_ Hxy] _ IH]; simpl; [reflexivity|]. rewrite Hxy, IH. reflexivity.
  Qed.

  Lemma pile_sum_plook p p' : pwf p -> pwf p' -> plook p p' -> pile_sum p = pile_sum p'.
  Proof.
    intros Hw Hw' Hl. unfold pile_sum. apply Qred_complete.
    pose proof (pile_sum_wsum p) as H1. pose proof (pile_sum_wsum p') as H2. unfold pile_sum in H1, H2.
    rewrite Qred_correct in H1, H2. rewrite H1, H2. apply wsum_perm_mod, plook_perm_mod; assumption.
  Qed.

  (* ------------------------------------------------------------ allocations as two-level dictionaries *)
  Definition odflt (o : option pile) : pile := match o with Some p => p | None => [] end.
  Definition awf (a : alloc) : Prop := NoDup (akeys a) /\ Forall (fun kp : option C * pile => pwf (snd kp)) a.
  Definition alook (o o' : option pile) : Prop :=
    match o, o' with Some p, Some p' => plook p p' | None, None => True | _, _ => False end.
  Definition aeq (a a' : alloc) : Prop := awf a /\ awf a' /\ forall k, alook (alloc_get a k) (alloc_get a' k).

  Lemma alloc_get_in a k p : alloc_get a k = Some p -> In (k, p) a.
  Proof.
    induction a as [|[k0 p0] a IH]; simpl; [discriminate|].
    destruct (okey_eqb k k0) eqn:E; [apply okey_eqb_eq in E; subst; intros [= ->]; left; reflexivity|].
    intros H. right. apply IH, H.
  Qed.
  Lemma in_alloc_get a k p : NoDup (akeys a) -> In (k, p) a -> alloc_get a k = Some p.
  Proof.
    unfold akeys. induction a as [|[k0 p0] a IH]; simpl; intros Hn Hin; [destruct Hin|].
    inversion Hn as [|? ? Hk Hn']; subst. destruct Hin as [Hin|Hin].
    - injection Hin as -> ->. rewrite okey_eqb_refl. reflexivity.
    - destruct (okey_eqb k k0) eqn:E; [|apply IH; assumption].
      apply okey_eqb_eq in E. subst k0. exfalso. apply Hk. apply in_map_iff. exists (k, p). auto.
  Qed.
  Lemma alloc_get_none a k : alloc_get a k = None <-> ~ In k (akeys a).
  Proof.
    unfold akeys. induction a as [|[k0 p0] a IH]; simpl; [tauto|].
    destruct (okey_eqb k k0) eqn:E.
    - apply okey_eqb_eq in E. subst. split; [discriminate|tauto].
    - rewrite IH. assert (k0 <> k) by (intros ->; rewrite okey_eqb_refl in E; discriminate). tauto.
  Qed.
  Lemma alloc_get_wf a k p : awf a -> alloc_get a k = Some p -> pwf p.
  Proof.
    intros [_ Hf] Hg. apply alloc_get_in in Hg. rewrite Forall_forall in Hf. exact (Hf _ Hg).
  Qed.
  Lemma odflt_wf a k : awf a -> pwf (odflt (alloc_get a k)).
  Proof. intros Hw. destruct (alloc_get a k) eqn:E; simpl; [eapply alloc_get_wf; eassumption|apply pwf_nil]. Qed.

  Lemma alook_refl o : alook o o.
  Proof. destruct o; simpl; [apply plook_refl|exact I]. Qed.
  Lemma alook_sym o o' : alook o o' -> alook o' o.
  Proof. destruct o, o'; simpl; auto. apply plook_sym. Qed.
  Lemma alook_trans o1 o2 o3 : alook o1 o2 -> alook o2 o3 -> alook o1 o3.
  Proof. destruct o1, o2, o3; simpl; try tauto. apply plook_trans. Qed.

  Lemma aeq_refl a : awf a -> aeq a a.
  Proof. intros H. split; [exact H|]. split; [exact H|]. intros k. apply alook_refl. Qed.
  Lemma aeq_sym a a' : aeq a a' -> aeq a' a.
  Proof. intros (H1 & H2 & H3). split; [exact H2|]. split; [exact H1|]. intros k. apply alook_sym, H3. Qed.
  Lemma aeq_trans a1 a2 a3 : aeq a1 a2 -> aeq a2 a3 -> aeq a1 a3.
  Proof.
    intros (H1 & H2 & H3) (_ & H5 & H6). split; [exact H1|]. split; [exact H5|].
    intros k. eapply alook_trans; [apply H3|apply H6].
  Qed.
  Lemma aeq_wf_l a a' : aeq a a' -> awf a.
  Proof. intros H. apply H. Qed.
  Lemma aeq_wf_r a a' : aeq a a' -> awf a'.
  Proof. intros H. apply H. Qed.

  (* alloc_add *)
  Lemma alloc_get_add a k b w k' :
    alloc_get (alloc_add a k b w) k' = if okey_eqb k' k then Some (pile_add (odflt (alloc_get a k)) b w) else alloc_get a k'.
  Proof.
    induction a as [|[k0 p0] a IH]; simpl.
    - destruct (okey_eqb k' k); reflexivity.
    - destruct (okey_eqb k k0) eqn:E; simpl.
      + apply okey_eqb_eq in E. subst k0. destruct (okey_eqb k' k); reflexivity.
      + rewrite IH. destruct (okey_eqb k' k0) eqn:E2; [|reflexivity].
        apply okey_eqb_eq in E2. subst k0. destruct (okey_eqb k' k) eqn:E3; [|reflexivity].
        apply okey_eqb_eq in E3. subst k'. rewrite okey_eqb_refl in E. discriminate.
  Qed.

  Lemma alloc_add_wf a k b w : In b U -> awf a -> awf (alloc_add a k b w).
  Proof.
    intros Hb [Hn Hf]. split; [apply alloc_add_keys, Hn|].
    clear Hn. induction a as [|[k0 p0] a IH]; simpl.
    - constructor; [|constructor]. simpl. apply (pile_add_wf [] b w Hb pwf_nil).
    - inversion Hf as [|? ? Hp Hf']; subst. destruct (okey_eqb k k0); constructor; simpl; auto.
      apply pile_add_wf; assumption.
  Qed.

  Lemma plook_pile_add p p' b w w' : In b U -> pwf p -> pwf p' -> plook p p' -> w == w' ->
    plook (pile_add p b w) (pile_add p' b w').
  Proof.
    intros Hb Hw Hw' Hl Hww b' Hb'. rewrite !pget_pile_add by assumption.
    destruct (ballot_eqb b' b); [|apply Hl, Hb']. constructor. apply padd_oeq; [apply Hl, Hb|exact Hww].
  Qed.

  Lemma alloc_add_resp a a' k b w w' : aeq a a' -> In b U -> w == w' -> aeq (alloc_add a k b w) (alloc_add a' k b w').
  Proof.
    intros (H1 & H2 & H3) Hb Hww. split; [apply alloc_add_wf; assumption|]. split; [apply alloc_add_wf; assumption|].
    intros k'. rewrite !alloc_get_add. destruct (okey_eqb k' k); [|apply H3]. simpl.
    apply plook_pile_add; try assumption; try (apply odflt_wf; assumption).
    specialize (H3 k). destruct (alloc_get a k), (alloc_get a' k); simpl in *; try contradiction; [exact H3|apply plook_refl].
  Qed.

  Lemma plook_pile_add_comm p b1 w1 b2 w2 : In b1 U -> In b2 U -> pwf p ->
    plook (pile_add (pile_add p b1 w1) b2 w2) (pile_add (pile_add p b2 w2) b1 w1).
  Proof.
    intros H1 H2 Hw b Hb.
    rewrite !pget_pile_add by (try apply pile_add_wf; assumption).
    destruct (ballot_eqb b1 b2) eqn:E12.
    - apply beq_U in E12; [|assumption|assumption]. subst b2. rewrite ballot_eqb_refl.
      destruct (ballot_eqb b b1); [|apply oeq_refl]. constructor. simpl.
      pose proof (Qred_correct (padd (pget p b1) w1 + w2)) as E1. pose proof (Qred_correct (padd (pget p b1) w2 + w1)) as E2.
      rewrite E1, E2. destruct (pget p b1) as [x|]; simpl.
      + pose proof (Qred_correct (x + w1)) as E3. pose proof (Qred_correct (x + w2)) as E4. rewrite E3, E4. ring.
      + ring.
    - assert (E21 : ballot_eqb b2 b1 = false).
      { apply beq_U_false; [assumption|assumption|]. apply beq_U_false in E12; [congruence|assumption|assumption]. }
      rewrite E21. destruct (ballot_eqb b b2) eqn:Eb2, (ballot_eqb b b1) eqn:Eb1; try apply oeq_refl.
      apply beq_U in Eb2; [|assumption|assumption]. apply beq_U in Eb1; [|assumption|assumption]. subst.
      rewrite ballot_eqb_refl in E12. discriminate.
  Qed.

  Lemma alloc_add_comm a k1 b1 w1 k2 b2 w2 : awf a -> In b1 U -> In b2 U ->
    aeq (alloc_add (alloc_add a k1 b1 w1) k2 b2 w2) (alloc_add (alloc_add a k2 b2 w2) k1 b1 w1).
  Proof.
    intros Hw H1 H2. split; [apply alloc_add_wf, alloc_add_wf; assumption|]. split; [apply alloc_add_wf, alloc_add_wf; assumption|].
    intros k. rewrite !alloc_get_add.
    destruct (okey_eqb k1 k2) eqn:E12.
    - apply okey_eqb_eq in E12. subst k2. rewrite okey_eqb_refl. destruct (okey_eqb k k1); [|apply alook_refl].
      simpl. apply plook_pile_add_comm; try assumption. apply odflt_wf, Hw.
    - assert (E21 : okey_eqb k2 k1 = false).
      { apply not_true_iff_false. intros H. apply okey_eqb_eq in H. subst. rewrite okey_eqb_refl in E12. discriminate. }
      rewrite E21. destruct (okey_eqb k k2) eqn:Ek2, (okey_eqb k k1) eqn:Ek1; try apply alook_refl.
      apply okey_eqb_eq in Ek2, Ek1. subst. rewrite okey_eqb_refl in E12. discriminate.
  Qed.

  (* instruction lists: (pile key, ballot, weight) *)
  Definition instr : Type := option C * ballot * Q.
  Definition okI (i : instr) : Prop := In (snd (fst i)) U.
  Definition RI (i i' : instr) : Prop := fst i = fst i' /\ snd i == snd i'.
  Definition app1 (a : alloc) (i : instr) : alloc := alloc_add a (fst (fst i)) (snd (fst i)) (snd i).
  Definition adds (a : alloc) (l : list instr) : alloc := fold_left app1 l a.

  Lemma adds_wf l : forall a, Forall okI l -> awf a -> awf (adds a l).
  Proof.
    unfold adds. induction l as [|i l IH]; intros a Hok Hw; simpl; [exact Hw|].
    inversion Hok; subst. apply IH; [assumption|]. apply alloc_add_wf; assumption.
  Qed.

  Lemma adds_perm_mod l l' a a' : perm_mod instr RI l l' -> Forall okI l -> aeq a a' -> aeq (adds a l) (adds a' l').
  Proof.
    intros Hp Hok Ha. unfold adds.
    apply (fold_perm_mod alloc instr aeq RI okI app1 aeq_trans); try assumption.
    - intros i _. split; reflexivity.
    - intros s s' [[k b] w] [[k' b'] w'] Hs Hi [Hf Hww]. simpl in *. injection Hf as <- <-.
      unfold app1. simpl. apply alloc_add_resp; assumption.
    - intros s [[k1 b1] w1] [[k2 b2] w2] Hs H1 H2. unfold app1. simpl. apply alloc_add_comm; [apply Hs|exact H1|exact H2].
    - apply aeq_refl, (aeq_wf_l _ _ Ha).
  Qed.
End Univ.
