(* Scale invariance (C11) of the ADDITIVE family: a converter that is an accumulating fold of per-ballot images
   ([conv image], Prelude/GDict.v) followed by get_n_best.  Multiplying every ballot weight by k > 0 gives an
   output dictionary with the same keys in the same order and every total multiplied by k (up to == on Q), so
   the selection - and every reported tie - is unchanged ([get_n_best_rel] with [qsc k]).  Holds for EVERY image;
   instances: first preference (plurality), approval (plain and split / SAV), presence counts and the positional
   scorers (any rank scorer, the number of candidates taken from the profile). *)
From Coq Require Import ZArith QArith List Bool Lia Lqa.
From VL Require Import Prelude.Sx Prelude.PyDict Prelude.GDict Model.GetNBest Model.Convert
     Proofs.GetNBest_proofs Proofs.QOrd Proofs.Scale_proofs Proofs.LRScale_proofs.
Import ListNotations.

Definition scale_w {B} (k : Q) (votes : list (B * Q)) : list (B * Q) :=
  map (fun bw => (fst bw, (k * snd bw)%Q)) votes.

Section AddScale.
  Context {K : Type}.
  Variable keqb : K -> K -> bool.
  Variable k : Q.
  Hypothesis Hk : (0 < k)%Q.

  Definition grel : list (K * Q) -> list (K * Q) -> Prop := lrel (K := K) (qsc k).

  Lemma gadd_rel d d' key x x' : grel d d' -> qsc k x x' -> grel (gadd keqb d key x) (gadd keqb d' key x').
  Proof.
    intros H Hx. induction H as [|[k0 v] [k0' v'] d d' [Hc Hv] Hd IH]; cbn [gadd].
    - constructor; [split; [reflexivity|exact Hx]|constructor].
    - cbn [fst snd] in Hc, Hv. subst k0'. destruct (keqb key k0).
      + constructor; [|exact Hd]. split; [reflexivity|]. cbn [snd]. unfold qsc in *. rewrite Hv, Hx. ring.
      + constructor; [split; [reflexivity|exact Hv]|exact IH].
  Qed.

  Lemma image_rel (img : list (K * Q)) w w' : qsc k w w' -> forall d d', grel d d' ->
    grel (fold_left (fun acc kc => gadd keqb acc (fst kc) (snd kc * w)) img d)
         (fold_left (fun acc kc => gadd keqb acc (fst kc) (snd kc * w')) img d').
  Proof.
    intros Hw. induction img as [|[k0 c] img IH]; intros d d' Hd; cbn [fold_left]; [exact Hd|].
    apply IH, gadd_rel; [exact Hd|]. cbn [snd]. unfold qsc in *. rewrite Hw. ring.
  Qed.

  Lemma conv_rel {B} (image : B -> list (K * Q)) (votes : list (B * Q)) :
    grel (conv keqb image votes) (conv keqb image (scale_w k votes)).
  Proof.
    unfold conv. assert (H0 : grel [] []) by constructor. revert H0. generalize (@nil (K * Q)) at 1 3. generalize (@nil (K * Q)).
    induction votes as [|[b w] votes IH]; intros d' d Hd; cbn [scale_w map fold_left]; [exact Hd|].
    apply IH. cbn [fst snd]. apply image_rel; [unfold qsc; reflexivity|exact Hd].
  Qed.

  Theorem additive_scale {B} (image : B -> list (K * Q)) (votes : list (B * Q)) (n : nat) :
    get_n_best Qle_bool (conv keqb image (scale_w k votes)) n = get_n_best Qle_bool (conv keqb image votes) n.
  Proof. apply (get_n_best_rel Qle_bool Qle_bool (qsc k) (qsc_le k Hk)). apply conv_rel. Qed.

  (* the scaled totals themselves: same keys, same order, every total k-fold *)
  Theorem additive_totals_scale {B} (image : B -> list (K * Q)) (votes : list (B * Q)) :
    Forall2 (fun x y : K * Q => fst x = fst y /\ (snd y == k * snd x)%Q)
            (conv keqb image votes) (conv keqb image (scale_w k votes)).
  Proof. exact (conv_rel image votes). Qed.
End AddScale.

(* ---------------------------------------------------------------- option-valued images (oconv) *)
Lemma scale_w_fst {B} k (votes : list (B * Q)) : map fst (scale_w k votes) = map fst votes.
Proof. unfold scale_w. rewrite map_map. reflexivity. Qed.

Lemma forallb_fst {B} (f : B -> bool) (l l' : list (B * Q)) : map fst l = map fst l' ->
  forallb (fun bw => f (fst bw)) l = forallb (fun bw => f (fst bw)) l'.
Proof.
  revert l'. induction l as [|x l IH]; intros [|y l'] H; try discriminate; [reflexivity|].
  cbn [map] in H. injection H as H1 H2. cbn [forallb]. rewrite H1, (IH l' H2). reflexivity.
Qed.

Definition ogbest (o : option (list (sx * Q))) (n : nat) : option (list (res sx)) :=
  option_map (fun d => get_n_best Qle_bool d n) o.

Theorem oconv_scale {B} (k : Q) (image : B -> option (list (sx * Q))) (votes : list (B * Q)) (n : nat) : (0 < k)%Q ->
  ogbest (oconv image (scale_w k votes)) n = ogbest (oconv image votes) n.
Proof.
  intros Hk. unfold oconv.
  rewrite (forallb_fst (fun b => match image b with Some _ => true | None => false end) (scale_w k votes) votes
             (scale_w_fst k votes)).
  destruct (forallb _ votes); [|reflexivity]. unfold ogbest. cbn [option_map]. f_equal. apply (additive_scale sx_eqb k Hk).
Qed.

(* the candidate set of a profile does not depend on the weights *)
Lemma flat_map_fst {B X} (f : B -> list X) (l l' : list (B * Q)) : map fst l = map fst l' ->
  flat_map (fun bw => f (fst bw)) l = flat_map (fun bw => f (fst bw)) l'.
Proof.
  revert l'. induction l as [|x l IH]; intros [|y l'] H; try discriminate; [reflexivity|].
  cbn [map] in H. injection H as H1 H2. cbn [flat_map]. rewrite H1, (IH l' H2). reflexivity.
Qed.

Lemma cands_ranked_scale k votes : cands_ranked (scale_w k votes) = cands_ranked votes.
Proof. unfold cands_ranked. f_equal. apply (flat_map_fst flatten), scale_w_fst. Qed.

Lemma cands_approval_scale k votes : cands_approval (scale_w k votes) = cands_approval votes.
Proof. unfold cands_approval. f_equal. apply (flat_map_fst (fun b : list C => b)), scale_w_fst. Qed.

Lemma cands_score_scale k votes : cands_score (scale_w k votes) = cands_score votes.
Proof. unfold cands_score. f_equal. apply (flat_map_fst (fun b : sballot => map fst b)), scale_w_fst. Qed.

(* the positional rule as the library runs it: the number of candidates is read off the profile *)
Theorem positional_scale (k : Q) (s : scorer) (votes : list (ranked * Q)) (n : nat) : (0 < k)%Q ->
  ogbest (oconv (img_positional s (length (cands_ranked (scale_w k votes)))) (scale_w k votes)) n
  = ogbest (oconv (img_positional s (length (cands_ranked votes))) votes) n.
Proof. intros Hk. rewrite cands_ranked_scale. apply oconv_scale, Hk. Qed.
