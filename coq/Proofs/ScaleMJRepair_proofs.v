(* Scale invariance (C11) of the score family WITH the repairs of wave 6 (Model/Cardinal.v, the [_x] definitions):
   - without the truncation repair, or with no truncation configured, the repaired aggregation IS the pinned one on
     well-formed profiles (the counted aggregates equal the expanded ones), so the C11 theorems carry over;
   - on balanced score dictionaries (Scale2MJ_proofs.Inv: complete ballots) the repaired default tie-break of majority
     judgment IS the pinned one: nobody runs out of scores before the others. *)
From Coq Require Import ZArith QArith Qround Qabs List Bool Arith Lia Lqa Permutation.
From VL Require Import Prelude.PyDict Model.GetNBest Model.Convert Model.Cardinal
     Proofs.GetNBest_proofs Proofs.QOrd Proofs.Dict_proofs Proofs.MJ_proofs Proofs.MJ_removal_proofs Proofs.MJ_seats_proofs
     Proofs.ScoreDict_proofs Proofs.Truncation_proofs Proofs.Scale2Med_proofs Proofs.Scale2Score_proofs Proofs.Scale2MJ_proofs
     Proofs.Repair_proofs Proofs.TruncRepair_proofs Proofs.MJ_repair_proofs.
Import ListNotations.

(* ================================================================ the corrections and the aggregation *)
Definition trunc_untouched (rp : repairs) (cf : score_cfg) : Prop := rp_trunc rp = false \/ Qle_bool (sc_trunc cf) 0 = true.

Lemma correct_scores_x_untouched rp cf d nv : trunc_untouched rp cf -> correct_scores_x rp cf d nv = correct_scores cf d nv.
Proof.
  intros [H|H]; [apply correct_scores_x_counted, H|]. rewrite correct_scores_x_unfold, correct_scores_unfold, H.
  destruct (cs_total d <? sc_min_count cf)%Z; [reflexivity|]. destruct (unscored_fill cf d nv); reflexivity.
Qed.

Lemma corrected_scores_x_untouched rp cf votes : trunc_untouched rp cf -> corrected_scores_x rp cf votes = corrected_scores cf votes.
Proof.
  intros H. unfold corrected_scores_x, corrected_scores. cbv zeta. f_equal. apply map_ext. intros cd. rewrite (correct_scores_x_untouched rp cf _ _ H). reflexivity.
Qed.

Theorem score_to_simple_x_eq rp cf votes : trunc_untouched rp cf -> profile_ok votes ->
  score_to_simple_x rp cf votes = score_to_simple cf votes.
Proof.
  intros Ht Hv. unfold score_to_simple_x, score_to_simple. rewrite (corrected_scores_x_untouched rp cf votes Ht).
  destruct (corrected_scores cf votes) as [sc|e] eqn:E; [|reflexivity]. apply aggregate_x_ok. exact (corrected_scores_ok cf votes sc Hv E).
Qed.

Theorem score_voting_x_eq rp cf votes n : trunc_untouched rp cf -> profile_ok votes ->
  score_voting_x rp cf votes n = score_voting cf votes n.
Proof. intros Ht Hv. unfold score_voting_x, score_voting. rewrite (score_to_simple_x_eq rp cf votes Ht Hv). reflexivity. Qed.

Lemma mj_plus_x_ok rp sub n : Forall cs_ok sub -> mj_plus_x rp sub n = mj_plus sub n.
Proof.
  intros H. unfold mj_plus_x, mj_plus. destruct sub as [|[c d0] sub']; [reflexivity|].
  inversion H as [|? ? H0 _]; subst. unfold aggregate_one_x. destruct (rp_counted rp); [rewrite (okd_counted _ d0 H0)|]; reflexivity.
Qed.

(* majority judgment with the plus rule: the repairs change nothing on well-formed profiles *)
Theorem mj_plus_x_eq rp cf votes n : trunc_untouched rp cf -> profile_ok votes ->
  majority_judgment_x rp true cf votes n = majority_judgment true cf votes n.
Proof.
  intros Ht Hv. unfold majority_judgment_x, majority_judgment. rewrite (corrected_scores_x_untouched rp cf votes Ht).
  destruct (corrected_scores cf votes) as [sc|e] eqn:E; [|reflexivity].
  pose proof (corrected_scores_ok cf votes sc Hv E) as Hok. rewrite (aggregate_x_ok rp _ _ Hok).
  destruct (aggregate FMedianLow sc) as [med|e']; [|reflexivity]. cbv zeta.
  destruct (last_tie (get_n_best Qle_bool med n)) as [tied|]; [|reflexivity].
  rewrite (mj_plus_x_ok rp _ _ (filter_ok _ _ Hok)). reflexivity.
Qed.

(* ================================================================ the default tie-break on balanced dictionaries *)
Lemma good_ok d : good d -> cs_okd d.
Proof. intros (Hk & Hn). split; [exact Hn|apply distinct_keys_nd, Hk]. Qed.

Lemma Inv_ok S T : Inv S T -> Forall cs_ok S.
Proof. intros (_ & H). apply Forall_forall. intros cd Hcd. rewrite Forall_forall in H. exact (good_ok _ (proj1 (H cd Hcd))). Qed.

Lemma mj_live_Inv S T : Inv S T -> (0 < T)%Z -> mj_live S = S.
Proof.
  intros (_ & H) HT. unfold mj_live. apply filter_keep_all. intros cd Hcd. rewrite Forall_forall in H.
  destruct (H cd Hcd) as (_ & Ht). rewrite Ht. apply negb_true_iff, Z.eqb_neq. lia.
Qed.

Theorem mj_default_x_balanced rp : forall fuel S n T, Inv S T -> (0 <= T)%Z -> (1 <= n <= length S)%nat ->
  mj_default_x rp fuel S n = mj_default fuel S n.
Proof.
  induction fuel as [|f IH]; intros S n T HI HT0 Hn; [reflexivity|].
  rewrite Scale2MJ_proofs.mj_default_unfold. cbn [mj_default_x]. fold (mx S).
  destruct (mx S <=? 0)%Z eqn:Hm; [reflexivity|].
  destruct (proj1 (mx_pos S T HI HT0) Hm) as [Hne HT].
  assert (Hlive : (if rp_mj rp then mj_live S else S) = S) by (destruct (rp_mj rp); [apply (mj_live_Inv S T HI HT)|reflexivity]).
  rewrite Hlive.
  assert (Hlen : rp_mj rp && Nat.ltb (length S) n = false) by (destruct (rp_mj rp); [apply Nat.ltb_ge; lia|reflexivity]).
  rewrite Hlen, (aggregate_x_ok rp _ _ (Inv_ok S T HI)).
  pose proof (aggregate_Inv S T HI HT) as Ha. rewrite Ha. cbv zeta.
  set (medians := map (fun cd : C * cscores => (fst cd, med_of (snd cd))) S) in *.
  fold (gnb medians n). change (fun r : res C => match r with Cand _ => true | TieR _ => false end) with Scale2MJ_proofs.is_cand.
  fold (untied_of (gnb medians n)).
  destruct (Nat.eqb (count_tie (gnb medians n)) 0) eqn:Hc; [reflexivity|].
  destruct (Nat.ltb 0 (untied_of (gnb medians n))) eqn:Hu.
  - (* winners are seated; the rest goes on for the remaining seats *)
    fold (winners_of (gnb medians n)). fold (wc_of (gnb medians n)). fold (rest_of S (gnb medians n)).
    assert (HIr : Inv (rest_of S (gnb medians n)) T) by (apply Inv_filter, HI).
    rewrite (IH (rest_of S (gnb medians n)) (n - untied_of (gnb medians n))%nat T HIr HT0); [reflexivity|].
    assert (Hkeys : map fst medians = map fst S) by (unfold medians; rewrite map_map; reflexivity).
    assert (Hndm : NoDup (map fst medians)) by (rewrite Hkeys; exact (proj1 HI)).
    destruct (gnb_cases medians n (proj1 Hn) Hndm) as [(Hct & _)|(above & level & below & thr & k & Hp & _ & _ & _ & Hbest & Hlenb & Hk)].
    { unfold gnb in Hc. rewrite Hct in Hc. discriminate. }
    fold (gnb medians n) in Hbest. destruct (perm_parts _ _ _ _ Hndm Hp) as (Hnda & Hndl & Hlv).
    assert (Hun : untied_of (gnb medians n) = length above).
    { rewrite Hbest, map_cand_of, (untied_shape (map fst above) (Datatypes.S k) (map fst level)), map_length. reflexivity. }
    assert (Hwc : wc_of (gnb medians n) = map fst above).
    { rewrite Hbest, map_cand_of. apply (wc_shape (map fst above) (Datatypes.S k) (map fst level)). }
    rewrite Hun. split; [lia|].
    assert (Hge : (length level <= length (rest_of S (gnb medians n)))%nat).
    { apply keys_incl_length; [exact Hndl|]. intros c Hc0. destruct (Hlv c Hc0) as (Hmm & Hna).
      rewrite Hkeys in Hmm. apply in_map_iff in Hmm. destruct Hmm as ([c0 d] & Hc1 & Hd). cbn [fst] in Hc1. subst c0.
      apply in_map_iff. exists (c, d). split; [reflexivity|]. unfold rest_of. apply filter_In. split; [exact Hd|].
      cbn [fst]. rewrite Hwc. apply negb_true_iff. destruct (cmem c (map fst above)) eqn:E; [|reflexivity]. apply MJ_proofs.cmem_In in E. contradiction. }
    lia.
  - (* a shared lead: one block of removals among the level candidates *)
    fold (tied_of (gnb medians n)).
    change (mj_default_x rp f (mj_remove (mj_level S (tied_of (gnb medians n))) medians (mj_ch (mj_level S (tied_of (gnb medians n))) medians)) n =
            mj_default f (mj_remove (mj_level S (tied_of (gnb medians n))) medians (mj_ch (mj_level S (tied_of (gnb medians n))) medians)) n).
    destruct (block_state S T n HI HT Hc Hu) as (E & HI' & Hch & _). fold medians in E, HI', Hch.
    destruct (block_facts S T n HI HT Hc Hu) as (thr & Hn1 & _). fold medians in Hn1.
    rewrite E. apply (IH _ _ (T - mj_ch (mj_level S (tied_of (gnb medians n))) medians)%Z HI'); [lia|]. rewrite own_remove_length. lia.
Qed.

(* majority judgment, default rule, on a profile whose corrected dictionaries are balanced: the repairs change nothing *)
Theorem mj_default_x_eq_balanced rp cf votes n : trunc_untouched rp cf -> profile_ok votes -> (1 <= n)%nat ->
  (forall sc, corrected_scores cf votes = inl sc -> exists T, Inv sc T) ->
  majority_judgment_x rp false cf votes n = majority_judgment false cf votes n.
Proof.
  intros Ht Hv Hn Hbal. unfold majority_judgment_x, majority_judgment. rewrite (corrected_scores_x_untouched rp cf votes Ht).
  destruct (corrected_scores cf votes) as [sc|e] eqn:E; [|reflexivity].
  pose proof (corrected_scores_ok cf votes sc Hv E) as Hok. rewrite (aggregate_x_ok rp _ _ Hok).
  destruct (aggregate FMedianLow sc) as [med|e'] eqn:Ea; [|reflexivity]. cbv zeta.
  destruct (Hbal sc eq_refl) as (T & HI).
  pose proof (aggregate_keys _ _ _ Ea) as Hkeys.
  assert (Hndm : NoDup (map fst med)) by (rewrite Hkeys; exact (proj1 HI)).
  destruct (gnb_cases med n Hn Hndm) as [(_ & Hplain & _)|(above & level & below & thr & k & Hp & _ & _ & _ & Hbest & Hlenb & Hk)].
  - rewrite (last_tie_plain _ Hplain). reflexivity.
  - rewrite Hbest, last_tie_app, count_tie_app.
    fold (mj_level sc (map fst level)). set (sub := mj_level sc (map fst level)).
    assert (HIs : Inv sub T) by (apply Inv_filter, HI).
    destruct (perm_parts _ _ _ _ Hndm Hp) as (_ & Hndl & Hlv).
    assert (Hge : (length level <= length sub)%nat).
    { apply keys_incl_length; [exact Hndl|]. intros c Hc0. destruct (Hlv c Hc0) as (Hmm & _).
      rewrite Hkeys in Hmm. apply in_map_iff in Hmm. destruct Hmm as ([c0 d] & Hc1 & Hd). cbn [fst] in Hc1. subst c0.
      apply in_map_iff. exists (c, d). split; [reflexivity|]. unfold sub, mj_level. apply filter_In. split; [exact Hd|].
      cbn [fst]. apply MJ_proofs.cmem_In, Hc0. }
    assert (Hne : sub <> []) by (intros Es; rewrite Es in Hge; cbn [length] in Hge; lia).
    rewrite (mj_default_x_balanced rp _ sub (Datatypes.S k) T HIs (Inv_nonneg sub T HIs Hne)); [reflexivity|lia].
Qed.
