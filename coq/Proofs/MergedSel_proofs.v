(* MergedSelections (Model/Convert2.v merged_selections, convert.py L653-690): the defining clause of the docstring -
   "the candidates are ordered by their positions in the district-wide result lists".

   Every candidate gets two tallies that are SUMS over the partial result lists (so the converter treats its input as the
   sum of the lists, like every other converter of C13): the number of lists it appears in ([appearances]) and the sum of
   its reversed ranks, len(list) - 1 - index ([ranksum]).  The result is the list of the distinct candidates in order of
   first appearance ([firsts]), sorted STABLY by (appearances, ranksum), larger first:

     merged_selections el = map fst (isort (map (fun c => (c, tally el c)) (firsts el)))         merged_selections_defining

   hence a permutation of the distinct candidates (nobody lost, nobody doubled), sorted, ties in first-appearance order, and
   a single duplicate-free list converts to itself. *)
From Coq Require Import ZArith List Bool Lia Permutation Sorted.
From VL Require Import Prelude.Sx Prelude.PyDict Prelude.GDict Model.Convert Model.Convert2 Proofs.Convert_proofs.
Import ListNotations.
Open Scope Z_scope.

(* ================= the declarative tallies ================= *)
Fixpoint occ (c : sx) (l : list sx) : Z :=
  match l with [] => 0 | x :: t => (if sx_eqb c x then 1 else 0) + occ c t end.
(* the reversed rank of a position is the length of the rest of the list *)
Fixpoint rks (c : sx) (l : list sx) : Z :=
  match l with [] => 0 | x :: t => (if sx_eqb c x then Z.of_nat (length t) else 0) + rks c t end.
Definition appearances (el : list (list sx)) (c : sx) : Z := fold_right (fun l acc => occ c l + acc) 0 el.
Definition ranksum (el : list (list sx)) (c : sx) : Z := fold_right (fun l acc => rks c l + acc) 0 el.
Definition tally (el : list (list sx)) (c : sx) : Z * Z := (appearances el c, ranksum el c).

(* both tallies are additive over the union of two sets of partial results *)
Lemma appearances_app a b c : appearances (a ++ b) c = appearances a c + appearances b c.
Proof. unfold appearances. induction a as [|l a IH]; simpl; [reflexivity|]. rewrite IH. ring. Qed.
Lemma ranksum_app a b c : ranksum (a ++ b) c = ranksum a c + ranksum b c.
Proof. unfold ranksum. induction a as [|l a IH]; simpl; [reflexivity|]. rewrite IH. ring. Qed.

(* distinct candidates in order of first appearance *)
Definition add_first (acc : list sx) (c : sx) : list sx := if existsb (sx_eqb c) acc then acc else acc ++ [c].
Definition firsts (el : list (list sx)) : list sx := fold_left add_first (concat el) [].

Lemma existsb_sx c (l : list sx) : existsb (sx_eqb c) l = true <-> In c l.
Proof.
  rewrite existsb_exists. split.
  - intros (x & Hx & E). apply sx_eqb_eq in E. subst. exact Hx.
  - intros H. exists c. split; [exact H|apply sx_eqb_refl].
Qed.

Lemma add_first_In acc c x : In x (add_first acc c) <-> In x acc \/ x = c.
Proof.
  unfold add_first. destruct (existsb (sx_eqb c) acc) eqn:E.
  - apply existsb_sx in E. split; [intros H; left; exact H|intros [H|H]; [exact H|subst; exact E]].
  - rewrite in_app_iff. simpl. split.
    + intros [H|[H|[]]]; [left; exact H|right; symmetry; exact H].
    + intros [H|H]; [left; exact H|right; left; symmetry; exact H].
Qed.

Lemma add_first_NoDup acc c : NoDup acc -> NoDup (add_first acc c).
Proof.
  intros H. unfold add_first. destruct (existsb (sx_eqb c) acc) eqn:E; [exact H|].
  assert (Hn : ~ In c acc) by (intros Hi; apply existsb_sx in Hi; congruence).
  clear E. induction acc as [|x acc IH]; simpl; [constructor; [intros []|constructor]|].
  inversion H as [|? ? Hx Hl]; subst. constructor.
  - rewrite in_app_iff. intros [H1|[H1|[]]]; [exact (Hx H1)|]. subst. apply Hn. left. reflexivity.
  - apply IH; [exact Hl|]. intros H2. apply Hn. right. exact H2.
Qed.

Lemma fold_add_first_In l : forall acc x, In x (fold_left add_first l acc) <-> In x acc \/ In x l.
Proof.
  induction l as [|c l IH]; intros acc x; simpl; [tauto|].
  rewrite IH, add_first_In. split; intros H; intuition auto.
Qed.

Lemma fold_add_first_NoDup l : forall acc, NoDup acc -> NoDup (fold_left add_first l acc).
Proof. induction l as [|c l IH]; intros acc H; simpl; [exact H|]. apply IH, add_first_NoDup, H. Qed.

Lemma firsts_NoDup el : NoDup (firsts el).
Proof. apply fold_add_first_NoDup. constructor. Qed.

Lemma firsts_In el c : In c (firsts el) <-> exists l, In l el /\ In c l.
Proof.
  unfold firsts. rewrite fold_add_first_In, in_concat. simpl. split.
  - intros [[]|(l & H1 & H2)]. exists l. split; assumption.
  - intros (l & H1 & H2). right. exists l. split; assumption.
Qed.

(* ================= the table built by _get_ranks ================= *)
Definition rtab := list (sx * (Z * Z)).
Fixpoint rget (r : rtab) (c : sx) : Z * Z :=
  match r with [] => (0, 0) | (c', v) :: t => if sx_eqb c c' then v else rget t c end.

Lemma sx_eqb_neq a b c : sx_eqb a b = true -> sx_eqb b c = false -> sx_eqb a c = false.
Proof. intros H1 H2. apply sx_eqb_eq in H1. subst. exact H2. Qed.

Lemma sx_eqb_sym a b : sx_eqb a b = sx_eqb b a.
Proof.
  destruct (sx_eqb a b) eqn:E1, (sx_eqb b a) eqn:E2; try reflexivity.
  - apply sx_eqb_eq in E1. subst. rewrite sx_eqb_refl in E2. discriminate.
  - apply sx_eqb_eq in E2. subst. rewrite sx_eqb_refl in E1. discriminate.
Qed.

Lemma rget_rk_add r c x c' :
  rget (rk_add r c x) c' = if sx_eqb c' c then (fst (rget r c) + 1, snd (rget r c) + x) else rget r c'.
Proof.
  induction r as [|[c0 [n s]] r IH]; cbn [rk_add rget].
  - destruct (sx_eqb c' c); reflexivity.
  - destruct (sx_eqb c c0) eqn:E; cbn [rget fst snd].
    + apply sx_eqb_eq in E. subst c0. destruct (sx_eqb c' c); reflexivity.
    + rewrite IH. destruct (sx_eqb c' c0) eqn:E2; [|reflexivity].
      apply sx_eqb_eq in E2. subst c0. rewrite sx_eqb_sym, E. reflexivity.
Qed.

Lemma keys_rk_add r c x : map fst (rk_add r c x) = add_first (map fst r) c.
Proof.
  unfold add_first. induction r as [|[c0 [n s]] r IH]; cbn [rk_add map fst existsb]; [reflexivity|].
  destruct (sx_eqb c c0) eqn:E; cbn [map fst orb]; [reflexivity|].
  rewrite IH. destruct (existsb (sx_eqb c) (map fst r)); reflexivity.
Qed.

Lemma rk_list_spec cl : forall r,
  (forall c, rget (rk_list r cl (Z.of_nat (length cl) - 1)) c = (fst (rget r c) + occ c cl, snd (rget r c) + rks c cl)) /\
  map fst (rk_list r cl (Z.of_nat (length cl) - 1)) = fold_left add_first cl (map fst r).
Proof.
  induction cl as [|x t IH]; intros r.
  - cbn [rk_list occ rks fold_left]. split; [|reflexivity]. intros c. destruct (rget r c). cbn [fst snd]. f_equal; ring.
  - cbn [rk_list fold_left].
    replace (Z.of_nat (length (x :: t)) - 1) with (Z.of_nat (length t)) by (cbn [length]; lia).
    destruct (IH (rk_add r x (Z.of_nat (length t)))) as [H1 H2]. split.
    + intros c. rewrite H1, rget_rk_add. cbn [occ rks]. destruct (sx_eqb c x) eqn:E; cbn [fst snd].
      * apply sx_eqb_eq in E. subst x. f_equal; ring.
      * f_equal; ring.
    + rewrite H2, keys_rk_add. reflexivity.
Qed.

Definition ranks_from (el : list (list sx)) (r : rtab) : rtab :=
  fold_left (fun r cl => rk_list r cl (Z.of_nat (length cl) - 1)) el r.

Lemma ranks_spec el : forall r,
  (forall c, rget (ranks_from el r) c = (fst (rget r c) + appearances el c, snd (rget r c) + ranksum el c)) /\
  map fst (ranks_from el r) = fold_left add_first (concat el) (map fst r).
Proof.
  unfold ranks_from. induction el as [|cl el IH]; intros r.
  - cbn [fold_left concat appearances ranksum fold_right]. split; [|reflexivity].
    intros c. destruct (rget r c). cbn [fst snd]. f_equal; ring.
  - cbn [fold_left concat]. destruct (rk_list_spec cl r) as [A1 A2].
    destruct (IH (rk_list r cl (Z.of_nat (length cl) - 1))) as [H1 H2]. split.
    + intros c. rewrite H1, A1. unfold appearances, ranksum. cbn [fold_right fst snd]. f_equal; ring.
    + rewrite H2, A2, fold_left_app. reflexivity.
Qed.

Lemma rget_entry (r : rtab) c v : NoDup (map fst r) -> In (c, v) r -> rget r c = v.
Proof.
  induction r as [|[c0 v0] r IH]; cbn [map fst rget]; intros Hn Hin; [destruct Hin|].
  inversion Hn as [|? ? Hc Hr]; subst. destruct Hin as [E|Hin].
  - injection E as -> ->. rewrite sx_eqb_refl. reflexivity.
  - destruct (sx_eqb c c0) eqn:E; [|exact (IH Hr Hin)].
    apply sx_eqb_eq in E. subst c0. exfalso. apply Hc. apply (in_map fst) in Hin. exact Hin.
Qed.

Lemma table_is_map (r : rtab) (f : sx -> Z * Z) :
  (forall c v, In (c, v) r -> v = f c) -> r = map (fun c => (c, f c)) (map fst r).
Proof.
  induction r as [|[c v] r IH]; intros H; cbn [map fst]; [reflexivity|].
  rewrite (H c v (or_introl eq_refl)). f_equal. apply IH. intros c' v' Hin. apply H. right. exact Hin.
Qed.

(* the table of _get_ranks: every distinct candidate, in order of first appearance, with its two tallies *)
Lemma ranks_table el : ranks_from el [] = map (fun c => (c, tally el c)) (firsts el).
Proof.
  destruct (ranks_spec el []) as [H1 H2]. cbn [map] in H2.
  rewrite (table_is_map (ranks_from el []) (tally el)).
  - unfold firsts. rewrite H2. reflexivity.
  - intros c v Hin. rewrite <- (rget_entry (ranks_from el []) c v); [|rewrite H2; apply fold_add_first_NoDup; constructor|exact Hin].
    rewrite H1. cbn [rget fst snd]. reflexivity.
Qed.

(* ================= the stable insertion sort ================= *)
Definition isort (l : rtab) : rtab := fold_right rk_insert [] l.
Definition keqb (a b : Z * Z) : bool := (fst a =? fst b) && (snd a =? snd b).

Lemma rk_le_refl a : rk_le a a = true.
Proof. unfold rk_le. destruct a as [n s]. cbn [fst snd]. rewrite Z.eqb_refl, Z.leb_refl. apply orb_true_r. Qed.
Lemma rk_le_total a b : rk_le a b = false -> rk_le b a = true.
Proof.
  unfold rk_le. destruct a as [n s], b as [n' s']. cbn [fst snd]. intros H.
  apply orb_false_iff in H. destruct H as [H1 H2]. apply Z.ltb_ge in H1.
  destruct (Z.ltb_spec n n') as [L|L]; [reflexivity|]. cbn [orb].
  assert (E : n = n') by lia. subst n'. rewrite Z.eqb_refl in *. cbn [andb] in *.
  apply Z.leb_gt in H2. apply Z.leb_le. lia.
Qed.
Lemma rk_le_trans a b c : rk_le a b = true -> rk_le b c = true -> rk_le a c = true.
Proof.
  unfold rk_le. destruct a as [n s], b as [n' s'], c as [n'' s'']. cbn [fst snd]. intros H1 H2.
  apply orb_true_iff in H1. apply orb_true_iff in H2. apply orb_true_iff.
  rewrite !andb_true_iff, !Z.ltb_lt, !Z.eqb_eq, !Z.leb_le in *. lia.
Qed.
Lemma keqb_eq a b : keqb a b = true <-> a = b.
Proof.
  unfold keqb. destruct a as [n s], b as [n' s']. cbn [fst snd]. rewrite andb_true_iff, !Z.eqb_eq. split.
  - intros [-> ->]. reflexivity.
  - intros E. injection E as -> ->. split; reflexivity.
Qed.

Definition pre (x y : sx * (Z * Z)) : Prop := rk_le (snd x) (snd y) = true.

Lemma rk_insert_perm x l : Permutation (rk_insert x l) (x :: l).
Proof.
  induction l as [|y t IH]; cbn [rk_insert]; [apply Permutation_refl|].
  destruct (rk_le (snd x) (snd y)); [apply Permutation_refl|].
  apply (perm_trans (perm_skip y IH)), perm_swap.
Qed.

Lemma isort_perm l : Permutation (isort l) l.
Proof.
  unfold isort. induction l as [|x l IH]; cbn [fold_right]; [constructor|].
  apply (perm_trans (rk_insert_perm x _)), perm_skip, IH.
Qed.

Lemma rk_insert_sorted x l : StronglySorted pre l -> StronglySorted pre (rk_insert x l).
Proof.
  induction 1 as [|y t Hs IH Hall]; cbn [rk_insert]; [constructor; constructor|].
  destruct (rk_le (snd x) (snd y)) eqn:E.
  - constructor; [constructor; assumption|]. constructor; [exact E|].
    rewrite Forall_forall in *. intros z Hz. exact (rk_le_trans _ _ _ E (Hall z Hz)).
  - constructor; [exact IH|].
    apply (Permutation_Forall (Permutation_sym (rk_insert_perm x t))).
    constructor; [exact (rk_le_total _ _ E)|exact Hall].
Qed.

Lemma isort_sorted l : StronglySorted pre (isort l).
Proof. unfold isort. induction l as [|x l IH]; cbn [fold_right]; [constructor|]. apply rk_insert_sorted, IH. Qed.

(* stability: the entries with one and the same key keep their relative order *)
Lemma filter_rk_insert k x l :
  filter (fun z => keqb (snd z) k) (rk_insert x l) = filter (fun z => keqb (snd z) k) (x :: l).
Proof.
  induction l as [|y t IH]; cbn [rk_insert]; [reflexivity|].
  destruct (rk_le (snd x) (snd y)) eqn:E; [reflexivity|].
  cbn [filter] in *. rewrite IH.
  destruct (keqb (snd x) k) eqn:Ex; [|reflexivity].
  destruct (keqb (snd y) k) eqn:Ey; [|reflexivity].
  apply keqb_eq in Ex. apply keqb_eq in Ey. rewrite Ex, Ey, rk_le_refl in E. discriminate.
Qed.

Lemma isort_stable k l : filter (fun z => keqb (snd z) k) (isort l) = filter (fun z => keqb (snd z) k) l.
Proof.
  unfold isort. induction l as [|x l IH]; cbn [fold_right]; [reflexivity|].
  rewrite filter_rk_insert. cbn [filter]. rewrite IH. reflexivity.
Qed.

Lemma isort_id l : StronglySorted pre l -> isort l = l.
Proof.
  unfold isort. induction 1 as [|x t Hs IH Hall]; cbn [fold_right]; [reflexivity|].
  rewrite IH. destruct t as [|y t']; cbn [rk_insert]; [reflexivity|].
  inversion Hall as [|? ? Hy _]; subst. unfold pre in Hy. rewrite Hy. reflexivity.
Qed.

(* ================= MergedSelections ================= *)
Definition tagged (el : list (list sx)) (l : list sx) : rtab := map (fun c => (c, tally el c)) l.

(* the defining clause: the distinct candidates in order of first appearance, stably sorted by their two tallies *)
Theorem merged_selections_defining el : merged_selections el = map fst (isort (tagged el (firsts el))).
Proof. unfold merged_selections. fold (ranks_from el []). rewrite ranks_table. reflexivity. Qed.

Lemma map_fst_tagged el l : map fst (tagged el l) = l.
Proof. unfold tagged. rewrite map_map. cbn [fst]. apply map_id. Qed.

Lemma all_tagged el (P : rtab) l : Permutation P (tagged el l) -> P = tagged el (map fst P).
Proof.
  intros H. apply table_is_map. intros c v Hin. apply (Permutation_in _ H) in Hin.
  unfold tagged in Hin. apply in_map_iff in Hin. destruct Hin as (c' & E & _). injection E as -> ->. reflexivity.
Qed.

(* nobody lost, nobody doubled *)
Theorem merged_selections_perm el : Permutation (merged_selections el) (firsts el).
Proof.
  rewrite merged_selections_defining. rewrite <- (map_fst_tagged el (firsts el)) at 2.
  apply Permutation_map, isort_perm.
Qed.

Theorem merged_selections_NoDup el : NoDup (merged_selections el).
Proof. apply (Permutation_NoDup (Permutation_sym (merged_selections_perm el))), firsts_NoDup. Qed.

Theorem merged_selections_In el c : In c (merged_selections el) <-> exists l, In l el /\ In c l.
Proof.
  rewrite <- firsts_In. split; intros H.
  - exact (Permutation_in _ (merged_selections_perm el) H).
  - exact (Permutation_in _ (Permutation_sym (merged_selections_perm el)) H).
Qed.

(* a comes no later than b: more appearances, or as many and at least the sum of reversed ranks *)
Definition ms_before (ta tb : Z * Z) : Prop := fst tb < fst ta \/ (fst ta = fst tb /\ snd tb <= snd ta).

Lemma rk_le_before a b : rk_le a b = true <-> ms_before a b.
Proof.
  unfold rk_le, ms_before. rewrite orb_true_iff, andb_true_iff, Z.ltb_lt, Z.eqb_eq, Z.leb_le. reflexivity.
Qed.

Lemma sorted_tagged el l : StronglySorted pre (tagged el l) ->
  StronglySorted (fun a b => ms_before (tally el a) (tally el b)) l.
Proof.
  induction l as [|c l IH]; intros H; [constructor|].
  cbn [tagged map] in H. inversion H as [|? ? Hs Hall]; subst. constructor; [apply IH, Hs|].
  rewrite Forall_forall in *. intros b Hb. apply rk_le_before.
  apply (Hall (b, tally el b)). unfold tagged. apply in_map_iff. exists b. split; [reflexivity|exact Hb].
Qed.

Theorem merged_selections_sorted el :
  StronglySorted (fun a b => ms_before (tally el a) (tally el b)) (merged_selections el).
Proof.
  rewrite merged_selections_defining. apply sorted_tagged.
  rewrite <- (all_tagged el _ _ (isort_perm _)). apply isort_sorted.
Qed.

Lemma filter_tagged el k l :
  filter (fun z => keqb (snd z) k) (tagged el l) = tagged el (filter (fun c => keqb (tally el c) k) l).
Proof.
  induction l as [|c l IH]; cbn [tagged map filter snd]; [reflexivity|].
  fold (tagged el l). rewrite IH. destruct (keqb (tally el c) k); reflexivity.
Qed.

(* ties - the same number of appearances and the same sum of reversed ranks - stay in order of first appearance *)
Theorem merged_selections_stable el k :
  filter (fun c => keqb (tally el c) k) (merged_selections el) = filter (fun c => keqb (tally el c) k) (firsts el).
Proof.
  rewrite merged_selections_defining.
  rewrite <- (map_fst_tagged el (filter _ (map fst _))), <- filter_tagged, <- (all_tagged el _ _ (isort_perm _)).
  rewrite isort_stable, filter_tagged, map_fst_tagged. reflexivity.
Qed.

(* ---- a single partial result without repetitions converts to itself *)
Lemma occ_notin c l : ~ In c l -> occ c l = 0 /\ rks c l = 0.
Proof.
  induction l as [|x t IH]; intros H; cbn [occ rks]; [split; reflexivity|].
  destruct (sx_eqb c x) eqn:E.
  - apply sx_eqb_eq in E. subst. exfalso. apply H. left. reflexivity.
  - apply IH. intros H2. apply H. right. exact H2.
Qed.

Lemma occ_in c l : NoDup l -> In c l -> occ c l = 1 /\ 0 <= rks c l < Z.of_nat (length l).
Proof.
  induction l as [|x t IH]; intros Hn Hin; [destruct Hin|].
  inversion Hn as [|? ? Hx Ht]; subst. cbn [occ rks length]. destruct (sx_eqb c x) eqn:E.
  - apply sx_eqb_eq in E. subst x. destruct (occ_notin c t Hx) as [-> ->]. lia.
  - destruct Hin as [Hin|Hin]; [subst; rewrite sx_eqb_refl in E; discriminate|].
    destruct (IH Ht Hin) as [-> H2]. lia.
Qed.

Lemma single_sorted l : NoDup l -> StronglySorted pre (tagged [l] l).
Proof.
  induction l as [|x t IH]; intros Hn; [constructor|].
  inversion Hn as [|? ? Hx Ht]; subst.
  assert (Ht' : tagged [x :: t] t = tagged [t] t).
  { unfold tagged. apply map_ext_in. intros c Hc. f_equal. unfold tally, appearances, ranksum. cbn [fold_right occ rks].
    assert (E : sx_eqb c x = false).
    { apply not_true_iff_false. intros E. apply sx_eqb_eq in E. subst. exact (Hx Hc). }
    rewrite E. reflexivity. }
  cbn [tagged map]. fold (tagged [x :: t] t). rewrite Ht'. constructor; [apply IH, Ht|].
  rewrite Forall_forall. intros z Hz. unfold tagged in Hz. apply in_map_iff in Hz. destruct Hz as (c & <- & Hc).
  unfold pre. cbn [snd]. apply rk_le_before. unfold ms_before, tally, appearances, ranksum. cbn [fold_right fst snd occ rks].
  rewrite sx_eqb_refl. destruct (occ_notin x t Hx) as [-> ->]. destruct (occ_in c t Ht Hc) as [-> H2]. lia.
Qed.

Lemma firsts_single l : NoDup l -> firsts [l] = l.
Proof.
  intros H. unfold firsts. cbn [concat]. rewrite app_nil_r.
  assert (G : forall acc, NoDup (acc ++ l) -> fold_left add_first l acc = acc ++ l).
  { clear H. induction l as [|x t IH]; intros acc H; cbn [fold_left]; [rewrite app_nil_r; reflexivity|].
    unfold add_first at 2. destruct (existsb (sx_eqb x) acc) eqn:E.
    - apply existsb_sx in E. exfalso. apply NoDup_remove_2 in H. apply H. apply in_or_app. left. exact E.
    - rewrite IH; rewrite <- app_assoc; [reflexivity|exact H]. }
  apply (G []). exact H.
Qed.

Theorem merged_selections_single l : NoDup l -> merged_selections [l] = l.
Proof.
  intros H. rewrite merged_selections_defining, (firsts_single l H), (isort_id _ (single_sorted l H)).
  apply map_fst_tagged.
Qed.
