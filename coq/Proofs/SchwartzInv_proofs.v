(* Invariances of the Schwartz set (Model/Condorcet.v: schwartz_set):
   - the same members whatever the insertion order of the pairwise dictionary (C10);
   - commutes exactly with every injective renaming of the candidates (C10);
   - unchanged when every count is multiplied by the same positive integer (C11). *)
From Coq Require Import ZArith List Bool Arith Lia Permutation.
From VL Require Import Prelude.PyDict Model.GetNBest Model.Condorcet Proofs.Dict_proofs Proofs.Condorcet_proofs Proofs.Smith_proofs
  Proofs.RankedPairs_proofs Proofs.Schwartz_proofs Proofs.CondorcetOrder_proofs Proofs.HARename_proofs Proofs.Equivariant
  Proofs.CondorcetRename_proofs Proofs.Scale_proofs.
Import ListNotations.
Open Scope Z_scope.

(* ---------------------------------------------------------------- dictionary order *)
Theorem schwartz_perm v v' : NoDup (map fst v) -> (forall p n, In (p, n) v -> 0 <= n) -> Permutation v v' ->
  Permutation (schwartz_set v) (schwartz_set v').
Proof.
  intros Hnd Hnn Hp. pose proof (cands_perm v v' Hp) as Pc. pose proof (Permutation_length Pc) as Hlen.
  destruct (le_lt_dec 2 (length (candidates v))) as [H2|Hs].
  2:{ rewrite (schwartz_small v Hs), (schwartz_small v' ltac:(lia)). constructor. }
  assert (H2' : (2 <= length (candidates v'))%nat) by lia.
  pose proof (nn_perm v v' Hnn Hp) as Hnn'.
  assert (Hb : forall a b, beats v a b <-> beats v' a b).
  { intros a b. unfold beats. rewrite !(pget0_perm v v' Hnd Hp). reflexivity. }
  apply NoDup_Permutation; try apply schwartz_set_shape. intros x.
  rewrite (schwartz_in v Hnn H2 x), (schwartz_in v' Hnn' H2' x), (cands_in v v' Hp x).
  split; intros [Hx H]; (split; [exact Hx|]); intros o Ho.
  - apply (beatpath_ext v v' (fun a b => proj1 (Hb a b))). apply H. apply (beatpath_ext v' v (fun a b => proj2 (Hb a b))). exact Ho.
  - apply (beatpath_ext v' v (fun a b => proj2 (Hb a b))). apply H. apply (beatpath_ext v v' (fun a b => proj1 (Hb a b))). exact Ho.
Qed.

(* ---------------------------------------------------------------- renaming *)
Section REN.
  Variable f : C -> C.
  Hypothesis f_inj : forall a b, f a = f b -> a = b.

  Theorem schwartz_set_ren v : schwartz_set (renp f v) = map f (schwartz_set v).
  Proof.
    unfold schwartz_set. cbv zeta. rewrite (complete_ren f f_inj), !(pairwise_wins_ren f f_inj), (copeland_scores_ren f f_inj).
    rewrite sort_desc_renl, (renl_keys f).
    set (order := map fst (sort_desc zle_bool (copeland_scores (pairwise_wins (complete v) true)))).
    set (D := pairwise_wins (complete v) false).
    apply filter_map_eqv. intros c. apply forallb_map_eqv. intros o.
    rewrite !(is_path_ren f f_inj). reflexivity.
  Qed.
End REN.

(* ---------------------------------------------------------------- scaling *)
Theorem schwartz_set_scale (k : Z) v : 0 < k -> schwartz_set (scalez k v) = schwartz_set v.
Proof. intros Hk. unfold schwartz_set. rewrite (complete_scale k), !(pairwise_wins_scale k Hk). reflexivity. Qed.

(* ---------------------------------------------------------------- symmetric candidates *)
Theorem schwartz_symmetric (t : C -> C) : (forall c, t (t c) = c) -> forall v,
  NoDup (map fst v) -> Permutation v (renp t v) -> (forall p k, In (p, k) v -> 0 <= k) -> forall a,
  In a (schwartz_set v) <-> In (t a) (schwartz_set v).
Proof.
  intros t_inv v Hn Hp Hnn a.
  assert (t_inj : forall x y, t x = t y -> x = y) by (intros x y E; rewrite <- (t_inv x), <- (t_inv y), E; reflexivity).
  pose proof (schwartz_perm v (renp t v) Hn Hnn Hp) as P. rewrite (schwartz_set_ren t t_inj) in P.
  split; intros H.
  - apply (Permutation_in _ P) in H. apply in_map_iff in H. destruct H as (x & <- & Hx). rewrite t_inv. exact Hx.
  - apply (Permutation_in _ (Permutation_sym P)). apply in_map_iff. exists (t a). split; [apply t_inv|exact H].
Qed.
