(* AdjustedSeatCount(LevelOverhangByConstituency(ce, oe), e) inside a wrapper tree (Model/Wrappers.v: calc_level_byc over
   dynamic values) composed with Model/OverhangByC.v (bc_calculate over integer dictionaries, the subject of C15): whenever the
   constituency evaluator and the overall evaluator of the calculator answer with integer distributions, the wrapper-level
   calculator computes exactly the adjustment of Model/OverhangByC.v (keys: any result key incl. Ties, compared by key_eqb). *)
From Coq Require Import ZArith List Bool Lia.
From VL Require Prelude.PyDict Model.OverhangByC.
From VL Require Import Model.Wrappers Proofs.TieBreak_proofs Proofs.WrapParts_proofs Proofs.Wrappers_proofs.
Import ListNotations.
Open Scope Z_scope.

Notation kzd := (list (key * Z)).
Notation nestd := (list (OverhangByC.Cty * list (key * Z))).
Notation kget0 := (OverhangByC.kget0 key_eqb).
Notation kmem := (OverhangByC.kmem key_eqb).
Notation kadd := (OverhangByC.kadd key_eqb).

Definition of_kz (d : kzd) : dict := map (fun kz => (fst kz, VInt (snd kz))) d.
Definition of_nested (r : nestd) : dict := map (fun cr => (KC (fst cr), VDict (of_kz (snd cr)))) r.

Lemma dget_of_kz : forall (d : kzd) k,
  dget (of_kz d) k = match OverhangByC.kget key_eqb d k with Some z => Some (VInt z) | None => None end.
Proof.
  intros d k. induction d as [|[k0 z0] d IH]; [reflexivity|].
  simpl. rewrite (key_eqb_sym k k0). destruct (key_eqb k0 k); [reflexivity|exact IH].
Qed.
Lemma dget_or_of_kz : forall (d : kzd) k, dget_or (of_kz d) k (VInt 0) = VInt (kget0 d k).
Proof.
  intros d k. unfold dget_or, OverhangByC.kget0. rewrite dget_of_kz.
  destruct (OverhangByC.kget key_eqb d k); reflexivity.
Qed.
Lemma dmem_of_kz : forall (d : kzd) k, dmem (of_kz d) k = kmem d k.
Proof.
  intros d k. unfold dmem, OverhangByC.kmem. rewrite dget_of_kz.
  destruct (OverhangByC.kget key_eqb d k); reflexivity.
Qed.
Lemma dget_or_of_nested : forall (r : nestd) c,
  dget_or (of_nested r) (KC c) (VDict []) = VDict (of_kz (PyDict.dget_or r c [])).
Proof.
  intros r c. unfold dget_or, PyDict.dget_or. induction r as [|[c0 d0] r IH]; [reflexivity|].
  simpl. unfold PyDict.ceqb. rewrite (Pos.eqb_sym c c0). destruct (Pos.eqb c0 c); [reflexivity|exact IH].
Qed.

(* ------------------------------------------------------------------ VoteTotals over integer dictionaries = ktotals *)
Lemma dset_kadd : forall (d : kzd) k x, dset (of_kz d) k (VInt (kget0 d k + x)) = of_kz (kadd d k x).
Proof.
  intros d k x. induction d as [|[k0 z0] d IH].
  - simpl. reflexivity.
  - unfold OverhangByC.kget0 in *. simpl. rewrite (key_eqb_sym k k0). destruct (key_eqb k0 k); [reflexivity|].
    simpl. f_equal. exact IH.
Qed.

Lemma add_dict_kadd : forall (d2 d1 : kzd),
  add_dict (of_kz d1) (of_kz d2) = Ok (of_kz (OverhangByC.kadd_dict key_eqb d1 d2)).
Proof.
  intros d2. unfold add_dict, OverhangByC.kadd_dict.
  induction d2 as [|[k x] d2 IH]; intro d1; [reflexivity|].
  cbn [of_kz map fold_left rbind fst snd]. rewrite dget_or_of_kz. cbn [add_val rbind].
  rewrite dset_kadd. apply IH.
Qed.

Lemma totals_ktotals_from : forall (m : nestd) (acc : kzd),
  fold_left (fun a kv => a >>= fun a0 => as_dict (snd kv) >>= fun dv => add_dict a0 dv) (of_nested m) (Ok (of_kz acc))
  = Ok (of_kz (fold_left (OverhangByC.kadd_dict key_eqb) (map snd m) acc)).
Proof.
  induction m as [|[c d] m IH]; intro acc; [reflexivity|].
  cbn [of_nested map fold_left rbind snd as_dict]. rewrite add_dict_kadd. apply IH.
Qed.

Lemma totals_ktotals : forall (m : nestd),
  vote_totals (VDict (of_nested m)) = Ok (VDict (of_kz (OverhangByC.ktotals key_eqb (map snd m)))).
Proof.
  intro m. unfold vote_totals, OverhangByC.ktotals. cbn [as_dict rbind].
  pose proof (totals_ktotals_from m []) as H. cbn [of_kz map] in H. unfold dict in *. rewrite H. reflexivity.
Qed.

Section Bridge.
  Variable CE : val -> val -> res val.
  Variable OEv : val -> val -> val -> res val.
  Variable pv mx : val.
  Variable OEm : Z -> OverhangByC.eres kzd.
  Hypothesis HOE : forall h pr, OEm h = OverhangByC.Ok pr -> OEv pv (VInt h) mx = Ok (VDict (of_kz pr)).

  (* ---- the minima per constituency *)
  Lemma minima_bridge : forall (res prev : nestd),
    map_res (fun cr => as_dict (snd cr) >>= fun cps =>
                       map_res (fun ps => as_dict (VDict (of_nested prev)) >>= fun pd =>
                                           as_dict (dget_or pd (fst cr) (VDict [])) >>= fun pcd =>
                                           max_val (dget_or pcd (fst ps) (VInt 0)) (snd ps) >>= fun m => Ok (fst ps, m)) cps
                       >>= fun r => Ok (fst cr, VDict r)) (of_nested res)
    = Ok (of_nested (OverhangByC.cty_minima key_eqb res prev)).
  Proof.
    intros res prev. induction res as [|[c cps] res IH]; [reflexivity|].
    change (of_nested ((c, cps) :: res)) with ((KC c, VDict (of_kz cps)) :: of_nested res).
    cbn [map_res]. rewrite IH. cbv beta. cbn [snd fst].
    change (as_dict (VDict (of_kz cps))) with (Ok (of_kz cps)). cbn [rbind].
    assert (Hin : map_res (fun ps : key * val =>
                     as_dict (VDict (of_nested prev)) >>= fun pd =>
                     as_dict (dget_or pd (KC c) (VDict [])) >>= fun pcd =>
                     max_val (dget_or pcd (fst ps) (VInt 0)) (snd ps) >>= fun m => Ok (fst ps, m)) (of_kz cps)
                   = Ok (of_kz (map (fun ps => (fst ps, Z.max (kget0 (PyDict.dget_or prev c []) (fst ps)) (snd ps))) cps))).
    { clear IH. induction cps as [|[p s] cps IH2]; [reflexivity|].
      change (of_kz ((p, s) :: cps)) with ((p, VInt s) :: of_kz cps).
      cbn [map_res]. rewrite IH2. cbn [as_dict rbind fst snd]. rewrite dget_or_of_nested. cbn [as_dict rbind].
      rewrite dget_or_of_kz. unfold max_val. cbn [lt_val rbind map fst snd of_kz].
      replace (if kget0 (PyDict.dget_or prev c []) p <? s then VInt s else VInt (kget0 (PyDict.dget_or prev c []) p))
        with (VInt (Z.max (kget0 (PyDict.dget_or prev c []) p) s)); [reflexivity|].
      destruct (kget0 (PyDict.dget_or prev c []) p <? s) eqn:Hlt; [apply Z.ltb_lt in Hlt|apply Z.ltb_ge in Hlt]; f_equal; lia. }
    rewrite Hin. cbn [rbind]. reflexivity.
  Qed.

  (* ---- first round seats where the party gets no proportional seat *)
  Lemma unlisted_inner : forall (r gains low : kzd),
    fold_left (fun acc2 pg => acc2 >>= fun low0 =>
                 if dmem low0 (fst pg)
                 then as_dict (VDict (of_kz r)) >>= fun cpd =>
                      if dmem cpd (fst pg) then Ok low0
                      else add_val (dget_or low0 (fst pg) (VInt 0)) (snd pg) >>= fun x => Ok (dset low0 (fst pg) x)
                 else Ok low0) (of_kz gains) (Ok (of_kz low))
    = Ok (of_kz (fold_left (fun low0 pg => if kmem low0 (fst pg) && negb (kmem r (fst pg))
                                           then kadd low0 (fst pg) (snd pg) else low0) gains low)).
  Proof.
    intros r gains. induction gains as [|[p g] gains IH]; intro low; [reflexivity|].
    cbn [of_kz map fold_left rbind fst snd]. fold (of_kz gains). rewrite dmem_of_kz.
    destruct (kmem low p); cbn [andb]; [|apply IH].
    cbn [as_dict rbind]. rewrite dmem_of_kz. destruct (kmem r p); cbn [negb]; [apply IH|].
    rewrite dget_or_of_kz. cbn [add_val rbind]. rewrite dset_kadd. apply IH.
  Qed.

  Lemma unlisted_bridge : forall (res prev : nestd) (low : kzd),
    fold_left (fun acc cg => acc >>= fun low0 =>
                 let cps := dget_or (of_nested res) (fst cg) (VDict []) in
                 as_dict (snd cg) >>= fun gains =>
                 fold_left (fun acc2 pg => acc2 >>= fun low1 =>
                              if dmem low1 (fst pg)
                              then as_dict cps >>= fun cpd =>
                                   if dmem cpd (fst pg) then Ok low1
                                   else add_val (dget_or low1 (fst pg) (VInt 0)) (snd pg) >>= fun x => Ok (dset low1 (fst pg) x)
                              else Ok low1) gains (Ok low0)) (of_nested prev) (Ok (of_kz low))
    = Ok (of_kz (OverhangByC.add_unlisted key_eqb res prev low)).
  Proof.
    intros res prev. unfold OverhangByC.add_unlisted.
    induction prev as [|[c g] prev IH]; intro low; [reflexivity|].
    change (of_nested ((c, g) :: prev)) with ((KC c, VDict (of_kz g)) :: of_nested prev).
    cbn [fold_left rbind fst snd as_dict]. rewrite dget_or_of_nested. rewrite unlisted_inner. apply IH.
  Qed.

  (* ---- seats of parties that did not make the second round *)
  Lemma drop_inner : forall (low gains : kzd) d,
    fold_left (fun acc2 pg => acc2 >>= fun dr => if dmem (of_kz low) (fst pg) then Ok dr else add_val dr (snd pg))
              (of_kz gains) (Ok (VInt d))
    = Ok (VInt (fold_left (fun d0 pg => if kmem low (fst pg) then d0 else d0 + snd pg) gains d)).
  Proof.
    intros low gains. induction gains as [|[p g] gains IH]; intro d; [reflexivity|].
    cbn [of_kz map fold_left rbind fst snd]. fold (of_kz gains). rewrite dmem_of_kz.
    destruct (kmem low p); cbn [add_val rbind]; apply IH.
  Qed.

  Lemma drop_bridge : forall (low : kzd) (prev : nestd) d,
    fold_left (fun acc cg => acc >>= fun d0 =>
                 as_dict (snd cg) >>= fun gains =>
                 fold_left (fun acc2 pg => acc2 >>= fun dr =>
                              if dmem (of_kz low) (fst pg) then Ok dr else add_val dr (snd pg)) gains (Ok d0))
              (of_nested prev) (Ok (VInt d))
    = Ok (VInt (fold_left (fun d0 cg => fold_left (fun d1 pg => if kmem low (fst pg) then d1 else d1 + snd pg) (snd cg) d0) prev d)).
  Proof.
    intros low prev. induction prev as [|[c g] prev IH]; intro d; [reflexivity|].
    change (of_nested ((c, g) :: prev)) with ((KC c, VDict (of_kz g)) :: of_nested prev).
    cbn [fold_left rbind fst snd as_dict]. rewrite drop_inner. apply IH.
  Qed.

  (* ---- the levelling loop *)
  Lemma any_below_kz : forall (pr low : kzd),
    any_below (VDict (of_kz pr)) (of_kz low) = Ok (negb (OverhangByC.ksatisfied key_eqb low pr)).
  Proof.
    intros pr low. induction low as [|[p m] low IH]; [reflexivity|].
    cbn [of_kz map any_below fst snd as_dict rbind]. fold (of_kz low). fold (of_kz pr). rewrite dget_or_of_kz.
    cbn [lt_val rbind]. unfold OverhangByC.ksatisfied. cbn [forallb fst snd].
    destruct (kget0 pr p <? m); cbn [negb andb]; [reflexivity|exact IH].
  Qed.

  Lemma bc_loop_bridge : forall fuel (low : kzd) h pr r,
    OverhangByC.bc_loop key_eqb OEm fuel low h pr = OverhangByC.BC_ok r ->
    level_loop fuel (OEv pv) mx (of_kz low) (VInt h) (VDict (of_kz pr)) = Ok (VInt r).
  Proof.
    induction fuel as [|f IH]; intros low h pr r H; cbn [OverhangByC.bc_loop] in H; cbn [level_loop];
      rewrite any_below_kz; destruct (OverhangByC.ksatisfied key_eqb low pr); cbn [negb rbind].
    - inversion H; reflexivity.
    - discriminate H.
    - inversion H; reflexivity.
    - destruct (OEm (h + 1)) as [pr'| |] eqn:He; try discriminate H.
      cbn [add_val rbind]. rewrite (HOE (h + 1) pr' He). cbn [rbind]. apply IH. exact H.
  Qed.

  Theorem calc_level_byc_bridge : forall fuel n (res prev : nestd) a,
    CE (VInt n) mx = Ok (VDict (of_nested res)) ->
    OverhangByC.bc_calculate key_eqb OEm (OverhangByC.Ok res) fuel n prev = OverhangByC.BC_ok a ->
    calc_level_byc fuel CE (Ok pv) OEv (VInt n) (VDict (of_nested prev)) mx = Ok (VInt a).
  Proof.
    intros fuel n res prev a HCE H. unfold OverhangByC.bc_calculate in H.
    set (low := OverhangByC.lowest_allowed key_eqb res prev) in *.
    set (drop := OverhangByC.nonprop_drop key_eqb low prev) in *.
    destruct (OEm (n - drop)) as [pr| |] eqn:He; try discriminate H.
    destruct (OverhangByC.bc_loop key_eqb OEm fuel low (n - drop) pr) as [h| | |] eqn:Hl; try discriminate H.
    inversion H; subst a.
    unfold calc_level_byc. rewrite HCE. cbn [rbind].
    change (as_dict (VDict (of_nested res))) with (Ok (of_nested res)). cbn [rbind].
    rewrite (minima_bridge res prev). cbn [rbind].
    rewrite totals_ktotals. cbn [rbind as_dict].
    change (as_dict (VDict (of_nested prev))) with (Ok (of_nested prev)). cbn [rbind].
    rewrite (unlisted_bridge res prev). cbn [rbind].
    fold (OverhangByC.lowest0 key_eqb res prev). fold (OverhangByC.lowest_allowed key_eqb res prev). fold low.
    rewrite (drop_bridge low prev 0). cbn [rbind sub_val].
    fold (OverhangByC.nonprop_drop key_eqb low prev). fold drop.
    rewrite (HOE (n - drop) pr He). cbn [rbind].
    rewrite (bc_loop_bridge fuel low (n - drop) pr h Hl). cbn [rbind add_val sub_val]. reflexivity.
  Qed.
End Bridge.

(* ------------------------------------------------------------------ inside a wrapper tree *)
Section Tree.
  Variable leaf : positive -> val -> list (option val) -> res val.
  Variable conv : positive -> val -> res val.
  Notation RS := (run_spec leaf conv).

  (* AdjustedSeatCount(LevelOverhangByConstituency(ce, oe), e): e evaluated with n + the adjustment of Model/OverhangByC.v *)
  Theorem adjusted_levelc_tree : forall ce oe e fuel votes nat n (res prev : nestd) mx OEm a,
    totals_s votes = Ok nat ->
    RS ce votes (KW (Some (VInt n)) None (Some mx) None None None) = Ok (VDict (of_nested res)) ->
    (forall h pr, OEm h = OverhangByC.Ok pr ->
                  RS oe nat (KW (Some (VInt h)) None (Some mx) None None None) = Ok (VDict (of_kz pr))) ->
    OverhangByC.bc_calculate key_eqb OEm (OverhangByC.Ok res) fuel n prev = OverhangByC.BC_ok a ->
    RS (AdjLevelC ce oe e fuel) votes (sa_npm (VInt n) (VDict (of_nested prev)) mx)
    = RS e votes (sa_npm (VInt (n + a)) (VDict (of_nested prev)) mx).
  Proof.
    intros ce oe e fuel votes nat n res prev mx OEm a Hnat HCE HOE Hbc.
    cbn [run_spec]. unfold sa_npm. rewrite accept_adj. cbn [rbind]. cbn [sa_get nget kget b_named odef].
    rewrite Hnat.
    rewrite (calc_level_byc_bridge _ (fun pv0 h mx0 => RS oe pv0 (KW (Some h) None (Some mx0) None None None))
               nat mx OEm HOE fuel n res prev a HCE Hbc).
    reflexivity.
  Qed.
End Tree.
