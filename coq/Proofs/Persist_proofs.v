(* C19 - lemmas about Model/Persist.v *)
From Coq Require Import ZArith List Bool Lia.
From VL Require Import Model.Persist.
Import ListNotations.
Open Scope Z_scope.

(* ---------------------------------------------------------------- nested induction on pval *)
Section PvalInd.
  Variable P : pval -> Prop.
  Hypothesis HNone : P PNone.
  Hypothesis HBool : forall b, P (PBool b).
  Hypothesis HInt : forall z, P (PInt z).
  Hypothesis HFloat : forall i, P (PFloat i).
  Hypothesis HStr : forall s, P (PStr s).
  Hypothesis HFrac : forall n d, P (PFrac n d).
  Hypothesis HDec : forall s, P (PDec s).
  Hypothesis HTuple : forall l, Forall P l -> P (PTuple l).
  Hypothesis HFrozenset : forall l, Forall P l -> P (PFrozenset l).
  Hypothesis HList : forall l, Forall P l -> P (PList l).
  Hypothesis HSet : forall l, Forall P l -> P (PSet l).
  Hypothesis HDict : forall d, Forall (fun kv => P (fst kv) /\ P (snd kv)) d -> P (PDict d).
  Hypothesis HObj : forall c ps, Forall (fun kv => P (snd kv)) ps -> P (PObj c ps).
  Hypothesis HCallable : forall n, P (PCallable n).
  Hypothesis HOpaque : forall i, P (POpaque i).

  Fixpoint pval_nested_ind (v : pval) : P v :=
    let fix go (l : list pval) : Forall P l :=
        match l with
        | [] => Forall_nil _
        | x :: t => Forall_cons _ (pval_nested_ind x) (go t)
        end in
    match v with
    | PNone => HNone
    | PBool b => HBool b
    | PInt z => HInt z
    | PFloat i => HFloat i
    | PStr s => HStr s
    | PFrac n d => HFrac n d
    | PDec s => HDec s
    | PTuple l => HTuple l (go l)
    | PFrozenset l => HFrozenset l (go l)
    | PList l => HList l (go l)
    | PSet l => HSet l (go l)
    | PDict d =>
        HDict d ((fix god (l : list (pval * pval)) : Forall (fun kv => P (fst kv) /\ P (snd kv)) l :=
                    match l with
                    | [] => Forall_nil _
                    | (k, x) :: t => @Forall_cons _ (fun kv => P (fst kv) /\ P (snd kv)) (k, x) t
                                        (conj (pval_nested_ind k) (pval_nested_ind x)) (god t)
                    end) d)
    | PObj c ps =>
        HObj c ps ((fix goo (l : list (str * pval)) : Forall (fun kv => P (snd kv)) l :=
                      match l with
                      | [] => Forall_nil _
                      | (k, x) :: t => @Forall_cons _ (fun kv => P (snd kv)) (k, x) t (pval_nested_ind x) (goo t)
                      end) ps)
    | PCallable n => HCallable n
    | POpaque i => HOpaque i
    end.
End PvalInd.

(* ---------------------------------------------------------------- strings *)
Lemma str_eqb_refl : forall s, str_eqb s s = true.
Proof. induction s as [|c s IH]; simpl; [reflexivity|]. rewrite Z.eqb_refl. exact IH. Qed.

Lemma str_eqb_eq : forall a b, str_eqb a b = true -> a = b.
Proof.
  induction a as [|x a IH]; destruct b as [|y b]; simpl; intros H; try discriminate; [reflexivity|].
  apply andb_true_iff in H. destruct H as [H1 H2]. apply Z.eqb_eq in H1. subst. f_equal. apply IH. exact H2.
Qed.

(* ---------------------------------------------------------------- association-list facts *)
Section AssocFacts.
  Context {K V : Type}.
  Variable eqb : K -> K -> bool.

  Lemma aset_fresh : forall (acc : list (K * V)) k v,
    memb eqb k (map fst acc) = false -> aset eqb acc k v = acc ++ [(k, v)].
  Proof.
    induction acc as [|[k' v'] acc IH]; intros k v H; simpl in *; [reflexivity|].
    apply orb_false_iff in H. destruct H as [H1 H2]. rewrite H1. f_equal. apply IH. exact H2.
  Qed.

  Lemma of_pairs_acc : forall (l acc : list (K * V)),
    nodup_acc eqb (map fst acc) (map fst l) = true ->
    fold_left (fun a kv => aset eqb a (fst kv) (snd kv)) l acc = acc ++ l.
  Proof.
    induction l as [|[k v] l IH]; intros acc H; simpl in *; [now rewrite app_nil_r|].
    apply andb_true_iff in H. destruct H as [H1 H2]. apply negb_true_iff in H1.
    rewrite (aset_fresh acc k v H1). rewrite IH.
    - rewrite <- app_assoc. reflexivity.
    - rewrite map_app. simpl. exact H2.
  Qed.

  Lemma of_pairs_nodup : forall (l : list (K * V)),
    nodupb eqb (map fst l) = true -> of_pairs eqb l = l.
  Proof. intros l H. unfold of_pairs. rewrite of_pairs_acc; [reflexivity|exact H]. Qed.

  Lemma dedupe_acc_nodup : forall (l acc : list K),
    nodup_acc eqb acc l = true -> dedupe_acc eqb acc l = acc ++ l.
  Proof.
    induction l as [|x l IH]; intros acc H; simpl in *; [now rewrite app_nil_r|].
    apply andb_true_iff in H. destruct H as [H1 H2]. apply negb_true_iff in H1. rewrite H1.
    rewrite IH by exact H2. rewrite <- app_assoc. reflexivity.
  Qed.

  Lemma dedupe_nodup : forall l : list K, nodupb eqb l = true -> dedupe eqb l = l.
  Proof. intros l H. unfold dedupe. rewrite dedupe_acc_nodup; [reflexivity|exact H]. Qed.
End AssocFacts.

Lemma combine_fst_snd : forall {X Y} (d : list (X * Y)), combine (map fst d) (map snd d) = d.
Proof. induction d as [|[a b] d IH]; simpl; [reflexivity|]. now rewrite IH. Qed.

(* pval_eqb is reflexive: the duplicate test really excludes structural duplicates *)
Lemma pval_eqb_refl : forall v, pval_eqb v v = true.
Proof.
  induction v using pval_nested_ind; simpl;
    try reflexivity; try apply Z.eqb_refl; try apply str_eqb_refl.
  - destruct b; reflexivity.
  - rewrite Z.eqb_refl, Pos.eqb_refl. reflexivity.
  - induction H as [|x l Hx Hl IH]; [reflexivity|]. rewrite Hx. exact IH.
  - induction H as [|x l Hx Hl IH]; [reflexivity|]. rewrite Hx. exact IH.
  - induction H as [|x l Hx Hl IH]; [reflexivity|]. rewrite Hx. exact IH.
  - induction H as [|x l Hx Hl IH]; [reflexivity|]. rewrite Hx. exact IH.
  - induction H as [|[k x] l [Hk Hx] Hl IH]; [reflexivity|]. simpl in Hk, Hx. rewrite Hk, Hx. exact IH.
  - rewrite str_eqb_refl. simpl.
    induction H as [|[k x] l Hx Hl IH]; [reflexivity|]. simpl in Hx. rewrite str_eqb_refl, Hx. exact IH.
Qed.

(* ---------------------------------------------------------------- computing deser on the emitted shapes *)
Section RT.
  Variable E : env.

  Definition rt (v : pval) : Prop := forall tup, exists j, ser tup v = SOk j /\ deser E j = DOk v.

  Lemma deser_dict : forall d, deser E (JDict d) = interp E d (map (child_of E) d).
  Proof. reflexivity. Qed.

  Lemma deser_typed_seq_tuple : forall js vs, collect_d (map (deser E) js) = inl vs ->
    deser E (JDict [(s_type, JStr s_tuple); (s_value, JList false js)]) = DOk (PTuple vs).
  Proof. intros js vs H. rewrite deser_dict. cbn. rewrite H. reflexivity. Qed.

  Lemma deser_typed_seq_frozenset : forall js vs, collect_d (map (deser E) js) = inl vs ->
    deser E (JDict [(s_type, JStr s_frozenset); (s_value, JList false js)]) =
    if forallb hashable vs then DOk (PFrozenset (dedupe pval_eqb vs)) else DErr E_TYPE.
  Proof. intros js vs H. rewrite deser_dict. cbn. rewrite H. reflexivity. Qed.

  Lemma deser_typed_dict : forall ks vs kk vv,
    collect_d (map (deser E) ks) = inl kk -> collect_d (map (deser E) vs) = inl vv ->
    deser E (JDict [(s_type, JStr s_dict); (s_keys, JList false ks); (s_values, JList false vs)]) =
    if forallb hashable (map fst (combine kk vv))
    then DOk (PDict (of_pairs pval_eqb (combine kk vv))) else DErr E_TYPE.
  Proof. intros ks vs kk vv H1 H2. rewrite deser_dict. cbn. rewrite H1, H2. reflexivity. Qed.

  Lemma deser_frac : forall tup n d,
    deser E (JDict [(s_type, JStr s_Fraction); (s_arguments, JList tup [JInt n; JInt (Zpos d)])]) =
    DOk (mk_frac n (Zpos d)).
  Proof. intros tup n d. rewrite deser_dict. destruct tup; cbn; reflexivity. Qed.

  Lemma deser_dec : forall s,
    deser E (JDict [(s_type, JStr s_Decimal); (s_value, JStr s)]) =
    match dec_canon E s with Some s' => DOk (PDec s') | None => DErr E_OTHER end.
  Proof. intros s. rewrite deser_dict. cbn. reflexivity. Qed.

  Lemma deser_callable : forall n, is_scoped_identifier E n = true ->
    deser E (JDict [(s_callable, JStr n)]) =
    if callable_resolves E n then DOk (PCallable n) else DErr E_ATTR.
  Proof.
    intros n H. rewrite deser_dict. unfold interp, sniff. cbn [aget map str_eqb s_type s_class s_callable Z.eqb Pos.eqb andb].
    cbn. rewrite H. reflexivity.
  Qed.

  Lemma mk_frac_reduced : forall n d, Z.gcd n (Zpos d) = 1 -> mk_frac n (Zpos d) = PFrac n d.
  Proof.
    intros n d H. unfold mk_frac. rewrite H. simpl Z.sgn. rewrite Z.mul_1_l, !Z.div_1_r. reflexivity.
  Qed.

  (* ------------------------------------------------------------ lists of values *)
  Lemma rt_list : forall tup l,
    Forall (fun x => representable E x = true -> rt x) l ->
    forallb (representable E) l = true ->
    exists js, collect (map (ser tup) l) = Some js /\ collect_d (map (deser E) js) = inl l.
  Proof.
    intros tup l HF. induction HF as [|x l Hx HF IH]; intros Hr; simpl in *.
    - exists []. split; reflexivity.
    - apply andb_true_iff in Hr. destruct Hr as [Hr1 Hr2].
      destruct (Hx Hr1 tup) as [j [Hs Hd]]. destruct (IH Hr2) as [js [Hc Hcd]].
      exists (j :: js). rewrite Hs, Hc. split; [reflexivity|]. simpl. rewrite Hd, Hcd. reflexivity.
  Qed.

  (* serialisation yields a JSON string only for a string *)
  Lemma ser_str_inv : forall tup x s, ser tup x = SOk (JStr s) -> x = PStr s.
  Proof.
    intros tup x s H. destruct x; simpl in H; try discriminate.
    - inversion H. reflexivity.
    - destruct (collect (map (ser tup) l)); discriminate.
    - destruct (collect (map (ser tup) l)); discriminate.
    - destruct (collect (map (ser tup) l)); discriminate.
    - destruct (collect (map (ser tup) l)); discriminate.
    - destruct (str_keys d).
      + destruct (collect _); discriminate.
      + destruct (collect _); [destruct (collect _)|]; discriminate.
    - destruct (collect _); discriminate.
  Qed.

  (* ------------------------------------------------------------ str-keyed parameter lists *)
  Lemma rt_params : forall tup (ps : list (str * pval)),
    Forall (fun kv => representable E (snd kv) = true -> rt (snd kv)) ps ->
    forallb (fun kv => match kv with (_, x) => representable E x end) ps = true ->
    exists js,
      collect (map (fun kv => match kv with (_, x) => ser tup x end) ps) = Some js /\
      collect_params (map (child_of E) (combine (map fst ps) js)) = inl ps /\
      map fst (map (child_of E) (combine (map fst ps) js)) = map fst ps /\
      (forall k, sniff E (combine (map fst ps) js) k = psniff E ps k).
  Proof.
    intros tup ps HF. induction HF as [|[k x] ps Hx HF IH]; intros Hr; simpl in *.
    - exists []. repeat split; reflexivity.
    - apply andb_true_iff in Hr. destruct Hr as [Hr1 Hr2].
      destruct (Hx Hr1 tup) as [j [Hs Hd]]. destruct (IH Hr2) as [js [Hc [Hcp [Hfst Hsn]]]].
      exists (j :: js). rewrite Hs, Hc. split; [reflexivity|]. split; [|split].
      + simpl. rewrite Hd, Hcp. reflexivity.
      + simpl. rewrite Hfst. reflexivity.
      + intros k0. unfold sniff, psniff. simpl. destruct (str_eqb k0 k).
        * assert (Hj : forall s, j = JStr s -> x = PStr s).
          { intros s Ej. subst j. eapply ser_str_inv. exact Hs. }
          destruct x eqn:Ex;
            try (destruct j; try reflexivity; specialize (Hj _ eq_refl); discriminate).
          simpl in Hs. inversion Hs. reflexivity.
        * apply Hsn.
  Qed.

  Lemma sniff_cons_ne : forall k k' j d, str_eqb k k' = false -> sniff E ((k', j) :: d) k = sniff E d k.
  Proof. intros k k' j d H. unfold sniff. simpl. rewrite H. reflexivity. Qed.

  Lemma filter_noclass : forall (l : list (str * child)),
    memb str_eqb s_class (map fst l) = false ->
    filter (fun kr => negb (str_eqb s_class (fst kr))) l = l.
  Proof.
    induction l as [|[k r] l IH]; intros H; [reflexivity|]. unfold memb in *. simpl in *.
    apply orb_false_iff in H. destruct H as [H1 H2]. rewrite H1. simpl. f_equal. apply IH. exact H2.
  Qed.

  Lemma str_keys_spec : forall d sd, str_keys d = Some sd ->
    d = map (fun kv => (PStr (fst kv), snd kv)) sd.
  Proof.
    induction d as [|[k x] d IH]; intros sd H; simpl in H.
    - inversion H. reflexivity.
    - destruct k; try discriminate. destruct (str_keys d) as [r|]; [|discriminate].
      inversion H. subst sd. simpl. f_equal. apply IH. reflexivity.
  Qed.

  Lemma negb_orb3 : forall a b c, negb (a || b || c) = true -> a = false /\ b = false /\ c = false.
  Proof. intros [] [] []; simpl; intros H; try discriminate; repeat split. Qed.

  (* ------------------------------------------------------------ the round trip *)
  Theorem roundtrip : forall v, representable E v = true -> rt v.
  Proof.
    induction v using pval_nested_ind; intros Hr tup; simpl in Hr; try discriminate.
    - eexists. split; reflexivity.
    - eexists. split; reflexivity.
    - eexists. split; reflexivity.
    - eexists. split; reflexivity.
    - eexists. split; reflexivity.
    - (* Fraction *)
      apply Z.eqb_eq in Hr. eexists. split; [reflexivity|]. rewrite deser_frac. f_equal. apply mk_frac_reduced. exact Hr.
    - (* Decimal *)
      destruct (dec_canon E s) as [s'|] eqn:Hc; [|discriminate]. apply str_eqb_eq in Hr. subst s'.
      eexists. split; [reflexivity|]. rewrite deser_dec, Hc. reflexivity.
    - (* tuple *)
      destruct (rt_list tup l H Hr) as [js [Hc Hd]]. simpl. rewrite Hc. eexists. split; [reflexivity|].
      apply deser_typed_seq_tuple. exact Hd.
    - (* frozenset *)
      apply andb_true_iff in Hr. destruct Hr as [Hr Hnd]. apply andb_true_iff in Hr. destruct Hr as [Hr Hh].
      destruct (rt_list tup l H Hr) as [js [Hc Hd]]. simpl. rewrite Hc. eexists. split; [reflexivity|].
      rewrite (deser_typed_seq_frozenset js l Hd), Hh, dedupe_nodup by exact Hnd. reflexivity.
    - (* list *)
      destruct (rt_list tup l H Hr) as [js [Hc Hd]]. simpl. rewrite Hc. eexists. split; [reflexivity|].
      simpl. rewrite Hd. reflexivity.
    - (* dict *)
      apply andb_true_iff in Hr. destruct Hr as [Hr Hres]. apply andb_true_iff in Hr. destruct Hr as [Hr Hnd].
      apply andb_true_iff in Hr. destruct Hr as [Hr Hh].
      destruct (str_keys d) as [sd|] eqn:Hsk.
      + (* all keys are strings *)
        pose proof (str_keys_spec d sd Hsk) as Hd. subst d.
        assert (HF : Forall (fun kv => representable E (snd kv) = true -> rt (snd kv)) sd).
        { clear - H. induction sd as [|[k x] sd IH]; constructor.
          - inversion H; subst. simpl in *. tauto.
          - apply IH. inversion H; subst. assumption. }
        assert (Hrs : forallb (fun kv : str * pval => let (_, x) := kv in representable E x) sd = true).
        { clear - Hr. induction sd as [|[k x] sd IH]; [reflexivity|]. simpl in *.
          apply andb_true_iff in Hr. destruct Hr as [Hr1 Hr2]. rewrite (IH Hr2). rewrite Hr1. reflexivity. }
        destruct (rt_params tup sd HF Hrs) as [js [Hc [Hcp [Hfst Hsn]]]].
        simpl. rewrite Hsk.
        assert (Hm : map (fun kv : pval * pval => let (_, x) := kv in ser tup x)
                         (map (fun kv : str * pval => (PStr (fst kv), snd kv)) sd)
                     = map (fun kv : str * pval => let (_, x) := kv in ser tup x) sd).
        { rewrite map_map. apply map_ext. intros [k x]. reflexivity. }
        rewrite Hm, Hc. eexists. split; [reflexivity|].
        rewrite deser_dict. unfold interp. rewrite !Hsn.
        apply negb_orb3 in Hres. destruct Hres as [H1 [H2 H3]]. rewrite H1, H2, H3.
        unfold plain. rewrite Hcp. reflexivity.
      + (* some key is not a string: the typed form *)
        assert (HFk : Forall (fun x => representable E x = true -> rt x) (map fst d)).
        { clear - H. induction H as [|[k x] d [Hk Hx] HF IH]; simpl; constructor; assumption. }
        assert (HFv : Forall (fun x => representable E x = true -> rt x) (map snd d)).
        { clear - H. induction H as [|[k x] d [Hk Hx] HF IH]; simpl; constructor; assumption. }
        assert (Hrk : forallb (representable E) (map fst d) = true).
        { clear - Hr. induction d as [|[k x] d IH]; [reflexivity|]. simpl in *.
          apply andb_true_iff in Hr. destruct Hr as [Hr1 Hr2]. apply andb_true_iff in Hr1. destruct Hr1 as [Ha Hb].
          rewrite Ha. apply IH. exact Hr2. }
        assert (Hrv : forallb (representable E) (map snd d) = true).
        { clear - Hr. induction d as [|[k x] d IH]; [reflexivity|]. simpl in *.
          apply andb_true_iff in Hr. destruct Hr as [Hr1 Hr2]. apply andb_true_iff in Hr1. destruct Hr1 as [Ha Hb].
          rewrite Hb. apply IH. exact Hr2. }
        destruct (rt_list tup _ HFk Hrk) as [ks [Hck Hdk]].
        destruct (rt_list tup _ HFv Hrv) as [vs [Hcv Hdv]].
        simpl. rewrite Hsk.
        assert (Hmk : map (fun kv : pval * pval => let (k, _) := kv in ser tup k) d = map (ser tup) (map fst d)).
        { rewrite map_map. apply map_ext. intros [k x]. reflexivity. }
        assert (Hmv : map (fun kv : pval * pval => let (_, x) := kv in ser tup x) d = map (ser tup) (map snd d)).
        { rewrite map_map. apply map_ext. intros [k x]. reflexivity. }
        rewrite Hmk, Hmv, Hck, Hcv. eexists. split; [reflexivity|].
        rewrite (deser_typed_dict ks vs _ _ Hdk Hdv). rewrite combine_fst_snd, Hh.
        rewrite of_pairs_nodup by exact Hnd. reflexivity.
    - (* object *)
      apply andb_true_iff in Hr. destruct Hr as [Hr Hty]. apply andb_true_iff in Hr. destruct Hr as [Hr Hcl].
      apply andb_true_iff in Hr. destruct Hr as [Hr Hacc]. apply andb_true_iff in Hr. destruct Hr as [Hr Hex].
      apply andb_true_iff in Hr. destruct Hr as [Hr Hid].
      apply negb_true_iff in Hty. apply negb_true_iff in Hcl.
      destruct (rt_params tup ps H Hr) as [js [Hc [Hcp [Hfst Hsn]]]].
      simpl. rewrite Hc. eexists. split; [reflexivity|].
      rewrite deser_dict. unfold interp.
      rewrite (sniff_cons_ne s_type s_class) by reflexivity. rewrite Hsn, Hty.
      assert (Hs2 : sniff E ((s_class, JStr c) :: combine (map fst ps) js) s_class = true).
      { unfold sniff. simpl. exact Hid. }
      rewrite Hs2. unfold klass. simpl aget. cbv iota beta. rewrite Hex.
      cbn [map child_of filter fst str_eqb s_class Z.eqb Pos.eqb andb negb].
      rewrite filter_noclass by (rewrite Hfst; exact Hcl).
      rewrite Hcp, Hacc. reflexivity.
    - (* callable *)
      apply andb_true_iff in Hr. destruct Hr as [Hid Hres].
      eexists. split; [reflexivity|]. rewrite deser_callable by exact Hid. rewrite Hres. reflexivity.
  Qed.
End RT.

(* ---------------------------------------------------------------- JSON text in between *)
Lemma collect_json_rt : forall (l : list pval) tup js,
  Forall (fun x => forall tup j, ser tup x = SOk j -> ser false x = SOk (json_rt j)) l ->
  collect (map (ser tup) l) = Some js ->
  collect (map (ser false) l) = Some (map json_rt js).
Proof.
  induction l as [|x l IH]; intros tup js HF Hc; simpl in *.
  - inversion Hc. reflexivity.
  - inversion HF as [|? ? Hx HF']; subst.
    destruct (ser tup x) as [j|] eqn:Hs; [|discriminate].
    destruct (collect (map (ser tup) l)) as [js'|] eqn:Hc'; [|discriminate].
    inversion Hc; subst. rewrite (Hx tup j Hs). rewrite (IH tup js' HF' Hc'). reflexivity.
Qed.

Lemma map_json_rt_combine : forall (ks : list str) (js : list jval),
  map (fun kv : str * jval => let (k, x) := kv in (k, json_rt x)) (combine ks js) = combine ks (map json_rt js).
Proof.
  induction ks as [|k ks IH]; intros [|j js]; simpl; try reflexivity. now rewrite IH.
Qed.

Lemma json_rt_ser : forall v tup j, ser tup v = SOk j -> ser false v = SOk (json_rt j).
Proof.
  induction v using pval_nested_ind; intros tup j Hs; simpl in Hs; try (inversion Hs; reflexivity).
  - destruct (collect (map (ser tup) l)) as [js|] eqn:Hc; [|discriminate]. inversion Hs; subst.
    simpl. rewrite (collect_json_rt l tup js H Hc). reflexivity.
  - destruct (collect (map (ser tup) l)) as [js|] eqn:Hc; [|discriminate]. inversion Hs; subst.
    simpl. rewrite (collect_json_rt l tup js H Hc). reflexivity.
  - destruct (collect (map (ser tup) l)) as [js|] eqn:Hc; [|discriminate]. inversion Hs; subst.
    simpl. rewrite (collect_json_rt l tup js H Hc). reflexivity.
  - destruct (collect (map (ser tup) l)) as [js|] eqn:Hc; [|discriminate]. inversion Hs; subst.
    simpl. rewrite (collect_json_rt l tup js H Hc). reflexivity.
  - (* dict *)
    assert (HFk : Forall (fun x => forall tup j, ser tup x = SOk j -> ser false x = SOk (json_rt j)) (map fst d)).
    { clear - H. induction H as [|[k x] d [Hk Hx] HF IH]; simpl; constructor; auto. }
    assert (HFv : Forall (fun x => forall tup j, ser tup x = SOk j -> ser false x = SOk (json_rt j)) (map snd d)).
    { clear - H. induction H as [|[k x] d [Hk Hx] HF IH]; simpl; constructor; auto. }
    assert (Hmk : forall t, map (fun kv : pval * pval => let (k, _) := kv in ser t k) d = map (ser t) (map fst d)).
    { intros t. rewrite map_map. apply map_ext. intros [k x]. reflexivity. }
    assert (Hmv : forall t, map (fun kv : pval * pval => let (_, x) := kv in ser t x) d = map (ser t) (map snd d)).
    { intros t. rewrite map_map. apply map_ext. intros [k x]. reflexivity. }
    simpl. rewrite !Hmk, !Hmv in *. destruct (str_keys d) as [sd|].
    + destruct (collect (map (ser tup) (map snd d))) as [js|] eqn:Hc; [|discriminate]. inversion Hs; subst.
      rewrite (collect_json_rt _ tup js HFv Hc). simpl. rewrite map_json_rt_combine. reflexivity.
    + destruct (collect (map (ser tup) (map fst d))) as [ks|] eqn:Hck; [|discriminate].
      destruct (collect (map (ser tup) (map snd d))) as [vs|] eqn:Hcv; [|discriminate]. inversion Hs; subst.
      rewrite (collect_json_rt _ tup ks HFk Hck), (collect_json_rt _ tup vs HFv Hcv). reflexivity.
  - (* object *)
    assert (HFv : Forall (fun x => forall tup j, ser tup x = SOk j -> ser false x = SOk (json_rt j)) (map snd ps)).
    { clear - H. induction H as [|[k x] d Hx HF IH]; simpl; constructor; auto. }
    assert (Hmv : forall t, map (fun kv : str * pval => let (_, x) := kv in ser t x) ps = map (ser t) (map snd ps)).
    { intros t. rewrite map_map. apply map_ext. intros [k x]. reflexivity. }
    simpl. rewrite !Hmv in *.
    destruct (collect (map (ser tup) (map snd ps))) as [js|] eqn:Hc; [|discriminate]. inversion Hs; subst.
    rewrite (collect_json_rt _ tup js HFv Hc). simpl. rewrite map_json_rt_combine. reflexivity.
Qed.

Theorem roundtrip_json_pinned : forall E v, representable E v = true ->
  exists j, serialize_value_pinned v = SOk j /\ deser E j = DOk v /\ deser E (json_rt j) = DOk v.
Proof.
  intros E v Hr. destruct (roundtrip E v Hr true) as [j [Hs Hd]].
  exists j. split; [exact Hs|]. split; [exact Hd|].
  destruct (roundtrip E v Hr false) as [j' [Hs' Hd']].
  pose proof (json_rt_ser v true j Hs) as Hj. rewrite Hs' in Hj. inversion Hj; subst. exact Hd'.
Qed.

(* ---------------------------------------------------------------- when saving is refused *)
Lemma collect_none_iff : forall {X} (f : X -> sres) (g : X -> bool) l,
  Forall (fun x => f x = SErr <-> g x = true) l ->
  (collect (map f l) = None <-> existsb g l = true).
Proof.
  intros X f g l HF. induction HF as [|x l Hx HF IH]; simpl.
  - split; discriminate.
  - destruct (f x) as [j|] eqn:Hf.
    + assert (Hg : g x = false).
      { destruct (g x) eqn:Hg; [|reflexivity]. destruct Hx as [_ Hx]. specialize (Hx eq_refl). discriminate. }
      rewrite Hg. simpl. destruct (collect (map f l)) as [js|].
      * split; intros H0; [discriminate|]. apply IH in H0. discriminate.
      * split; intros _; [apply IH; reflexivity | reflexivity].
    + destruct Hx as [Hx _]. rewrite (Hx eq_refl). simpl. split; reflexivity.
Qed.

Lemma existsb_pair : forall (g : pval -> bool) (d : list (pval * pval)),
  existsb (fun kv => match kv with (k, x) => g k || g x end) d = existsb g (map fst d) || existsb g (map snd d).
Proof.
  induction d as [|[k x] d IH]; simpl; [reflexivity|]. rewrite IH.
  destruct (g k), (g x), (existsb g (map fst d)), (existsb g (map snd d)); reflexivity.
Qed.

Lemma str_keys_no_opaque : forall d sd, str_keys d = Some sd -> existsb has_opaque (map fst d) = false.
Proof.
  induction d as [|[k x] d IH]; intros sd H; simpl in *; [reflexivity|].
  destruct k; try discriminate. destruct (str_keys d) as [r|]; [|discriminate]. simpl. eapply IH. reflexivity.
Qed.

Theorem ser_refuses_iff : forall v tup, ser tup v = SErr <-> has_opaque v = true.
Proof.
  induction v using pval_nested_ind; intros tup; simpl; try (split; discriminate).
  - pose proof (collect_none_iff (ser tup) has_opaque l) as C.
    destruct (collect (map (ser tup) l)); rewrite <- C by (eapply Forall_impl; [|exact H]; intros a Ha; apply Ha);
      split; intros; try discriminate; reflexivity.
  - pose proof (collect_none_iff (ser tup) has_opaque l) as C.
    destruct (collect (map (ser tup) l)); rewrite <- C by (eapply Forall_impl; [|exact H]; intros a Ha; apply Ha);
      split; intros; try discriminate; reflexivity.
  - pose proof (collect_none_iff (ser tup) has_opaque l) as C.
    destruct (collect (map (ser tup) l)); rewrite <- C by (eapply Forall_impl; [|exact H]; intros a Ha; apply Ha);
      split; intros; try discriminate; reflexivity.
  - pose proof (collect_none_iff (ser tup) has_opaque l) as C.
    destruct (collect (map (ser tup) l)); rewrite <- C by (eapply Forall_impl; [|exact H]; intros a Ha; apply Ha);
      split; intros; try discriminate; reflexivity.
  - (* dict *)
    assert (HFk : Forall (fun x => ser tup x = SErr <-> has_opaque x = true) (map fst d)).
    { clear - H. induction H as [|[k x] d [Hk Hx] HF IH]; simpl; constructor; auto. }
    assert (HFv : Forall (fun x => ser tup x = SErr <-> has_opaque x = true) (map snd d)).
    { clear - H. induction H as [|[k x] d [Hk Hx] HF IH]; simpl; constructor; auto. }
    assert (Hmk : map (fun kv : pval * pval => let (k, _) := kv in ser tup k) d = map (ser tup) (map fst d)).
    { rewrite map_map. apply map_ext. intros [k x]. reflexivity. }
    assert (Hmv : map (fun kv : pval * pval => let (_, x) := kv in ser tup x) d = map (ser tup) (map snd d)).
    { rewrite map_map. apply map_ext. intros [k x]. reflexivity. }
    rewrite Hmk, Hmv, existsb_pair.
    pose proof (collect_none_iff (ser tup) has_opaque _ HFk) as Ck.
    pose proof (collect_none_iff (ser tup) has_opaque _ HFv) as Cv.
    destruct (str_keys d) as [sd|] eqn:Hsk.
    + rewrite (str_keys_no_opaque d sd Hsk). simpl.
      destruct (collect (map (ser tup) (map snd d))); rewrite <- Cv; split; intros; try discriminate; reflexivity.
    + destruct (collect (map (ser tup) (map fst d))) eqn:Ek.
      * assert (Hk0 : existsb has_opaque (map fst d) = false).
        { destruct (existsb has_opaque (map fst d)); [|reflexivity]. destruct Ck as [_ Ck]. specialize (Ck eq_refl). discriminate. }
        rewrite Hk0. simpl.
        destruct (collect (map (ser tup) (map snd d))); rewrite <- Cv; split; intros; try discriminate; reflexivity.
      * destruct Ck as [Ck _]. rewrite (Ck eq_refl). simpl. split; reflexivity.
  - (* object *)
    assert (HFv : Forall (fun x => ser tup x = SErr <-> has_opaque x = true) (map snd ps)).
    { clear - H. induction H as [|[k x] d Hx HF IH]; simpl; constructor; auto. }
    assert (Hmv : map (fun kv : str * pval => let (_, x) := kv in ser tup x) ps = map (ser tup) (map snd ps)).
    { rewrite map_map. apply map_ext. intros [k x]. reflexivity. }
    assert (He : existsb (fun kv : str * pval => let (_, x) := kv in has_opaque x) ps = existsb has_opaque (map snd ps)).
    { clear. induction ps as [|[k x] ps IH]; simpl; [reflexivity|]. now rewrite IH. }
    rewrite Hmv, He. pose proof (collect_none_iff (ser tup) has_opaque _ HFv) as Cv.
    destruct (collect (map (ser tup) (map snd ps))); rewrite <- Cv; split; intros; try discriminate; reflexivity.
  - split; reflexivity.
Qed.

(* ---------------------------------------------------------------- from_dict on a saved system *)
Theorem system_roundtrip_pinned : forall E c ps, representable E (PObj c ps) = true ->
  exists j, serialize_value_pinned (PObj c ps) = SOk j /\
            from_dict E j = DOk (PObj c ps) /\ from_dict E (json_rt j) = DOk (PObj c ps).
Proof.
  intros E c ps Hr. destruct (roundtrip_json_pinned E _ Hr) as [j [Hs [Hd Hdj]]].
  exists j. split; [exact Hs|].
  assert (Hid : is_scoped_identifier E c = true).
  { simpl in Hr. repeat (apply andb_true_iff in Hr; destruct Hr as [Hr ?]). assumption. }
  unfold serialize_value_pinned in Hs. simpl in Hs.
  destruct (collect _) as [js|]; [|discriminate]. inversion Hs; subst j. clear Hs.
  split.
  - unfold from_dict. simpl aget. cbv iota beta. rewrite Hid. exact Hd.
  - simpl json_rt in *. unfold from_dict. simpl aget. cbv iota beta. rewrite Hid. exact Hdj.
Qed.
