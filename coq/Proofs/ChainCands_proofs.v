(* Chain additivity in general (Model/Convert2.v same_cands): every accumulating converter - also the four whose image reads the
   candidate set of the profile it is handed (positional scores, pairwise counts with unranked_at_bottom, ScoreToRankedVotes with
   an unscored value, InvertedApprovalVotes) - is the accumulating fold of a per-ballot image that is FIXED once that candidate set
   is fixed.  Hence a link is additive on two profiles over the same candidates, and a Chain is additive on two profiles when at
   every link the two intermediate profiles are over the same candidates ([same_cands c a b = true], a boolean):

     the composition lemma  [stages_additive]:  dsim x (add_dict a b) -> same_cands_stages ls a b = true ->
                                                dsim (stages ls x) (add_dict (stages ls a) (stages ls b))

   where [dsim] is equality of dictionaries as Python compares them (same key set, equal counts; insertion order ignored). *)
From Coq Require Import ZArith QArith List Bool Lia Lqa Permutation Sorted.
From VL Require Import Prelude.Sx Prelude.PyDict Prelude.GDict Model.GetNBest Model.Convert Model.Convert2
     Proofs.Convert_proofs Proofs.Convert2_proofs Proofs.JR_proofs Proofs.ApprovalOrder_proofs.
Import ListNotations.
Open Scope Q_scope.

(* ================= dictionaries equal as Python dictionaries ================= *)
Definition dsim (d d' : fdict) : Prop :=
  NoDup (keys d) /\ NoDup (keys d') /\ (forall k, In k (keys d) <-> In k (keys d')) /\ (forall k, value d k == value d' k).

Lemma dsim_refl d : NoDup (keys d) -> dsim d d.
Proof. intros H. repeat split; auto; reflexivity. Qed.

Lemma dsim_trans a b c : dsim a b -> dsim b c -> dsim a c.
Proof.
  intros (A1 & A2 & A3 & A4) (B1 & B2 & B3 & B4). repeat split; auto.
  - intros H. apply B3, A3, H.
  - intros H. apply A3, B3, H.
  - intros k. rewrite A4. apply B4.
Qed.

Lemma deq_dsim a b : deq a b -> NoDup (keys a) -> dsim a b.
Proof.
  intros H Ha. assert (E := deq_keys _ _ H). repeat split; auto.
  - rewrite <- E. exact Ha.
  - rewrite E. auto.
  - rewrite E. auto.
  - intros k. apply deq_value, H.
Qed.

Lemma sx_eqb_comm a b : sx_eqb a b = sx_eqb b a.
Proof.
  destruct (sx_eqb a b) eqn:E1, (sx_eqb b a) eqn:E2; try reflexivity.
  - apply sx_eqb_eq in E1. subst. rewrite sx_eqb_refl in E2. discriminate.
  - apply sx_eqb_eq in E2. subst. rewrite sx_eqb_refl in E1. discriminate.
Qed.

(* ---- removing a key *)
Definition gdel (d : fdict) (k : sx) : fdict := filter (fun kv => negb (sx_eqb k (fst kv))) d.

Lemma keys_gdel d k k' : In k' (keys (gdel d k)) <-> In k' (keys d) /\ k' <> k.
Proof.
  unfold gdel, keys. induction d as [|[k0 v] d IH]; cbn [filter map fst]; [simpl; tauto|].
  destruct (sx_eqb k k0) eqn:E; cbn [negb map fst].
  - apply sx_eqb_eq in E. subst k0. rewrite IH. simpl. split.
    + intros [H1 H2]. split; [right; exact H1|exact H2].
    + intros [[H1|H1] H2]; [subst; contradiction|split; assumption].
  - simpl. rewrite IH. split.
    + intros [H|[H1 H2]]; [|split; [right; exact H1|exact H2]].
      subst k'. split; [left; reflexivity|]. intros ->. rewrite sx_eqb_refl in E. discriminate.
    + intros [[H1|H1] H2]; [left; exact H1|right; split; assumption].
Qed.

Lemma nodup_gdel d k : NoDup (keys d) -> NoDup (keys (gdel d k)).
Proof.
  unfold gdel, keys. induction d as [|[k0 v] d IH]; cbn [filter map fst]; intros H; [constructor|].
  inversion H as [|? ? Hn Hd]; subst. destruct (sx_eqb k k0); cbn [negb map fst]; [apply IH, Hd|].
  constructor; [|apply IH, Hd]. intros Hin. apply Hn.
  change (In k0 (keys (gdel d k))) in Hin. apply keys_gdel in Hin. apply Hin.
Qed.

Lemma value_gdel d k k' : value (gdel d k) k' == if sx_eqb k' k then 0 else value d k'.
Proof.
  unfold gdel. induction d as [|[k0 v] d IH]; cbn [filter gget fst].
  - destruct (sx_eqb k' k); reflexivity.
  - destruct (sx_eqb k k0) eqn:E; cbn [negb gget].
    + apply sx_eqb_eq in E. subst k0. destruct (sx_eqb k' k) eqn:E3; exact IH.
    + destruct (sx_eqb k' k0) eqn:E2; [|exact IH].
      apply sx_eqb_eq in E2. subst k0. rewrite sx_eqb_comm, E. reflexivity.
Qed.

Lemma gdel_notin d k : ~ In k (keys d) -> gdel d k = d.
Proof.
  unfold gdel. induction d as [|[k1 v1] d IHd]; cbn [filter fst keys map]; intros Hn; [reflexivity|].
  destruct (sx_eqb k k1) eqn:E1.
  - apply sx_eqb_eq in E1. subst. exfalso. apply Hn. left. reflexivity.
  - cbn [negb]. f_equal. apply IHd. intros Hi. apply Hn. right. exact Hi.
Qed.

Lemma wsum_cons X (k0 : sx) (v : Q) d : wsum X ((k0, v) :: d) = v * X k0 + wsum X d.
Proof. reflexivity. Qed.

Lemma wsum_gdel X d k : NoDup (keys d) -> wsum X d == value d k * X k + wsum X (gdel d k).
Proof.
  induction d as [|[k0 v] d IH]; intros H.
  - cbn. ring.
  - cbn [keys map fst] in H. inversion H as [|? ? Hn Hd]; subst. rewrite wsum_cons. unfold gdel. cbn [filter gget fst].
    destruct (sx_eqb k k0) eqn:E; cbn [negb].
    + apply sx_eqb_eq in E. subst k0. fold (gdel d k). rewrite (gdel_notin d k Hn). ring.
    + fold (gdel d k). rewrite wsum_cons, (IH Hd). ring.
Qed.

(* a weighted sum over a dictionary depends on the dictionary as a set of entries only *)
Lemma wsum_dsim X d : forall d', dsim d d' -> wsum X d == wsum X d'.
Proof.
  induction d as [|[k0 w0] d IH]; intros d' (H1 & H2 & H3 & H4).
  - destruct d' as [|[k1 w1] d']; [reflexivity|]. exfalso. apply (proj2 (H3 k1)). left. reflexivity.
  - cbn [wsum fold_right fst snd]. fold (wsum X d). cbn [keys map fst] in H1. inversion H1 as [|? ? Hn Hd]; subst.
    assert (E0 : value d' k0 == w0) by (rewrite <- (H4 k0); cbn [gget]; rewrite sx_eqb_refl; reflexivity).
    rewrite (wsum_gdel X d' k0 H2), E0.
    rewrite (IH (gdel d' k0)); [ring|]. repeat split.
    + exact Hd.
    + apply nodup_gdel, H2.
    + intros Hk. apply keys_gdel. split.
      * apply H3. right. exact Hk.
      * intros ->. exact (Hn Hk).
    + intros Hk. apply keys_gdel in Hk. destruct Hk as [Hk Hne]. apply H3 in Hk. destruct Hk as [Hk|Hk]; [|exact Hk].
      cbn [fst] in Hk. congruence.
    + intros k. rewrite value_gdel. assert (H4k := H4 k). cbn [gget] in H4k. destruct (sx_eqb k k0) eqn:E; [|exact H4k].
      apply sx_eqb_eq in E. subst k0. apply value_notin, Hn.
Qed.

(* ================= the keys of a converted dictionary ================= *)
Lemma keys_gadd_In l k x k' : In k' (keys (gaddx l k x)) <-> In k' (keys l) \/ k' = k.
Proof.
  rewrite keys_gadd. destruct (existsb (sx_eqb k) (keys l)) eqn:E.
  - apply existsb_In in E. split; [intros H; left; exact H|intros [H|H]; [exact H|subst; exact E]].
  - rewrite in_app_iff. simpl. split.
    + intros [H|[H|[]]]; [left; exact H|right; symmetry; exact H].
    + intros [H|H]; [left; exact H|right; left; symmetry; exact H].
Qed.

Lemma keys_image_In (img : list (sx * Q)) w k' : forall acc,
  In k' (keys (fold_left (fun acc kc => gaddx acc (fst kc) (snd kc * w)) img acc)) <-> In k' (keys acc) \/ In k' (keys img).
Proof.
  induction img as [|[k c] img IH]; intros acc; cbn [fold_left fst snd]; [simpl; tauto|].
  rewrite IH, keys_gadd_In. change (keys ((k, c) :: img)) with (k :: keys img). simpl. split; intros H; intuition auto.
Qed.

Lemma keys_conv_from {B} (image : B -> list (sx * Q)) votes k' : forall acc,
  In k' (keys (fold_left (fun acc (bw : B * Q) =>
            fold_left (fun acc kc => gaddx acc (fst kc) (snd kc * snd bw)) (image (fst bw)) acc) votes acc))
  <-> In k' (keys acc) \/ exists bw, In bw votes /\ In k' (keys (image (fst bw))).
Proof.
  induction votes as [|bw votes IH]; intros acc; cbn [fold_left].
  - split; [intros H; left; exact H|intros [H|(x & [] & _)]; exact H].
  - rewrite IH, keys_image_In. split.
    + intros [[H|H]|(x & H1 & H2)]; [left; exact H|right; exists bw; split; [left; reflexivity|exact H]|].
      right. exists x. split; [right; exact H1|exact H2].
    + intros [H|(x & [H1|H1] & H2)]; [left; left; exact H|subst; left; right; exact H2|].
      right. exists x. split; assumption.
Qed.

(* the keys of a converted profile: every key of every image of a ballot of the profile (also of the ballots counted 0 times) *)
Lemma keys_conv (g : kern) d k' : In k' (keys (dconv g d)) <-> exists key, In key (keys d) /\ In k' (keys (g key)).
Proof.
  unfold dconv, conv. rewrite keys_conv_from. cbn [keys map]. split.
  - intros [[]|((key, w) & H1 & H2)]. exists key. split; [|exact H2]. apply (in_map fst) in H1. exact H1.
  - intros (key & H1 & H2). right. unfold keys in H1. apply in_map_iff in H1. destruct H1 as ((key', w) & E & H1).
    cbn [fst] in E. subst key'. exists (key, w). split; assumption.
Qed.

Lemma value_conv (g : kern) d k : value (dconv g d) k == wsum (fun key => coefx (g key) k) d.
Proof. unfold dconv. rewrite (conv_value sx_eqb sx_eqb_spec), total_wsum. reflexivity. Qed.

(* an accumulating converter gives equal dictionaries for equal dictionaries *)
Lemma conv_dsim (g : kern) d d' : dsim d d' -> dsim (dconv g d) (dconv g d').
Proof.
  intros H. assert (H' := H). destruct H' as (H1 & H2 & H3 & H4). repeat split; try apply nodup_conv.
  - rewrite !keys_conv. intros (key & K1 & K2). exists key. split; [apply H3, K1|exact K2].
  - rewrite !keys_conv. intros (key & K1 & K2). exists key. split; [apply H3, K1|exact K2].
  - intros k. rewrite !value_conv. apply wsum_dsim, H.
Qed.

Lemma keys_add_dict_In a b k : In k (keys (add_dict a b)) <-> In k (keys a) \/ In k (keys b).
Proof.
  unfold add_dict. revert a. induction b as [|[k0 x] b IH]; intros a; cbn [fold_left fst snd]; [simpl; tauto|].
  rewrite IH, keys_gadd_In. change (keys ((k0, x) :: b)) with (k0 :: keys b). simpl. split; intros H; intuition auto.
Qed.

(* the conversion of the union of two profiles is the union of the conversions, as dictionaries *)
Lemma conv_add_dict_dsim (g : kern) a b : NoDup (keys a) -> NoDup (keys b) ->
  dsim (dconv g (add_dict a b)) (add_dict (dconv g a) (dconv g b)).
Proof.
  intros Ha Hb. repeat split.
  - apply nodup_conv.
  - apply nodup_add_dict, nodup_conv.
  - rewrite keys_add_dict_In, !keys_conv. intros (key & K1 & K2). apply keys_add_dict_In in K1.
    destruct K1 as [K1|K1]; [left|right]; exists key; split; assumption.
  - rewrite keys_add_dict_In, !keys_conv. intros [(key & K1 & K2)|(key & K1 & K2)]; exists key; (split; [|exact K2]);
      apply keys_add_dict_In; [left|right]; exact K1.
  - intros k. rewrite conv_add_dict, value_add_dict, coef_value by apply nodup_conv. reflexivity.
Qed.

(* ================= the candidate set read off a profile ================= *)
Lemma cands_of_keys_In {B} (dec : sx -> option B) (mem : B -> list C) ks c :
  In c (cands_of_keys dec mem ks) <-> exists k b, In k ks /\ dec k = Some b /\ In c (mem b).
Proof.
  unfold cands_of_keys. rewrite (proj2 (canon_set_spec _) c), in_flat_map. split.
  - intros (k & H1 & H2). destruct (dec k) as [b|] eqn:E; [|destruct H2]. exists k, b. repeat split; assumption.
  - intros (k & b & H1 & H2 & H3). exists k. split; [exact H1|]. rewrite H2. exact H3.
Qed.

Lemma canon_set_ext l l' : (forall x, In x l <-> In x l') -> canon_set l = canon_set l'.
Proof.
  intros H. apply sorted_lt_unique; [apply canon_set_sorted|apply canon_set_sorted|].
  intros x. rewrite (proj2 (canon_set_spec l) x), (proj2 (canon_set_spec l') x). apply H.
Qed.

Lemma cands_of_keys_ext {B} (dec : sx -> option B) (mem : B -> list C) ks ks' :
  (forall k, In k ks <-> In k ks') -> cands_of_keys dec mem ks = cands_of_keys dec mem ks'.
Proof.
  intros H. unfold cands_of_keys. apply canon_set_ext. intros c. rewrite !in_flat_map. split.
  - intros (k & H1 & H2). exists k. split; [apply H, H1|exact H2].
  - intros (k & H1 & H2). exists k. split; [apply H, H1|exact H2].
Qed.

(* the union of two key sets over the same candidates is over those candidates *)
Lemma cands_of_keys_union {B} (dec : sx -> option B) (mem : B -> list C) kx ka kb :
  (forall k, In k kx <-> In k ka \/ In k kb) -> cands_of_keys dec mem ka = cands_of_keys dec mem kb ->
  cands_of_keys dec mem kx = cands_of_keys dec mem ka.
Proof.
  intros H E. apply sorted_lt_unique; [apply canon_set_sorted|apply canon_set_sorted|].
  intros c. split.
  - intros Hc. apply cands_of_keys_In in Hc. destruct Hc as (k & b & H1 & H2 & H3). apply H in H1. destruct H1 as [H1|H1].
    + apply cands_of_keys_In. exists k, b. repeat split; assumption.
    + rewrite E. apply cands_of_keys_In. exists k, b. repeat split; assumption.
  - intros Hc. apply cands_of_keys_In in Hc. destruct Hc as (k & b & H1 & H2 & H3).
    apply cands_of_keys_In. exists k, b. repeat split; try assumption. apply H. left. exact H1.
Qed.

Lemma kind_cands_ext k ks ks' : (forall x, In x ks <-> In x ks') -> kind_cands k ks = kind_cands k ks'.
Proof. intros H. destruct k; cbn [kind_cands]; try reflexivity; apply cands_of_keys_ext, H. Qed.

Lemma kind_cands_union k kx ka kb :
  (forall x, In x kx <-> In x ka \/ In x kb) -> kind_cands k ka = kind_cands k kb -> kind_cands k kx = kind_cands k ka.
Proof. intros H. destruct k; cbn [kind_cands]; try reflexivity; apply cands_of_keys_union, H. Qed.

Lemma link_cands_ext l ks ks' : (forall x, In x ks <-> In x ks') -> link_cands l ks = link_cands l ks'.
Proof. destruct l; cbn [link_cands]; [apply kind_cands_ext|reflexivity]. Qed.

Lemma link_cands_union l kx ka kb :
  (forall x, In x kx <-> In x ka \/ In x kb) -> link_cands l ka = link_cands l kb -> link_cands l kx = link_cands l ka.
Proof. destruct l; cbn [link_cands]; [apply kind_cands_union|reflexivity]. Qed.

(* what the model computes from the decoded ballots is that candidate set *)
Lemma decode_flat {B} (dec : sx -> option B) (mem : B -> list C) d : forall v, decode_all dec d = Some v ->
  flat_map (fun bw : B * Q => mem (fst bw)) v = flat_map (fun k => match dec k with Some b => mem b | None => [] end) (keys d).
Proof.
  unfold decode_all. induction d as [|[k w] d IH]; intros v H; cbn [opt_map fst snd] in H.
  - injection H as <-. reflexivity.
  - destruct (dec k) as [b|] eqn:E; [|discriminate].
    destruct (opt_map _ d) as [t|] eqn:E2; [|discriminate]. injection H as <-.
    cbn [flat_map keys map fst]. rewrite E. f_equal. apply IH. reflexivity.
Qed.

Lemma decode_cands_ranked d v : decode_all key_ranked d = Some v -> cands_ranked v = cands_of_keys key_ranked flatten (keys d).
Proof. intros H. unfold cands_ranked, cands_of_keys. f_equal. exact (decode_flat key_ranked flatten d v H). Qed.
Lemma decode_cands_approval d v : decode_all key_approval d = Some v -> cands_approval v = cands_of_keys key_approval (fun b => b) (keys d).
Proof.
  intros H. unfold cands_approval, cands_of_keys. f_equal. exact (decode_flat key_approval (fun b => b) d v H).
Qed.
Lemma decode_cands_score d v : decode_all key_score d = Some v -> cands_score v = cands_of_keys key_score (map fst) (keys d).
Proof. intros H. unfold cands_score, cands_of_keys. f_equal. exact (decode_flat key_score (map fst) d v H). Qed.

(* ================= every accumulating converter is the fold of an image fixed by the candidate set ================= *)
Definition kind_kernel_at (k : ckind) (cs : list C) : kern :=
  match k with
  | KPositional sc => dec_kernel key_ranked (fun b => match img_positional sc (length cs) b with Some l => l | None => [] end)
  | KCondorcet bt => dec_kernel key_ranked (img_condorcet bt cs)
  | KScoreRanked un => dec_kernel key_score (img_score_ranked un cs)
  | KInvApproval => dec_kernel key_approval (img_inverted_approval cs)
  | k' => match kind_kernel k' with Some g => g | None => kid end
  end.

Lemma run_kind_at k d v : run_kind k d = COk v -> v = VF (dconv (kind_kernel_at k (kind_cands k (keys d))) d).
Proof.
  destruct (kind_kernel k) as [g|] eqn:Eg.
  - intros H. rewrite (run_kind_linear k g d v Eg H). destruct k; try discriminate; cbn [kind_kernel_at]; rewrite Eg; reflexivity.
  - destruct k; try discriminate; cbn [run_kind kind_kernel_at kind_cands]; unfold with_votes, ok_f;
      match goal with |- context [decode_all ?dec d] => destruct (decode_all dec d) as [vs|] eqn:E; [|discriminate] end.
    + rewrite (decode_cands_ranked d vs E). unfold oconv. destruct (forallb _ vs); [|discriminate].
      intros H. injection H as <-. rewrite (conv_decode _ _ _ _ E). reflexivity.
    + rewrite (decode_cands_ranked d vs E). intros H. injection H as <-. rewrite (conv_decode _ _ _ _ E). reflexivity.
    + rewrite (decode_cands_score d vs E). intros H. injection H as <-. rewrite (conv_decode _ _ _ _ E). reflexivity.
    + rewrite (decode_cands_approval d vs E). intros H. injection H as <-. rewrite (conv_decode _ _ _ _ E). reflexivity.
Qed.

Definition link_kernel (l : link) (cs : list C) : kern := match l with LK k => kind_kernel_at k cs | LInv => kinv end.

(* one link, then a list of links, as accumulating folds *)
Definition stage (l : link) (d : fdict) : fdict := dconv (link_kernel l (link_cands l (keys d))) d.
Definition stages (ls : list link) (d : fdict) : fdict := fold_left (fun d l => stage l d) ls d.

Lemma run_link_stage l d v : NoDup (keys d) -> run_link l d = COk v -> exists out, v = VF out /\ deq out (stage l d).
Proof.
  destruct l as [k|]; cbn [run_link]; intros Hd H.
  - rewrite (run_kind_at k d v H). eexists. split; [reflexivity|apply deq_refl].
  - unfold ok_f in H. injection H as <-. eexists. split; [reflexivity|]. apply inv_simple_kernel, Hd.
Qed.

Lemma stage_deq l a b : deq a b -> deq (stage l a) (stage l b).
Proof. intros H. unfold stage. rewrite (deq_keys _ _ H). apply conv_deq, H. Qed.

Lemma stages_deq ls : forall a b, deq a b -> deq (stages ls a) (stages ls b).
Proof. induction ls as [|l ls IH]; intros a b H; cbn [stages fold_left]; [exact H|]. apply IH, stage_deq, H. Qed.

Lemma stages_app l1 l2 d : stages (l1 ++ l2) d = stages l2 (stages l1 d).
Proof. apply fold_left_app. Qed.

Lemma nodup_stage l d : NoDup (keys (stage l d)).
Proof. apply nodup_conv. Qed.

Lemma nodup_stages ls : forall d, NoDup (keys d) -> NoDup (keys (stages ls d)).
Proof. induction ls as [|l ls IH]; intros d H; cbn [stages fold_left]; [exact H|]. apply IH, nodup_stage. Qed.

Lemma links_chain_cons c l :
  links_of (KChain (c :: l)) = match links_of c, links_of (KChain l) with Some a, Some b => Some (a ++ b) | _, _ => None end.
Proof. reflexivity. Qed.

(* a Chain of accumulating converters and sign inversions computes, key by key, the sequence of its stages *)
Lemma chain_stages : forall c ls d v, links_of c = Some ls -> NoDup (keys d) -> run_code c (VF d) = COk v ->
  exists out, v = VF out /\ deq out (stages ls d).
Proof.
  fix IH 1. intros c. destruct c as [k| |m0 dz|dv0 m0 dz| | |pm0|pm0|am0| |c0|l]; intros ls d v Hk Hd Hr; try discriminate.
  - cbn [links_of] in Hk. injection Hk as <-. apply (run_link_stage (LK k) d v Hd). exact Hr.
  - cbn [links_of] in Hk. injection Hk as <-. apply (run_link_stage LInv d v Hd). exact Hr.
  - revert ls d v Hk Hd Hr. induction l as [|c l IHl]; intros ls d v Hk Hd Hr.
    + cbn [links_of] in Hk. injection Hk as <-. rewrite run_chain_nil in Hr. injection Hr as <-.
      eexists; split; [reflexivity|apply deq_refl].
    + rewrite links_chain_cons in Hk.
      destruct (links_of c) as [la|] eqn:Ea; [|discriminate].
      destruct (links_of (KChain l)) as [lb|] eqn:Eb; [|discriminate]. injection Hk as <-.
      rewrite run_chain_cons in Hr. destruct (run_code c (VF d)) as [v1| |] eqn:E1; try discriminate. cbn [bind] in Hr.
      destruct (IH c la d v1 Ea Hd E1) as (mid & -> & Hmid).
      assert (NoDup (keys mid)) as Hnd by (rewrite (deq_keys _ _ Hmid); apply nodup_stages, Hd).
      destruct (IHl lb mid v eq_refl Hnd Hr) as (out & -> & Hout).
      eexists; split; [reflexivity|]. rewrite stages_app.
      apply (deq_trans _ _ _ Hout), stages_deq, Hmid.
Qed.

(* ================= the side condition, on the stages ================= *)
Lemma cs_eqb_eq a : forall b, cs_eqb a b = true -> a = b.
Proof.
  induction a as [|x a IH]; intros [|y b] H; cbn [cs_eqb] in H; try discriminate; [reflexivity|].
  apply andb_true_iff in H. destruct H as [H1 H2]. apply Pos.eqb_eq in H1. subst y. f_equal. apply IH, H2.
Qed.

Fixpoint same_cands_stages (ls : list link) (a b : fdict) : Prop :=
  match ls with
  | [] => True
  | l :: t => link_cands l (keys a) = link_cands l (keys b) /\ same_cands_stages t (stage l a) (stage l b)
  end.

Lemma same_cands_stages_deq ls : forall a a' b b', deq a a' -> deq b b' ->
  same_cands_stages ls a b -> same_cands_stages ls a' b'.
Proof.
  induction ls as [|l ls IH]; intros a a' b b' Ha Hb H; cbn [same_cands_stages] in *; [exact I|].
  destruct H as [H1 H2]. rewrite <- (deq_keys _ _ Ha), <- (deq_keys _ _ Hb). split; [exact H1|].
  apply (IH (stage l a) _ (stage l b) _); [apply stage_deq, Ha|apply stage_deq, Hb|exact H2].
Qed.

Lemma same_cands_links_stages ls : forall a b, NoDup (keys a) -> NoDup (keys b) ->
  same_cands_links ls a b = true -> same_cands_stages ls a b.
Proof.
  induction ls as [|l ls IH]; intros a b Ha Hb H; cbn [same_cands_links same_cands_stages] in *; [exact I|].
  apply andb_true_iff in H. destruct H as [H1 H2]. apply cs_eqb_eq in H1. split; [exact H1|].
  destruct (run_link l a) as [[a'| | |]| |] eqn:Ra; try discriminate.
  destruct (run_link l b) as [[b'| | |]| |] eqn:Rb; try discriminate.
  destruct (run_link_stage l a _ Ha Ra) as (oa & Ea & Da). injection Ea as <-.
  destruct (run_link_stage l b _ Hb Rb) as (ob & Eb & Db). injection Eb as <-.
  apply (same_cands_stages_deq ls a' _ b' _ Da Db). apply IH; [| |exact H2].
  - rewrite (deq_keys _ _ Da). apply nodup_stage.
  - rewrite (deq_keys _ _ Db). apply nodup_stage.
Qed.

(* ================= the composition lemma ================= *)
Lemma stage_additive l x a b : NoDup (keys a) -> NoDup (keys b) ->
  dsim x (add_dict a b) -> link_cands l (keys a) = link_cands l (keys b) ->
  dsim (stage l x) (add_dict (stage l a) (stage l b)).
Proof.
  intros Ha Hb Hx Hc. unfold stage.
  assert (Ex : link_cands l (keys x) = link_cands l (keys a)).
  { apply (link_cands_union l (keys x) (keys a) (keys b)); [|exact Hc].
    intros k. destruct Hx as (_ & _ & H3 & _). rewrite H3. apply keys_add_dict_In. }
  rewrite Ex, <- Hc.
  apply (dsim_trans _ (dconv (link_kernel l (link_cands l (keys a))) (add_dict a b))).
  - apply conv_dsim, Hx.
  - apply conv_add_dict_dsim; assumption.
Qed.

Theorem stages_additive ls : forall x a b, NoDup (keys a) -> NoDup (keys b) ->
  dsim x (add_dict a b) -> same_cands_stages ls a b ->
  dsim (stages ls x) (add_dict (stages ls a) (stages ls b)).
Proof.
  induction ls as [|l ls IH]; intros x a b Ha Hb Hx Hs; cbn [stages fold_left same_cands_stages] in *; [exact Hx|].
  destruct Hs as [H1 H2]. apply IH; [apply nodup_stage|apply nodup_stage| |exact H2].
  apply stage_additive; assumption.
Qed.

(* ================= Chain additivity in general ================= *)
Theorem chain_additive_same_cands c a b oa ob oab k : NoDup (keys a) -> NoDup (keys b) -> same_cands c a b = true ->
  run_code c (VF a) = COk (VF oa) -> run_code c (VF b) = COk (VF ob) -> run_code c (VF (add_dict a b)) = COk (VF oab) ->
  value oab k == value oa k + value ob k.
Proof.
  intros Ha Hb Hs Ra Rb Rab. unfold same_cands in Hs. destruct (links_of c) as [ls|] eqn:El; [|discriminate].
  destruct (chain_stages c ls a _ El Ha Ra) as (xa & Ea & Da). injection Ea as <-.
  destruct (chain_stages c ls b _ El Hb Rb) as (xb & Eb & Db). injection Eb as <-.
  destruct (chain_stages c ls _ _ El (nodup_add_dict a b Ha) Rab) as (xab & Eab & Dab). injection Eab as <-.
  rewrite (deq_value _ _ k Dab), (deq_value _ _ k Da), (deq_value _ _ k Db).
  destruct (stages_additive ls (add_dict a b) a b Ha Hb (dsim_refl _ (nodup_add_dict a b Ha))
              (same_cands_links_stages ls a b Ha Hb Hs)) as (_ & _ & _ & H4).
  rewrite H4, value_add_dict, coef_value by (apply nodup_stages, Hb). reflexivity.
Qed.

(* the keys too: no key lost, none invented *)
Theorem chain_additive_keys c a b oa ob oab k : NoDup (keys a) -> NoDup (keys b) -> same_cands c a b = true ->
  run_code c (VF a) = COk (VF oa) -> run_code c (VF b) = COk (VF ob) -> run_code c (VF (add_dict a b)) = COk (VF oab) ->
  (In k (keys oab) <-> In k (keys oa) \/ In k (keys ob)).
Proof.
  intros Ha Hb Hs Ra Rb Rab. unfold same_cands in Hs. destruct (links_of c) as [ls|] eqn:El; [|discriminate].
  destruct (chain_stages c ls a _ El Ha Ra) as (xa & Ea & Da). injection Ea as <-.
  destruct (chain_stages c ls b _ El Hb Rb) as (xb & Eb & Db). injection Eb as <-.
  destruct (chain_stages c ls _ _ El (nodup_add_dict a b Ha) Rab) as (xab & Eab & Dab). injection Eab as <-.
  rewrite (deq_keys _ _ Dab), (deq_keys _ _ Da), (deq_keys _ _ Db).
  destruct (stages_additive ls (add_dict a b) a b Ha Hb (dsim_refl _ (nodup_add_dict a b Ha))
              (same_cands_links_stages ls a b Ha Hb Hs)) as (_ & _ & H3 & _).
  rewrite H3. apply keys_add_dict_In.
Qed.

(* one profile-dependent converter on two profiles over the same candidates *)
Corollary kind_additive_same_cands k a b oa ob oab key : NoDup (keys a) -> NoDup (keys b) ->
  kind_cands k (keys a) = kind_cands k (keys b) ->
  run_kind k a = COk (VF oa) -> run_kind k b = COk (VF ob) -> run_kind k (add_dict a b) = COk (VF oab) ->
  value oab key == value oa key + value ob key.
Proof.
  intros Ha Hb Hc Ra Rb Rab.
  assert (Ea := run_kind_at k a _ Ra). assert (Eb := run_kind_at k b _ Rb). assert (Eab := run_kind_at k _ _ Rab).
  injection Ea as ->. injection Eb as ->. injection Eab as ->.
  destruct (stage_additive (LK k) (add_dict a b) a b Ha Hb (dsim_refl _ (nodup_add_dict a b Ha)) Hc) as (_ & _ & _ & H4).
  unfold stage in H4. cbn [link_kernel link_cands] in H4.
  rewrite H4, value_add_dict, coef_value by apply nodup_conv. reflexivity.
Qed.

(* the links that read nothing off the profile satisfy the side condition on all profiles: C13_chain_additive is a special case *)
Lemma kernels_links : forall c gs, kernels c = Some gs -> exists ls, links_of c = Some ls /\
  Forall (fun l => forall ks, link_cands l ks = []) ls.
Proof.
  fix IH 1. intros c. destruct c as [k| |m0 dz|dv0 m0 dz| | |pm0|pm0|am0| |c0|l]; intros gs Hk; try discriminate.
  - exists [LK k]. split; [reflexivity|]. constructor; [|constructor]. intros ks.
    cbn [kernels] in Hk. destruct k; try discriminate; reflexivity.
  - exists [LInv]. split; [reflexivity|]. constructor; [|constructor]. reflexivity.
  - revert gs Hk. induction l as [|c l IHl]; intros gs Hk.
    + exists []. split; [reflexivity|constructor].
    + rewrite kernels_chain_cons in Hk. destruct (kernels c) as [ga|] eqn:Ea; [|discriminate].
      destruct (kernels (KChain l)) as [gb|] eqn:Eb; [|discriminate].
      destruct (IH c ga Ea) as (la & La & Fa). destruct (IHl gb eq_refl) as (lb & Lb & Fb).
      exists (la ++ lb). split; [rewrite links_chain_cons, La, Lb; reflexivity|]. apply Forall_app. split; assumption.
Qed.

(* the side condition cannot be dropped: the Borda count of a ballot depends on how many candidates the profile names *)
Lemma same_cands_needed :
  exists c a b oa ob oab k,
    NoDup (keys a) /\ NoDup (keys b) /\ same_cands c a b = false /\
    run_code c (VF a) = COk (VF oa) /\ run_code c (VF b) = COk (VF ob) /\ run_code c (VF (add_dict a b)) = COk (VF oab) /\
    ~ value oab k == value oa k + value ob k.
Proof.
  exists (KConv (KPositional (Borda 1))), [(L [A 1; A 2; A 3], 1)], [(L [A 1; A 2], 1)],
         [(A 1, 3); (A 2, 2); (A 3, 1)], [(A 1, 2); (A 2, 1)], [(A 1, 6); (A 2, 4); (A 3, 1)], (A 1).
  repeat split.
  - repeat constructor; simpl; tauto.
  - repeat constructor; simpl; tauto.
  - vm_compute. discriminate.
Qed.
