(* Invariants of the highest-averages loop (Model/HighestAverages.v). *)
From Coq Require Import ZArith QArith List Bool Lia Lqa Permutation Sorted.
From VL Require Import Prelude.PyDict Model.GetNBest Model.HighestAverages
     Proofs.Dict_proofs Proofs.GetNBest_proofs Proofs.QOrd.
Import ListNotations.
Open Scope Z_scope.

Definition qge (a b : qitem) : Prop := Qle_bool (snd b) (snd a) = true.
Definition sortedq (l : list qitem) : Prop := StronglySorted qge l.

Lemma sortedq_is_sorted_desc l : sortedq l <-> @sorted_desc C Q Qle_bool l.
Proof. reflexivity. Qed.

(* ---------------------------------------------------------------- list facts *)
Lemma insert_after_ge_perm x l : Permutation (insert_after_ge x l) (x :: l).
Proof.
  induction l as [|y t IH]; simpl; [reflexivity|].
  destruct (Qle_bool (snd x) (snd y)); [|reflexivity].
  rewrite IH. apply perm_swap.
Qed.

Lemma insert_after_ge_sorted x l : sortedq l -> sortedq (insert_after_ge x l).
Proof.
  unfold sortedq. induction l as [|y t IH]; simpl; intros Hs.
  - constructor; constructor.
  - inversion Hs as [|? ? Hs' Hall]; subst.
    destruct (Qle_bool (snd x) (snd y)) eqn:E.
    + constructor; [apply IH; assumption|].
      eapply Permutation_Forall; [apply Permutation_sym, insert_after_ge_perm|].
      constructor; [exact E|assumption].
    + constructor; [assumption|].
      assert (Hyx : Qle_bool (snd y) (snd x) = true).
      { destruct (Qle_bool_total (snd x) (snd y)); congruence. }
      constructor; [exact Hyx|].
      eapply Forall_impl; [|exact Hall]. intros z Hz. unfold qge in *.
      eapply Qle_bool_trans; eassumption.
Qed.

Lemma insert_after_ge_prefix x pre rest :
  Forall (fun y => Qle_bool (snd x) (snd y) = true) pre ->
  insert_after_ge x (pre ++ rest) = pre ++ insert_after_ge x rest.
Proof.
  induction 1 as [|y pre Hy _ IH]; simpl; [reflexivity|]. rewrite Hy, IH. reflexivity.
Qed.

Lemma run_length_split m l :
  let k := run_length m l in
  l = firstn k l ++ skipn k l /\ length (firstn k l) = k /\
  Forall (fun y => Qeq_bool (snd y) m = true) (firstn k l) /\
  (match skipn k l with [] => True | y :: _ => Qeq_bool (snd y) m = false end).
Proof.
  induction l as [|y t IH]; simpl.
  - repeat split; constructor.
  - destruct (Qeq_bool (snd y) m) eqn:E; simpl.
    + destruct IH as (H1 & H2 & H3 & H4). repeat split.
      * f_equal. exact H1.
      * f_equal. exact H2.
      * constructor; assumption.
      * exact H4.
    + repeat split; try constructor. exact E.
Qed.

Lemma run_split_ex m l : exists batch rest,
  l = batch ++ rest /\ length batch = run_length m l /\ firstn (run_length m l) l = batch /\
  Forall (fun y => Qeq_bool (snd y) m = true) batch /\
  (match rest with [] => True | y :: _ => Qeq_bool (snd y) m = false end).
Proof.
  destruct (run_length_split m l) as (H1 & H2 & H3 & H4).
  exists (firstn (run_length m l) l), (skipn (run_length m l) l). tauto.
Qed.

Lemma sorted_rev_asc (l : list qitem) :
  StronglySorted (fun a b => Qle_bool (snd a) (snd b) = true) l -> sortedq (rev l).
Proof.
  unfold sortedq. induction 1 as [|x t Hs IH Hall]; simpl; [constructor|].
  assert (H : forall a, StronglySorted qge a -> Forall (fun y => qge y x) a -> StronglySorted qge (a ++ [x])).
  { induction a as [|y a IHa]; simpl; intros Hsa Hfa.
    - constructor; constructor.
    - inversion Hsa; subst. inversion Hfa; subst. constructor; [apply IHa; assumption|].
      apply Forall_app. split; [assumption|]. constructor; [assumption|constructor]. }
  apply H; [exact IH|]. apply Forall_rev. exact Hall.
Qed.

Lemma insert_asc_perm x l : Permutation (@insert_asc C Q Qle_bool x l) (x :: l).
Proof.
  induction l as [|y t IH]; simpl; [reflexivity|].
  destruct (Qle_bool (snd x) (snd y)); [reflexivity|]. rewrite IH. apply perm_swap.
Qed.
Lemma sort_asc_perm (l : list qitem) : Permutation (@sort_asc C Q Qle_bool l) l.
Proof.
  induction l as [|x t IH]; simpl; [reflexivity|]. rewrite insert_asc_perm. constructor. exact IH.
Qed.
Lemma sort_asc_sorted (l : list qitem) :
  StronglySorted (fun a b => Qle_bool (snd a) (snd b) = true) (@sort_asc C Q Qle_bool l).
Proof.
  induction l as [|x t IH]; simpl; [constructor|].
  revert IH. generalize (@sort_asc C Q Qle_bool t). intros s Hs.
  induction s as [|y s IHs]; simpl.
  - constructor; constructor.
  - inversion Hs as [|? ? Hs' Hall]; subst.
    destruct (Qle_bool (snd x) (snd y)) eqn:E.
    + constructor; [assumption|]. constructor; [exact E|].
      eapply Forall_impl; [|exact Hall]. intros z Hz. simpl in *. eapply Qle_bool_trans; eassumption.
    + constructor; [apply IHs; assumption|].
      eapply Permutation_Forall; [apply Permutation_sym, insert_asc_perm|].
      constructor; [|assumption].
      destruct (Qle_bool_total (snd x) (snd y)); congruence.
Qed.

(* ---------------------------------------------------------------- arithmetic *)
Lemma quot_mono (v a b : Q) : (0 <= v -> 0 < a -> a <= b -> v / b <= v / a)%Q.
Proof.
  intros Hv Ha Hab.
  assert (Hb : (0 < b)%Q) by lra.
  apply Qle_shift_div_r; [exact Hb|].
  unfold Qdiv.
  assert (Hi : (0 < / a)%Q) by (apply Qinv_lt_0_compat; exact Ha).
  assert (Hone : (a * / a == 1)%Q) by (apply Qmult_inv_r; lra).
  set (i := (/ a)%Q) in *.
  assert (Hvi : (0 <= v * i)%Q) by (apply Qmult_le_0_compat; lra).
  assert (H2 : (v * i * a == v)%Q) by (rewrite <- Qmult_assoc, (Qmult_comm i a), Hone; ring).
  rewrite <- H2 at 1.
  rewrite !(Qmult_comm (v * i)).
  apply Qmult_le_compat_r; assumption.
Qed.

(* ---------------------------------------------------------------- the loop *)
Section HAP.
  Variable d : Z -> Q.
  Variable votes : list (C * Q).
  Variable caps : list (C * Z).
  Variable prev : list (C * Z).
  Variable n : Z.
  Hypothesis Hpos : forall k, 0 <= k -> (0 < d k)%Q.
  Hypothesis Hmono : forall k, 0 <= k -> (d k <= d (k + 1))%Q.
  Hypothesis Hvotes : forall c v, In (c, v) votes -> (0 <= v)%Q.
  Hypothesis Hnd : NoDup (map fst votes).
  Hypothesis Hprev : forall c, 0 <= dget_or prev c 0.

  Notation cap := (cap_of caps n).
  Notation step := (step d votes caps n).
  Notation loop := (loop d votes caps n).
  Notation pop_reinsert := (pop_reinsert d votes caps n).
  Definition tot (s : state) (c : C) : Z := dget_or (st_totals s) c 0.
  Definition tot_of (t : list (C * Z)) (c : C) : Z := dget_or t c 0.

  (* an item of the quotient list is "right" w.r.t. a totals map *)
  Definition item_ok (t : list (C * Z)) (it : qitem) : Prop :=
    exists v, dget votes (fst it) = Some v /\ snd it = (v / d (tot_of t (fst it)))%Q /\
              0 <= tot_of t (fst it) < cap (fst it).

  (* re-insertion of a popped batch, as a fold *)
  Definition reins1 (t : list (C * Z)) (acc : list qitem) (b : qitem) : list qitem :=
    let c := fst b in
    if tot_of t c <? cap c
    then match dget votes c with
         | Some v => insert_after_ge (c, (v / d (tot_of t c))%Q) acc
         | None => acc
         end
    else acc.
  Definition reins (t : list (C * Z)) (batch rest : list qitem) : list qitem :=
    fold_left (reins1 t) batch rest.

  Definition newq (t : list (C * Z)) (b : qitem) : list qitem :=
    let c := fst b in
    if tot_of t c <? cap c
    then match dget votes c with Some v => [(c, (v / d (tot_of t c))%Q)] | None => [] end
    else [].

  Lemma reins1_perm t acc b : Permutation (reins1 t acc b) (newq t b ++ acc).
  Proof.
    unfold reins1, newq. destruct (tot_of t (fst b) <? cap (fst b)); [|reflexivity].
    destruct (dget votes (fst b)); [|reflexivity]. apply insert_after_ge_perm.
  Qed.

  Lemma reins_perm t batch : forall rest,
    Permutation (reins t batch rest) (flat_map (newq t) batch ++ rest).
  Proof.
    induction batch as [|b batch IH]; intros rest; simpl; [reflexivity|].
    unfold reins in *. simpl. rewrite IH. rewrite reins1_perm.
    rewrite <- app_assoc. rewrite !app_assoc. apply Permutation_app_tail. apply Permutation_app_comm.
  Qed.

  Lemma reins_sorted t batch : forall rest, sortedq rest -> sortedq (reins t batch rest).
  Proof.
    induction batch as [|b batch IH]; intros rest Hs; simpl; [exact Hs|].
    unfold reins in *. simpl. apply IH. unfold reins1.
    destruct (tot_of t (fst b) <? cap (fst b)); [|exact Hs].
    destruct (dget votes (fst b)); [|exact Hs]. apply insert_after_ge_sorted. exact Hs.
  Qed.

  (* the sequential pop / re-insert equals the fold, provided every new
     quotient is <= the quotients of the batch members still waiting *)
  Lemma pop_reinsert_batch t batch : forall rest,
    (forall b, In b batch -> forall x, In x (newq t b) ->
        Forall (fun y => Qle_bool (snd x) (snd y) = true) batch) ->
    pop_reinsert t (length batch) (batch ++ rest) = reins t batch rest.
  Proof.
    induction batch as [|[c x] batch IH]; intros rest H; simpl; [reflexivity|].
    unfold reins. simpl. fold (reins t batch (reins1 t rest (c, x))).
    assert (Htail : forall b, In b batch -> forall x0, In x0 (newq t b) ->
              Forall (fun y => Qle_bool (snd x0) (snd y) = true) batch).
    { intros b Hb x0 Hx0. specialize (H b (or_intror Hb) x0 Hx0). inversion H; assumption. }
    unfold reins1 at 1. simpl fst. fold (tot_of t c).
    destruct (tot_of t c <? cap c) eqn:E1.
    - destruct (dget votes c) as [v|] eqn:E2.
      + rewrite insert_after_ge_prefix.
        * apply IH. exact Htail.
        * assert (Hin : In (c, (v / d (tot_of t c))%Q) (newq t (c, x))).
          { unfold newq. simpl fst. rewrite E1, E2. left. reflexivity. }
          specialize (H (c, x) (or_introl eq_refl) _ Hin). inversion H; assumption.
      + apply IH. exact Htail.
    - apply IH. exact Htail.
  Qed.

  (* ---- the invariant *)
  Record Inv (s : state) : Prop := {
    inv_nodup : NoDup (map fst (st_qs s));
    inv_items : Forall (item_ok (st_totals s)) (st_qs s);
    inv_sorted : sortedq (st_qs s);
    inv_optimal : forall a, In a (st_awards s) ->
                   Forall (fun y => (snd y <= snd a)%Q) (st_qs s);
    inv_caps : forall c, tot s c <= cap c \/ tot s c = dget_or prev c 0;
    inv_nonneg : forall c, 0 <= tot s c;
    inv_complete : forall c v, In (c, v) votes -> tot s c < cap c -> In c (map fst (st_qs s));
    inv_rem : 0 <= st_rem s \/ st_awards s = [];
    inv_account : forall c, tot s c = dget_or prev c 0 + count c (map fst (st_awards s));
    inv_awards : Forall (fun a => exists v j, dget votes (fst a) = Some v /\ snd a = (v / d j)%Q /\
                                   dget_or prev (fst a) 0 <= j < tot s (fst a)) (st_awards s);
    inv_remacc : st_rem s + Z.of_nat (length (st_awards s))
                 + (match st_tie s with Some (_, r) => r | None => 0 end) = n - zsum (map snd prev);
    inv_tie : forall T r, st_tie s = Some (T, r) ->
               st_rem s = 0 /\ 0 < r < Z.of_nat (length T) /\
               exists m, (exists c0, In (c0, m) (st_qs s)) /\
                         Forall (fun y => (snd y <= m)%Q) (st_qs s) /\
                         Permutation T (map fst (filter (fun y => Qeq_bool (snd y) m) (st_qs s)))
  }.

  (* ---- helper lemmas *)
  Lemma count_app c a b : count c (a ++ b) = count c a + count c b.
  Proof. induction a as [|y a IH]; simpl; [reflexivity|]. rewrite IH. lia. Qed.

  Lemma nodup_app_inv {X} (a b : list X) : NoDup (a ++ b) ->
    NoDup a /\ NoDup b /\ (forall x, In x a -> ~ In x b).
  Proof.
    induction a as [|y a IH]; simpl; intros H.
    - split; [constructor|]. split; [assumption|]. tauto.
    - inversion H as [|? ? Hy Hn]; subst. destruct (IH Hn) as (Ha & Hb & Hd).
      split; [constructor; [|assumption]; intros Hin; apply Hy, in_or_app; tauto|].
      split; [assumption|]. intros x [->|Hx]; [intros Hin; apply Hy, in_or_app; tauto|apply Hd, Hx].
  Qed.

  Lemma newq_keys t batch L :
    NoDup (map fst batch ++ L) -> NoDup (map fst (flat_map (newq t) batch) ++ L).
  Proof.
    induction batch as [|b batch IH]; simpl; intros H; [exact H|].
    inversion H as [|? ? Hb Hn]; subst. specialize (IH Hn).
    rewrite map_app, <- app_assoc.
    unfold newq at 1. destruct (tot_of t (fst b) <? cap (fst b)); [|exact IH].
    destruct (dget votes (fst b)); [|exact IH]. simpl. constructor; [|exact IH].
    intros Hin. apply Hb. apply in_app_or in Hin. apply in_or_app. destruct Hin as [Hin|Hin]; [left|right; exact Hin].
    apply in_map_iff in Hin. destruct Hin as (y & Hy & Hin). apply in_flat_map in Hin.
    destruct Hin as (b' & Hb' & Hin). apply in_map_iff. exists b'. split; [|exact Hb'].
    unfold newq in Hin. destruct (tot_of t (fst b') <? cap (fst b')); [|destruct Hin].
    destruct (dget votes (fst b')); [|destruct Hin]. destruct Hin as [<-|[]]. simpl in Hy. congruence.
  Qed.

  Lemma Permutation_filter' {X} (f : X -> bool) (l l' : list X) :
    Permutation l l' -> Permutation (filter f l) (filter f l').
  Proof.
    induction 1 as [|x l l' _ IH|x y l|l l' l'' _ IH1 _ IH2]; simpl.
    - reflexivity.
    - destruct (f x); [constructor|]; exact IH.
    - destruct (f x), (f y); try reflexivity. apply perm_swap.
    - etransitivity; eassumption.
  Qed.

  Lemma head_max c0 m qs' : sortedq ((c0, m) :: qs') ->
    Forall (fun y => (snd y <= m)%Q) ((c0, m) :: qs').
  Proof.
    intros H. inversion H as [|? ? _ Hall]; subst. constructor; [simpl; lra|].
    eapply Forall_impl; [|exact Hall]. intros y Hy. unfold qge in Hy. simpl in Hy.
    apply Qle_bool_iff. exact Hy.
  Qed.

  Lemma sortedq_app_r (a b : list qitem) : sortedq (a ++ b) -> sortedq b.
  Proof.
    induction a as [|x a IH]; simpl; intros H; [exact H|]. inversion H; subst. apply IH. assumption.
  Qed.

  Lemma rest_below m (batch rest : list qitem) :
    batch <> [] -> sortedq (batch ++ rest) ->
    Forall (fun y => Qeq_bool (snd y) m = true) batch ->
    (match rest with [] => True | y :: _ => Qeq_bool (snd y) m = false end) ->
    Forall (fun y => Qeq_bool (snd y) m = false) rest.
  Proof.
    intros Hne Hs Hb Hr. destruct rest as [|y0 rest]; [constructor|].
    pose proof (sortedq_app_r _ _ Hs) as Hsr. inversion Hsr as [|? ? _ Hall]; subst.
    constructor; [exact Hr|].
    apply Forall_forall. intros y Hy. rewrite Forall_forall in Hall. specialize (Hall y Hy).
    unfold qge in Hall. apply Qle_bool_iff in Hall.
    destruct (Qeq_bool (snd y) m) eqn:E; [|reflexivity]. exfalso.
    apply Qeq_bool_iff in E.
    (* y0 <= some batch member == m *)
    destruct batch as [|b batch]; [congruence|]. simpl in Hs. inversion Hs as [|? ? _ Hallb]; subst.
    rewrite Forall_forall in Hallb.
    assert (Hin0 : In y0 (batch ++ y0 :: rest)) by (apply in_or_app; right; left; reflexivity).
    specialize (Hallb y0 Hin0).
    unfold qge in Hallb. apply Qle_bool_iff in Hallb.
    inversion Hb as [|? ? Hbm _]; subst. apply Qeq_bool_iff in Hbm.
    assert (Qeq_bool (snd y0) m = true); [|congruence].
    apply Qeq_bool_iff. lra.
  Qed.

  Lemma run_length_pos c0 m qs' : (1 <= run_length m ((c0, m) :: qs'))%nat.
  Proof. simpl. rewrite (Qeq_bool_refl m). lia. Qed.

  Lemma tot_fold_incr t ks c : tot_of (fold_left incr ks t) c = tot_of t c + count c ks.
  Proof. unfold tot_of, incr. apply dget_or_fold_incr. Qed.

  Lemma item_ok_same_tot t t' it : tot_of t' (fst it) = tot_of t (fst it) -> item_ok t it -> item_ok t' it.
  Proof. unfold item_ok. intros ->. tauto. Qed.

  Lemma newq_item_ok t b x : (forall c, 0 <= tot_of t c) -> In x (newq t b) -> item_ok t x.
  Proof.
    unfold newq. intros Hnn. destruct (tot_of t (fst b) <? cap (fst b)) eqn:E; [|intros []].
    destruct (dget votes (fst b)) as [v|] eqn:Ev; [|intros []]. intros [<-|[]].
    exists v. simpl. split; [exact Ev|]. split; [reflexivity|]. apply Z.ltb_lt in E. split; [apply Hnn|exact E].
  Qed.

  Lemma newq_same t b : item_ok t b -> newq t b = [b].
  Proof.
    intros (v & Hv & Hx & H0 & Hc). unfold newq. apply Z.ltb_lt in Hc. rewrite Hc, Hv.
    destruct b as [c x]. simpl in *. rewrite Hx. reflexivity.
  Qed.

  Lemma flat_map_newq_same t batch : Forall (item_ok t) batch -> flat_map (newq t) batch = batch.
  Proof.
    induction 1 as [|b batch Hb _ IH]; simpl; [reflexivity|]. rewrite (newq_same _ _ Hb), IH. reflexivity.
  Qed.

  (* ---- one iteration preserves the invariant *)
  Lemma step_inv s : Inv s -> 0 < st_rem s -> st_qs s <> [] -> Inv (step s).
  Proof.
    intros I Hrem Hne. unfold HighestAverages.step.
    destruct I as [Ind Iit Isorted Iopt Icaps Inn Icomp Irem Iacc Iaw Iracc Itie].
    destruct (st_qs s) as [|[c0 m] qs'] eqn:Eqs; [congruence|]. clear Hne. cbv zeta.
    remember (@cons qitem (c0, m) qs') as qs eqn:Eq0 in *.
    assert (Hk1 : (1 <= run_length m qs)%nat) by (rewrite Eq0; apply run_length_pos).
    assert (Hmax : Forall (fun y => (snd y <= m)%Q) qs).
    { pose proof Isorted as Hs0. rewrite Eq0 in Hs0. rewrite Eq0. exact (head_max c0 m qs' Hs0). }
    destruct (run_split_ex m qs) as (batch & rest & Hqs & Hlen & Hfb & Hbm & Hrest0).
    rewrite Hfb. clear Hfb.
    remember (run_length m qs) as k eqn:Ek0 in *. clear Ek0.
    assert (Hs2 : sortedq (batch ++ rest)) by (rewrite <- Hqs; exact Isorted).
    assert (Hbne : batch <> []) by (intros E; rewrite E in Hlen; simpl in Hlen; lia).
    assert (Hrestlt : Forall (fun y => Qeq_bool (snd y) m = false) rest).
    { apply (rest_below m batch rest Hbne); [exact Hs2|exact Hbm|exact Hrest0]. }
    assert (Hnd2 : NoDup (map fst batch ++ map fst rest)).
    { pose proof Ind as Ind2. rewrite Hqs, map_app in Ind2. exact Ind2. }
    destruct (nodup_app_inv _ _ Hnd2) as (Hndb & Hndr & Hdisj).
    assert (Hitb : Forall (item_ok (st_totals s)) batch).
    { rewrite Hqs in Iit. apply Forall_app in Iit. tauto. }
    assert (Hitr : Forall (item_ok (st_totals s)) rest).
    { rewrite Hqs in Iit. apply Forall_app in Iit. tauto. }
    assert (Hsr : sortedq rest) by (apply (sortedq_app_r batch); exact Hs2).
    destruct (Z.of_nat k <=? st_rem s) eqn:Ek.
    - (* ---------------- the batch is elected *)
      apply Z.leb_le in Ek.
      set (t' := fold_left incr (map fst (rev batch)) (st_totals s)).
      assert (Htot' : forall c, tot_of t' c = tot_of (st_totals s) c + count c (map fst batch)).
      { intros c. unfold t'. rewrite tot_fold_incr, map_rev, count_rev. reflexivity. }
      assert (Hin_b : forall c, In c (map fst batch) -> tot_of t' c = tot_of (st_totals s) c + 1).
      { intros c Hc. rewrite Htot', (count_nodup _ _ Hndb Hc). reflexivity. }
      assert (Hnin_b : forall c, ~ In c (map fst batch) -> tot_of t' c = tot_of (st_totals s) c).
      { intros c Hc. rewrite Htot', (count_notin _ _ Hc). lia. }
      assert (Hnn' : forall c, 0 <= tot_of t' c).
      { intros c. rewrite Htot'. pose proof (count_nonneg c (map fst batch)). pose proof (Inn c). unfold tot in *. unfold tot_of. lia. }
      (* new quotients of batch members are below the batch quotient *)
      assert (Hnew_le : forall b, In b batch -> forall x, In x (newq t' b) -> (snd x <= m)%Q).
      { intros b Hb x Hx. rewrite Forall_forall in Hitb. destruct (Hitb b Hb) as (v & Hv & Hsnd & H0 & Hc).
        unfold newq in Hx. destruct (tot_of t' (fst b) <? cap (fst b)); [|destruct Hx].
        rewrite Hv in Hx. destruct Hx as [<-|[]]. simpl.
        rewrite (Hin_b (fst b)) by (apply in_map; exact Hb).
        rewrite Forall_forall in Hbm. specialize (Hbm b Hb). apply Qeq_bool_iff in Hbm.
        rewrite <- Hbm, Hsnd.
        apply quot_mono.
        - apply (Hvotes (fst b)). apply dget_In. exact Hv.
        - apply Hpos. exact H0.
        - apply Hmono. exact H0. }
      assert (Hpr : pop_reinsert t' k qs = reins t' batch rest).
      { rewrite Hqs at 1. rewrite <- Hlen. apply pop_reinsert_batch.
        intros b Hb x Hx. apply Forall_forall. intros y Hy.
        apply Qle_bool_iff. pose proof (Hnew_le b Hb x Hx) as H1.
        rewrite Forall_forall in Hbm. specialize (Hbm y Hy). apply Qeq_bool_iff in Hbm. lra. }
      rewrite Hpr.
      pose proof (reins_perm t' batch rest) as Hperm.
      constructor; simpl.
      + (* nodup *)
        eapply Permutation_NoDup; [apply Permutation_map, Permutation_sym, Hperm|].
        rewrite map_app. apply newq_keys. exact Hnd2.
      + (* items *)
        eapply Permutation_Forall; [apply Permutation_sym, Hperm|].
        apply Forall_app. split.
        * apply Forall_forall. intros x Hx. apply in_flat_map in Hx. destruct Hx as (b & Hb & Hx).
          eapply newq_item_ok; [exact Hnn'|exact Hx].
        * apply Forall_forall. intros y Hy. rewrite Forall_forall in Hitr.
          apply (item_ok_same_tot (st_totals s)); [|apply Hitr, Hy].
          apply Hnin_b. intros Hc. apply (Hdisj _ Hc). apply in_map. exact Hy.
      + apply reins_sorted. exact Hsr.
      + (* optimal *)
        intros a Ha. eapply Permutation_Forall; [apply Permutation_sym, Hperm|].
        assert (Ham : (m <= snd a)%Q).
        { apply in_app_or in Ha. destruct Ha as [Ha|Ha].
          - specialize (Iopt a Ha). rewrite Forall_forall in Iopt. apply (Iopt (c0, m)). rewrite Eq0. left. reflexivity.
          - apply in_rev in Ha. rewrite Forall_forall in Hbm. specialize (Hbm a Ha).
            apply Qeq_bool_iff in Hbm. lra. }
        apply Forall_app. split.
        * apply Forall_forall. intros x Hx. apply in_flat_map in Hx. destruct Hx as (b & Hb & Hx).
          pose proof (Hnew_le b Hb x Hx). lra.
        * apply Forall_forall. intros y Hy. rewrite Forall_forall in Hmax.
          assert (In y qs) by (rewrite Hqs; apply in_or_app; right; exact Hy).
          specialize (Hmax y H). lra.
      + (* caps *)
        intros c. unfold tot. simpl. fold (tot_of t' c).
        destruct (in_dec Pos.eq_dec c (map fst batch)) as [Hc|Hc].
        * left. rewrite (Hin_b c Hc). apply in_map_iff in Hc. destruct Hc as (b & <- & Hb).
          rewrite Forall_forall in Hitb. destruct (Hitb b Hb) as (v & _ & _ & _ & Hcap). lia.
        * rewrite (Hnin_b c Hc). apply Icaps.
      + intros c. unfold tot. simpl. apply Hnn'.
      + (* complete *)
        intros c v Hin Hlt. unfold tot in Hlt. simpl in Hlt. fold (tot_of t' c) in Hlt.
        eapply Permutation_in; [apply Permutation_map, Permutation_sym, Hperm|].
        rewrite map_app. apply in_or_app.
        assert (Hold : In c (map fst qs)).
        { apply (Icomp c v Hin). unfold tot. fold (tot_of (st_totals s) c).
          rewrite Htot' in Hlt. pose proof (count_nonneg c (map fst batch)). lia. }
        rewrite Hqs, map_app in Hold. apply in_app_or in Hold. destruct Hold as [Hb|Hr]; [left|right; exact Hr].
        apply in_map_iff in Hb. destruct Hb as (b & <- & Hb).
        rewrite Forall_forall in Hitb. destruct (Hitb b Hb) as (v' & Hv' & _).
        apply in_map_iff. exists (fst b, (v' / d (tot_of t' (fst b)))%Q). split; [reflexivity|].
        apply in_flat_map. exists b. split; [exact Hb|].
        unfold newq. apply Z.ltb_lt in Hlt. rewrite Hlt, Hv'. left. reflexivity.
      + left. lia.
      + (* accounting *)
        intros c. unfold tot. simpl. fold (tot_of t' c). rewrite Htot'.
        rewrite map_app, count_app, map_rev, count_rev.
        specialize (Iacc c). unfold tot in Iacc. unfold tot_of. rewrite Iacc, Z.add_assoc. reflexivity.
      + (* awards are genuine quotients *)
        apply Forall_app. split.
        * eapply Forall_impl; [|exact Iaw]. intros a (v & j & Hv & Hs & Hj). exists v, j.
          split; [exact Hv|]. split; [exact Hs|]. unfold tot in *. simpl. fold (tot_of t' (fst a)).
          rewrite Htot'. pose proof (count_nonneg (fst a) (map fst batch)). unfold tot_of. lia.
        * apply Forall_forall. intros a Ha. apply in_rev in Ha.
          rewrite Forall_forall in Hitb. destruct (Hitb a Ha) as (v & Hv & Hs & H0 & Hc).
          exists v, (tot_of (st_totals s) (fst a)). split; [exact Hv|]. split; [exact Hs|].
          unfold tot. simpl. fold (tot_of t' (fst a)). rewrite (Hin_b (fst a)) by (apply in_map; exact Ha).
          specialize (Iacc (fst a)). unfold tot in Iacc. unfold tot_of in *.
          pose proof (count_nonneg (fst a) (map fst (st_awards s))). lia.
      + (* seat accounting *)
        rewrite app_length, rev_length, Hlen.
        destruct (st_tie s) as [[T0 r0]|] eqn:Et.
        * destruct (Itie T0 r0 eq_refl) as (H0 & _). lia.
        * lia.
      + intros T r [=].
    - (* ---------------- tie *)
      apply Z.leb_gt in Ek.
      assert (Hsame : flat_map (newq (st_totals s)) batch = batch) by (apply flat_map_newq_same; exact Hitb).
      assert (Hpr : pop_reinsert (st_totals s) k qs = reins (st_totals s) batch rest).
      { rewrite Hqs at 1. rewrite <- Hlen. apply pop_reinsert_batch.
        intros b Hb x Hx. rewrite Forall_forall in Hitb. rewrite (newq_same _ _ (Hitb b Hb)) in Hx.
        destruct Hx as [<-|[]]. apply Forall_forall. intros y Hy. apply Qle_bool_iff.
        rewrite Forall_forall in Hbm. pose proof (Hbm b Hb) as H1. pose proof (Hbm y Hy) as H2.
        apply Qeq_bool_iff in H1, H2. lra. }
      rewrite Hpr.
      assert (Hperm : Permutation (reins (st_totals s) batch rest) qs).
      { rewrite (reins_perm (st_totals s) batch rest), Hsame, <- Hqs. reflexivity. }
      constructor; simpl.
      + eapply Permutation_NoDup; [apply Permutation_map, Permutation_sym, Hperm|exact Ind].
      + eapply Permutation_Forall; [apply Permutation_sym, Hperm|exact Iit].
      + apply reins_sorted. exact Hsr.
      + intros a Ha. eapply Permutation_Forall; [apply Permutation_sym, Hperm|apply Iopt, Ha].
      + exact Icaps.
      + exact Inn.
      + intros c v Hin Hlt. eapply Permutation_in; [apply Permutation_map, Permutation_sym, Hperm|].
        apply (Icomp c v Hin Hlt).
      + left. lia.
      + exact Iacc.
      + exact Iaw.
      + destruct (st_tie s) as [[T0 r0]|] eqn:Et.
        * destruct (Itie T0 r0 eq_refl) as (H0 & _). lia.
        * lia.
      + intros T r [= <- <-]. split; [reflexivity|]. split.
        { rewrite map_length, rev_length, Hlen. lia. }
        exists m. split; [exists c0; eapply Permutation_in; [apply Permutation_sym, Hperm|rewrite Eq0; left; reflexivity]|].
        split; [eapply Permutation_Forall; [apply Permutation_sym, Hperm|exact Hmax]|].
        assert (Hf : filter (fun y : qitem => Qeq_bool (snd y) m) qs = batch).
        { assert (H1 : filter (fun y : qitem => Qeq_bool (snd y) m) batch = batch) by (apply filter_all; exact Hbm).
          assert (H2 : filter (fun y : qitem => Qeq_bool (snd y) m) rest = []) by (apply filter_none; exact Hrestlt).
          rewrite Hqs, filter_app, H1, H2. apply app_nil_r. }
        apply Permutation_sym. etransitivity; [apply Permutation_map, Permutation_filter', Hperm|].
        assert (Hg : Permutation (map fst (filter (fun y : qitem => Qeq_bool (snd y) m) qs)) (map fst (rev batch))).
        { rewrite Hf, map_rev. apply Permutation_rev. }
        exact Hg.
  Qed.

  (* ---- the initial state *)
  Definition init_item (cv : C * Q) : list (C * Q) :=
    let (c, v) := cv in
    let t := dget_or prev c 0 in
    if Qle_bool (d t) 0 then [] else
    if t <? cap c then [(c, (v / d t)%Q)] else [].

  Lemma initial_quotients_eq :
    initial_quotients d votes prev caps n = rev (@sort_asc C Q Qle_bool (flat_map init_item votes)).
  Proof. reflexivity. Qed.

  Lemma init_items_keys (vs : list (C * Q)) :
    NoDup (map fst vs) -> NoDup (map fst (flat_map init_item vs)).
  Proof.
    induction vs as [|[c v] vs IH]; simpl; intros H; [constructor|].
    inversion H as [|? ? Hc Hn]; subst. specialize (IH Hn). rewrite map_app.
    assert (Hsub : forall k, In k (map fst (flat_map init_item vs)) -> In k (map fst vs)).
    { intros k Hk. apply in_map_iff in Hk. destruct Hk as (y & <- & Hy). apply in_flat_map in Hy.
      destruct Hy as ([c' v'] & Hin & Hy). apply in_map_iff. exists (c', v'). split; [|exact Hin].
      unfold init_item in Hy. destruct (Qle_bool _ _); [destruct Hy|].
      destruct (_ <? _); [|destruct Hy]. destruct Hy as [<-|[]]. reflexivity. }
    destruct (Qle_bool (d (dget_or prev c 0)) 0); [exact IH|].
    destruct (dget_or prev c 0 <? cap c); [|exact IH].
    simpl. constructor; [|exact IH]. intros Hk. apply Hc, Hsub, Hk.
  Qed.

  Lemma init_inv : Inv (init_state d votes n prev caps).
  Proof.
    unfold init_state. rewrite initial_quotients_eq.
    set (items := flat_map init_item votes).
    assert (Hperm : Permutation (rev (@sort_asc C Q Qle_bool items)) items).
    { rewrite <- Permutation_rev. apply sort_asc_perm. }
    constructor; simpl.
    - eapply Permutation_NoDup; [apply Permutation_map, Permutation_sym, Hperm|].
      apply init_items_keys. exact Hnd.
    - eapply Permutation_Forall; [apply Permutation_sym, Hperm|].
      apply Forall_forall. intros y Hy. apply in_flat_map in Hy. destruct Hy as ([c v] & Hin & Hy).
      unfold init_item in Hy. destruct (Qle_bool _ _); [destruct Hy|].
      destruct (_ <? _) eqn:E; [|destruct Hy]. destruct Hy as [<-|[]].
      exists v. simpl. split; [apply In_dget; assumption|]. split; [reflexivity|].
      apply Z.ltb_lt in E. split; [apply Hprev|exact E].
    - apply sorted_rev_asc, sort_asc_sorted.
    - intros a [].
    - intros c. right. reflexivity.
    - intros c. apply Hprev.
    - intros c v Hin Hlt. unfold tot in Hlt. simpl in Hlt.
      eapply Permutation_in; [apply Permutation_map, Permutation_sym, Hperm|].
      apply in_map_iff. exists (c, (v / d (dget_or prev c 0%Z))%Q). split; [reflexivity|].
      apply in_flat_map. exists (c, v). split; [exact Hin|]. unfold init_item.
      assert (Qle_bool (d (dget_or prev c 0)) 0%Q = false) as ->.
      { apply not_true_iff_false. rewrite Qle_bool_iff. pose proof (Hpos _ (Hprev c)). lra. }
      apply Z.ltb_lt in Hlt. rewrite Hlt. left. reflexivity.
    - right. reflexivity.
    - intros c. unfold tot. simpl. lia.
    - constructor.
    - lia.
    - intros T r [=].
  Qed.

  Lemma loop_inv fuel : forall s, Inv s -> Inv (loop fuel s).
  Proof.
    induction fuel as [|f IH]; intros s I; simpl; [exact I|].
    destruct (0 <? st_rem s) eqn:E1; simpl; [|exact I].
    destruct (st_qs s) eqn:E2; simpl; [exact I|].
    apply IH. apply step_inv; [exact I|apply Z.ltb_lt; exact E1|rewrite E2; discriminate].
  Qed.

  Lemma step_rem s : 0 < st_rem s -> st_qs s <> [] -> st_rem (step s) <= st_rem s - 1.
  Proof.
    intros Hr Hne. unfold HighestAverages.step. destruct (st_qs s) as [|[c0 m] qs'] eqn:E; [congruence|].
    cbv zeta. pose proof (run_length_pos c0 m qs') as Hk.
    set (k := run_length m _) in *. clearbody k.
    destruct (_ <=? _) eqn:El; cbn [st_rem]; [apply Z.leb_le in El|]; lia.
  Qed.

  Lemma loop_exit fuel : forall s, st_rem s <= Z.of_nat fuel ->
    st_rem (loop fuel s) <= 0 \/ st_qs (loop fuel s) = [].
  Proof.
    induction fuel as [|f IH]; intros s Hf; simpl.
    - left. lia.
    - destruct (0 <? st_rem s) eqn:E1; simpl; [|left; apply Z.ltb_ge; exact E1].
      destruct (st_qs s) eqn:E2; simpl; [right; exact E2|].
      apply IH. apply Z.ltb_lt in E1.
      assert (st_rem (step s) <= st_rem s - 1) by (apply step_rem; [exact E1|rewrite E2; discriminate]). lia.
  Qed.

  (* ================================================================ results *)
  Notation fin := (final_state d votes n prev caps).

  Lemma final_inv : Inv fin.
  Proof. unfold final_state. apply loop_inv, init_inv. Qed.

  Theorem ha_caps : forall c, dget_or prev c 0 <= cap c -> tot fin c <= cap c.
  Proof. intros c Hc. destruct (inv_caps _ final_inv c); lia. Qed.

  Theorem ha_optimal : forall c v a, In (c, v) votes -> tot fin c < cap c -> In a (st_awards fin) ->
    (v / d (tot fin c) <= snd a)%Q.
  Proof.
    intros c v a Hin Hlt Ha. pose proof final_inv as I.
    pose proof (inv_complete _ I c v Hin Hlt) as Hk. apply in_map_iff in Hk. destruct Hk as ([c' x] & Hc & Hy).
    simpl in Hc. subst c'.
    pose proof (inv_items _ I) as Hit. rewrite Forall_forall in Hit. destruct (Hit _ Hy) as (v' & Hv' & Hs & _).
    simpl in *. rewrite (In_dget _ _ _ Hnd Hin) in Hv'. injection Hv' as <-.
    pose proof (inv_optimal _ I a Ha) as Ho. rewrite Forall_forall in Ho. specialize (Ho _ Hy). simpl in Ho.
    unfold tot. unfold tot_of in Hs. rewrite <- Hs. exact Ho.
  Qed.

  Theorem ha_awards_genuine : forall a, In a (st_awards fin) ->
    exists v j, In (fst a, v) votes /\ snd a = (v / d j)%Q /\ dget_or prev (fst a) 0 <= j < tot fin (fst a).
  Proof.
    intros a Ha. pose proof (inv_awards _ final_inv) as H. rewrite Forall_forall in H.
    destruct (H a Ha) as (v & j & Hv & Hs & Hj). exists v, j. split; [apply dget_In; exact Hv|tauto].
  Qed.

  Theorem ha_account : forall c, tot fin c = dget_or prev c 0 + count c (map fst (st_awards fin)).
  Proof. exact (inv_account _ final_inv). Qed.

  Theorem ha_total : 0 <= n - zsum (map snd prev) ->
    st_rem fin + Z.of_nat (length (st_awards fin))
      + (match st_tie fin with Some (_, r) => r | None => 0 end) = n - zsum (map snd prev) /\
    (st_rem fin = 0 \/
     (st_qs fin = [] /\ 0 <= st_rem fin /\ forall c v, In (c, v) votes -> cap c <= tot fin c)).
  Proof.
    intros Hn. pose proof final_inv as I. split; [exact (inv_remacc _ I)|].
    assert (Hrem : 0 <= st_rem fin).
    { destruct (inv_rem _ I) as [H|H]; [exact H|].
      pose proof (inv_remacc _ I) as Hacc. rewrite H in Hacc. simpl in Hacc.
      destruct (st_tie fin) as [[T r]|] eqn:Et; [destruct (inv_tie _ I T r Et); lia|lia]. }
    assert (Hexit : st_rem fin <= 0 \/ st_qs fin = []).
    { unfold final_state. apply loop_exit. simpl. lia. }
    destruct Hexit as [H|H]; [left; lia|].
    right. split; [exact H|]. split; [exact Hrem|].
    intros c v Hin. destruct (Z.lt_ge_cases (tot fin c) (cap c)) as [Hlt|Hge]; [|lia].
    pose proof (inv_complete _ I c v Hin Hlt) as Hk. rewrite H in Hk. destruct Hk.
  Qed.

  Theorem ha_tie : forall T r, st_tie fin = Some (T, r) ->
    st_rem fin = 0 /\ 0 < r < Z.of_nat (length T) /\
    exists m, (exists c0, In (c0, m) (st_qs fin)) /\
              Forall (fun y => (snd y <= m)%Q) (st_qs fin) /\
              Permutation T (map fst (filter (fun y => Qeq_bool (snd y) m) (st_qs fin))).
  Proof. exact (inv_tie _ final_inv). Qed.

  Theorem ha_queue : NoDup (map fst (st_qs fin)) /\ sortedq (st_qs fin) /\
    Forall (fun it => exists v, In (fst it, v) votes /\ snd it = (v / d (tot fin (fst it)))%Q /\
                                0 <= tot fin (fst it) < cap (fst it)) (st_qs fin).
  Proof.
    pose proof final_inv as I. split; [exact (inv_nodup _ I)|]. split; [exact (inv_sorted _ I)|].
    eapply Forall_impl; [|exact (inv_items _ I)]. intros it (v & Hv & Hs & Hb). exists v.
    split; [apply dget_In; exact Hv|]. split; [exact Hs|exact Hb].
  Qed.
End HAP.
