(* Monotonicity of PreferenceAddition (Bucklin / Oklahoma; Model/Bucklin.v) for one seat when the CHANGED ballot itself
   contains shared ranks and shared ranks are split (C17_bucklin_shared_full_statement), for the repaired splicing loop
   of _decouple_equal_rankings ([fx] = true; sequential.py after 5993e70 + db5d821).

   Plan.
   A. The repaired loop splices every permutation in place: [splice_all true r 0 idx parts = expand r parts]
      ([splice_all_expand]), so [variants true r] is the structurally defined list [svariants r] (same order as
      itertools.product: [variants_svariants]); every variant is a ballot of plain ranks, there is at least one.
   B. [_decouple_equal_rankings] is LINEAR: for every functional f of a ballot,
        rsum f (decouple true L) == rsum (spread f) L,   spread f b = the mean of f over the variants of b
      ([decouple_linear]) - the weight deleted under a shared key is exactly the weight of the ballots processed,
      because no variant has a shared rank (this is what fails for the loop as written), and the result has no
      shared key left.
   C. Moving w up on the ballot maps the variants of the old ballot one-to-one onto the variants of the new one
      (same permutations of the same shared ranks, in the same order), each pair related by [pa_lifts]
      ([svariants_move]); so the means are ordered and [core_mono] of Proofs/Bucklin_proofs.v applies. *)
From Coq Require Import ZArith QArith List Bool Arith Lia Lqa Permutation.
From VL Require Import Prelude.Sx Prelude.PyDict Prelude.GDict Model.GetNBest Model.Convert Model.Bucklin
     Proofs.Dict_proofs Proofs.QOrd Proofs.GetNBest_proofs Proofs.Additive_proofs Proofs.Bucklin_proofs.
Import ListNotations.
Open Scope Q_scope.

(* ------------------------------------------------------------------ A. the repaired splicing loop *)
(* every shared rank replaced, in place, by the next part *)
Fixpoint expand (r : ranked) (parts : list (list C)) : ranked :=
  match r with
  | [] => []
  | IP c :: t => IP c :: expand t parts
  | IS l :: t => match parts with
                 | p :: ps => map IP p ++ expand t ps
                 | [] => IS l :: t
                 end
  end.

Lemma firstn_len_app {X} (a b : list X) : firstn (length a) (a ++ b) = a.
Proof. induction a as [|x a IH]; simpl; [destruct b; reflexivity|]. rewrite IH. reflexivity. Qed.

Lemma skipn_S_len_app {X} (a : list X) x b : skipn (S (length a)) (a ++ x :: b) = b.
Proof. induction a as [|y a IH]; simpl; [reflexivity|]. exact IH. Qed.

Lemma splice_at (done : ranked) it t p : splice (done ++ it :: t) (length done) p = done ++ map IP p ++ t.
Proof. unfold splice. rewrite firstn_len_app, skipn_S_len_app. reflexivity. Qed.

Lemma splice_all_expand : forall (rest done : ranked) (i : nat) (offset : Z) (parts : list (list C)),
  offset = (Z.of_nat (length done) - Z.of_nat i)%Z ->
  splice_all true (done ++ rest) offset (map fst (shared_ranks_from i rest)) parts = done ++ expand rest parts.
Proof.
  induction rest as [|it t IH]; intros done i offset parts Ho.
  - cbn [shared_ranks_from map splice_all expand]. reflexivity.
  - destruct it as [c|l].
    + cbn [shared_ranks_from expand].
      replace (done ++ IP c :: t) with ((done ++ [IP c]) ++ t) by (rewrite <- app_assoc; reflexivity).
      rewrite (IH (done ++ [IP c]) (S i) offset parts).
      * rewrite <- app_assoc. reflexivity.
      * rewrite app_length. cbn [length]. lia.
    + cbn [shared_ranks_from map fst expand]. destruct parts as [|p ps]; [reflexivity|].
      cbn [splice_all]. subst offset.
      replace (Z.to_nat (Z.of_nat i + (Z.of_nat (length done) - Z.of_nat i))) with (length done) by lia.
      rewrite splice_at.
      replace (done ++ map IP p ++ t) with ((done ++ map IP p) ++ t) by (rewrite <- app_assoc; reflexivity).
      rewrite (IH (done ++ map IP p) (S i)).
      * rewrite <- app_assoc. reflexivity.
      * rewrite app_length, map_length. lia.
Qed.

(* the variants, structurally: the first shared rank varies slowest (itertools.product) *)
Fixpoint svariants (r : ranked) : list ranked :=
  match r with
  | [] => [[]]
  | IP c :: t => map (cons (IP c)) (svariants t)
  | IS l :: t => flat_map (fun p => map (app (map IP p)) (svariants t)) (perms l)
  end.

Lemma map_flat_map {X Y Z} (f : Y -> Z) (g : X -> list Y) l : map f (flat_map g l) = flat_map (fun x => map f (g x)) l.
Proof. induction l as [|x l IH]; simpl; [reflexivity|]. rewrite map_app, IH. reflexivity. Qed.

Lemma expand_svariants : forall r i,
  map (expand r) (product (map (fun il : nat * list C => perms (snd il)) (shared_ranks_from i r))) = svariants r.
Proof.
  induction r as [|it t IH]; intros i; [reflexivity|].
  destruct it as [c|l]; cbn [shared_ranks_from svariants].
  - rewrite <- (IH (S i)), map_map. apply map_ext. intros s. reflexivity.
  - cbn [map snd product]. rewrite map_flat_map. apply flat_map_ext. intros p.
    rewrite <- (IH (S i)), !map_map. apply map_ext. intros s. reflexivity.
Qed.

Theorem variants_svariants r : variants true r = svariants r.
Proof.
  rewrite <- (expand_svariants r 0). unfold variants. cbv zeta. apply map_ext. intros parts.
  exact (splice_all_expand r [] 0%nat 0%Z parts eq_refl).
Qed.

(* permutations list members of the shared rank only, and there is at least one *)
Lemma picks_in {X} (l : list X) : forall x rest, In (x, rest) (picks l) -> In x l /\ incl rest l.
Proof.
  induction l as [|a l IH]; intros x rest H; simpl in H; [destruct H|]. destruct H as [H|H].
  - injection H as <- <-. split; [left; reflexivity|intros y Hy; right; exact Hy].
  - apply in_map_iff in H. destruct H as ([y r] & E & Hin). cbn [fst snd] in E. injection E as <- <-.
    destruct (IH _ _ Hin) as [H1 H2]. split; [right; exact H1|].
    intros z [<-|Hz]; [left; reflexivity|right; apply H2, Hz].
Qed.

Lemma perms_n_incl : forall n (l p : list C), In p (perms_n n l) -> incl p l.
Proof.
  induction n as [|n IH]; intros l p H; cbn [perms_n] in H.
  - destruct H as [<-|[]]. intros y [].
  - apply in_flat_map in H. destruct H as ([x rest] & Hpk & Hm). apply in_map_iff in Hm. destruct Hm as (q & <- & Hq).
    cbn [fst snd] in *. destruct (picks_in l x rest Hpk) as [Hx Hrest].
    intros y [<-|Hy]; [exact Hx|]. apply Hrest. exact (IH rest q Hq y Hy).
Qed.

Lemma perms_incl (l p : list C) : In p (perms l) -> incl p l.
Proof. apply perms_n_incl. Qed.

Lemma perms_n_nonempty : forall n (l : list C), (n <= length l)%nat -> perms_n n l <> [].
Proof.
  induction n as [|n IH]; intros l H; cbn [perms_n]; [discriminate|].
  destruct l as [|x t]; [cbn [length] in H; lia|]. cbn [picks flat_map fst snd]. intros E.
  apply app_eq_nil in E. destruct E as [E _]. apply map_eq_nil in E. apply (IH t); [cbn [length] in H; lia|exact E].
Qed.

Lemma perms_nonempty (l : list C) : perms l <> [].
Proof. apply perms_n_nonempty. apply le_n. Qed.

Lemma svariants_nonempty r : svariants r <> [].
Proof.
  induction r as [|it t IH]; [discriminate|]. destruct it as [c|l]; cbn [svariants].
  - intros E. apply map_eq_nil in E. exact (IH E).
  - destruct (perms l) as [|p ps] eqn:Ep; [exact (False_ind _ (perms_nonempty l Ep))|].
    cbn [flat_map]. intros E. apply app_eq_nil in E. destruct E as [E _]. apply map_eq_nil in E. exact (IH E).
Qed.

Lemma svariants_plain r : forall v, In v (svariants r) -> has_shared v = false.
Proof.
  induction r as [|it t IH]; intros v H; cbn [svariants] in H.
  - destruct H as [<-|[]]. reflexivity.
  - destruct it as [c|l].
    + apply in_map_iff in H. destruct H as (v0 & <- & Hv0). cbn. apply IH, Hv0.
    + apply in_flat_map in H. destruct H as (p & _ & H). apply in_map_iff in H. destruct H as (v0 & <- & Hv0).
      rewrite has_shared_app. fold (plain_ballot p). rewrite has_shared_plain. cbn [orb]. apply IH, Hv0.
Qed.

(* ------------------------------------------------------------------ B. _decouple_equal_rankings is linear *)
Lemma list_eqb_refl {X} (e : X -> X -> bool) (He : forall a, e a a = true) l : list_eqb e l l = true.
Proof. induction l as [|x l IH]; simpl; [reflexivity|]. rewrite He, IH. reflexivity. Qed.

Lemma item_eqb_refl a : item_eqb a a = true.
Proof. destruct a as [c|l]; simpl; [apply Pos.eqb_refl|apply list_eqb_refl, Pos.eqb_refl]. Qed.

Lemma ranked_eqb_refl b : ranked_eqb b b = true.
Proof. apply list_eqb_refl, item_eqb_refl. Qed.

Lemma gadd_keys_in (d : list (ranked * Q)) k0 y k : In k (map fst (gadd ranked_eqb d k0 y)) -> k = k0 \/ In k (map fst d).
Proof.
  induction d as [|[k1 v] d IH]; simpl.
  - intros [<-|[]]. left. reflexivity.
  - destruct (ranked_eqb k0 k1) eqn:E; simpl.
    + intros [<-|H]; [right; left; reflexivity|right; right; exact H].
    + intros [<-|H]; [right; left; reflexivity|]. destruct (IH H) as [H1|H1]; [left; exact H1|right; right; exact H1].
Qed.

Lemma fold_gadd_keys_in s vs : forall (d : list (ranked * Q)) k,
  In k (map fst (fold_left (fun acc v => gadd ranked_eqb acc v s) vs d)) -> In k vs \/ In k (map fst d).
Proof.
  induction vs as [|v vs IH]; intros d k H; simpl in H; [right; exact H|].
  destruct (IH _ _ H) as [H1|H1]; [left; right; exact H1|].
  destruct (gadd_keys_in _ _ _ _ H1) as [->|H2]; [left; left; reflexivity|right; exact H2].
Qed.

Lemma rdel_keys_in (d : list (ranked * Q)) k0 k : In k (map fst (rdel d k0)) -> In k (map fst d) /\ k <> k0.
Proof.
  unfold rdel. intros H. apply in_map_iff in H. destruct H as ([k1 v] & E & H). cbn [fst] in E. subst k1.
  apply filter_In in H. destruct H as [H1 H2]. cbn [fst] in H2. split; [apply in_map_iff; exists (k, v); auto|].
  intros ->. rewrite ranked_eqb_refl in H2. discriminate.
Qed.

(* every shared key of the dictionary under construction is still to be processed *)
Definition shared_keys_in (new L : list (ranked * Q)) : Prop :=
  forall k, In k (map fst new) -> has_shared k = true -> In k (map fst L).

Lemma step_shared_keys new bw L : shared_keys_in new (bw :: L) -> shared_keys_in (decouple_step true new bw) L.
Proof.
  intros H k Hk Hs. unfold decouple_step in Hk. destruct (has_shared (fst bw)) eqn:E.
  - cbv zeta in Hk. apply fold_gadd_keys_in in Hk. destruct Hk as [Hk|Hk].
    + rewrite variants_svariants in Hk. rewrite (svariants_plain _ _ Hk) in Hs. discriminate.
    + apply rdel_keys_in in Hk. destruct Hk as [Hk Hne]. destruct (H k Hk Hs) as [Hb|Hb]; [congruence|exact Hb].
  - destruct (H k Hk Hs) as [Hb|Hb]; [congruence|exact Hb].
Qed.

Lemma decouple_plain_keys L : forall k, In k (map fst (decouple true L)) -> has_shared k = false.
Proof.
  assert (G : forall L0 new, shared_keys_in new L0 -> shared_keys_in (fold_left (decouple_step true) L0 new) []).
  { induction L0 as [|bw L0 IH]; intros new H; simpl; [exact H|]. apply IH. apply step_shared_keys, H. }
  intros k Hk. destruct (has_shared k) eqn:E; [|reflexivity].
  exfalso. apply (G L L (fun k H _ => H) k Hk E).
Qed.

(* the plain part of a functional, the mean over the variants, and their sum *)
Definition pl (f : ranked -> Q) : ranked -> Q := fun b => if has_shared b then 0 else f b.
Definition avgv (f : ranked -> Q) (b : ranked) : Q :=
  / inject_Z (Z.of_nat (length (variants true b))) * lsum f (variants true b).
Definition shp (f : ranked -> Q) : ranked -> Q := fun b => if has_shared b then avgv f b else 0.
Definition spread (f : ranked -> Q) : ranked -> Q := fun b => if has_shared b then avgv f b else f b.

Lemma lsum_ext_in f g vs : (forall v, In v vs -> f v == g v) -> lsum f vs == lsum g vs.
Proof.
  induction vs as [|v vs IH]; simpl; intros H; [reflexivity|].
  rewrite (H v) by (left; reflexivity). rewrite IH by (intros v0 H0; apply H; right; exact H0). reflexivity.
Qed.

Lemma lsum_pl f b : lsum (pl f) (variants true b) == lsum f (variants true b).
Proof.
  apply lsum_ext_in. intros v Hv. rewrite variants_svariants in Hv. unfold pl. rewrite (svariants_plain _ _ Hv). reflexivity.
Qed.

Lemma step_pl f new bw : rsum (pl f) (decouple_step true new bw) == rsum (pl f) new + snd bw * shp f (fst bw).
Proof.
  destruct (has_shared (fst bw)) eqn:E.
  - rewrite (rsum_decouple_step true (pl f) new bw E), lsum_pl. unfold shp, avgv. rewrite E.
    unfold pl at 2. rewrite E. unfold Qdiv. ring.
  - unfold decouple_step, shp. rewrite E. ring.
Qed.

Lemma fold_pl f : forall L new,
  rsum (pl f) (fold_left (decouple_step true) L new) == rsum (pl f) new + rsum (shp f) L.
Proof.
  induction L as [|bw L IH]; intros new; simpl; [ring|]. rewrite IH, step_pl. ring.
Qed.

Theorem decouple_linear f L : rsum f (decouple true L) == rsum (spread f) L.
Proof.
  assert (E1 : rsum f (decouple true L) == rsum (pl f) (decouple true L)).
  { apply rsum_ext_in. intros bw Hb. unfold pl.
    rewrite (decouple_plain_keys L (fst bw)) by (apply in_map; exact Hb). reflexivity. }
  rewrite E1. unfold decouple. rewrite fold_pl, <- rsum_plus. apply rsum_ext_in. intros bw _.
  unfold pl, shp, spread. destruct (has_shared (fst bw)); ring.
Qed.

(* the weight of a ballot is kept *)
Lemma lsum_const (vs : list ranked) : lsum (fun _ => 1) vs == inject_Z (Z.of_nat (length vs)).
Proof.
  induction vs as [|v vs IH]; [reflexivity|]. cbn [lsum fold_right length]. fold (lsum (fun _ : ranked => 1) vs).
  rewrite IH, Nat2Z.inj_succ, <- Z.add_1_l, inject_Z_plus. reflexivity.
Qed.

Lemma spread_one b : spread (fun _ => 1) b == 1.
Proof.
  unfold spread. destruct (has_shared b); [|reflexivity]. unfold avgv. rewrite lsum_const.
  rewrite Qmult_comm. apply Qmult_inv_r.
  assert (Hn : length (variants true b) <> 0%nat).
  { rewrite variants_svariants. pose proof (svariants_nonempty b) as H. destruct (svariants b); [congruence|discriminate]. }
  intros H. unfold Qeq in H. cbn [inject_Z Qnum Qden] in H. lia.
Qed.

(* ------------------------------------------------------------------ the general replacement theorem, shared ranks split *)
Theorem pa_mono_replace_split coef pre post (b b' : ranked) (x : Q) (w : C) :
  Forall (fun bw => 0 <= snd bw) (pre ++ post) -> 0 <= x ->
  (forall r, spread (fun v => cumb coef v r w) b <= spread (fun v => cumb coef v r w) b') ->
  (forall r c, c <> w -> spread (fun v => cumb coef v r c) b' <= spread (fun v => cumb coef v r c) b) ->
  pa_eval true coef true (pre ++ (b, x) :: post) 1 = PA_ok [Cand w] ->
  pa_eval true coef true (pre ++ (b', x) :: post) 1 = PA_ok [Cand w].
Proof.
  intros Hnn Hx Hup Hdown. rewrite !pa_eval_1. unfold prep.
  set (L1 := pre ++ (b, x) :: post). set (L2 := pre ++ (b', x) :: post).
  apply Forall_app in Hnn. destruct Hnn as [Hpre Hpost].
  assert (HL1 : Forall (fun bw => 0 <= snd bw) L1) by (apply Forall_app; split; [|constructor]; assumption).
  assert (HL2 : Forall (fun bw => 0 <= snd bw) L2) by (apply Forall_app; split; [|constructor]; assumption).
  assert (Hrel : forall f, rsum f (decouple true L1) - rsum f (decouple true L2) == x * spread f b - x * spread f b').
  { intros f. rewrite !decouple_linear. unfold L1, L2. rewrite !rsum_app. simpl. ring. }
  apply (core_mono coef (decouple true L1) (decouple true L2) w 0);
    [apply decouple_nonneg, HL1|apply decouple_nonneg, HL2|lra| | |].
  - rewrite !wsum_rsum. pose proof (Hrel (fun _ => 1)) as H. rewrite !spread_one in H. lra.
  - intros r. pose proof (Hrel (fun b0 => cumb coef b0 (S r) w)) as H.
    fold (cum coef (decouple true L1) (S r) w) in H. fold (cum coef (decouple true L2) (S r) w) in H.
    specialize (Hup (S r)).
    assert (x * spread (fun v => cumb coef v (S r) w) b <= x * spread (fun v => cumb coef v (S r) w) b') by (apply qmul_le_l; assumption).
    lra.
  - intros r c Hc. pose proof (Hrel (fun b0 => cumb coef b0 (S r) c)) as H.
    fold (cum coef (decouple true L1) (S r) c) in H. fold (cum coef (decouple true L2) (S r) c) in H.
    specialize (Hdown (S r) c Hc).
    assert (x * spread (fun v => cumb coef v (S r) c) b' <= x * spread (fun v => cumb coef v (S r) c) b) by (apply qmul_le_l; assumption).
    lra.
Qed.

(* ------------------------------------------------------------------ C. the variants of the old and of the new ballot, pairwise *)
Lemma F2_imp {X Y} (R1 R2 : X -> Y -> Prop) l l' : (forall a b, R1 a b -> R2 a b) -> Forall2 R1 l l' -> Forall2 R2 l l'.
Proof. intros H. induction 1; constructor; auto. Qed.

Lemma F2_length {X Y} (R : X -> Y -> Prop) l l' : Forall2 R l l' -> length l = length l'.
Proof. induction 1; simpl; congruence. Qed.

Lemma F2_flip {X Y} (R : X -> Y -> Prop) l l' : Forall2 (fun a b => R b a) l' l -> Forall2 R l l'.
Proof. induction 1; constructor; auto. Qed.

Lemma Forall2_map_lr {X Y X' Y'} (R : X' -> Y' -> Prop) (f : X -> X') (g : Y -> Y') l l' :
  Forall2 (fun a b => R (f a) (g b)) l l' -> Forall2 R (map f l) (map g l').
Proof. induction 1; simpl; constructor; assumption. Qed.

Lemma Forall2_map_right {X Y Y'} (R : X -> Y' -> Prop) (g : Y -> Y') l l' :
  Forall2 (fun a b => R a (g b)) l l' -> Forall2 R l (map g l').
Proof. induction 1; simpl; constructor; assumption. Qed.

Lemma Forall2_flat_map {X Y Y'} (R : Y -> Y' -> Prop) (g : X -> list Y) (g' : X -> list Y') l :
  (forall x, In x l -> Forall2 R (g x) (g' x)) -> Forall2 R (flat_map g l) (flat_map g' l).
Proof.
  induction l as [|x l IH]; intros H; simpl; [constructor|].
  apply Forall2_app; [apply H; left; reflexivity|apply IH; intros y Hy; apply H; right; exact Hy].
Qed.

(* v' lifts w relative to v under every good coefficient function *)
Definition lifts_all (w : C) (v v' : ranked) : Prop := forall coef, coef_good coef -> pa_lifts coef v v' w.

Lemma lifts_all_app w q v v' : lifts_all w v v' -> lifts_all w (q ++ v) (q ++ v').
Proof. intros H coef Hg. apply pa_lifts_prefix; [exact H|exact Hg]. Qed.

Lemma lifts_all_cons w it v v' : lifts_all w v v' -> lifts_all w (it :: v) (it :: v').
Proof. apply (lifts_all_app w [it]). Qed.

Lemma svariants_prefix w p1 : forall t t', Forall2 (lifts_all w) (svariants t) (svariants t') ->
  Forall2 (lifts_all w) (svariants (p1 ++ t)) (svariants (p1 ++ t')).
Proof.
  induction p1 as [|it p1 IH]; intros t t' H; [exact H|]. cbn [app svariants]. destruct it as [c|l].
  - apply Forall2_map_lr. eapply F2_imp; [|apply IH, H]. intros a b. apply lifts_all_cons.
  - apply Forall2_flat_map. intros p _. apply Forall2_map_lr. eapply F2_imp; [|apply IH, H].
    intros a b. apply lifts_all_app.
Qed.

(* q is q0 with w inserted behind a prefix that does not contain w *)
Definition inserted (w : C) (q q0 : ranked) : Prop :=
  exists q2 q3, q = q2 ++ IP w :: q3 /\ q0 = q2 ++ q3 /\ ~ In w (flatten q2).

Lemma inserted_cons w it q q0 : ~ In w (members it) -> inserted w q q0 -> inserted w (it :: q) (it :: q0).
Proof.
  intros Hw (q2 & q3 & -> & -> & H). exists (it :: q2), q3. split; [reflexivity|]. split; [reflexivity|].
  unfold flatten in *. cbn [flat_map]. rewrite in_app_iff. tauto.
Qed.

Lemma inserted_app w l q q0 : ~ In w l -> inserted w q q0 -> inserted w (map IP l ++ q) (map IP l ++ q0).
Proof.
  induction l as [|c l IH]; intros Hw H; [exact H|]. cbn [map app].
  apply inserted_cons; [cbn [members]; intros [E|[]]; apply Hw; left; exact E|].
  apply IH; [intros Hl; apply Hw; right; exact Hl|exact H].
Qed.

Lemma inserted_lifts w q q0 : inserted w q q0 -> lifts_all w q (IP w :: q0).
Proof. intros (q2 & q3 & -> & -> & H) coef Hg. exact (move_up_lifts coef [] q2 q3 w Hg H). Qed.

Lemma svariants_insert w p3 : forall p2, ~ In w (flatten p2) ->
  Forall2 (inserted w) (svariants (p2 ++ IP w :: p3)) (svariants (p2 ++ p3)).
Proof.
  induction p2 as [|it t IH]; intros Hw.
  - cbn [app svariants]. induction (svariants p3) as [|a X IHX]; simpl; constructor; [|exact IHX].
    exists [], a. split; [reflexivity|]. split; [reflexivity|]. intros [].
  - assert (Hw2 : ~ In w (members it) /\ ~ In w (flatten t)).
    { unfold flatten in *. cbn [flat_map] in Hw. rewrite in_app_iff in Hw. tauto. }
    destruct Hw2 as [Hwi Hwt]. cbn [app svariants]. destruct it as [c|l].
    + apply Forall2_map_lr. eapply F2_imp; [|apply IH, Hwt]. intros a b. apply inserted_cons, Hwi.
    + apply Forall2_flat_map. intros p Hp. apply Forall2_map_lr. eapply F2_imp; [|apply IH, Hwt].
      intros a b. apply inserted_app. intros Hin. apply Hwi. cbn [members]. exact (perms_incl l p Hp w Hin).
Qed.

Theorem svariants_move w p1 p2 p3 : ~ In w (flatten p2) ->
  Forall2 (lifts_all w) (svariants (p1 ++ p2 ++ IP w :: p3)) (svariants (p1 ++ IP w :: p2 ++ p3)).
Proof.
  intros Hw. apply svariants_prefix. cbn [svariants]. apply Forall2_map_right.
  eapply F2_imp; [|apply svariants_insert, Hw]. intros a b. apply inserted_lifts.
Qed.

Lemma lsum_le f g V V' : Forall2 (fun v v' => f v <= g v') V V' -> lsum f V <= lsum g V'.
Proof. induction 1 as [|v v' V V' H _ IH]; simpl; [lra|]. fold (lsum f V). fold (lsum g V'). lra. Qed.

Lemma inv_count_nonneg n : 0 <= / inject_Z (Z.of_nat n).
Proof. apply Qinv_le_0_compat. change 0 with (inject_Z 0). rewrite <- Zle_Qle. lia. Qed.

(* the means over the variants are ordered like the variants *)
Lemma spread_le (f g : ranked -> Q) b b' :
  has_shared b' = has_shared b -> (has_shared b = false -> f b <= g b') ->
  Forall2 (fun v v' => f v <= g v') (svariants b) (svariants b') ->
  spread f b <= spread g b'.
Proof.
  intros Hs Hplain HF. unfold spread. rewrite Hs. destruct (has_shared b); [|apply Hplain; reflexivity].
  unfold avgv. rewrite !variants_svariants. rewrite <- (F2_length _ _ _ HF).
  apply qmul_le_l; [apply inv_count_nonneg|apply lsum_le, HF].
Qed.

Theorem spread_move coef p1 p2 p3 w : coef_good coef -> ~ In w (flatten p2) ->
  (forall r, spread (fun v => cumb coef v r w) (p1 ++ p2 ++ IP w :: p3) <= spread (fun v => cumb coef v r w) (p1 ++ IP w :: p2 ++ p3)) /\
  (forall r c, c <> w -> spread (fun v => cumb coef v r c) (p1 ++ IP w :: p2 ++ p3) <= spread (fun v => cumb coef v r c) (p1 ++ p2 ++ IP w :: p3)).
Proof.
  intros Hg Hw. pose proof (svariants_move w p1 p2 p3 Hw) as HF.
  destruct (move_up_lifts coef p1 p2 p3 w Hg Hw) as [U D]. split.
  - intros r. apply spread_le; [apply has_shared_move|intros _; apply U|].
    eapply F2_imp; [|exact HF]. intros a b H. exact (proj1 (H coef Hg) r).
  - intros r c Hc. apply spread_le; [symmetry; apply has_shared_move|intros _; apply D, Hc|].
    apply F2_flip. eapply F2_imp; [|exact HF]. intros a b H. exact (proj2 (H coef Hg) r c Hc).
Qed.

(* ------------------------------------------------------------------ packaged statements *)
Theorem pa_move_up_shared coef pre post (p1 p2 p3 : ranked) (x : Q) (w : C) :
  (forall i, 0 <= coef i) -> (forall i, coef (S i) <= coef i) ->
  Forall (fun bw => 0 <= snd bw) (pre ++ post) -> 0 <= x -> ~ In w (flatten p2) ->
  pa_eval true coef true (pre ++ (p1 ++ p2 ++ IP w :: p3, x) :: post) 1 = PA_ok [Cand w] ->
  pa_eval true coef true (pre ++ (p1 ++ IP w :: p2 ++ p3, x) :: post) 1 = PA_ok [Cand w].
Proof.
  intros Hnn Hdec Hw Hx Hp2. destruct (spread_move coef p1 p2 p3 w (conj Hnn Hdec) Hp2) as [U D].
  apply pa_mono_replace_split; assumption.
Qed.
